#!/usr/bin/env python3
"""Regenerates MANIFEST.json: a property is claimed when it has a check function and at least one
registered proof obligation; everything else is listed under not_applicable with the reason."""
import json, os, sys
sys.path.insert(0, os.path.dirname(os.path.abspath(__file__)))
from checks import props as P
idx = json.load(open("props_index.json"))
props = [json.loads(l) for l in open("properties.jsonl")]
NOTES = json.load(open("manifest_notes.json")) if os.path.exists("manifest_notes.json") else {}
claimed = [p["id"] for p in props if p["id"] in P.CHECKS and idx.get(p["id"], {}).get("theorems")]
m = {"version": 1,
     "setup_cmd": "./setup.sh",
     "hooks": {"guard": "--cfg pest_typed_verif",
               "enable": "no hooks are needed: every observable is public API; checks build /repo's crates as path dependencies without any cfg",
               "baseline_off_cmd": "cd /repo && cargo test --workspace --no-fail-fast --offline",
               "source_commits": [], "add_only": True},
     "engines": [{"name": "lean-model", "path": "lean/", "serves_properties": claimed,
                  "kind_free_text": "Lean 4 model + theorems (lake project, core only; proofs may import single Mathlib modules), model_driver executable for the correspondence"},
                 {"name": "harness", "path": "harness/", "serves_properties": claimed,
                  "kind_free_text": "cargo workspaces generated from grammar corpora (derive + runtime from /repo's working tree, pest_derive as oracle), direct instantiations of the runtime generics, text / accessor / generator runners"}],
     "checks": [],
     "notes": "Default cargo features are modelled; the grammar-extras feature (node tags) is built and exercised by C20's option oracle but tags are not in the Lean model. Repairs committed to /repo (fix: commits) and known findings: known_findings.json. Statement pins: props_pins.json. Seeded regressions and behaviour-preserving refactors used to test the checks: seeded/. See DESIGN.md §0, §10, §11.",
     "not_applicable": []}
for p in props:
    pid = p["id"]
    if pid in claimed:
        n = NOTES.get(pid, {})
        m["checks"].append({
            "property_id": pid,
            "quick_cmd": f"./check.py {pid} --tier quick",
            "thorough_cmd": f"./check.py {pid} --tier thorough",
            "evidence_file": f"evidence/{pid}.json",
            "replay_cmd_template": f"./check.py {pid} --replay {{path}}",
            "engine": "lean-model",
            "level_claimed": {"category": "proof",
                              "text": n.get("text", "Lean 4 theorems over the hand-written executable model (all grammars / nodes / states / inputs / fuel), bound to the code by differential execution of model and implementation on every run, plus an implementation-level oracle that searches for a concrete failing input"),
                              "design_ref": "DESIGN.md §5 " + pid},
            "level_note": n.get("note", "Trusted: Lean kernel (+propext, Quot.sound, Classical.choice), the hand-written model and its correspondence harness, pest / pest_meta / rustc as external components"),
            "technique": n.get("technique", "Lean 4 proof over executable model + differential correspondence")})
    else:
        m["not_applicable"].append({"property_id": pid, "reason": NOTES.get(pid, {}).get("na", "check not finished in this session (work in progress, see DESIGN.md); not a claim that the technique cannot apply")})
json.dump(m, open("MANIFEST.json", "w"), indent=1)
print("claimed:", claimed)
