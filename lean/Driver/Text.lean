/-
Driver.Text — text-layer cases of the line protocol (properties C12, C13, C14):

  text c12 <hex>                     Position::new / line_col / line_of
  text c13 <hex> <v|d>               Span::new / as_str / split / lines / lines_span / get / merge_spans
  text c14 <hex> <v|d> <cp:w,...>    Display of every span and position (default and bracketing option)

prints the MODEL's answers (`PestTyped.Text`) as the `t.*` fields of harness/text_runner, in the
same enumeration order and the same canonical format (`d`: fields longer than 24 bytes are replaced
by `#` + FNV-1a-64).  Used only by the correspondence checks, never inside a proof.
-/
import PestTyped.Model.Text
import PestTyped.Lemmas.TextDisplayMore   -- only for the definitions `FormatOptionE`, `displaySpanE`, `displayPositionE`
import Driver.Sexp
open PestTyped PestTyped.Text
namespace Driver.TextCases

def fnv (s : String) : String :=
  let h := s.toUTF8.foldl (fun (h : UInt64) b => (h ^^^ b.toUInt64) * 0x100000001b3) 0xcbf29ce484222325
  let n := h.toNat
  "#" ++ String.ofList ((List.range 16).reverse.map fun k => hexDigit ((n / 16 ^ k) % 16))

def field (digest : Bool) (key val : String) : String :=
  key ++ "=" ++ (if digest && val.utf8ByteSize > 24 then fnv val else val)

def boundaries (s : List Char) : List Nat := (charIndices s).map (·.1) ++ [blen s]

def pair (a b : Nat) : String := toString a ++ ":" ++ toString b

def sep (d : String) (l : List String) : String := d.intercalate l

/-! ### C12 -/

def c12 (s : List Char) (sel : Option (List Nat) := none) : String :=
  let news := match sel with | none => List.range (blen s + 2) | some v => v.flatMap fun q => [q, q + 1]
  let new := String.ofList (news.map fun p =>
    match posNew s p with | some _ => '1' | none => '0')
  let bs := match sel with | none => boundaries s | some v => v
  let lc := bs.map fun p => match lineCol s p with | .ok (l, c) => pair l c | .panic => "P"
  let lo := bs.map fun p => match lineOf s p with
    | .ok t => pair (findLineStart s p) (findLineStart s p + blen t)
    | .panic => "P"
  sep "\t" [field false "t.new" new, field false "t.lc" (sep "," lc), field false "t.lo" (sep "," lo)]

/-! ### C13 -/

def spansOf (s : List Char) : List (Nat × Nat) :=
  let bs := boundaries s
  bs.flatMap fun a => (bs.filter (· ≥ a)).map fun b => (a, b)

def mkBound (k : Char) (x : Nat) : Bound :=
  if k = 'i' then .incl x else if k = 'e' then .excl x else .unb

def showOptSpan : TR (Option Span) → String
  | .panic => "P"
  | .ok none => "-"
  | .ok (some r) => pair r.start r.stop

def getsOf (sp : Span) : String :=
  let l := sp.stop - sp.start
  let kinds := ['i', 'e', 'u']
  sep "," (kinds.flatMap fun lo => kinds.flatMap fun hi =>
    let xs := if lo = 'u' then [0] else List.range (l + 2)
    let ys := if hi = 'u' then [0] else List.range (l + 2)
    xs.flatMap fun x => ys.map fun y => showOptSpan (sp.get (mkBound lo x) (mkBound hi y)))

def c13 (digest light : Bool) (s : List Char) : String :=
  let n := blen s
  let new := String.ofList ((List.range (n + 2)).flatMap fun a => (List.range (n + 2)).map fun b =>
    match Span.new s a b with | some _ => '1' | none => '0')
  let spans := (spansOf s).map fun (a, b) => (⟨s, a, b⟩ : Span)
  let strs := spans.map fun sp => match sp.asStr with | .ok t => hex t | .panic => "P"
  let splits := spans.map fun sp => pair sp.split.1 sp.split.2
  let lines := spans.map fun sp => match sp.lines with | .ok ls => sep "," (ls.map hex) | .panic => "P"
  let ls := spans.map fun sp => sep "," (sp.linesSpan.map fun l => pair l.start l.stop)
  let head := [field digest "t.new" new, field digest "t.str" (sep ";" strs), field digest "t.split" (sep ";" splits),
    field digest "t.lines" (sep ";" lines), field digest "t.ls" (sep ";" ls)]
  if light then sep "\t" head else
  let gets := spans.map getsOf
  let merges := spans.flatMap fun x => spans.map fun y => showOptSpan (.ok (mergeSpans x y))
  sep "\t" (head ++ [field digest "t.get" (sep ";" gets), field digest "t.merge" (sep "," merges)])

/-! `get` / `new` at the top of the `usize` range (64 bits), same enumeration as the runner's `c13x`. -/

def usizeMax : Nat := 2 ^ 64 - 1

def bigBounds (l n : Nat) : List Nat :=
  [0, l, l + 1, n, n + 1, usizeMax - 1, usizeMax].foldl (fun acc x => if acc.contains x then acc else acc ++ [x]) []

def c13x (s : List Char) : String :=
  let n := blen s
  let m := usizeMax
  let spans := (spansOf s).map fun (a, b) => (⟨s, a, b⟩ : Span)
  let kinds := ['i', 'e', 'u']
  let gx := spans.map fun sp =>
    let bb := bigBounds (sp.stop - sp.start) n
    sep "," (kinds.flatMap fun lo => kinds.flatMap fun hi =>
      let xs := if lo = 'u' then [0] else bb
      let ys := if hi = 'u' then [0] else bb
      xs.flatMap fun x => ys.map fun y => showOptSpan (sp.getU 64 (mkBound lo x) (mkBound hi y)))
  let gn := spans.map fun sp => sep "," ([
    sp.getU 64 .unb (.incl m), sp.getU 64 (.incl m) .unb, sp.getU 64 .unb (.excl m), sp.getU 64 (.incl 0) (.incl m),
    sp.getU 64 (.incl m) (.incl m), sp.getU 64 (.incl 0) (.excl m), sp.getU 64 (.excl m) .unb].map showOptSpan)
  let showPos := fun (p : Nat) => match posNew s p with | some q => pair q q | none => "-"
  let nx := sep "," ([Span.new s m m, Span.new s 0 m, Span.new s m 0, Span.new s n m, Span.new s (m - 1) m].map
    (fun r => showOptSpan (.ok r)) ++ [showPos m, showPos (m - 1)])
  -- spans with start > end (`Position::span` of two positions in the wrong order)
  let bs := boundaries s
  let iv := bs.flatMap fun a => (bs.filter (· > a)).map fun b =>
    let inv : Span := ⟨s, b, a⟩
    let st := match inv.asStr with | .ok t => hex t | .panic => "P"
    let ls := "[" ++ sep "+" (inv.linesSpan.map fun l => pair l.start l.stop) ++ "]"
    let ln := match inv.lines with | .ok l => "[" ++ sep "+" (l.map hex) ++ "]" | .panic => "P"
    sep "/" [pair inv.start inv.stop, st, ls, ln, showOptSpan (inv.getU 64 .unb .unb)]
  sep "\t" ["t.nf=" ++ pair 0 n, "t.iv=" ++ sep "," iv, "t.gx=" ++ sep ";" gx, "t.gn=" ++ sep ";" gn, "t.nx=" ++ nx]

/-! Two different input objects (ids 0 and 1), same enumeration as the runner's `c13i`. -/

def c13i (a b : List Char) : String :=
  let sa := (spansOf a).map fun (x, y) => (⟨0, ⟨a, x, y⟩⟩ : ISpan)
  let sb := (spansOf b).map fun (x, y) => (⟨1, ⟨b, x, y⟩⟩ : ISpan)
  let xm := sa.flatMap fun x => sb.map fun y =>
    match mergeISpans x y with
    | none => "-"
    | some r => pair r.sp.start r.sp.stop ++ (if r.obj = 0 then "a" else if r.obj = 1 then "b" else "?")
  let bits := fun (l1 l2 : List ISpan) =>
    String.ofList (l1.flatMap fun x => l2.map fun y => if x.eq y then '1' else '0')
  let hc := (sa ++ sb).all fun x => (sa ++ sb).all fun y => !x.eq y || x.hashFeed == y.hashFeed
  sep "\t" ["t.xm=" ++ sep "," xm, "t.xe=" ++ bits sa sb, "t.se=" ++ bits sa sa, "t.hc=" ++ (if hc then "1" else "0")]

/-! ### C14 -/

def parseWidths (t : String) : Char → Nat :=
  let tbl : List (Nat × Nat) := (t.splitOn ",").filterMap fun kv =>
    match kv.splitOn ":" with
    | [k, v] => match k.toNat?, v.toNat? with
      | some k, some v => some (k, v)
      | _, _ => none
    | _ => none
  fun c => match tbl.find? (·.1 = c.toNat) with | some (_, w) => w | none => 1

def showTR : TR (List Char) → String
  | .panic => "panic"
  | .ok t => hex t

/-- `a:b,a:b;p,p` -/
def parseSel (t : String) : List (Nat × Nat) × List Nat :=
  let parts := t.splitOn ";"
  let sp := ((parts.getD 0 "").splitOn ",").filterMap fun x =>
    match x.splitOn ":" with
    | [a, b] => match a.toNat?, b.toNat? with
      | some a, some b => some (a, b)
      | _, _ => none
    | _ => none
  let ps := ((parts.getD 1 "").splitOn ",").filterMap fun x => x.toNat?
  (sp, ps)

def c14 (digest : Bool) (s : List Char) (w : Char → Nat) (sel : Option (List (Nat × Nat) × List Nat) := none) : String :=
  let spans := (match sel with | some (sp, _) => sp | none => spansOf s).map fun (a, b) => (⟨s, a, b⟩ : Span)
  let bs := match sel with | some (_, ps) => ps | none => boundaries s
  let sd := spans.map fun sp => showTR (displaySpan .default w sp)
  let sb := spans.map fun sp => showTR (displaySpan .bracket w sp)
  let pd := bs.map fun p => showTR (displayPosition .default w s p)
  let pb := bs.map fun p => showTR (displayPosition .bracket w s p)
  sep "\t" [field digest "t.sd" (sep "," sd), field digest "t.sb" (sep "," sb),
    field digest "t.pd" (sep "," pd), field digest "t.pb" (sep "," pb)]

/-! Options with a failing callback (`c14e`), same four variants as the runner. -/

def br (k : Char) (t : List Char) : List Char := '<' :: k :: ':' :: t ++ ['>']
def failMark (k : Char) : Wr := (['<', k, '!'], false)

def failingOpt (which : Nat) : FormatOptionE :=
  { span := fun t => if which = 1 then failMark 'S' else (br 'S' t, true),
    marker := fun t => if which = 2 then failMark 'M' else (br 'M' t, true),
    number := fun t => if (which = 3 ∧ t = ['|']) ∨ (which = 4 ∧ t ≠ ['|']) then failMark 'N' else (br 'N' t, true) }

def showWr : TR Wr → String
  | .panic => "panic"
  | .ok (t, ok) => hex t ++ (if ok then ":K" else ":E")

def c14eW (s : List Char) (w : Char → Nat) : String :=
  let spans := (spansOf s).map fun (a, b) => (⟨s, a, b⟩ : Span)
  let bs := boundaries s
  let es := spans.map fun sp => sep "|" ([1, 2, 3, 4].map fun k => showWr (displaySpanE (failingOpt k) w sp))
  let ep := bs.map fun p => sep "|" ([1, 2, 3, 4].map fun k => showWr (displayPositionE (failingOpt k) w s p))
  sep "\t" ["t.es=" ++ sep "," es, "t.ep=" ++ sep "," ep]

/-- One `text …` case (the leading `text` field already removed). -/
def run : List String → String
  | ["c12", h] => c12 (unhex h)
  | ["c12", h, offs] => c12 (unhex h) (some ((offs.splitOn ",").filterMap (·.toNat?)))
  | ["c13", h, m] => c13 (m.contains 'd') (m.contains 'l') (unhex h)
  | ["c13x", h] => c13x (unhex h)
  | ["c14e", h, wt] => c14eW (unhex h) (parseWidths wt)
  | ["c13i", a, b] => c13i (unhex a) (unhex b)
  | ["c14", h, m, wt] => c14 (m.contains 'd') (unhex h) (parseWidths wt)
  | ["c14", h, m, wt, sel] => c14 (m.contains 'd') (unhex h) (parseWidths wt) (some (parseSel sel))
  | _ => "v=badline"

end Driver.TextCases
