/-
Driver.Text — text-layer cases of the line protocol (properties C12, C13, C14):

  text c12 <hex>                     Position::new / line_col / line_of
  text c13 <hex> <v|d>               Span::new / as_str / split / lines / lines_span / get / merge_spans
  text c14 <hex> <v|d> <cp:w,...>    Display of every span and position (default and bracketing option)

prints the MODEL's answers (`PestTyped.Text`) as the `t.*` fields of harness/text_runner, in the
same enumeration order and the same canonical format (`d`: fields longer than 24 bytes are replaced
by `#` + FNV-1a-64).  Used only by the correspondence checks, never inside a proof.
-/
import PestTyped.Model.Text
import Driver.Sexp
open PestTyped PestTyped.Text
namespace Driver.TextCases

def fnv (s : String) : String :=
  let h := s.toUTF8.foldl (fun (h : UInt64) b => (h ^^^ b.toUInt64) * 0x100000001b3) 0xcbf29ce484222325
  let n := h.toNat
  "#" ++ String.ofList ((List.range 16).reverse.map fun k => hexDigit ((n / 16 ^ k) % 16))

def field (digest : Bool) (key val : String) : String :=
  key ++ "=" ++ (if digest && val.utf8ByteSize > 24 then fnv val else val)

def boundaries (s : List Char) : List Nat := (charIndices s).map (·.1) ++ [blen s]

def pair (a b : Nat) : String := toString a ++ ":" ++ toString b

def sep (d : String) (l : List String) : String := d.intercalate l

/-! ### C12 -/

def c12 (s : List Char) : String :=
  let new := String.ofList ((List.range (blen s + 2)).map fun p =>
    match posNew s p with | some _ => '1' | none => '0')
  let bs := boundaries s
  let lc := bs.map fun p => match lineCol s p with | .ok (l, c) => pair l c | .panic => "P"
  let lo := bs.map fun p => match lineOf s p with
    | .ok t => pair (findLineStart s p) (findLineStart s p + blen t)
    | .panic => "P"
  sep "\t" [field false "t.new" new, field false "t.lc" (sep "," lc), field false "t.lo" (sep "," lo)]

/-! ### C13 -/

def spansOf (s : List Char) : List (Nat × Nat) :=
  let bs := boundaries s
  bs.flatMap fun a => (bs.filter (· ≥ a)).map fun b => (a, b)

def mkBound (k : Char) (x : Nat) : Bound :=
  if k = 'i' then .incl x else if k = 'e' then .excl x else .unb

def showOptSpan : TR (Option Span) → String
  | .panic => "P"
  | .ok none => "-"
  | .ok (some r) => pair r.start r.stop

def getsOf (sp : Span) : String :=
  let l := sp.stop - sp.start
  let kinds := ['i', 'e', 'u']
  sep "," (kinds.flatMap fun lo => kinds.flatMap fun hi =>
    let xs := if lo = 'u' then [0] else List.range (l + 2)
    let ys := if hi = 'u' then [0] else List.range (l + 2)
    xs.flatMap fun x => ys.map fun y => showOptSpan (sp.get (mkBound lo x) (mkBound hi y)))

def c13 (digest : Bool) (s : List Char) : String :=
  let n := blen s
  let new := String.ofList ((List.range (n + 2)).flatMap fun a => (List.range (n + 2)).map fun b =>
    match Span.new s a b with | some _ => '1' | none => '0')
  let spans := (spansOf s).map fun (a, b) => (⟨s, a, b⟩ : Span)
  let strs := spans.map fun sp => match sp.asStr with | .ok t => hex t | .panic => "P"
  let splits := spans.map fun sp => pair sp.split.1 sp.split.2
  let lines := spans.map fun sp => match sp.lines with | .ok ls => sep "," (ls.map hex) | .panic => "P"
  let ls := spans.map fun sp => sep "," (sp.linesSpan.map fun l => pair l.start l.stop)
  let gets := spans.map getsOf
  let merges := spans.flatMap fun x => spans.map fun y => showOptSpan (.ok (mergeSpans x y))
  sep "\t" [field digest "t.new" new, field digest "t.str" (sep ";" strs), field digest "t.split" (sep ";" splits),
    field digest "t.lines" (sep ";" lines), field digest "t.ls" (sep ";" ls), field digest "t.get" (sep ";" gets),
    field digest "t.merge" (sep "," merges)]

/-! ### C14 -/

def parseWidths (t : String) : Char → Nat :=
  let tbl : List (Nat × Nat) := (t.splitOn ",").filterMap fun kv =>
    match kv.splitOn ":" with
    | [k, v] => match k.toNat?, v.toNat? with
      | some k, some v => some (k, v)
      | _, _ => none
    | _ => none
  fun c => match tbl.find? (·.1 = c.toNat) with | some (_, w) => w | none => 1

def showTR : TR (List Char) → String
  | .panic => "panic"
  | .ok t => hex t

def c14 (digest : Bool) (s : List Char) (w : Char → Nat) : String :=
  let spans := (spansOf s).map fun (a, b) => (⟨s, a, b⟩ : Span)
  let bs := boundaries s
  let sd := spans.map fun sp => showTR (displaySpan .default w sp)
  let sb := spans.map fun sp => showTR (displaySpan .bracket w sp)
  let pd := bs.map fun p => showTR (displayPosition .default w s p)
  let pb := bs.map fun p => showTR (displayPosition .bracket w s p)
  sep "\t" [field digest "t.sd" (sep "," sd), field digest "t.sb" (sep "," sb),
    field digest "t.pd" (sep "," pd), field digest "t.pb" (sep "," pb)]

/-- One `text …` case (the leading `text` field already removed). -/
def run : List String → String
  | ["c12", h] => c12 (unhex h)
  | ["c13", h, m] => c13 (m = "d") (unhex h)
  | ["c14", h, m, wt] => c14 (m = "d") (unhex h) (parseWidths wt)
  | _ => "v=badline"

end Driver.TextCases
