/-
Driver.SpecTok — the `spectok` command of `model_driver` (property C02, tie `Spec-tokens-vs-pest` of
`checks/spectok.py`; never used inside a proof).

  spectok <gid> <rule> <entry> <form> <a> <b> <hex input>

runs `specTokPartial` (`Model/SpecTokens.lean`: the right-hand side of `C02_tree`, the Lean statement of what
pest's generated parser pushes on its token queue) on the optimized AST of the loaded grammar and prints

  spec=ok:<end>:<stack> | spec=fail | spec=oof     verdict / end offset / final stack (as the `spec=` field of a run)
  stok=[(<rule> <start> <end> <children…>) …]      the token forest `specTok` computes, in the canonical format of
                                                   `harness/common` `run_pest` (`pest=ok:<end>:<forest>`)
  sprune=[…]                                       `pruneAtomic` of that forest (what `C02_tree` equates with the
                                                   typed tree's tokens)

The checks compare `stok` with pest's own forest (exact equality, at every depth, also below `@` / `$` tokens) and
`sprune` with the python `prune` of pest's forest and with the implementation's tokens.
-/
import PestTyped.Model.SpecTokens
open PestTyped
namespace Driver.SpecTok

/-- Token rule id ↦ rule name: `EOI` is 0, the `k`-th rule of the grammar is `k+1` (`PGrammar.ruleId`). -/
def ruleName (pg : PGrammar) : RuleId → String
  | 0 => "EOI"
  | k+1 => match pg[k]? with | some r => r.name | none => s!"?{k+1}"

partial def showToken (pg : PGrammar) : Token → String
  | .mk r s e kids =>
    "(" ++ ruleName pg r ++ " " ++ toString s ++ " " ++ toString e ++
      String.join (kids.map fun k => " " ++ showToken pg k) ++ ")"

def showTokens (pg : PGrammar) (ts : List Token) : String :=
  "[" ++ " ".intercalate (ts.map (showToken pg)) ++ "]"

def showStack (stk : List Sp) : String :=
  "[" ++ ",".intercalate (stk.reverse.map fun sp => s!"{sp.s}:{sp.e}") ++ "]"

def run (pg? : Option PGrammar) (uni : Uni) (fuel : Nat) (rule : String) (i : Inp) : String :=
  match pg? with
  | none => "v=noast"
  | some pg =>
    match pg.indexOf rule with
    | none => "v=norule"
    | some _ =>
      match specTokPartial pg uni fuel rule i with
      | .oof => "spec=oof"
      | .fail => "spec=fail"
      | .ok i' S ts =>
        "spec=ok:" ++ toString i'.pos ++ ":" ++ showStack S ++ "\tstok=" ++ showTokens pg ts ++
          "\tsprune=" ++ showTokens pg (pruneAtomic pg ts)

end Driver.SpecTok
