/-
Driver.Acc — model side of the protocol entries `acc` (C17), `trav` (C15) and `eqh` (C18):
prints, for the model's parse of a case, the same canonical lines as `harness/acc_common`:

* `acc`  — the value seen through `Model/Access.lean` (`Val.choiceAcc`, `chainLog`, `matchChoices`,
           `Val.seqMatched`, `Val.seqAll`, `Val.repMatched`, `Val.repAll`, leaf accessors);
* `trav` — `asToken`, `Token.toThin`, `pairChildren`, `tokens`, `preOrder`, `levelOrder`, `formatAsTree`
           of `Model/Tokens.lean`;
* `eqh`  — `valEq` matrix, `hashFeed` classes, `debugTree` (rendered the way `core::fmt` builders do),
           `Val.clone`, `valEqOn false` of `Model/ValEq.lean` over all sub-inputs of one string.

Used only by the correspondence checks, never inside a proof.  Self-contained (does not import
`Driver.Main`, which imports this module): the cursor constructor and the fuel come as arguments.
-/
import PestTyped.Model.Run
import PestTyped.Model.Tokens
import PestTyped.Model.Access
import PestTyped.Model.ValEq
import PestTyped.Lemmas.RustDebug
import PestTyped.Lemmas.TokensMore
import PestTyped.Lemmas.DebugString
import Driver.Sexp
open PestTyped
namespace Driver.Acc

def isEntry (e : String) : Bool := e = "acc" || e = "trav" || e = "eqh"

def rname (g : NodeGrammar) (r : RuleId) : String :=
  match g.rule? r with | some d => d.name | none => s!"?{r}"

partial def valBeq : Val → Val → Bool
  | .mk t ks, .mk t' ks' =>
    t == t' && ks.length == ks'.length && (ks.zip ks').all (fun p => valBeq p.1 p.2)

def pm (b : Bool) : String := if b then "+" else "-"

def spanAtom (tag : String) (sp : Sp) : String :=
  s!"({tag} {sp.s} {sp.e} {hex sp.txt})"

/-! ### entry `acc` -/

partial def showVal (g : NodeGrammar) (v : Val) : String :=
  let sub := fun (vs : List Val) => String.join (vs.map fun x => " " ++ showVal g x)
  let skAtom := fun (p : List Val × Val) (mk : Option Val) =>
    " (sk " ++ toString p.1.length ++ sub p.1 ++ " " ++
      pm (match mk with | some y => valBeq p.2 y | none => false) ++ ")"
  match v with
  | .mk .str _ => "(str)"
  | .mk (.insens s) _ => "(ins " ++ hex s ++ ")"
  | .mk (.charRange c) _ => s!"(chr {c.toNat})"
  | .mk (.any c) _ => s!"(any {c.toNat})"
  | .mk (.uni p c) _ => s!"(uni {p} {c.toNat})"
  | .mk .soi _ => "(soi)"
  | .mk .eoi _ => "(eoi)"
  | .mk (.newline _) _ => s!"(nl {(v.newlineKind?).getD 9})"
  | .mk (.skipUntil _) _ => spanAtom "until" ((v.spanOf?).getD default)
  | .mk (.skipChars _) _ => spanAtom "skipn" ((v.spanOf?).getD default)
  | .mk (.peek _) _ => spanAtom "peek" ((v.spanOf?).getD default)
  | .mk (.peekAll _) _ => spanAtom "peekall" ((v.spanOf?).getD default)
  | .mk (.pop _) _ => spanAtom "pop" ((v.spanOf?).getD default)
  | .mk (.popAll _) _ => spanAtom "popall" ((v.spanOf?).getD default)
  | .mk .drop _ => "(drop)"
  | .mk .peekSlice _ => "(slice)"
  | .mk .empty _ => "(empty)"
  | .mk .neg _ => "(neg)"
  | .mk .pos kids => "(pos" ++ sub kids ++ ")"
  | .mk .push kids => "(push" ++ sub kids ++ ")"
  | .mk .optNone _ => "(none)"
  | .mk .optSome kids => "(some" ++ sub kids ++ ")"
  | .mk .array kids => "(array" ++ sub kids ++ ")"
  | .mk .pair kids => "(pair" ++ sub kids ++ ")"
  | .mk .atomicRepeat kids => "(arep" ++ sub kids ++ ")"
  | .mk (.skipped n) kids => "(skipped " ++ toString n ++ sub kids ++ ")"
  | .mk .seq kids =>
    -- `get_matched`, `as_ref`, `into_matched` are one function in the model (`Val.seqMatched`),
    -- `get_all`, `into_all` another (`Val.seqAll`)
    let m := v.seqMatched
    let all := v.seqAll
    "(seq " ++ toString kids.length ++ " (m" ++ sub m ++ ") (ar +) (im +) (all" ++
      String.join (all.zipIdx.map fun (p, k) => skAtom p m[k]?) ++ ") (ia " ++ pm (all.length == kids.length) ++ "))"
  | .mk (.rep _ _) kids =>
    let m := v.repMatched
    let all := v.repAll
    "(rep (m" ++ sub m ++ ") (im +) (all" ++
      String.join (all.zipIdx.map fun (p, k) => skAtom p m[k]?) ++ ") (ia " ++ pm (all.length == kids.length) ++ "))"
  | .mk (.choice ar _) _ =>
    let somes := (List.range ar).filterMap fun k => v.choiceAcc k
    let bits := String.ofList ((List.range ar).map fun k => if (v.choiceAcc k).isSome then '1' else '0')
    let same := fun (x : Val) => match somes with | [y] => valBeq x y | _ => false
    let fs : List (Val → Nat) := (List.range ar).map fun k _ => k
    let (ret, log) := match chainLog fs v with
      | some (r, l) => (toString r, String.join (l.map fun (p : Nat × Val) => s!" {p.1}" ++ pm (same p.2)))
      | none => ("?", " ?")
    let ms : List (Val → Nat × Val) := (List.range ar).map fun k x => (k, x)
    let mc := match matchChoices ms v with
      | some (p : Nat × Val) => s!"{p.1}" ++ pm (same p.2)
      | none => "?"
    s!"(choice {ar} {bits} (if{log}) (rf{log}) (co{log}) (ci{log}) (ret {ret} {ret} {ret} {ret}) (mc {mc})" ++ sub somes ++ ")"
  | .mk (.rule r emit _ s e) kids =>
    match emit with
    | .both => s!"(rule {rname g r} B {s} {e}" ++ sub kids ++ ")"
    | .span => s!"(rule {rname g r} S {s} {e})"
    | .expression => s!"(rule {rname g r} E" ++ sub kids ++ ")"

/-! ### Rust's `Debug` text: the PROVED renderers

`RustDebug.strDebug` / `charDebug` (Lemmas/RustDebug.lean), `dbgTextOf` (Lemmas/TokensMore.lean: the leaf text of
`format_as_tree`, subject of `C15_format_text*`) and `Dbg.render` (Lemmas/DebugString.lean: the string `{:?}`
writes for a tree of formatter calls, subject of `C18_debug_string_iff*`).  Their parameter `uprint` (printable and
not grapheme-extending, for non-ASCII characters: tables of Rust's standard library) is read from the file named by
`VERIF_ACC_UPRINT` (decimal code points of the printable ones), which the harness obtains from rustc itself for the
characters of the run (`acc_common::run_uprint`). -/

initialize uprintSet : Array Nat ← do
  match (← IO.getEnv "VERIF_ACC_UPRINT") with
  | none => pure #[]
  | some path =>
    try
      let txt ← IO.FS.readFile path
      pure ((txt.splitOn " ").filterMap fun w => w.trimAscii.toString.toNat?).toArray
    catch _ => pure #[]

def uprint (c : Char) : Bool := uprintSet.contains c.toNat

/-! ### entry `trav` -/

partial def showToken (g : NodeGrammar) : Token → String
  | .mk r s e kids =>
    "(" ++ rname g r ++ " " ++ toString s ++ " " ++ toString e ++
      String.join (kids.map fun k => " " ++ showToken g k) ++ ")"

partial def showThin (g : NodeGrammar) : ThinToken → String
  | .mk r s e kids =>
    "(" ++ rname g r ++ " " ++ toString s ++ " " ++ toString e ++
      String.join (kids.map fun k => " " ++ showThin g k) ++ ")"

def showTokenList (g : NodeGrammar) (ts : List Token) : String :=
  "[" ++ " ".intercalate (ts.map (showToken g)) ++ "]"

def visit (g : NodeGrammar) (p : Token × Nat) : String :=
  s!"{rname g p.1.rule}:{p.1.s}:{p.1.e}:{p.2}:{p.1.kids.length}"

def travOut (g : NodeGrammar) (input : List Char) (v : Val) : String :=
  match asToken g v, asThinToken g v with
  | some t, some th =>
    let pair := "\ttok=" ++ showToken g t ++ "\tthin=" ++ showThin g th ++
      "\tkids=" ++ showTokenList g (pairChildren g v) ++ "\tsoc=" ++ showTokenList g (tokens g v)
    match v with
    | .mk (.rule _ .both _ _ _) _ =>
      let tree := formatAsTree (fun r => (rname g r).toList) (dbgTextOf uprint input) t
      pair ++ "\tpre=" ++ ",".intercalate ((preOrder t).map (visit g)) ++
        "\tlvl=" ++ ",".intercalate ((levelOrder t).map (visit g)) ++
        "\ttree=" ++ hex tree ++ "\twt=same\tres=111"
    | _ => pair
  | _, _ => "\tnotpair=1"

/-! ### entry `eqh` -/

def boundaries (cs : List Char) : List Nat :=
  let rec go (cs : List Char) (off : Nat) (acc : List Nat) : List Nat :=
    match cs with
    | [] => (off :: acc).reverse
    | c :: r => go r (off + c.utf8Size) (off :: acc)
  go cs 0 []

def classesOf {α} (eq : α → α → Bool) (l : List α) : String :=
  let rec go (l : List α) (reps : List α) (acc : List String) : List String :=
    match l with
    | [] => acc.reverse
    | x :: r =>
      match reps.findIdx? (fun y => eq y x) with
      | some k => go r reps (toString k :: acc)
      | none => go r (reps ++ [x]) (toString reps.length :: acc)
  ",".intercalate (go l [] [])

def dedup (l : List String) : List String :=
  l.foldl (fun acc x => if acc.contains x then acc else acc ++ [x]) []

def eqhOut (g : NodeGrammar) (derived : Bool) (uni : Uni) (mk : String → Nat → Nat → Inp) (fuel : Nat)
    (r : RuleId) (input : List Char) : String :=
  let bs := boundaries input
  let items : List (String × Bool × Inp) :=
    [("ps1", false, mk "str" 0 0), ("ps2", false, mk "str" 0 0), ("fs1", true, mk "str" 0 0), ("fs2", true, mk "str" 0 0)] ++
    (bs.drop 1).map (fun a => (s!"pp:{a}", false, mk "pos" a 0)) ++
    (bs.flatMap fun a => (bs.filter (· ≥ a)).flatMap fun b =>
      [(s!"pn:{a}:{b}", false, mk "span" a b), (s!"fn:{a}:{b}", true, mk "span" a b)])
  let results := items.map fun (n, full, i) =>
    (n, if full then tryParse g uni fuel r i else tryParsePartial g uni fuel r i)
  if results.any (fun p => match p.2 with | .oof => true | _ => false) then "v=oof" else
  let oks : List (String × Val) := results.filterMap fun (n, res) =>
    match res with | .ok _ _ v => some (n, v) | _ => none
  let vals := oks.map (·.2)
  let name := fun (r : RuleId) => if derived && r != 0 then "r#" ++ rname g r else rname g r
  let render := fun (v : Val) => String.ofList (Dbg.render uprint (debugTree name (sliceOf input) v))
  let dbg := vals.map render
  let feeds := vals.map hashFeed
  let rows := vals.map fun a => String.ofList (vals.map fun b => if valEq a b then '1' else '0')
  let cl := String.ofList (vals.map fun v =>
    let c := v.clone
    if valEq c v && valEq v c && hashFeed c == hashFeed v &&
       render c == render v then '1' else '0')
  -- every entry point starts from `M.init`: re-running an entry IS the same function application
  let hist := String.ofList (oks.map fun _ => '1')
  let copy := if input.isEmpty then "-"   -- two empty strings are not distinguishable objects
    else String.ofList (vals.map fun v => if valEqOn false v v then '1' else '0')
  "v=ok\titems=" ++ ",".intercalate (oks.map (·.1)) ++ "\teq=" ++ ",".intercalate rows ++
    "\ths=" ++ classesOf (· == ·) feeds ++ "\tdc=" ++ classesOf (· == ·) dbg ++ "\tcl=" ++ cl ++
    "\thist=" ++ hist ++ "\tcopy=" ++ copy ++ "\tdstr=" ++ ",".intercalate ((dedup dbg).map fun d => hex d.toList)

/-! ### dispatch -/

def runCase (g : NodeGrammar) (derived : Bool) (uni : Uni) (mk : String → Nat → Nat → Inp) (fuel : Nat)
    (rule entry form : String) (a b : Nat) (input : List Char) : String :=
  match g.rules.findIdx? (·.name = rule) with
  | none => "v=norule"
  | some r =>
    match entry with
    | "acc" =>
      (match tryParsePartial g uni fuel r (mk form a b) with
      | .oof => "v=oof"
      | .fail _ => "v=fail"
      | .ok i' _ v => "v=ok\tend=" ++ toString i'.pos ++ "\tacc=" ++ showVal g v)
    | "trav" =>
      (match tryParsePartial g uni fuel r (mk form a b) with
      | .oof => "v=oof"
      | .fail _ => "v=fail"
      | .ok i' _ v => "v=ok\tend=" ++ toString i'.pos ++ travOut g input v)
    | "eqh" => eqhOut g derived uni mk fuel r input
    | _ => "v=badentry"

end Driver.Acc
