/-
Driver.Sexp — S-expression reader and hex helpers for the line protocol (not part of any proof).
-/
namespace Driver

inductive Sexp where
  | atom (s : String)
  | list (xs : List Sexp)
  deriving Repr, Inhabited

partial def tokenize (cs : List Char) (cur : List Char) (acc : List String) : List String :=
  let flush := if cur.isEmpty then acc else String.ofList cur.reverse :: acc
  match cs with
  | [] => flush.reverse
  | '(' :: r => tokenize r [] ("(" :: flush)
  | ')' :: r => tokenize r [] (")" :: flush)
  | ' ' :: r => tokenize r [] flush
  | '\n' :: r => tokenize r [] flush
  | '\t' :: r => tokenize r [] flush
  | c :: r => tokenize r (c :: cur) acc

mutual
partial def parseOne : List String → Option (Sexp × List String)
  | [] => none
  | "(" :: r => parseMany r []
  | ")" :: _ => none
  | a :: r => some (.atom a, r)
partial def parseMany : List String → List Sexp → Option (Sexp × List String)
  | [], _ => none
  | ")" :: r, acc => some (.list acc.reverse, r)
  | ts, acc =>
    match parseOne ts with
    | none => none
    | some (x, r) => parseMany r (x :: acc)
end

def Sexp.parse (s : String) : Option Sexp :=
  match parseOne (tokenize s.toList [] []) with
  | some (x, _) => some x
  | none => none

def hexVal (c : Char) : Nat :=
  if '0' ≤ c ∧ c ≤ '9' then c.toNat - '0'.toNat
  else if 'a' ≤ c ∧ c ≤ 'f' then c.toNat - 'a'.toNat + 10
  else if 'A' ≤ c ∧ c ≤ 'F' then c.toNat - 'A'.toNat + 10
  else 0

partial def hexBytes : List Char → List UInt8
  | a :: b :: r => UInt8.ofNat (hexVal a * 16 + hexVal b) :: hexBytes r
  | _ => []

/-- Decode a hex-encoded UTF-8 string ("-" is the empty string). -/
def unhex (s : String) : List Char :=
  if s = "-" then [] else
  match String.fromUTF8? (ByteArray.mk (hexBytes s.toList).toArray) with
  | some str => str.toList
  | none => []

def hexDigit (n : Nat) : Char :=
  if n < 10 then Char.ofNat ('0'.toNat + n) else Char.ofNat ('a'.toNat + n - 10)

def hex (cs : List Char) : String :=
  let bs := (String.ofList cs).toUTF8.toList
  if bs.isEmpty then "-" else
  String.ofList (bs.flatMap fun b => [hexDigit (b.toNat / 16), hexDigit (b.toNat % 16)])

end Driver
