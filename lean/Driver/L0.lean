/-
Driver.L0 — the `l0` command of `model_driver`: runs the BYTE-level interpreter of `Model/RunL0.lean`
(`tryParsePartial0`, `tryCheckPartial0`, `tryParse0`, `tryCheck0`) in a chosen build profile on the cursor
`as_input` builds from a `&str`, a `Position` or a `Span` of the WHOLE input string, and prints the
observables in the canonical line format of the `run` command (`Driver/Main.lean`, `runCase`) so that the
harness can compare a byte-level sub-input run with the implementation directly (properties C08, C09;
used only by the correspondence checks, never inside a proof).

  l0 <p> <gid> <rule> <entry> <form> <a> <b> <hex of the whole input>

  <p>      1 = debug build (`checked = true`), 0 = release build (`checked = false`),
           2 = both: `<line of the debug run>\t|\t<line of the release run>`
  <entry>  parse_partial | check_partial | parse | check
  <form>   str (a, b ignored): bytes, start 0, cursor 0, end len        (`<&str>::as_input`)
           pos:  bytes, start a, cursor a, end len                       (`Position::as_input`)
           span: bytes, start a, cursor a, end b                         (`Span::as_input`)
           `bytes` is ALWAYS the whole input (nothing is cut off), `a`/`b` are byte offsets.

Output, tab-separated `key=value` exactly as `run` prints them (without the `spec=` field):
  v=ok  [end=<byte offset of the returned cursor>]  stk=[s:e,…]  trk=<pos>|<attempts>  [tok=[…]]
  v=fail  stk=…  trk=…  msg=<hex>  lc=<line>:<col>
  v=oof | v=panic | v=ub | v=norule | v=badentry | v=nogrammar | v=badline
`end=` is printed by the partial entries, `tok=` by the parse entries (as in `run`).  `v=panic` is a failed
checked slice / `debug_assert!` / `unwrap` / `Span::as_str`, `v=ub` an unchecked slice outside its contract
(e.g. `a` or `b` off a character boundary).
-/
import PestTyped.Model.RunL0
import Driver.Sexp
open PestTyped
namespace Driver.L0

/-- The three records `as_input` builds (`input.rs:265-311`) over the whole byte string. -/
def mkInp0 (form : String) (a b : Nat) (bytes : List UInt8) : Inp0 :=
  match form with
  | "pos" => ⟨bytes, a, a, bytes.length⟩
  | "span" => ⟨bytes, a, a, b⟩
  | _ => ⟨bytes, 0, 0, bytes.length⟩

/-- The byte-level state as the state the printers of `Driver/Main.lean` take (offsets only are printed). -/
def toM (m : M0) : M := { stk := m.stk.map fun p => ⟨p.1, p.2, []⟩, trk := m.trk }

/-- One run.  `showM`, `showTok`, `showReport` are the printers of `Driver/Main.lean`. -/
def runOne (g : NodeGrammar) (uni : Uni) (fuel : Nat) (r : RuleId) (entry : String) (checked : Bool) (i : Inp0)
    (showM : M → String) (showTok : Val → String) (showReport : Tracker → String) : String :=
  let failLine := fun (m : M0) => "v=fail" ++ showM (toM m) ++ showReport m.trk
  match entry with
  | "parse_partial" =>
    match tryParsePartial0 checked g uni fuel r i with
    | .oof => "v=oof"
    | .panic => "v=panic"
    | .ub => "v=ub"
    | .fail m => failLine m
    | .ok i' m v => "v=ok\tend=" ++ toString i'.pos ++ showM (toM m) ++ "\ttok=" ++ showTok v
  | "check_partial" =>
    match tryCheckPartial0 checked g uni fuel r i with
    | .oof => "v=oof"
    | .panic => "v=panic"
    | .ub => "v=ub"
    | .fail m => failLine m
    | .ok i' m _ => "v=ok\tend=" ++ toString i'.pos ++ showM (toM m)
  | "parse" =>
    match tryParse0 checked g uni fuel r i with
    | .oof => "v=oof"
    | .panic => "v=panic"
    | .ub => "v=ub"
    | .fail m => failLine m
    | .ok _ m v => "v=ok" ++ showM (toM m) ++ "\ttok=" ++ showTok v
  | "check" =>
    match tryCheck0 checked g uni fuel r i with
    | .oof => "v=oof"
    | .panic => "v=panic"
    | .ub => "v=ub"
    | .fail m => failLine m
    | .ok _ m _ => "v=ok" ++ showM (toM m)
  | _ => "v=badentry"

/-- `l0 <p> … <rule> <entry> <form> <a> <b> <hex>` for a grammar already looked up. -/
def run (g : NodeGrammar) (uni : Uni) (fuel : Nat) (profile rule entry form : String) (a b : Nat)
    (input : List Char) (showM : M → String) (showTok : Val → String) (showReport : Tracker → String) : String :=
  match g.rules.findIdx? (·.name = rule) with
  | none => "v=norule"
  | some r =>
    let i := mkInp0 form a b (enc input)
    let one := fun c => runOne g uni fuel r entry c i showM showTok showReport
    match profile with
    | "1" => one true
    | "0" => one false
    | "2" => one true ++ "\t|\t" ++ one false
    | _ => "v=badline"

end Driver.L0
