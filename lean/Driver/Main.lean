/-
Driver.Main — `model_driver`: runs the executable model on the line protocol of DESIGN.md
Appendix A (simplified): `model_driver <grammars.sexp>` reads one case per stdin line
`<gid> <rule> <entry> <form> <a> <b> <hex input>` and prints one line of `key=value` observables.
Used only by the correspondence checks, never inside a proof.
-/
import PestTyped.Model.Run
import PestTyped.Model.Tokens
import PestTyped.Model.Gen
import PestTyped.Model.Spec
import PestTyped.Model.GenOpts
import PestTyped.Model.Message
import Driver.Sexp
import Driver.Text
import Driver.Acc
import Driver.Getters
import Driver.WF
import Driver.TGen
import Driver.Validator
import Driver.PestOpt
import Driver.SkipHyp
import Driver.L0
import Driver.SpecTok
import Driver.NF
open PestTyped
namespace Driver

def atomStr : Sexp → String
  | .atom s => s
  | .list _ => ""

def atomInt (s : Sexp) : Int := (atomStr s).toInt?.getD 0
def atomNat (s : Sexp) : Nat := (atomStr s).toNat?.getD 0

partial def toPExpr : Sexp → PExpr
  | .list [.atom "str", h] => .str (unhex (atomStr h))
  | .list [.atom "insens", h] => .insens (unhex (atomStr h))
  | .list [.atom "range", a, b] => .range (Char.ofNat (atomNat a)) (Char.ofNat (atomNat b))
  | .list [.atom "ident", n] => .ident (atomStr n)
  | .list [.atom "peekslice", a, b] =>
    .peekSlice (atomInt a) (if atomStr b = "-" then none else some (atomInt b))
  | .list [.atom "pos", e] => .posPred (toPExpr e)
  | .list [.atom "neg", e] => .negPred (toPExpr e)
  | .list [.atom "seq", a, b] => .seq (toPExpr a) (toPExpr b)
  | .list [.atom "choice", a, b] => .choice (toPExpr a) (toPExpr b)
  | .list [.atom "opt", e] => .opt (toPExpr e)
  | .list [.atom "rep", e] => .rep (toPExpr e)
  | .list [.atom "reponce", e] => .repOnce (toPExpr e)
  | .list [.atom "repexact", e, n] => .repExact (toPExpr e) (atomNat n)
  | .list [.atom "repmin", e, n] => .repMin (toPExpr e) (atomNat n)
  | .list [.atom "repmax", e, n] => .repMax (toPExpr e) (atomNat n)
  | .list [.atom "repminmax", e, n, m] => .repMinMax (toPExpr e) (atomNat n) (atomNat m)
  | .list (.atom "skip" :: hs) => .skip (hs.map fun h => unhex (atomStr h))
  | .list [.atom "push", e] => .push (toPExpr e)
  | .list [.atom "restore", e] => .restoreOnErr (toPExpr e)
  | _ => .str ['?', '?', '?']

def toKind : String → RuleKind
  | "silent" => .silent
  | "atomic" => .atomic
  | "compound" => .compoundAtomic
  | "nonatomic" => .nonAtomic
  | _ => .normal

/-- C20: `<b><o>[<r>]` ↦ box_only_if_needed = b, pest_optimizer = o, emit_rule_reference = r (default off). -/
def optsConfig (bits : String) : Config :=
  let cs := bits.toList
  { box_only_if_needed := cs[0]? == some '1', pest_optimizer := cs[1]? != some '0', emit_rule_reference := cs[2]? == some '1' }

structure GrammarEntry where
  gid : String
  ng : NodeGrammar
  pg : Option PGrammar := none
  rawpg : Option PGrammar := none
  /-- C20: the module generated under each option combination (memoised: computed once per process). -/
  optNgs : List (String × Thunk NodeGrammar) := []
  /-- C19: `(nf ..)` / `(ignored ..)` items of a raw grammar (Driver/NF.lean). -/
  nf : NF.Items := {}

def toFlag : String → Flag
  | "0" => .zero
  | "1" => .one
  | _ => .inh

partial def toNode : Sexp → Node
  | .list [.atom "str", h] => .str (unhex (atomStr h))
  | .list [.atom "insens", h] => .insens (unhex (atomStr h))
  | .list [.atom "range", a, b] => .range (Char.ofNat (atomNat a)) (Char.ofNat (atomNat b))
  | .list [.atom "any"] => .any
  | .list [.atom "soi"] => .soi
  | .list [.atom "eoi"] => .eoi
  | .list [.atom "newline"] => .newline
  | .list [.atom "charby", n] => .charBy (atomStr n)
  | .list (.atom "skipuntil" :: hs) => .skipUntil (hs.map fun h => unhex (atomStr h))
  | .list [.atom "skipchars", n] => .skipChars (atomNat n)
  | .list (.atom "seq" :: f :: items) => .seq (toFlag (atomStr f)) (items.map toNode)
  | .list (.atom "choice" :: items) => .choice (items.map toNode)
  | .list [.atom "opt", e] => .opt (toNode e)
  | .list [.atom "rep", f, mn, mx, e] =>
    .rep (toFlag (atomStr f)) (atomNat mn) (if atomStr mx = "-" then none else some (atomNat mx)) (toNode e)
  | .list [.atom "atomicrepeat", e] => .atomicRepeat (toNode e)
  | .list [.atom "pos", e] => .pos (toNode e)
  | .list [.atom "neg", e] => .neg (toNode e)
  | .list [.atom "push", e] => .push (toNode e)
  | .list [.atom "peek"] => .peek
  | .list [.atom "peekall"] => .peekAll
  | .list [.atom "pop"] => .pop
  | .list [.atom "popall"] => .popAll
  | .list [.atom "drop"] => .drop
  | .list [.atom "peekslice", a, b] =>
    .peekSlice (atomInt a) (if atomStr b = "-" then none else some (atomInt b))
  | .list [.atom "ref", r, f] => .ref (atomNat r) (toFlag (atomStr f))
  | .list [.atom "array", k, e] => .array (atomNat k) (toNode e)
  | .list [.atom "pair", a, b] => .pair (toNode a) (toNode b)
  | .list [.atom "empty"] => .empty
  | _ => .alwaysFail

def toAtom : String → Atomicity
  | "true" => .atomic
  | "false" => .nonAtomic
  | _ => .inherited

def toEmit : String → Emission
  | "Span" => .span
  | "Expression" => .expression
  | _ => .both

def toGrammar : Sexp → Option GrammarEntry
  | .list (.atom "grammar" :: .atom gid :: rules) =>
    let rs := rules.filterMap fun
      | .list [.atom "rule", .atom name, .atom kind, eo, er] =>
        some (name, toKind kind, toPExpr eo, toPExpr er)
      | _ => none
    let opt : PGrammar := rs.map fun (n, k, eo, _) => { name := n, kind := k, expr := eo }
    let raw : PGrammar := rs.map fun (n, k, _, er) => { name := n, kind := k, expr := er }
    some { gid := gid, ng := gen opt, pg := some opt, rawpg := some raw,
           optNgs := ["00", "01", "10", "11"].map fun bits => (bits, Thunk.mk fun _ => genWith (optsConfig bits) opt raw) }
  | .list (.atom "nodegrammar" :: .atom gid :: .list [.atom "skipped", sk] :: rules) =>
    let rs : List RuleDef := rules.filterMap fun
      | .list [.atom "rule", .atom name, .atom atom, .atom emit, .atom boxed, body] =>
        some { name := name, atom := toAtom atom, emit := toEmit emit, boxed := boxed == "true", body := toNode body }
      | _ => none
    some { gid := gid, ng := { rules := eoiDef :: rs, skipped := toNode sk }, nf := NF.parseItems toNode rules }
  | _ => none

/-- `(vgrammar (rule <name> <kind> <raw expr>) ...)`: the rules `harness/gen_runner` hands to pest_meta's
`validate_ast` (command `validate`, Driver/Validator.lean). -/
def toRawGrammar : Sexp → Option PGrammar
  | .list (.atom "vgrammar" :: rules) =>
    some (rules.filterMap fun
      | .list [.atom "rule", .atom name, .atom kind, er] => some { name := name, kind := toKind kind, expr := toPExpr er }
      | _ => none)
  | _ => none

/-! ### printing -/

def ruleName (g : NodeGrammar) (r : RuleId) : String :=
  match g.rule? r with | some d => d.name | none => s!"?{r}"

partial def showToken (g : NodeGrammar) : Token → String
  | .mk r s e kids =>
    "(" ++ ruleName g r ++ " " ++ toString s ++ " " ++ toString e ++
      String.join (kids.map fun k => " " ++ showToken g k) ++ ")"

def showTokens (g : NodeGrammar) (ts : List Token) : String :=
  "[" ++ " ".intercalate (ts.map (showToken g)) ++ "]"

def showStack (stk : List Sp) : String :=
  "[" ++ ",".intercalate (stk.reverse.map fun sp => s!"{sp.s}:{sp.e}") ++ "]"

def showSpecial : Special → String
  | .sliceOutOfBound a none => s!"slice({a}..)"
  | .sliceOutOfBound a (some b) => s!"slice({a}..{b})"
  | .repeatTooManyTimes => "toomany"
  | .emptyStack => "empty"

def keyLt : Option RuleId → Option RuleId → Bool
  | none, none => false
  | none, some _ => true
  | some _, none => false
  | some a, some b => a < b

def insertSorted (x : Option RuleId × Tracked) : List (Option RuleId × Tracked) → List (Option RuleId × Tracked)
  | [] => [x]
  | y :: ys => if keyLt x.1 y.1 then x :: y :: ys else y :: insertSorted x ys

def showTracker (g : NodeGrammar) (t : Tracker) : String :=
  let sorted := t.attempts.foldl (fun acc x => insertSorted x acc) []
  let names := fun (l : List RuleId) => ",".intercalate (l.map (ruleName g))
  toString t.position ++ "|" ++ ";".intercalate (sorted.map fun (k, v) =>
    (match k with | none => "-" | some r => ruleName g r) ++ ":" ++ names v.positives ++ "/" ++
      names v.negatives ++ "/" ++ ",".intercalate (v.specials.map showSpecial))

/-! ### running a case -/

def sliceBytes (cs : List Char) (a b : Nat) : List Char :=
  -- characters whose byte offset lies in [a, b)
  let rec go (cs : List Char) (off : Nat) (acc : List Char) : List Char :=
    match cs with
    | [] => acc.reverse
    | c :: r => if off ≥ b then acc.reverse else
        go r (off + c.utf8Size) (if off ≥ a then c :: acc else acc)
  go cs 0 []

def mkInp (form : String) (a b : Nat) (input : List Char) : Inp :=
  match form with
  | "pos" => { start := a, pos := a, rest := sliceBytes input a (blen input), after := [] }
  | "span" => { start := a, pos := a, rest := sliceBytes input a b, after := sliceBytes input b (blen input) }
  | _ => { start := 0, pos := 0, rest := input, after := [] }

/-- The Unicode property tables (`uni name c`).  Default: every property false everywhere.  When a table
file is given (second CLI argument, else env `VERIF_UNI_TABLE`; written by harness/tools `uni_table` from pest
2.7.14's own tables: one line `<NAME>\t<hex of the characters having the property>` over a fixed test alphabet,
`#…` lines ignored), `uni name c` is membership, so `charBy name` answers as pest does on that alphabet. -/
def uniDefault : Uni := fun _ _ => false

def parseUniTable (text : String) : Uni :=
  let rows : List (String × List Char) := (text.splitOn "\n").filterMap fun l =>
    match l.splitOn "\t" with
    | [name, hx] => if name.startsWith "#" || (unhex hx).isEmpty then none else some (name, unhex hx)
    | _ => none
  fun name c => match rows.find? (·.1 = name) with
    | some (_, cs) => cs.contains c
    | none => false

def fuelFor (g : NodeGrammar) (input : List Char) : Nat :=
  4 * (input.length + 2) * (g.rules.length + 2) + 40

/-- C10: the rendered report of a failing case (`Tracker::collect`): `msg=` hex of the message,
`lc=` line:column of the error (`Model/Message.lean`); `input` is the whole input string. -/
def showReport (g : NodeGrammar) (input : List Char) (t : Tracker) : String :=
  match Message.collect (fun r => (ruleName g r).toList) input t with
  | .panic => "\tmsg=panic\tlc=panic"
  | .ok (msg, (l, c)) => "\tmsg=" ++ hex msg ++ "\tlc=" ++ toString l ++ ":" ++ toString c

def runCase (uniTable : Uni) (ge : GrammarEntry) (rule entry form : String) (a b : Nat) (input : List Char) : String :=
  let g := ge.ng
  match g.rules.findIdx? (·.name = rule) with
  | none => "v=norule"
  | some r =>
    let i := mkInp form a b input
    let fuel := fuelFor g input
    let showM := fun (m : M) => "\tstk=" ++ showStack m.stk ++ "\ttrk=" ++ showTracker g m.trk
    match entry with
    | "parse_partial" =>
      let specOut := match ge.pg with
        | none => ""
        | some pg =>
          match specPartial pg uniTable fuel rule i with
          | .oof => "\tspec=oof"
          | .fail => "\tspec=fail"
          | .ok i' S => "\tspec=ok:" ++ toString i'.pos ++ ":" ++ showStack S
      (match tryParsePartial g uniTable fuel r i with
      | .oof => "v=oof"
      | .fail m => "v=fail" ++ showM m ++ showReport g input m.trk
      | .ok i' m v => "v=ok\tend=" ++ toString i'.pos ++ showM m ++ "\ttok=" ++ showTokens g (tokens g v) ++
          -- raw grammars (T-raw): the value itself (`dbg=`) and its first counted repetition (`n=`, `items=`, `skips=`)
          (if ge.pg.isNone then NF.valueObs g input v else "")) ++ specOut
    | "check_partial" =>
      match tryCheckPartial g uniTable fuel r i with
      | .oof => "v=oof"
      | .fail m => "v=fail" ++ showM m ++ showReport g input m.trk
      | .ok i' m _ => "v=ok\tend=" ++ toString i'.pos ++ showM m
    | "parse" =>
      match tryParse g uniTable fuel r i with
      | .oof => "v=oof"
      | .fail m => "v=fail" ++ showM m ++ showReport g input m.trk
      | .ok _ m v => "v=ok" ++ showM m ++ "\ttok=" ++ showTokens g (tokens g v)
    | "check" =>
      match tryCheck g uniTable fuel r i with
      | .oof => "v=oof"
      | .fail m => "v=fail" ++ showM m ++ showReport g input m.trk
      | .ok _ m _ => "v=ok" ++ showM m
    | _ => "v=badentry"

/-! ### option combinations (C20): the module `genWith cfg optimized raw` instead of `gen optimized` -/

/-- `opts <b><o> <gid> boxed` prints the `$boxed` argument of every rule; `opts <b><o><r> <gid> accessors` the accessor names;
`opts <b><o> <gid> <rule> <entry> <form> <a> <b> <hex>` runs a case on the module generated under
`box_only_if_needed = b`, `pest_optimizer = o` (`spec=` then refers to the AST that was walked). -/
def runOpts (uniTable : Uni) (gs : List GrammarEntry) (bits : String) (rest : List String) : String :=
  match rest with
  | gid :: tail =>
    match gs.find? (·.gid = gid) with
    | none => "v=nogrammar"
    | some ge =>
      match ge.pg, ge.rawpg with
      | some o, some r =>
        let cfg := optsConfig bits
        let ng := match ge.optNgs.find? (·.1 = (bits.take 2).toString) with
          | some (_, t) => t.get
          | none => genWith cfg o r
        match tail with
        | ["boxed"] =>
          "boxed=" ++ ",".intercalate ((ng.rules.drop 1).map fun d => d.name ++ ":" ++ toString d.boxed)
        | ["accessors"] =>     -- the accessor functions of every rule's `impl` block under the configuration (Model.GenOpts.emitWith)
          "acc=" ++ ";".intercalate ((emitWith cfg o r).accessors.map fun (n, f) => n ++ ":" ++ ",".intercalate f.keys)
        | [rule, entry, form, a, b, hx] =>
          runCase uniTable { ge with ng := ng, pg := some (pickAst cfg o r) } rule entry form
            (a.toNat?.getD 0) (b.toNat?.getD 0) (unhex hx)
        | _ => "v=badline"
      | _, _ => "v=noast"
  | _ => "v=badline"

partial def loop (uniTable : Uni) (h : IO.FS.Stream) (gs : List GrammarEntry) : IO Unit := do
  let line ← h.getLine
  if line.isEmpty then return ()
  match line.trimAscii.toString.splitOn " " with
  | "text" :: rest => IO.println (TextCases.run rest)   -- text-layer cases (C12-C14): no grammar involved
  | "getters" :: mode :: gid :: which :: rest =>        -- accessor functions (C16): `getters list|run <gid> <opt|raw> …`
    IO.println (GetterCases.run mode ((gs.find? (·.gid = gid)).bind fun ge => if which = "raw" then ge.rawpg else ge.pg) rest uniTable)
  | "opts" :: bits :: rest => IO.println (runOpts uniTable gs bits rest)   -- option combinations (C20)
  | ["tgen", o, gid] =>                                   -- T-gen (structure): the generated module as an S-expression, Driver/TGen.lean
    IO.println (match gs.find? (·.gid = gid) with | some ge => TGen.run o gid ge.ng ge.pg ge.rawpg | none => "v=nogrammar")
  | "validate" :: rest =>                               -- mirror of pest_meta's validate_ast (C11): Driver/Validator.lean
    IO.println (Validator.run ((Sexp.parse (" ".intercalate rest)).bind toRawGrammar))
  | "pestopt" :: gid :: rest =>                         -- mirror of pest_meta's optimizer (C20): Driver/PestOpt.lean
    IO.println (match gs.find? (·.gid = gid) with | some ge => PestOpt.run ge.rawpg rest | none => "v=nogrammar")
  | ["spectok", gid, rule, _, form, a, b, hx] =>        -- pest's token semantics `specTok` + `pruneAtomic` executed (C02): Driver/SpecTok.lean
    IO.println (match gs.find? (·.gid = gid) with | some ge => SpecTok.run ge.pg uniTable (fuelFor ge.ng (unhex hx)) rule (mkInp form (a.toNat?.getD 0) (b.toNat?.getD 0) (unhex hx)) | none => "v=nogrammar")
  | "skiphyp" :: gid :: rest =>                         -- hypotheses on the skip rules (C01/C02/C07, F-WS): Driver/SkipHyp.lean
    IO.println (match gs.find? (·.gid = gid) with | some ge => SkipHyp.run ge.pg ge.rawpg rest | none => "v=nogrammar")
  | "wf" :: gid :: rest =>                              -- static well-foundedness / theorem fuel (C11): Driver/WF.lean
    IO.println (match gs.find? (·.gid = gid) with | some ge => WF.command ge.ng rest | none => "v=nogrammar")
  | "wfraw" :: gid :: rest =>                           -- the same on the module of `#[pest_optimizer = false]` (raw AST, counted repetitions kept)
    IO.println (match gs.find? (·.gid = gid) with
      | some ge => (match ge.pg, ge.rawpg with
        | some o, some r => WF.command (genWith (optsConfig "00") o r) rest
        | _, _ => "v=noast")
      | none => "v=nogrammar")
  | ["l0", profile, gid, rule, entry, form, a, b, hx] =>   -- byte-level interpreter in a build profile (C08, C09): Driver/L0.lean
    IO.println (match gs.find? (·.gid = gid) with
      | none => "v=nogrammar"
      | some ge =>
        let inp := unhex hx
        L0.run ge.ng uniTable (fuelFor ge.ng inp) profile rule entry form (a.toNat?.getD 0) (b.toNat?.getD 0) inp
          (fun m => "\tstk=" ++ showStack m.stk ++ "\ttrk=" ++ showTracker ge.ng m.trk)
          (fun v => showTokens ge.ng (tokens ge.ng v))
          (fun t => showReport ge.ng inp t))
  | [gid, rule, entry, form, a, b, hx] =>
    match gs.find? (·.gid = gid) with
    | none => IO.println "v=nogrammar"
    | some ge =>
      let (an, bn, inp) := (a.toNat?.getD 0, b.toNat?.getD 0, unhex hx)
      if NF.handles ge.nf rule entry then   -- C19: counted repetitions as skip types (direct calls, `$ignored`): Driver/NF.lean
        IO.println (NF.run ge.ng ge.nf uniTable (fun f x y => mkInp f x y inp) (fuelFor ge.ng inp)
          (fun m => "\tstk=" ++ showStack m.stk ++ "\ttrk=" ++ showTracker ge.ng m.trk) (fun v => showTokens ge.ng (tokens ge.ng v))
          (showReport ge.ng inp) rule entry form an bn inp)
      else if Acc.isEntry entry then   -- accessor / traversal / eq-hash entries (C17, C15, C18): Driver/Acc.lean
        IO.println (Acc.runCase ge.ng ge.pg.isSome uniTable (fun f x y => mkInp f x y inp) (fuelFor ge.ng inp) rule entry form an bn inp)
      else
      IO.println (runCase uniTable ge rule entry form an bn inp)
  | _ => IO.println "v=badline"
  loop uniTable h gs

def main (args : List String) : IO UInt32 := do
  -- optional Unicode property table: second CLI argument, else env VERIF_UNI_TABLE, else all-false
  let (args, uniArg) := match args with
    | [path, up] => ([path], some up)
    | _ => (args, none)
  let uniEnv ← IO.getEnv "VERIF_UNI_TABLE"
  let uniPath := match uniArg with
    | some up => some up
    | none => uniEnv
  let uniTable ← match uniPath with
    | some up => if up.isEmpty then pure uniDefault else do
        if !(← System.FilePath.pathExists up) then
          IO.eprintln ("model_driver: Unicode table not found: " ++ up)
          return 2
        pure (parseUniTable (← IO.FS.readFile up))
    | none => pure uniDefault
  match args with
  | [path] =>
    let text ← IO.FS.readFile path
    let gs := (text.splitOn "\n").filterMap fun l => (Sexp.parse l).bind toGrammar
    loop uniTable (← IO.getStdin) gs
    return 0
  | [] =>
    -- no grammar file: only `text …` cases can be answered
    loop uniTable (← IO.getStdin) []
    return 0
  | _ =>
    IO.eprintln "usage: model_driver <grammars.sexp> [<uni_table.tsv>]"
    return 2

end Driver

def main (args : List String) : IO UInt32 := Driver.main args
