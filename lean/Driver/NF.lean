/-
Driver.NF — model side of the C19 cases about the counted repetitions used as skip types
(`Model/NeverFailed.lean`) and the value observables of the T-raw suite:

* entries `nf_parse` / `nf_check` / `nf_default` of an item `(nf <name> <k> <max|-> <pre> <elem>)`: the prefix node `pre`
  is run by `parse` on a fresh state, then `nfRepParse` / `nfRepCheck` (the direct call of
  `NeverFailedTypedNode::parse_with` / `check_with` that `vh_common::run_nf` makes);
* entries `parse` / `check` of a rule with an item `(ignored <rule> <k> <max|-> <elem>)`: `tryParseNF` / `tryCheckNF`;
* `valueObs`: `dbg=` (hex of the Rust `Debug` text of the value, `Model/ValEq.lean` `debugTree` + `Dbg.render`) and, for the first
  counted repetition of the value in pre-order, `n=` (number of elements), `items=` (span of each element that has one),
  `skips=` (spans found in the skipped part of each iteration).  checks/props.py computes the same three from the
  `Debug` text the runner prints.

Self-contained (does not import `Driver.Main`, which imports this module): node reader, cursor constructor, fuel and
printers come as arguments.  Used only by the correspondence checks, never inside a proof.
-/
import PestTyped.Model.NeverFailed
import PestTyped.Model.ValEq
import Driver.Sexp
import PestTyped.Lemmas.TokensMore
import PestTyped.Lemmas.DebugString
open PestTyped
namespace Driver.NF

structure Item where
  name : String
  k : Nat
  max : Option Nat
  pre : Node
  elem : Node

structure Ign where
  rule : String
  k : Nat
  max : Option Nat
  elem : Node

structure Items where
  direct : List Item := []
  ignored : List Ign := []

def sAtom : Sexp → String
  | .atom s => s
  | .list _ => ""

def sMax (s : Sexp) : Option Nat := if sAtom s = "-" then none else some ((sAtom s).toNat?.getD 0)

def parseItems (toNode : Sexp → Node) (xs : List Sexp) : Items :=
  { direct := xs.filterMap fun
      | .list [.atom "nf", .atom name, k, mx, pre, el] =>
        some { name := name, k := (sAtom k).toNat?.getD 0, max := sMax mx, pre := toNode pre, elem := toNode el }
      | _ => none,
    ignored := xs.filterMap fun
      | .list [.atom "ignored", .atom rule, k, mx, el] =>
        some { rule := rule, k := (sAtom k).toNat?.getD 0, max := sMax mx, elem := toNode el }
      | _ => none }

def handles (its : Items) (rule entry : String) : Bool :=
  ((entry = "nf_parse" || entry = "nf_check" || entry = "nf_default") && its.direct.any (·.name = rule)) ||
  ((entry = "parse" || entry = "check") && its.ignored.any (·.rule = rule))

/-! ### value observables -/

/-- A value whose `Debug` text is a struct with a field `span`. -/
def valSpan? : Val → Option (Nat × Nat)
  | .mk (.rule _ .span _ s e) _ => some (s, e)
  | .mk (.rule _ .both _ s e) _ => some (s, e)
  | .mk (.skipUntil sp) _ => some (sp.s, sp.e)
  | .mk (.skipChars sp) _ => some (sp.s, sp.e)
  | .mk (.peek sp) _ => some (sp.s, sp.e)
  | .mk (.peekAll sp) _ => some (sp.s, sp.e)
  | .mk (.pop sp) _ => some (sp.s, sp.e)
  | .mk (.popAll sp) _ => some (sp.s, sp.e)
  | _ => none

/-- The kids of the first `RepeatMin` / `RepeatMinMax` value in pre-order. -/
partial def firstRep : Val → Option (List Val)
  | .mk (.rep _ _) kids => some kids
  | .mk _ kids => kids.findSome? firstRep

/-- Spans of the outermost span-carrying values, in pre-order. -/
partial def outerSpans (v : Val) : List (Nat × Nat) :=
  match valSpan? v with
  | some sp => [sp]
  | none => match v with | .mk _ kids => kids.flatMap outerSpans

def showSp (sp : Nat × Nat) : String := s!"{sp.1}-{sp.2}"

def repObs (v : Val) : String :=
  match firstRep v with
  | none => "\tn=-"
  | some kids =>
    let parts : List (List Val × Option Val) := kids.map fun
      | .mk (.skipped _) ks => (ks.dropLast, ks.getLast?)
      | x => ([], some x)
    let items := parts.map fun (_, m) => match m.bind valSpan? with | some sp => showSp sp | none => "?"
    let skips := parts.map fun (sk, _) => "+".intercalate ((sk.flatMap outerSpans).map showSp)
    "\tn=" ++ toString kids.length ++ "\titems=[" ++ ",".intercalate items ++ "]\tskips=[" ++ "|".intercalate skips ++ "]"

def rname (g : NodeGrammar) (r : RuleId) : String :=
  match g.rule? r with | some d => d.name | none => s!"?{r}"

/-- `dbg=`: hex of the `{:?}` text (`Dbg.render` of Lemmas/DebugString.lean, the proved renderer the C18 cases use).
Printed for ASCII inputs only (`dbg=-` otherwise): whether a non-ASCII character is escaped is a table of Rust's
standard library which this command does not load; `n=` / `items=` / `skips=` do not depend on it. -/
def dbgObs (g : NodeGrammar) (input : List Char) (v : Val) : String :=
  if input.all (fun c => c.toNat < 128) then
    "\tdbg=" ++ hex (Dbg.render (fun _ => false) (debugTree (rname g) (sliceOf input) v))
  else "\tdbg=-"

def valueObs (g : NodeGrammar) (input : List Char) (v : Val) : String := dbgObs g input v ++ repObs v

/-! ### running a case -/

def run (g : NodeGrammar) (its : Items) (uni : Uni) (mkInp : String → Nat → Nat → Inp) (fuel : Nat)
    (showM : M → String) (showTok : Val → String) (showRep : Tracker → String)
    (rule entry form : String) (a b : Nat) (input : List Char) : String :=
  let i := mkInp form a b
  match entry with
  | "parse" | "check" =>
    (match its.ignored.find? (·.rule = rule), g.rules.findIdx? (·.name = rule) with
    | some ig, some r =>
      if entry = "parse" then
        match tryParseNF g uni fuel r ig.k ig.max ig.elem i with
        | .oof => "v=oof"
        | .fail m => "v=fail" ++ showM m ++ showRep m.trk
        | .ok _ m v => "v=ok" ++ showM m ++ "\ttok=" ++ showTok v ++ valueObs g input v
      else
        match tryCheckNF g uni fuel r ig.k ig.max ig.elem i with
        | .oof => "v=oof"
        | .fail m => "v=fail" ++ showM m ++ showRep m.trk
        | .ok _ m _ => "v=ok" ++ showM m
    | _, _ => "v=norule")
  | _ =>
    match its.direct.find? (·.name = rule) with
    | none => "v=norule"
    | some it =>
      if entry = "nf_default" then "v=ok" ++ valueObs g input (.mk (.rep 0 it.max) []) else
      match parse g uni fuel true it.pre i (M.init i) with
      | .oof => "v=oof"
      | .fail _ => "v=prefail"
      | .ok i1 m1 _ =>
        if entry = "nf_parse" then
          match nfRepParse g uni fuel false it.k it.max it.elem i1 m1 with
          | .oof => "v=oof"
          | .fail _ => "v=fail"
          | .ok i' m' v => "v=ok\tpre=" ++ toString i1.pos ++ "\tend=" ++ toString i'.pos ++ showM m' ++ valueObs g input v
        else
          match nfRepCheck g uni fuel false it.k it.max it.elem i1 m1 with
          | .oof => "v=oof"
          | .fail _ => "v=fail"
          | .ok i' m' _ => "v=ok\tpre=" ++ toString i1.pos ++ "\tend=" ++ toString i'.pos ++ showM m'

end Driver.NF
