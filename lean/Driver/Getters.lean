/-
Driver.Getters — model side of the C16 ties (not part of any proof).

`getters list <gid> <opt|raw>`        → for every rule that gets accessor functions and every accessor:
                                          `rule <TAB> name <TAB> return type <TAB> path`, entries joined by " ## ";
                                          type and path are S-expressions of the getter tree (`pathSexp`, `typeSexp`),
                                          compared STRUCTURALLY with what harness/getters_tool reads back from the
                                          accessor functions the generator emits (T-gen);
`getters run <gid> <opt|raw> <rule> <hex input>`
                                        → `v=ok end=… get=<name>:<refs>|…  st=<name>:<structured>|…  dir=<name>:<refs>|…`
                                          where `get` is `flatten (evalGetter t content)` for every accessor of the rule,
                                          `st` the unflattened result (`N`, `S(…)`, `V{…;…}`, `T{…;…}`, see `showG`) and
                                          `dir` is `directRefs` of the same names on the same value; each
                                          reference is printed as its token list (`Pairs::for_self_or_each_child`)
                                          so that rule structs, silent rules and built-ins are all observable.
-/
import PestTyped.Model.Run
import PestTyped.Model.Tokens
import PestTyped.Model.Gen
import PestTyped.Model.Getters
import Driver.Sexp
open PestTyped
namespace Driver.GetterCases

/-! ### the getter tree and its return type as S-expressions (structure only: harness/getters_tool reads the
same structure back from the accessor functions the generator emits, whatever their token-level spelling) -/

def flag (b : Bool) : String := if b then "1" else "0"

/-- `P ::= (rule) | (content P) | (seq I P) | (choice I F P) | (opt F P) | (rep P) | (tuple P …)`. -/
partial def pathSexp : GNode → String
  | .rule _ => "(rule)"
  | .content g => "(content " ++ pathSexp g ++ ")"
  | .sequenceI i g => "(seq " ++ toString i ++ " " ++ pathSexp g ++ ")"
  | .optional flat g => "(opt " ++ flag flat ++ " " ++ pathSexp g ++ ")"
  | .choiceI i flat g => "(choice " ++ toString i ++ " " ++ flag flat ++ " " ++ pathSexp g ++ ")"
  | .contents g => "(rep " ++ pathSexp g ++ ")"
  | .tuple gs => "(tuple " ++ " ".intercalate (gs.map pathSexp) ++ ")"

/-- The return type `expand` builds: `T ::= (ref NAME) | (opt T) | (vec T) | (tuple T …)`. -/
partial def typeSexp : GNode → String
  | .rule n => "(ref " ++ n ++ ")"
  | .content g => typeSexp g
  | .sequenceI _ g => typeSexp g
  | .optional flat g => if flat then typeSexp g else "(opt " ++ typeSexp g ++ ")"
  | .choiceI _ flat g => if flat then typeSexp g else "(opt " ++ typeSexp g ++ ")"
  | .contents g => "(vec " ++ typeSexp g ++ ")"
  | .tuple gs => "(tuple " ++ " ".intercalate (gs.map typeSexp) ++ ")"

def listGetters (pg : PGrammar) : String :=
  " ## ".intercalate (pg.flatMap fun r =>
    (ruleGetters r).map fun (x, t) => r.name ++ "\t" ++ x ++ "\t" ++ typeSexp t ++ "\t" ++ pathSexp t)

/-! ### running the accessors of a rule -/

def ruleName (g : NodeGrammar) (r : RuleId) : String :=
  match g.rule? r with | some d => d.name | none => s!"?{r}"

partial def showToken (g : NodeGrammar) : Token → String
  | .mk r s e kids =>
    "(" ++ ruleName g r ++ " " ++ toString s ++ " " ++ toString e ++
      String.join (kids.map fun k => " " ++ showToken g k) ++ ")"

def showTokens (g : NodeGrammar) (ts : List Token) : String :=
  "[" ++ " ".intercalate (ts.map (showToken g)) ++ "]"

def showRefs (g : NodeGrammar) (ws : List Val) : String :=
  ",".intercalate (ws.map fun w => showTokens g (tokens g w))

/-- Canonical rendering of a structured accessor result: `N` / `S(…)` for `Option`, `V{…;…}` for `Vec`,
`T{…;…}` for tuples, a reference as its token list. -/
partial def showG (g : NodeGrammar) : GVal → String
  | .ref v => showTokens g (tokens g v)
  | .optNone => "N"
  | .optSome r => "S(" ++ showG g r ++ ")"
  | .vec rs => "V{" ++ ";".intercalate (rs.map (showG g)) ++ "}"
  | .tuple rs => "T{" ++ ";".intercalate (rs.map (showG g)) ++ "}"

def fuelFor (g : NodeGrammar) (input : List Char) : Nat :=
  4 * (input.length + 2) * (g.rules.length + 2) + 40

def runRule (pg : PGrammar) (rule : String) (input : List Char) (uni : Uni := fun _ _ => false) : String :=
  let g := gen pg
  match pg.indexOf rule, pg.find? (·.name = rule) with
  | some k, some pr =>
    let i : Inp := { start := 0, pos := 0, rest := input, after := [] }
    match tryParsePartial g uni (fuelFor g input) (k+1) i with
    | .oof => "v=oof"
    | .fail _ => "v=fail"
    | .ok i' _ v =>
      let head := "v=ok\tend=" ++ toString i'.pos ++ "\ttok=" ++ showTokens g (tokens g v)
      let gs := ruleGetters pr
      let content := match v with
        | .mk _ [c] => some c
        | _ => none
      let get := "|".intercalate (gs.map fun (x, t) =>
        x ++ ":" ++ (match ruleGetter t v with
                     | some r => showRefs g r.flatten
                     | none => "STUCK"))
      let dir := "|".intercalate (gs.map fun (x, _) =>
        x ++ ":" ++ (match content, refId pg x with
                     | some c, some xid => showRefs g (directRefs xid c)
                     | _, _ => "-"))
      let st := "|".intercalate (gs.map fun (x, t) =>
        x ++ ":" ++ (match ruleGetter t v with
                     | some r => showG g r
                     | none => "STUCK"))
      head ++ "\tget=" ++ get ++ "\tst=" ++ st ++ "\tdir=" ++ dir
  | _, _ => "v=norule"

/-- Entry point: the words after `getters <mode> <gid> <opt|raw>`; the grammar is looked up by the caller. -/
def run (mode : String) (pg : Option PGrammar) (rest : List String) (uni : Uni := fun _ _ => false) : String :=
  match pg with
  | none => "v=nogrammar"
  | some pg =>
    match mode, rest with
    | "list", [] => listGetters pg
    | "run", [rule, hx] => runRule pg rule (unhex hx) uni
    | _, _ => "v=badline"

end Driver.GetterCases
