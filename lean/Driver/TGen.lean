/-
Driver.TGen — tie T-gen (structure): prints the module the MODEL generates for a grammar,
`gen optimized` / `genWith cfg optimized raw`, in the S-expression syntax of
`harness/rawgen.py::grammar_sexp` — the syntax `Driver.toNode` reads, so `showNode` is a right inverse of
`toNode` — for comparison with what `harness/tgen_tool` extracts from the token stream the real generator emits.

Line protocol (hook in `Driver/Main.lean`):  `tgen <opts> <gid>`  with `<opts>` = `default` (the module `gen`)
or `<b><o>` (`box_only_if_needed = b`, `pest_optimizer = o`, the module `genWith`).  For a grammar that arrived
as a `nodegrammar` (no pest AST) the stored module is printed back (round-trip test of the printer).
Not part of any proof.
-/
import PestTyped.Model.GenOpts
import Driver.Sexp
open PestTyped
namespace Driver.TGen

def showFlag : Flag → String
  | .zero => "0"
  | .one => "1"
  | .inh => "INHERITED"

def showOptNat : Option Nat → String
  | none => "-"
  | some n => toString n

def showOptInt : Option Int → String
  | none => "-"
  | some n => toString n

def paren (head : String) (args : List String) : String :=
  "(" ++ " ".intercalate (head :: args) ++ ")"

partial def showNode : Node → String
  | .str s => paren "str" [hex s]
  | .insens s => paren "insens" [hex s]
  | .range lo hi => paren "range" [toString lo.toNat, toString hi.toNat]
  | .any => "(any)"
  | .soi => "(soi)"
  | .eoi => "(eoi)"
  | .newline => "(newline)"
  | .charBy p => paren "charby" [p]
  | .skipUntil ns => paren "skipuntil" (ns.map hex)
  | .skipChars n => paren "skipchars" [toString n]
  | .seq f items => paren "seq" (showFlag f :: items.map showNode)
  | .choice alts => paren "choice" (alts.map showNode)
  | .opt n => paren "opt" [showNode n]
  | .rep f mn mx n => paren "rep" [showFlag f, toString mn, showOptNat mx, showNode n]
  | .atomicRepeat n => paren "atomicrepeat" [showNode n]
  | .pos n => paren "pos" [showNode n]
  | .neg n => paren "neg" [showNode n]
  | .push n => paren "push" [showNode n]
  | .peek => "(peek)"
  | .peekAll => "(peekall)"
  | .pop => "(pop)"
  | .popAll => "(popall)"
  | .drop => "(drop)"
  | .peekSlice a b => paren "peekslice" [toString a, showOptInt b]
  | .ref r f => paren "ref" [toString r, showFlag f]
  | .array k n => paren "array" [toString k, showNode n]
  | .pair a b => paren "pair" [showNode a, showNode b]
  | .empty => "(empty)"
  | .alwaysFail => "(alwaysfail)"

def showAtom : Atomicity → String
  | .atomic => "true"
  | .nonAtomic => "false"
  | .inherited => "INHERITED"

def showEmit : Emission → String
  | .span => "Span"
  | .expression => "Expression"
  | .both => "Both"

def showRule (d : RuleDef) : String :=
  paren "rule" [d.name, showAtom d.atom, showEmit d.emit, toString d.boxed, showNode d.body]

/-- Rule 0 (`EOI`, `rule_eoi!`) is implicit in the S-expression, as in `rawgen.grammar_sexp`. -/
def showGrammar (gid : String) (g : NodeGrammar) : String :=
  paren "nodegrammar" (gid :: paren "skipped" [showNode g.skipped] :: (g.rules.drop 1).map showRule)

def config (bits : String) : Config :=
  let cs := bits.toList
  { box_only_if_needed := cs[0]? == some '1', pest_optimizer := cs[1]? != some '0', emit_rule_reference := cs[2]? == some '1',
    do_not_emit_span := cs[3]? == some '1', no_warnings := cs[4]? == some '1' }

/-! `genWith` evaluates `notBoxed g` (the reachability loop, cubic in the number of rules) once PER RULE when
`box_only_if_needed` is set — seconds for the 375-rule corpus grammars.  The driver computes the set once;
`genWithOnce_eq` shows that this is the same module. -/

def rulesWith (cfg : Config) (g : PGrammar) (nb : List String) : List RuleDef :=
  g.map fun rl => { genRule g rl with boxed := !cfg.box_only_if_needed || !nb.contains rl.name }

def genWithOnce (cfg : Config) (optimized raw : PGrammar) : NodeGrammar :=
  let g := pickAst cfg optimized raw
  { rules := eoiDef :: rulesWith cfg g (notBoxed g), skipped := genSkipped g }

theorem genWithOnce_eq (cfg : Config) (optimized raw : PGrammar) :
    genWithOnce cfg optimized raw = genWith cfg optimized raw := rfl

def run (opts gid : String) (stored : NodeGrammar) (pg rawpg : Option PGrammar) : String :=
  match pg, rawpg with
  | some o, some r =>
    if opts = "default" then showGrammar gid (gen o) else showGrammar gid (genWithOnce (config opts) o r)
  | _, _ => showGrammar gid stored

end Driver.TGen
