/-
Driver.PestOpt — the `pestopt` command of `model_driver` (property C20, tie `optimizer-mirror` of
`checks/c20.py`; never used inside a proof):

  pestopt <gid>            `(opt (rule <name> <expr>) ...)`: `optimize raw` (`Model/PestOpt.lean`, the Lean mirror
                           of pest_meta's optimizer) applied to the RAW AST of the loaded grammar, in the
                           S-expression syntax of `harness/tools/src/bin/dump_ast.rs`; it must equal the
                           optimized AST pest_meta itself produced (the other slot of the same corpus line).
  pestopt <gid> stages     the same after each pass, one `(stage <pass> (rule …) …)` group per pass
                           (rotate, skip, unroll, concatenate, factor, list, restore), compared with the python
                           mirror `opts.pass_stages` that attributes raw-vs-optimized differences.
-/
import PestTyped.Model.PestOpt
import Driver.Sexp
open PestTyped
namespace Driver.PestOpt

def showOptInt : Option Int → String
  | none => "-"
  | some b => toString b

def showPExpr : PExpr → String
  | .str s => "(str " ++ hex s ++ ")"
  | .insens s => "(insens " ++ hex s ++ ")"
  | .range lo hi => "(range " ++ toString lo.toNat ++ " " ++ toString hi.toNat ++ ")"
  | .ident n => "(ident " ++ n ++ ")"
  | .peekSlice a b => "(peekslice " ++ toString a ++ " " ++ showOptInt b ++ ")"
  | .posPred e => "(pos " ++ showPExpr e ++ ")"
  | .negPred e => "(neg " ++ showPExpr e ++ ")"
  | .seq a b => "(seq " ++ showPExpr a ++ " " ++ showPExpr b ++ ")"
  | .choice a b => "(choice " ++ showPExpr a ++ " " ++ showPExpr b ++ ")"
  | .opt e => "(opt " ++ showPExpr e ++ ")"
  | .rep e => "(rep " ++ showPExpr e ++ ")"
  | .repOnce e => "(reponce " ++ showPExpr e ++ ")"
  | .repExact e n => "(repexact " ++ showPExpr e ++ " " ++ toString n ++ ")"
  | .repMin e n => "(repmin " ++ showPExpr e ++ " " ++ toString n ++ ")"
  | .repMax e n => "(repmax " ++ showPExpr e ++ " " ++ toString n ++ ")"
  | .repMinMax e n m => "(repminmax " ++ showPExpr e ++ " " ++ toString n ++ " " ++ toString m ++ ")"
  | .skip ns => "(skip" ++ String.join (ns.map fun s => " " ++ hex s) ++ ")"
  | .push e => "(push " ++ showPExpr e ++ ")"
  | .restoreOnErr e => "(restore " ++ showPExpr e ++ ")"

def showRules (g : PGrammar) : String :=
  String.join (g.map fun r => " (rule " ++ r.name ++ " " ++ showPExpr r.expr ++ ")")

def stages (raw : PGrammar) : List (String × PGrammar) :=
  let s1 := passRotate raw
  let s2 := passSkip raw s1
  let s3 := passUnroll s2
  let s4 := passConcatenate s3
  let s5 := passFactor s4
  let s6 := passList s5
  let s7 := passRestore s6
  [("rotate", s1), ("skip", s2), ("unroll", s3), ("concatenate", s4), ("factor", s5), ("list", s6), ("restore", s7)]

def run (raw : Option PGrammar) (rest : List String) : String :=
  match raw with
  | none => "v=noast"
  | some g =>
    match rest with
    | [] => "(opt" ++ showRules (optimize g) ++ ")"
    | ["stages"] => " ".intercalate ((stages g).map fun (n, s) => "(stage " ++ n ++ showRules s ++ ")")
    | _ => "v=badline"

end Driver.PestOpt
