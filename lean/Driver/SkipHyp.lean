/-
Driver.SkipHyp — the `skiphyp` command of `model_driver`: evaluates, on a corpus grammar, the hypotheses on
the skip rules WHITESPACE / COMMENT under which the C01 / C02 / C07 theorems state agreement with pest
(finding F-WS), with the very Lean predicates the theorems use (Lemmas/SkipLike.lean,
Lemmas/SkipImplicit.lean) — so that the oracle need not approximate them.  Never used inside a proof.

  skiphyp <gid> <opt|raw> [<entry> …]
      → `like=<0|1>\timplicit=<name>:<0|1>,…\timplicit_tok=<name>:<0|1>,…`
      `like`          `skipRulesAtomicLikeB g` (= `SkipRulesAtomicLike g`, theorem `skipRulesAtomicLikeB_iff`):
                      hypothesis of `C01_*`, `C02_tree*`;
      `implicit`      per entry rule, `SkipRulesImplicitOnly g entry`: hypothesis of `C01_*_implicit_entry`,
                      `C07_as_pest_implicit_entry` (verdict, end offset, stack agree with pest for that entry);
      `implicit_tok`  per entry rule, `SkipRulesImplicitOnlyTok g entry`: hypothesis of `C02_tree_implicit`,
                      `C07_rule_spans_as_pest_implicit` (token tree agrees with pest's, pruned).
      `<opt|raw>` selects the optimized AST (the one `gen` and `spec` are run on) or the raw one; without
      entry names every rule of the grammar is listed, in grammar order.  `like=1` implies every
      `implicit` / `implicit_tok` theorem applies as well (`C01_implicit_of_like`, `C02_implicit_of_like`),
      whatever the bit printed here.
      Errors: `v=nogrammar`, `v=noast`, `v=badline`.
-/
import PestTyped.Lemmas.SkipImplicit
open PestTyped
namespace Driver.SkipHyp

def b2s (b : Bool) : String := if b then "1" else "0"

def report (g : PGrammar) (entries : List String) : String :=
  let es := if entries.isEmpty then g.map (·.name) else entries
  "like=" ++ b2s (skipRulesAtomicLikeB g) ++
  "\timplicit=" ++ ",".intercalate (es.map fun e => e ++ ":" ++ b2s (SkipRulesImplicitOnly g e)) ++
  "\timplicit_tok=" ++ ",".intercalate (es.map fun e => e ++ ":" ++ b2s (SkipRulesImplicitOnlyTok g e))

def run (opt raw : Option PGrammar) (rest : List String) : String :=
  match rest with
  | which :: entries =>
    if which != "opt" && which != "raw" then "v=badline" else
    match (if which = "raw" then raw else opt) with
    | some g => report g entries
    | none => "v=noast"
  | [] => "v=badline"

end Driver.SkipHyp
