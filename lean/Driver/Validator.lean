/-
Driver.Validator — the `validate` command of `model_driver` (property C11, tie `validator-mirror` of
`checks/c11.py`; never used inside a proof):

  validate (vgrammar (rule <name> <kind> <raw expr>) ...)

runs the Lean mirror `pestValidate` (`Model/Validator.lean`) of pest_meta's `validate_ast` on the rules
printed by `harness/gen_runner` (the very `ParserRule`s the real `validate_ast` was called on) and prints
`v=<accept|reject>\tcls=<error classes, comma separated, in collection order>\trules=<n>`.
The S-expression is read by `Driver/Main.lean` (`toRawGrammar`).
-/
import PestTyped.Model.Validator
open PestTyped
namespace Driver.Validator

/-- The class names of `checks/c11.py` (`ERR_CLASSES`). -/
def className : ValidatorError → String
  | .repCannotFail => "rep-cannot-fail"
  | .repNonProgressing => "rep-non-progressing"
  | .choiceUnreachable => "choice-unreachable"
  | .skipCannotFail => "skip-cannot-fail"
  | .skipNonProgressing => "skip-non-progressing"
  | .leftRecursion => "left-recursion"

def run : Option PGrammar → String
  | none => "v=badgrammar"
  | some g =>
    let es := pestValidate g
    "v=" ++ (if es.isEmpty then "accept" else "reject") ++ "\tcls=" ++ ",".intercalate (es.map className) ++
      "\trules=" ++ toString g.length

end Driver.Validator
