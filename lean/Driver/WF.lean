/-
Driver.WF — the `wf` commands of `model_driver` (property C11; used only by `checks/c11.py`,
never inside a proof):

  wf <gid>                          static well-foundedness of the generated module as decided by
                                    `wfCheck` (`Lemmas/Termination.lean`, proved sound):
                                    `wf=<0|1> nulok= noleftrec= progressing= K= D= nul=<nullable rules>`
  wf <gid> <rule> <entry> <hex>     runs an entry point (`parse`, `check`, `parse_partial`,
                                    `check_partial`) on a plain `&str` input with exactly the fuel of
                                    theorem `C11_terminates_checked` (`entryFuel G (wfRank G) |input|`):
                                    `v=<ok|fail|oof> end=<byte offset> fuel=<n>`; for a module with
                                    `wf=1` the theorem says `v=oof` never appears.
  wfraw <gid> […]                   the same two commands on the module generated with `#[pest_optimizer = false]`
                                    (`genWith` on the un-optimized AST: counted repetitions stay `.rep n (some m)` nodes);
                                    the hook is in `Driver/Main.lean`.
-/
import PestTyped.Lemmas.Termination
import Driver.Sexp
open PestTyped
namespace Driver.WF

def b2s (b : Bool) : String := if b then "1" else "0"

/-- `wfNul g` and `wfRank g` with their tables computed once (definitionally the same functions). -/
def tables (g : NodeGrammar) : (RuleId → Bool) × (RuleId → Nat) :=
  let nt := nulTable g
  let nul : RuleId → Bool := fun r => nt.getD r false
  let rt := rankTable g nul
  (nul, fun r => rt.getD r 0)

theorem tables_eq (g : NodeGrammar) : tables g = (wfNul g, wfRank g) := rfl

def report (g : NodeGrammar) : String :=
  let (nul, rank) := tables g
  let a := nulOKb g nul
  let b := noLeftRecb g nul rank
  let c := progressingb g nul
  let names := (List.range g.rules.length).filterMap fun r =>
    match g.rule? r with
    | some d => if nul r then some d.name else none
    | none => none
  "wf=" ++ b2s (a && b && c) ++ "\tnulok=" ++ b2s a ++ "\tnoleftrec=" ++ b2s b ++ "\tprogressing=" ++ b2s c ++
    "\tK=" ++ toString (rankBound g rank) ++ "\tD=" ++ toString (maxDepth g) ++
    "\tnul=" ++ ",".intercalate names

def showRes {α} (fuel : Nat) : R α → String
  | .oof => "v=oof\tfuel=" ++ toString fuel
  | .fail _ => "v=fail\tfuel=" ++ toString fuel
  | .ok i' _ _ => "v=ok\tend=" ++ toString i'.pos ++ "\tfuel=" ++ toString fuel

def run (g : NodeGrammar) (rule entry : String) (input : List Char) : String :=
  match g.rules.findIdx? (·.name = rule) with
  | none => "v=norule"
  | some r =>
    let i : Inp := { start := 0, pos := 0, rest := input, after := [] }
    let fuel := entryFuel g (tables g).2 input.length
    let uni : Uni := fun _ _ => false
    match entry with
    | "parse" => showRes fuel (tryParse g uni fuel r i)
    | "check" => showRes fuel (tryCheck g uni fuel r i)
    | "parse_partial" => showRes fuel (tryParsePartial g uni fuel r i)
    | "check_partial" => showRes fuel (tryCheckPartial g uni fuel r i)
    | _ => "v=badentry"

def command (g : NodeGrammar) : List String → String
  | [] => report g
  | [rule, entry, hx] => run g rule entry (unhex hx)
  | _ => "v=badline"

end Driver.WF
