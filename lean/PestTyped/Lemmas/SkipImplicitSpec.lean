/-
Lemmas.SkipImplicitSpec — the "declared-kind" reference semantics `U.spec` / `U.specTok`: pest's semantics
(`Model/Spec.lean`, `Model/SpecTokens.lean`) WITHOUT the forcing of `Atomic` inside rules named WHITESPACE /
COMMENT — every rule body runs under the atomicity its declared kind says (`flagNa`, `flagAt`), and the
implicit skip enters the skip rules with skipping off and tokens on (`CompoundAtomic`).  This is what the
typed parser of `gen g` computes for EVERY grammar (no hypothesis: Lemmas/SkipImplicitSim.lean,
Lemmas/SkipImplicitSimTok.lean); it is pest's semantics under the static hypotheses of
Lemmas/SkipImplicit.lean (`specU_eq`, `specTokU_eq` below).  Not a model of any code: a proof device.
-/
import PestTyped.Lemmas.SkipImplicit
import PestTyped.Lemmas.Sim
import PestTyped.Lemmas.SpecTokensLemmas
set_option linter.unusedSimpArgs false
set_option linter.unusedVariables false
namespace PestTyped

/-! ### `U.spec` -/

/-- `spec` with the body of a rule run under the value of its `#skip` flag (`flagNa`) instead of `bodyNa`. -/
def U.spec (g : PGrammar) (uni : Uni) : Nat → Bool → PExpr → Inp → List Sp → SR
  | 0, _, _, _, _ => .oof
  | _+1, _, .str s, i, S =>
    match i.matchString s with | some i' => .ok i' S | none => .fail
  | _+1, _, .insens s, i, S =>
    match i.matchInsens s with | some i' => .ok i' S | none => .fail
  | _+1, _, .range lo hi, i, S =>
    match i.matchRange lo hi with | some (i', _) => .ok i' S | none => .fail
  | n+1, na, .ident name, i, S =>
    match g.find? name with
    | some r => U.spec g uni n (flagNa r.kind na) r.expr i S
    | none => specBuiltin uni name i S
  | _+1, _, .peekSlice a b, i, S =>
    match constrainIdxs a b S.length with
    | none => .fail
    | some (lo, hi) =>
      if hi ≤ lo then .ok i S
      else match peekSpans (stackSlice S lo hi) i with
        | some i' => .ok i' S
        | none => .fail
  | n+1, na, .posPred e, i, S =>
    match U.spec g uni n na e i S with
    | .oof => .oof
    | .fail => .fail
    | .ok _ _ => .ok i S
  | n+1, na, .negPred e, i, S =>
    match U.spec g uni n na e i S with
    | .oof => .oof
    | .fail => .ok i S
    | .ok _ _ => .fail
  | n+1, na, .seq a b, i, S =>
    match U.spec g uni n na a i S with
    | .oof => .oof
    | .fail => .fail
    | .ok i1 S1 =>
      if na then
        match specSkip (U.spec g uni n false) (g.defines "WHITESPACE") (g.defines "COMMENT") (atomicBudget n) i1 S1 with
        | .oof => .oof
        | .fail => .fail
        | .ok i2 S2 => U.spec g uni n na b i2 S2
      else U.spec g uni n na b i1 S1
  | n+1, na, .choice a b, i, S =>
    match U.spec g uni n na a i S with
    | .oof => .oof
    | .ok i' S' => .ok i' S'
    | .fail => U.spec g uni n na b i S
  | n+1, na, .opt e, i, S =>
    match U.spec g uni n na e i S with
    | .oof => .oof
    | .ok i' S' => .ok i' S'
    | .fail => .ok i S
  | n+1, na, .rep e, i, S =>
    specRepWith (U.spec g uni n) n (g.defines "WHITESPACE") (g.defines "COMMENT") na e 0 none i S
  | n+1, na, .repOnce e, i, S =>
    specRepWith (U.spec g uni n) n (g.defines "WHITESPACE") (g.defines "COMMENT") na e 1 none i S
  | n+1, na, .repExact e k, i, S =>
    specRepWith (U.spec g uni n) n (g.defines "WHITESPACE") (g.defines "COMMENT") na e k (some k) i S
  | n+1, na, .repMin e k, i, S =>
    specRepWith (U.spec g uni n) n (g.defines "WHITESPACE") (g.defines "COMMENT") na e k none i S
  | n+1, na, .repMax e k, i, S =>
    specRepWith (U.spec g uni n) n (g.defines "WHITESPACE") (g.defines "COMMENT") na e 0 (some k) i S
  | n+1, na, .repMinMax e k l, i, S =>
    specRepWith (U.spec g uni n) n (g.defines "WHITESPACE") (g.defines "COMMENT") na e k (some l) i S
  | _+1, _, .skip needles, i, S => .ok (i.skipUntil needles).1 S
  | n+1, na, .push e, i, S =>
    match U.spec g uni n na e i S with
    | .oof => .oof
    | .fail => .fail
    | .ok i' S' => .ok i' (i.spanTo i' :: S')
  | n+1, na, .restoreOnErr e, i, S => U.spec g uni n na e i S

/-- Entry point of `U.spec`. -/
def U.specPartial (g : PGrammar) (uni : Uni) (n : Nat) (name : String) (i : Inp) : SR :=
  U.spec g uni n true (.ident name) i []

/-! ### congruence of the Spec's loops in the evaluation function -/

theorem specSkip_congr (call call' : PExpr → Inp → List Sp → SR) (hasW hasC : Bool)
    (hW : hasW = true → ∀ i S, call (.ident "WHITESPACE") i S = call' (.ident "WHITESPACE") i S)
    (hC : hasC = true → ∀ i S, call (.ident "COMMENT") i S = call' (.ident "COMMENT") i S)
    (b : Nat) (i : Inp) (S : List Sp) :
    specSkip call hasW hasC b i S = specSkip call' hasW hasC b i S := by
  unfold specSkip
  congr 1
  funext _ i S
  unfold specSkipUnit
  cases hasW with
  | true =>
    simp only [if_true]
    rw [hW rfl i S]
    cases hasC with
    | true => simp only [if_true]; rw [hC rfl i S]
    | false => rfl
  | false =>
    simp only [Bool.false_eq_true, if_false]
    cases hasC with
    | true => simp only [if_true]; rw [hC rfl i S]
    | false => rfl

theorem specRepWith_congr (sp sp' : Bool → PExpr → Inp → List Sp → SR) (n : Nat) (hasW hasC : Bool) (na : Bool)
    (e : PExpr) (he : ∀ i S, sp na e i S = sp' na e i S)
    (hW : hasW = true → ∀ i S, sp false (.ident "WHITESPACE") i S = sp' false (.ident "WHITESPACE") i S)
    (hC : hasC = true → ∀ i S, sp false (.ident "COMMENT") i S = sp' false (.ident "COMMENT") i S)
    (min : Nat) (max : Option Nat) (i : Inp) (S : List Sp) :
    specRepWith sp n hasW hasC na e min max i S = specRepWith sp' n hasW hasC na e min max i S := by
  unfold specRepWith
  congr 1
  funext idx i S
  rw [he i S]
  split
  · rfl
  · rw [specSkip_congr (sp false) (sp' false) hasW hasC hW hC]
    cases specSkip (sp' false) hasW hasC (atomicBudget n) i S with
    | oof => rfl
    | fail => rfl
    | ok i1 S1 => simp only []; rw [he i1 S1]

/-! ### a simple body never consults the atomicity (for `U.spec`) -/

theorem U.spec_simple_na (g : PGrammar) (uni : Uni) : ∀ (n : Nat) (e : PExpr), SimpleSkipBody g e →
    ∀ (na na' : Bool) (i : Inp) (S : List Sp), U.spec g uni n na e i S = U.spec g uni n na' e i S := by
  intro n
  induction n with
  | zero => intro e _ na na' i S; rfl
  | succ n ih =>
    intro e he na na' i S
    cases e with
    | str s => simp only [U.spec]
    | insens s => simp only [U.spec]
    | range lo hi => simp only [U.spec]
    | ident name =>
      simp only [SimpleSkipBody] at he
      have hidx : g.indexOf name = none := by
        have := he.1
        simp only [PGrammar.defines] at this
        cases hx : g.indexOf name with
        | none => rfl
        | some k => rw [hx] at this; cases this
      simp only [U.spec, find?_of_indexOf_none hidx]
    | peekSlice a b => simp only [U.spec]
    | posPred e => simp only [SimpleSkipBody] at he; simp only [U.spec]; rw [ih e he na na']
    | negPred e => simp only [SimpleSkipBody] at he; simp only [U.spec]; rw [ih e he na na']
    | seq a b => simp only [SimpleSkipBody] at he
    | choice a b =>
      simp only [SimpleSkipBody] at he
      simp only [U.spec]
      rw [ih a he.1 na na', ih b he.2 na na']
    | opt e => simp only [SimpleSkipBody] at he; simp only [U.spec]; rw [ih e he na na']
    | rep e => simp only [SimpleSkipBody] at he
    | repOnce e => simp only [SimpleSkipBody] at he
    | repExact e k => simp only [SimpleSkipBody] at he
    | repMin e k => simp only [SimpleSkipBody] at he
    | repMax e k => simp only [SimpleSkipBody] at he
    | repMinMax e k l => simp only [SimpleSkipBody] at he
    | skip needles => simp only [U.spec]
    | push e => simp only [SimpleSkipBody] at he; simp only [U.spec]; rw [ih e he na na']
    | restoreOnErr e => simp only [SimpleSkipBody] at he; simp only [U.spec]; exact ih e he na na' i S

/-! ### under the hypothesis, `U.spec` is `spec` -/

theorem closedOk_mem {g : PGrammar} {R : List (Nat × Bool)} (hcl : closedOk g R = true) {k : Nat} {nb : Bool}
    {r : PRule} (hmem : R.contains (k, nb) = true) (hr : g[k]? = some r) : exprOk g R nb r.expr = true := by
  unfold closedOk at hcl
  rw [List.all_eq_true] at hcl
  have := hcl (k, nb) (List.contains_iff_mem.mp hmem)
  simp only [hr] at this
  exact this

/-- T2 (verdict level).  Under the hypothesis (`R` closed, the two implicit-skip references fine), for
every expression whose references are fine: the declared-kind semantics is pest's. -/
theorem specU_eq (g : PGrammar) (uni : Uni) (R : List (Nat × Bool))
    (hW : exprOk g R false (.ident "WHITESPACE") = true) (hC : exprOk g R false (.ident "COMMENT") = true)
    (hcl : closedOk g R = true) :
    ∀ (n : Nat) (na : Bool) (e : PExpr), exprOk g R na e = true →
      ∀ (i : Inp) (S : List Sp), U.spec g uni n na e i S = spec g uni n na e i S := by
  intro n
  induction n with
  | zero => intro na e _ i S; rfl
  | succ n ih =>
    intro na e he i S
    have hWn : ∀ i S, U.spec g uni n false (.ident "WHITESPACE") i S = spec g uni n false (.ident "WHITESPACE") i S :=
      ih false _ hW
    have hCn : ∀ i S, U.spec g uni n false (.ident "COMMENT") i S = spec g uni n false (.ident "COMMENT") i S :=
      ih false _ hC
    have hskip : ∀ b i S, specSkip (U.spec g uni n false) (g.defines "WHITESPACE") (g.defines "COMMENT") b i S =
        specSkip (spec g uni n false) (g.defines "WHITESPACE") (g.defines "COMMENT") b i S :=
      fun b i S => specSkip_congr _ _ _ _ (fun _ => hWn) (fun _ => hCn) b i S
    have hrep : ∀ x, exprOk g R na x = true → ∀ min max,
        specRepWith (U.spec g uni n) n (g.defines "WHITESPACE") (g.defines "COMMENT") na x min max i S =
        specRepWith (spec g uni n) n (g.defines "WHITESPACE") (g.defines "COMMENT") na x min max i S :=
      fun x hx min max => specRepWith_congr _ _ n _ _ na x (ih na x hx) (fun _ => hWn) (fun _ => hCn) min max i S
    cases e with
    | str s => simp only [U.spec, spec]; cases i.matchString s <;> rfl
    | insens s => simp only [U.spec, spec]; cases i.matchInsens s <;> rfl
    | range lo hi =>
      simp only [U.spec, spec]
      cases i.matchRange lo hi with
      | none => rfl
      | some p => cases p; rfl
    | ident name =>
      cases hidx : g.indexOf name with
      | none => simp only [U.spec, spec, find?_of_indexOf_none hidx]
      | some k =>
        obtain ⟨r, hr, hrn⟩ := indexOf_spec hidx
        simp only [exprOk, refsAll, hidx, hr, Bool.and_eq_true] at he
        obtain ⟨href, hmem⟩ := he
        simp only [U.spec, spec, find?_of_indexOf hidx, hr]
        have hbody := closedOk_mem hcl hmem hr
        rw [← ih _ _ hbody i S]
        simp only [refOk, Bool.or_eq_true, beq_iff_eq] at href
        rcases href with h | h
        · rw [h]
        · exact U.spec_simple_na g uni n r.expr ((simpleSkipBodyB_iff g _).mp h) _ _ i S
    | peekSlice a b =>
      simp only [U.spec, spec]
      cases constrainIdxs a b S.length with
      | none => rfl
      | some p =>
        obtain ⟨lo, hi⟩ := p
        simp only []
        by_cases hle : hi ≤ lo
        · simp only [hle, if_true]
        · simp only [hle, if_false]
          cases peekSpans (stackSlice S lo hi) i <;> rfl
    | posPred x =>
      simp only [exprOk, refsAll] at he
      simp only [U.spec, spec]; rw [ih na x he i S]; cases spec g uni n na x i S <;> rfl
    | negPred x =>
      simp only [exprOk, refsAll] at he
      simp only [U.spec, spec]; rw [ih na x he i S]; cases spec g uni n na x i S <;> rfl
    | seq a b =>
      simp only [exprOk, refsAll, Bool.and_eq_true] at he
      simp only [U.spec, spec]
      rw [ih na a he.1 i S]
      cases spec g uni n na a i S with
      | oof => rfl
      | fail => rfl
      | ok i1 S1 =>
        simp only []
        rw [hskip]
        cases na with
        | false => simp only [Bool.false_eq_true, if_false]; exact ih false b he.2 i1 S1
        | true =>
          simp only [if_true]
          cases specSkip (spec g uni n false) (g.defines "WHITESPACE") (g.defines "COMMENT") (atomicBudget n) i1 S1 with
          | oof => rfl
          | fail => rfl
          | ok i2 S2 => simp only []; exact ih true b he.2 i2 S2
    | choice a b =>
      simp only [exprOk, refsAll, Bool.and_eq_true] at he
      simp only [U.spec, spec]
      rw [ih na a he.1 i S, ih na b he.2 i S]
      cases spec g uni n na a i S <;> rfl
    | opt x =>
      simp only [exprOk, refsAll] at he
      simp only [U.spec, spec]; rw [ih na x he i S]; cases spec g uni n na x i S <;> rfl
    | rep x => simp only [exprOk, refsAll] at he; simp only [U.spec, spec]; exact hrep x he _ _
    | repOnce x => simp only [exprOk, refsAll] at he; simp only [U.spec, spec]; exact hrep x he _ _
    | repExact x k => simp only [exprOk, refsAll] at he; simp only [U.spec, spec]; exact hrep x he _ _
    | repMin x k => simp only [exprOk, refsAll] at he; simp only [U.spec, spec]; exact hrep x he _ _
    | repMax x k => simp only [exprOk, refsAll] at he; simp only [U.spec, spec]; exact hrep x he _ _
    | repMinMax x k l => simp only [exprOk, refsAll] at he; simp only [U.spec, spec]; exact hrep x he _ _
    | skip needles => simp only [U.spec, spec]
    | push x =>
      simp only [exprOk, refsAll] at he
      simp only [U.spec, spec]; rw [ih na x he i S]; cases spec g uni n na x i S <;> rfl
    | restoreOnErr x =>
      simp only [exprOk, refsAll] at he
      simp only [U.spec, spec]; exact ih na x he i S

/-- T2 for the packaged hypothesis `ImplicitOk g R na e`. -/
theorem specU_eq_of_implicitOk {g : PGrammar} {R : List (Nat × Bool)} {na : Bool} {e : PExpr}
    (h : ImplicitOk g R na e = true) (uni : Uni) (n : Nat) (i : Inp) (S : List Sp) :
    U.spec g uni n na e i S = spec g uni n na e i S := by
  simp only [ImplicitOk, Bool.and_eq_true] at h
  obtain ⟨⟨⟨he, hW⟩, hC⟩, hcl⟩ := h
  exact specU_eq g uni R hW hC hcl n na e he i S

/-! ### `SkipRulesAtomicLike` implies the weak hypothesis (with the set of ALL states as witness) -/

/-- All states of a grammar. -/
def allStates (g : PGrammar) : List (Nat × Bool) :=
  (List.range g.length).flatMap fun k => [(k, true), (k, false)]

theorem allStates_contains (g : PGrammar) {k : Nat} {r : PRule} (hr : g[k]? = some r) (b : Bool) :
    (allStates g).contains (k, b) = true := by
  have hk : k < g.length := by
    rcases Nat.lt_or_ge k g.length with h | h
    · exact h
    · rw [List.getElem?_eq_none h] at hr; cases hr
  rw [List.contains_iff_mem]
  unfold allStates
  rw [List.mem_flatMap]
  exact ⟨k, List.mem_range.mpr hk, by cases b <;> simp⟩

theorem refsAll_of_forall (g : PGrammar) (check : String → Nat → PRule → Bool)
    (h : ∀ name k r, g.indexOf name = some k → g[k]? = some r → check name k r = true) :
    ∀ e : PExpr, refsAll g check e = true := by
  intro e
  induction e with
  | ident name =>
    simp only [refsAll]
    cases hidx : g.indexOf name with
    | none => rfl
    | some k =>
      simp only []
      cases hr : g[k]? with
      | none => rfl
      | some r => exact h name k r hidx hr
  | seq a b iha ihb => simp only [refsAll, iha, ihb, Bool.and_self]
  | choice a b iha ihb => simp only [refsAll, iha, ihb, Bool.and_self]
  | posPred e ih => simpa only [refsAll] using ih
  | negPred e ih => simpa only [refsAll] using ih
  | opt e ih => simpa only [refsAll] using ih
  | rep e ih => simpa only [refsAll] using ih
  | repOnce e ih => simpa only [refsAll] using ih
  | repExact e k ih => simpa only [refsAll] using ih
  | repMin e k ih => simpa only [refsAll] using ih
  | repMax e k ih => simpa only [refsAll] using ih
  | repMinMax e k l ih => simpa only [refsAll] using ih
  | push e ih => simpa only [refsAll] using ih
  | restoreOnErr e ih => simpa only [refsAll] using ih
  | _ => rfl

theorem exprOk_of_like {g : PGrammar} (hws : SkipRulesAtomicLike g) (na : Bool) (e : PExpr) :
    exprOk g (allStates g) na e = true := by
  unfold exprOk
  refine refsAll_of_forall g _ (fun name k r hidx hr => ?_) e
  simp only [Bool.and_eq_true]
  refine ⟨?_, allStates_contains g hr _⟩
  simp only [refOk, Bool.or_eq_true, beq_iff_eq]
  rcases flag_invariant_like hws hidx hr na with h | h
  · exact Or.inl h.symm
  · exact Or.inr ((simpleSkipBodyB_iff g _).mpr h)

/-- The weak hypothesis is implied by `SkipRulesAtomicLike g`, for every expression and atomicity. -/
theorem implicitOk_of_like {g : PGrammar} (hws : SkipRulesAtomicLike g) (na : Bool) (e : PExpr) :
    ImplicitOk g (allStates g) na e = true := by
  simp only [ImplicitOk, Bool.and_eq_true, exprOk_of_like hws, true_and]
  unfold closedOk
  rw [List.all_eq_true]
  intro s _
  cases hr : g[s.1]? with
  | none => rfl
  | some r => exact exprOk_of_like hws s.2 r.expr

/-! ## token level: `U.specTok` -/

/-- (`specTokRepWith` with the skip rules entered in `CompoundAtomic` mode.)  `e (skip e)*` with bounds; the tokens of a skip precede those of the iteration it introduces,
and are dropped with it when that iteration fails. -/
def U.specTokRepWith (sp : Atom3 → PExpr → Inp → List Sp → STR) (n : Nat) (hasW hasC : Bool) (am : Atom3)
    (e : PExpr) (min : Nat) (max : Option Nat) (i : Inp) (S : List Sp) : STR :=
  specTokRepLoop (fun idx i S =>
    if idx = 0 ∨ !am.na then sp am e i S
    else
      match specTokSkip (sp .compound) hasW hasC (atomicBudget n) i S with
      | .oof => .oof
      | .fail => .fail
      | .ok i1 S1 t1 =>
        match sp am e i1 S1 with
        | .oof => .oof
        | .fail => .fail
        | .ok i2 S2 t2 => .ok i2 S2 (t1 ++ t2)) min max n 0 i S []

def U.specTok (g : PGrammar) (uni : Uni) : Nat → Atom3 → PExpr → Inp → List Sp → STR
  | 0, _, _, _, _ => .oof
  | _+1, _, .str s, i, S =>
    match i.matchString s with | some i' => .ok i' S [] | none => .fail
  | _+1, _, .insens s, i, S =>
    match i.matchInsens s with | some i' => .ok i' S [] | none => .fail
  | _+1, _, .range lo hi, i, S =>
    match i.matchRange lo hi with | some (i', _) => .ok i' S [] | none => .fail
  | n+1, am, .ident name, i, S =>
    match g.find? name with
    | some r =>
      match U.specTok g uni n (flagAt r.kind am) r.expr i S with
      | .oof => .oof
      | .fail => .fail
      | .ok i' S' ts =>
        .ok i' S' (if emitsToken r.kind am then [.mk (g.ruleId name) i.pos i'.pos ts] else ts)
    | none => specTokBuiltin uni am name i S
  | _+1, _, .peekSlice a b, i, S =>
    match constrainIdxs a b S.length with
    | none => .fail
    | some (lo, hi) =>
      if hi ≤ lo then .ok i S []
      else match peekSpans (stackSlice S lo hi) i with
        | some i' => .ok i' S []
        | none => .fail
  | n+1, am, .posPred e, i, S =>
    match U.specTok g uni n am e i S with
    | .oof => .oof
    | .fail => .fail
    | .ok _ _ _ => .ok i S []
  | n+1, am, .negPred e, i, S =>
    match U.specTok g uni n am e i S with
    | .oof => .oof
    | .fail => .ok i S []
    | .ok _ _ _ => .fail
  | n+1, am, .seq a b, i, S =>
    match U.specTok g uni n am a i S with
    | .oof => .oof
    | .fail => .fail
    | .ok i1 S1 t1 =>
      if am.na then
        match specTokSkip (U.specTok g uni n .compound) (g.defines "WHITESPACE") (g.defines "COMMENT")
            (atomicBudget n) i1 S1 with
        | .oof => .oof
        | .fail => .fail
        | .ok i2 S2 t2 =>
          match U.specTok g uni n am b i2 S2 with
          | .oof => .oof
          | .fail => .fail
          | .ok i3 S3 t3 => .ok i3 S3 (t1 ++ t2 ++ t3)
      else
        match U.specTok g uni n am b i1 S1 with
        | .oof => .oof
        | .fail => .fail
        | .ok i3 S3 t3 => .ok i3 S3 (t1 ++ t3)
  | n+1, am, .choice a b, i, S =>
    match U.specTok g uni n am a i S with
    | .oof => .oof
    | .ok i' S' ts => .ok i' S' ts
    | .fail => U.specTok g uni n am b i S
  | n+1, am, .opt e, i, S =>
    match U.specTok g uni n am e i S with
    | .oof => .oof
    | .ok i' S' ts => .ok i' S' ts
    | .fail => .ok i S []
  | n+1, am, .rep e, i, S =>
    U.specTokRepWith (U.specTok g uni n) n (g.defines "WHITESPACE") (g.defines "COMMENT") am e 0 none i S
  | n+1, am, .repOnce e, i, S =>
    U.specTokRepWith (U.specTok g uni n) n (g.defines "WHITESPACE") (g.defines "COMMENT") am e 1 none i S
  | n+1, am, .repExact e k, i, S =>
    U.specTokRepWith (U.specTok g uni n) n (g.defines "WHITESPACE") (g.defines "COMMENT") am e k (some k) i S
  | n+1, am, .repMin e k, i, S =>
    U.specTokRepWith (U.specTok g uni n) n (g.defines "WHITESPACE") (g.defines "COMMENT") am e k none i S
  | n+1, am, .repMax e k, i, S =>
    U.specTokRepWith (U.specTok g uni n) n (g.defines "WHITESPACE") (g.defines "COMMENT") am e 0 (some k) i S
  | n+1, am, .repMinMax e k l, i, S =>
    U.specTokRepWith (U.specTok g uni n) n (g.defines "WHITESPACE") (g.defines "COMMENT") am e k (some l) i S
  | _+1, _, .skip needles, i, S => .ok (i.skipUntil needles).1 S []
  | n+1, am, .push e, i, S =>
    match U.specTok g uni n am e i S with
    | .oof => .oof
    | .fail => .fail
    | .ok i' S' ts => .ok i' (i.spanTo i' :: S') ts
  | n+1, am, .restoreOnErr e, i, S => U.specTok g uni n am e i S

/-- Entry point of `U.specTok`. -/
def U.specTokPartial (g : PGrammar) (uni : Uni) (n : Nat) (name : String) (i : Inp) : STR :=
  U.specTok g uni n .nonAtomic (.ident name) i []

/-! ### congruence of the token loops in the evaluation function -/

theorem specTokSkip_congr (call call' : PExpr → Inp → List Sp → STR) (hasW hasC : Bool)
    (hW : hasW = true → ∀ i S, call (.ident "WHITESPACE") i S = call' (.ident "WHITESPACE") i S)
    (hC : hasC = true → ∀ i S, call (.ident "COMMENT") i S = call' (.ident "COMMENT") i S)
    (b : Nat) (i : Inp) (S : List Sp) :
    specTokSkip call hasW hasC b i S = specTokSkip call' hasW hasC b i S := by
  unfold specTokSkip
  congr 1
  funext _ i S
  unfold specTokSkipUnit
  cases hasW with
  | true =>
    simp only [if_true]
    rw [hW rfl i S]
    cases hasC with
    | true => simp only [if_true]; rw [hC rfl i S]
    | false => rfl
  | false =>
    simp only [Bool.false_eq_true, if_false]
    cases hasC with
    | true => simp only [if_true]; rw [hC rfl i S]
    | false => rfl

/-- `U.specTokRepWith` against `specTokRepWith`: same element function on `e`, and the skip rules entered
in `CompoundAtomic` mode on one side answer as entered in `NonAtomic` mode on the other. -/
theorem specTokRepWithU_congr (sp sp' : Atom3 → PExpr → Inp → List Sp → STR) (n : Nat) (hasW hasC : Bool)
    (am : Atom3) (e : PExpr) (he : ∀ i S, sp am e i S = sp' am e i S)
    (hW : hasW = true → ∀ i S, sp .compound (.ident "WHITESPACE") i S = sp' .nonAtomic (.ident "WHITESPACE") i S)
    (hC : hasC = true → ∀ i S, sp .compound (.ident "COMMENT") i S = sp' .nonAtomic (.ident "COMMENT") i S)
    (min : Nat) (max : Option Nat) (i : Inp) (S : List Sp) :
    U.specTokRepWith sp n hasW hasC am e min max i S = specTokRepWith sp' n hasW hasC am e min max i S := by
  unfold U.specTokRepWith specTokRepWith
  congr 1
  funext idx i S
  rw [he i S]
  split
  · rfl
  · rw [specTokSkip_congr (sp .compound) (sp' .nonAtomic) hasW hasC hW hC]
    cases specTokSkip (sp' .nonAtomic) hasW hasC (atomicBudget n) i S with
    | oof => rfl
    | fail => rfl
    | ok i1 S1 t1 => simp only []; rw [he i1 S1]; cases sp' am e i1 S1 <;> rfl

/-- `U.specTokRepWith` in two modes with skipping off. -/
theorem specTokRepWithU_off (sp : Atom3 → PExpr → Inp → List Sp → STR) (n : Nat) (hasW hasC : Bool)
    (am am' : Atom3) (h1 : am.na = false) (h2 : am'.na = false) (e : PExpr)
    (he : ∀ i S, sp am e i S = sp am' e i S) (min : Nat) (max : Option Nat) (i : Inp) (S : List Sp) :
    U.specTokRepWith sp n hasW hasC am e min max i S = U.specTokRepWith sp n hasW hasC am' e min max i S := by
  unfold U.specTokRepWith
  congr 1
  funext idx i S
  simp only [h1, h2, Bool.not_false, or_true, if_true]
  exact he i S

theorem specTokBuiltin_am (uni : Uni) (am am' : Atom3) (name : String) (hne : name ≠ "EOI") (i : Inp) (S : List Sp) :
    specTokBuiltin uni am name i S = specTokBuiltin uni am' name i S := by
  unfold specTokBuiltin
  cases specBuiltin uni name i S with
  | oof => rfl
  | fail => rfl
  | ok i' S' => simp [hne]

theorem indexOf_none_of_defines_false {g : PGrammar} {name : String} (h : g.defines name = false) :
    g.indexOf name = none := by
  simp only [PGrammar.defines] at h
  cases hx : g.indexOf name with
  | none => rfl
  | some k => rw [hx] at h; cases h

/-! ### bodies whose token semantics does not depend on the mode -/

/-- A body without rule call gives the same result (no token) in any two modes with skipping off. -/
theorem U.specTok_noCall (g : PGrammar) (uni : Uni) : ∀ (n : Nat) (e : PExpr), noRuleCallB g e = true →
    ∀ (am am' : Atom3), am.na = false → am'.na = false → ∀ (i : Inp) (S : List Sp),
      U.specTok g uni n am e i S = U.specTok g uni n am' e i S := by
  intro n
  induction n with
  | zero => intro e _ am am' _ _ i S; rfl
  | succ n ih =>
    intro e he am am' h1 h2 i S
    have hrep : ∀ x, noRuleCallB g x = true → ∀ min max,
        U.specTokRepWith (U.specTok g uni n) n (g.defines "WHITESPACE") (g.defines "COMMENT") am x min max i S =
        U.specTokRepWith (U.specTok g uni n) n (g.defines "WHITESPACE") (g.defines "COMMENT") am' x min max i S :=
      fun x hx min max => specTokRepWithU_off _ n _ _ am am' h1 h2 x (ih x hx am am' h1 h2) min max i S
    cases e with
    | str s => simp only [U.specTok]
    | insens s => simp only [U.specTok]
    | range lo hi => simp only [U.specTok]
    | ident name =>
      simp only [noRuleCallB, Bool.and_eq_true, Bool.not_eq_true', bne_iff_ne, ne_eq] at he
      simp only [U.specTok, find?_of_indexOf_none (indexOf_none_of_defines_false he.1)]
      exact specTokBuiltin_am uni am am' name he.2 i S
    | peekSlice a b => simp only [U.specTok]
    | posPred x => simp only [noRuleCallB] at he; simp only [U.specTok]; rw [ih x he am am' h1 h2]
    | negPred x => simp only [noRuleCallB] at he; simp only [U.specTok]; rw [ih x he am am' h1 h2]
    | seq a b =>
      simp only [noRuleCallB, Bool.and_eq_true] at he
      simp only [U.specTok, h1, h2]
      rw [ih a he.1 am am' h1 h2 i S]
      cases U.specTok g uni n am' a i S with
      | oof => rfl
      | fail => rfl
      | ok i1 S1 t1 => simp only [Bool.false_eq_true, if_false]; rw [ih b he.2 am am' h1 h2 i1 S1]
    | choice a b =>
      simp only [noRuleCallB, Bool.and_eq_true] at he
      simp only [U.specTok]
      rw [ih a he.1 am am' h1 h2 i S, ih b he.2 am am' h1 h2 i S]
    | opt x => simp only [noRuleCallB] at he; simp only [U.specTok]; rw [ih x he am am' h1 h2]
    | rep x => simp only [noRuleCallB] at he; simp only [U.specTok]; exact hrep x he _ _
    | repOnce x => simp only [noRuleCallB] at he; simp only [U.specTok]; exact hrep x he _ _
    | repExact x k => simp only [noRuleCallB] at he; simp only [U.specTok]; exact hrep x he _ _
    | repMin x k => simp only [noRuleCallB] at he; simp only [U.specTok]; exact hrep x he _ _
    | repMax x k => simp only [noRuleCallB] at he; simp only [U.specTok]; exact hrep x he _ _
    | repMinMax x k l => simp only [noRuleCallB] at he; simp only [U.specTok]; exact hrep x he _ _
    | skip needles => simp only [U.specTok]
    | push x => simp only [noRuleCallB] at he; simp only [U.specTok]; rw [ih x he am am' h1 h2]
    | restoreOnErr x => simp only [noRuleCallB] at he; simp only [U.specTok]; exact ih x he am am' h1 h2 i S

/-- A simple body gives the same result in any two modes. -/
theorem U.specTok_simple (g : PGrammar) (uni : Uni) : ∀ (n : Nat) (e : PExpr), SimpleSkipBody g e →
    ∀ (am am' : Atom3) (i : Inp) (S : List Sp), U.specTok g uni n am e i S = U.specTok g uni n am' e i S := by
  intro n
  induction n with
  | zero => intro e _ am am' i S; rfl
  | succ n ih =>
    intro e he am am' i S
    cases e with
    | str s => simp only [U.specTok]
    | insens s => simp only [U.specTok]
    | range lo hi => simp only [U.specTok]
    | ident name =>
      simp only [SimpleSkipBody] at he
      simp only [U.specTok, find?_of_indexOf_none (indexOf_none_of_defines_false he.1)]
      exact specTokBuiltin_am uni am am' name he.2 i S
    | peekSlice a b => simp only [U.specTok]
    | posPred x => simp only [SimpleSkipBody] at he; simp only [U.specTok]; rw [ih x he am am']
    | negPred x => simp only [SimpleSkipBody] at he; simp only [U.specTok]; rw [ih x he am am']
    | seq a b => simp only [SimpleSkipBody] at he
    | choice a b =>
      simp only [SimpleSkipBody] at he
      simp only [U.specTok]
      rw [ih a he.1 am am', ih b he.2 am am']
    | opt x => simp only [SimpleSkipBody] at he; simp only [U.specTok]; rw [ih x he am am']
    | rep x => simp only [SimpleSkipBody] at he
    | repOnce x => simp only [SimpleSkipBody] at he
    | repExact x k => simp only [SimpleSkipBody] at he
    | repMin x k => simp only [SimpleSkipBody] at he
    | repMax x k => simp only [SimpleSkipBody] at he
    | repMinMax x k l => simp only [SimpleSkipBody] at he
    | skip needles => simp only [U.specTok]
    | push x => simp only [SimpleSkipBody] at he; simp only [U.specTok]; rw [ih x he am am']
    | restoreOnErr x => simp only [SimpleSkipBody] at he; simp only [U.specTok]; exact ih x he am am' i S

/-- What the three alternatives of `refOkT` / `skipRefOkT` give: the body answers the same in the two modes. -/
theorem specTokU_modes (g : PGrammar) (uni : Uni) (n : Nat) (e : PExpr) (a b : Atom3)
    (h : (a == b || (!a.na && !b.na && noRuleCallB g e) || simpleSkipBodyB g e) = true) (i : Inp) (S : List Sp) :
    U.specTok g uni n b e i S = U.specTok g uni n a e i S := by
  simp only [Bool.or_eq_true, Bool.and_eq_true, beq_iff_eq, Bool.not_eq_true'] at h
  rcases h with (h | ⟨⟨h1, h2⟩, h3⟩) | h
  · rw [h]
  · exact U.specTok_noCall g uni n e h3 b a h2 h1 i S
  · exact U.specTok_simple g uni n e ((simpleSkipBodyB_iff g _).mp h) b a i S

theorem emitsToken_compound_nonAtomic (k : RuleKind) : emitsToken k .compound = emitsToken k .nonAtomic := by
  cases k <;> rfl

/-! ### under the token hypothesis, `U.specTok` is `specTok` -/

theorem closedOkT_mem {g : PGrammar} {R : List (Nat × Atom3)} (hcl : closedOkT g R = true) {k : Nat} {a : Atom3}
    {r : PRule} (hmem : R.contains (k, a) = true) (hr : g[k]? = some r) : exprOkT g R a r.expr = true := by
  unfold closedOkT at hcl
  rw [List.all_eq_true] at hcl
  have := hcl (k, a) (List.contains_iff_mem.mp hmem)
  simp only [hr] at this
  exact this

/-- T2 (token level), with the statement about the implicit-skip references carried along. -/
theorem specTokU_eq_aux (g : PGrammar) (uni : Uni) (R : List (Nat × Atom3))
    (hW : skipRefOkT g R "WHITESPACE" = true) (hC : skipRefOkT g R "COMMENT" = true)
    (hcl : closedOkT g R = true) :
    ∀ (n : Nat),
      (∀ (am : Atom3) (e : PExpr), exprOkT g R am e = true →
        ∀ (i : Inp) (S : List Sp), U.specTok g uni n am e i S = specTok g uni n am e i S) ∧
      (∀ nm, (nm = "WHITESPACE" ∨ nm = "COMMENT") → ∀ (i : Inp) (S : List Sp),
        U.specTok g uni n .compound (.ident nm) i S = specTok g uni n .nonAtomic (.ident nm) i S) := by
  intro n
  induction n with
  | zero => exact ⟨fun _ _ _ _ _ => rfl, fun _ _ _ _ => rfl⟩
  | succ n ihn =>
    obtain ⟨ih, ihs⟩ := ihn
    constructor
    · intro am e he i S
      have hWn := ihs "WHITESPACE" (Or.inl rfl)
      have hCn := ihs "COMMENT" (Or.inr rfl)
      have hskip : ∀ b i S,
          specTokSkip (U.specTok g uni n .compound) (g.defines "WHITESPACE") (g.defines "COMMENT") b i S =
          specTokSkip (specTok g uni n .nonAtomic) (g.defines "WHITESPACE") (g.defines "COMMENT") b i S :=
        fun b i S => specTokSkip_congr _ _ _ _ (fun _ => hWn) (fun _ => hCn) b i S
      have hrep : ∀ x, exprOkT g R am x = true → ∀ min max,
          U.specTokRepWith (U.specTok g uni n) n (g.defines "WHITESPACE") (g.defines "COMMENT") am x min max i S =
          specTokRepWith (specTok g uni n) n (g.defines "WHITESPACE") (g.defines "COMMENT") am x min max i S :=
        fun x hx min max =>
          specTokRepWithU_congr _ _ n _ _ am x (ih am x hx) (fun _ => hWn) (fun _ => hCn) min max i S
      cases e with
      | str s => simp only [U.specTok, specTok]; cases i.matchString s <;> rfl
      | insens s => simp only [U.specTok, specTok]; cases i.matchInsens s <;> rfl
      | range lo hi =>
        simp only [U.specTok, specTok]
        cases i.matchRange lo hi with
        | none => rfl
        | some p => cases p; rfl
      | ident name =>
        cases hidx : g.indexOf name with
        | none =>
          simp only [U.specTok, specTok, find?_of_indexOf_none hidx]
        | some k =>
          obtain ⟨r, hr, hrn⟩ := indexOf_spec hidx
          simp only [exprOkT, refsAll, hidx, hr, Bool.and_eq_true] at he
          obtain ⟨href, hmem⟩ := he
          simp only [U.specTok, specTok, find?_of_indexOf hidx, hr]
          have hbody := closedOkT_mem hcl hmem hr
          rw [specTokU_modes g uni n r.expr _ _ href i S, ih _ _ hbody i S]
          cases specTok g uni n (bodyAt name r.kind am) r.expr i S <;> rfl
      | peekSlice a b =>
        simp only [U.specTok, specTok]
        cases constrainIdxs a b S.length with
        | none => rfl
        | some p =>
          obtain ⟨lo, hi⟩ := p
          simp only []
          by_cases hle : hi ≤ lo
          · simp only [hle, if_true]
          · simp only [hle, if_false]
            cases peekSpans (stackSlice S lo hi) i <;> rfl
      | posPred x =>
        simp only [exprOkT, refsAll] at he
        simp only [U.specTok, specTok]; rw [ih am x he i S]; cases specTok g uni n am x i S <;> rfl
      | negPred x =>
        simp only [exprOkT, refsAll] at he
        simp only [U.specTok, specTok]; rw [ih am x he i S]; cases specTok g uni n am x i S <;> rfl
      | seq a b =>
        simp only [exprOkT, refsAll, Bool.and_eq_true] at he
        simp only [U.specTok, specTok]
        rw [ih am a he.1 i S]
        cases specTok g uni n am a i S with
        | oof => rfl
        | fail => rfl
        | ok i1 S1 t1 =>
          simp only []
          rw [hskip]
          cases hna : am.na with
          | false =>
            simp only [Bool.false_eq_true, if_false]
            rw [ih am b he.2 i1 S1]
            cases specTok g uni n am b i1 S1 <;> rfl
          | true =>
            simp only [if_true]
            cases specTokSkip (specTok g uni n .nonAtomic) (g.defines "WHITESPACE") (g.defines "COMMENT")
                (atomicBudget n) i1 S1 with
            | oof => rfl
            | fail => rfl
            | ok i2 S2 t2 =>
              simp only []
              rw [ih am b he.2 i2 S2]
              cases specTok g uni n am b i2 S2 <;> rfl
      | choice a b =>
        simp only [exprOkT, refsAll, Bool.and_eq_true] at he
        simp only [U.specTok, specTok]
        rw [ih am a he.1 i S, ih am b he.2 i S]
        cases specTok g uni n am a i S <;> rfl
      | opt x =>
        simp only [exprOkT, refsAll] at he
        simp only [U.specTok, specTok]; rw [ih am x he i S]; cases specTok g uni n am x i S <;> rfl
      | rep x => simp only [exprOkT, refsAll] at he; simp only [U.specTok, specTok]; exact hrep x he _ _
      | repOnce x => simp only [exprOkT, refsAll] at he; simp only [U.specTok, specTok]; exact hrep x he _ _
      | repExact x k => simp only [exprOkT, refsAll] at he; simp only [U.specTok, specTok]; exact hrep x he _ _
      | repMin x k => simp only [exprOkT, refsAll] at he; simp only [U.specTok, specTok]; exact hrep x he _ _
      | repMax x k => simp only [exprOkT, refsAll] at he; simp only [U.specTok, specTok]; exact hrep x he _ _
      | repMinMax x k l => simp only [exprOkT, refsAll] at he; simp only [U.specTok, specTok]; exact hrep x he _ _
      | skip needles => simp only [U.specTok, specTok]
      | push x =>
        simp only [exprOkT, refsAll] at he
        simp only [U.specTok, specTok]; rw [ih am x he i S]; cases specTok g uni n am x i S <;> rfl
      | restoreOnErr x =>
        simp only [exprOkT, refsAll] at he
        simp only [U.specTok, specTok]; exact ih am x he i S
    · intro nm hnm i S
      have hok : skipRefOkT g R nm = true := by rcases hnm with rfl | rfl <;> assumption
      cases hidx : g.indexOf nm with
      | none =>
        simp only [U.specTok, specTok, find?_of_indexOf_none hidx]
        have hne : nm ≠ "EOI" := by rcases hnm with rfl | rfl <;> decide
        exact specTokBuiltin_am uni _ _ nm hne i S
      | some k =>
        obtain ⟨r, hr, hrn⟩ := indexOf_spec hidx
        simp only [skipRefOkT, hidx, hr, Bool.and_eq_true] at hok
        obtain ⟨href, hmem⟩ := hok
        simp only [U.specTok, specTok, find?_of_indexOf hidx, hr]
        have hbody := closedOkT_mem hcl hmem hr
        rw [specTokU_modes g uni n r.expr _ _ href i S, ih _ _ hbody i S, emitsToken_compound_nonAtomic]
        cases specTok g uni n (bodyAt nm r.kind .nonAtomic) r.expr i S <;> rfl

/-- T2 (token level) for the packaged hypothesis `ImplicitOkT g R am e`. -/
theorem specTokU_eq_of_implicitOkT {g : PGrammar} {R : List (Nat × Atom3)} {am : Atom3} {e : PExpr}
    (h : ImplicitOkT g R am e = true) (uni : Uni) (n : Nat) (i : Inp) (S : List Sp) :
    U.specTok g uni n am e i S = specTok g uni n am e i S := by
  simp only [ImplicitOkT, Bool.and_eq_true] at h
  obtain ⟨⟨⟨he, hW⟩, hC⟩, hcl⟩ := h
  exact (specTokU_eq_aux g uni R hW hC hcl n).1 am e he i S

/-- … and for the implicit skip started from a cursor (used for the cursor after `try_parse`). -/
theorem specTokSkipU_eq_of_implicitOkT {g : PGrammar} {R : List (Nat × Atom3)} {am : Atom3} {e : PExpr}
    (h : ImplicitOkT g R am e = true) (uni : Uni) (n b : Nat) (i : Inp) (S : List Sp) :
    specTokSkip (U.specTok g uni n .compound) (g.defines "WHITESPACE") (g.defines "COMMENT") b i S =
      specTokSkip (specTok g uni n .nonAtomic) (g.defines "WHITESPACE") (g.defines "COMMENT") b i S := by
  simp only [ImplicitOkT, Bool.and_eq_true] at h
  obtain ⟨⟨⟨he, hW⟩, hC⟩, hcl⟩ := h
  have := (specTokU_eq_aux g uni R hW hC hcl n).2
  exact specTokSkip_congr _ _ _ _ (fun _ => this _ (Or.inl rfl)) (fun _ => this _ (Or.inr rfl)) b i S

/-! ### `SkipRulesAtomicLike` implies the weak token hypothesis -/

def allStatesT (g : PGrammar) : List (Nat × Atom3) :=
  (List.range g.length).flatMap fun k => [(k, .atomic), (k, .compound), (k, .nonAtomic)]

theorem allStatesT_contains (g : PGrammar) {k : Nat} {r : PRule} (hr : g[k]? = some r) (a : Atom3) :
    (allStatesT g).contains (k, a) = true := by
  have hk : k < g.length := by
    rcases Nat.lt_or_ge k g.length with h | h
    · exact h
    · rw [List.getElem?_eq_none h] at hr; cases hr
  rw [List.contains_iff_mem]
  unfold allStatesT
  rw [List.mem_flatMap]
  exact ⟨k, List.mem_range.mpr hk, by cases a <;> simp⟩

theorem bodyAt_eq_flagAt_of_not_skip {name : String} (h : ¬ (name = "WHITESPACE" ∨ name = "COMMENT")) (k : RuleKind)
    (am : Atom3) : bodyAt name k am = flagAt k am := by
  cases k <;> simp [bodyAt, flagAt, h]

theorem like_cases {g : PGrammar} (hws : SkipRulesAtomicLike g) {name : String} {k : Nat} {r : PRule}
    (hidx : g.indexOf name = some k) (hr : g[k]? = some r) :
    ¬ (name = "WHITESPACE" ∨ name = "COMMENT") ∨ (r.kind = .atomic ∨ r.kind = .compoundAtomic) ∨
      SimpleSkipBody g r.expr := by
  by_cases hn : name = "WHITESPACE" ∨ name = "COMMENT"
  · right
    exact hws name r hn (by rw [find?_of_indexOf hidx, hr])
  · exact Or.inl hn

theorem refOkT_of_like {g : PGrammar} (hws : SkipRulesAtomicLike g) {name : String} {k : Nat} {r : PRule}
    (hidx : g.indexOf name = some k) (hr : g[k]? = some r) (am : Atom3) : refOkT g name r am = true := by
  simp only [refOkT, Bool.or_eq_true, beq_iff_eq]
  rcases like_cases hws hidx hr with h | (h | h) | h
  · exact Or.inl (Or.inl (bodyAt_eq_flagAt_of_not_skip h _ _))
  · exact Or.inl (Or.inl (by simp [bodyAt, flagAt, h]))
  · exact Or.inl (Or.inl (by simp [bodyAt, flagAt, h]))
  · exact Or.inr ((simpleSkipBodyB_iff g _).mpr h)

theorem exprOkT_of_like {g : PGrammar} (hws : SkipRulesAtomicLike g) (am : Atom3) (e : PExpr) :
    exprOkT g (allStatesT g) am e = true := by
  unfold exprOkT
  refine refsAll_of_forall g _ (fun name k r hidx hr => ?_) e
  simp only [Bool.and_eq_true]
  exact ⟨refOkT_of_like hws hidx hr am, allStatesT_contains g hr _⟩

theorem skipRefOkT_of_like {g : PGrammar} (hws : SkipRulesAtomicLike g) (name : String)
    (hn : name = "WHITESPACE" ∨ name = "COMMENT") : skipRefOkT g (allStatesT g) name = true := by
  unfold skipRefOkT
  cases hidx : g.indexOf name with
  | none => rfl
  | some k =>
    simp only []
    cases hr : g[k]? with
    | none => rfl
    | some r =>
      simp only [Bool.and_eq_true, Bool.or_eq_true, beq_iff_eq]
      refine ⟨?_, allStatesT_contains g hr _⟩
      rcases hws name r hn (by rw [find?_of_indexOf hidx, hr]) with (h | h) | h
      · exact Or.inl (Or.inl (by simp [bodyAt, flagAt, h]))
      · exact Or.inl (Or.inl (by simp [bodyAt, flagAt, h]))
      · exact Or.inr ((simpleSkipBodyB_iff g _).mpr h)

/-- The weak token hypothesis is implied by `SkipRulesAtomicLike g`, for every expression and mode. -/
theorem implicitOkT_of_like {g : PGrammar} (hws : SkipRulesAtomicLike g) (am : Atom3) (e : PExpr) :
    ImplicitOkT g (allStatesT g) am e = true := by
  simp only [ImplicitOkT, Bool.and_eq_true, exprOkT_of_like hws, skipRefOkT_of_like hws _ (Or.inl rfl),
    skipRefOkT_of_like hws _ (Or.inr rfl), true_and]
  unfold closedOkT
  rw [List.all_eq_true]
  intro s _
  cases hr : g[s.1]? with
  | none => rfl
  | some r => exact exprOkT_of_like hws s.2 r.expr

end PestTyped
