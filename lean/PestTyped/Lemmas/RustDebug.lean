/-
Lemmas.RustDebug — a model of Rust's `{:?}` for `&str`, `char` and `usize`
(`core::fmt`: `impl Debug for str`, `impl Debug for char`, `char::escape_debug_ext`,
`EscapeUnicode`), shared by `Props/C15More.lean` (`format_as_tree` prints `span.as_str()` with
`{:?}`) and `Props/C18More.lean` (derived `Debug` of values).

`escape_debug_ext(c)` (library/core/src/char/methods.rs):
  '\0' → `\0`, '\t' → `\t`, '\r' → `\r`, '\n' → `\n`, '\\' → `\\`,
  '"'  → `\"`  if escape_double_quote   (str: yes, char: no),
  '\'' → `\'`  if escape_single_quote   (str: no,  char: yes),
  grapheme-extending characters → `\u{hex}` (str and char: escape_grapheme_extended = true),
  printable characters → themselves, all others → `\u{hex}` (lower-case hex, no leading zeros).
For ASCII the two Unicode predicates are decided here exactly (no ASCII character extends a
grapheme; printable = 0x20 ..= 0x7e); above ASCII they are ONE parameter
`uprint c` = `!c.is_grapheme_extended() && is_printable(c)` (tables of the standard library).
The ASCII part is validated against rustc on all 128 characters (see Props/C15More.lean).
-/
namespace PestTyped
namespace RustDebug

/-- `\u{…}`: `EscapeUnicode`, lower-case hexadecimal without leading zeros. -/
def escapeUnicode (c : Char) : List Char := ['\\', 'u', '{'] ++ Nat.toDigits 16 c.toNat ++ ['}']

/-- The last two arms of `escape_debug_ext` (together with the grapheme-extend arm). -/
def escapePlain (uprint : Char → Bool) (c : Char) : List Char :=
  if c.toNat < 128 then (if 0x20 ≤ c.toNat ∧ c.toNat ≠ 0x7f then [c] else escapeUnicode c)
  else if uprint c then [c] else escapeUnicode c

/-- `c.escape_debug_ext(args)`; `dq` = `escape_double_quote`, `sq` = `escape_single_quote`. -/
def escapeDebugExt (uprint : Char → Bool) (dq sq : Bool) (c : Char) : List Char :=
  if c = '\x00' then ['\\', '0']
  else if c = '\t' then ['\\', 't']
  else if c = '\r' then ['\\', 'r']
  else if c = '\n' then ['\\', 'n']
  else if c = '\\' then ['\\', '\\']
  else if c = '"' ∧ dq = true then ['\\', '"']
  else if c = '\'' ∧ sq = true then ['\\', '\'']
  else escapePlain uprint c

/-- The characters between the quotes of `<str as Debug>::fmt`. -/
def strBody (uprint : Char → Bool) (s : List Char) : List Char :=
  s.flatMap (escapeDebugExt uprint true false)

/-- `format!("{:?}", s)` for `s : &str`. -/
def strDebug (uprint : Char → Bool) (s : List Char) : List Char := '"' :: strBody uprint s ++ ['"']

/-- `format!("{:?}", c)` for `c : char`. -/
def charDebug (uprint : Char → Bool) (c : Char) : List Char :=
  '\'' :: escapeDebugExt uprint false true c ++ ['\'']

/-- `format!("{:?}", n)` for `n : usize` (no `#` / `x` flags): decimal. -/
def numDebug (n : Nat) : List Char := Nat.toDigits 10 n

end RustDebug
end PestTyped
