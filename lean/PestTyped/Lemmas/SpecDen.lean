/-
Lemmas.SpecDen — the reference semantics `spec` without fuel.

`spec g uni n na e i S` is fuel-indexed; optimizer passes change nesting depth, so same-fuel
equality between an expression and its rewritten form is false.  This file provides
  1. fuel monotonicity of `spec` (`spec_mono`, `spec_mono_le`) and of its loops,
  2. the limit relation `Den g uni na e i S r` ("`e` evaluates to the definite answer `r`"),
  3. `SpecEquiv g g' uni na e e'` (same definite answers, same termination behaviour),
  4. big-step unfolding lemmas `Den_*`, one per constructor of `PExpr`, fuel-free,
  5. congruence of `SpecEquiv` under every constructor,
  6. grammar-level congruence `spec_grammar_congr`,
  7. non-vacuity examples.
Helper lemmas live in the sub-namespace `PestTyped.SpecDen` to avoid clashes with other files.

Main names
  1. `SLe`, `specRepLoop_mono`, `specSkip_mono`, `specRepWith_mono`, `spec_succ`, `spec_mono`, `spec_mono_le`,
     `spec_lift`.
  2. `Den`, `Den.det`, `Den.of_spec`, `Den.of_spec_ne`, `Den.spec_ge`, `Den.spec_eq`.
  3. `SpecEquiv` (`.refl/.symm/.trans/.agree/.terminates/.transfer/.of_forall`).
  4. `Den_str/_insens/_range/_skip/_peekSlice` (all via `Den_leaf`), `Den_ident_some/_none`, `Den_posPred`,
     `Den_negPred`, `Den_opt`, `Den_push`, `Den_restoreOnErr`, `Den_choice`, `Den_seq` (`Den_seq_atomic`),
     `Den_rep/_repOnce/_repExact/_repMin/_repMax/_repMinMax`.
     Loops: `RepSem U min max idx i S r` is the inductive big-step semantics of `specRepLoop` over a relational
     unit (`maxed/stop/step`, `RepSem_unfold`, `.det`, `.mono`, `.congr`; `specRepLoop_sem` soundness,
     `RepSem.toLoop` completeness, `specRepLoop_lim` both); `SkipSem` the same for the skip.
     `DenSkip` (limit of `specSkip`), `DenSkip_iff_diag`, `DenSkip_iff_sem`, `DenSkip_unfold`, `DenSkipUnit_iff`,
     `DenSkipIf` (skip performed iff `na`); `DenRep` (limit of the repetition loop), `DenRep_iff_diag`,
     `DenRep_iff_sem`, `DenRep_unfold`, `DenUnit` (one iteration: optional skip, then the body).
  5. `SkipEquiv`, `SkipEquiv.of_rules`; `SpecEquiv.choice/.seq/.opt/.posPred/.negPred/.push/.restoreOnErr`
     (`.restoreOnErr_elim/_left/_right`), `.rep/.repOnce/.repExact/.repMin/.repMax/.repMinMax`; primed versions
     (`.seq'`, `.rep'`, …) ask for the skip hypothesis only when `na = true`; `.seq_atomic`, `.seq_same`.
  6. `RulesSim`, `spec_sim`, `RulesSim.den`, `SpecEquiv.of_rulesSim`; `PGrammar.mapBodies`, `spec_grammar_congr`,
     `spec_grammar_congr_rule/_skip/_partial/_of_forall`.

Deviations from the brief (no statement of the brief was false):
  * `DenSkip` and `DenRep` are defined as limits over *independent* fuel `n` and budget `b`
    (`∃ n b, specSkip (spec g uni n false) … b i S = r`); the loops are jointly monotone, so this is the same
    relation as the diagonal limit the brief describes (`DenSkip_iff_diag`: `b = atomicBudget n`;
    `DenRep_iff_diag`: `b = n`), and it makes the one-more-iteration unfolding exact.
  * `Den_seq` states the implicit skip through `DenSkipIf g uni na` (`= DenSkip` when `na`, identity otherwise)
    so that one statement covers both atomicities; the skip never fails (`DenSkip.ok`), so there is no
    "skip fails" branch.
  * The two-sided hypothesis of item 6 is sufficient as stated; it is proved through the more general
    one-directional `spec_sim` (`RulesSim g g'` ⇒ every definite answer of `g` is a denotation in `g'`).
-/
import PestTyped.Model.Spec
set_option linter.unusedVariables false
namespace PestTyped

/-! ## 1. Fuel monotonicity -/

/-- `f'` agrees with `f` wherever `f` has a definite answer. -/
def SLe (f f' : Inp → List Sp → SR) : Prop := ∀ i S, f i S ≠ .oof → f' i S = f i S

theorem SLe.eq_of {f f' : Inp → List Sp → SR} (h : SLe f f') {i : Inp} {S : List Sp} {r : SR}
    (hr : f i S = r) (hne : r ≠ .oof) : f' i S = r := by
  rw [← hr] at hne ⊢; exact h i S hne

theorem SLe.refl (f : Inp → List Sp → SR) : SLe f f := fun _ _ _ => rfl

theorem SLe.trans {f f' f'' : Inp → List Sp → SR} (h : SLe f f') (h' : SLe f' f'') : SLe f f'' := by
  intro i S hne
  have h1 := h i S hne
  rw [← h1] at hne ⊢
  exact h' i S hne

theorem SLe.of_succ {T : Nat → Inp → List Sp → SR} (h : ∀ n, SLe (T n) (T (n+1))) :
    ∀ n m, n ≤ m → SLe (T n) (T m) := by
  intro n m hle
  induction m with
  | zero =>
    have : n = 0 := by omega
    subst this; exact SLe.refl _
  | succ m ih =>
    by_cases hm : n = m + 1
    · subst hm; exact SLe.refl _
    · exact (ih (by omega)).trans (h m)

/-- The answer of `specRepLoop` when it stops at iteration `idx`. -/
def repStop (min idx : Nat) (i : Inp) (S : List Sp) : SR := if idx < min then .fail else .ok i S

theorem repStop_ne_oof (min idx : Nat) (i : Inp) (S : List Sp) : repStop min idx i S ≠ .oof := by
  unfold repStop; split <;> nofun

theorem specRepLoop_zero (u : Nat → Inp → List Sp → SR) (min : Nat) (max : Option Nat) (idx : Nat)
    (i : Inp) (S : List Sp) : specRepLoop u min max 0 idx i S = .oof := rfl

theorem specRepLoop_maxed {u : Nat → Inp → List Sp → SR} {min : Nat} {max : Option Nat} {idx : Nat}
    (b : Nat) (i : Inp) (S : List Sp) (h : max = some idx) :
    specRepLoop u min max (b+1) idx i S = repStop min idx i S := by
  simp only [specRepLoop, h, if_true, repStop]

theorem specRepLoop_oof {u : Nat → Inp → List Sp → SR} {min : Nat} {max : Option Nat} {idx : Nat}
    (b : Nat) {i : Inp} {S : List Sp} (h : max ≠ some idx) (hu : u idx i S = .oof) :
    specRepLoop u min max (b+1) idx i S = .oof := by
  simp only [specRepLoop, h, if_false, hu]

theorem specRepLoop_fail {u : Nat → Inp → List Sp → SR} {min : Nat} {max : Option Nat} {idx : Nat}
    (b : Nat) {i : Inp} {S : List Sp} (h : max ≠ some idx) (hu : u idx i S = .fail) :
    specRepLoop u min max (b+1) idx i S = repStop min idx i S := by
  simp only [specRepLoop, h, if_false, hu, repStop]

theorem specRepLoop_ok {u : Nat → Inp → List Sp → SR} {min : Nat} {max : Option Nat} {idx : Nat}
    (b : Nat) {i : Inp} {S : List Sp} {i' : Inp} {S' : List Sp} (h : max ≠ some idx)
    (hu : u idx i S = .ok i' S') :
    specRepLoop u min max (b+1) idx i S = specRepLoop u min max b (idx+1) i' S' := by
  simp only [specRepLoop, h, if_false, hu]

/-- Loop monotonicity: a unit that agrees wherever the old one is definite, a larger budget. -/
theorem specRepLoop_mono {u u' : Nat → Inp → List Sp → SR} (hu : ∀ idx, SLe (u idx) (u' idx))
    (min : Nat) (max : Option Nat) :
    ∀ b b' idx, b ≤ b' → SLe (specRepLoop u min max b idx) (specRepLoop u' min max b' idx) := by
  intro b
  induction b with
  | zero => intro b' idx _ i S hne; exact absurd rfl hne
  | succ b ih =>
    intro b' idx hb i S hne
    cases b' with
    | zero => omega
    | succ b' =>
      by_cases hmax : max = some idx
      · rw [specRepLoop_maxed _ _ _ hmax, specRepLoop_maxed _ _ _ hmax]
      · cases hr : u idx i S with
        | oof => rw [specRepLoop_oof _ hmax hr] at hne; exact absurd rfl hne
        | fail =>
          rw [specRepLoop_fail _ hmax hr, specRepLoop_fail _ hmax ((hu idx).eq_of hr nofun)]
        | ok i' S' =>
          rw [specRepLoop_ok _ hmax hr] at hne ⊢
          rw [specRepLoop_ok _ hmax ((hu idx).eq_of hr nofun)]
          exact ih b' _ (by omega) _ _ hne

theorem specSkipUnit_mono {call call' : String → Inp → List Sp → SR}
    (h : ∀ nm, SLe (call nm) (call' nm)) (hasW hasC : Bool) :
    SLe (specSkipUnit call hasW hasC) (specSkipUnit call' hasW hasC) := by
  intro i S hne
  unfold specSkipUnit at hne ⊢
  cases hasW with
  | false =>
    simp only [Bool.false_eq_true, if_false] at hne ⊢
    cases hasC with
    | false => rfl
    | true => simp only [if_true] at hne ⊢; exact h _ i S hne
  | true =>
    simp only [if_true] at hne ⊢
    cases hr : call "WHITESPACE" i S with
    | oof => rw [hr] at hne; exact absurd rfl hne
    | ok i' S' => rw [(h _).eq_of hr nofun]
    | fail =>
      rw [hr] at hne
      rw [(h _).eq_of hr nofun]
      cases hasC with
      | false => rfl
      | true => simp only [if_true] at hne ⊢; exact h _ i S hne

theorem specSkip_mono {call call' : PExpr → Inp → List Sp → SR} (h : ∀ e, SLe (call e) (call' e))
    (hasW hasC : Bool) {b b' : Nat} (hb : b ≤ b') :
    SLe (specSkip call hasW hasC b) (specSkip call' hasW hasC b') := by
  intro i S hne
  unfold specSkip at hne ⊢
  exact specRepLoop_mono
    (u := fun _ i S => specSkipUnit (fun nm i S => call (.ident nm) i S) hasW hasC i S)
    (u' := fun _ i S => specSkipUnit (fun nm i S => call' (.ident nm) i S) hasW hasC i S)
    (fun _ => specSkipUnit_mono (fun nm => h (.ident nm)) hasW hasC) 0 none b b' 0 hb i S hne

/-- The iteration function of `specRepWith`, named (skip budget `bs` instead of `atomicBudget n`). -/
def specRepUnit (sp : Bool → PExpr → Inp → List Sp → SR) (bs : Nat) (hasW hasC : Bool) (na : Bool)
    (e : PExpr) (idx : Nat) (i : Inp) (S : List Sp) : SR :=
  if idx = 0 ∨ !na then sp na e i S
  else
    match specSkip (sp false) hasW hasC bs i S with
    | .oof => .oof
    | .fail => .fail
    | .ok i1 S1 => sp na e i1 S1

theorem specRepWith_eq (sp : Bool → PExpr → Inp → List Sp → SR) (n : Nat) (hasW hasC : Bool) (na : Bool)
    (e : PExpr) (min : Nat) (max : Option Nat) (i : Inp) (S : List Sp) :
    specRepWith sp n hasW hasC na e min max i S
      = specRepLoop (specRepUnit sp (atomicBudget n) hasW hasC na e) min max n 0 i S := rfl

theorem specRepUnit_mono {sp sp' : Bool → PExpr → Inp → List Sp → SR}
    (h : ∀ na e, SLe (sp na e) (sp' na e)) {bs bs' : Nat} (hb : bs ≤ bs') (hasW hasC : Bool) (na : Bool)
    (e : PExpr) (idx : Nat) :
    SLe (specRepUnit sp bs hasW hasC na e idx) (specRepUnit sp' bs' hasW hasC na e idx) := by
  intro i S hne
  unfold specRepUnit at hne ⊢
  by_cases h0 : idx = 0 ∨ (!na) = true
  · simp only [h0, if_true] at hne ⊢; exact h na e i S hne
  · simp only [h0, if_false] at hne ⊢
    have hs := specSkip_mono (h false) hasW hasC hb
    cases hr : specSkip (sp false) hasW hasC bs i S with
    | oof => rw [hr] at hne; exact absurd rfl hne
    | fail => rw [hs.eq_of hr nofun]
    | ok i1 S1 =>
      rw [hr] at hne
      rw [hs.eq_of hr nofun]
      exact h na e i1 S1 hne

theorem SpecDen.atomicBudget_le {n m : Nat} (h : n ≤ m) : atomicBudget n ≤ atomicBudget m := by
  unfold atomicBudget
  exact Nat.mul_le_mul (by omega) (by omega)

theorem SpecDen.le_atomicBudget (n : Nat) : n ≤ atomicBudget n := by
  unfold atomicBudget
  have : n + 1 ≤ (n + 1) * (n + 1) := Nat.le_mul_of_pos_right _ (by omega)
  omega

theorem specRepWith_mono {sp sp' : Bool → PExpr → Inp → List Sp → SR}
    (h : ∀ na e, SLe (sp na e) (sp' na e)) {n n' : Nat} (hn : n ≤ n') (hasW hasC : Bool) (na : Bool)
    (e : PExpr) (min : Nat) (max : Option Nat) :
    SLe (specRepWith sp n hasW hasC na e min max) (specRepWith sp' n' hasW hasC na e min max) := by
  intro i S hne
  rw [specRepWith_eq] at hne ⊢
  rw [specRepWith_eq]
  exact specRepLoop_mono
    (fun idx => specRepUnit_mono h (SpecDen.atomicBudget_le hn) hasW hasC na e idx) min max n n' 0 hn i S hne

/-- One more unit of fuel does not change a definite answer of `spec`. -/
theorem spec_succ (g : PGrammar) (uni : Uni) :
    ∀ (n : Nat) (na : Bool) (e : PExpr), SLe (spec g uni n na e) (spec g uni (n+1) na e) := by
  intro n
  induction n with
  | zero => intro na e i S hne; exact absurd rfl hne
  | succ n ih =>
    intro na e i S hne
    have hrep : ∀ (na : Bool) (e : PExpr) (min : Nat) (max : Option Nat),
        SLe (specRepWith (spec g uni n) n (g.defines "WHITESPACE") (g.defines "COMMENT") na e min max)
          (specRepWith (spec g uni (n+1)) (n+1) (g.defines "WHITESPACE") (g.defines "COMMENT") na e min max) :=
      fun na e min max => specRepWith_mono ih (Nat.le_succ n) _ _ na e min max
    cases e with
    | str s => simp only [spec]
    | insens s => simp only [spec]
    | range lo hi => simp only [spec]
    | peekSlice a b => simp only [spec]
    | skip needles => simp only [spec]
    | ident name =>
      simp only [spec] at hne ⊢
      cases hf : g.find? name with
      | none => rfl
      | some r =>
        rw [hf] at hne
        exact ih _ _ i S hne
    | posPred e =>
      simp only [spec] at hne ⊢
      cases hr : spec g uni n na e i S with
      | oof => rw [hr] at hne; exact absurd rfl hne
      | fail => rw [(ih na e).eq_of hr nofun]
      | ok i' S' => rw [(ih na e).eq_of hr nofun]
    | negPred e =>
      simp only [spec] at hne ⊢
      cases hr : spec g uni n na e i S with
      | oof => rw [hr] at hne; exact absurd rfl hne
      | fail => rw [(ih na e).eq_of hr nofun]
      | ok i' S' => rw [(ih na e).eq_of hr nofun]
    | push e =>
      simp only [spec] at hne ⊢
      cases hr : spec g uni n na e i S with
      | oof => rw [hr] at hne; exact absurd rfl hne
      | fail => rw [(ih na e).eq_of hr nofun]
      | ok i' S' => rw [(ih na e).eq_of hr nofun]
    | opt e =>
      simp only [spec] at hne ⊢
      cases hr : spec g uni n na e i S with
      | oof => rw [hr] at hne; exact absurd rfl hne
      | fail => rw [(ih na e).eq_of hr nofun]
      | ok i' S' => rw [(ih na e).eq_of hr nofun]
    | restoreOnErr e =>
      simp only [spec] at hne ⊢
      exact ih na e i S hne
    | choice a b =>
      simp only [spec] at hne ⊢
      cases hr : spec g uni n na a i S with
      | oof => rw [hr] at hne; exact absurd rfl hne
      | ok i' S' => rw [(ih na a).eq_of hr nofun]
      | fail =>
        rw [hr] at hne
        rw [(ih na a).eq_of hr nofun]
        exact ih na b i S hne
    | seq a b =>
      simp only [spec] at hne ⊢
      cases hr : spec g uni n na a i S with
      | oof => rw [hr] at hne; exact absurd rfl hne
      | fail => rw [(ih na a).eq_of hr nofun]
      | ok i1 S1 =>
        rw [hr] at hne
        rw [(ih na a).eq_of hr nofun]
        cases na with
        | false =>
          simp only [Bool.false_eq_true, if_false] at hne ⊢
          exact ih false b i1 S1 hne
        | true =>
          simp only [if_true] at hne ⊢
          have hs := specSkip_mono (ih false) (g.defines "WHITESPACE") (g.defines "COMMENT")
            (SpecDen.atomicBudget_le (Nat.le_succ n))
          cases hr2 : specSkip (spec g uni n false) (g.defines "WHITESPACE") (g.defines "COMMENT")
              (atomicBudget n) i1 S1 with
          | oof => rw [hr2] at hne; exact absurd rfl hne
          | fail => rw [hs.eq_of hr2 nofun]
          | ok i2 S2 =>
            rw [hr2] at hne
            rw [hs.eq_of hr2 nofun]
            exact ih true b i2 S2 hne
    | rep e => simp only [spec] at hne ⊢; exact hrep na e _ _ i S hne
    | repOnce e => simp only [spec] at hne ⊢; exact hrep na e _ _ i S hne
    | repExact e k => simp only [spec] at hne ⊢; exact hrep na e _ _ i S hne
    | repMin e k => simp only [spec] at hne ⊢; exact hrep na e _ _ i S hne
    | repMax e k => simp only [spec] at hne ⊢; exact hrep na e _ _ i S hne
    | repMinMax e k l => simp only [spec] at hne ⊢; exact hrep na e _ _ i S hne

theorem spec_mono (g : PGrammar) (uni : Uni) : ∀ (n : Nat) (na : Bool) (e : PExpr) (i : Inp) (S : List Sp),
    spec g uni n na e i S ≠ .oof → spec g uni (n+1) na e i S = spec g uni n na e i S :=
  fun n na e i S hne => spec_succ g uni n na e i S hne

theorem spec_le (g : PGrammar) (uni : Uni) {n m : Nat} (h : n ≤ m) (na : Bool) (e : PExpr) :
    SLe (spec g uni n na e) (spec g uni m na e) :=
  SLe.of_succ (T := fun n => spec g uni n na e) (fun n => spec_succ g uni n na e) n m h

theorem spec_mono_le {g : PGrammar} {uni : Uni} {n m : Nat} {na : Bool} {e : PExpr} {i : Inp} {S : List Sp}
    (h : n ≤ m) (hne : spec g uni n na e i S ≠ .oof) : spec g uni m na e i S = spec g uni n na e i S :=
  spec_le g uni h na e i S hne

/-- Convenience form: a definite answer at fuel `n` is the answer at every `m ≥ n`. -/
theorem spec_lift {g : PGrammar} {uni : Uni} {n m : Nat} {na : Bool} {e : PExpr} {i : Inp} {S : List Sp} {r : SR}
    (hr : spec g uni n na e i S = r) (hne : r ≠ .oof) (h : n ≤ m) : spec g uni m na e i S = r :=
  (spec_le g uni h na e).eq_of hr hne

/-! ## 2. The limit relation -/

/-- `e` evaluates (under `na`, at `i`, `S`) to the definite answer `r` in grammar `g`. -/
def Den (g : PGrammar) (uni : Uni) (na : Bool) (e : PExpr) (i : Inp) (S : List Sp) (r : SR) : Prop :=
  r ≠ .oof ∧ ∃ n, spec g uni n na e i S = r

theorem Den.ne_oof {g : PGrammar} {uni : Uni} {na : Bool} {e : PExpr} {i : Inp} {S : List Sp} {r : SR}
    (h : Den g uni na e i S r) : r ≠ .oof := h.1

theorem Den.of_spec {g : PGrammar} {uni : Uni} {n : Nat} {na : Bool} {e : PExpr} {i : Inp} {S : List Sp} {r : SR}
    (h : spec g uni n na e i S = r) (hr : r ≠ .oof) : Den g uni na e i S r := ⟨hr, n, h⟩

theorem Den.of_spec_ne {g : PGrammar} {uni : Uni} {n : Nat} {na : Bool} {e : PExpr} {i : Inp} {S : List Sp}
    (h : spec g uni n na e i S ≠ .oof) : Den g uni na e i S (spec g uni n na e i S) := ⟨h, n, rfl⟩

theorem Den.det {g : PGrammar} {uni : Uni} {na : Bool} {e : PExpr} {i : Inp} {S : List Sp} {r r' : SR}
    (h : Den g uni na e i S r) (h' : Den g uni na e i S r') : r = r' := by
  obtain ⟨hr, n, hn⟩ := h
  obtain ⟨hr', m, hm⟩ := h'
  have h1 := spec_lift hn hr (Nat.le_max_left n m)
  have h2 := spec_lift hm hr' (Nat.le_max_right n m)
  rw [← h1, ← h2]

theorem Den.spec_ge {g : PGrammar} {uni : Uni} {na : Bool} {e : PExpr} {i : Inp} {S : List Sp} {r : SR}
    (h : Den g uni na e i S r) : ∃ n0, ∀ n, n0 ≤ n → spec g uni n na e i S = r := by
  obtain ⟨hr, n0, hn⟩ := h
  exact ⟨n0, fun n hle => spec_lift hn hr hle⟩

/-- Any definite answer of `spec` is the denotation. -/
theorem Den.spec_eq {g : PGrammar} {uni : Uni} {na : Bool} {e : PExpr} {i : Inp} {S : List Sp} {r : SR}
    (h : Den g uni na e i S r) {n : Nat} (hn : spec g uni n na e i S ≠ .oof) : spec g uni n na e i S = r :=
  Den.det (Den.of_spec_ne hn) h

/-! ## 3. Equivalence -/

/-- `e` in `g` and `e'` in `g'` have the same definite answers (hence the same termination). -/
def SpecEquiv (g g' : PGrammar) (uni : Uni) (na : Bool) (e e' : PExpr) : Prop :=
  ∀ i S r, Den g uni na e i S r ↔ Den g' uni na e' i S r

theorem SpecEquiv.refl (g : PGrammar) (uni : Uni) (na : Bool) (e : PExpr) : SpecEquiv g g uni na e e :=
  fun _ _ _ => Iff.rfl

theorem SpecEquiv.symm {g g' : PGrammar} {uni : Uni} {na : Bool} {e e' : PExpr}
    (h : SpecEquiv g g' uni na e e') : SpecEquiv g' g uni na e' e := fun i S r => (h i S r).symm

theorem SpecEquiv.trans {g g' g'' : PGrammar} {uni : Uni} {na : Bool} {e e' e'' : PExpr}
    (h : SpecEquiv g g' uni na e e') (h' : SpecEquiv g' g'' uni na e' e'') : SpecEquiv g g'' uni na e e'' :=
  fun i S r => (h i S r).trans (h' i S r)

/-- Definite answers agree, whatever the two fuels. -/
theorem SpecEquiv.agree {g g' : PGrammar} {uni : Uni} {na : Bool} {e e' : PExpr}
    (h : SpecEquiv g g' uni na e e') : ∀ n m i S, spec g uni n na e i S ≠ .oof → spec g' uni m na e' i S ≠ .oof →
      spec g uni n na e i S = spec g' uni m na e' i S := by
  intro n m i S hn hm
  exact Den.det ((h i S _).mp (Den.of_spec_ne hn)) (Den.of_spec_ne hm)

/-- Termination transfers. -/
theorem SpecEquiv.terminates {g g' : PGrammar} {uni : Uni} {na : Bool} {e e' : PExpr}
    (h : SpecEquiv g g' uni na e e') (i : Inp) (S : List Sp) :
    (∃ n, spec g uni n na e i S ≠ .oof) ↔ (∃ m, spec g' uni m na e' i S ≠ .oof) := by
  constructor
  · rintro ⟨n, hn⟩
    obtain ⟨hr, m, hm⟩ := (h i S _).mp (Den.of_spec_ne hn)
    exact ⟨m, by rw [hm]; exact hr⟩
  · rintro ⟨m, hm⟩
    obtain ⟨hr, n, hn⟩ := (h i S _).mpr (Den.of_spec_ne hm)
    exact ⟨n, by rw [hn]; exact hr⟩

/-- From a definite answer on the left, the right side has the same answer at some fuel. -/
theorem SpecEquiv.transfer {g g' : PGrammar} {uni : Uni} {na : Bool} {e e' : PExpr}
    (h : SpecEquiv g g' uni na e e') {n : Nat} {i : Inp} {S : List Sp} (hn : spec g uni n na e i S ≠ .oof) :
    ∃ m0, ∀ m, m0 ≤ m → spec g' uni m na e' i S = spec g uni n na e i S :=
  ((h i S _).mp (Den.of_spec_ne hn)).spec_ge

/-- Sufficient (and necessary) condition in terms of `spec`. -/
theorem SpecEquiv.of_forall {g g' : PGrammar} {uni : Uni} {na : Bool} {e e' : PExpr}
    (h1 : ∀ n i S, spec g uni n na e i S ≠ .oof → ∃ m, spec g' uni m na e' i S = spec g uni n na e i S)
    (h2 : ∀ m i S, spec g' uni m na e' i S ≠ .oof → ∃ n, spec g uni n na e i S = spec g' uni m na e' i S) :
    SpecEquiv g g' uni na e e' := by
  intro i S r
  constructor
  · rintro ⟨hr, n, hn⟩
    obtain ⟨m, hm⟩ := h1 n i S (by rw [hn]; exact hr)
    exact ⟨hr, m, by rw [hm, hn]⟩
  · rintro ⟨hr, m, hm⟩
    obtain ⟨n, hn⟩ := h2 m i S (by rw [hm]; exact hr)
    exact ⟨hr, n, by rw [hn, hm]⟩

/-! ## 4a. Unfolding lemmas: leaves, rule calls, unary and binary operators -/

section Unfold
variable {g : PGrammar} {uni : Uni} {na : Bool} {i : Inp} {S : List Sp} {r : SR}

theorem spec_zero (g : PGrammar) (uni : Uni) (na : Bool) (e : PExpr) (i : Inp) (S : List Sp) :
    spec g uni 0 na e i S = .oof := by
  cases e <;> rfl

theorem SpecDen.specBuiltin_ne_oof (uni : Uni) (name : String) (i : Inp) (S : List Sp) :
    specBuiltin uni name i S ≠ .oof := by
  unfold specBuiltin
  repeat' split
  all_goals nofun

/-- Expressions whose evaluation does not recurse: the answer is the one at fuel 1. -/
def PExpr.isLeaf : PExpr → Bool
  | .str _ => true
  | .insens _ => true
  | .range _ _ => true
  | .peekSlice _ _ => true
  | .skip _ => true
  | _ => false

theorem spec_leaf {e : PExpr} (he : e.isLeaf = true) (g : PGrammar) (uni : Uni) (n : Nat) (na : Bool)
    (i : Inp) (S : List Sp) : spec g uni (n+1) na e i S = spec g uni 1 na e i S := by
  cases e <;> first | rfl | (simp only [PExpr.isLeaf, Bool.false_eq_true] at he)

theorem spec_leaf_ne_oof {e : PExpr} (he : e.isLeaf = true) (g : PGrammar) (uni : Uni) (na : Bool)
    (i : Inp) (S : List Sp) : spec g uni 1 na e i S ≠ .oof := by
  cases e with
  | str s => simp only [spec]; split <;> nofun
  | insens s => simp only [spec]; split <;> nofun
  | range lo hi => simp only [spec]; split <;> nofun
  | peekSlice a b =>
    simp only [spec]
    split
    · nofun
    · split
      · nofun
      · split <;> nofun
  | skip needles => simp only [spec]; nofun
  | _ => (simp only [PExpr.isLeaf, Bool.false_eq_true] at he)

theorem Den_leaf {e : PExpr} (he : e.isLeaf = true) : Den g uni na e i S r ↔ r = spec g uni 1 na e i S := by
  constructor
  · rintro ⟨hr, n, h⟩
    cases n with
    | zero => rw [spec_zero] at h; exact absurd h.symm hr
    | succ n => rw [spec_leaf he] at h; exact h.symm
  · rintro rfl
    exact ⟨spec_leaf_ne_oof he g uni na i S, 1, rfl⟩

theorem Den_str {s : List Char} : Den g uni na (.str s) i S r ↔
    (∃ i', i.matchString s = some i' ∧ r = .ok i' S) ∨ (i.matchString s = none ∧ r = .fail) := by
  rw [Den_leaf rfl]; simp only [spec]
  cases i.matchString s <;> simp

theorem Den_insens {s : List Char} : Den g uni na (.insens s) i S r ↔
    (∃ i', i.matchInsens s = some i' ∧ r = .ok i' S) ∨ (i.matchInsens s = none ∧ r = .fail) := by
  rw [Den_leaf rfl]; simp only [spec]
  cases i.matchInsens s <;> simp

theorem Den_range {lo hi : Char} : Den g uni na (.range lo hi) i S r ↔
    (∃ i' c, i.matchRange lo hi = some (i', c) ∧ r = .ok i' S) ∨ (i.matchRange lo hi = none ∧ r = .fail) := by
  rw [Den_leaf rfl]; simp only [spec]
  cases i.matchRange lo hi with
  | none => simp
  | some p => cases p; simp

theorem Den_skip {needles : List (List Char)} :
    Den g uni na (.skip needles) i S r ↔ r = .ok (i.skipUntil needles).1 S := by
  rw [Den_leaf rfl]; simp only [spec]

/-- The answer of `PEEK[a..b]` (it does not depend on grammar, fuel or atomicity). -/
def specPeekSlice (a : Int) (b : Option Int) (i : Inp) (S : List Sp) : SR :=
  spec [] (fun _ _ => false) 1 false (.peekSlice a b) i S

theorem Den_peekSlice {a : Int} {b : Option Int} :
    Den g uni na (.peekSlice a b) i S r ↔ r = specPeekSlice a b i S := by
  rw [Den_leaf rfl]; simp only [spec, specPeekSlice]

theorem Den_ident_some {name : String} {rl : PRule} (h : g.find? name = some rl) :
    Den g uni na (.ident name) i S r ↔ Den g uni (bodyNa name rl.kind na) rl.expr i S r := by
  constructor
  · rintro ⟨hr, n, hn⟩
    cases n with
    | zero => rw [spec_zero] at hn; exact absurd hn.symm hr
    | succ n =>
      simp only [spec, h] at hn
      exact ⟨hr, n, hn⟩
  · rintro ⟨hr, n, hn⟩
    exact ⟨hr, n+1, by simp only [spec, h]; exact hn⟩

theorem Den_ident_none {name : String} (h : g.find? name = none) :
    Den g uni na (.ident name) i S r ↔ r = specBuiltin uni name i S := by
  constructor
  · rintro ⟨hr, n, hn⟩
    cases n with
    | zero => rw [spec_zero] at hn; exact absurd hn.symm hr
    | succ n =>
      simp only [spec, h] at hn
      exact hn.symm
  · rintro rfl
    exact ⟨SpecDen.specBuiltin_ne_oof _ _ _ _, 1, by simp only [spec, h]⟩

theorem Den_restoreOnErr {e : PExpr} : Den g uni na (.restoreOnErr e) i S r ↔ Den g uni na e i S r := by
  constructor
  · rintro ⟨hr, n, hn⟩
    cases n with
    | zero => rw [spec_zero] at hn; exact absurd hn.symm hr
    | succ n =>
      simp only [spec] at hn
      exact ⟨hr, n, hn⟩
  · rintro ⟨hr, n, hn⟩
    exact ⟨hr, n+1, by simp only [spec]; exact hn⟩

theorem Den_posPred {e : PExpr} : Den g uni na (.posPred e) i S r ↔
    (Den g uni na e i S .fail ∧ r = .fail) ∨ (∃ i' S', Den g uni na e i S (.ok i' S') ∧ r = .ok i S) := by
  constructor
  · rintro ⟨hr, n, hn⟩
    cases n with
    | zero => rw [spec_zero] at hn; exact absurd hn.symm hr
    | succ n =>
      simp only [spec] at hn
      cases he : spec g uni n na e i S with
      | oof => rw [he] at hn; exact absurd hn.symm hr
      | fail => rw [he] at hn; exact .inl ⟨⟨nofun, n, he⟩, hn.symm⟩
      | ok i' S' => rw [he] at hn; exact .inr ⟨i', S', ⟨nofun, n, he⟩, hn.symm⟩
  · rintro (⟨⟨_, n, he⟩, rfl⟩ | ⟨i', S', ⟨_, n, he⟩, rfl⟩)
    · exact ⟨nofun, n+1, by simp only [spec, he]⟩
    · exact ⟨nofun, n+1, by simp only [spec, he]⟩

theorem Den_negPred {e : PExpr} : Den g uni na (.negPred e) i S r ↔
    (Den g uni na e i S .fail ∧ r = .ok i S) ∨ (∃ i' S', Den g uni na e i S (.ok i' S') ∧ r = .fail) := by
  constructor
  · rintro ⟨hr, n, hn⟩
    cases n with
    | zero => rw [spec_zero] at hn; exact absurd hn.symm hr
    | succ n =>
      simp only [spec] at hn
      cases he : spec g uni n na e i S with
      | oof => rw [he] at hn; exact absurd hn.symm hr
      | fail => rw [he] at hn; exact .inl ⟨⟨nofun, n, he⟩, hn.symm⟩
      | ok i' S' => rw [he] at hn; exact .inr ⟨i', S', ⟨nofun, n, he⟩, hn.symm⟩
  · rintro (⟨⟨_, n, he⟩, rfl⟩ | ⟨i', S', ⟨_, n, he⟩, rfl⟩)
    · exact ⟨nofun, n+1, by simp only [spec, he]⟩
    · exact ⟨nofun, n+1, by simp only [spec, he]⟩

theorem Den_opt {e : PExpr} : Den g uni na (.opt e) i S r ↔
    (Den g uni na e i S .fail ∧ r = .ok i S) ∨ (∃ i' S', Den g uni na e i S (.ok i' S') ∧ r = .ok i' S') := by
  constructor
  · rintro ⟨hr, n, hn⟩
    cases n with
    | zero => rw [spec_zero] at hn; exact absurd hn.symm hr
    | succ n =>
      simp only [spec] at hn
      cases he : spec g uni n na e i S with
      | oof => rw [he] at hn; exact absurd hn.symm hr
      | fail => rw [he] at hn; exact .inl ⟨⟨nofun, n, he⟩, hn.symm⟩
      | ok i' S' => rw [he] at hn; exact .inr ⟨i', S', ⟨nofun, n, he⟩, hn.symm⟩
  · rintro (⟨⟨_, n, he⟩, rfl⟩ | ⟨i', S', ⟨_, n, he⟩, rfl⟩)
    · exact ⟨nofun, n+1, by simp only [spec, he]⟩
    · exact ⟨nofun, n+1, by simp only [spec, he]⟩

theorem Den_push {e : PExpr} : Den g uni na (.push e) i S r ↔
    (Den g uni na e i S .fail ∧ r = .fail) ∨
      (∃ i' S', Den g uni na e i S (.ok i' S') ∧ r = .ok i' (i.spanTo i' :: S')) := by
  constructor
  · rintro ⟨hr, n, hn⟩
    cases n with
    | zero => rw [spec_zero] at hn; exact absurd hn.symm hr
    | succ n =>
      simp only [spec] at hn
      cases he : spec g uni n na e i S with
      | oof => rw [he] at hn; exact absurd hn.symm hr
      | fail => rw [he] at hn; exact .inl ⟨⟨nofun, n, he⟩, hn.symm⟩
      | ok i' S' => rw [he] at hn; exact .inr ⟨i', S', ⟨nofun, n, he⟩, hn.symm⟩
  · rintro (⟨⟨_, n, he⟩, rfl⟩ | ⟨i', S', ⟨_, n, he⟩, rfl⟩)
    · exact ⟨nofun, n+1, by simp only [spec, he]⟩
    · exact ⟨nofun, n+1, by simp only [spec, he]⟩

theorem Den_choice {a b : PExpr} : Den g uni na (.choice a b) i S r ↔
    (∃ i' S', Den g uni na a i S (.ok i' S') ∧ r = .ok i' S') ∨
      (Den g uni na a i S .fail ∧ Den g uni na b i S r) := by
  constructor
  · rintro ⟨hr, n, hn⟩
    cases n with
    | zero => rw [spec_zero] at hn; exact absurd hn.symm hr
    | succ n =>
      simp only [spec] at hn
      cases ha : spec g uni n na a i S with
      | oof => rw [ha] at hn; exact absurd hn.symm hr
      | fail => rw [ha] at hn; exact .inr ⟨⟨nofun, n, ha⟩, hr, n, hn⟩
      | ok i' S' => rw [ha] at hn; exact .inl ⟨i', S', ⟨nofun, n, ha⟩, hn.symm⟩
  · rintro (⟨i', S', ⟨_, n, ha⟩, rfl⟩ | ⟨⟨_, n, ha⟩, hr, m, hb⟩)
    · exact ⟨nofun, n+1, by simp only [spec, ha]⟩
    · refine ⟨hr, max n m + 1, ?_⟩
      have ha' := spec_lift ha nofun (Nat.le_max_left n m)
      have hb' := spec_lift hb hr (Nat.le_max_right n m)
      simp only [spec, ha', hb']

end Unfold

/-! ## 4b. Loops without fuel -/

/-- Big-step semantics of `specRepLoop` over a *relational* iteration `U idx i S r`
(`r` ranges over definite answers): the loop stops at `max`, or at the first failing iteration,
or performs one more iteration. -/
inductive RepSem (U : Nat → Inp → List Sp → SR → Prop) (min : Nat) (max : Option Nat) :
    Nat → Inp → List Sp → SR → Prop
  | maxed {idx : Nat} {i : Inp} {S : List Sp} (h : max = some idx) :
      RepSem U min max idx i S (repStop min idx i S)
  | stop {idx : Nat} {i : Inp} {S : List Sp} (h : max ≠ some idx) (hu : U idx i S .fail) :
      RepSem U min max idx i S (repStop min idx i S)
  | step {idx : Nat} {i : Inp} {S : List Sp} {i' : Inp} {S' : List Sp} {r : SR} (h : max ≠ some idx)
      (hu : U idx i S (.ok i' S')) (hr : RepSem U min max (idx+1) i' S' r) :
      RepSem U min max idx i S r

theorem RepSem.ne_oof {U : Nat → Inp → List Sp → SR → Prop} {min : Nat} {max : Option Nat} {idx : Nat}
    {i : Inp} {S : List Sp} {r : SR} (h : RepSem U min max idx i S r) : r ≠ .oof := by
  induction h with
  | maxed h => exact repStop_ne_oof _ _ _ _
  | stop h hu => exact repStop_ne_oof _ _ _ _
  | step h hu hr ih => exact ih

theorem RepSem.mono {U U' : Nat → Inp → List Sp → SR → Prop}
    (hU : ∀ idx i S r, U idx i S r → U' idx i S r) {min : Nat} {max : Option Nat} {idx : Nat}
    {i : Inp} {S : List Sp} {r : SR} (h : RepSem U min max idx i S r) : RepSem U' min max idx i S r := by
  induction h with
  | maxed h => exact .maxed h
  | stop h hu => exact .stop h (hU _ _ _ _ hu)
  | step h hu hr ih => exact .step h (hU _ _ _ _ hu) ih

theorem RepSem.congr {U U' : Nat → Inp → List Sp → SR → Prop}
    (hU : ∀ idx i S r, U idx i S r ↔ U' idx i S r) {min : Nat} {max : Option Nat} {idx : Nat}
    {i : Inp} {S : List Sp} {r : SR} : RepSem U min max idx i S r ↔ RepSem U' min max idx i S r :=
  ⟨RepSem.mono fun a b c d => (hU a b c d).mp, RepSem.mono fun a b c d => (hU a b c d).mpr⟩

theorem RepSem.det {U : Nat → Inp → List Sp → SR → Prop}
    (hU : ∀ idx i S r r', U idx i S r → U idx i S r' → r = r') {min : Nat} {max : Option Nat} {idx : Nat}
    {i : Inp} {S : List Sp} {r r' : SR} (h : RepSem U min max idx i S r) (h' : RepSem U min max idx i S r') :
    r = r' := by
  induction h with
  | maxed h =>
    cases h' with
    | maxed _ => rfl
    | stop h2 _ => exact absurd h h2
    | step h2 _ _ => exact absurd h h2
  | stop h hu =>
    cases h' with
    | maxed h2 => exact absurd h2 h
    | stop _ _ => rfl
    | step _ hu2 _ => exact absurd (hU _ _ _ _ _ hu hu2) nofun
  | step h hu hr ih =>
    cases h' with
    | maxed h2 => exact absurd h2 h
    | stop _ hu2 => exact absurd (hU _ _ _ _ _ hu hu2) nofun
    | step _ hu2 hr2 =>
      have := hU _ _ _ _ _ hu hu2
      injection this with h1 h2
      subst h1; subst h2
      exact ih hr2

/-- The three cases, as an equation. -/
theorem RepSem_unfold {U : Nat → Inp → List Sp → SR → Prop} {min : Nat} {max : Option Nat} {idx : Nat}
    {i : Inp} {S : List Sp} {r : SR} :
    RepSem U min max idx i S r ↔
      (max = some idx ∧ r = repStop min idx i S) ∨
      (max ≠ some idx ∧ U idx i S .fail ∧ r = repStop min idx i S) ∨
      (max ≠ some idx ∧ ∃ i' S', U idx i S (.ok i' S') ∧ RepSem U min max (idx+1) i' S' r) := by
  constructor
  · intro h
    cases h with
    | maxed h => exact .inl ⟨h, rfl⟩
    | stop h hu => exact .inr (.inl ⟨h, hu, rfl⟩)
    | step h hu hr => exact .inr (.inr ⟨h, _, _, hu, hr⟩)
  · rintro (⟨h, rfl⟩ | ⟨h, hu, rfl⟩ | ⟨h, i', S', hu, hr⟩)
    · exact .maxed h
    · exact .stop h hu
    · exact .step h hu hr

/-- Soundness of the loop w.r.t. `RepSem`: if every definite answer of the unit is in `U`, every
definite answer of the loop is in `RepSem U`. -/
theorem specRepLoop_sem {u : Nat → Inp → List Sp → SR} {U : Nat → Inp → List Sp → SR → Prop}
    (hu : ∀ idx i S, u idx i S ≠ .oof → U idx i S (u idx i S)) (min : Nat) (max : Option Nat) :
    ∀ b idx i S, specRepLoop u min max b idx i S ≠ .oof →
      RepSem U min max idx i S (specRepLoop u min max b idx i S) := by
  intro b
  induction b with
  | zero => intro idx i S hne; exact absurd rfl hne
  | succ b ih =>
    intro idx i S hne
    by_cases hmax : max = some idx
    · rw [specRepLoop_maxed _ _ _ hmax]; exact .maxed hmax
    · cases hr : u idx i S with
      | oof => rw [specRepLoop_oof _ hmax hr] at hne; exact absurd rfl hne
      | fail =>
        rw [specRepLoop_fail _ hmax hr]
        have := hu idx i S (by rw [hr]; nofun)
        rw [hr] at this
        exact .stop hmax this
      | ok i' S' =>
        rw [specRepLoop_ok _ hmax hr] at hne ⊢
        have := hu idx i S (by rw [hr]; nofun)
        rw [hr] at this
        exact .step hmax this (ih _ _ _ hne)

/-- Completeness: over a fuel-indexed, monotone unit `u n`, whose limit contains `U`, every
`RepSem U` answer is computed by the loop at some fuel and budget. -/
theorem RepSem.toLoop {u : Nat → Nat → Inp → List Sp → SR} (hmono : ∀ n idx, SLe (u n idx) (u (n+1) idx))
    {U : Nat → Inp → List Sp → SR → Prop}
    (hU : ∀ idx i S r, U idx i S r → r ≠ .oof ∧ ∃ n, u n idx i S = r) {min : Nat} {max : Option Nat}
    {idx : Nat} {i : Inp} {S : List Sp} {r : SR} (h : RepSem U min max idx i S r) :
    ∃ n b, specRepLoop (u n) min max b idx i S = r := by
  have hle : ∀ idx n m, n ≤ m → SLe (u n idx) (u m idx) := fun idx =>
    SLe.of_succ (T := fun n => u n idx) (fun n => hmono n idx)
  induction h with
  | maxed h => exact ⟨0, 1, specRepLoop_maxed 0 _ _ h⟩
  | stop h hu =>
    obtain ⟨_, n, hn⟩ := hU _ _ _ _ hu
    exact ⟨n, 1, specRepLoop_fail 0 h hn⟩
  | @step idx i S i' S' r h hu hr ih =>
    obtain ⟨_, n1, hn1⟩ := hU _ _ _ _ hu
    obtain ⟨n2, b2, h2⟩ := ih
    refine ⟨Nat.max n1 n2, b2 + 1, ?_⟩
    rw [specRepLoop_ok _ h ((hle idx n1 _ (Nat.le_max_left n1 n2)).eq_of hn1 nofun)]
    exact (specRepLoop_mono (fun idx => hle idx n2 _ (Nat.le_max_right n1 n2)) min max b2 b2 (idx+1)
      (Nat.le_refl _)).eq_of h2 hr.ne_oof

/-- The limit of `specRepLoop` over a monotone fuel-indexed unit is `RepSem` of the unit's limit. -/
theorem specRepLoop_lim {u : Nat → Nat → Inp → List Sp → SR} (hmono : ∀ n idx, SLe (u n idx) (u (n+1) idx))
    {U : Nat → Inp → List Sp → SR → Prop}
    (hU : ∀ idx i S r, U idx i S r ↔ (r ≠ .oof ∧ ∃ n, u n idx i S = r)) {min : Nat} {max : Option Nat}
    {idx : Nat} {i : Inp} {S : List Sp} {r : SR} :
    (r ≠ .oof ∧ ∃ n b, specRepLoop (u n) min max b idx i S = r) ↔ RepSem U min max idx i S r := by
  constructor
  · rintro ⟨hr, n, b, h⟩
    have := specRepLoop_sem (u := u n) (U := U)
      (fun idx i S hne => (hU idx i S _).mpr ⟨hne, n, rfl⟩) min max b idx i S (by rw [h]; exact hr)
    rw [h] at this
    exact this
  · intro h
    exact ⟨h.ne_oof, h.toLoop hmono (fun idx i S r hu => (hU idx i S r).mp hu)⟩

/-- Joint monotonicity in fuel and budget. -/
theorem specRepLoop_lift {u : Nat → Nat → Inp → List Sp → SR} (hmono : ∀ n idx, SLe (u n idx) (u (n+1) idx))
    {min : Nat} {max : Option Nat} {n n' b b' idx : Nat} {i : Inp} {S : List Sp} {r : SR}
    (h : specRepLoop (u n) min max b idx i S = r) (hr : r ≠ .oof) (hn : n ≤ n') (hb : b ≤ b') :
    specRepLoop (u n') min max b' idx i S = r :=
  (specRepLoop_mono (fun idx => SLe.of_succ (T := fun n => u n idx) (fun n => hmono n idx) n n' hn)
    min max b b' idx hb).eq_of h hr

/-- A `*`-loop (`min = 0`, no `max`) never fails. -/
theorem specRepLoop_star_ne_fail (u : Nat → Inp → List Sp → SR) :
    ∀ b idx i S, specRepLoop u 0 none b idx i S ≠ .fail := by
  intro b
  induction b with
  | zero => intro idx i S; rw [specRepLoop_zero]; nofun
  | succ b ih =>
    intro idx i S
    have hmax : (none : Option Nat) ≠ some idx := nofun
    cases hr : u idx i S with
    | oof => rw [specRepLoop_oof _ hmax hr]; nofun
    | fail => rw [specRepLoop_fail _ hmax hr]; simp only [repStop, Nat.not_lt_zero, if_false]; nofun
    | ok i' S' => rw [specRepLoop_ok _ hmax hr]; exact ih _ _ _

theorem RepSem.star_ok {U : Nat → Inp → List Sp → SR → Prop} {idx : Nat} {i : Inp} {S : List Sp} {r : SR}
    (h : RepSem U 0 none idx i S r) : ∃ i' S', r = .ok i' S' := by
  induction h with
  | maxed h => exact absurd h nofun
  | @stop idx i S h hu => exact ⟨i, S, by simp only [repStop, Nat.not_lt_zero, if_false]⟩
  | step h hu hr ih => exact ih

/-- Big-step semantics of the implicit skip `(WHITESPACE | COMMENT)*` over a relational step `V`. -/
inductive SkipSem (V : Inp → List Sp → SR → Prop) : Inp → List Sp → SR → Prop
  | stop {i : Inp} {S : List Sp} (hv : V i S .fail) : SkipSem V i S (.ok i S)
  | step {i : Inp} {S : List Sp} {i' : Inp} {S' : List Sp} {r : SR} (hv : V i S (.ok i' S'))
      (hr : SkipSem V i' S' r) : SkipSem V i S r

theorem SkipSem.ok {V : Inp → List Sp → SR → Prop} {i : Inp} {S : List Sp} {r : SR} (h : SkipSem V i S r) :
    ∃ i' S', r = .ok i' S' := by
  induction h with
  | stop hv => exact ⟨_, _, rfl⟩
  | step hv hr ih => exact ih

theorem SkipSem.mono {V V' : Inp → List Sp → SR → Prop} (hV : ∀ i S r, V i S r → V' i S r)
    {i : Inp} {S : List Sp} {r : SR} (h : SkipSem V i S r) : SkipSem V' i S r := by
  induction h with
  | stop hv => exact .stop (hV _ _ _ hv)
  | step hv hr ih => exact .step (hV _ _ _ hv) ih

theorem SkipSem_unfold {V : Inp → List Sp → SR → Prop} {i : Inp} {S : List Sp} {r : SR} :
    SkipSem V i S r ↔ (V i S .fail ∧ r = .ok i S) ∨ ∃ i' S', V i S (.ok i' S') ∧ SkipSem V i' S' r := by
  constructor
  · intro h
    cases h with
    | stop hv => exact .inl ⟨hv, rfl⟩
    | step hv hr => exact .inr ⟨_, _, hv, hr⟩
  · rintro (⟨hv, rfl⟩ | ⟨i', S', hv, hr⟩)
    · exact .stop hv
    · exact .step hv hr

theorem RepSem_star_iff_SkipSem {V : Inp → List Sp → SR → Prop} {idx : Nat} {i : Inp} {S : List Sp} {r : SR} :
    RepSem (fun _ => V) 0 none idx i S r ↔ SkipSem V i S r := by
  constructor
  · intro h
    generalize hm : (0 : Nat) = mn at h
    generalize hx : (none : Option Nat) = mx at h
    induction h with
    | maxed h => subst hx; exact absurd h nofun
    | stop h hu => subst hm; simp only [repStop, Nat.not_lt_zero, if_false]; exact .stop hu
    | step h hu hr ih => exact .step hu ih
  · intro h
    induction h generalizing idx with
    | @stop i S hv =>
      have : RepSem (fun _ => V) 0 none idx i S (repStop 0 idx i S) := .stop nofun hv
      simpa only [repStop, Nat.not_lt_zero, if_false] using this
    | step hv hr ih => exact .step nofun hv ih

/-! ## 4c. The implicit skip, sequences -/

/-- The fuel-indexed iteration of the implicit skip of `g`. -/
def specSkipUnitAt (g : PGrammar) (uni : Uni) (n : Nat) (_idx : Nat) (i : Inp) (S : List Sp) : SR :=
  specSkipUnit (fun nm i S => spec g uni n false (.ident nm) i S) (g.defines "WHITESPACE") (g.defines "COMMENT") i S

theorem specSkipUnitAt_succ (g : PGrammar) (uni : Uni) (n idx : Nat) :
    SLe (specSkipUnitAt g uni n idx) (specSkipUnitAt g uni (n+1) idx) :=
  specSkipUnit_mono (fun nm => spec_succ g uni n false (.ident nm)) _ _

theorem specSkip_eq_loop (g : PGrammar) (uni : Uni) (n b : Nat) (i : Inp) (S : List Sp) :
    specSkip (spec g uni n false) (g.defines "WHITESPACE") (g.defines "COMMENT") b i S
      = specRepLoop (specSkipUnitAt g uni n) 0 none b 0 i S := rfl

/-- One step of the implicit skip of `g` (`WHITESPACE`, else `COMMENT`) has the definite answer `r`. -/
def DenSkipUnit (g : PGrammar) (uni : Uni) (i : Inp) (S : List Sp) (r : SR) : Prop :=
  r ≠ .oof ∧ ∃ n, specSkipUnitAt g uni n 0 i S = r

/-- The implicit skip of `g` has the definite answer `r`: limit of
`specSkip (spec g uni n false) hasW hasC b i S` over fuel `n` and budget `b` (jointly monotone; see
`DenSkip_iff_diag` for the diagonal `b = atomicBudget n` that `spec` uses). -/
def DenSkip (g : PGrammar) (uni : Uni) (i : Inp) (S : List Sp) (r : SR) : Prop :=
  r ≠ .oof ∧ ∃ n b, specSkip (spec g uni n false) (g.defines "WHITESPACE") (g.defines "COMMENT") b i S = r

section Skip
variable {g : PGrammar} {uni : Uni} {na : Bool} {i : Inp} {S : List Sp} {r : SR}

theorem specSkip_lift {n n' b b' : Nat}
    (h : specSkip (spec g uni n false) (g.defines "WHITESPACE") (g.defines "COMMENT") b i S = r) (hr : r ≠ .oof)
    (hn : n ≤ n') (hb : b ≤ b') :
    specSkip (spec g uni n' false) (g.defines "WHITESPACE") (g.defines "COMMENT") b' i S = r :=
  (specSkip_mono (fun e => spec_le g uni hn false e) _ _ hb).eq_of h hr

theorem specSkip_ne_fail (call : PExpr → Inp → List Sp → SR) (hasW hasC : Bool) (b : Nat) (i : Inp) (S : List Sp) :
    specSkip call hasW hasC b i S ≠ .fail := by
  unfold specSkip; exact specRepLoop_star_ne_fail _ _ _ _ _

theorem DenSkipUnit.det {r' : SR} (h : DenSkipUnit g uni i S r) (h' : DenSkipUnit g uni i S r') : r = r' := by
  obtain ⟨hr, n, hn⟩ := h
  obtain ⟨hr', m, hm⟩ := h'
  have hle := fun a b hab => SLe.of_succ (T := fun n => specSkipUnitAt g uni n 0)
    (fun n => specSkipUnitAt_succ g uni n 0) a b hab
  have h1 := (hle n _ (Nat.le_max_left n m)).eq_of hn hr
  have h2 := (hle m _ (Nat.le_max_right n m)).eq_of hm hr'
  rw [← h1, ← h2]

theorem DenSkip.det {r' : SR} (h : DenSkip g uni i S r) (h' : DenSkip g uni i S r') : r = r' := by
  obtain ⟨hr, n, b, hn⟩ := h
  obtain ⟨hr', m, c, hm⟩ := h'
  have h1 := specSkip_lift hn hr (Nat.le_max_left n m) (Nat.le_max_left b c)
  have h2 := specSkip_lift hm hr' (Nat.le_max_right n m) (Nat.le_max_right b c)
  rw [← h1, ← h2]

/-- The skip never fails. -/
theorem DenSkip.ok (h : DenSkip g uni i S r) : ∃ i' S', r = .ok i' S' := by
  obtain ⟨hr, n, b, hn⟩ := h
  cases r with
  | oof => exact absurd rfl hr
  | fail => exact absurd hn (specSkip_ne_fail _ _ _ _ _ _)
  | ok i' S' => exact ⟨_, _, rfl⟩

theorem DenSkip.of_spec {n b : Nat}
    (h : specSkip (spec g uni n false) (g.defines "WHITESPACE") (g.defines "COMMENT") b i S = r) (hr : r ≠ .oof) :
    DenSkip g uni i S r := ⟨hr, n, b, h⟩

/-- `DenSkip` is the limit along the diagonal used by `spec`. -/
theorem DenSkip_iff_diag : DenSkip g uni i S r ↔
    r ≠ .oof ∧ ∃ n, specSkip (spec g uni n false) (g.defines "WHITESPACE") (g.defines "COMMENT")
      (atomicBudget n) i S = r := by
  constructor
  · rintro ⟨hr, n, b, h⟩
    exact ⟨hr, Nat.max n b, specSkip_lift h hr (Nat.le_max_left n b)
      (Nat.le_trans (Nat.le_max_right n b) (SpecDen.le_atomicBudget _))⟩
  · rintro ⟨hr, n, h⟩
    exact ⟨hr, n, _, h⟩

theorem DenSkip.spec_ge (h : DenSkip g uni i S r) : ∃ n0, ∀ n, n0 ≤ n →
    specSkip (spec g uni n false) (g.defines "WHITESPACE") (g.defines "COMMENT") (atomicBudget n) i S = r := by
  obtain ⟨hr, n0, h0⟩ := DenSkip_iff_diag.mp h
  exact ⟨n0, fun n hn => specSkip_lift h0 hr hn (SpecDen.atomicBudget_le hn)⟩

/-- Inductive characterisation of the skip. -/
theorem DenSkip_iff_sem : DenSkip g uni i S r ↔ SkipSem (DenSkipUnit g uni) i S r := by
  rw [← RepSem_star_iff_SkipSem (idx := 0)]
  unfold DenSkip
  simp only [specSkip_eq_loop]
  exact specRepLoop_lim (u := specSkipUnitAt g uni) (specSkipUnitAt_succ g uni)
    (fun idx i S r => Iff.rfl)

theorem DenSkip_unfold : DenSkip g uni i S r ↔
    (DenSkipUnit g uni i S .fail ∧ r = .ok i S) ∨
      ∃ i' S', DenSkipUnit g uni i S (.ok i' S') ∧ DenSkip g uni i' S' r := by
  rw [DenSkip_iff_sem, SkipSem_unfold]
  simp only [DenSkip_iff_sem]

/-- The `COMMENT` alternative of a skip step. -/
def DenSkipC (g : PGrammar) (uni : Uni) (i : Inp) (S : List Sp) (r : SR) : Prop :=
  (g.defines "COMMENT" = true ∧ Den g uni false (.ident "COMMENT") i S r) ∨
    (g.defines "COMMENT" = false ∧ r = .fail)

/-- A skip step in terms of the denotations of the rules `WHITESPACE` and `COMMENT`. -/
theorem DenSkipUnit_iff : DenSkipUnit g uni i S r ↔
    (g.defines "WHITESPACE" = true ∧
      ((∃ i' S', Den g uni false (.ident "WHITESPACE") i S (.ok i' S') ∧ r = .ok i' S') ∨
        (Den g uni false (.ident "WHITESPACE") i S .fail ∧ DenSkipC g uni i S r))) ∨
    (g.defines "WHITESPACE" = false ∧ DenSkipC g uni i S r) := by
  unfold DenSkipUnit DenSkipC specSkipUnitAt specSkipUnit
  cases g.defines "WHITESPACE" with
  | false =>
    simp only [Bool.false_eq_true, if_false, false_and, false_or, true_and]
    cases g.defines "COMMENT" with
    | false =>
      simp only [Bool.false_eq_true, if_false, false_and, false_or, true_and]
      constructor
      · rintro ⟨_, _, h⟩; exact h.symm
      · rintro rfl; exact ⟨nofun, 0, rfl⟩
    | true =>
      simp only [if_true, true_and, Bool.true_eq_false, false_and, or_false]
      exact Iff.rfl
  | true =>
    simp only [if_true, true_and, Bool.true_eq_false, false_and, or_false]
    constructor
    · rintro ⟨hr, n, h⟩
      cases hw : spec g uni n false (.ident "WHITESPACE") i S with
      | oof => rw [hw] at h; exact absurd h.symm hr
      | ok i' S' => rw [hw] at h; exact .inl ⟨i', S', ⟨nofun, n, hw⟩, h.symm⟩
      | fail =>
        rw [hw] at h
        refine .inr ⟨⟨nofun, n, hw⟩, ?_⟩
        cases hC : g.defines "COMMENT" with
        | false => rw [hC] at h; exact .inr ⟨rfl, h.symm⟩
        | true => rw [hC] at h; exact .inl ⟨rfl, hr, n, h⟩
    · rintro (⟨i', S', ⟨_, n, hw⟩, rfl⟩ | ⟨⟨_, n, hw⟩, ⟨hC, hr, m, hc⟩ | ⟨hC, rfl⟩⟩)
      · exact ⟨nofun, n, by rw [hw]⟩
      · refine ⟨hr, Nat.max n m, ?_⟩
        rw [spec_lift hw nofun (Nat.le_max_left n m), hC]
        exact spec_lift hc hr (Nat.le_max_right n m)
      · exact ⟨nofun, n, by rw [hw, hC]; rfl⟩

/-- The skip between sequence elements / repetition iterations: performed iff `na`. -/
def DenSkipIf (g : PGrammar) (uni : Uni) (na : Bool) (i : Inp) (S : List Sp) (r : SR) : Prop :=
  (na = true ∧ DenSkip g uni i S r) ∨ (na = false ∧ r = .ok i S)

theorem DenSkipIf_true : DenSkipIf g uni true i S r ↔ DenSkip g uni i S r := by
  simp only [DenSkipIf, true_and, Bool.true_eq_false, false_and, or_false]

theorem DenSkipIf_false : DenSkipIf g uni false i S r ↔ r = .ok i S := by
  simp only [DenSkipIf, Bool.false_eq_true, false_and, false_or, true_and]

theorem DenSkipIf.det {r' : SR} (h : DenSkipIf g uni na i S r) (h' : DenSkipIf g uni na i S r') : r = r' := by
  cases na with
  | true => exact DenSkip.det (DenSkipIf_true.mp h) (DenSkipIf_true.mp h')
  | false => rw [DenSkipIf_false.mp h, DenSkipIf_false.mp h']

theorem DenSkipIf.ok (h : DenSkipIf g uni na i S r) : ∃ i' S', r = .ok i' S' := by
  rcases h with ⟨_, h⟩ | ⟨_, rfl⟩
  · exact h.ok
  · exact ⟨_, _, rfl⟩

theorem Den_seq {a b : PExpr} : Den g uni na (.seq a b) i S r ↔
    (Den g uni na a i S .fail ∧ r = .fail) ∨
      ∃ i1 S1 i2 S2, Den g uni na a i S (.ok i1 S1) ∧ DenSkipIf g uni na i1 S1 (.ok i2 S2) ∧
        Den g uni na b i2 S2 r := by
  constructor
  · rintro ⟨hr, n, hn⟩
    cases n with
    | zero => rw [spec_zero] at hn; exact absurd hn.symm hr
    | succ n =>
      simp only [spec] at hn
      cases ha : spec g uni n na a i S with
      | oof => rw [ha] at hn; exact absurd hn.symm hr
      | fail => rw [ha] at hn; exact .inl ⟨⟨nofun, n, ha⟩, hn.symm⟩
      | ok i1 S1 =>
        rw [ha] at hn
        cases na with
        | false =>
          simp only [Bool.false_eq_true, if_false] at hn
          exact .inr ⟨i1, S1, i1, S1, ⟨nofun, n, ha⟩, DenSkipIf_false.mpr rfl, hr, n, hn⟩
        | true =>
          simp only [if_true] at hn
          cases hs : specSkip (spec g uni n false) (g.defines "WHITESPACE") (g.defines "COMMENT")
              (atomicBudget n) i1 S1 with
          | oof => rw [hs] at hn; exact absurd hn.symm hr
          | fail => exact absurd hs (specSkip_ne_fail _ _ _ _ _ _)
          | ok i2 S2 =>
            rw [hs] at hn
            exact .inr ⟨i1, S1, i2, S2, ⟨nofun, n, ha⟩, DenSkipIf_true.mpr ⟨nofun, n, _, hs⟩, hr, n, hn⟩
  · rintro (⟨⟨_, n, ha⟩, rfl⟩ | ⟨i1, S1, i2, S2, ⟨_, n, ha⟩, hs, hr, m, hb⟩)
    · exact ⟨nofun, n+1, by simp only [spec, ha]⟩
    · cases na with
      | false =>
        have := DenSkipIf_false.mp hs
        injection this with h1 h2
        subst h1; subst h2
        refine ⟨hr, Nat.max n m + 1, ?_⟩
        have ha' := spec_lift ha nofun (Nat.le_max_left n m)
        have hb' := spec_lift hb hr (Nat.le_max_right n m)
        simp only [spec, ha', hb', Bool.false_eq_true, if_false]
      | true =>
        obtain ⟨k, hk⟩ := (DenSkipIf_true.mp hs).spec_ge
        refine ⟨hr, Nat.max (Nat.max n m) k + 1, ?_⟩
        have ha' := spec_lift ha nofun (Nat.le_trans (Nat.le_max_left n m) (Nat.le_max_left _ k))
        have hb' := spec_lift hb hr (Nat.le_trans (Nat.le_max_right n m) (Nat.le_max_left _ k))
        have hs' := hk _ (Nat.le_max_right (Nat.max n m) k)
        simp only [spec, ha', hb', hs', if_true]

/-- `seq` in an atomic context. -/
theorem Den_seq_atomic {a b : PExpr} : Den g uni false (.seq a b) i S r ↔
    (Den g uni false a i S .fail ∧ r = .fail) ∨
      ∃ i1 S1, Den g uni false a i S (.ok i1 S1) ∧ Den g uni false b i1 S1 r := by
  rw [Den_seq]
  constructor
  · rintro (h | ⟨i1, S1, i2, S2, ha, hs, hb⟩)
    · exact .inl h
    · have := DenSkipIf_false.mp hs
      injection this with h1 h2
      subst h1; subst h2
      exact .inr ⟨_, _, ha, hb⟩
  · rintro (h | ⟨i1, S1, ha, hb⟩)
    · exact .inl h
    · exact .inr ⟨i1, S1, i1, S1, ha, DenSkipIf_false.mpr rfl, hb⟩

end Skip

/-! ## 5a. Congruence: non-repetition constructors -/

/-- The implicit skips of `g` and `g'` have the same definite answers. -/
def SkipEquiv (g g' : PGrammar) (uni : Uni) : Prop := ∀ i S r, DenSkip g uni i S r ↔ DenSkip g' uni i S r

theorem SkipEquiv.refl (g : PGrammar) (uni : Uni) : SkipEquiv g g uni := fun _ _ _ => Iff.rfl

theorem SkipEquiv.symm {g g' : PGrammar} {uni : Uni} (h : SkipEquiv g g' uni) : SkipEquiv g' g uni :=
  fun i S r => (h i S r).symm

theorem SkipEquiv.trans {g g' g'' : PGrammar} {uni : Uni} (h : SkipEquiv g g' uni) (h' : SkipEquiv g' g'' uni) :
    SkipEquiv g g'' uni := fun i S r => (h i S r).trans (h' i S r)

theorem SkipEquiv.skipIf {g g' : PGrammar} {uni : Uni} (h : SkipEquiv g g' uni) (na : Bool) (i : Inp) (S : List Sp)
    (r : SR) : DenSkipIf g uni na i S r ↔ DenSkipIf g' uni na i S r := by
  simp only [DenSkipIf, h i S r]

/-- Skips agree as soon as `WHITESPACE` and `COMMENT` are defined in both or neither grammar and
evaluate alike (atomically). -/
theorem SkipEquiv.of_rules {g g' : PGrammar} {uni : Uni}
    (hW : g'.defines "WHITESPACE" = g.defines "WHITESPACE") (hC : g'.defines "COMMENT" = g.defines "COMMENT")
    (hw : SpecEquiv g g' uni false (.ident "WHITESPACE") (.ident "WHITESPACE"))
    (hc : SpecEquiv g g' uni false (.ident "COMMENT") (.ident "COMMENT")) : SkipEquiv g g' uni := by
  have hu : ∀ i S r, DenSkipUnit g uni i S r ↔ DenSkipUnit g' uni i S r := by
    intro i S r
    simp only [DenSkipUnit_iff, DenSkipC, hW, hC, hw i S, hc i S]
  intro i S r
  rw [DenSkip_iff_sem, DenSkip_iff_sem]
  exact ⟨SkipSem.mono fun i S r => (hu i S r).mp, SkipSem.mono fun i S r => (hu i S r).mpr⟩

section Congr
variable {g g' : PGrammar} {uni : Uni} {na : Bool}

theorem SpecEquiv.restoreOnErr {e e' : PExpr} (h : SpecEquiv g g' uni na e e') :
    SpecEquiv g g' uni na (.restoreOnErr e) (.restoreOnErr e') := by
  intro i S r; simp only [Den_restoreOnErr, h i S]

/-- `RestoreOnErr` is semantically transparent (the reference stack is immutable). -/
theorem SpecEquiv.restoreOnErr_elim (g : PGrammar) (uni : Uni) (na : Bool) (e : PExpr) :
    SpecEquiv g g uni na (.restoreOnErr e) e := fun _ _ _ => Den_restoreOnErr

theorem SpecEquiv.restoreOnErr_left {e e' : PExpr} (h : SpecEquiv g g' uni na e e') :
    SpecEquiv g g' uni na (.restoreOnErr e) e' := by
  intro i S r; simp only [Den_restoreOnErr, h i S]

theorem SpecEquiv.restoreOnErr_right {e e' : PExpr} (h : SpecEquiv g g' uni na e e') :
    SpecEquiv g g' uni na e (.restoreOnErr e') := by
  intro i S r; simp only [Den_restoreOnErr, h i S]

theorem SpecEquiv.posPred {e e' : PExpr} (h : SpecEquiv g g' uni na e e') :
    SpecEquiv g g' uni na (.posPred e) (.posPred e') := by
  intro i S r; simp only [Den_posPred, h i S]

theorem SpecEquiv.negPred {e e' : PExpr} (h : SpecEquiv g g' uni na e e') :
    SpecEquiv g g' uni na (.negPred e) (.negPred e') := by
  intro i S r; simp only [Den_negPred, h i S]

theorem SpecEquiv.opt {e e' : PExpr} (h : SpecEquiv g g' uni na e e') :
    SpecEquiv g g' uni na (.opt e) (.opt e') := by
  intro i S r; simp only [Den_opt, h i S]

theorem SpecEquiv.push {e e' : PExpr} (h : SpecEquiv g g' uni na e e') :
    SpecEquiv g g' uni na (.push e) (.push e') := by
  intro i S r; simp only [Den_push, h i S]

theorem SpecEquiv.choice {a a' b b' : PExpr} (ha : SpecEquiv g g' uni na a a') (hb : SpecEquiv g g' uni na b b') :
    SpecEquiv g g' uni na (.choice a b) (.choice a' b') := by
  intro i S r; simp only [Den_choice, ha i S, hb i S]

theorem SpecEquiv.seq {a a' b b' : PExpr} (hsk : SkipEquiv g g' uni) (ha : SpecEquiv g g' uni na a a')
    (hb : SpecEquiv g g' uni na b b') : SpecEquiv g g' uni na (.seq a b) (.seq a' b') := by
  intro i S r
  simp only [Den_seq, ha i S, hsk.skipIf]
  constructor
  · rintro (h | ⟨i1, S1, i2, S2, h1, h2, h3⟩)
    · exact .inl h
    · exact .inr ⟨i1, S1, i2, S2, h1, h2, (hb i2 S2 r).mp h3⟩
  · rintro (h | ⟨i1, S1, i2, S2, h1, h2, h3⟩)
    · exact .inl h
    · exact .inr ⟨i1, S1, i2, S2, h1, h2, (hb i2 S2 r).mpr h3⟩

/-- In an atomic context no skip hypothesis is needed. -/
theorem SpecEquiv.seq_atomic {a a' b b' : PExpr} (ha : SpecEquiv g g' uni false a a')
    (hb : SpecEquiv g g' uni false b b') : SpecEquiv g g' uni false (.seq a b) (.seq a' b') := by
  intro i S r
  simp only [Den_seq_atomic, ha i S]
  constructor
  · rintro (h | ⟨i1, S1, h1, h3⟩)
    · exact .inl h
    · exact .inr ⟨i1, S1, h1, (hb i1 S1 r).mp h3⟩
  · rintro (h | ⟨i1, S1, h1, h3⟩)
    · exact .inl h
    · exact .inr ⟨i1, S1, h1, (hb i1 S1 r).mpr h3⟩

/-- Same-grammar version of `SpecEquiv.seq`. -/
theorem SpecEquiv.seq_same {g : PGrammar} {a a' b b' : PExpr} (ha : SpecEquiv g g uni na a a')
    (hb : SpecEquiv g g uni na b b') : SpecEquiv g g uni na (.seq a b) (.seq a' b') :=
  SpecEquiv.seq (SkipEquiv.refl g uni) ha hb

/-- A rule call is equivalent to its body under the body's atomicity. -/
theorem SpecEquiv.ident_unfold {g : PGrammar} {name : String} {rl : PRule} (h : g.find? name = some rl)
    (uni : Uni) (na : Bool) (i : Inp) (S : List Sp) (r : SR) :
    Den g uni na (.ident name) i S r ↔ Den g uni (bodyNa name rl.kind na) rl.expr i S r :=
  Den_ident_some h

end Congr

/-! ## 4d. Repetitions -/

/-- Is the implicit skip performed before iteration `idx` of a repetition under `na`? -/
def skipsBefore (na : Bool) (idx : Nat) : Bool := na && idx != 0

theorem skipsBefore_zero (na : Bool) : skipsBefore na 0 = false := by cases na <;> rfl
theorem skipsBefore_false (idx : Nat) : skipsBefore false idx = false := rfl
theorem skipsBefore_succ (idx : Nat) : skipsBefore true (idx+1) = true := rfl

theorem skipsBefore_eq_false_iff (na : Bool) (idx : Nat) :
    skipsBefore na idx = false ↔ (idx = 0 ∨ (!na) = true) := by
  cases na <;> cases idx <;> simp [skipsBefore]

/-- The fuel-indexed iteration of a repetition of `e` in `g`, as `spec` runs it at fuel `n+1`. -/
def specRepUnitAt (g : PGrammar) (uni : Uni) (na : Bool) (e : PExpr) (n : Nat) : Nat → Inp → List Sp → SR :=
  specRepUnit (spec g uni n) (atomicBudget n) (g.defines "WHITESPACE") (g.defines "COMMENT") na e

theorem specRepUnitAt_succ (g : PGrammar) (uni : Uni) (na : Bool) (e : PExpr) (n idx : Nat) :
    SLe (specRepUnitAt g uni na e n idx) (specRepUnitAt g uni na e (n+1) idx) :=
  specRepUnit_mono (spec_succ g uni n) (SpecDen.atomicBudget_le (Nat.le_succ n)) _ _ na e idx

/-- Iteration `idx` of a repetition of `e`: the implicit skip (when `na` and `idx > 0`), then `e`.
(The skip never fails; if `e` fails the iteration fails and the loop gives the skip back.) -/
def DenUnit (g : PGrammar) (uni : Uni) (na : Bool) (e : PExpr) (idx : Nat) (i : Inp) (S : List Sp) (r : SR) : Prop :=
  ∃ i1 S1, DenSkipIf g uni (skipsBefore na idx) i S (.ok i1 S1) ∧ Den g uni na e i1 S1 r

/-- The repetition loop of `e` with bounds `min`, `max`, from iteration `idx` on, has the definite
answer `r`: limit of `specRepLoop (unit at fuel n) min max b idx i S` over fuel `n` and budget `b`
(jointly monotone; `DenRep_iff_diag` gives the diagonal `b = n` that `specRepWith` uses). -/
def DenRep (g : PGrammar) (uni : Uni) (na : Bool) (e : PExpr) (min : Nat) (max : Option Nat) (idx : Nat)
    (i : Inp) (S : List Sp) (r : SR) : Prop :=
  r ≠ .oof ∧ ∃ n b, specRepLoop (specRepUnitAt g uni na e n) min max b idx i S = r

section Rep
variable {g : PGrammar} {uni : Uni} {na : Bool} {e : PExpr} {min : Nat} {max : Option Nat} {idx : Nat}
  {i : Inp} {S : List Sp} {r : SR}

theorem DenUnit_zero : DenUnit g uni na e 0 i S r ↔ Den g uni na e i S r := by
  unfold DenUnit
  rw [skipsBefore_zero]
  constructor
  · rintro ⟨i1, S1, hs, he⟩
    have := DenSkipIf_false.mp hs
    injection this with h1 h2
    subst h1; subst h2; exact he
  · intro he; exact ⟨i, S, DenSkipIf_false.mpr rfl, he⟩

theorem DenUnit_atomic : DenUnit g uni false e idx i S r ↔ Den g uni false e i S r := by
  unfold DenUnit
  rw [skipsBefore_false]
  constructor
  · rintro ⟨i1, S1, hs, he⟩
    have := DenSkipIf_false.mp hs
    injection this with h1 h2
    subst h1; subst h2; exact he
  · intro he; exact ⟨i, S, DenSkipIf_false.mpr rfl, he⟩

theorem DenUnit_succ : DenUnit g uni true e (idx+1) i S r ↔
    ∃ i1 S1, DenSkip g uni i S (.ok i1 S1) ∧ Den g uni true e i1 S1 r := by
  unfold DenUnit
  rw [skipsBefore_succ]
  simp only [DenSkipIf_true]

theorem DenUnit.det {r' : SR} (h : DenUnit g uni na e idx i S r) (h' : DenUnit g uni na e idx i S r') : r = r' := by
  obtain ⟨i1, S1, hs, he⟩ := h
  obtain ⟨i2, S2, hs', he'⟩ := h'
  have := hs.det hs'
  injection this with h1 h2
  subst h1; subst h2
  exact he.det he'

theorem DenUnit.ne_oof (h : DenUnit g uni na e idx i S r) : r ≠ .oof := by
  obtain ⟨_, _, _, he⟩ := h; exact he.ne_oof

/-- `DenUnit` is the limit of the fuel-indexed iteration. -/
theorem specRepUnitAt_lim :
    (r ≠ .oof ∧ ∃ n, specRepUnitAt g uni na e n idx i S = r) ↔ DenUnit g uni na e idx i S r := by
  unfold specRepUnitAt specRepUnit DenUnit
  by_cases h0 : idx = 0 ∨ (!na) = true
  · rw [(skipsBefore_eq_false_iff na idx).mpr h0]
    simp only [h0, if_true]
    constructor
    · rintro ⟨hr, n, h⟩; exact ⟨i, S, DenSkipIf_false.mpr rfl, hr, n, h⟩
    · rintro ⟨i1, S1, hs, he⟩
      have := DenSkipIf_false.mp hs
      injection this with h1 h2
      subst h1; subst h2; exact he
  · have hsb : skipsBefore na idx = true := by
      cases hb : skipsBefore na idx with
      | true => rfl
      | false => exact absurd ((skipsBefore_eq_false_iff na idx).mp hb) h0
    rw [hsb]
    simp only [h0, if_false, DenSkipIf_true]
    constructor
    · rintro ⟨hr, n, h⟩
      cases hs : specSkip (spec g uni n false) (g.defines "WHITESPACE") (g.defines "COMMENT")
          (atomicBudget n) i S with
      | oof => rw [hs] at h; exact absurd h.symm hr
      | fail => exact absurd hs (specSkip_ne_fail _ _ _ _ _ _)
      | ok i1 S1 =>
        rw [hs] at h
        exact ⟨i1, S1, ⟨nofun, n, _, hs⟩, hr, n, h⟩
    · rintro ⟨i1, S1, hs, hr, m, he⟩
      obtain ⟨k, hk⟩ := hs.spec_ge
      refine ⟨hr, Nat.max m k, ?_⟩
      rw [hk _ (Nat.le_max_right m k)]
      exact spec_lift he hr (Nat.le_max_left m k)

/-- Inductive characterisation of the repetition loop. -/
theorem DenRep_iff_sem : DenRep g uni na e min max idx i S r ↔ RepSem (DenUnit g uni na e) min max idx i S r :=
  specRepLoop_lim (u := specRepUnitAt g uni na e) (specRepUnitAt_succ g uni na e)
    (fun _ _ _ _ => specRepUnitAt_lim.symm)

theorem DenRep.ne_oof (h : DenRep g uni na e min max idx i S r) : r ≠ .oof := h.1

theorem DenRep.det {r' : SR} (h : DenRep g uni na e min max idx i S r) (h' : DenRep g uni na e min max idx i S r') :
    r = r' :=
  RepSem.det (fun _ _ _ _ _ h1 h2 => h1.det h2) (DenRep_iff_sem.mp h) (DenRep_iff_sem.mp h')

/-- Iteration fails / `max` reached / one more iteration. -/
theorem DenRep_unfold : DenRep g uni na e min max idx i S r ↔
    (max = some idx ∧ r = repStop min idx i S) ∨
    (max ≠ some idx ∧ DenUnit g uni na e idx i S .fail ∧ r = repStop min idx i S) ∨
    (max ≠ some idx ∧ ∃ i' S', DenUnit g uni na e idx i S (.ok i' S') ∧
      DenRep g uni na e min max (idx+1) i' S' r) := by
  rw [DenRep_iff_sem, RepSem_unfold]
  simp only [DenRep_iff_sem]

theorem DenRep_iff_diag : DenRep g uni na e min max idx i S r ↔
    r ≠ .oof ∧ ∃ n, specRepLoop (specRepUnitAt g uni na e n) min max n idx i S = r := by
  constructor
  · rintro ⟨hr, n, b, h⟩
    exact ⟨hr, Nat.max n b, specRepLoop_lift (u := specRepUnitAt g uni na e) (specRepUnitAt_succ g uni na e)
      h hr (Nat.le_max_left n b) (Nat.le_max_right n b)⟩
  · rintro ⟨hr, n, h⟩
    exact ⟨hr, n, n, h⟩

theorem DenRep.spec_ge (h : DenRep g uni na e min max idx i S r) : ∃ n0, ∀ n, n0 ≤ n →
    specRepLoop (specRepUnitAt g uni na e n) min max n idx i S = r := by
  obtain ⟨hr, n0, h0⟩ := DenRep_iff_diag.mp h
  exact ⟨n0, fun n hn => specRepLoop_lift (u := specRepUnitAt g uni na e) (specRepUnitAt_succ g uni na e)
    h0 hr hn hn⟩

/-- Any expression that `spec` evaluates as `specRepWith … e min max` denotes the loop from 0. -/
theorem Den_of_repWith {E : PExpr}
    (hE : ∀ n i S, spec g uni (n+1) na E i S
      = specRepWith (spec g uni n) n (g.defines "WHITESPACE") (g.defines "COMMENT") na e min max i S) :
    Den g uni na E i S r ↔ DenRep g uni na e min max 0 i S r := by
  constructor
  · rintro ⟨hr, n, hn⟩
    cases n with
    | zero => rw [spec_zero] at hn; exact absurd hn.symm hr
    | succ n =>
      rw [hE, specRepWith_eq] at hn
      exact ⟨hr, n, n, hn⟩
  · intro h
    obtain ⟨hr, n, hn⟩ := DenRep_iff_diag.mp h
    exact ⟨hr, n+1, by rw [hE, specRepWith_eq]; exact hn⟩

theorem Den_rep : Den g uni na (.rep e) i S r ↔ DenRep g uni na e 0 none 0 i S r :=
  Den_of_repWith (fun _ _ _ => by simp only [spec])

theorem Den_repOnce : Den g uni na (.repOnce e) i S r ↔ DenRep g uni na e 1 none 0 i S r :=
  Den_of_repWith (fun _ _ _ => by simp only [spec])

theorem Den_repExact {k : Nat} : Den g uni na (.repExact e k) i S r ↔ DenRep g uni na e k (some k) 0 i S r :=
  Den_of_repWith (fun _ _ _ => by simp only [spec])

theorem Den_repMin {k : Nat} : Den g uni na (.repMin e k) i S r ↔ DenRep g uni na e k none 0 i S r :=
  Den_of_repWith (fun _ _ _ => by simp only [spec])

theorem Den_repMax {k : Nat} : Den g uni na (.repMax e k) i S r ↔ DenRep g uni na e 0 (some k) 0 i S r :=
  Den_of_repWith (fun _ _ _ => by simp only [spec])

theorem Den_repMinMax {k l : Nat} :
    Den g uni na (.repMinMax e k l) i S r ↔ DenRep g uni na e k (some l) 0 i S r :=
  Den_of_repWith (fun _ _ _ => by simp only [spec])

end Rep

/-! ## 5b. Congruence: repetitions -/

section CongrRep
variable {g g' : PGrammar} {uni : Uni} {na : Bool} {e e' : PExpr}

theorem DenUnit_congr (hsk : na = true → SkipEquiv g g' uni) (he : SpecEquiv g g' uni na e e') (idx : Nat)
    (i : Inp) (S : List Sp) (r : SR) : DenUnit g uni na e idx i S r ↔ DenUnit g' uni na e' idx i S r := by
  unfold DenUnit
  cases na with
  | false => simp only [skipsBefore_false, DenSkipIf_false, he _ _ r]
  | true => simp only [(hsk rfl).skipIf, he _ _ r]

theorem DenRep_congr (hsk : na = true → SkipEquiv g g' uni) (he : SpecEquiv g g' uni na e e') (min : Nat)
    (max : Option Nat) (idx : Nat) (i : Inp) (S : List Sp) (r : SR) :
    DenRep g uni na e min max idx i S r ↔ DenRep g' uni na e' min max idx i S r := by
  rw [DenRep_iff_sem, DenRep_iff_sem]
  exact RepSem.congr (DenUnit_congr hsk he)

theorem SpecEquiv.rep' (hsk : na = true → SkipEquiv g g' uni) (he : SpecEquiv g g' uni na e e') :
    SpecEquiv g g' uni na (.rep e) (.rep e') := by
  intro i S r; rw [Den_rep, Den_rep]; exact DenRep_congr hsk he _ _ _ _ _ _

theorem SpecEquiv.repOnce' (hsk : na = true → SkipEquiv g g' uni) (he : SpecEquiv g g' uni na e e') :
    SpecEquiv g g' uni na (.repOnce e) (.repOnce e') := by
  intro i S r; rw [Den_repOnce, Den_repOnce]; exact DenRep_congr hsk he _ _ _ _ _ _

theorem SpecEquiv.repExact' (hsk : na = true → SkipEquiv g g' uni) (he : SpecEquiv g g' uni na e e') (k : Nat) :
    SpecEquiv g g' uni na (.repExact e k) (.repExact e' k) := by
  intro i S r; rw [Den_repExact, Den_repExact]; exact DenRep_congr hsk he _ _ _ _ _ _

theorem SpecEquiv.repMin' (hsk : na = true → SkipEquiv g g' uni) (he : SpecEquiv g g' uni na e e') (k : Nat) :
    SpecEquiv g g' uni na (.repMin e k) (.repMin e' k) := by
  intro i S r; rw [Den_repMin, Den_repMin]; exact DenRep_congr hsk he _ _ _ _ _ _

theorem SpecEquiv.repMax' (hsk : na = true → SkipEquiv g g' uni) (he : SpecEquiv g g' uni na e e') (k : Nat) :
    SpecEquiv g g' uni na (.repMax e k) (.repMax e' k) := by
  intro i S r; rw [Den_repMax, Den_repMax]; exact DenRep_congr hsk he _ _ _ _ _ _

theorem SpecEquiv.repMinMax' (hsk : na = true → SkipEquiv g g' uni) (he : SpecEquiv g g' uni na e e')
    (k l : Nat) : SpecEquiv g g' uni na (.repMinMax e k l) (.repMinMax e' k l) := by
  intro i S r; rw [Den_repMinMax, Den_repMinMax]; exact DenRep_congr hsk he _ _ _ _ _ _

theorem SpecEquiv.seq' {a a' b b' : PExpr} (hsk : na = true → SkipEquiv g g' uni)
    (ha : SpecEquiv g g' uni na a a') (hb : SpecEquiv g g' uni na b b') :
    SpecEquiv g g' uni na (.seq a b) (.seq a' b') := by
  cases na with
  | false => exact SpecEquiv.seq_atomic ha hb
  | true => exact SpecEquiv.seq (hsk rfl) ha hb

theorem SpecEquiv.rep (hsk : SkipEquiv g g' uni) (he : SpecEquiv g g' uni na e e') :
    SpecEquiv g g' uni na (.rep e) (.rep e') := SpecEquiv.rep' (fun _ => hsk) he

theorem SpecEquiv.repOnce (hsk : SkipEquiv g g' uni) (he : SpecEquiv g g' uni na e e') :
    SpecEquiv g g' uni na (.repOnce e) (.repOnce e') := SpecEquiv.repOnce' (fun _ => hsk) he

theorem SpecEquiv.repExact (hsk : SkipEquiv g g' uni) (he : SpecEquiv g g' uni na e e') (k : Nat) :
    SpecEquiv g g' uni na (.repExact e k) (.repExact e' k) := SpecEquiv.repExact' (fun _ => hsk) he k

theorem SpecEquiv.repMin (hsk : SkipEquiv g g' uni) (he : SpecEquiv g g' uni na e e') (k : Nat) :
    SpecEquiv g g' uni na (.repMin e k) (.repMin e' k) := SpecEquiv.repMin' (fun _ => hsk) he k

theorem SpecEquiv.repMax (hsk : SkipEquiv g g' uni) (he : SpecEquiv g g' uni na e e') (k : Nat) :
    SpecEquiv g g' uni na (.repMax e k) (.repMax e' k) := SpecEquiv.repMax' (fun _ => hsk) he k

theorem SpecEquiv.repMinMax (hsk : SkipEquiv g g' uni) (he : SpecEquiv g g' uni na e e') (k l : Nat) :
    SpecEquiv g g' uni na (.repMinMax e k l) (.repMinMax e' k l) := SpecEquiv.repMinMax' (fun _ => hsk) he k l

end CongrRep

/-! ## 6. Grammar-level congruence -/

section Find

theorem SpecDen.go_some {name : String} : ∀ (rs : List PRule) (j k : Nat),
    PGrammar.indexOf.go name rs j = some k → j ≤ k ∧ ∃ r, rs[k - j]? = some r ∧ r.name = name := by
  intro rs
  induction rs with
  | nil => intro j k h; simp only [PGrammar.indexOf.go] at h; cases h
  | cons r rs ih =>
    intro j k h
    simp only [PGrammar.indexOf.go] at h
    by_cases hn : r.name = name
    · simp only [hn, if_true] at h
      injection h with h; subst h
      exact ⟨Nat.le_refl _, r, by simp, hn⟩
    · simp only [hn, if_false] at h
      obtain ⟨hle, r', hr', hn'⟩ := ih _ _ h
      refine ⟨by omega, r', ?_, hn'⟩
      have : k - j = (k - (j+1)) + 1 := by omega
      rw [this, List.getElem?_cons_succ]; exact hr'

theorem PGrammar.find?_some {g : PGrammar} {name : String} {rl : PRule} (h : g.find? name = some rl) :
    rl.name = name ∧ rl ∈ g ∧ g.defines name = true := by
  unfold PGrammar.find? at h
  unfold PGrammar.defines
  cases hi : g.indexOf name with
  | none => rw [hi] at h; cases h
  | some k =>
    rw [hi] at h
    simp only [] at h
    obtain ⟨_, r, hr, hn⟩ := SpecDen.go_some g 0 k hi
    rw [Nat.sub_zero, h] at hr
    injection hr with hr; subst hr
    exact ⟨hn, List.mem_of_getElem? h, rfl⟩

theorem PGrammar.find?_none {g : PGrammar} {name : String} (h : g.find? name = none) : g.defines name = false := by
  unfold PGrammar.find? at h
  unfold PGrammar.defines
  cases hi : g.indexOf name with
  | none => rfl
  | some k =>
    rw [hi] at h
    simp only [] at h
    obtain ⟨_, r, hr, hn⟩ := SpecDen.go_some g 0 k hi
    rw [Nat.sub_zero, h] at hr
    cases hr

theorem PGrammar.defines_eq_find? (g : PGrammar) (name : String) : g.defines name = (g.find? name).isSome := by
  cases h : g.find? name with
  | none => rw [PGrammar.find?_none h]; rfl
  | some rl => rw [(PGrammar.find?_some h).2.2]; rfl

theorem SpecDen.go_map {f : PRule → PRule} (hf : ∀ r, (f r).name = r.name) (name : String) :
    ∀ (rs : List PRule) (j : Nat), PGrammar.indexOf.go name (rs.map f) j = PGrammar.indexOf.go name rs j := by
  intro rs
  induction rs with
  | nil => intro j; rfl
  | cons r rs ih =>
    intro j
    simp only [List.map_cons, PGrammar.indexOf.go, hf, ih]

theorem PGrammar.find?_map {f : PRule → PRule} (hf : ∀ r, (f r).name = r.name) (g : PGrammar) (name : String) :
    PGrammar.find? (g.map f) name = (g.find? name).map f := by
  unfold PGrammar.find? PGrammar.indexOf
  rw [SpecDen.go_map hf]
  cases PGrammar.indexOf.go name g 0 with
  | none => rfl
  | some k => simp only [List.getElem?_map]

end Find

/-- Every rule of `g` has a counterpart of the same kind in `g'` (looked up by name, first match),
whose body *in `g'`* yields every definite answer that the old body yields *in `g'`*; names that `g`
does not define, `g'` does not define either. -/
structure RulesSim (g g' : PGrammar) (uni : Uni) : Prop where
  none : ∀ name, g.find? name = none → g'.find? name = none
  some : ∀ name rl, g.find? name = some rl → ∃ rl', g'.find? name = some rl' ∧ rl'.kind = rl.kind ∧
    ∀ na i S r, Den g' uni (bodyNa name rl.kind na) rl.expr i S r →
      Den g' uni (bodyNa name rl.kind na) rl'.expr i S r

theorem RulesSim.defines {g g' : PGrammar} {uni : Uni} (h : RulesSim g g' uni) (name : String) :
    g'.defines name = g.defines name := by
  rw [PGrammar.defines_eq_find?, PGrammar.defines_eq_find?]
  cases hf : g.find? name with
  | none => rw [h.none name hf]
  | some rl =>
    obtain ⟨rl', hf', _⟩ := h.some name rl hf
    rw [hf']; rfl

/-- All fuel-`n` definite answers of `g` are denotations in `g'`. -/
def SimAt (g g' : PGrammar) (uni : Uni) (n : Nat) : Prop :=
  ∀ na e i S, spec g uni n na e i S ≠ .oof → Den g' uni na e i S (spec g uni n na e i S)

section Sim
variable {g g' : PGrammar} {uni : Uni} {n : Nat}

theorem SimAt.eq (H : SimAt g g' uni n) {na : Bool} {e : PExpr} {i : Inp} {S : List Sp} {r : SR}
    (h : spec g uni n na e i S = r) (hr : r ≠ .oof) : Den g' uni na e i S r := by
  have := H na e i S (by rw [h]; exact hr)
  rwa [h] at this

theorem SimAt.skipUnit (H : SimAt g g' uni n)
    (hW : g'.defines "WHITESPACE" = g.defines "WHITESPACE") (hC : g'.defines "COMMENT" = g.defines "COMMENT")
    (idx : Nat) (i : Inp) (S : List Sp) (hne : specSkipUnitAt g uni n idx i S ≠ .oof) :
    DenSkipUnit g' uni i S (specSkipUnitAt g uni n idx i S) := by
  rw [DenSkipUnit_iff]; unfold DenSkipC; rw [hW, hC]
  have hcomment : ∀ r, (if g.defines "COMMENT" = true then spec g uni n false (.ident "COMMENT") i S else .fail) = r →
      r ≠ .oof → (g.defines "COMMENT" = true ∧ Den g' uni false (.ident "COMMENT") i S r) ∨
        (g.defines "COMMENT" = false ∧ r = .fail) := by
    intro r h hr
    cases hc : g.defines "COMMENT" with
    | false => rw [hc] at h; simp only [Bool.false_eq_true, if_false] at h; exact .inr ⟨rfl, h.symm⟩
    | true => rw [hc] at h; simp only [if_true] at h; exact .inl ⟨rfl, H.eq h hr⟩
  unfold specSkipUnitAt specSkipUnit at hne ⊢
  cases hw : g.defines "WHITESPACE" with
  | false =>
    rw [hw] at hne
    simp only [Bool.false_eq_true, if_false] at hne ⊢
    exact .inr ⟨trivial, hcomment _ rfl hne⟩
  | true =>
    rw [hw] at hne
    simp only [if_true] at hne ⊢
    refine .inl ⟨trivial, ?_⟩
    cases hws : spec g uni n false (.ident "WHITESPACE") i S with
    | oof => rw [hws] at hne; exact absurd rfl hne
    | ok i' S' => exact .inl ⟨i', S', H.eq hws nofun, rfl⟩
    | fail =>
      rw [hws] at hne
      exact .inr ⟨H.eq hws nofun, hcomment _ rfl hne⟩

theorem SimAt.skip (H : SimAt g g' uni n)
    (hW : g'.defines "WHITESPACE" = g.defines "WHITESPACE") (hC : g'.defines "COMMENT" = g.defines "COMMENT")
    (b : Nat) (i : Inp) (S : List Sp)
    (hne : specSkip (spec g uni n false) (g.defines "WHITESPACE") (g.defines "COMMENT") b i S ≠ .oof) :
    DenSkip g' uni i S (specSkip (spec g uni n false) (g.defines "WHITESPACE") (g.defines "COMMENT") b i S) := by
  rw [specSkip_eq_loop] at hne ⊢
  rw [DenSkip_iff_sem, ← RepSem_star_iff_SkipSem (idx := 0)]
  exact specRepLoop_sem (U := fun _ => DenSkipUnit g' uni) (fun idx i S h => H.skipUnit hW hC idx i S h)
    0 none b 0 i S hne

theorem SimAt.repUnit (H : SimAt g g' uni n)
    (hW : g'.defines "WHITESPACE" = g.defines "WHITESPACE") (hC : g'.defines "COMMENT" = g.defines "COMMENT")
    (na : Bool) (e : PExpr) (idx : Nat) (i : Inp) (S : List Sp) (hne : specRepUnitAt g uni na e n idx i S ≠ .oof) :
    DenUnit g' uni na e idx i S (specRepUnitAt g uni na e n idx i S) := by
  unfold specRepUnitAt specRepUnit DenUnit at *
  by_cases h0 : idx = 0 ∨ (!na) = true
  · rw [(skipsBefore_eq_false_iff na idx).mpr h0]
    simp only [h0, if_true] at hne ⊢
    exact ⟨i, S, DenSkipIf_false.mpr rfl, H na e i S hne⟩
  · have hsb : skipsBefore na idx = true := by
      cases hb : skipsBefore na idx with
      | true => rfl
      | false => exact absurd ((skipsBefore_eq_false_iff na idx).mp hb) h0
    rw [hsb]
    simp only [h0, if_false, DenSkipIf_true] at hne ⊢
    cases hs : specSkip (spec g uni n false) (g.defines "WHITESPACE") (g.defines "COMMENT")
        (atomicBudget n) i S with
    | oof => rw [hs] at hne; exact absurd rfl hne
    | fail => exact absurd hs (specSkip_ne_fail _ _ _ _ _ _)
    | ok i1 S1 =>
      rw [hs] at hne
      have hsk := H.skip hW hC (atomicBudget n) i S (by rw [hs]; nofun)
      rw [hs] at hsk
      exact ⟨i1, S1, hsk, H na e i1 S1 hne⟩

theorem SimAt.repWith (H : SimAt g g' uni n)
    (hW : g'.defines "WHITESPACE" = g.defines "WHITESPACE") (hC : g'.defines "COMMENT" = g.defines "COMMENT")
    (na : Bool) (e : PExpr) (min : Nat) (max : Option Nat) (i : Inp) (S : List Sp)
    (hne : specRepWith (spec g uni n) n (g.defines "WHITESPACE") (g.defines "COMMENT") na e min max i S ≠ .oof) :
    DenRep g' uni na e min max 0 i S
      (specRepWith (spec g uni n) n (g.defines "WHITESPACE") (g.defines "COMMENT") na e min max i S) := by
  rw [specRepWith_eq] at hne ⊢
  rw [DenRep_iff_sem]
  exact specRepLoop_sem (u := specRepUnitAt g uni na e n) (U := DenUnit g' uni na e)
    (fun idx i S h => H.repUnit hW hC na e idx i S h) min max n 0 i S hne

/-- **Simulation.**  Under `RulesSim g g'`, every definite answer of `g` (any fuel, any expression)
is the denotation of the same expression in `g'`. -/
theorem spec_sim (h : RulesSim g g' uni) : ∀ n, SimAt g g' uni n := by
  have hW := h.defines "WHITESPACE"
  have hC := h.defines "COMMENT"
  intro n
  induction n with
  | zero => intro na e i S hne; rw [spec_zero] at hne; exact absurd rfl hne
  | succ n ih =>
    intro na e i S hne
    cases e with
    | str s => exact (Den_leaf rfl).mpr (spec_leaf rfl g uni n na i S)
    | insens s => exact (Den_leaf rfl).mpr (spec_leaf rfl g uni n na i S)
    | range lo hi => exact (Den_leaf rfl).mpr (spec_leaf rfl g uni n na i S)
    | peekSlice a b => exact (Den_leaf rfl).mpr (spec_leaf rfl g uni n na i S)
    | skip needles => exact (Den_leaf rfl).mpr (spec_leaf rfl g uni n na i S)
    | ident name =>
      simp only [spec] at hne ⊢
      cases hf : g.find? name with
      | none =>
        simp only []
        exact (Den_ident_none (h.none name hf)).mpr rfl
      | some rl =>
        rw [hf] at hne
        simp only [] at hne ⊢
        obtain ⟨rl', hf', hk, hb⟩ := h.some name rl hf
        rw [Den_ident_some hf', hk]
        exact hb na i S _ (ih _ _ i S hne)
    | posPred e =>
      simp only [spec] at hne ⊢
      cases he : spec g uni n na e i S with
      | oof => rw [he] at hne; exact absurd rfl hne
      | fail => exact Den_posPred.mpr (.inl ⟨ih.eq he nofun, rfl⟩)
      | ok i' S' => exact Den_posPred.mpr (.inr ⟨i', S', ih.eq he nofun, rfl⟩)
    | negPred e =>
      simp only [spec] at hne ⊢
      cases he : spec g uni n na e i S with
      | oof => rw [he] at hne; exact absurd rfl hne
      | fail => exact Den_negPred.mpr (.inl ⟨ih.eq he nofun, rfl⟩)
      | ok i' S' => exact Den_negPred.mpr (.inr ⟨i', S', ih.eq he nofun, rfl⟩)
    | opt e =>
      simp only [spec] at hne ⊢
      cases he : spec g uni n na e i S with
      | oof => rw [he] at hne; exact absurd rfl hne
      | fail => exact Den_opt.mpr (.inl ⟨ih.eq he nofun, rfl⟩)
      | ok i' S' => exact Den_opt.mpr (.inr ⟨i', S', ih.eq he nofun, rfl⟩)
    | push e =>
      simp only [spec] at hne ⊢
      cases he : spec g uni n na e i S with
      | oof => rw [he] at hne; exact absurd rfl hne
      | fail => exact Den_push.mpr (.inl ⟨ih.eq he nofun, rfl⟩)
      | ok i' S' => exact Den_push.mpr (.inr ⟨i', S', ih.eq he nofun, rfl⟩)
    | restoreOnErr e =>
      simp only [spec] at hne ⊢
      exact Den_restoreOnErr.mpr (ih na e i S hne)
    | choice a b =>
      simp only [spec] at hne ⊢
      cases ha : spec g uni n na a i S with
      | oof => rw [ha] at hne; exact absurd rfl hne
      | ok i' S' => exact Den_choice.mpr (.inl ⟨i', S', ih.eq ha nofun, rfl⟩)
      | fail =>
        rw [ha] at hne
        exact Den_choice.mpr (.inr ⟨ih.eq ha nofun, ih na b i S hne⟩)
    | seq a b =>
      simp only [spec] at hne ⊢
      cases ha : spec g uni n na a i S with
      | oof => rw [ha] at hne; exact absurd rfl hne
      | fail => exact Den_seq.mpr (.inl ⟨ih.eq ha nofun, rfl⟩)
      | ok i1 S1 =>
        rw [ha] at hne
        simp only [] at hne ⊢
        cases na with
        | false =>
          simp only [Bool.false_eq_true, if_false] at hne ⊢
          exact Den_seq.mpr (.inr ⟨i1, S1, i1, S1, ih.eq ha nofun, DenSkipIf_false.mpr rfl, ih false b i1 S1 hne⟩)
        | true =>
          simp only [if_true] at hne ⊢
          cases hs : specSkip (spec g uni n false) (g.defines "WHITESPACE") (g.defines "COMMENT")
              (atomicBudget n) i1 S1 with
          | oof => rw [hs] at hne; exact absurd rfl hne
          | fail => exact absurd hs (specSkip_ne_fail _ _ _ _ _ _)
          | ok i2 S2 =>
            rw [hs] at hne
            have hsk := ih.skip hW hC (atomicBudget n) i1 S1 (by rw [hs]; nofun)
            rw [hs] at hsk
            exact Den_seq.mpr (.inr ⟨i1, S1, i2, S2, ih.eq ha nofun, DenSkipIf_true.mpr hsk, ih true b i2 S2 hne⟩)
    | rep e => simp only [spec] at hne ⊢; exact Den_rep.mpr (ih.repWith hW hC na e _ _ i S hne)
    | repOnce e => simp only [spec] at hne ⊢; exact Den_repOnce.mpr (ih.repWith hW hC na e _ _ i S hne)
    | repExact e k => simp only [spec] at hne ⊢; exact Den_repExact.mpr (ih.repWith hW hC na e _ _ i S hne)
    | repMin e k => simp only [spec] at hne ⊢; exact Den_repMin.mpr (ih.repWith hW hC na e _ _ i S hne)
    | repMax e k => simp only [spec] at hne ⊢; exact Den_repMax.mpr (ih.repWith hW hC na e _ _ i S hne)
    | repMinMax e k l => simp only [spec] at hne ⊢; exact Den_repMinMax.mpr (ih.repWith hW hC na e _ _ i S hne)

/-- Denotations transfer along `RulesSim`. -/
theorem RulesSim.den (h : RulesSim g g' uni) {na : Bool} {e : PExpr} {i : Inp} {S : List Sp} {r : SR}
    (hd : Den g uni na e i S r) : Den g' uni na e i S r := by
  obtain ⟨hr, n, hn⟩ := hd
  exact (spec_sim h n).eq hn hr

/-- Two-way rule simulation gives equivalence of every expression across the two grammars. -/
theorem SpecEquiv.of_rulesSim (h : RulesSim g g' uni) (h' : RulesSim g' g uni) (na : Bool) (e : PExpr) :
    SpecEquiv g g' uni na e e := fun _ _ _ => ⟨h.den, h'.den⟩

theorem SkipEquiv.of_rulesSim (h : RulesSim g g' uni) (h' : RulesSim g' g uni) : SkipEquiv g g' uni :=
  SkipEquiv.of_rules (h.defines _) (h.defines _) (SpecEquiv.of_rulesSim h h' _ _) (SpecEquiv.of_rulesSim h h' _ _)

end Sim

/-- Rewrite every rule body: rule `r` gets the body `F r` (name and kind unchanged). -/
def PGrammar.mapBodies (F : PRule → PExpr) (g : PGrammar) : PGrammar :=
  g.map fun r => { r with expr := F r }

theorem PGrammar.find?_mapBodies (F : PRule → PExpr) (g : PGrammar) (name : String) :
    (g.mapBodies F).find? name = (g.find? name).map fun r => { r with expr := F r } :=
  PGrammar.find?_map (f := fun r => { r with expr := F r }) (fun _ => rfl) g name

/-- **Grammar-level congruence.**  Rewrite every rule body `r.expr` of `g` to `F r`.  If, for every rule
and for the atomicity its body runs under, the new body is equivalent to the old one both in the old
grammar's semantics and in the new grammar's semantics, then every expression means the same in the
two grammars.  (The `g`-side hypothesis gives `g' ⟶ g`, the `g'`-side one gives `g ⟶ g'`; the `g'`-side
hypothesis is what excludes rewrites that are only sound w.r.t. the old rules, e.g. `a = "x"` to
`a = a | "x"`, which diverges in `g'`.) -/
theorem spec_grammar_congr (g : PGrammar) (uni : Uni) (F : PRule → PExpr)
    (h : ∀ r ∈ g, ∀ na, SpecEquiv g g uni (bodyNa r.name r.kind na) r.expr (F r) ∧
      SpecEquiv (g.mapBodies F) (g.mapBodies F) uni (bodyNa r.name r.kind na) r.expr (F r)) :
    ∀ na e, SpecEquiv g (g.mapBodies F) uni na e e := by
  have h1 : RulesSim g (g.mapBodies F) uni := by
    refine ⟨?_, ?_⟩
    · intro name hf
      rw [PGrammar.find?_mapBodies, hf]; rfl
    · intro name rl hf
      refine ⟨{ rl with expr := F rl }, by rw [PGrammar.find?_mapBodies, hf]; rfl, rfl, ?_⟩
      intro na i S r hd
      obtain ⟨hn, hm, _⟩ := PGrammar.find?_some hf
      have := (h rl hm na).2 i S r
      rw [hn] at this
      exact this.mp hd
  have h2 : RulesSim (g.mapBodies F) g uni := by
    refine ⟨?_, ?_⟩
    · intro name hf
      rw [PGrammar.find?_mapBodies] at hf
      cases hg : g.find? name with
      | none => rfl
      | some rl => rw [hg] at hf; cases hf
    · intro name rl' hf
      rw [PGrammar.find?_mapBodies] at hf
      cases hg : g.find? name with
      | none => rw [hg] at hf; cases hf
      | some rl =>
        rw [hg] at hf
        simp only [Option.map_some] at hf
        injection hf with hf
        subst hf
        refine ⟨rl, rfl, rfl, ?_⟩
        intro na i S r hd
        obtain ⟨hn, hm, _⟩ := PGrammar.find?_some hg
        have := (h rl hm na).1 i S r
        rw [hn] at this
        exact this.mpr hd
  exact SpecEquiv.of_rulesSim h1 h2

/-- Consequence: each old body in `g` is equivalent to its new body in the new grammar. -/
theorem spec_grammar_congr_rule (g : PGrammar) (uni : Uni) (F : PRule → PExpr)
    (h : ∀ r ∈ g, ∀ na, SpecEquiv g g uni (bodyNa r.name r.kind na) r.expr (F r) ∧
      SpecEquiv (g.mapBodies F) (g.mapBodies F) uni (bodyNa r.name r.kind na) r.expr (F r))
    {r : PRule} (hr : r ∈ g) (na : Bool) :
    SpecEquiv g (g.mapBodies F) uni (bodyNa r.name r.kind na) r.expr (F r) :=
  (spec_grammar_congr g uni F h _ _).trans (h r hr na).2

/-- Consequence: the implicit skips agree. -/
theorem spec_grammar_congr_skip (g : PGrammar) (uni : Uni) (F : PRule → PExpr)
    (h : ∀ r ∈ g, ∀ na, SpecEquiv g g uni (bodyNa r.name r.kind na) r.expr (F r) ∧
      SpecEquiv (g.mapBodies F) (g.mapBodies F) uni (bodyNa r.name r.kind na) r.expr (F r)) :
    SkipEquiv g (g.mapBodies F) uni := by
  have hd : ∀ name, (g.mapBodies F).defines name = g.defines name := by
    intro name
    rw [PGrammar.defines_eq_find?, PGrammar.defines_eq_find?, PGrammar.find?_mapBodies]
    cases g.find? name <;> rfl
  exact SkipEquiv.of_rules (hd _) (hd _) (spec_grammar_congr g uni F h _ _) (spec_grammar_congr g uni F h _ _)

/-- Consequence for whole parses: definite answers of `specPartial` agree, whatever the fuels. -/
theorem spec_grammar_congr_partial (g : PGrammar) (uni : Uni) (F : PRule → PExpr)
    (h : ∀ r ∈ g, ∀ na, SpecEquiv g g uni (bodyNa r.name r.kind na) r.expr (F r) ∧
      SpecEquiv (g.mapBodies F) (g.mapBodies F) uni (bodyNa r.name r.kind na) r.expr (F r))
    (n m : Nat) (name : String) (i : Inp) (hn : specPartial g uni n name i ≠ .oof)
    (hm : specPartial (g.mapBodies F) uni m name i ≠ .oof) :
    specPartial g uni n name i = specPartial (g.mapBodies F) uni m name i :=
  (spec_grammar_congr g uni F h true (.ident name)).agree n m i [] hn hm

/-- Special case for *grammar-independent* local rewrites (the usual situation for an optimizer pass:
`e ↦ F e` is sound whatever the rules mean): both hypotheses of `spec_grammar_congr` hold. -/
theorem spec_grammar_congr_of_forall (g : PGrammar) (uni : Uni) (F : PRule → PExpr)
    (h : ∀ r ∈ g, ∀ (G : PGrammar) (na : Bool), SpecEquiv G G uni na r.expr (F r)) :
    ∀ na e, SpecEquiv g (g.mapBodies F) uni na e e :=
  spec_grammar_congr g uni F (fun r hr na => ⟨h r hr g _, h r hr _ _⟩)

/-! ## 7. Non-vacuity -/

namespace SpecDen.Ex

def uni0 : Uni := fun _ _ => false

/-- `s = a ~ a*`, `a = "x"`, `WHITESPACE = " "`. -/
def g1 : PGrammar :=
  [⟨"a", .normal, .str ['x']⟩, ⟨"WHITESPACE", .normal, .str [' ']⟩,
   ⟨"s", .normal, .seq (.ident "a") (.rep (.ident "a"))⟩]

def inp (s : List Char) : Inp := ⟨0, 0, s, []⟩

/-- `x x` with skipping: the whole input is consumed. -/
example : Den g1 uni0 true (.ident "s") (inp ['x', ' ', 'x']) [] (.ok ⟨0, 3, [], []⟩ []) :=
  Den.of_spec (n := 6) (by decide) nofun

/-- atomically the blank is not skipped: only the first `x` is consumed. -/
example : Den g1 uni0 false (.ident "s") (inp ['x', ' ', 'x']) [] (.ok ⟨0, 1, [' ', 'x'], []⟩ []) :=
  Den.of_spec (n := 6) (by decide) nofun

example : Den g1 uni0 true (.ident "s") (inp ['y']) [] .fail :=
  Den.of_spec (n := 4) (by decide) nofun

/-- the skip relation: two blanks are skipped. -/
example : DenSkip g1 uni0 (inp [' ', ' ', 'x']) [] (.ok ⟨0, 2, ['x'], []⟩ []) :=
  DenSkip.of_spec (n := 2) (b := 3) (by decide) nofun

/-- `SpecEquiv` is not trivially true: `"x"` and `"y"` are inequivalent. -/
example : ¬ SpecEquiv g1 g1 uni0 false (.str ['x']) (.str ['y']) := fun h =>
  absurd (h.agree 1 1 (inp ['x']) [] (by decide) (by decide)) (by decide)

/-- `Den` is partial: a left-recursive rule has no definite answer. -/
def g2 : PGrammar := [⟨"l", .normal, .choice (.ident "l") (.str ['x'])⟩]

theorem g2_oof : ∀ n, (∀ na i S, spec g2 uni0 n na (.ident "l") i S = .oof) ∧
    (∀ na i S, spec g2 uni0 n na (.choice (.ident "l") (.str ['x'])) i S = .oof) := by
  intro n
  induction n with
  | zero => exact ⟨fun _ _ _ => rfl, fun _ _ _ => rfl⟩
  | succ n ih =>
    have hf : g2.find? "l" = some ⟨"l", .normal, .choice (.ident "l") (.str ['x'])⟩ := rfl
    refine ⟨fun na i S => ?_, fun na i S => ?_⟩
    · simp only [spec, hf]; exact ih.2 _ _ _
    · simp only [spec, ih.1]

example (na : Bool) (i : Inp) (S : List Sp) (r : SR) : ¬ Den g2 uni0 na (.ident "l") i S r := by
  rintro ⟨hr, n, hn⟩
  rw [(g2_oof n).1] at hn
  exact hr hn.symm

/-- hence the unsound rewrite `l = "x"` to `l = l | "x"` violates the `g'`-side hypothesis of
`spec_grammar_congr` (here `g2` plays the role of `g'`), although it satisfies the `g`-side one. -/
example : ¬ SpecEquiv g2 g2 uni0 false (.str ['x']) (.choice (.ident "l") (.str ['x'])) := by
  intro h
  have h1 : Den g2 uni0 false (.str ['x']) (inp ['x']) [] (.ok ⟨0, 1, [], []⟩ []) :=
    Den.of_spec (n := 1) (by decide) nofun
  obtain ⟨hr, n, hn⟩ := (h _ _ _).mp h1
  rw [(g2_oof n).2] at hn
  exact absurd hn nofun

/-- congruence in action: `RestoreOnErr` wrappers disappear under any context. -/
example (e : PExpr) (na : Bool) :
    SpecEquiv g1 g1 uni0 na (.seq (.restoreOnErr e) (.rep (.restoreOnErr e))) (.seq e (.rep e)) :=
  SpecEquiv.seq_same (SpecEquiv.restoreOnErr_elim _ _ _ _)
    (SpecEquiv.rep (SkipEquiv.refl _ _) (SpecEquiv.restoreOnErr_elim _ _ _ _))

/-- `spec_grammar_congr` has satisfiable hypotheses for every grammar: wrapping every rule body in
`RestoreOnErr` preserves the meaning of every expression. -/
example (g : PGrammar) (uni : Uni) (na : Bool) (e : PExpr) :
    SpecEquiv g (g.mapBodies fun r => .restoreOnErr r.expr) uni na e e :=
  spec_grammar_congr g uni _ (fun r _ na =>
    ⟨(SpecEquiv.restoreOnErr_elim _ _ _ _).symm, (SpecEquiv.restoreOnErr_elim _ _ _ _).symm⟩) na e

/-- a concrete instance, computed: the rewritten grammar parses `x x` to the same answer. -/
example : spec (g1.mapBodies fun r => .restoreOnErr r.expr) uni0 8 true (.ident "s") (inp ['x', ' ', 'x']) []
    = .ok ⟨0, 3, [], []⟩ [] := by decide

end SpecDen.Ex

end PestTyped
