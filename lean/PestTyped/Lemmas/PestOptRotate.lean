/-
Lemmas.PestOptRotate — pest_meta's `rotate` and `concatenate` passes (`Model/PestOpt.lean`:
`rotateExpr`, `concatenateExpr`) preserve the reference semantics `spec` (`SpecEquiv` of
`Lemmas/SpecDen.lean`: same definite answers, up to fuel), in a fixed grammar.

* ROTATE (every flag, every grammar): sequencing and ordered choice are associative
  (`seq_assoc_equiv`, `choice_assoc_equiv`; with implicit skipping both sides of the first are
  `a; skip; b; skip; c`), so folding a left spine to the right (`rotSeq`, `rotChoice`) is sound, and
  so is the top-down traversal (`rotateExpr_equiv`).
* CONCATENATE (`@` rules only; their bodies run with `na = false`): `"a" ~ "b"` is `"ab"` and
  `^"a" ~ ^"b"` is `^"ab"` when nothing is skipped in between (`concatClosure_equiv`,
  `concatenateExpr_equiv`, `concatenateExpr_equiv_body`).  With skipping on the rewrite is unsound as
  soon as the grammar defines WHITESPACE (`concat_not_sound_nonatomic`), which is why pest_meta applies
  it to atomic rules only.
-/
import PestTyped.Lemmas.PestOptTraversal
import PestTyped.Lemmas.GenOptsLemmas
import PestTyped.Lemmas.L0
namespace PestTyped

/-! ## 1. rotate -/

section Rotate
variable {g : PGrammar} {uni : Uni} {na : Bool}

/-- Sequencing is associative (under `na = true`: `a; skip; b; skip; c` on both sides). -/
theorem seq_assoc_equiv {a b c : PExpr} :
    SpecEquiv g g uni na (.seq (.seq a b) c) (.seq a (.seq b c)) := by
  intro i S r
  constructor
  · intro h
    rcases Den_seq.mp h with ⟨hab, rfl⟩ | ⟨i1, S1, i2, S2, hab, hs2, hc⟩
    · rcases Den_seq.mp hab with ⟨ha, _⟩ | ⟨j1, T1, j2, T2, ha, hs, hb⟩
      · exact Den_seq.mpr (.inl ⟨ha, rfl⟩)
      · exact Den_seq.mpr (.inr ⟨j1, T1, j2, T2, ha, hs, Den_seq.mpr (.inl ⟨hb, rfl⟩)⟩)
    · rcases Den_seq.mp hab with ⟨_, h⟩ | ⟨j1, T1, j2, T2, ha, hs, hb⟩
      · cases h
      · exact Den_seq.mpr (.inr ⟨j1, T1, j2, T2, ha, hs, Den_seq.mpr (.inr ⟨i1, S1, i2, S2, hb, hs2, hc⟩)⟩)
  · intro h
    rcases Den_seq.mp h with ⟨ha, rfl⟩ | ⟨j1, T1, j2, T2, ha, hs, hbc⟩
    · exact Den_seq.mpr (.inl ⟨Den_seq.mpr (.inl ⟨ha, rfl⟩), rfl⟩)
    · rcases Den_seq.mp hbc with ⟨hb, rfl⟩ | ⟨i1, S1, i2, S2, hb, hs2, hc⟩
      · exact Den_seq.mpr (.inl ⟨Den_seq.mpr (.inr ⟨j1, T1, j2, T2, ha, hs, hb⟩), rfl⟩)
      · exact Den_seq.mpr (.inr ⟨i1, S1, i2, S2, Den_seq.mpr (.inr ⟨j1, T1, j2, T2, ha, hs, hb⟩), hs2, hc⟩)

/-- Ordered choice is associative. -/
theorem choice_assoc_equiv {a b c : PExpr} :
    SpecEquiv g g uni na (.choice (.choice a b) c) (.choice a (.choice b c)) := by
  intro i S r
  constructor
  · intro h
    rcases Den_choice.mp h with ⟨i', S', hab, rfl⟩ | ⟨hab, hc⟩
    · rcases Den_choice.mp hab with ⟨j, T, ha, h⟩ | ⟨ha, hb⟩
      · exact Den_choice.mpr (.inl ⟨j, T, ha, h⟩)
      · exact Den_choice.mpr (.inr ⟨ha, Den_choice.mpr (.inl ⟨i', S', hb, rfl⟩)⟩)
    · rcases Den_choice.mp hab with ⟨j, T, _, h⟩ | ⟨ha, hb⟩
      · cases h
      · exact Den_choice.mpr (.inr ⟨ha, Den_choice.mpr (.inr ⟨hb, hc⟩)⟩)
  · intro h
    rcases Den_choice.mp h with ⟨i', S', ha, rfl⟩ | ⟨ha, hbc⟩
    · exact Den_choice.mpr (.inl ⟨i', S', Den_choice.mpr (.inl ⟨i', S', ha, rfl⟩), rfl⟩)
    · rcases Den_choice.mp hbc with ⟨i', S', hb, rfl⟩ | ⟨hb, hc⟩
      · exact Den_choice.mpr (.inl ⟨i', S', Den_choice.mpr (.inr ⟨ha, hb⟩), rfl⟩)
      · exact Den_choice.mpr (.inr ⟨Den_choice.mpr (.inr ⟨ha, hb⟩), hc⟩)

/-- `rotate_internal` on a sequence: the left spine folded to the right. -/
theorem rotSeq_equiv (g : PGrammar) (uni : Uni) (na : Bool) :
    ∀ l r, SpecEquiv g g uni na (.seq l r) (rotSeq l r) := by
  intro l
  induction l with
  | seq ll lr ih1 _ =>
    intro r
    rw [rotSeq]
    exact seq_assoc_equiv.trans (ih1 (.seq lr r))
  | _ => intro r; exact SpecEquiv.refl _ _ _ _

/-- `rotate_internal` on a choice. -/
theorem rotChoice_equiv (g : PGrammar) (uni : Uni) (na : Bool) :
    ∀ l r, SpecEquiv g g uni na (.choice l r) (rotChoice l r) := by
  intro l
  induction l with
  | choice ll lr ih1 _ =>
    intro r
    rw [rotChoice]
    exact choice_assoc_equiv.trans (ih1 (.choice lr r))
  | _ => intro r; exact SpecEquiv.refl _ _ _ _

/-- The closure of `rotate` is sound at every node. -/
theorem rotateInternal_equiv : ∀ e, SpecEquiv g g uni na e (rotateInternal e) := by
  intro e
  cases e with
  | seq l r => exact rotSeq_equiv g uni na l r
  | choice l r => exact rotChoice_equiv g uni na l r
  | _ => exact SpecEquiv.refl _ _ _ _

/-- **rotate** preserves the reference semantics (every grammar, both flags). -/
theorem rotateExpr_equiv (g : PGrammar) (uni : Uni) (na : Bool) (e : PExpr) :
    SpecEquiv g g uni na e (rotateExpr e) :=
  mapTopDown_equiv rotateInternal rotateInternal_equiv _ e

end Rotate

/-! ## 2. concatenate -/

/-- `match_string` of an appended literal, as a `bind`. -/
theorem concat_matchString_append (a b : List Char) (i : Inp) :
    i.matchString (a ++ b) = (i.matchString a).bind (Inp.matchString b) := by
  rw [Inp.matchString_append]
  cases i.matchString a <;> rfl

/-- What a successful `match_insensitive` is: a prefix of the remaining text that equals the literal
after ASCII lower-casing (hence has its byte length). -/
theorem concat_matchInsens_some_iff (s : List Char) (i i' : Inp) :
    i.matchInsens s = some i' ↔
      ∃ p, p <+: i.rest ∧ p.map asciiLower = s.map asciiLower ∧ i' = i.adv p.length := by
  constructor
  · intro h
    unfold Inp.matchInsens at h
    split at h
    · next p hp =>
      split at h
      · next heq =>
        injection h with h
        exact ⟨p, takeBytes_prefix _ _ _ hp, beq_iff_eq.mp heq, h.symm⟩
      · cases h
    · cases h
  · rintro ⟨p, hpre, hmap, rfl⟩
    have hbl : blen p = blen s := by
      rw [← blen_map_asciiLower p, hmap, blen_map_asciiLower]
    unfold Inp.matchInsens
    rw [← hbl, takeBytes_of_prefix p _ hpre]
    simp only [hmap, beq_self_eq_true, if_true]

/-- `match_insensitive` of an appended literal. -/
theorem concat_matchInsens_append (a b : List Char) (i : Inp) :
    i.matchInsens (a ++ b) = (i.matchInsens a).bind (Inp.matchInsens b) := by
  apply Option.ext
  intro i'
  rw [Option.bind_eq_some_iff]
  constructor
  · intro h
    obtain ⟨p, hpre, hmap, rfl⟩ := (concat_matchInsens_some_iff _ _ _).mp h
    rw [List.map_append] at hmap
    obtain ⟨p1, p2, rfl, h1, h2⟩ := List.map_eq_append_iff.mp hmap
    obtain ⟨t, ht⟩ := hpre
    have hrest : (i.adv p1.length).rest = p2 ++ t := by
      show i.rest.drop p1.length = p2 ++ t
      rw [← ht, List.append_assoc, List.drop_left]
    refine ⟨i.adv p1.length, (concat_matchInsens_some_iff _ _ _).mpr ⟨p1, ⟨p2 ++ t, by rw [← ht, List.append_assoc]⟩, h1, rfl⟩,
      (concat_matchInsens_some_iff _ _ _).mpr ⟨p2, ⟨t, hrest.symm⟩, h2, ?_⟩⟩
    rw [Inp.adv_adv i _ _ (by rw [← ht]; simp only [List.length_append]; omega), List.length_append]
  · rintro ⟨i1, h1, h2⟩
    obtain ⟨p1, hp1, hm1, rfl⟩ := (concat_matchInsens_some_iff _ _ _).mp h1
    obtain ⟨p2, hp2, hm2, rfl⟩ := (concat_matchInsens_some_iff _ _ _).mp h2
    obtain ⟨t1, ht1⟩ := hp1
    have hrest : (i.adv p1.length).rest = t1 := by
      show i.rest.drop p1.length = t1
      rw [← ht1, List.drop_left]
    rw [hrest] at hp2
    obtain ⟨t2, ht2⟩ := hp2
    refine (concat_matchInsens_some_iff _ _ _).mpr ⟨p1 ++ p2, ⟨t2, by rw [← ht1, ← ht2, List.append_assoc]⟩, ?_, ?_⟩
    · rw [List.map_append, List.map_append, hm1, hm2]
    · rw [Inp.adv_adv i _ _ (by rw [← ht1]; simp only [List.length_append]; omega), List.length_append]

section Concat
variable {g : PGrammar} {uni : Uni}

/-- An atomic sequence of two leaves that succeed or fail through `fa`, `fb` is their `bind`. -/
theorem concat_leaf_seq {A B : PExpr} {fa fb : Inp → Option Inp}
    (hA : ∀ i S r, Den g uni false A i S r ↔
      (∃ i', fa i = some i' ∧ r = .ok i' S) ∨ (fa i = none ∧ r = .fail))
    (hB : ∀ i S r, Den g uni false B i S r ↔
      (∃ i', fb i = some i' ∧ r = .ok i' S) ∨ (fb i = none ∧ r = .fail))
    (i : Inp) (S : List Sp) (r : SR) :
    Den g uni false (.seq A B) i S r ↔
      (∃ i', (fa i).bind fb = some i' ∧ r = .ok i' S) ∨ ((fa i).bind fb = none ∧ r = .fail) := by
  rw [Den_seq_atomic]
  cases ha : fa i with
  | none =>
    change _ ↔ (∃ i', none = some i' ∧ r = .ok i' S) ∨ (none = none ∧ r = .fail)
    constructor
    · rintro (⟨_, rfl⟩ | ⟨i1, S1, h1, _⟩)
      · exact .inr ⟨rfl, rfl⟩
      · rcases (hA _ _ _).mp h1 with ⟨i', h, _⟩ | ⟨_, h⟩
        · rw [ha] at h; cases h
        · cases h
    · rintro (⟨i', h, _⟩ | ⟨_, rfl⟩)
      · cases h
      · exact .inl ⟨(hA _ _ _).mpr (.inr ⟨ha, rfl⟩), rfl⟩
  | some i1 =>
    have hA1 : Den g uni false A i S (.ok i1 S) := (hA _ _ _).mpr (.inl ⟨i1, ha, rfl⟩)
    change _ ↔ (∃ i', fb i1 = some i' ∧ r = .ok i' S) ∨ (fb i1 = none ∧ r = .fail)
    rw [← hB]
    constructor
    · rintro (⟨h, _⟩ | ⟨j, T, h1, h2⟩)
      · exact absurd (Den.det h hA1) nofun
      · have := Den.det h1 hA1
        injection this with e1 e2
        subst e1; subst e2
        exact h2
    · intro h
      exact .inr ⟨i1, S, hA1, h⟩

/-- Two adjacent literals of an atomic sequence are the appended literal. -/
theorem concat_str_equiv (a b : List Char) :
    SpecEquiv g g uni false (.seq (.str a) (.str b)) (.str (a ++ b)) := by
  intro i S r
  rw [Den_str, concat_matchString_append]
  exact concat_leaf_seq (fun _ _ _ => Den_str) (fun _ _ _ => Den_str) i S r

/-- The same for case-insensitive literals. -/
theorem concat_insens_equiv (a b : List Char) :
    SpecEquiv g g uni false (.seq (.insens a) (.insens b)) (.insens (a ++ b)) := by
  intro i S r
  rw [Den_insens, concat_matchInsens_append]
  exact concat_leaf_seq (fun _ _ _ => Den_insens) (fun _ _ _ => Den_insens) i S r

/-- The closure of `concatenate` is sound at every node of an atomic context. -/
theorem concatClosure_equiv : ∀ e, SpecEquiv g g uni false e (concatClosure e) := by
  intro e
  unfold concatClosure
  split
  · exact concat_str_equiv _ _
  · exact concat_insens_equiv _ _
  · exact SpecEquiv.refl _ _ _ _

/-- **concatenate** preserves the reference semantics of an atomic context. -/
theorem concatenateExpr_equiv (g : PGrammar) (uni : Uni) (kind : RuleKind) (e : PExpr) :
    SpecEquiv g g uni false e (concatenateExpr kind e) := by
  unfold concatenateExpr
  split
  · exact mapBottomUp_equiv concatClosure concatClosure_equiv e
  · exact SpecEquiv.refl _ _ _ _

/-- … under the flag the body of a rule of kind `kind` runs with, whatever the caller's flag. -/
theorem concatenateExpr_equiv_body (g : PGrammar) (uni : Uni) (name : String) (kind : RuleKind) (na : Bool)
    (e : PExpr) : SpecEquiv g g uni (bodyNa name kind na) e (concatenateExpr kind e) := by
  by_cases hk : kind = .atomic
  · subst hk
    have : bodyNa name .atomic na = false := by
      unfold bodyNa; split <;> rfl
    rw [this]
    exact concatenateExpr_equiv g uni .atomic e
  · unfold concatenateExpr
    rw [if_neg hk]
    exact SpecEquiv.refl _ _ _ _

end Concat

/-! ## 3. Non-vacuity and the counterexample -/

namespace PestOptRotate.Ex

def uni0 : Uni := fun _ _ => false

/-- `WHITESPACE = { " " }`. -/
def g0 : PGrammar := [⟨"WHITESPACE", .normal, .str [' ']⟩]

def inp (s : List Char) : Inp := ⟨0, 0, s, []⟩

/-- `(("a" ~ "b") ~ "c") ~ "d"` -/
def e4 : PExpr := .seq (.seq (.seq (.str ['a']) (.str ['b'])) (.str ['c'])) (.str ['d'])

example : rotateExpr e4 = .seq (.str ['a']) (.seq (.str ['b']) (.seq (.str ['c']) (.str ['d']))) := by decide

example (g : PGrammar) (uni : Uni) (na : Bool) :
    SpecEquiv g g uni na e4 (.seq (.str ['a']) (.seq (.str ['b']) (.seq (.str ['c']) (.str ['d'])))) :=
  rotateExpr_equiv g uni na e4

/-- both sides really parse `a b c d` with skipping (the equivalence is not between two failures). -/
example : spec g0 uni0 6 true e4 (inp ['a', ' ', 'b', 'c', ' ', 'd']) [] = .ok ⟨0, 6, [], []⟩ [] := by decide
example : spec g0 uni0 6 true (rotateExpr e4) (inp ['a', ' ', 'b', 'c', ' ', 'd']) [] = .ok ⟨0, 6, [], []⟩ [] := by
  decide

/-- `(("a" | "b") | "c")` -/
example : rotateExpr (.choice (.choice (.str ['a']) (.str ['b'])) (.str ['c']))
    = .choice (.str ['a']) (.choice (.str ['b']) (.str ['c'])) := by decide

/-- concatenate in an atomic rule: `("a" ~ "b") ~ ^"c" ~ ^"d"` after rotation. -/
example : concatenateExpr .atomic (.seq (.seq (.str ['a']) (.str ['b'])) (.seq (.insens ['c']) (.insens ['D'])))
    = .seq (.str ['a', 'b']) (.insens ['c', 'D']) := by decide

example : concatenateExpr .normal (.seq (.str ['a']) (.str ['b'])) = .seq (.str ['a']) (.str ['b']) := by decide

example (g : PGrammar) (uni : Uni) :
    SpecEquiv g g uni false (.seq (.seq (.str ['a']) (.str ['b'])) (.seq (.insens ['c']) (.insens ['D'])))
      (.seq (.str ['a', 'b']) (.insens ['c', 'D'])) :=
  concatenateExpr_equiv g uni .atomic _

example : spec g0 uni0 3 false (.seq (.str ['a', 'b']) (.insens ['c', 'D'])) (inp ['a', 'b', 'C', 'd']) []
    = .ok ⟨0, 4, [], []⟩ [] := by decide

end PestOptRotate.Ex

open PestOptRotate.Ex in
/-- The restriction of `concatenate` to `na = false` is necessary: with `WHITESPACE = { " " }`,
`"a" ~ "b"` matches `a b` under implicit skipping and `"ab"` does not. -/
theorem concat_not_sound_nonatomic :
    ¬ SpecEquiv g0 g0 uni0 true (.seq (.str ['a']) (.str ['b'])) (.str ['a', 'b']) := fun h =>
  absurd (h.agree 4 1 (inp ['a', ' ', 'b']) [] (by decide) (by decide)) (by decide)

end PestTyped
