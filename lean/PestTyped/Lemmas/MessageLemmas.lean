/-
Lemmas.MessageLemmas — `Tracker::collect_to_message` / `Tracker::collect` (Model/Message.lean) on a
position that is a character boundary of the text: no panic, and the closed form of the result (the
first line is the text of the line up to the column, `line_remained_index` being the byte offset of
the column inside the line).
-/
import PestTyped.Model.Message
import PestTyped.Lemmas.TextPosition
namespace PestTyped
namespace Message
open Text

theorem length_charIndicesFrom (o : Nat) (s : List Char) : (charIndicesFrom o s).length = s.length := by
  induction s generalizing o with
  | nil => rfl
  | cons c cs ih => simp [charIndicesFrom, ih]

/-- `char_indices().nth(col - 1)` with `col - 1` = the number of characters of `a`: the offset of the
first character after `a`, or `unwrap_or(len)` when there is none.  Either way `blen a`. -/
theorem lineRemainedIndex_split (a b : List Char) : lineRemainedIndex (a ++ b) (1 + a.length) = blen a := by
  unfold lineRemainedIndex charIndices
  rw [charIndicesFrom_append, Nat.add_sub_cancel_left,
    List.getElem?_append_right (by rw [length_charIndicesFrom]; exact Nat.le_refl _),
    length_charIndicesFrom, Nat.sub_self]
  cases b with
  | nil => simp [charIndicesFrom]
  | cons c cs => simp [charIndicesFrom]

/-- The blocks after the first line. -/
def body (ruleName : RuleId → List Char) (line : Nat) (t : Tracker) : List Char :=
  ((sortEntries t.attempts).map
    (writeMessage ruleName ('\n' :: List.replicate ((natStr line).length + 3) ' '))).flatten

/-- `collect_to_message` at a boundary `text = pre ++ suf`, `position = blen pre`. -/
theorem collectToMessage_of_split (ruleName : RuleId → List Char) (pre suf : List Char) (t : Tracker)
    (h : t.position = blen pre) :
    collectToMessage ruleName (pre ++ suf) t =
      .ok (afterLastLF pre ++ "^---".toList ++ body ruleName (1 + pre.count '\n') t) := by
  unfold collectToMessage
  rw [h, lineCol_of_split, lineOf_of_split]
  simp only []
  rw [lineRemainedIndex_split, takeBytes_append]
  rfl

theorem newFromPos_of_split (pre suf : List Char) :
    newFromPos (pre ++ suf) (blen pre) = .ok (1 + pre.count '\n', 1 + (afterLastLF pre).length) := by
  unfold newFromPos
  rw [lineOf_of_split, lineCol_of_split]

/-- `collect` at a boundary: the `Position::new` re-validation succeeds, nothing panics. -/
theorem collect_of_split (ruleName : RuleId → List Char) (pre suf : List Char) (t : Tracker)
    (h : t.position = blen pre) :
    collect ruleName (pre ++ suf) t =
      .ok (afterLastLF pre ++ "^---".toList ++ body ruleName (1 + pre.count '\n') t,
        (1 + pre.count '\n', 1 + (afterLastLF pre).length)) := by
  unfold collect posNew
  rw [h, dropBytes_append]
  simp only [Option.map]
  rw [collectToMessage_of_split ruleName pre suf t h, newFromPos_of_split]

/-- Off a boundary `collect_to_message` panics (in `line_col`): the hypothesis of the theorems
above is needed. -/
theorem collectToMessage_panic_of_not_boundary (ruleName : RuleId → List Char) (text : List Char) (t : Tracker)
    (h : ¬ IsBoundary text t.position) : collectToMessage ruleName text t = .panic := by
  unfold collectToMessage
  rw [(lineCol_panic_iff text t.position).mpr h]

end Message
end PestTyped
