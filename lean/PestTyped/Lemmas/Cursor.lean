/-
Lemmas.Cursor — spine lemma S2 (cursor discipline): a successful run only ever moves the cursor
forward over whole characters of the remaining text; `start` and `after` never change.
-/
import PestTyped.Model.Run
namespace PestTyped

theorem blen_append (a b : List Char) : blen (a ++ b) = blen a + blen b := by
  induction a with
  | nil => simp [blen]
  | cons c cs ih => simp [blen, ih]; omega

/-- `i'` is `i` advanced over `k` characters of its remaining text. -/
def Inp.Adv (i i' : Inp) : Prop := ∃ k, k ≤ i.rest.length ∧ i' = i.adv k

theorem Inp.adv_zero (i : Inp) : i.adv 0 = i := by
  cases i; simp [Inp.adv, blen]

theorem Inp.adv_adv (i : Inp) (a b : Nat) (ha : a ≤ i.rest.length) : (i.adv a).adv b = i.adv (a + b) := by
  cases i with
  | mk start pos rest after =>
    simp only [Inp.adv, List.drop_drop, Inp.mk.injEq, true_and, and_true]
    have : List.take (a + b) rest = List.take a rest ++ List.take b (List.drop a rest) := by
      rw [List.take_add]
    rw [this, blen_append]; omega

theorem Inp.Adv.refl (i : Inp) : i.Adv i := ⟨0, Nat.zero_le _, (Inp.adv_zero i).symm⟩

theorem Inp.Adv.trans {a b c : Inp} (h1 : a.Adv b) (h2 : b.Adv c) : a.Adv c := by
  obtain ⟨k1, hk1, rfl⟩ := h1
  obtain ⟨k2, hk2, rfl⟩ := h2
  refine ⟨k1 + k2, ?_, Inp.adv_adv a k1 k2 hk1⟩
  simp [Inp.adv] at hk2; omega

theorem Inp.Adv.start_eq {i i' : Inp} (h : i.Adv i') : i'.start = i.start := by
  obtain ⟨k, _, rfl⟩ := h; rfl
theorem Inp.Adv.after_eq {i i' : Inp} (h : i.Adv i') : i'.after = i.after := by
  obtain ⟨k, _, rfl⟩ := h; rfl
theorem Inp.Adv.pos_le {i i' : Inp} (h : i.Adv i') : i.pos ≤ i'.pos := by
  obtain ⟨k, _, rfl⟩ := h; simp [Inp.adv]
theorem Inp.Adv.endPos_eq {i i' : Inp} (h : i.Adv i') : i'.endPos = i.endPos := by
  obtain ⟨k, hk, rfl⟩ := h
  simp only [Inp.endPos, Inp.adv]
  have : blen i.rest = blen (i.rest.take k) + blen (i.rest.drop k) := by
    rw [← blen_append, List.take_append_drop]
  omega
theorem Inp.Adv.pos_le_end {i i' : Inp} (h : i.Adv i') : i'.pos ≤ i.endPos := by
  rw [← h.endPos_eq]; simp [Inp.endPos]
/-- The new cursor is the old one plus the byte length of a character prefix of the remaining
text: it sits on a character boundary whenever the old one did. -/
theorem Inp.Adv.boundary {i i' : Inp} (h : i.Adv i') :
    ∃ p s, i.rest = p ++ s ∧ i'.rest = s ∧ i'.pos = i.pos + blen p := by
  obtain ⟨k, _, rfl⟩ := h
  exact ⟨i.rest.take k, i.rest.drop k, (List.take_append_drop k i.rest).symm, rfl, rfl⟩

/-! ### primitives -/

theorem Inp.matchString_adv {s : List Char} {i i' : Inp} (h : i.matchString s = some i') : i.Adv i' := by
  unfold Inp.matchString at h
  split at h
  · next hp =>
    injection h with h; subst h
    refine ⟨s.length, ?_, rfl⟩
    exact (List.isPrefixOf_iff_prefix.mp hp).length_le
  · cases h

theorem takeBytes_prefix : ∀ (n : Nat) (l p : List Char), takeBytes n l = some p → p <+: l := by
  intro n l
  induction l generalizing n with
  | nil => intro p h; simp [takeBytes] at h; obtain ⟨_, rfl⟩ := h; exact List.prefix_refl _
  | cons c cs ih =>
    intro p h
    unfold takeBytes at h
    split at h
    · injection h with h; subst h; exact List.nil_prefix
    · split at h
      · cases hr : takeBytes (n - c.utf8Size) cs with
        | none => simp [hr] at h
        | some q =>
          simp [hr] at h; subst h
          exact List.cons_prefix_cons.mpr ⟨rfl, ih _ _ hr⟩
      · cases h

theorem Inp.matchInsens_adv {s : List Char} {i i' : Inp} (h : i.matchInsens s = some i') : i.Adv i' := by
  unfold Inp.matchInsens at h
  split at h
  · next p hp =>
    split at h
    · injection h with h; subst h
      exact ⟨p.length, (takeBytes_prefix _ _ _ hp).length_le, rfl⟩
    · cases h
  · cases h

theorem Inp.matchCharBy_adv {p : Char → Bool} {i i' : Inp} {c : Char}
    (h : i.matchCharBy p = some (i', c)) : i.Adv i' := by
  unfold Inp.matchCharBy at h
  split at h
  · cases h
  · next c' cs hr =>
    split at h
    · injection h with h; injection h with h1 h2; subst h1
      exact ⟨1, by simp [hr], rfl⟩
    · cases h

theorem Inp.matchRange_adv {lo hi : Char} {i i' : Inp} {c : Char}
    (h : i.matchRange lo hi = some (i', c)) : i.Adv i' := Inp.matchCharBy_adv h

theorem Inp.skipUntilGo_le (needles : List (List Char)) :
    ∀ (l : List Char) (k n : Nat), Inp.skipUntilGo needles l k = some n → k ≤ n ∧ n ≤ k + l.length := by
  intro l
  induction l with
  | nil => intro k n h; simp [Inp.skipUntilGo] at h
  | cons c cs ih =>
    intro k n h
    unfold Inp.skipUntilGo at h
    split at h
    · injection h with h; subst h; simp
    · have := ih _ _ h; simp; omega

theorem Inp.skipUntil_adv (needles : List (List Char)) (i : Inp) : i.Adv (i.skipUntil needles).1 := by
  unfold Inp.skipUntil
  split
  · next k hk => exact ⟨k, by have := Inp.skipUntilGo_le needles _ _ _ hk; omega, rfl⟩
  · exact ⟨i.rest.length, Nat.le_refl _, rfl⟩

theorem Inp.skipN_adv {n : Nat} {i i' : Inp} (h : i.skipN n = some i') : i.Adv i' := by
  unfold Inp.skipN at h
  split at h
  · next hn => injection h with h; subst h; exact ⟨n, hn, rfl⟩
  · cases h

theorem newlineMatch_adv {i i' : Inp} {k : Nat} (h : newlineMatch i = some (i', k)) : i.Adv i' := by
  unfold newlineMatch at h
  split at h
  · next h1 => injection h with h; injection h with h2 _; subst h2; exact Inp.matchString_adv h1
  · split at h
    · next h1 => injection h with h; injection h with h2 _; subst h2; exact Inp.matchString_adv h1
    · split at h
      · next h1 => injection h with h; injection h with h2 _; subst h2; exact Inp.matchString_adv h1
      · cases h

theorem peekSpans_adv : ∀ (sps : List Sp) (i i' : Inp), peekSpans sps i = some i' → i.Adv i' := by
  intro sps
  induction sps with
  | nil => intro i i' h; simp [peekSpans] at h; subst h; exact Inp.Adv.refl _
  | cons sp rest ih =>
    intro i i' h
    unfold peekSpans at h
    split at h
    · next i1 h1 => exact (Inp.matchString_adv h1).trans (ih _ _ h)
    · cases h

end PestTyped
