/-
Lemmas.PestOptTokRotate — pest_meta's `rotate`, `concatenate`, `factor` and `restore_on_err` passes
(`Model/PestOpt.lean`) preserve the TOKEN semantics (`TokEquiv` of `Lemmas/PestOptTokDen.lean`: same
definite answers of `specTok` — verdict, end cursor, final stack AND token list — and same termination), in
a fixed grammar.  Token analogue of `Lemmas/PestOptRotate.lean`, `PestOptFactor.lean`, `PestOptRestore.lean`.

* ROTATE: sequencing is associative also on token lists (`t1 ++ s1 ++ t2 ++ s2 ++ t3` on both sides, the
  tokens of the implicit skips included: `seq_assoc_tequiv`), ordered choice is associative
  (`choice_assoc_tequiv`); `rotateExpr_tequiv`.
* CONCATENATE (atomic context): literals emit no token (`concatenateExpr_tequiv(_body)`).
* FACTOR: the three arms (`factor_common_prefix_tequiv`, `factor_opt_tequiv` in a context without skipping,
  `factor_absorb_tequiv`); `factorExpr_tequiv(_body)`.
* RESTORE: `RestoreOnErr` is transparent (`restoreExpr_tequiv`).
-/
import PestTyped.Lemmas.PestOptTokDen
import PestTyped.Lemmas.PestOptRotate
set_option linter.unusedVariables false
namespace PestTyped

/-! ## combinator algebra -/

theorem STR.andThen_pfx (t : List Token) (r : STR) (k : Inp → List Sp → STR) :
    STR.andThen (STR.pfx t r) k = STR.pfx t (STR.andThen r k) := by
  cases r with
  | oof => rfl
  | fail => rfl
  | ok i S ts => simp only [STR.pfx_ok, STR.andThen_ok, STR.pfx_pfx]

theorem STR.andThen_assoc (r : STR) (k k' : Inp → List Sp → STR) :
    STR.andThen (STR.andThen r k) k' = STR.andThen r fun i S => STR.andThen (k i S) k' := by
  cases r with
  | oof => rfl
  | fail => rfl
  | ok i S ts => simp only [STR.andThen_ok, STR.andThen_pfx]

theorem choiceK_assoc (a b c : STR) : choiceK (choiceK a b) c = choiceK a (choiceK b c) := by
  cases a <;> rfl

theorem choiceK_pfx (t : List Token) (a b : STR) :
    choiceK (STR.pfx t a) (STR.pfx t b) = STR.pfx t (choiceK a b) := by
  cases a <;> rfl

theorem choiceK_andThen (r : STR) (k1 k2 : Inp → List Sp → STR) :
    choiceK (STR.andThen r k1) (STR.andThen r k2) = STR.andThen r fun i S => choiceK (k1 i S) (k2 i S) := by
  cases r with
  | oof => rfl
  | fail => rfl
  | ok i S ts => simp only [STR.andThen_ok, choiceK_pfx]

section Fun
variable {g : PGrammar} {uni : Uni} {am : Atom3}

theorem denT_seq_fun {a b : PExpr} : denT g uni am (.seq a b) = fun i S =>
    STR.andThen (denT g uni am a i S) fun i1 S1 => STR.andThen (denSkipIf g uni am i1 S1) (denT g uni am b) :=
  funext fun _ => funext fun _ => denT_seq

theorem denT_choice_fun {a b : PExpr} : denT g uni am (.choice a b) = fun i S =>
    choiceK (denT g uni am a i S) (denT g uni am b i S) :=
  funext fun _ => funext fun _ => denT_choice

theorem denT_opt_fun {e : PExpr} : denT g uni am (.opt e) = fun i S => optK i S (denT g uni am e i S) :=
  funext fun _ => funext fun _ => denT_opt

end Fun

/-! ## 1. rotate -/

section Rotate
variable {g : PGrammar} {uni : Uni} {am : Atom3}

/-- Sequencing is associative, token lists included. -/
theorem seq_assoc_tequiv {a b c : PExpr} :
    TokEquiv g g uni am (.seq (.seq a b) c) (.seq a (.seq b c)) :=
  .of_forall fun i S => by simp only [denT_seq_fun, STR.andThen_assoc]

/-- Ordered choice is associative. -/
theorem choice_assoc_tequiv {a b c : PExpr} :
    TokEquiv g g uni am (.choice (.choice a b) c) (.choice a (.choice b c)) :=
  .of_forall fun i S => by simp only [denT_choice_fun, choiceK_assoc]

theorem rotSeq_tequiv (g : PGrammar) (uni : Uni) (am : Atom3) :
    ∀ l r, TokEquiv g g uni am (.seq l r) (rotSeq l r) := by
  intro l
  induction l with
  | seq ll lr ih1 _ =>
    intro r
    rw [rotSeq]
    exact seq_assoc_tequiv.trans (ih1 (.seq lr r))
  | _ => intro r; exact TokEquiv.refl _ _ _ _

theorem rotChoice_tequiv (g : PGrammar) (uni : Uni) (am : Atom3) :
    ∀ l r, TokEquiv g g uni am (.choice l r) (rotChoice l r) := by
  intro l
  induction l with
  | choice ll lr ih1 _ =>
    intro r
    rw [rotChoice]
    exact choice_assoc_tequiv.trans (ih1 (.choice lr r))
  | _ => intro r; exact TokEquiv.refl _ _ _ _

theorem rotateInternal_tequiv : ∀ e, TokEquiv g g uni am e (rotateInternal e) := by
  intro e
  cases e with
  | seq l r => exact rotSeq_tequiv g uni am l r
  | choice l r => exact rotChoice_tequiv g uni am l r
  | _ => exact TokEquiv.refl _ _ _ _

/-- **rotate** preserves the token semantics (every grammar, every atomicity). -/
theorem rotateExpr_tequiv (g : PGrammar) (uni : Uni) (am : Atom3) (e : PExpr) :
    TokEquiv g g uni am e (rotateExpr e) :=
  mapTopDown_tequiv rotateInternal rotateInternal_tequiv _ e

end Rotate

/-! ## 2. concatenate -/

section Concat
variable {g : PGrammar} {uni : Uni} {am : Atom3}

theorem concat_str_tequiv (h : am.na = false) (a b : List Char) :
    TokEquiv g g uni am (.seq (.str a) (.str b)) (.str (a ++ b)) :=
  .of_forall fun i S => by
    rw [denT_seq_atomic h, denT_str, denT_str, concat_matchString_append]
    cases i.matchString a with
    | none => rfl
    | some i1 =>
      simp only [STR.andThen_ok, STR.pfx_nil, Option.bind_some]
      rw [denT_str]

theorem concat_insens_tequiv (h : am.na = false) (a b : List Char) :
    TokEquiv g g uni am (.seq (.insens a) (.insens b)) (.insens (a ++ b)) :=
  .of_forall fun i S => by
    rw [denT_seq_atomic h, denT_insens, denT_insens, concat_matchInsens_append]
    cases i.matchInsens a with
    | none => rfl
    | some i1 =>
      simp only [STR.andThen_ok, STR.pfx_nil, Option.bind_some]
      rw [denT_insens]

theorem concatClosure_tequiv (h : am.na = false) : ∀ e, TokEquiv g g uni am e (concatClosure e) := by
  intro e
  unfold concatClosure
  split
  · exact concat_str_tequiv h _ _
  · exact concat_insens_tequiv h _ _
  · exact TokEquiv.refl _ _ _ _

/-- **concatenate** preserves the token semantics of a context without implicit skipping. -/
theorem concatenateExpr_tequiv (g : PGrammar) (uni : Uni) (am : Atom3) (h : am.na = false) (kind : RuleKind)
    (e : PExpr) : TokEquiv g g uni am e (concatenateExpr kind e) := by
  unfold concatenateExpr
  split
  · exact mapBottomUp_tequiv concatClosure (concatClosure_tequiv h) e
  · exact TokEquiv.refl _ _ _ _

/-- … under the atomicity the body of a rule of kind `kind` runs with, whatever the caller's. -/
theorem concatenateExpr_tequiv_body (g : PGrammar) (uni : Uni) (name : String) (kind : RuleKind) (am : Atom3)
    (e : PExpr) : TokEquiv g g uni (bodyAt name kind am) e (concatenateExpr kind e) := by
  by_cases hk : kind = .atomic
  · subst hk
    exact concatenateExpr_tequiv g uni _ rfl .atomic e
  · unfold concatenateExpr
    rw [if_neg hk]
    exact TokEquiv.refl _ _ _ _

end Concat

/-! ## 3. factor -/

section Factor
variable {g : PGrammar} {uni : Uni} {am : Atom3}

/-- Arm (a): `(l ~ r1) | (l ~ r2)  ≡  l ~ (r1 | r2)`. -/
theorem factor_common_prefix_tequiv (g : PGrammar) (uni : Uni) (am : Atom3) (l r1 r2 : PExpr) :
    TokEquiv g g uni am (.choice (.seq l r1) (.seq l r2)) (.seq l (.choice r1 r2)) :=
  .of_forall fun i S => by simp only [denT_choice_fun, denT_seq_fun, choiceK_andThen]

/-- Arm (b): `(l ~ r) | l  ≡  l ~ r?` when no implicit skip is performed between `l` and `r`. -/
theorem factor_opt_tequiv (g : PGrammar) (uni : Uni) (am : Atom3) (h : am.na = false) (l r : PExpr) :
    TokEquiv g g uni am (.choice (.seq l r) l) (.seq l (.opt r)) :=
  .of_forall fun i S => by
    rw [denT_choice, denT_seq_atomic h, denT_seq_atomic h, denT_opt_fun]
    cases denT g uni am l i S with
    | oof => rfl
    | fail => rfl
    | ok i1 S1 t1 =>
      simp only [STR.andThen_ok]
      cases denT g uni am r i1 S1 <;> simp [choiceK, optK, STR.pfx]

/-- Arm (c): `l | (l ~ r)  ≡  l`. -/
theorem factor_absorb_tequiv (g : PGrammar) (uni : Uni) (am : Atom3) (l r : PExpr) :
    TokEquiv g g uni am (.choice l (.seq l r)) l :=
  .of_forall fun i S => by
    rw [denT_choice, denT_seq]
    cases denT g uni am l i S <;> rfl

theorem factorClosure_tequiv (g : PGrammar) (uni : Uni) (kind : RuleKind) (am : Atom3)
    (hna : (kind = .atomic ∨ kind = .compoundAtomic) → am.na = false) :
    ∀ e, TokEquiv g g uni am e (factorClosure kind e) := by
  intro e
  unfold factorClosure
  split
  · split
    · next h => subst h; exact factor_common_prefix_tequiv g uni am _ _ _
    · exact TokEquiv.refl _ _ _ _
  · split
    · next hk =>
      split
      · next h =>
        subst h
        exact factor_opt_tequiv g uni am (hna hk) _ _
      · exact TokEquiv.refl _ _ _ _
    · exact TokEquiv.refl _ _ _ _
  · split
    · next h => subst h; exact factor_absorb_tequiv g uni am _ _
    · exact TokEquiv.refl _ _ _ _
  · exact TokEquiv.refl _ _ _ _

/-- **factor** (top-down traversal) preserves the token semantics. -/
theorem factorExpr_tequiv (g : PGrammar) (uni : Uni) (kind : RuleKind) (am : Atom3)
    (hna : (kind = .atomic ∨ kind = .compoundAtomic) → am.na = false) (e : PExpr) :
    TokEquiv g g uni am e (factorExpr kind e) :=
  mapTopDown_tequiv (factorClosure kind) (factorClosure_tequiv g uni kind am hna) (e.size + 1) e

theorem factorExpr_tequiv_body (g : PGrammar) (uni : Uni) (name : String) (kind : RuleKind) (am : Atom3)
    (e : PExpr) : TokEquiv g g uni (bodyAt name kind am) e (factorExpr kind e) :=
  factorExpr_tequiv g uni kind (bodyAt name kind am)
    (fun hk => by rcases hk with rfl | rfl <;> rfl) e

end Factor

/-! ## 4. restore_on_err -/

section Restore
variable {g : PGrammar} {uni : Uni} {am : Atom3}

theorem restore_wrap_tequiv (g0 : PGrammar) (x : PExpr) : TokEquiv g g uni am x (wrapIfModifies g0 x) := by
  unfold wrapIfModifies
  split
  · exact (TokEquiv.restoreOnErr_elim g uni am x).symm
  · exact TokEquiv.refl _ _ _ _

theorem restoreClosure_tequiv (g0 : PGrammar) : ∀ e, TokEquiv g g uni am e (restoreClosure g0 e) := by
  intro e
  unfold restoreClosure
  split
  · exact TokEquiv.opt (restore_wrap_tequiv g0 _)
  · exact TokEquiv.choice (restore_wrap_tequiv g0 _) (restore_wrap_tequiv g0 _)
  · exact TokEquiv.rep (restore_wrap_tequiv g0 _)
  · exact TokEquiv.refl _ _ _ _

end Restore

/-- **restore_on_err** (whatever rule map `g0` it consults) preserves the token semantics. -/
theorem restoreExpr_tequiv (g g0 : PGrammar) (uni : Uni) (am : Atom3) (e : PExpr) :
    TokEquiv g g uni am e (restoreExpr g0 e) :=
  mapBottomUpOpt_tequiv _ (restoreClosure_tequiv g0) e

end PestTyped
