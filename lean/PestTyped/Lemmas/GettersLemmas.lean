/-
Lemmas.GettersLemmas — everything `Props/C16` rests on.

* `HasShape n lo hi v` ("`v` is a value of type expression `n` occupying `[lo, hi]`": sequences have one
  `Skipped` per element, choices carry `idx < arity` and a value of that alternative, …) and
  `parse_shape`: every successful `parse` returns a well-shaped value (induction on fuel; loops through
  `SeqRun` / `RepRun` / `choiceLoop_ok_iff` of `Lemmas/Choice`);
* the forest as a finite map: `Forest.get?` after `prepend` / `upsert` / `join` (`mergeOpt`), key sets, `Nodup`;
* `GoodAt t v refs` (the path applies, the result has the announced type, its references are `refs`) under
  `merge` and under each edge; `directRefs` equations; `NoRefs` for built-in names; `ident_shape`;
* right spines (`seqSpine`, `choiceSpine`, `spineFold`), `PExpr.spine_induction`;
* the three inductions over expressions: `genGetters_keys` (which accessors exist), `genGetters_good`
  (flatten = directRefs, typed, never stuck), `directRefs_ordered` (order without lookahead);
* `directRefs_sub` (direct references are sub-values) and `evalGetter_projects` (paths are projections).
-/
import PestTyped.Model.Getters
import PestTyped.Lemmas.Choice
namespace PestTyped

/-! ### `HasShape n lo hi v`: `v` is a value of type expression `n` occupying `[lo, hi]`

Positions are byte offsets of the cursor before / after the node ran.  For leaves only "no kids, not
a rule value" is recorded (their content is property C17's business); below a rule value nothing is
recorded (getters and `directRefs` stop there). -/

def Tag.isRule : Tag → Bool
  | .rule _ _ _ _ _ => true
  | _ => false

/-- A leaf value: no kids, and not a rule value. -/
def LeafVal (v : Val) : Prop := ∃ t, v = .mk t [] ∧ t.isRule = false

/-- A `Skipped { skipped, matched }` value whose `matched` part satisfies `P` and ends at `hi`; the
skipped part starts at `lo`. -/
def SkippedAt (P : Nat → Nat → Val → Prop) (lo hi : Nat) (kid : Val) : Prop :=
  ∃ skips w mid, kid = .mk (.skipped skips.length) (skips ++ [w]) ∧ lo ≤ mid ∧ P mid hi w

/-- Iterations of a repetition, one after the other. -/
def Chain (P : Nat → Nat → Val → Prop) : Nat → Nat → List Val → Prop
  | lo, hi, [] => lo = hi
  | lo, hi, kid :: rest => ∃ mid, SkippedAt P lo mid kid ∧ Chain P mid hi rest

mutual
def HasShape : Node → Nat → Nat → Val → Prop
  | .str _, lo, hi, v => LeafVal v ∧ lo ≤ hi
  | .insens _, lo, hi, v => LeafVal v ∧ lo ≤ hi
  | .range _ _, lo, hi, v => LeafVal v ∧ lo ≤ hi
  | .any, lo, hi, v => LeafVal v ∧ lo ≤ hi
  | .soi, lo, hi, v => LeafVal v ∧ lo ≤ hi
  | .eoi, lo, hi, v => LeafVal v ∧ lo ≤ hi
  | .newline, lo, hi, v => LeafVal v ∧ lo ≤ hi
  | .charBy _, lo, hi, v => LeafVal v ∧ lo ≤ hi
  | .skipUntil _, lo, hi, v => LeafVal v ∧ lo ≤ hi
  | .skipChars _, lo, hi, v => LeafVal v ∧ lo ≤ hi
  | .peek, lo, hi, v => LeafVal v ∧ lo ≤ hi
  | .peekAll, lo, hi, v => LeafVal v ∧ lo ≤ hi
  | .pop, lo, hi, v => LeafVal v ∧ lo ≤ hi
  | .popAll, lo, hi, v => LeafVal v ∧ lo ≤ hi
  | .drop, lo, hi, v => LeafVal v ∧ lo ≤ hi
  | .peekSlice _ _, lo, hi, v => LeafVal v ∧ lo ≤ hi
  | .empty, lo, hi, v => LeafVal v ∧ lo ≤ hi
  | .alwaysFail, _, _, _ => False
  | .seq _ items, lo, hi, v => ∃ kids, v = .mk .seq kids ∧ lo ≤ hi ∧ SeqShape items lo hi kids
  | .choice alts, lo, hi, v =>
    ∃ idx w, v = .mk (.choice alts.length idx) [w] ∧ lo ≤ hi ∧ idx < alts.length ∧ AltShape alts idx lo hi w
  | .opt n, lo, hi, v =>
    (v = .mk .optNone [] ∧ lo = hi) ∨ ∃ w, v = .mk .optSome [w] ∧ lo ≤ hi ∧ HasShape n lo hi w
  | .rep _ min max n, lo, hi, v =>
    ∃ kids, v = .mk (.rep min max) kids ∧ lo ≤ hi ∧ Chain (HasShape n) lo hi kids
  | .atomicRepeat _, lo, hi, v => (∃ kids, v = .mk .atomicRepeat kids) ∧ lo ≤ hi
  | .pos n, lo, hi, v => lo = hi ∧ ∃ w hi', v = .mk .pos [w] ∧ HasShape n lo hi' w
  | .neg _, lo, hi, v => v = .mk .neg [] ∧ lo = hi
  | .push n, lo, hi, v => ∃ w, v = .mk .push [w] ∧ lo ≤ hi ∧ HasShape n lo hi w
  | .ref r _, lo, hi, v => ∃ em bx kids, v = .mk (.rule r em bx lo hi) kids ∧ lo ≤ hi
  | .array _ _, lo, hi, v => (∃ kids, v = .mk .array kids) ∧ lo ≤ hi
  | .pair a b, lo, hi, v =>
    ∃ va vb mid, v = .mk .pair [va, vb] ∧ lo ≤ hi ∧ HasShape a lo mid va ∧ HasShape b mid hi vb
/-- The kids of a `SeqN` value: one `Skipped` per element, in order. -/
def SeqShape : List Node → Nat → Nat → List Val → Prop
  | [], lo, hi, kids => kids = [] ∧ lo = hi
  | n :: ns, lo, hi, kids =>
    ∃ kid rest mid, kids = kid :: rest ∧ SkippedAt (HasShape n) lo mid kid ∧ SeqShape ns mid hi rest
/-- The stored alternative of a `ChoiceN` value is a value of alternative number `idx`. -/
def AltShape : List Node → Nat → Nat → Nat → Val → Prop
  | [], _, _, _, _ => False
  | n :: _, 0, lo, hi, w => HasShape n lo hi w
  | _ :: ns, k+1, lo, hi, w => AltShape ns k lo hi w
end

theorem LeafVal.leaf {t : Tag} (h : t.isRule = false) : LeafVal (Val.leaf t) := ⟨t, rfl, h⟩

theorem HasShape.le (n : Node) {lo hi : Nat} {v : Val} (h : HasShape n lo hi v) : lo ≤ hi := by
  cases n <;> simp only [HasShape] at h
  all_goals first
    | exact h.2
    | exact h.elim
    | (obtain ⟨_, _, h1, _⟩ := h; exact h1)
    | (obtain ⟨_, _, _, h1, _⟩ := h; exact h1)
    | (obtain ⟨_, _, _, _, h1, _⟩ := h; exact h1)
    | (rcases h with ⟨_, h1⟩ | ⟨_, _, h1, _⟩ <;> omega)
    | (obtain ⟨h1, _⟩ := h; omega)
    | (obtain ⟨_, _, _, _, h1⟩ := h; exact h1)

/-! ### parse results are well shaped -/

def ShapeFn (f : Inp → M → R Val) (n : Node) : Prop :=
  ∀ i m i' m' v, f i m = .ok i' m' v → HasShape n i.pos i'.pos v

theorem SeqRun.shape {f : Node → Inp → M → R Val} {skip : Inp → M → R (List Val)}
    (hf : ∀ n, ShapeFn (f n) n) (hs : AdvFn skip)
    {ns : List Node} {i i' : Inp} {m m' : M} {l : List Iter}
    (h : SeqRun f skip ns i m l i' m') : SeqShape ns i.pos i'.pos (l.map Iter.val) := by
  induction h with
  | nil => simp [SeqShape]
  | @cons n ns i i1 i2 i' m m1 m2 m' sks v l h1 h2 _ ih =>
    simp only [SeqShape, List.map_cons]
    exact ⟨_, _, i2.pos, rfl, ⟨sks, v, i1.pos, rfl, (hs _ _ _ _ _ h1).pos_le, hf n _ _ _ _ _ h2⟩, ih⟩

theorem RepRun.shape {skip : Inp → M → R (List Val)} {body : Inp → M → R Val} {dflt : List Val}
    {n : Node} (hb : ShapeFn body n) (hs : AdvFn skip)
    {idx : Nat} {i i' : Inp} {m m' : M} {l : List Iter}
    (h : RepRun skip body dflt idx i m l i' m') : Chain (HasShape n) i.pos i'.pos (l.map Iter.val) := by
  induction h with
  | nil => simp [Chain]
  | @first i i1 i' m m1 m' v l h2 _ ih =>
    simp only [Chain, List.map_cons]
    exact ⟨i1.pos, ⟨dflt, v, i.pos, rfl, Nat.le_refl _, hb _ _ _ _ _ h2⟩, ih⟩
  | @next idx i i0 i1 i' m m0 m1 m' sks v l _ h1 h2 _ ih =>
    simp only [Chain, List.map_cons]
    exact ⟨i1.pos, ⟨sks, v, i0.pos, rfl, (hs _ _ _ _ _ h1).pos_le, hb _ _ _ _ _ h2⟩, ih⟩

theorem AltShape.of_index : ∀ (pre : List Node) (n : Node) (post : List Node) (lo hi : Nat) (w : Val),
    HasShape n lo hi w → AltShape (pre ++ n :: post) pre.length lo hi w := by
  intro pre
  induction pre with
  | nil => intro n post lo hi w h; simpa [AltShape] using h
  | cons p pre ih => intro n post lo hi w h; simpa [AltShape] using ih n post lo hi w h

/-- Finish a leaf case. -/
local macro "leaf_done " h:ident hle:ident : tactic =>
  `(tactic| (injection $h with _ _ hv; subst hv; simp only [HasShape]; exact ⟨LeafVal.leaf rfl, $hle⟩))

/-- Every successful parse returns a value of the node's shape, occupying the text between the cursor
before and after. -/
theorem parse_shape (g : NodeGrammar) (uni : Uni) :
    ∀ (n : Nat) (inh : Bool) (node : Node), ShapeFn (parse g uni n inh node) node := by
  intro n
  induction n with
  | zero => intro inh node i m i' m' a h; simp [parse] at h
  | succ n ih =>
    intro inh node i m i' m' v h
    have hle : i.pos ≤ i'.pos := (parse_adv g uni (n+1) inh node i m i' m' v h).pos_le
    have hadv : ∀ inh node, AdvFn (parse g uni n inh node) := parse_adv g uni n
    cases node with
    | str s =>
      simp only [parse] at h; split at h
      · leaf_done h hle
      · cases h
    | insens s =>
      simp only [parse] at h; split at h
      · leaf_done h hle
      · cases h
    | range lo hi =>
      simp only [parse] at h; split at h
      · leaf_done h hle
      · cases h
    | any =>
      simp only [parse] at h; split at h
      · leaf_done h hle
      · cases h
    | soi =>
      simp only [parse] at h; split at h
      · leaf_done h hle
      · cases h
    | eoi =>
      simp only [parse] at h; split at h
      · leaf_done h hle
      · cases h
    | newline =>
      simp only [parse] at h; split at h
      · leaf_done h hle
      · cases h
    | charBy p =>
      simp only [parse] at h; split at h
      · leaf_done h hle
      · cases h
    | skipUntil needles =>
      simp only [parse] at h; leaf_done h hle
    | skipChars k =>
      simp only [parse] at h; split at h
      · leaf_done h hle
      · cases h
    | seq sk items =>
      simp only [parse] at h
      cases items with
      | nil =>
        simp only [] at h
        injection h with h0 _ hv; subst h0 hv
        simp [HasShape, SeqShape]
      | cons n0 ns =>
        simp only [] at h
        split at h
        · cases h
        · cases h
        · next i1 m1 v0 h1 =>
          split at h
          · cases h
          · cases h
          · next i2 m2 vs h2 =>
            injection h with h0 _ hv; subst h0 hv
            have hskip : AdvFn (fun i m => skipLoop (parse g uni n false g.skipped) (skipCount sk inh) i m []) := by
              intro i m i' m' vs hh
              exact skipLoop_adv _ (hadv false g.skipped) _ _ _ _ _ _ _ hh
            obtain ⟨l, hr, ho⟩ := (seqLoop_ok_iff _ _ _ _ _ _ _ _ _).mp h2
            subst ho
            have hl := SeqRun.shape (ih inh) hskip hr
            simp only [HasShape, SeqShape]
            refine ⟨_, rfl, hle, _, _, i1.pos, rfl,
              ⟨List.replicate (skipCount sk inh) (defaultSkipVal g), v0, i.pos, rfl, Nat.le_refl _,
                ih inh n0 _ _ _ _ _ h1⟩, ?_⟩
            simpa using hl
    | choice alts =>
      simp only [parse] at h
      split at h
      · cases h
      · cases h
      · next i1 m1 k v1 h1 =>
        injection h with h0 _ hv; subst h0 hv
        obtain ⟨pre, nd, post, mk, ha, hk, _, hok⟩ := (choiceLoop_ok_iff _ _ _ _ _ _ _ _ _).mp h1
        subst ha
        simp only [Nat.zero_add] at hk; subst hk
        simp only [HasShape]
        exact ⟨_, _, rfl, hle, by simp, AltShape.of_index _ _ _ _ _ _ (ih inh nd _ _ _ _ _ hok)⟩
    | opt x =>
      simp only [parse] at h
      split at h
      · cases h
      · injection h with h0 _ hv; subst h0 hv
        simp [HasShape, Val.leaf]
      · next i1 m1 v1 h1 =>
        injection h with h0 _ hv; subst h0 hv
        have := ih inh x _ _ _ _ _ (restoreOnNone_ok h1)
        simp only [HasShape]
        exact Or.inr ⟨_, rfl, hle, this⟩
    | rep sk min max x =>
      simp only [parse] at h
      split at h
      · cases h
      · cases h
      · next i1 m1 vs h1 =>
        injection h with h0 _ hv; subst h0 hv
        obtain ⟨l, mL, hr, ho, _⟩ := repLoop_unitP_ok _ _ _ _ _ _ _ 0 _ _ [] _ _ _ rfl h1
        have hskip : AdvFn (fun i m => skipLoop (parse g uni n false g.skipped) (skipCount sk inh) i m []) := by
          intro i m i' m' vs hh
          exact skipLoop_adv _ (hadv false g.skipped) _ _ _ _ _ _ _ hh
        have := RepRun.shape (ih inh x) hskip hr
        simp only [HasShape]
        refine ⟨_, rfl, hle, ?_⟩
        rw [ho]; simpa using this
    | atomicRepeat x =>
      simp only [parse] at h
      split at h
      · cases h
      · cases h
      · next i1 m1 vs h1 =>
        injection h with h0 _ hv; subst h0 hv
        simp only [HasShape]
        exact ⟨⟨_, rfl⟩, hle⟩
    | pos x =>
      simp only [parse] at h
      split at h
      · cases h
      · cases h
      · next i1 m1 v1 h1 =>
        injection h with h0 _ hv; subst h0 hv
        simp only [HasShape, true_and]
        exact ⟨_, _, rfl, ih inh x _ _ _ _ _ h1⟩
    | neg x =>
      simp only [parse] at h
      split at h
      · cases h
      · injection h with h0 _ hv; subst h0 hv
        simp [HasShape, Val.leaf]
      · cases h
    | push x =>
      simp only [parse] at h
      split at h
      · cases h
      · cases h
      · next i1 m1 v1 h1 =>
        injection h with h0 _ hv; subst h0 hv
        simp only [HasShape]
        exact ⟨_, rfl, hle, ih inh x _ _ _ _ _ h1⟩
    | peek =>
      simp only [parse] at h
      split at h
      · cases h
      · split at h
        · leaf_done h hle
        · cases h
    | peekAll =>
      simp only [parse] at h
      split at h
      · leaf_done h hle
      · cases h
    | pop =>
      simp only [parse] at h
      split at h
      · cases h
      · split at h
        · leaf_done h hle
        · cases h
    | popAll =>
      simp only [parse] at h
      split at h
      · leaf_done h hle
      · cases h
    | drop =>
      simp only [parse] at h
      split at h
      · cases h
      · leaf_done h hle
    | peekSlice a b =>
      simp only [parse] at h
      split at h
      · cases h
      · split at h
        · leaf_done h hle
        · split at h
          · leaf_done h hle
          · cases h
    | ref r f =>
      simp only [parse] at h
      split at h
      · cases h
      · next d hd =>
        split at h
        · split at h
          · cases h
          · cases h
          · next i1 m1 v1 h1 =>
            injection h with h0 _ hv; subst h0 hv
            simp only [HasShape]
            exact ⟨_, _, _, rfl, hle⟩
        · split at h
          · cases h
          · cases h
          · next i1 m1 v1 h1 =>
            injection h with h0 _ hv; subst h0 hv
            simp only [HasShape]
            exact ⟨_, _, _, rfl, hle⟩
        · split at h
          · cases h
          · cases h
          · next i1 m1 v1 h1 =>
            injection h with h0 _ hv; subst h0 hv
            simp only [HasShape]
            exact ⟨_, _, _, rfl, hle⟩
    | array k x =>
      simp only [parse, arrayTryInto_arrayLoop] at h
      split at h
      · cases h
      · cases h
      · next i1 m1 vs h1 =>
        injection h with h0 _ hv; subst h0 hv
        simp only [HasShape]
        exact ⟨⟨_, rfl⟩, hle⟩
    | pair a b =>
      simp only [parse] at h
      split at h
      · cases h
      · cases h
      · next i1 m1 va h1 =>
        split at h
        · cases h
        · cases h
        · next i2 m2 vb h2 =>
          injection h with h0 _ hv; subst h0 hv
          simp only [HasShape]
          exact ⟨_, _, i1.pos, rfl, hle, ih inh a _ _ _ _ _ h1, ih inh b _ _ _ _ _ h2⟩
    | empty => simp only [parse] at h; leaf_done h hle
    | alwaysFail => simp only [parse] at h; cases h

/-! ### the forest as a finite map -/

theorem Forest.keys_nil : Forest.keys [] = [] := rfl

theorem Forest.keys_cons (k : String) (t : GNode) (rest : Forest) :
    Forest.keys ((k, t) :: rest) = k :: Forest.keys rest := rfl

theorem Forest.get?_cons (k : String) (t : GNode) (rest : Forest) (x : String) :
    Forest.get? ((k, t) :: rest) x = if k = x then some t else Forest.get? rest x := rfl

theorem Forest.get?_eq_none_iff : ∀ (f : Forest) (x : String), f.get? x = none ↔ x ∉ f.keys
  | [], x => by simp [Forest.get?, Forest.keys]
  | (k, t) :: rest, x => by
    rw [Forest.get?_cons, Forest.keys_cons]
    by_cases h : k = x
    · simp [h]
    · have := Forest.get?_eq_none_iff rest x
      simp [h, this, Ne.symm h]

theorem Forest.get?_isSome_iff (f : Forest) (x : String) : (f.get? x).isSome ↔ x ∈ f.keys := by
  have := Forest.get?_eq_none_iff f x
  cases h : f.get? x with
  | none => simp [h] at this; simp [this]
  | some t => simp [h] at this; simp [this]

theorem Forest.keys_prepend (f : Forest) (e : GEdge) : (f.prepend e).keys = f.keys := by
  simp [Forest.prepend, Forest.keys, List.map_map, Function.comp_def]

theorem Forest.get?_prepend : ∀ (f : Forest) (e : GEdge) (x : String),
    (f.prepend e).get? x = (f.get? x).map (fun t => t.wrap e)
  | [], e, x => rfl
  | (k, t) :: rest, e, x => by
    have ih := Forest.get?_prepend rest e x
    simp only [Forest.prepend, List.map_cons] at ih ⊢
    rw [Forest.get?_cons, Forest.get?_cons]
    by_cases h : k = x
    · simp [h]
    · simp [h, ih]

theorem Forest.get?_insertSorted_ne {k x : String} (h : k ≠ x) (t : GNode) :
    ∀ f : Forest, (Forest.insertSorted k t f).get? x = f.get? x
  | [] => by simp [Forest.insertSorted, Forest.get?, h]
  | (k', t') :: rest => by
    simp only [Forest.insertSorted]
    split
    · rw [Forest.get?_cons]; simp [h]
    · rw [Forest.get?_cons, Forest.get?_cons, Forest.get?_insertSorted_ne h t rest]

theorem Forest.get?_insertSorted_self (k : String) (t : GNode) :
    ∀ f : Forest, f.get? k = none → (Forest.insertSorted k t f).get? k = some t
  | [], _ => by simp [Forest.insertSorted, Forest.get?]
  | (k', t') :: rest, h => by
    rw [Forest.get?_cons] at h
    by_cases hk : k' = k
    · simp [hk] at h
    · simp only [hk, if_false] at h
      simp only [Forest.insertSorted]
      split
      · rw [Forest.get?_cons]; simp
      · rw [Forest.get?_cons]; simp [hk, Forest.get?_insertSorted_self k t rest h]

theorem Forest.get?_modify_ne {k x : String} (h : k ≠ x) (fn : GNode → GNode) :
    ∀ f : Forest, (Forest.modify k fn f).get? x = f.get? x
  | [] => rfl
  | (k', t') :: rest => by
    simp only [Forest.modify]
    split
    · next hk => rw [Forest.get?_cons, Forest.get?_cons]; subst hk; simp [h]
    · rw [Forest.get?_cons, Forest.get?_cons, Forest.get?_modify_ne h fn rest]

theorem Forest.get?_modify_self (k : String) (fn : GNode → GNode) :
    ∀ f : Forest, (Forest.modify k fn f).get? k = (f.get? k).map fn
  | [] => rfl
  | (k', t') :: rest => by
    simp only [Forest.modify]
    split
    · next hk => rw [Forest.get?_cons, Forest.get?_cons]; simp [hk]
    · next hk => rw [Forest.get?_cons, Forest.get?_cons]; simp [hk, Forest.get?_modify_self k fn rest]

theorem Forest.keys_modify (k : String) (fn : GNode → GNode) :
    ∀ f : Forest, (Forest.modify k fn f).keys = f.keys
  | [] => rfl
  | (k', t') :: rest => by
    simp only [Forest.modify]
    split
    · rfl
    · rw [Forest.keys_cons, Forest.keys_cons, Forest.keys_modify k fn rest]

theorem Forest.mem_keys_insertSorted (k : String) (t : GNode) (y : String) :
    ∀ f : Forest, y ∈ (Forest.insertSorted k t f).keys ↔ y = k ∨ y ∈ f.keys
  | [] => by simp [Forest.insertSorted, Forest.keys]
  | (k', t') :: rest => by
    simp only [Forest.insertSorted]
    split
    · simp [Forest.keys]
    · rw [Forest.keys_cons, Forest.keys_cons, List.mem_cons, List.mem_cons,
        Forest.mem_keys_insertSorted k t y rest]
      constructor
      · rintro (h | h | h) <;> simp [h]
      · rintro (h | h | h) <;> simp [h]

theorem Forest.nodup_insertSorted (k : String) (t : GNode) :
    ∀ f : Forest, k ∉ f.keys → f.keys.Nodup → (Forest.insertSorted k t f).keys.Nodup
  | [], _, _ => by simp [Forest.insertSorted, Forest.keys]
  | (k', t') :: rest, hk, hn => by
    rw [Forest.keys_cons] at hk hn
    simp only [Forest.insertSorted]
    split
    · rw [Forest.keys_cons, Forest.keys_cons]
      exact List.nodup_cons.mpr ⟨hk, hn⟩
    · rw [Forest.keys_cons]
      have hn' := List.nodup_cons.mp hn
      refine List.nodup_cons.mpr ⟨?_, Forest.nodup_insertSorted k t rest (fun h => hk (List.mem_cons_of_mem _ h)) hn'.2⟩
      rw [Forest.mem_keys_insertSorted]
      rintro (h | h)
      · exact hk (by simp [h])
      · exact hn'.1 h

/-- What `entry(k)` / `merge` / `insert` does to a lookup. -/
theorem Forest.get?_upsert (f : Forest) (k : String) (t : GNode) (x : String) :
    (f.upsert k t).get? x =
      if k = x then some (match f.get? k with | some t' => t'.merge t | none => t) else f.get? x := by
  unfold Forest.upsert
  by_cases h : k = x
  · subst h
    cases hf : f.get? k with
    | none => simp [Forest.get?_insertSorted_self k t f hf]
    | some t' => simp [Forest.get?_modify_self, hf]
  · cases hf : f.get? k with
    | none => simp [h, Forest.get?_insertSorted_ne h]
    | some t' => simp [h, Forest.get?_modify_ne h]

theorem Forest.mem_keys_upsert (f : Forest) (k : String) (t : GNode) (y : String) :
    y ∈ (f.upsert k t).keys ↔ y = k ∨ y ∈ f.keys := by
  unfold Forest.upsert
  cases hf : f.get? k with
  | none => simp [Forest.mem_keys_insertSorted]
  | some t' =>
    have : k ∈ f.keys := (Forest.get?_isSome_iff f k).mp (by simp [hf])
    simp only [Forest.keys_modify]
    constructor
    · exact Or.inr
    · rintro (h | h)
      · subst h; exact this
      · exact h

theorem Forest.nodup_upsert (f : Forest) (k : String) (t : GNode) (h : f.keys.Nodup) :
    (f.upsert k t).keys.Nodup := by
  unfold Forest.upsert
  cases hf : f.get? k with
  | none => exact Forest.nodup_insertSorted k t f ((Forest.get?_eq_none_iff f k).mp hf) h
  | some t' => simpa [Forest.keys_modify] using h

theorem Forest.join_nil (f : Forest) : f.join [] = f := rfl

theorem Forest.join_cons (f : Forest) (k : String) (t : GNode) (o : Forest) :
    f.join ((k, t) :: o) = (f.upsert k t).join o := rfl

theorem Forest.mem_keys_join : ∀ (o f : Forest) (y : String),
    y ∈ (f.join o).keys ↔ y ∈ f.keys ∨ y ∈ o.keys
  | [], f, y => by simp [Forest.join_nil, Forest.keys]
  | (k, t) :: o, f, y => by
    rw [Forest.join_cons, Forest.mem_keys_join o, Forest.mem_keys_upsert, Forest.keys_cons, List.mem_cons]
    constructor
    · rintro ((h | h) | h) <;> simp [h]
    · rintro (h | h | h) <;> simp [h]

theorem Forest.nodup_join : ∀ (o f : Forest), f.keys.Nodup → (f.join o).keys.Nodup
  | [], f, h => by simpa [Forest.join_nil] using h
  | (k, t) :: o, f, h => by
    rw [Forest.join_cons]
    exact Forest.nodup_join o _ (Forest.nodup_upsert f k t h)

/-- Lookup in a joined forest: both present ↦ `merge`, else whichever is present. -/
def mergeOpt : Option GNode → Option GNode → Option GNode
  | some a, some b => some (a.merge b)
  | some a, none => some a
  | none, some b => some b
  | none, none => none

theorem Forest.get?_join : ∀ (o f : Forest) (x : String), o.keys.Nodup →
    (f.join o).get? x = mergeOpt (f.get? x) (o.get? x)
  | [], f, x, _ => by
    rw [Forest.join_nil]; cases f.get? x <;> rfl
  | (k, t) :: o, f, x, hn => by
    rw [Forest.keys_cons] at hn
    have hn' := List.nodup_cons.mp hn
    rw [Forest.join_cons, Forest.get?_join o _ x hn'.2, Forest.get?_upsert, Forest.get?_cons]
    by_cases h : k = x
    · subst h
      have : Forest.get? o k = none := (Forest.get?_eq_none_iff o k).mpr hn'.1
      simp only [if_true, this]
      cases f.get? k <;> rfl
    · simp only [h, if_false]

theorem Forest.get?_join_nil_left (o : Forest) (x : String) (hn : o.keys.Nodup) :
    (Forest.join [] o).get? x = o.get? x := by
  rw [Forest.get?_join o [] x hn]
  simp only [Forest.get?]
  cases o.get? x <;> rfl

/-! ### results of paths: `GoodAt t v refs` — the path `t` applies to `v`, its result has the type
`expand` announces, and its references are `refs` -/

theorem GVal.flattenL_append : ∀ (a b : List GVal), GVal.flattenL (a ++ b) = GVal.flattenL a ++ GVal.flattenL b
  | [], b => by simp [GVal.flattenL]
  | r :: a, b => by simp [GVal.flattenL, GVal.flattenL_append a b]

theorem GNode.typeOfL_append : ∀ (a b : List GNode), GNode.typeOfL (a ++ b) = GNode.typeOfL a ++ GNode.typeOfL b
  | [], b => by simp [GNode.typeOfL]
  | t :: a, b => by simp [GNode.typeOfL, GNode.typeOfL_append a b]

theorem GVal.hasTyL_append : ∀ (a : List GVal) (ta : List GTy) (b : List GVal) (tb : List GTy),
    GVal.hasTyL a ta = true → GVal.hasTyL b tb = true → GVal.hasTyL (a ++ b) (ta ++ tb) = true
  | [], [], b, tb, _, hb => by simpa using hb
  | [], _ :: _, _, _, ha, _ => by simp [GVal.hasTyL] at ha
  | _ :: _, [], _, _, ha, _ => by simp [GVal.hasTyL] at ha
  | r :: a, t :: ta, b, tb, ha, hb => by
    simp only [GVal.hasTyL, Bool.and_eq_true] at ha
    simp only [List.cons_append, GVal.hasTyL, Bool.and_eq_true]
    exact ⟨ha.1, GVal.hasTyL_append a ta b tb ha.2 hb⟩

theorem evalGetters_append : ∀ (a b : List GNode) (v : Val) (ra rb : List GVal),
    evalGetters a v = some ra → evalGetters b v = some rb → evalGetters (a ++ b) v = some (ra ++ rb)
  | [], b, v, ra, rb, ha, hb => by
    simp only [evalGetters] at ha; injection ha with ha; subst ha; simpa using hb
  | t :: a, b, v, ra, rb, ha, hb => by
    simp only [evalGetters] at ha
    cases h1 : evalGetter t v with
    | none => simp [h1] at ha
    | some r =>
      cases h2 : evalGetters a v with
      | none => simp [h1, h2] at ha
      | some rs =>
        simp only [h1, h2] at ha; injection ha with ha; subst ha
        simp [evalGetters, h1, evalGetters_append a b v rs rb h2 hb]

def GoodAt (t : GNode) (v : Val) (refs : List Val) : Prop :=
  ∃ gv, evalGetter t v = some gv ∧ gv.hasTy t.typeOf = true ∧ gv.flatten = refs

def GoodL (gs : List GNode) (v : Val) (refs : List Val) : Prop :=
  ∃ rs, evalGetters gs v = some rs ∧ GVal.hasTyL rs (GNode.typeOfL gs) = true ∧ GVal.flattenL rs = refs

/-- The components a tree contributes to a merged tuple. -/
def GNode.asList : GNode → List GNode
  | .tuple gs => gs
  | t => [t]

theorem GNode.merge_eq (a b : GNode) : a.merge b = .tuple (a.asList ++ b.asList) := by
  cases a <;> cases b <;> simp [GNode.merge, GNode.asList]

theorem GoodL.append {a b : List GNode} {v : Val} {ra rb : List Val}
    (ha : GoodL a v ra) (hb : GoodL b v rb) : GoodL (a ++ b) v (ra ++ rb) := by
  obtain ⟨rsa, e1, t1, f1⟩ := ha
  obtain ⟨rsb, e2, t2, f2⟩ := hb
  refine ⟨rsa ++ rsb, evalGetters_append a b v _ _ e1 e2, ?_, ?_⟩
  · rw [GNode.typeOfL_append]; exact GVal.hasTyL_append _ _ _ _ t1 t2
  · rw [GVal.flattenL_append, f1, f2]

theorem GoodL.single {t : GNode} {v : Val} {r : List Val} (h : GoodAt t v r) : GoodL [t] v r := by
  obtain ⟨gv, e, ty, f⟩ := h
  refine ⟨[gv], by simp [evalGetters, e], by simp [GVal.hasTyL, GNode.typeOfL, ty], by simp [GVal.flattenL, f]⟩

theorem GoodL.tuple {gs : List GNode} {v : Val} {r : List Val} (h : GoodL gs v r) : GoodAt (.tuple gs) v r := by
  obtain ⟨rs, e, ty, f⟩ := h
  exact ⟨.tuple rs, by simp [evalGetter, e], by simpa [GNode.typeOf, GVal.hasTy] using ty,
    by simpa [GVal.flatten] using f⟩

theorem GoodAt.toL {t : GNode} {v : Val} {r : List Val} (h : GoodAt t v r) : GoodL t.asList v r := by
  cases t with
  | tuple gs =>
    obtain ⟨gv, e, ty, f⟩ := h
    simp only [evalGetter] at e
    cases h1 : evalGetters gs v with
    | none => simp [h1] at e
    | some rs =>
      simp only [h1] at e; injection e with e; subst e
      exact ⟨rs, h1, by simpa [GNode.typeOf, GVal.hasTy, GNode.asList] using ty, by simpa [GVal.flatten] using f⟩
  | _ => exact GoodL.single h

/-- `merge`: the references of the merged tuple are those of the left tree followed by those of the right. -/
theorem GoodAt.merge {a b : GNode} {v : Val} {ra rb : List Val} (ha : GoodAt a v ra) (hb : GoodAt b v rb) :
    GoodAt (a.merge b) v (ra ++ rb) := by
  rw [GNode.merge_eq]
  exact (ha.toL.append hb.toL).tuple

theorem GNode.flattenable_typeOf : ∀ t : GNode, t.flattenable = true → ∃ ty, t.typeOf = .opt ty
  | .rule _, h => by simp [GNode.flattenable] at h
  | .content g, h => by
    simp only [GNode.flattenable] at h; simpa [GNode.typeOf] using GNode.flattenable_typeOf g h
  | .sequenceI _ g, h => by
    simp only [GNode.flattenable] at h; simpa [GNode.typeOf] using GNode.flattenable_typeOf g h
  | .choiceI _ false _, _ => by simp [GNode.typeOf]
  | .choiceI _ true g, h => by
    simp only [GNode.flattenable] at h; simpa [GNode.typeOf] using GNode.flattenable_typeOf g h
  | .optional false _, _ => by simp [GNode.typeOf]
  | .optional true g, h => by
    simp only [GNode.flattenable] at h; simpa [GNode.typeOf] using GNode.flattenable_typeOf g h
  | .contents _, h => by simp [GNode.flattenable] at h
  | .tuple _, h => by simp [GNode.flattenable] at h

theorem GVal.hasTy_opt_cases {gv : GVal} {ty : GTy} (h : gv.hasTy (.opt ty) = true) :
    gv = .optNone ∨ ∃ r, gv = .optSome r := by
  cases gv <;> simp [GVal.hasTy] at h ⊢

/-- `Some(inner)` (flattened when the inner path already yields an `Option`). -/
theorem optWrap_good {t : GNode} {gv : GVal} (ty : gv.hasTy t.typeOf = true) :
    ∃ r, optWrap t.flattenable gv = some r ∧
      r.hasTy (if t.flattenable then t.typeOf else .opt t.typeOf) = true ∧ r.flatten = gv.flatten := by
  cases hf : t.flattenable with
  | false => exact ⟨.optSome gv, by simp [optWrap], by simpa [GVal.hasTy] using ty, by simp [GVal.flatten]⟩
  | true =>
    obtain ⟨ty', hty⟩ := GNode.flattenable_typeOf t hf
    rw [hty] at ty
    rcases GVal.hasTy_opt_cases ty with rfl | ⟨r, rfl⟩
    · exact ⟨_, by simp [optWrap], by simpa [hty] using ty, rfl⟩
    · exact ⟨_, by simp [optWrap], by simpa [hty] using ty, rfl⟩

theorem hasTy_optNone_wrap (t : GNode) :
    GVal.optNone.hasTy (if t.flattenable then t.typeOf else .opt t.typeOf) = true := by
  cases hf : t.flattenable with
  | false => simp [GVal.hasTy]
  | true =>
    obtain ⟨ty', hty⟩ := GNode.flattenable_typeOf t hf
    simp [hty, GVal.hasTy]

theorem GoodAt.content_push {t : GNode} {w : Val} {r : List Val} (h : GoodAt t w r) :
    GoodAt (t.wrap .content) (.mk .push [w]) r := by
  obtain ⟨gv, e, ty, f⟩ := h
  exact ⟨gv, by simp [GNode.wrap, evalGetter, Val.contentKid?, e], by simpa [GNode.wrap, GNode.typeOf] using ty, f⟩

theorem GoodAt.content_pos {t : GNode} {w : Val} {r : List Val} (h : GoodAt t w r) :
    GoodAt (t.wrap .content) (.mk .pos [w]) r := by
  obtain ⟨gv, e, ty, f⟩ := h
  exact ⟨gv, by simp [GNode.wrap, evalGetter, Val.contentKid?, e], by simpa [GNode.wrap, GNode.typeOf] using ty, f⟩

theorem GoodAt.sequenceI {t : GNode} {w : Val} {r : List Val} (h : GoodAt t w r)
    {kids : List Val} {i : Nat} {skips : List Val}
    (hk : kids[i]? = some (.mk (.skipped skips.length) (skips ++ [w]))) :
    GoodAt (t.wrap (.contentI i)) (.mk .seq kids) r := by
  obtain ⟨gv, e, ty, f⟩ := h
  refine ⟨gv, ?_, by simpa [GNode.wrap, GNode.typeOf] using ty, f⟩
  simp [GNode.wrap, evalGetter, Val.seqKid?, hk, Val.matched?, e]

theorem GoodAt.optional_some {t : GNode} {w : Val} {r : List Val} (h : GoodAt t w r) :
    GoodAt (t.wrap .optional) (.mk .optSome [w]) r := by
  obtain ⟨gv, e, ty, f⟩ := h
  obtain ⟨r', h1, h2, h3⟩ := optWrap_good ty
  exact ⟨r', by simp [GNode.wrap, evalGetter, Val.optSel?, e, h1], by simpa [GNode.wrap, GNode.typeOf] using h2,
    by rw [h3, f]⟩

theorem GoodAt.optional_none (t : GNode) : GoodAt (t.wrap .optional) (.mk .optNone []) [] :=
  ⟨.optNone, by simp [GNode.wrap, evalGetter, Val.optSel?],
    by simpa [GNode.wrap, GNode.typeOf] using hasTy_optNone_wrap t, rfl⟩

theorem GoodAt.choice_hit {t : GNode} {w : Val} {r : List Val} (h : GoodAt t w r) {n i : Nat} (hi : i < n) :
    GoodAt (t.wrap (.choiceI i)) (.mk (.choice n i) [w]) r := by
  obtain ⟨gv, e, ty, f⟩ := h
  obtain ⟨r', h1, h2, h3⟩ := optWrap_good ty
  exact ⟨r', by simp [GNode.wrap, evalGetter, Val.choiceSel?, hi, e, h1],
    by simpa [GNode.wrap, GNode.typeOf] using h2, by rw [h3, f]⟩

theorem GoodAt.choice_miss (t : GNode) {n i idx : Nat} (hi : i < n) (hne : idx ≠ i) (w : Val) :
    GoodAt (t.wrap (.choiceI i)) (.mk (.choice n idx) [w]) [] :=
  ⟨.optNone, by simp [GNode.wrap, evalGetter, Val.choiceSel?, hi, hne],
    by simpa [GNode.wrap, GNode.typeOf] using hasTy_optNone_wrap t, rfl⟩

/-! ### `directRefs` -/

theorem directRefsL_append (x : RuleId) : ∀ (a b : List Val),
    directRefsL x (a ++ b) = directRefsL x a ++ directRefsL x b
  | [], b => by simp [directRefsL]
  | v :: a, b => by simp [directRefsL, directRefsL_append x a b]

theorem directRefsNth_append_length (x : RuleId) (w : Val) : ∀ skips : List Val,
    directRefsNth x skips.length (skips ++ [w]) = directRefs x w
  | [] => by simp [directRefsNth]
  | s :: skips => by simp [directRefsNth, directRefsNth_append_length x w skips]

theorem directRefs_skipped (x : RuleId) (skips : List Val) (w : Val) :
    directRefs x (.mk (.skipped skips.length) (skips ++ [w])) = directRefs x w := by
  simp [directRefs, directRefsNth_append_length]

theorem directRefs_leaf (x : RuleId) {v : Val} (h : LeafVal v) : directRefs x v = [] := by
  obtain ⟨t, rfl, ht⟩ := h
  cases t <;> simp [directRefs, directRefsL, directRefsNth, Tag.isRule] at ht ⊢

theorem directRefs_seq (x : RuleId) (kids : List Val) : directRefs x (.mk .seq kids) = directRefsL x kids := by
  simp [directRefs]
theorem directRefs_rep (x : RuleId) (a : Nat) (b : Option Nat) (kids : List Val) :
    directRefs x (.mk (.rep a b) kids) = directRefsL x kids := by
  simp [directRefs]
theorem directRefs_choice (x : RuleId) (n idx : Nat) (w : Val) :
    directRefs x (.mk (.choice n idx) [w]) = directRefs x w := by
  simp [directRefs, directRefsL]
theorem directRefs_optSome (x : RuleId) (w : Val) : directRefs x (.mk .optSome [w]) = directRefs x w := by
  simp [directRefs, directRefsL]
theorem directRefs_optNone (x : RuleId) : directRefs x (.mk .optNone []) = [] := by
  simp [directRefs, directRefsL]
theorem directRefs_push (x : RuleId) (w : Val) : directRefs x (.mk .push [w]) = directRefs x w := by
  simp [directRefs, directRefsL]
theorem directRefs_pos (x : RuleId) (w : Val) : directRefs x (.mk .pos [w]) = directRefs x w := by
  simp [directRefs, directRefsL]
theorem directRefs_neg (x : RuleId) (kids : List Val) : directRefs x (.mk .neg kids) = [] := by
  simp [directRefs]
theorem directRefs_rule (x r : RuleId) (em : Emission) (bx : Bool) (s e : Nat) (kids : List Val) :
    directRefs x (.mk (.rule r em bx s e) kids) = if r = x then [.mk (.rule r em bx s e) kids] else [] := by
  simp [directRefs]

/-- A repetition value: the path of the body applies to every iteration. -/
theorem GoodAt.contents {x : RuleId} {t : GNode} {P : Nat → Nat → Val → Prop}
    (hP : ∀ lo hi w, P lo hi w → GoodAt t w (directRefs x w)) (a : Nat) (b : Option Nat) :
    ∀ (kids : List Val) (lo hi : Nat), Chain P lo hi kids →
      GoodAt (t.wrap .contents) (.mk (.rep a b) kids) (directRefsL x kids) := by
  have key : ∀ (kids : List Val) (lo hi : Nat), Chain P lo hi kids →
      ∃ rs, mapOpt (evalMatched (evalGetter t)) kids = some rs ∧
        GVal.hasTyAll rs t.typeOf = true ∧ GVal.flattenL rs = directRefsL x kids := by
    intro kids
    induction kids with
    | nil => intro lo hi _; exact ⟨[], rfl, rfl, rfl⟩
    | cons kid rest ih =>
      intro lo hi h
      simp only [Chain] at h
      obtain ⟨mid, ⟨skips, w, mid', rfl, _, hw⟩, hrest⟩ := h
      obtain ⟨rs, e1, t1, f1⟩ := ih _ _ hrest
      obtain ⟨gv, e, ty, f⟩ := hP _ _ _ hw
      refine ⟨gv :: rs, ?_, by simp [GVal.hasTyAll, ty, t1], ?_⟩
      · simp [mapOpt, evalMatched, Val.matched?, e, e1]
      · simp only [GVal.flattenL, directRefsL, directRefs_skipped, f, f1]
  intro kids lo hi h
  obtain ⟨rs, e, ty, f⟩ := key kids lo hi h
  exact ⟨.vec rs, by simp [GNode.wrap, evalGetter, Val.repKids?, e],
    by simpa [GNode.wrap, GNode.typeOf, GVal.hasTy] using ty, by simpa [GVal.flatten] using f⟩

theorem directRefsL_chain_nil {x : RuleId} {P : Nat → Nat → Val → Prop}
    (hP : ∀ lo hi w, P lo hi w → directRefs x w = []) :
    ∀ (kids : List Val) (lo hi : Nat), Chain P lo hi kids → directRefsL x kids = [] := by
  intro kids
  induction kids with
  | nil => intro lo hi _; rfl
  | cons kid rest ih =>
    intro lo hi h
    simp only [Chain] at h
    obtain ⟨mid, ⟨skips, w, mid', rfl, _, hw⟩, hrest⟩ := h
    simp [directRefsL, directRefs_skipped, hP _ _ _ hw, ih _ _ hrest]

/-! ### values of built-in names carry no rule value (except `EOI`) -/

/-- `n` never stores a value of rule `x`. -/
def NoRefs (x : RuleId) (n : Node) : Prop := ∀ lo hi v, HasShape n lo hi v → directRefs x v = []

def Node.isLeafNode : Node → Bool
  | .str _ | .insens _ | .range _ _ | .any | .soi | .eoi | .newline | .charBy _ | .skipUntil _
  | .skipChars _ | .peek | .peekAll | .pop | .popAll | .drop | .peekSlice _ _ | .empty | .alwaysFail => true
  | _ => false

theorem noRefs_leaf (x : RuleId) (n : Node) (h : n.isLeafNode = true) : NoRefs x n := by
  intro lo hi v hs
  cases n <;> simp [Node.isLeafNode] at h <;> simp only [HasShape] at hs
  all_goals first
    | exact directRefs_leaf x hs.1
    | exact hs.elim

theorem AltShape.mem : ∀ (alts : List Node) (idx lo hi : Nat) (w : Val),
    AltShape alts idx lo hi w → ∃ a, a ∈ alts ∧ HasShape a lo hi w
  | [], _, _, _, _, h => by simp [AltShape] at h
  | a :: _, 0, _, _, _, h => by simp only [AltShape] at h; exact ⟨a, by simp, h⟩
  | _ :: alts, k+1, lo, hi, w, h => by
    simp only [AltShape] at h
    obtain ⟨a, ha, hs⟩ := AltShape.mem alts k lo hi w h
    exact ⟨a, List.mem_cons_of_mem _ ha, hs⟩

theorem noRefs_choice (x : RuleId) (alts : List Node) (h : ∀ a, a ∈ alts → NoRefs x a) :
    NoRefs x (.choice alts) := by
  intro lo hi v hs
  simp only [HasShape] at hs
  obtain ⟨idx, w, rfl, _, _, ha⟩ := hs
  obtain ⟨a, ham, has⟩ := AltShape.mem _ _ _ _ _ ha
  rw [directRefs_choice]; exact h a ham _ _ _ has

theorem noRefs_ref (x r : RuleId) (f : Flag) (h : r ≠ x) : NoRefs x (.ref r f) := by
  intro lo hi v hs
  simp only [HasShape] at hs
  obtain ⟨em, bx, kids, rfl, _⟩ := hs
  simp [directRefs_rule, h]

theorem noRefs_ite (x : RuleId) {c : Prop} [Decidable c] {a b : Node}
    (ha : c → NoRefs x a) (hb : ¬c → NoRefs x b) : NoRefs x (if c then a else b) := by
  split
  · exact ha ‹_›
  · exact hb ‹_›

theorem noRefs_builtin (x : RuleId) (name : String) (h : name ≠ "EOI") : NoRefs x (builtinNode name) := by
  have l : ∀ n : Node, n.isLeafNode = true → NoRefs x n := noRefs_leaf x
  have alpha : NoRefs x asciiAlpha := by
    apply noRefs_choice; intro a ha
    simp [asciiAlphaLower, asciiAlphaUpper] at ha
    rcases ha with rfl | rfl <;> exact l _ rfl
  unfold builtinNode
  repeat' (apply noRefs_ite <;> intro hc)
  all_goals first
    | exact l _ rfl
    | exact absurd hc h
    | exact alpha
    | (apply noRefs_choice; intro a ha
       simp [asciiDigit] at ha
       rcases ha with rfl | rfl | rfl <;> first | exact l _ rfl | exact alpha)
    | (apply noRefs_choice; intro a ha
       simp [asciiDigit] at ha
       rcases ha with rfl | rfl <;> first | exact l _ rfl | exact alpha)

/-! ### names and rule ids -/

theorem indexOf_go_spec (name : String) : ∀ (l : List PRule) (k0 : Nat) (k : Nat),
    PGrammar.indexOf.go name l k0 = some k → k0 ≤ k ∧ ∃ r, l[k - k0]? = some r ∧ r.name = name
  | [], _, _, h => by simp [PGrammar.indexOf.go] at h
  | r :: rs, k0, k, h => by
    simp only [PGrammar.indexOf.go] at h
    split at h
    · next hn => injection h with h; subst h; exact ⟨Nat.le_refl _, r, by simp, hn⟩
    · obtain ⟨hle, r', hr', hn'⟩ := indexOf_go_spec name rs (k0+1) k h
      refine ⟨by omega, r', ?_, hn'⟩
      have : k - k0 = (k - (k0 + 1)) + 1 := by omega
      rw [this]; simpa using hr'

theorem indexOf_inj (g : PGrammar) {a b : String} {k : Nat} (ha : g.indexOf a = some k) (hb : g.indexOf b = some k) :
    a = b := by
  obtain ⟨_, r1, h1, n1⟩ := indexOf_go_spec a g 0 k ha
  obtain ⟨_, r2, h2, n2⟩ := indexOf_go_spec b g 0 k hb
  rw [h1] at h2; injection h2 with h2; subst h2; rw [← n1, ← n2]

/-- A mention of the name `x` stores a value of rule `refId x`; a mention of any other name stores none. -/
theorem ident_shape (g : PGrammar) (sk : Flag) {x : String} {xid : RuleId} (hx : refId g x = some xid) (name : String) :
    (name = x → ∃ f, genExpr g sk (.ident name) = .ref xid f) ∧
    (name ≠ x → NoRefs xid (genExpr g sk (.ident name))) := by
  unfold refId at hx
  constructor
  · rintro rfl
    simp only [genExpr]
    cases hi : g.indexOf name with
    | some k => simp only [hi] at hx ⊢; injection hx with hx; subst hx; exact ⟨_, rfl⟩
    | none =>
      simp only [hi] at hx ⊢
      split at hx
      · next he => injection hx with hx; subst hx; subst he; exact ⟨.one, by simp [builtinNode]⟩
      · cases hx
  · intro hne
    simp only [genExpr]
    cases hi : g.indexOf name with
    | some k =>
      simp only []
      apply noRefs_ref
      cases hxi : g.indexOf x with
      | some k' =>
        simp only [hxi] at hx; injection hx with hx; subst hx
        intro hk; have hk' : (k + 1 : Nat) = k' + 1 := hk; have : k = k' := by omega
        subst this; exact hne (indexOf_inj g hi hxi)
      | none =>
        simp only [hxi] at hx
        split at hx
        · injection hx with hx; subst hx; intro hk; exact Nat.succ_ne_zero k hk
        · cases hx
    | none =>
      simp only []
      by_cases he : name = "EOI"
      · subst he
        have : builtinNode "EOI" = .ref 0 .one := by simp [builtinNode]
        rw [this]; apply noRefs_ref
        cases hxi : g.indexOf x with
        | some k' => simp only [hxi] at hx; injection hx with hx; subst hx; intro hk; exact Nat.succ_ne_zero k' hk.symm
        | none =>
          simp only [hxi] at hx
          split at hx
          · next hxe => exact absurd hxe.symm hne
          · cases hx
      · exact noRefs_builtin xid name he

/-! ### right spines -/

/-- `walk!(expr, Seq)`. -/
def PExpr.seqSpine : PExpr → List PExpr
  | .seq a b => a :: b.seqSpine
  | e => [e]

/-- `walk!(expr, Choice)`. -/
def PExpr.choiceSpine : PExpr → List PExpr
  | .choice a b => a :: b.choiceSpine
  | e => [e]

/-- The `for (i, expr) in vec.into_iter().enumerate()` loop over the forests of the elements. -/
def spineFold (mk : Nat → GEdge) : Nat → Forest → List Forest → Forest
  | _, acc, [] => acc
  | i, acc, F :: Fs => spineFold mk (i+1) (acc.join (F.prepend (mk i))) Fs

theorem genSeqSpine_eq (g : PGrammar) (sk : Flag) : ∀ e : PExpr,
    genSeqSpine g sk e = e.seqSpine.map (genExpr g sk) := by
  intro e
  induction e with
  | seq a b _ ihb => simp only [genSeqSpine, PExpr.seqSpine, List.map_cons, ihb]
  | _ => simp [genSeqSpine, PExpr.seqSpine]

theorem genChoiceSpine_eq (g : PGrammar) (sk : Flag) : ∀ e : PExpr,
    genChoiceSpine g sk e = e.choiceSpine.map (genExpr g sk) := by
  intro e
  induction e with
  | choice a b _ ihb => simp only [genChoiceSpine, PExpr.choiceSpine, List.map_cons, ihb]
  | _ => simp [genChoiceSpine, PExpr.choiceSpine]

theorem genSeqGetters_eq : ∀ (e : PExpr) (i : Nat) (acc : Forest),
    genSeqGetters i acc e = spineFold .contentI i acc (e.seqSpine.map genGetters) := by
  intro e
  induction e with
  | seq a b _ ihb => intro i acc; simp only [genSeqGetters, PExpr.seqSpine, List.map_cons, spineFold, ihb]
  | _ => intro i acc; simp [genSeqGetters, PExpr.seqSpine, spineFold]

theorem genChoiceGetters_eq : ∀ (e : PExpr) (i : Nat) (acc : Forest),
    genChoiceGetters i acc e = spineFold .choiceI i acc (e.choiceSpine.map genGetters) := by
  intro e
  induction e with
  | choice a b _ ihb => intro i acc; simp only [genChoiceGetters, PExpr.choiceSpine, List.map_cons, spineFold, ihb]
  | _ => intro i acc; simp [genChoiceGetters, PExpr.choiceSpine, spineFold]

theorem genExpr_seq (g : PGrammar) (sk : Flag) (a b : PExpr) :
    genExpr g sk (.seq a b) = .seq sk ((a :: b.seqSpine).map (genExpr g sk)) := by
  simp only [genExpr, genSeqSpine_eq, List.map_cons]

theorem genExpr_choice (g : PGrammar) (sk : Flag) (a b : PExpr) :
    genExpr g sk (.choice a b) = .choice ((a :: b.choiceSpine).map (genExpr g sk)) := by
  simp only [genExpr, genChoiceSpine_eq, List.map_cons]

theorem genGetters_seq (a b : PExpr) :
    genGetters (.seq a b) = spineFold .contentI 0 [] ((a :: b.seqSpine).map genGetters) := by
  simp only [genGetters, genSeqGetters_eq, List.map_cons, spineFold]

theorem genGetters_choice (a b : PExpr) :
    genGetters (.choice a b) = spineFold .choiceI 0 [] ((a :: b.choiceSpine).map genGetters) := by
  simp only [genGetters, genChoiceGetters_eq, List.map_cons, spineFold]

theorem seqSpine_size : ∀ (b e : PExpr), e ∈ b.seqSpine → sizeOf e ≤ sizeOf b := by
  intro b
  induction b with
  | seq a b _ ihb =>
    intro e he
    simp only [PExpr.seqSpine, List.mem_cons] at he
    rcases he with rfl | he
    · simp; omega
    · have := ihb e he; simp; omega
  | _ => intro e he; simp [PExpr.seqSpine] at he; subst he; exact Nat.le_refl _

theorem choiceSpine_size : ∀ (b e : PExpr), e ∈ b.choiceSpine → sizeOf e ≤ sizeOf b := by
  intro b
  induction b with
  | choice a b _ ihb =>
    intro e he
    simp only [PExpr.choiceSpine, List.mem_cons] at he
    rcases he with rfl | he
    · simp; omega
    · have := ihb e he; simp; omega
  | _ => intro e he; simp [PExpr.choiceSpine] at he; subst he; exact Nat.le_refl _

/-- Expressions without getters and with leaf values. -/
def PExpr.isLeafExpr : PExpr → Bool
  | .str _ | .insens _ | .range _ _ | .peekSlice _ _ | .skip _ => true
  | _ => false

/-- The body and bounds of any of the six repetition constructors. -/
def PExpr.repParts? : PExpr → Option (PExpr × Nat × Option Nat)
  | .rep e => some (e, 0, none)
  | .repOnce e => some (e, 1, none)
  | .repExact e n => some (e, n, some n)
  | .repMin e n => some (e, n, none)
  | .repMax e n => some (e, 0, some n)
  | .repMinMax e n m => some (e, n, some m)
  | _ => none

theorem repParts_gen {e e' : PExpr} {mn : Nat} {mx : Option Nat} (h : e.repParts? = some (e', mn, mx))
    (g : PGrammar) (sk : Flag) :
    genExpr g sk e = .rep sk mn mx (genExpr g sk e') ∧ genGetters e = (genGetters e').prepend .contents ∧
      sizeOf e' < sizeOf e := by
  cases e <;> simp [PExpr.repParts?] at h
  all_goals (obtain ⟨rfl, rfl, rfl⟩ := h; refine ⟨by simp only [genExpr], by simp only [genGetters], by simp <;> omega⟩)

/-- Induction over expressions with the elements of a right spine as the premises of `Seq` / `Choice`. -/
theorem PExpr.spine_induction {P : PExpr → Prop}
    (leaf : ∀ e, e.isLeafExpr = true → P e)
    (ident : ∀ name, P (.ident name))
    (posPred : ∀ e, P e → P (.posPred e))
    (negPred : ∀ e, P (.negPred e))
    (seq : ∀ a b, (∀ e, e ∈ a :: b.seqSpine → P e) → P (.seq a b))
    (choice : ∀ a b, (∀ e, e ∈ a :: b.choiceSpine → P e) → P (.choice a b))
    (opt : ∀ e, P e → P (.opt e))
    (rep : ∀ e e' mn mx, e.repParts? = some (e', mn, mx) → P e' → P e)
    (push : ∀ e, P e → P (.push e))
    (restoreOnErr : ∀ e, P e → P (.restoreOnErr e)) : ∀ e, P e := by
  intro e
  generalize hn : sizeOf e = n
  induction n using Nat.strongRecOn generalizing e with
  | _ n ih =>
    subst hn
    cases e with
    | str s => exact leaf _ rfl
    | insens s => exact leaf _ rfl
    | range lo hi => exact leaf _ rfl
    | peekSlice a b => exact leaf _ rfl
    | skip ns => exact leaf _ rfl
    | ident name => exact ident name
    | posPred e => exact posPred e (ih _ (by simp) e rfl)
    | negPred e => exact negPred e
    | seq a b =>
      apply seq; intro e he
      rcases List.mem_cons.mp he with rfl | he
      · exact ih _ (by simp; omega) _ rfl
      · have := seqSpine_size b e he
        exact ih _ (by simp; omega) _ rfl
    | choice a b =>
      apply choice; intro e he
      rcases List.mem_cons.mp he with rfl | he
      · exact ih _ (by simp; omega) _ rfl
      · have := choiceSpine_size b e he
        exact ih _ (by simp; omega) _ rfl
    | opt e => exact opt e (ih _ (by simp) e rfl)
    | rep e => exact rep _ e 0 none rfl (ih _ (by simp) e rfl)
    | repOnce e => exact rep _ e 1 none rfl (ih _ (by simp) e rfl)
    | repExact e k => exact rep _ e k (some k) rfl (ih _ (by simp; omega) e rfl)
    | repMin e k => exact rep _ e k none rfl (ih _ (by simp; omega) e rfl)
    | repMax e k => exact rep _ e 0 (some k) rfl (ih _ (by simp; omega) e rfl)
    | repMinMax e k l => exact rep _ e k (some l) rfl (ih _ (by simp; omega) e rfl)
    | push e => exact push e (ih _ (by simp) e rfl)
    | restoreOnErr e => exact restoreOnErr e (ih _ (by simp) e rfl)

/-! ### which getters exist: the names mentioned outside negative predicates -/

/-- The identifiers of an expression that are not under a negative predicate, in textual order. -/
def PExpr.mentions : PExpr → List String
  | .ident name => [name]
  | .posPred e => e.mentions
  | .negPred _ => []
  | .seq a b => a.mentions ++ b.mentions
  | .choice a b => a.mentions ++ b.mentions
  | .opt e => e.mentions
  | .rep e => e.mentions
  | .repOnce e => e.mentions
  | .repExact e _ => e.mentions
  | .repMin e _ => e.mentions
  | .repMax e _ => e.mentions
  | .repMinMax e _ _ => e.mentions
  | .push e => e.mentions
  | .restoreOnErr e => e.mentions
  | .str _ => []
  | .insens _ => []
  | .range _ _ => []
  | .peekSlice _ _ => []
  | .skip _ => []

theorem mem_mentions_seqSpine (y : String) : ∀ b : PExpr, y ∈ b.mentions ↔ ∃ e, e ∈ b.seqSpine ∧ y ∈ e.mentions := by
  intro b
  induction b with
  | seq a b _ ihb => simp [PExpr.mentions, PExpr.seqSpine, ihb]
  | _ => simp [PExpr.seqSpine]

theorem mem_mentions_choiceSpine (y : String) : ∀ b : PExpr, y ∈ b.mentions ↔ ∃ e, e ∈ b.choiceSpine ∧ y ∈ e.mentions := by
  intro b
  induction b with
  | choice a b _ ihb => simp [PExpr.mentions, PExpr.choiceSpine, ihb]
  | _ => simp [PExpr.choiceSpine]

theorem spineFold_keys (mk : Nat → GEdge) : ∀ (Fs : List Forest) (i : Nat) (acc : Forest), acc.keys.Nodup →
    (spineFold mk i acc Fs).keys.Nodup ∧
    ∀ y, y ∈ (spineFold mk i acc Fs).keys ↔ y ∈ acc.keys ∨ ∃ F, F ∈ Fs ∧ y ∈ Forest.keys F := by
  intro Fs
  induction Fs with
  | nil => intro i acc h; simp [spineFold, h]
  | cons F Fs ih =>
    intro i acc h
    simp only [spineFold]
    obtain ⟨h1, h2⟩ := ih (i+1) _ (Forest.nodup_join (F.prepend (mk i)) acc h)
    refine ⟨h1, fun y => ?_⟩
    rw [h2, Forest.mem_keys_join, Forest.keys_prepend]
    simp only [List.mem_cons, exists_eq_or_imp]
    constructor
    · rintro ((h | h) | h)
      · exact Or.inl h
      · exact Or.inr (Or.inl h)
      · exact Or.inr (Or.inr h)
    · rintro (h | h | h)
      · exact Or.inl (Or.inl h)
      · exact Or.inl (Or.inr h)
      · exact Or.inr h

/-- The accessors of an expression are exactly the names it mentions outside negative predicates, each once. -/
theorem genGetters_keys : ∀ e : PExpr,
    (genGetters e).keys.Nodup ∧ ∀ y, y ∈ (genGetters e).keys ↔ y ∈ e.mentions := by
  apply PExpr.spine_induction
  · intro e he
    cases e <;> simp [PExpr.isLeafExpr] at he <;> simp [genGetters, Forest.keys, PExpr.mentions]
  · intro name; simp [genGetters, Forest.keys, PExpr.mentions]
  · intro e ih; simpa [genGetters, Forest.keys_prepend, PExpr.mentions] using ih
  · intro e; simp [genGetters, Forest.keys, PExpr.mentions]
  · intro a b ih
    rw [genGetters_seq]
    obtain ⟨h1, h2⟩ := spineFold_keys .contentI ((a :: b.seqSpine).map genGetters) 0 [] (by simp [Forest.keys])
    refine ⟨h1, fun y => ?_⟩
    rw [h2]
    simp only [Forest.keys_nil, List.not_mem_nil, false_or, List.mem_map]
    simp only [PExpr.mentions, List.mem_append, mem_mentions_seqSpine y b]
    constructor
    · rintro ⟨F, ⟨e, he, rfl⟩, hy⟩
      have := ((ih e he).2 y).mp hy
      rcases List.mem_cons.mp he with rfl | he
      · exact Or.inl this
      · exact Or.inr ⟨e, he, this⟩
    · rintro (h | ⟨e, he, h⟩)
      · exact ⟨_, ⟨a, by simp, rfl⟩, ((ih a (by simp)).2 y).mpr h⟩
      · exact ⟨_, ⟨e, by simp [he], rfl⟩, ((ih e (by simp [he])).2 y).mpr h⟩
  · intro a b ih
    rw [genGetters_choice]
    obtain ⟨h1, h2⟩ := spineFold_keys .choiceI ((a :: b.choiceSpine).map genGetters) 0 [] (by simp [Forest.keys])
    refine ⟨h1, fun y => ?_⟩
    rw [h2]
    simp only [Forest.keys_nil, List.not_mem_nil, false_or, List.mem_map]
    simp only [PExpr.mentions, List.mem_append, mem_mentions_choiceSpine y b]
    constructor
    · rintro ⟨F, ⟨e, he, rfl⟩, hy⟩
      have := ((ih e he).2 y).mp hy
      rcases List.mem_cons.mp he with rfl | he
      · exact Or.inl this
      · exact Or.inr ⟨e, he, this⟩
    · rintro (h | ⟨e, he, h⟩)
      · exact ⟨_, ⟨a, by simp, rfl⟩, ((ih a (by simp)).2 y).mpr h⟩
      · exact ⟨_, ⟨e, by simp [he], rfl⟩, ((ih e (by simp [he])).2 y).mpr h⟩
  · intro e ih; simpa [genGetters, Forest.keys_prepend, PExpr.mentions] using ih
  · intro e e' mn mx h ih
    rw [(repParts_gen h [] .inh).2.1, Forest.keys_prepend]
    have : e.mentions = e'.mentions := by
      cases e <;> simp [PExpr.repParts?] at h <;> (obtain ⟨rfl, _, _⟩ := h; simp [PExpr.mentions])
    rw [this]; exact ih
  · intro e ih; simpa [genGetters, Forest.keys_prepend, PExpr.mentions] using ih
  · intro e ih; simpa [genGetters, PExpr.mentions] using ih

/-! ### the main induction: every accessor yields the direct references -/

/-- Two lists related element by element. -/
inductive Paired {α β : Type} (R : α → β → Prop) : List α → List β → Prop
  | nil : Paired R [] []
  | cons {a : α} {b : β} {l1 : List α} {l2 : List β} : R a b → Paired R l1 l2 → Paired R (a :: l1) (b :: l2)

/-- For an optional tree: if there is one, its path yields `refs`; if there is none, there are no references. -/
def OptGood (o : Option GNode) (v : Val) (refs : List Val) : Prop :=
  match o with
  | some t => GoodAt t v refs
  | none => refs = []

theorem OptGood.merge {o1 o2 : Option GNode} {v : Val} {r1 r2 : List Val}
    (h1 : OptGood o1 v r1) (h2 : OptGood o2 v r2) : OptGood (mergeOpt o1 o2) v (r1 ++ r2) := by
  cases o1 <;> cases o2 <;> simp only [OptGood, mergeOpt] at h1 h2 ⊢
  · simp [h1, h2]
  · subst h1; simpa using h2
  · subst h2; simpa using h1
  · exact h1.merge h2

theorem OptGood.cast {o : Option GNode} {v : Val} {r r' : List Val} (h : OptGood o v r) (e : r = r') : OptGood o v r' :=
  e ▸ h

/-- The accessor named `x` of forest `f` is good on `v`. -/
def ForestGood (x : String) (f : Forest) (v : Val) (refs : List Val) : Prop := OptGood (f.get? x) v refs

/-- What the induction knows about one element of a spine: its forest has distinct names and its accessor
`x` is good on every value of the element's type. -/
def ElemGood (x : String) (xid : RuleId) (F : Forest) (n : Node) : Prop :=
  (Forest.keys F).Nodup ∧ ∀ lo hi w, HasShape n lo hi w → ForestGood x F w (directRefs xid w)

theorem ForestGood.cast {x : String} {f : Forest} {v : Val} {r r' : List Val} (h : ForestGood x f v r) (e : r = r') :
    ForestGood x f v r' := e ▸ h

theorem spineFold_seq_good (x : String) (xid : RuleId) :
    ∀ (Fs : List Forest) (ns : List Node),
      Paired (ElemGood x xid) Fs ns →
      ∀ (i : Nat) (acc : Forest) (pre post : List Val) (lo hi : Nat), pre.length = i → SeqShape ns lo hi post →
        ForestGood x acc (.mk .seq (pre ++ post)) (directRefsL xid pre) →
        ForestGood x (spineFold .contentI i acc Fs) (.mk .seq (pre ++ post)) (directRefsL xid (pre ++ post)) := by
  intro Fs ns h
  induction h with
  | nil =>
    intro i acc pre post lo hi _ hs hacc
    simp only [SeqShape] at hs
    obtain ⟨rfl, _⟩ := hs
    simpa [spineFold] using hacc
  | @cons F n Fs ns hR _ ih =>
    intro i acc pre post lo hi hlen hs hacc
    simp only [SeqShape] at hs
    obtain ⟨kid, rest, mid, rfl, ⟨skips, w, mid', rfl, _, hw⟩, hrest⟩ := hs
    simp only [spineFold]
    have e1 : pre ++ Val.mk (.skipped skips.length) (skips ++ [w]) :: rest =
        (pre ++ [Val.mk (.skipped skips.length) (skips ++ [w])]) ++ rest := by simp
    rw [e1]
    refine ih (i+1) _ _ rest mid hi (by simp [hlen]) hrest ?_
    rw [← e1]
    unfold ForestGood
    rw [Forest.get?_join _ _ _ (by rw [Forest.keys_prepend]; exact hR.1), Forest.get?_prepend]
    refine (OptGood.merge (r2 := directRefs xid w) hacc ?_).cast ?_
    · have hF := hR.2 _ _ _ hw
      unfold ForestGood at hF
      cases hg : Forest.get? F x with
      | none => rw [hg] at hF; simpa [OptGood] using hF
      | some t =>
        rw [hg] at hF
        simp only [OptGood, Option.map_some] at hF ⊢
        exact hF.sequenceI (skips := skips) (by rw [← hlen]; simp)
    · simp [directRefsL_append, directRefsL, directRefs_skipped]

theorem AltShape.succ_of {n : Node} {ns : List Node} {i idx lo hi : Nat} {w : Val}
    (h : i ≤ idx → AltShape (n :: ns) (idx - i) lo hi w) : i + 1 ≤ idx → AltShape ns (idx - (i+1)) lo hi w := by
  intro hle
  have := h (by omega)
  have e : idx - i = (idx - (i+1)) + 1 := by omega
  rw [e] at this
  simpa [AltShape] using this

theorem spineFold_choice_good (x : String) (xid : RuleId) (N idx lo hi : Nat) (w : Val) :
    ∀ (Fs : List Forest) (ns : List Node),
      Paired (ElemGood x xid) Fs ns →
      ∀ (i : Nat) (acc : Forest), i + Fs.length ≤ N → (i ≤ idx → AltShape ns (idx - i) lo hi w) →
        ForestGood x acc (.mk (.choice N idx) [w]) (if idx < i then directRefs xid w else []) →
        ForestGood x (spineFold .choiceI i acc Fs) (.mk (.choice N idx) [w])
          (if idx < i + Fs.length then directRefs xid w else []) := by
  intro Fs ns h
  induction h with
  | nil => intro i acc _ _ hacc; simpa [spineFold] using hacc
  | @cons F n Fs ns hR _ ih =>
    intro i acc hN halt hacc
    simp only [spineFold, List.length_cons] at hN ⊢
    have e : i + 1 + Fs.length = i + (Fs.length + 1) := by omega
    refine (ih (i+1) _ (by omega) (AltShape.succ_of halt) ?_).cast (by simp only [e])
    unfold ForestGood
    rw [Forest.get?_join _ _ _ (by rw [Forest.keys_prepend]; exact hR.1), Forest.get?_prepend]
    refine (OptGood.merge (r2 := if idx = i then directRefs xid w else []) hacc ?_).cast ?_
    · by_cases hi : idx = i
      · subst hi
        have hw : HasShape n lo hi w := by simpa [AltShape] using halt (Nat.le_refl _)
        have hF := hR.2 _ _ _ hw
        unfold ForestGood at hF
        cases hg : Forest.get? F x with
        | none => rw [hg] at hF; simpa [OptGood] using hF
        | some t =>
          rw [hg] at hF
          simp only [OptGood, Option.map_some, if_true] at hF ⊢
          exact hF.choice_hit (by omega)
      · cases hg : Forest.get? F x with
        | none => simp [OptGood, hi]
        | some t =>
          simp only [OptGood, Option.map_some, hi, if_false]
          exact GoodAt.choice_miss t (by omega) hi w
    · by_cases h1 : idx < i
      · have : idx ≠ i := by omega
        have h2 : idx < i + 1 := by omega
        simp [h1, this, h2]
      · by_cases h2 : idx = i
        · subst h2; simp
        · have h3 : ¬ idx < i + 1 := by omega
          simp [h1, h2, h3]

theorem forall₂_map_of_mem {α β γ : Type} (f : α → β) (g : α → γ) (R : β → γ → Prop) :
    ∀ l : List α, (∀ a, a ∈ l → R (f a) (g a)) → Paired R (l.map f) (l.map g)
  | [], _ => Paired.nil
  | a :: l, h => Paired.cons (h a (by simp)) (forall₂_map_of_mem f g R l (fun b hb => h b (by simp [hb])))

/-- The path generated for the name `x` in `e`, run on any value of `e`'s type, yields exactly the values of
rule `refId x` that the value stores itself, in order, with the announced wrapper type; and when `e` has no
accessor `x` the value stores no such value. -/
theorem genGetters_good (g : PGrammar) (sk : Flag) {x : String} {xid : RuleId} (hx : refId g x = some xid) :
    ∀ e : PExpr, ∀ lo hi v, HasShape (genExpr g sk e) lo hi v →
      ForestGood x (genGetters e) v (directRefs xid v) := by
  apply PExpr.spine_induction
  · -- leaves
    intro e he lo hi v hs
    have : NoRefs xid (genExpr g sk e) := by
      cases e <;> simp [PExpr.isLeafExpr] at he <;> simp only [genExpr] <;> exact noRefs_leaf _ _ rfl
    have hg : genGetters e = [] := by cases e <;> simp [PExpr.isLeafExpr] at he <;> simp only [genGetters]
    simp [ForestGood, hg, Forest.get?, OptGood, this _ _ _ hs]
  · -- identifiers
    intro name lo hi v hs
    obtain ⟨h1, h2⟩ := ident_shape g sk hx name
    simp only [ForestGood, genGetters, Forest.get?_cons, Forest.get?]
    by_cases hn : name = x
    · obtain ⟨f, hf⟩ := h1 hn
      rw [hf] at hs
      simp only [HasShape] at hs
      obtain ⟨em, bx, kids, rfl, _⟩ := hs
      simp only [hn, if_true, OptGood, directRefs_rule]
      exact ⟨.ref (.mk (.rule xid em bx lo hi) kids), by simp [evalGetter], by simp [GNode.typeOf, GVal.hasTy],
        by simp [GVal.flatten]⟩
    · simp only [hn, if_false, OptGood]
      exact h2 hn _ _ _ hs
  · -- positive predicate
    intro e ih lo hi v hs
    simp only [genExpr, HasShape] at hs
    obtain ⟨_, w, hi', rfl, hw⟩ := hs
    have := ih _ _ _ hw
    simp only [ForestGood, genGetters, Forest.get?_prepend, directRefs_pos] at this ⊢
    cases hg : Forest.get? (genGetters e) x with
    | none => rw [hg] at this; simpa [OptGood] using this
    | some t => rw [hg] at this; simp only [OptGood, Option.map_some] at this ⊢; exact this.content_pos
  · -- negative predicate
    intro e lo hi v hs
    simp only [genExpr, HasShape] at hs
    obtain ⟨rfl, _⟩ := hs
    simp [ForestGood, genGetters, Forest.get?, OptGood, directRefs_neg]
  · -- sequence
    intro a b ih lo hi v hs
    rw [genExpr_seq] at hs
    simp only [HasShape] at hs
    obtain ⟨kids, rfl, _, hs⟩ := hs
    rw [genGetters_seq, directRefs_seq]
    have hall : Paired (ElemGood x xid)
        ((a :: b.seqSpine).map genGetters) ((a :: b.seqSpine).map (genExpr g sk)) :=
      forall₂_map_of_mem _ _ _ _ (fun e he => ⟨(genGetters_keys e).1, ih e he⟩)
    have := spineFold_seq_good x xid _ _ hall 0 [] [] kids lo hi rfl hs
      (by simp [ForestGood, Forest.get?, OptGood, directRefsL])
    simpa using this
  · -- choice
    intro a b ih lo hi v hs
    rw [genExpr_choice] at hs
    simp only [HasShape] at hs
    obtain ⟨idx, w, rfl, _, hidx, hs⟩ := hs
    rw [genGetters_choice, directRefs_choice]
    have hall : Paired (ElemGood x xid)
        ((a :: b.choiceSpine).map genGetters) ((a :: b.choiceSpine).map (genExpr g sk)) :=
      forall₂_map_of_mem _ _ _ _ (fun e he => ⟨(genGetters_keys e).1, ih e he⟩)
    have := spineFold_choice_good x xid ((a :: b.choiceSpine).map (genExpr g sk)).length idx lo hi w _ _ hall 0 []
      (by simp) (fun _ => by simpa using hs) (by simp [ForestGood, Forest.get?, OptGood])
    have hlt : idx < 0 + ((a :: b.choiceSpine).map genGetters).length := by simpa using hidx
    rw [if_pos hlt] at this
    exact this
  · -- optional
    intro e ih lo hi v hs
    simp only [genExpr, HasShape] at hs
    simp only [ForestGood, genGetters, Forest.get?_prepend]
    rcases hs with ⟨rfl, _⟩ | ⟨w, rfl, _, hw⟩
    · rw [directRefs_optNone]
      cases hg : Forest.get? (genGetters e) x with
      | none => simp [OptGood]
      | some t => simp only [OptGood, Option.map_some]; exact GoodAt.optional_none t
    · have := ih _ _ _ hw
      rw [directRefs_optSome]
      unfold ForestGood at this
      cases hg : Forest.get? (genGetters e) x with
      | none => rw [hg] at this; simpa [OptGood] using this
      | some t => rw [hg] at this; simp only [OptGood, Option.map_some] at this ⊢; exact this.optional_some
  · -- repetitions
    intro e e' mn mx hp ih lo hi v hs
    obtain ⟨h1, h2, _⟩ := repParts_gen hp g sk
    rw [h1] at hs
    simp only [HasShape] at hs
    obtain ⟨kids, rfl, _, hc⟩ := hs
    simp only [ForestGood, h2, Forest.get?_prepend, directRefs_rep]
    cases hg : Forest.get? (genGetters e') x with
    | none =>
      simp only [OptGood, Option.map_none]
      refine directRefsL_chain_nil (P := HasShape (genExpr g sk e')) ?_ kids lo hi hc
      intro lo hi w hw
      have := ih _ _ _ hw
      simpa [ForestGood, hg, OptGood] using this
    | some t =>
      simp only [OptGood, Option.map_some]
      refine GoodAt.contents (P := HasShape (genExpr g sk e')) ?_ mn mx kids lo hi hc
      intro lo hi w hw
      have := ih _ _ _ hw
      simpa [ForestGood, hg, OptGood] using this
  · -- PUSH
    intro e ih lo hi v hs
    simp only [genExpr, HasShape] at hs
    obtain ⟨w, rfl, _, hw⟩ := hs
    have := ih _ _ _ hw
    simp only [ForestGood, genGetters, Forest.get?_prepend, directRefs_push] at this ⊢
    cases hg : Forest.get? (genGetters e) x with
    | none => rw [hg] at this; simpa [OptGood] using this
    | some t => rw [hg] at this; simp only [OptGood, Option.map_some] at this ⊢; exact this.content_push
  · -- RestoreOnErr is transparent
    intro e ih lo hi v hs
    simp only [genExpr] at hs
    simpa [genGetters] using ih _ _ _ hs

/-! ### order: without lookahead the direct references lie one after the other in the input -/

/-- No positive predicate outside negative ones (a negative predicate stores nothing). -/
def PExpr.noLook : PExpr → Bool
  | .posPred _ => false
  | .negPred _ => true
  | .seq a b => a.noLook && b.noLook
  | .choice a b => a.noLook && b.noLook
  | .opt e => e.noLook
  | .rep e => e.noLook
  | .repOnce e => e.noLook
  | .repExact e _ => e.noLook
  | .repMin e _ => e.noLook
  | .repMax e _ => e.noLook
  | .repMinMax e _ _ => e.noLook
  | .push e => e.noLook
  | .restoreOnErr e => e.noLook
  | .ident _ => true
  | .str _ => true
  | .insens _ => true
  | .range _ _ => true
  | .peekSlice _ _ => true
  | .skip _ => true

/-- Rule values whose spans lie in `[lo, hi]`, each starting at or after the end of the previous one. -/
def SpanChain : Nat → Nat → List Val → Prop
  | lo, hi, [] => lo ≤ hi
  | lo, hi, w :: ws => ∃ s e, w.ruleSpan? = some (s, e) ∧ lo ≤ s ∧ s ≤ e ∧ SpanChain e hi ws

theorem SpanChain.le : ∀ {ws : List Val} {lo hi : Nat}, SpanChain lo hi ws → lo ≤ hi
  | [], _, _, h => h
  | _ :: ws, lo, hi, h => by
    obtain ⟨s, e, _, h1, h2, h3⟩ := h
    have := SpanChain.le h3; omega

theorem SpanChain.widen : ∀ {ws : List Val} {lo lo' hi : Nat}, SpanChain lo hi ws → lo' ≤ lo → SpanChain lo' hi ws
  | [], lo, lo', hi, h, hl => by simp only [SpanChain] at h ⊢; omega
  | _ :: ws, lo, lo', hi, h, hl => by
    obtain ⟨s, e, h0, h1, h2, h3⟩ := h
    exact ⟨s, e, h0, by omega, h2, h3⟩

theorem SpanChain.append : ∀ {a b : List Val} {lo mid hi : Nat},
    SpanChain lo mid a → SpanChain mid hi b → SpanChain lo hi (a ++ b)
  | [], b, lo, mid, hi, ha, hb => by
    simp only [SpanChain] at ha
    simpa using hb.widen ha
  | w :: a, b, lo, mid, hi, ha, hb => by
    obtain ⟨s, e, h0, h1, h2, h3⟩ := ha
    exact ⟨s, e, h0, h1, h2, SpanChain.append h3 hb⟩

theorem SpanChain.nil {lo hi : Nat} (h : lo ≤ hi) : SpanChain lo hi [] := h

theorem noLook_seqSpine : ∀ b : PExpr, b.noLook = true ↔ ∀ e, e ∈ b.seqSpine → e.noLook = true := by
  intro b
  induction b with
  | seq a b _ ihb => simp [PExpr.noLook, PExpr.seqSpine, ihb]
  | _ => simp [PExpr.seqSpine]

theorem noLook_choiceSpine : ∀ b : PExpr, b.noLook = true ↔ ∀ e, e ∈ b.choiceSpine → e.noLook = true := by
  intro b
  induction b with
  | choice a b _ ihb => simp [PExpr.noLook, PExpr.choiceSpine, ihb]
  | _ => simp [PExpr.choiceSpine]

theorem ident_ref_or_noRefs (g : PGrammar) (sk : Flag) (name : String) :
    (∃ r f, genExpr g sk (.ident name) = .ref r f) ∨ ∀ x, NoRefs x (genExpr g sk (.ident name)) := by
  simp only [genExpr]
  cases g.indexOf name with
  | some k => exact Or.inl ⟨_, _, rfl⟩
  | none =>
    by_cases he : name = "EOI"
    · subst he; exact Or.inl ⟨0, .one, by simp [builtinNode]⟩
    · exact Or.inr fun x => noRefs_builtin x name he

/-- What the order induction proves for one expression. -/
def Ordered (g : PGrammar) (sk : Flag) (x : RuleId) (e : PExpr) : Prop :=
  ∀ lo hi v, HasShape (genExpr g sk e) lo hi v → SpanChain lo hi (directRefs x v)

theorem seqShape_ordered (g : PGrammar) (sk : Flag) (x : RuleId) :
    ∀ (es : List PExpr), (∀ e, e ∈ es → Ordered g sk x e) →
      ∀ lo hi kids, SeqShape (es.map (genExpr g sk)) lo hi kids → SpanChain lo hi (directRefsL x kids) := by
  intro es
  induction es with
  | nil =>
    intro _ lo hi kids hs
    simp only [List.map_nil, SeqShape] at hs
    obtain ⟨rfl, rfl⟩ := hs
    exact Nat.le_refl _
  | cons e es ih =>
    intro h lo hi kids hs
    simp only [List.map_cons, SeqShape] at hs
    obtain ⟨kid, rest, mid, rfl, ⟨skips, w, mid', rfl, hle, hw⟩, hrest⟩ := hs
    simp only [directRefsL, directRefs_skipped]
    exact ((h e (by simp) _ _ _ hw).widen hle).append (ih (fun e' he' => h e' (by simp [he'])) _ _ _ hrest)

theorem chain_ordered {x : RuleId} {P : Nat → Nat → Val → Prop}
    (hP : ∀ lo hi w, P lo hi w → SpanChain lo hi (directRefs x w)) :
    ∀ (kids : List Val) (lo hi : Nat), Chain P lo hi kids → SpanChain lo hi (directRefsL x kids) := by
  intro kids
  induction kids with
  | nil => intro lo hi h; simp only [Chain] at h; subst h; exact Nat.le_refl _
  | cons kid rest ih =>
    intro lo hi h
    simp only [Chain] at h
    obtain ⟨mid, ⟨skips, w, mid', rfl, hle, hw⟩, hrest⟩ := h
    simp only [directRefsL, directRefs_skipped]
    exact ((hP _ _ _ hw).widen hle).append (ih _ _ hrest)

/-- Without positive lookahead, the values of rule `x` stored in a value of `e`'s type lie in the value's own
range, in order of occurrence and without overlap. -/
theorem directRefs_ordered (g : PGrammar) (sk : Flag) (x : RuleId) :
    ∀ e : PExpr, e.noLook = true → Ordered g sk x e := by
  apply PExpr.spine_induction
  · intro e he _ lo hi v hs
    have : NoRefs x (genExpr g sk e) := by
      cases e <;> simp [PExpr.isLeafExpr] at he <;> simp only [genExpr] <;> exact noRefs_leaf _ _ rfl
    rw [this _ _ _ hs]; exact HasShape.le _ hs
  · intro name _ lo hi v hs
    rcases ident_ref_or_noRefs g sk name with ⟨r, f, hr⟩ | hn
    · rw [hr] at hs
      simp only [HasShape] at hs
      obtain ⟨em, bx, kids, rfl, hle⟩ := hs
      rw [directRefs_rule]
      split
      · exact ⟨lo, hi, rfl, Nat.le_refl _, hle, Nat.le_refl _⟩
      · exact hle
    · rw [hn x _ _ _ hs]; exact HasShape.le _ hs
  · intro e _ hl; simp [PExpr.noLook] at hl
  · intro e _ lo hi v hs
    simp only [genExpr, HasShape] at hs
    obtain ⟨rfl, rfl⟩ := hs
    rw [directRefs_neg]; exact Nat.le_refl _
  · intro a b ih hl lo hi v hs
    rw [genExpr_seq] at hs
    simp only [HasShape] at hs
    obtain ⟨kids, rfl, _, hs⟩ := hs
    rw [directRefs_seq]
    simp only [PExpr.noLook, Bool.and_eq_true] at hl
    refine seqShape_ordered g sk x (a :: b.seqSpine) ?_ lo hi kids hs
    intro e he
    rcases List.mem_cons.mp he with rfl | he'
    · exact ih _ he hl.1
    · exact ih _ he ((noLook_seqSpine b).mp hl.2 e he')
  · intro a b ih hl lo hi v hs
    rw [genExpr_choice] at hs
    simp only [HasShape] at hs
    obtain ⟨idx, w, rfl, _, _, hs⟩ := hs
    rw [directRefs_choice]
    simp only [PExpr.noLook, Bool.and_eq_true] at hl
    obtain ⟨n, hn, hw⟩ := AltShape.mem _ _ _ _ _ hs
    obtain ⟨e, he, rfl⟩ := List.mem_map.mp hn
    refine ih e he ?_ _ _ _ hw
    rcases List.mem_cons.mp he with rfl | he'
    · exact hl.1
    · exact (noLook_choiceSpine b).mp hl.2 e he'
  · intro e ih hl lo hi v hs
    simp only [genExpr, HasShape] at hs
    simp only [PExpr.noLook] at hl
    rcases hs with ⟨rfl, rfl⟩ | ⟨w, rfl, _, hw⟩
    · rw [directRefs_optNone]; exact Nat.le_refl _
    · rw [directRefs_optSome]; exact ih hl _ _ _ hw
  · intro e e' mn mx hp ih hl lo hi v hs
    obtain ⟨h1, _, _⟩ := repParts_gen hp g sk
    rw [h1] at hs
    simp only [HasShape] at hs
    obtain ⟨kids, rfl, _, hc⟩ := hs
    have hl' : e'.noLook = true := by
      cases e <;> simp [PExpr.repParts?] at hp <;> (obtain ⟨rfl, _, _⟩ := hp; simpa [PExpr.noLook] using hl)
    rw [directRefs_rep]
    exact chain_ordered (P := HasShape (genExpr g sk e')) (fun lo hi w hw => ih hl' lo hi w hw) kids lo hi hc
  · intro e ih hl lo hi v hs
    simp only [genExpr, HasShape] at hs
    simp only [PExpr.noLook] at hl
    obtain ⟨w, rfl, _, hw⟩ := hs
    rw [directRefs_push]; exact ih hl _ _ _ hw
  · intro e ih hl lo hi v hs
    simp only [genExpr] at hs
    simp only [PExpr.noLook] at hl
    exact ih hl _ _ _ hs

theorem SpanChain.pairwise : ∀ {ws : List Val} {lo hi : Nat}, SpanChain lo hi ws →
    (∀ w, w ∈ ws → ∃ s e, w.ruleSpan? = some (s, e) ∧ lo ≤ s ∧ s ≤ e ∧ e ≤ hi) ∧
    ws.Pairwise (fun a b => ∃ sa ea sb eb, a.ruleSpan? = some (sa, ea) ∧ b.ruleSpan? = some (sb, eb) ∧ ea ≤ sb)
  | [], _, _, _ => ⟨by simp, List.Pairwise.nil⟩
  | w :: ws, lo, hi, h => by
    obtain ⟨s, e, h0, h1, h2, h3⟩ := h
    obtain ⟨hall, hpw⟩ := SpanChain.pairwise h3
    have hle := h3.le
    refine ⟨?_, List.Pairwise.cons ?_ hpw⟩
    · intro w' hw'
      rcases List.mem_cons.mp hw' with rfl | hw'
      · exact ⟨s, e, h0, h1, h2, hle⟩
      · obtain ⟨s', e', g0, g1, g2, g3⟩ := hall w' hw'
        exact ⟨s', e', g0, by omega, g2, g3⟩
    · intro b hb
      obtain ⟨s', e', g0, g1, _, _⟩ := hall b hb
      exact ⟨s, e, s', e', h0, g0, g1⟩

/-! ### identity: the references are sub-values -/

/-- `w` is a value of rule `x`. -/
def IsRuleVal (x : RuleId) (w : Val) : Prop := ∃ em bx s e kids, w = .mk (.rule x em bx s e) kids

theorem Val.mem_subvalues_self (v : Val) : v ∈ v.subvalues := by
  cases v; simp [Val.subvalues]

mutual
theorem directRefs_sub (x : RuleId) : ∀ (v w : Val), w ∈ directRefs x v → w ∈ v.subvalues ∧ IsRuleVal x w
  | .mk t kids, w, h => by
    cases t
    case rule r em bx s e =>
      simp only [directRefs] at h
      split at h
      · next hr =>
        simp only [List.mem_singleton] at h
        subst h; subst hr
        exact ⟨Val.mem_subvalues_self _, _, _, _, _, _, rfl⟩
      · cases h
    case neg => simp [directRefs] at h
    case skipped n =>
      simp only [directRefs] at h
      have := directRefsNth_sub x n kids w h
      exact ⟨by simp [Val.subvalues, this.1], this.2⟩
    all_goals
      simp only [directRefs] at h
      have := directRefsL_sub x kids w h
      exact ⟨by simp [Val.subvalues, this.1], this.2⟩
theorem directRefsL_sub (x : RuleId) : ∀ (vs : List Val) (w : Val), w ∈ directRefsL x vs →
    w ∈ Val.subvaluesL vs ∧ IsRuleVal x w
  | [], w, h => by simp [directRefsL] at h
  | v :: vs, w, h => by
    simp only [directRefsL, List.mem_append] at h
    rcases h with h | h
    · have := directRefs_sub x v w h
      exact ⟨by simp [Val.subvaluesL, this.1], this.2⟩
    · have := directRefsL_sub x vs w h
      exact ⟨by simp [Val.subvaluesL, this.1], this.2⟩
theorem directRefsNth_sub (x : RuleId) : ∀ (n : Nat) (vs : List Val) (w : Val), w ∈ directRefsNth x n vs →
    w ∈ Val.subvaluesL vs ∧ IsRuleVal x w
  | _, [], w, h => by simp [directRefsNth] at h
  | 0, v :: vs, w, h => by
    simp only [directRefsNth] at h
    have := directRefs_sub x v w h
    exact ⟨by simp [Val.subvaluesL, this.1], this.2⟩
  | n+1, v :: vs, w, h => by
    simp only [directRefsNth] at h
    have := directRefsNth_sub x n vs w h
    exact ⟨by simp [Val.subvaluesL, this.1], this.2⟩
end

/-! ### paths are projections: whatever a path returns is a sub-value of the value it was run on
(no shape assumption) -/

theorem Val.mem_subvaluesL {k : Val} : ∀ {kids : List Val}, k ∈ kids → ∀ w, w ∈ k.subvalues → w ∈ Val.subvaluesL kids
  | [], h, _, _ => by cases h
  | k' :: kids, h, w, hw => by
    simp only [Val.subvaluesL, List.mem_append]
    rcases List.mem_cons.mp h with rfl | h
    · exact Or.inl hw
    · exact Or.inr (Val.mem_subvaluesL h w hw)

theorem Val.subvalues_kid {t : Tag} {kids : List Val} {k : Val} (hk : k ∈ kids) (w : Val) (hw : w ∈ k.subvalues) :
    w ∈ (Val.mk t kids).subvalues := by
  simp only [Val.subvalues, List.mem_cons]
  exact Or.inr (Val.mem_subvaluesL hk w hw)

theorem optWrap_flatten {flat : Bool} {r r' : GVal} (h : optWrap flat r = some r') : r'.flatten = r.flatten := by
  unfold optWrap at h
  split at h
  · split at h
    · injection h with h; subst h; rfl
    · injection h with h; subst h; rfl
    · cases h
  · injection h with h; subst h; rfl

theorem mapOpt_projects {f : Val → Option GVal}
    (H : ∀ v gv, f v = some gv → ∀ w, w ∈ gv.flatten → w ∈ v.subvalues) :
    ∀ (kids : List Val) (rs : List GVal), mapOpt (evalMatched f) kids = some rs →
      ∀ w, w ∈ GVal.flattenL rs → w ∈ Val.subvaluesL kids
  | [], rs, h, w, hw => by
    simp only [mapOpt] at h; injection h with h; subst h; simp [GVal.flattenL] at hw
  | kid :: kids, rs, h, w, hw => by
    simp only [mapOpt] at h
    cases h1 : evalMatched f kid with
    | none => simp [h1] at h
    | some r =>
      cases h2 : mapOpt (evalMatched f) kids with
      | none => simp [h1, h2] at h
      | some rs' =>
        simp only [h1, h2] at h; injection h with h; subst h
        simp only [GVal.flattenL, List.mem_append] at hw
        simp only [Val.subvaluesL, List.mem_append]
        rcases hw with hw | hw
        · left
          unfold evalMatched at h1
          cases kid with
          | mk t ks =>
            cases t <;> simp only [Val.matched?] at h1 <;> try (cases h1)
            next n =>
              cases hk : ks[n]? with
              | none => simp [hk] at h1
              | some k =>
                simp only [hk] at h1
                exact Val.subvalues_kid (List.mem_of_getElem? hk) w (H _ _ h1 w hw)
        · exact Or.inr (mapOpt_projects H kids rs' h2 w hw)

mutual
theorem evalGetter_projects : ∀ (t : GNode) (v : Val) (gv : GVal), evalGetter t v = some gv →
    ∀ w, w ∈ gv.flatten → w ∈ v.subvalues
  | .rule _, v, gv, h, w, hw => by
    simp only [evalGetter] at h; injection h with h; subst h
    simp only [GVal.flatten, List.mem_singleton] at hw; subst hw
    exact Val.mem_subvalues_self _
  | .content g, v, gv, h, w, hw => by
    simp only [evalGetter] at h
    cases hk : v.contentKid? with
    | none => simp [hk] at h
    | some k =>
      simp only [hk] at h
      have := evalGetter_projects g k gv h w hw
      unfold Val.contentKid? at hk
      split at hk
      · injection hk with hk; subst hk; exact Val.subvalues_kid (List.mem_singleton.mpr rfl) w this
      · injection hk with hk; subst hk; exact Val.subvalues_kid (List.mem_singleton.mpr rfl) w this
      · cases hk
  | .sequenceI i g, v, gv, h, w, hw => by
    simp only [evalGetter] at h
    cases hk : v.seqKid? i with
    | none => simp [hk] at h
    | some k =>
      simp only [hk] at h
      have := evalGetter_projects g k gv h w hw
      unfold Val.seqKid? at hk
      split at hk
      · next kids =>
        cases hkid : kids[i]? with
        | none => simp [hkid] at hk
        | some kid =>
          simp only [hkid] at hk
          cases kid with
          | mk t ks =>
            cases t <;> simp only [Val.matched?] at hk <;> try (cases hk)
            next n =>
              exact Val.subvalues_kid (List.mem_of_getElem? hkid) w
                (Val.subvalues_kid (List.mem_of_getElem? hk) w this)
      · cases hk
  | .choiceI i flat g, v, gv, h, w, hw => by
    simp only [evalGetter] at h
    cases hk : v.choiceSel? i with
    | none => simp [hk] at h
    | some o =>
      cases o with
      | none => simp only [hk] at h; injection h with h; subst h; simp [GVal.flatten] at hw
      | some k =>
        simp only [hk] at h
        cases hr : evalGetter g k with
        | none => simp [hr] at h
        | some r =>
          simp only [hr] at h
          rw [optWrap_flatten h] at hw
          have := evalGetter_projects g k r hr w hw
          unfold Val.choiceSel? at hk
          split at hk
          · split at hk
            · split at hk
              · injection hk with hk; injection hk with hk; subst hk
                exact Val.subvalues_kid (List.mem_singleton.mpr rfl) w this
              · injection hk with hk; cases hk
            · cases hk
          · cases hk
  | .optional flat g, v, gv, h, w, hw => by
    simp only [evalGetter] at h
    cases hk : v.optSel? with
    | none => simp [hk] at h
    | some o =>
      cases o with
      | none => simp only [hk] at h; injection h with h; subst h; simp [GVal.flatten] at hw
      | some k =>
        simp only [hk] at h
        cases hr : evalGetter g k with
        | none => simp [hr] at h
        | some r =>
          simp only [hr] at h
          rw [optWrap_flatten h] at hw
          have := evalGetter_projects g k r hr w hw
          unfold Val.optSel? at hk
          split at hk
          · injection hk with hk; cases hk
          · injection hk with hk; injection hk with hk; subst hk
            exact Val.subvalues_kid (List.mem_singleton.mpr rfl) w this
          · cases hk
  | .contents g, v, gv, h, w, hw => by
    simp only [evalGetter] at h
    cases hk : v.repKids? with
    | none => simp [hk] at h
    | some kids =>
      simp only [hk] at h
      cases hm : mapOpt (evalMatched (evalGetter g)) kids with
      | none => simp [hm] at h
      | some rs =>
        simp only [hm] at h; injection h with h; subst h
        simp only [GVal.flatten] at hw
        have := mapOpt_projects (evalGetter_projects g) kids rs hm w hw
        unfold Val.repKids? at hk
        split at hk
        · injection hk with hk; subst hk
          simp only [Val.subvalues, List.mem_cons]; exact Or.inr this
        · cases hk
  | .tuple gs, v, gv, h, w, hw => by
    simp only [evalGetter] at h
    cases hm : evalGetters gs v with
    | none => simp [hm] at h
    | some rs =>
      simp only [hm] at h; injection h with h; subst h
      simp only [GVal.flatten] at hw
      exact evalGetters_projects gs v rs hm w hw
theorem evalGetters_projects : ∀ (ts : List GNode) (v : Val) (rs : List GVal), evalGetters ts v = some rs →
    ∀ w, w ∈ GVal.flattenL rs → w ∈ v.subvalues
  | [], v, rs, h, w, hw => by
    simp only [evalGetters] at h; injection h with h; subst h; simp [GVal.flattenL] at hw
  | t :: ts, v, rs, h, w, hw => by
    simp only [evalGetters] at h
    cases h1 : evalGetter t v with
    | none => simp [h1] at h
    | some r =>
      cases h2 : evalGetters ts v with
      | none => simp [h1, h2] at h
      | some rs' =>
        simp only [h1, h2] at h; injection h with h; subst h
        simp only [GVal.flattenL, List.mem_append] at hw
        rcases hw with hw | hw
        · exact evalGetter_projects t v r h1 w hw
        · exact evalGetters_projects ts v rs' h2 w hw
end

end PestTyped
