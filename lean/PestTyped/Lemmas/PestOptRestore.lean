/-
Lemmas.PestOptRestore — pest_meta's `restore_on_err` pass (`restoreExpr`, Model/PestOpt.lean) preserves
the reference semantics in every grammar and under every flag: it only inserts `RestoreOnErr` wrappers,
which `spec` ignores (the reference stack is immutable, so there is nothing to restore).  Which children
get wrapped (`child_modifies_state`, with its cache) is irrelevant for the semantics.
-/
import PestTyped.Lemmas.PestOptTraversal
namespace PestTyped

section
variable {g : PGrammar} {uni : Uni} {na : Bool}

theorem restore_wrap_equiv (g0 : PGrammar) (x : PExpr) : SpecEquiv g g uni na x (wrapIfModifies g0 x) := by
  unfold wrapIfModifies
  split
  · exact (SpecEquiv.restoreOnErr_elim g uni na x).symm
  · exact SpecEquiv.refl _ _ _ _

theorem restoreClosure_equiv (g0 : PGrammar) : ∀ e, SpecEquiv g g uni na e (restoreClosure g0 e) := by
  intro e
  unfold restoreClosure
  split
  · exact SpecEquiv.opt (restore_wrap_equiv g0 _)
  · exact SpecEquiv.choice (restore_wrap_equiv g0 _) (restore_wrap_equiv g0 _)
  · exact SpecEquiv.rep (SkipEquiv.refl g uni) (restore_wrap_equiv g0 _)
  · exact SpecEquiv.refl _ _ _ _

end

/-- `restore_on_err` (whatever rule map `g0` it consults) preserves the meaning of an expression in every
grammar `g`, atomic or not. -/
theorem restoreExpr_equiv (g g0 : PGrammar) (uni : Uni) (na : Bool) (e : PExpr) :
    SpecEquiv g g uni na e (restoreExpr g0 e) :=
  mapBottomUpOpt_equiv _ (restoreClosure_equiv g0) e

/-- non-vacuity: `(PUSH("a"))* ~ ("b" | POP)` gets two wrappers. -/
example : restoreExpr [] (.seq (.rep (.push (.str ['a']))) (.choice (.str ['b']) (.ident "POP"))) =
    .seq (.rep (.restoreOnErr (.push (.str ['a'])))) (.choice (.str ['b']) (.restoreOnErr (.ident "POP"))) := by decide

/-- The quirk observed on pest_meta: a wrapper that has just been built hides what is below it, so the
outer `?` of `(PUSH("x")?)?` is not wrapped. -/
example : restoreExpr [] (.opt (.opt (.push (.str ['x'])))) = .opt (.opt (.restoreOnErr (.push (.str ['x'])))) := by decide

end PestTyped
