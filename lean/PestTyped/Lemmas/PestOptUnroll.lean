/-
Lemmas.PestOptUnroll — pest_meta's `unroll` pass (`optimizer/unroller.rs`; mirror: `unrollClosure`,
`unrollExpr`, `seqOf` of `Model/PestOpt.lean`) against the reference semantics (`Lemmas/SpecDen.lean`).

The pass rewrites, bottom-up,
  `x+ ↦ x ~ x*`, `x{n} ↦ x ~ … ~ x`, `x{n,} ↦ x ~ … ~ x ~ x*`, `x{,m} ↦ x? ~ … ~ x?`,
  `x{n,m} ↦` for i in 1..=m: `x` if i ≤ n else `x?`.
It is NOT semantics preserving in general (findings F-OPT-3, F-OPT-4; `Props/C20.lean`:
`C20_counterexample_reponce_skip`, `C20_counterexample_minmax_inverted`; at the level of `spec`:
`unroll_repOnce_not_equiv_skip`, `unroll_repMinMax_not_equiv_inverted` below).  Proved here: it IS, under
  (C1) `NoSkipCtx g na`: atomic context, or the grammar defines neither WHITESPACE nor COMMENT
       (the implicit skip is then the identity: `DenSkip_noRules`, `NoSkipCtx.skipIf`);
  (C2) `n ≤ m` on every `x{n,m}` (`unrollSafeNode` / `unrollSafe`, which also ask `1 ≤ n` for `x{n}` and
       `1 ≤ m` for `x{,m}`, `x{n,m}`: the forms on which the Rust code does not panic; the mirror leaves
       `x{0}`, `x{,0}`, `x{n,0}` unchanged, and the local equivalences below do not need these `1 ≤`).

Contents
1. `NoSkipCtx`, `DenSkip_noRules`, `NoSkipCtx.skipIf(_na/_before)`, `Den_seq_noskip`, `DenUnit_noskip`.
2. `DenList` (running the items one after the other), `DenList_append`, `Den_seqOf`
   (`seqOf items = some e → (Den e ↔ DenList items)`).
3. `DenCount` (plain counting loop over `Den x`), `DenRep_noskip`, the list forms
   `DenCount_bounded_list` (n mandatory then m - n optional copies), `DenCount_unbounded_list`, and
   `Den_repOnce_list`, `Den_repExact_list`, `Den_repMin_list`, `Den_repMax_list`, `Den_repMinMax_list`.
4. `unroll_repOnce_equiv`, `unroll_repExact_equiv`, `unroll_repMin_equiv`, `unroll_repMax_equiv`,
   `unroll_repMinMax_equiv`; `unrollSafeNode`, `unrollSafe`, `unrollClosure_equiv`, `unrollExpr_equiv`,
   `unrollExpr_equiv_body`.
5. the `list` pass (`lister.rs`): `ListSafe`, `lister_equiv`, `listClosure_equiv`.
6. non-vacuity, and the two negative witnesses.
-/
import PestTyped.Lemmas.PestOptTraversal
namespace PestTyped

/-! ## 1. Contexts without implicit skipping -/

/-- The implicit skip is the identity: atomic context, or no WHITESPACE / COMMENT rule. -/
def NoSkipCtx (g : PGrammar) (na : Bool) : Prop :=
  na = false ∨ (g.defines "WHITESPACE" = false ∧ g.defines "COMMENT" = false)

theorem NoSkipCtx.of_atomic (g : PGrammar) : NoSkipCtx g false := .inl rfl

theorem NoSkipCtx.of_noRules {g : PGrammar} (hW : g.defines "WHITESPACE" = false)
    (hC : g.defines "COMMENT" = false) (na : Bool) : NoSkipCtx g na := .inr ⟨hW, hC⟩

section NoSkip
variable {g : PGrammar} {uni : Uni} {na : Bool} {i : Inp} {S : List Sp} {r : SR}

theorem DenSkipUnit_noRules (hW : g.defines "WHITESPACE" = false) (hC : g.defines "COMMENT" = false) :
    DenSkipUnit g uni i S r ↔ r = .fail := by
  rw [DenSkipUnit_iff]
  simp only [hW, DenSkipC, hC, Bool.false_eq_true, false_and, false_or, true_and]

/-- Without skip rules the implicit skip does nothing. -/
theorem DenSkip_noRules (hW : g.defines "WHITESPACE" = false) (hC : g.defines "COMMENT" = false) :
    DenSkip g uni i S r ↔ r = .ok i S := by
  rw [DenSkip_unfold]
  constructor
  · rintro (⟨_, h⟩ | ⟨i', S', h, _⟩)
    · exact h
    · exact absurd ((DenSkipUnit_noRules hW hC).mp h) nofun
  · intro h; exact .inl ⟨(DenSkipUnit_noRules hW hC).mpr rfl, h⟩

/-- Under `NoSkipCtx g na` every skip guarded by a flag that implies `na` is the identity. -/
theorem NoSkipCtx.skipIf (h : NoSkipCtx g na) {b : Bool} (hb : b = true → na = true) :
    DenSkipIf g uni b i S r ↔ r = .ok i S := by
  cases b with
  | false => exact DenSkipIf_false
  | true =>
    rw [DenSkipIf_true]
    rcases h with h | ⟨hW, hC⟩
    · rw [hb rfl] at h; cases h
    · exact DenSkip_noRules hW hC

theorem NoSkipCtx.skipIf_na (h : NoSkipCtx g na) : DenSkipIf g uni na i S r ↔ r = .ok i S :=
  h.skipIf (fun x => x)

theorem skipsBefore_imp_na {na : Bool} {idx : Nat} (h : skipsBefore na idx = true) : na = true := by
  cases na with
  | false => rw [skipsBefore_false] at h; cases h
  | true => rfl

theorem NoSkipCtx.skipIf_before (h : NoSkipCtx g na) (idx : Nat) :
    DenSkipIf g uni (skipsBefore na idx) i S r ↔ r = .ok i S :=
  h.skipIf skipsBefore_imp_na

/-- `a ~ b` without implicit skipping. -/
theorem Den_seq_noskip (h : NoSkipCtx g na) {a b : PExpr} : Den g uni na (.seq a b) i S r ↔
    (Den g uni na a i S .fail ∧ r = .fail) ∨
      ∃ i1 S1, Den g uni na a i S (.ok i1 S1) ∧ Den g uni na b i1 S1 r := by
  rw [Den_seq]
  constructor
  · rintro (h1 | ⟨i1, S1, i2, S2, ha, hs, hb⟩)
    · exact .inl h1
    · have := h.skipIf_na.mp hs
      injection this with h1 h2
      subst h1; subst h2
      exact .inr ⟨_, _, ha, hb⟩
  · rintro (h1 | ⟨i1, S1, ha, hb⟩)
    · exact .inl h1
    · exact .inr ⟨i1, S1, i1, S1, ha, h.skipIf_na.mpr rfl, hb⟩

/-- An iteration of a repetition without implicit skipping is the body. -/
theorem DenUnit_noskip (h : NoSkipCtx g na) {e : PExpr} {idx : Nat} :
    DenUnit g uni na e idx i S r ↔ Den g uni na e i S r := by
  unfold DenUnit
  constructor
  · rintro ⟨i1, S1, hs, he⟩
    have := (h.skipIf_before idx).mp hs
    injection this with h1 h2
    subst h1; subst h2; exact he
  · intro he; exact ⟨i, S, (h.skipIf_before idx).mpr rfl, he⟩

end NoSkip

/-! ## 2. Lists of items run one after the other; `seqOf` -/

/-- The items one after the other (no implicit skip in between); the first failure fails the list. -/
def DenList (g : PGrammar) (uni : Uni) (na : Bool) : List PExpr → Inp → List Sp → SR → Prop
  | [], i, S, r => r = .ok i S
  | e :: es, i, S, r => (Den g uni na e i S .fail ∧ r = .fail) ∨
      ∃ i1 S1, Den g uni na e i S (.ok i1 S1) ∧ DenList g uni na es i1 S1 r

section DenList
variable {g : PGrammar} {uni : Uni} {na : Bool} {i : Inp} {S : List Sp} {r : SR}

theorem DenList_nil : DenList g uni na [] i S r ↔ r = .ok i S := Iff.rfl

theorem DenList_cons {e : PExpr} {es : List PExpr} : DenList g uni na (e :: es) i S r ↔
    (Den g uni na e i S .fail ∧ r = .fail) ∨
      ∃ i1 S1, Den g uni na e i S (.ok i1 S1) ∧ DenList g uni na es i1 S1 r := Iff.rfl

theorem DenList_singleton {e : PExpr} : DenList g uni na [e] i S r ↔ Den g uni na e i S r := by
  rw [DenList_cons]
  constructor
  · rintro (⟨h, rfl⟩ | ⟨i1, S1, h, rfl⟩) <;> exact h
  · intro h
    cases r with
    | oof => exact absurd rfl h.ne_oof
    | fail => exact .inl ⟨h, rfl⟩
    | ok i1 S1 => exact .inr ⟨i1, S1, h, rfl⟩

theorem DenList.ne_oof : ∀ {items : List PExpr} {i : Inp} {S : List Sp} {r : SR},
    DenList g uni na items i S r → r ≠ .oof
  | [], _, _, _, h => by rw [DenList_nil.mp h]; nofun
  | _ :: _, _, _, _, h => by
    rcases DenList_cons.mp h with ⟨_, rfl⟩ | ⟨_, _, _, h'⟩
    · nofun
    · exact DenList.ne_oof h'

theorem DenList.det : ∀ {items : List PExpr} {i : Inp} {S : List Sp} {r r' : SR},
    DenList g uni na items i S r → DenList g uni na items i S r' → r = r'
  | [], _, _, _, _, h, h' => by rw [DenList_nil.mp h, DenList_nil.mp h']
  | _ :: _, _, _, _, _, h, h' => by
    rcases DenList_cons.mp h with ⟨hf, rfl⟩ | ⟨i1, S1, ho, hl⟩ <;>
      rcases DenList_cons.mp h' with ⟨hf', rfl⟩ | ⟨i2, S2, ho', hl'⟩
    · rfl
    · exact absurd (hf.det ho') nofun
    · exact absurd (hf'.det ho) nofun
    · have := ho.det ho'
      injection this with h1 h2
      subst h1; subst h2
      exact DenList.det hl hl'

/-- Concatenation of item lists = sequential composition. -/
theorem DenList_append : ∀ {xs ys : List PExpr} {i : Inp} {S : List Sp} {r : SR},
    DenList g uni na (xs ++ ys) i S r ↔
      (DenList g uni na xs i S .fail ∧ r = .fail) ∨
        ∃ i1 S1, DenList g uni na xs i S (.ok i1 S1) ∧ DenList g uni na ys i1 S1 r
  | [], ys, i, S, r => by
    rw [List.nil_append]
    constructor
    · intro h; exact .inr ⟨i, S, rfl, h⟩
    · rintro (⟨h, _⟩ | ⟨i1, S1, h, hl⟩)
      · exact absurd (DenList_nil.mp h) nofun
      · have := DenList_nil.mp h
        injection this with h1 h2
        subst h1; subst h2; exact hl
  | x :: xs, ys, i, S, r => by
    rw [List.cons_append, DenList_cons]
    constructor
    · rintro (⟨hf, rfl⟩ | ⟨i1, S1, ho, hl⟩)
      · exact .inl ⟨.inl ⟨hf, rfl⟩, rfl⟩
      · rcases DenList_append.mp hl with ⟨hf, rfl⟩ | ⟨i2, S2, h2, hy⟩
        · exact .inl ⟨.inr ⟨i1, S1, ho, hf⟩, rfl⟩
        · exact .inr ⟨i2, S2, .inr ⟨i1, S1, ho, h2⟩, hy⟩
    · rintro (⟨h, rfl⟩ | ⟨i2, S2, h, hy⟩)
      · rcases DenList_cons.mp h with ⟨hf, _⟩ | ⟨i1, S1, ho, hl⟩
        · exact .inl ⟨hf, rfl⟩
        · exact .inr ⟨i1, S1, ho, DenList_append.mpr (.inl ⟨hl, rfl⟩)⟩
      · rcases DenList_cons.mp h with ⟨_, h0⟩ | ⟨i1, S1, ho, hl⟩
        · cases h0
        · exact .inr ⟨i1, S1, ho, DenList_append.mpr (.inr ⟨i2, S2, hl, hy⟩)⟩

end DenList

/-- A non-empty list has a right-nested sequence. -/
theorem seqOf_cons_isSome : ∀ (es : List PExpr) (e : PExpr), ∃ t, seqOf (e :: es) = some t
  | [], e => ⟨e, rfl⟩
  | b :: es, e => by
    obtain ⟨t, ht⟩ := seqOf_cons_isSome es b
    exact ⟨.seq e t, by simp only [seqOf, ht]⟩

theorem seqOf_cons_cons {a b : PExpr} {es : List PExpr} {t : PExpr} (ht : seqOf (b :: es) = some t) :
    seqOf (a :: b :: es) = some (.seq a t) := by
  simp only [seqOf, ht]

/-- `seqOf`: the right-nested sequence of a non-empty list of items runs them one after the other. -/
theorem Den_seqOf {g : PGrammar} {uni : Uni} {na : Bool} (hctx : NoSkipCtx g na) :
    ∀ (items : List PExpr) (e : PExpr), seqOf items = some e →
      ∀ i S r, Den g uni na e i S r ↔ DenList g uni na items i S r
  | [], e, h => by cases h
  | [a], e, h => by
    have : a = e := by injection h
    subst this
    intro i S r; exact DenList_singleton.symm
  | a :: b :: es, e, h => by
    obtain ⟨t, ht⟩ := seqOf_cons_isSome es b
    rw [seqOf_cons_cons ht] at h
    have : PExpr.seq a t = e := by injection h
    subst this
    intro i S r
    rw [Den_seq_noskip hctx, DenList_cons]
    simp only [Den_seqOf hctx (b :: es) t ht]

/-! ## 3. The repetition loop without implicit skipping -/

/-- The plain counting loop over `Den x`: iterations `idx, idx+1, …`, stop at `max` or at the first
failing iteration, fail when fewer than `min` matched. -/
def DenCount (g : PGrammar) (uni : Uni) (na : Bool) (x : PExpr) (min : Nat) (max : Option Nat) (idx : Nat)
    (i : Inp) (S : List Sp) (r : SR) : Prop :=
  RepSem (fun _ => Den g uni na x) min max idx i S r

section Count
variable {g : PGrammar} {uni : Uni} {na : Bool} {x : PExpr} {min : Nat} {max : Option Nat} {idx : Nat}
  {i : Inp} {S : List Sp} {r : SR}

/-- Under `NoSkipCtx` the repetition loop is the plain counting loop. -/
theorem DenRep_noskip (h : NoSkipCtx g na) :
    DenRep g uni na x min max idx i S r ↔ DenCount g uni na x min max idx i S r := by
  rw [DenRep_iff_sem]
  exact RepSem.congr (fun _ _ _ _ => DenUnit_noskip h)

theorem DenCount_unfold : DenCount g uni na x min max idx i S r ↔
    (max = some idx ∧ r = repStop min idx i S) ∨
    (max ≠ some idx ∧ Den g uni na x i S .fail ∧ r = repStop min idx i S) ∨
    (max ≠ some idx ∧ ∃ i' S', Den g uni na x i S (.ok i' S') ∧ DenCount g uni na x min max (idx+1) i' S' r) :=
  RepSem_unfold

/-- A mandatory iteration: behaves like the head of a sequence. -/
theorem DenCount_mandatory (hlt : idx < min) (hmax : max ≠ some idx) :
    DenCount g uni na x min max idx i S r ↔
      (Den g uni na x i S .fail ∧ r = .fail) ∨
        ∃ i1 S1, Den g uni na x i S (.ok i1 S1) ∧ DenCount g uni na x min max (idx+1) i1 S1 r := by
  have hs : repStop min idx i S = .fail := by simp only [repStop, if_pos hlt]
  rw [DenCount_unfold, hs]
  constructor
  · rintro (⟨h, _⟩ | ⟨_, hf, hr⟩ | ⟨_, i', S', hu, hr⟩)
    · exact absurd h hmax
    · exact .inl ⟨hf, hr⟩
    · exact .inr ⟨_, _, hu, hr⟩
  · rintro (⟨hf, hr⟩ | ⟨i', S', hu, hr⟩)
    · exact .inr (.inl ⟨hmax, hf, hr⟩)
    · exact .inr (.inr ⟨hmax, _, _, hu, hr⟩)

/-- `k` mandatory iterations up to `top ≤ min`, then whatever the loop does from `top`. -/
theorem DenCount_mandatory_list {top : Nat} {tail : List PExpr} (hmin : top ≤ min)
    (hmax : ∀ j, j < top → max ≠ some j)
    (htail : ∀ i S r, DenCount g uni na x min max top i S r ↔ DenList g uni na tail i S r) :
    ∀ (k idx : Nat), idx + k = top → ∀ i S r,
      DenCount g uni na x min max idx i S r ↔ DenList g uni na (List.replicate k x ++ tail) i S r := by
  intro k
  induction k with
  | zero =>
    intro idx h i S r
    have : idx = top := by omega
    subst this
    rw [List.replicate_zero, List.nil_append]
    exact htail i S r
  | succ k ih =>
    intro idx h i S r
    rw [List.replicate_succ, List.cons_append, DenList_cons,
      DenCount_mandatory (by omega) (hmax idx (by omega))]
    simp only [ih (idx+1) (by omega)]

theorem Den_opt_of_fail (hf : Den g uni na x i S .fail) {r' : SR} :
    Den g uni na (.opt x) i S r' ↔ r' = .ok i S := by
  rw [Den_opt]
  constructor
  · rintro (⟨_, h⟩ | ⟨i', S', ho, _⟩)
    · exact h
    · exact absurd (hf.det ho) nofun
  · intro h; exact .inl ⟨hf, h⟩

/-- Once `x` fails at a state it fails there again (determinism, immutable stack): every further
optional copy matches empty. -/
theorem DenList_opts_of_fail (hf : Den g uni na x i S .fail) :
    ∀ (k : Nat) (r : SR), DenList g uni na (List.replicate k (.opt x)) i S r ↔ r = .ok i S := by
  intro k
  induction k with
  | zero => intro r; exact DenList_nil
  | succ k ih =>
    intro r
    rw [List.replicate_succ, DenList_cons]
    constructor
    · rintro (⟨h, _⟩ | ⟨i1, S1, h, hl⟩)
      · exact absurd ((Den_opt_of_fail hf).mp h) nofun
      · have := (Den_opt_of_fail hf).mp h
        injection this with h1 h2
        subst h1; subst h2
        exact (ih r).mp hl
    · intro h
      exact .inr ⟨i, S, (Den_opt_of_fail hf).mpr rfl, (ih r).mpr h⟩

/-- Past the minimum, `k` iterations below `max = some M`: `k` optional copies. -/
theorem DenCount_optional_list {M : Nat} :
    ∀ (k idx : Nat), idx + k = M → min ≤ idx → ∀ i S r,
      DenCount g uni na x min (some M) idx i S r ↔ DenList g uni na (List.replicate k (.opt x)) i S r := by
  intro k
  induction k with
  | zero =>
    intro idx h hle i S r
    have : idx = M := by omega
    subst this
    have hs : repStop min idx i S = .ok i S := by simp only [repStop, if_neg (Nat.not_lt.mpr hle)]
    rw [DenCount_unfold, hs, List.replicate_zero, DenList_nil]
    constructor
    · rintro (⟨_, h⟩ | ⟨h, _⟩ | ⟨h, _⟩)
      · exact h
      · exact absurd rfl h
      · exact absurd rfl h
    · intro h; exact .inl ⟨rfl, h⟩
  | succ k ih =>
    intro idx h hle i S r
    have hne : some M ≠ some idx := by intro h0; injection h0 with h0; omega
    have hs : repStop min idx i S = .ok i S := by simp only [repStop, if_neg (Nat.not_lt.mpr hle)]
    rw [DenCount_unfold, hs, List.replicate_succ, DenList_cons]
    constructor
    · rintro (⟨h0, _⟩ | ⟨_, hf, hr⟩ | ⟨_, i', S', hu, hr⟩)
      · exact absurd h0 hne
      · exact .inr ⟨i, S, Den_opt.mpr (.inl ⟨hf, rfl⟩), (DenList_opts_of_fail hf k r).mpr hr⟩
      · exact .inr ⟨i', S', Den_opt.mpr (.inr ⟨i', S', hu, rfl⟩), (ih (idx+1) (by omega) (by omega) i' S' r).mp hr⟩
    · rintro (⟨h0, _⟩ | ⟨i1, S1, h0, hl⟩)
      · rcases Den_opt.mp h0 with ⟨_, h1⟩ | ⟨_, _, _, h1⟩ <;> cases h1
      · rcases Den_opt.mp h0 with ⟨hf, h1⟩ | ⟨i', S', hu, h1⟩
        · injection h1 with h1 h2
          subst h1; subst h2
          exact .inr (.inl ⟨hne, hf, (DenList_opts_of_fail hf k r).mp hl⟩)
        · injection h1 with h1 h2
          subst h1; subst h2
          exact .inr (.inr ⟨hne, _, _, hu, (ih (idx+1) (by omega) (by omega) _ _ r).mpr hl⟩)

/-- `x{n,m}` with `n ≤ m`, as a list: `n` copies of `x`, then `m - n` copies of `x?`. -/
theorem DenCount_bounded_list {n m : Nat} (h : n ≤ m) :
    DenCount g uni na x n (some m) 0 i S r ↔
      DenList g uni na (List.replicate n x ++ List.replicate (m - n) (.opt x)) i S r :=
  DenCount_mandatory_list (top := n) (Nat.le_refl n)
    (fun j hj h0 => by injection h0 with h0; omega)
    (fun i S r => DenCount_optional_list (m - n) n (by omega) (Nat.le_refl n) i S r)
    n 0 (by omega) i S r

/-- Past the minimum an unbounded loop is the greedy star, whatever the iteration index. -/
theorem unroll_RepSem_none_iff_SkipSem {V : Inp → List Sp → SR → Prop} {min idx : Nat} {i : Inp} {S : List Sp}
    {r : SR} (hle : min ≤ idx) : RepSem (fun _ => V) min none idx i S r ↔ SkipSem V i S r := by
  constructor
  · intro h
    generalize hx : (none : Option Nat) = mx at h
    induction h with
    | maxed h => subst hx; exact absurd h nofun
    | @stop idx i S h hu =>
      simp only [repStop, if_neg (Nat.not_lt.mpr hle)]; exact .stop hu
    | step h hu hr ih => exact .step hu (ih (by omega))
  · intro h
    induction h generalizing idx with
    | @stop i S hv =>
      have : RepSem (fun _ => V) min none idx i S (repStop min idx i S) := .stop nofun hv
      simpa only [repStop, if_neg (Nat.not_lt.mpr hle)] using this
    | step hv hr ih => exact .step nofun hv (ih (by omega))

theorem DenCount_star_shift (hle : min ≤ idx) :
    DenCount g uni na x min none idx i S r ↔ DenCount g uni na x 0 none 0 i S r := by
  unfold DenCount
  rw [unroll_RepSem_none_iff_SkipSem hle, unroll_RepSem_none_iff_SkipSem (Nat.le_refl 0)]

/-- `x*` under `NoSkipCtx`: the greedy star over `Den x`. -/
theorem Den_rep_noskip (h : NoSkipCtx g na) :
    Den g uni na (.rep x) i S r ↔ SkipSem (Den g uni na x) i S r := by
  rw [Den_rep, DenRep_noskip h]
  exact unroll_RepSem_none_iff_SkipSem (Nat.le_refl 0)

/-- `x{n,}` as a list: `n` copies of `x`, then `x*`. -/
theorem DenCount_unbounded_list (h : NoSkipCtx g na) {n : Nat} :
    DenCount g uni na x n none 0 i S r ↔ DenList g uni na (List.replicate n x ++ [.rep x]) i S r :=
  DenCount_mandatory_list (max := none) (top := n) (Nat.le_refl n) (fun _ _ h0 => nomatch h0)
    (fun i S r => by
      rw [DenList_singleton, Den_rep, DenRep_noskip h]
      exact DenCount_star_shift (Nat.le_refl n))
    n 0 (by omega) i S r

/-! ### the five counted forms as lists -/

theorem Den_repOnce_list (h : NoSkipCtx g na) :
    Den g uni na (.repOnce x) i S r ↔ DenList g uni na [x, .rep x] i S r := by
  rw [Den_repOnce, DenRep_noskip h]
  exact DenCount_unbounded_list h (n := 1)

theorem Den_repMin_list (h : NoSkipCtx g na) {n : Nat} :
    Den g uni na (.repMin x n) i S r ↔ DenList g uni na (List.replicate n x ++ [.rep x]) i S r := by
  rw [Den_repMin, DenRep_noskip h]
  exact DenCount_unbounded_list h

theorem Den_repMinMax_list (h : NoSkipCtx g na) {n m : Nat} (hnm : n ≤ m) :
    Den g uni na (.repMinMax x n m) i S r ↔
      DenList g uni na (List.replicate n x ++ List.replicate (m - n) (.opt x)) i S r := by
  rw [Den_repMinMax, DenRep_noskip h]
  exact DenCount_bounded_list hnm

theorem Den_repExact_list (h : NoSkipCtx g na) {n : Nat} :
    Den g uni na (.repExact x n) i S r ↔ DenList g uni na (List.replicate n x) i S r := by
  rw [Den_repExact, DenRep_noskip h, DenCount_bounded_list (Nat.le_refl n), Nat.sub_self,
    List.replicate_zero, List.append_nil]

theorem Den_repMax_list (h : NoSkipCtx g na) {m : Nat} :
    Den g uni na (.repMax x m) i S r ↔ DenList g uni na (List.replicate m (.opt x)) i S r := by
  rw [Den_repMax, DenRep_noskip h, DenCount_bounded_list (Nat.zero_le m), Nat.sub_zero,
    List.replicate_zero, List.nil_append]

end Count

/-! ## 4. The closure and the pass -/

/-- The items `unroll` builds for `x{n,m}` (for i in 1..=m: `x` if i ≤ n else `x?`): `min n m` copies of
`x`, then `m - n` copies of `x?`.  For `n > m` these are `m` copies of `x` (F-OPT-4). -/
theorem unroll_minmax_items (x : PExpr) (n : Nat) : ∀ m : Nat,
    (List.range m).map (fun i => if i + 1 ≤ n then x else .opt x)
      = List.replicate (min n m) x ++ List.replicate (m - n) (.opt x) := by
  intro m
  induction m with
  | zero => simp
  | succ m ih =>
    rw [List.range_succ, List.map_append, ih]
    simp only [List.map_cons, List.map_nil]
    by_cases h : m + 1 ≤ n
    · have h1 : min n m = m := Nat.min_eq_right (by omega)
      have h2 : min n (m+1) = m + 1 := Nat.min_eq_right h
      have h3 : m - n = 0 := by omega
      have h4 : m + 1 - n = 0 := by omega
      rw [if_pos h, h1, h2, h3, h4, List.replicate_zero, List.append_nil, List.append_nil,
        List.replicate_succ']
    · have h1 : min n m = n := Nat.min_eq_left (by omega)
      have h2 : min n (m+1) = n := Nat.min_eq_left (by omega)
      have h4 : m + 1 - n = (m - n) + 1 := by omega
      rw [if_neg h, h1, h2, h4, List.append_assoc, ← List.replicate_succ']

section Closure
variable {g : PGrammar} {uni : Uni} {na : Bool}

/-- `(seqOf items).getD e` is equivalent to `e` as soon as `e` runs like the (non-empty) item list. -/
theorem unroll_getD_equiv (hctx : NoSkipCtx g na) {e : PExpr} {items : List PExpr}
    (h : ∀ i S r, Den g uni na e i S r ↔ DenList g uni na items i S r) :
    SpecEquiv g g uni na e ((seqOf items).getD e) := by
  cases items with
  | nil => exact SpecEquiv.refl _ _ _ _
  | cons a es =>
    obtain ⟨t, ht⟩ := seqOf_cons_isSome es a
    rw [ht, Option.getD_some]
    intro i S r
    rw [Den_seqOf hctx _ _ ht]
    exact h i S r

/-- `x+ ≡ x ~ x*` when nothing is skipped implicitly. -/
theorem unroll_repOnce_equiv (hctx : NoSkipCtx g na) (x : PExpr) :
    SpecEquiv g g uni na (.repOnce x) (.seq x (.rep x)) := by
  intro i S r
  rw [Den_repOnce_list hctx, Den_seqOf hctx [x, .rep x] _ rfl]

/-- `x{n} ≡ x ~ … ~ x` (unchanged for `n = 0`). -/
theorem unroll_repExact_equiv (hctx : NoSkipCtx g na) (x : PExpr) (n : Nat) :
    SpecEquiv g g uni na (.repExact x n) (unrollClosure (.repExact x n)) :=
  unroll_getD_equiv hctx (fun _ _ _ => Den_repExact_list hctx)

/-- `x{n,} ≡ x ~ … ~ x ~ x*`. -/
theorem unroll_repMin_equiv (hctx : NoSkipCtx g na) (x : PExpr) (n : Nat) :
    SpecEquiv g g uni na (.repMin x n) (unrollClosure (.repMin x n)) :=
  unroll_getD_equiv hctx (fun _ _ _ => Den_repMin_list hctx)

/-- `x{,m} ≡ x? ~ … ~ x?` (unchanged for `m = 0`). -/
theorem unroll_repMax_equiv (hctx : NoSkipCtx g na) (x : PExpr) (m : Nat) :
    SpecEquiv g g uni na (.repMax x m) (unrollClosure (.repMax x m)) :=
  unroll_getD_equiv hctx (fun _ _ _ => Den_repMax_list hctx)

/-- `x{n,m} ≡` `n` copies of `x` then `m - n` copies of `x?`, PROVIDED `n ≤ m`. -/
theorem unroll_repMinMax_equiv (hctx : NoSkipCtx g na) (x : PExpr) {n m : Nat} (h : n ≤ m) :
    SpecEquiv g g uni na (.repMinMax x n m) (unrollClosure (.repMinMax x n m)) := by
  have key : SpecEquiv g g uni na (.repMinMax x n m)
      ((seqOf (List.replicate (min n m) x ++ List.replicate (m - n) (.opt x))).getD (.repMinMax x n m)) := by
    rw [Nat.min_eq_left h]
    exact unroll_getD_equiv hctx (fun _ _ _ => Den_repMinMax_list hctx h)
  simpa only [unrollClosure, unroll_minmax_items] using key

/-- The bounds conditions (C2) on one node: ordered bounds, and the forms on which the Rust code does
not panic (`fold(None, …).unwrap()` of an empty range). -/
def unrollSafeNode : PExpr → Bool
  | .repExact _ n => decide (1 ≤ n)
  | .repMax _ m => decide (1 ≤ m)
  | .repMinMax _ n m => decide (n ≤ m) && decide (1 ≤ m)
  | _ => true

/-- Every counted node the bottom-up traversal visits is safe (`RestoreOnErr` and `Skip` are leaves of
`Expr::map_bottom_up`). -/
def unrollSafe : PExpr → Bool
  | .posPred e => unrollSafe e
  | .negPred e => unrollSafe e
  | .seq a b => unrollSafe a && unrollSafe b
  | .choice a b => unrollSafe a && unrollSafe b
  | .opt e => unrollSafe e
  | .rep e => unrollSafe e
  | .repOnce e => unrollSafe e
  | .repExact e n => unrollSafeNode (.repExact e n) && unrollSafe e
  | .repMin e _ => unrollSafe e
  | .repMax e m => unrollSafeNode (.repMax e m) && unrollSafe e
  | .repMinMax e n m => unrollSafeNode (.repMinMax e n m) && unrollSafe e
  | .push e => unrollSafe e
  | _ => true

/-- The closure of `unroll` is sound at every safe node. -/
theorem unrollClosure_equiv (hctx : NoSkipCtx g na) :
    ∀ e, unrollSafeNode e = true → SpecEquiv g g uni na e (unrollClosure e) := by
  intro e h
  cases e with
  | repOnce x => exact unroll_repOnce_equiv hctx x
  | repExact x n => exact unroll_repExact_equiv hctx x n
  | repMin x n => exact unroll_repMin_equiv hctx x n
  | repMax x m => exact unroll_repMax_equiv hctx x m
  | repMinMax x n m =>
    simp only [unrollSafeNode, Bool.and_eq_true, decide_eq_true_eq] at h
    exact unroll_repMinMax_equiv hctx x h.1
  | _ => exact SpecEquiv.refl _ _ _ _

/-- `mapBottomUp unrollClosure` is sound on safe expressions (the closure is applied to nodes whose
children have already been rewritten; their bounds are those of the original node). -/
theorem unroll_mapBottomUp_equiv (hctx : NoSkipCtx g na) :
    ∀ e, unrollSafe e = true → SpecEquiv g g uni na e (mapBottomUp unrollClosure e) := by
  have sk := SkipEquiv.refl g uni
  intro e
  induction e with
  | posPred e ih =>
    intro h; simp only [unrollSafe] at h
    exact (SpecEquiv.posPred (ih h)).trans (unrollClosure_equiv hctx _ rfl)
  | negPred e ih =>
    intro h; simp only [unrollSafe] at h
    exact (SpecEquiv.negPred (ih h)).trans (unrollClosure_equiv hctx _ rfl)
  | seq a b iha ihb =>
    intro h; simp only [unrollSafe, Bool.and_eq_true] at h
    exact (SpecEquiv.seq sk (iha h.1) (ihb h.2)).trans (unrollClosure_equiv hctx _ rfl)
  | choice a b iha ihb =>
    intro h; simp only [unrollSafe, Bool.and_eq_true] at h
    exact (SpecEquiv.choice (iha h.1) (ihb h.2)).trans (unrollClosure_equiv hctx _ rfl)
  | opt e ih =>
    intro h; simp only [unrollSafe] at h
    exact (SpecEquiv.opt (ih h)).trans (unrollClosure_equiv hctx _ rfl)
  | rep e ih =>
    intro h; simp only [unrollSafe] at h
    exact (SpecEquiv.rep sk (ih h)).trans (unrollClosure_equiv hctx _ rfl)
  | repOnce e ih =>
    intro h; simp only [unrollSafe] at h
    exact (SpecEquiv.repOnce sk (ih h)).trans (unrollClosure_equiv hctx _ rfl)
  | repExact e n ih =>
    intro h; rw [unrollSafe, Bool.and_eq_true] at h
    exact (SpecEquiv.repExact sk (ih h.2) n).trans (unrollClosure_equiv hctx (.repExact _ n) h.1)
  | repMin e n ih =>
    intro h; simp only [unrollSafe] at h
    exact (SpecEquiv.repMin sk (ih h) n).trans (unrollClosure_equiv hctx _ rfl)
  | repMax e n ih =>
    intro h; rw [unrollSafe, Bool.and_eq_true] at h
    exact (SpecEquiv.repMax sk (ih h.2) n).trans (unrollClosure_equiv hctx (.repMax _ n) h.1)
  | repMinMax e n m ih =>
    intro h; rw [unrollSafe, Bool.and_eq_true] at h
    exact (SpecEquiv.repMinMax sk (ih h.2) n m).trans (unrollClosure_equiv hctx (.repMinMax _ n m) h.1)
  | push e ih =>
    intro h; simp only [unrollSafe] at h
    exact (SpecEquiv.push (ih h)).trans (unrollClosure_equiv hctx _ rfl)
  | str s => intro _; exact unrollClosure_equiv hctx _ rfl
  | insens s => intro _; exact unrollClosure_equiv hctx _ rfl
  | range lo hi => intro _; exact unrollClosure_equiv hctx _ rfl
  | ident n => intro _; exact unrollClosure_equiv hctx _ rfl
  | peekSlice a b => intro _; exact unrollClosure_equiv hctx _ rfl
  | skip ns => intro _; exact unrollClosure_equiv hctx _ rfl
  | restoreOnErr e _ => intro _; exact unrollClosure_equiv hctx _ rfl

/-- The `unroll` pass preserves the reference semantics of every safe expression, in a context without
implicit skipping. -/
theorem unrollExpr_equiv (hctx : NoSkipCtx g na) :
    ∀ e, unrollSafe e = true → SpecEquiv g g uni na e (unrollExpr e) :=
  unroll_mapBottomUp_equiv hctx

end Closure

/-- The context of a rule body: atomic rules, or grammars without skip rules. -/
theorem NoSkipCtx.of_body (g : PGrammar) (name : String) (kind : RuleKind) (na : Bool)
    (h : kind = .atomic ∨ kind = .compoundAtomic ∨
      (g.defines "WHITESPACE" = false ∧ g.defines "COMMENT" = false)) :
    NoSkipCtx g (bodyNa name kind na) := by
  rcases h with rfl | rfl | h
  · left; unfold bodyNa; split <;> rfl
  · left; unfold bodyNa; split <;> rfl
  · exact .inr h

/-- `unroll` on the body of a rule: sound in `@` / `$` rules, and in every rule of a grammar without
WHITESPACE and COMMENT. -/
theorem unrollExpr_equiv_body (g : PGrammar) (uni : Uni) (name : String) (kind : RuleKind) (na : Bool)
    (h : kind = .atomic ∨ kind = .compoundAtomic ∨
      (g.defines "WHITESPACE" = false ∧ g.defines "COMMENT" = false)) {e : PExpr} :
    unrollSafe e = true → SpecEquiv g g uni (bodyNa name kind na) e (unrollExpr e) :=
  unrollExpr_equiv (NoSkipCtx.of_body g name kind na h) e

/-! ## 5. The `list` pass (`lister.rs`): `(l1 ~ l2)* ~ l1 ↦ l1 ~ (l2 ~ l1)*`

Refuted in general (`C20_counterexample_lister`; `lister_not_equiv` below): when, after `k ≥ 1` rounds of
`l1 ~ l2`, `l1` FAILS, the raw form fails as a whole (the greedy star does not give its last round back)
whereas the rewritten form stops before the last `l2` and succeeds.  That is the only difference: the
rewrite is sound as soon as `l1` never fails right after a successful `l2`. -/

/-- `l1` does not fail at a state reached by a successful `l2`. -/
def ListSafe (g : PGrammar) (uni : Uni) (na : Bool) (l1 l2 : PExpr) : Prop :=
  ∀ i S i' S', Den g uni na l2 i S (.ok i' S') → ¬ Den g uni na l1 i' S' .fail

section Lister
variable {g : PGrammar} {uni : Uni} {na : Bool} {a b : PExpr}

theorem lister_fwd (hctx : NoSkipCtx g na) (hs : ListSafe g uni na a b)
    {i : Inp} {S : List Sp} {q : SR} (h : SkipSem (Den g uni na (.seq a b)) i S q) :
    ∀ i1 S1 r, q = .ok i1 S1 → Den g uni na a i1 S1 r →
      (Den g uni na a i S .fail ∧ r = .fail) ∨
        ∃ j T, Den g uni na a i S (.ok j T) ∧ SkipSem (Den g uni na (.seq b a)) j T r := by
  induction h with
  | @stop i S hv =>
    intro i1 S1 r hq ha
    injection hq with h1 h2
    subst h1; subst h2
    cases r with
    | oof => exact absurd rfl ha.ne_oof
    | fail => exact .inl ⟨ha, rfl⟩
    | ok j T =>
      refine .inr ⟨j, T, ha, ?_⟩
      rcases (Den_seq_noskip hctx).mp hv with ⟨hf, _⟩ | ⟨j', T', ha', hb⟩
      · exact absurd (hf.det ha) nofun
      · have := ha'.det ha
        injection this with h1 h2
        subst h1; subst h2
        exact .stop ((Den_seq_noskip hctx).mpr (.inl ⟨hb, rfl⟩))
  | @step i S i' S' q hv hr ih =>
    intro i1 S1 r hq ha
    rcases (Den_seq_noskip hctx).mp hv with ⟨_, h0⟩ | ⟨j0, T0, ha0, hb0⟩
    · cases h0
    · rcases ih i1 S1 r hq ha with ⟨hf, _⟩ | ⟨j, T, haj, hsk⟩
      · exact absurd hf (hs _ _ _ _ hb0)
      · exact .inr ⟨j0, T0, ha0, .step ((Den_seq_noskip hctx).mpr (.inr ⟨_, _, hb0, haj⟩)) hsk⟩

theorem lister_bwd (hctx : NoSkipCtx g na) (hs : ListSafe g uni na a b)
    {j : Inp} {T : List Sp} {r : SR} (h : SkipSem (Den g uni na (.seq b a)) j T r) :
    ∀ i S, Den g uni na a i S (.ok j T) →
      ∃ i1 S1, SkipSem (Den g uni na (.seq a b)) i S (.ok i1 S1) ∧ Den g uni na a i1 S1 r := by
  induction h with
  | @stop j T hv =>
    intro i S ha
    rcases (Den_seq_noskip hctx).mp hv with ⟨hbf, _⟩ | ⟨i', S', hb, haf⟩
    · exact ⟨i, S, .stop ((Den_seq_noskip hctx).mpr (.inr ⟨j, T, ha, hbf⟩)), ha⟩
    · exact absurd haf (hs _ _ _ _ hb)
  | @step j T j' T' r hv hr ih =>
    intro i S ha
    rcases (Den_seq_noskip hctx).mp hv with ⟨_, h0⟩ | ⟨i', S', hb, ha'⟩
    · cases h0
    · obtain ⟨i1, S1, hsk, har⟩ := ih i' S' ha'
      exact ⟨i1, S1, .step ((Den_seq_noskip hctx).mpr (.inr ⟨j, T, ha, hb⟩)) hsk, har⟩

/-- `(a ~ b)* ~ a ≡ a ~ (b ~ a)*` when nothing is skipped implicitly and `a` never fails right after `b`. -/
theorem lister_equiv (hctx : NoSkipCtx g na) (hs : ListSafe g uni na a b) :
    SpecEquiv g g uni na (.seq (.rep (.seq a b)) a) (.seq a (.rep (.seq b a))) := by
  intro i S r
  rw [Den_seq_noskip hctx, Den_seq_noskip hctx]
  simp only [Den_rep_noskip hctx]
  constructor
  · rintro (⟨hf, _⟩ | ⟨i1, S1, hsk, ha⟩)
    · obtain ⟨_, _, h0⟩ := hf.ok; cases h0
    · exact lister_fwd hctx hs hsk i1 S1 r rfl ha
  · rintro (⟨hf, rfl⟩ | ⟨j, T, ha, hsk⟩)
    · exact .inr ⟨i, S, .stop ((Den_seq_noskip hctx).mpr (.inl ⟨hf, rfl⟩)), hf⟩
    · obtain ⟨i1, S1, h1, h2⟩ := lister_bwd hctx hs hsk i S ha
      exact .inr ⟨i1, S1, h1, h2⟩

/-- The side condition of the `list` closure at one node. -/
def ListSafeNode (g : PGrammar) (uni : Uni) (na : Bool) : PExpr → Prop
  | .seq (.rep (.seq l1 l2)) r => l1 = r → ListSafe g uni na l1 l2
  | _ => True

/-- The closure of `list` is sound at every node that satisfies the side condition. -/
theorem listClosure_equiv (hctx : NoSkipCtx g na) :
    ∀ e, ListSafeNode g uni na e → SpecEquiv g g uni na e (listClosure e) := by
  intro e h
  unfold listClosure
  split
  · next l1 l2 r =>
    split
    · next heq =>
      subst heq
      exact lister_equiv hctx (h rfl)
    · exact SpecEquiv.refl _ _ _ _
  · exact SpecEquiv.refl _ _ _ _

end Lister

/-! ## 6. Non-vacuity, and the hypotheses are needed -/

namespace PestOptUnroll.Ex
open SpecDen.Ex

example : unrollExpr (.repMinMax (.str ['a']) 2 3)
    = .seq (.str ['a']) (.seq (.str ['a']) (.opt (.str ['a']))) := by decide

example : unrollExpr (.repOnce (.choice (.str ['a']) (.str ['b'])))
    = .seq (.choice (.str ['a']) (.str ['b'])) (.rep (.choice (.str ['a']) (.str ['b']))) := by decide

/-- nested: the inner node is rewritten first. -/
example : unrollExpr (.repExact (.repOnce (.str ['a'])) 2)
    = .seq (.seq (.str ['a']) (.rep (.str ['a']))) (.seq (.str ['a']) (.rep (.str ['a']))) := by decide

example : unrollSafe (.repMinMax (.str ['a']) 2 3) = true := by decide
example : unrollSafe (.repMinMax (.str ['a']) 3 1) = false := by decide
example : unrollSafe (.seq (.str ['b']) (.opt (.repMinMax (.str ['a']) 3 1))) = false := by decide

/-- A grammar without WHITESPACE / COMMENT: `NoSkipCtx` holds in a non-atomic context. -/
def g0 : PGrammar := [⟨"a", .normal, .str ['x']⟩]

example : NoSkipCtx g0 true := .inr ⟨by decide, by decide⟩

example : SpecEquiv g0 g0 uni0 true (.repMinMax (.ident "a") 2 3)
    (.seq (.ident "a") (.seq (.ident "a") (.opt (.ident "a")))) :=
  unrollExpr_equiv (.inr ⟨by decide, by decide⟩) (.repMinMax (.ident "a") 2 3) (by decide)

example : SpecEquiv g0 g0 uni0 true (.repOnce (.choice (.ident "a") (.str ['b'])))
    (.seq (.choice (.ident "a") (.str ['b'])) (.rep (.choice (.ident "a") (.str ['b'])))) :=
  unrollExpr_equiv (.inr ⟨by decide, by decide⟩) (.repOnce (.choice (.ident "a") (.str ['b']))) (by decide)

/-- both sides do answer: `"xxx"` is consumed entirely. -/
example : Den g0 uni0 true (.repMinMax (.ident "a") 2 3) (inp ['x', 'x', 'x']) [] (.ok ⟨0, 3, [], []⟩ []) :=
  Den.of_spec (n := 6) (by decide) nofun

/-- `g1` defines WHITESPACE: the pass is still sound in the body of an `@` rule. -/
example : SpecEquiv g1 g1 uni0 (bodyNa "s" .atomic true) (.repMin (.ident "a") 2)
    (.seq (.ident "a") (.seq (.ident "a") (.rep (.ident "a")))) :=
  unrollExpr_equiv_body g1 uni0 "s" .atomic true (.inl rfl) (e := .repMin (.ident "a") 2) (by decide)

/-- an instance of `ListSafe`: an `l1` that never fails (`"x"?`), whatever `l2` is. -/
example : ListSafe g0 uni0 false (.opt (.str ['x'])) (.str [',']) := by
  intro i S i' S' _ hf
  rcases Den_opt.mp hf with ⟨_, h⟩ | ⟨_, _, _, h⟩ <;> cases h

end PestOptUnroll.Ex

open SpecDen.Ex in
/-- (C1) is needed: with `WHITESPACE = " "` and skipping on, `"x"+` gives the trailing blank of `"x "`
back, `"x" ~ "x"*` does not (F-OPT-3 at the level of the reference semantics). -/
theorem unroll_repOnce_not_equiv_skip :
    ¬ SpecEquiv g1 g1 uni0 true (.repOnce (.str ['x'])) (.seq (.str ['x']) (.rep (.str ['x']))) := fun h =>
  absurd (h.agree 8 8 (inp ['x', ' ']) [] (by decide) (by decide)) (by decide)

open SpecDen.Ex in
/-- (C2) is needed: `"a"{3,1}` never matches, its unrolled form `"a"` does (F-OPT-4). -/
theorem unroll_repMinMax_not_equiv_inverted :
    ¬ SpecEquiv [] [] uni0 false (.repMinMax (.str ['a']) 3 1) (unrollClosure (.repMinMax (.str ['a']) 3 1)) :=
  fun h => absurd (h.agree 4 4 (inp ['a']) [] (by decide) (by decide)) (by decide)

open SpecDen.Ex in
/-- `ListSafe` is needed: `("a" ~ "b")* ~ "a"` fails on `"ab"`, `"a" ~ ("b" ~ "a")*` matches `"a"` (F-OPT-1). -/
theorem lister_not_equiv :
    ¬ SpecEquiv [] [] uni0 false (.seq (.rep (.seq (.str ['a']) (.str ['b']))) (.str ['a']))
      (listClosure (.seq (.rep (.seq (.str ['a']) (.str ['b']))) (.str ['a']))) :=
  fun h => absurd (h.agree 6 6 (inp ['a', 'b']) [] (by decide) (by decide)) (by decide)

end PestTyped
