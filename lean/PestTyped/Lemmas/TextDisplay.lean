/-
Lemmas.TextDisplay — `display_span` / `display_position` of the model, computed for every way a
span or position can sit in the line table of its input (for C14).
-/
import PestTyped.Lemmas.TextSpan
namespace PestTyped
namespace Text

/-! ### the lines the formatter iterates over -/

theorem linesFromSpec_all (stop o : Nat) (ls : List (List Char)) (h : o + blen ls.flatten ≤ stop) :
    (linesFromSpec stop o ls).map (·.2) = ls := by
  induction ls generalizing o with
  | nil => rfl
  | cons l ls ih =>
    simp only [List.flatten_cons, blen_append] at h
    simp only [linesFromSpec]
    rw [if_neg (by omega)]
    simp only [List.map_cons]
    rw [ih (o + blen l) (by omega)]

/-- The lines the formatter works on: the lines of the input; the empty input is displayed as
one empty line. -/
def dispLines (s : List Char) : List (List Char) := if s = [] then [[]] else splitLines s

theorem dispLines_of_ne_nil {s : List Char} (h : s ≠ []) : dispLines s = splitLines s := by
  unfold dispLines; rw [if_neg h]

theorem flatten_dispLines (s : List Char) : (dispLines s).flatten = s := by
  unfold dispLines
  split
  · rename_i h; subst h; rfl
  · exact flatten_splitLines s

theorem dispLines_ne_nil (s : List Char) : dispLines s ≠ [] := by
  unfold dispLines
  split
  · simp
  · rename_i h; exact splitLines_ne_nil h

/-- `input.lines()` over the whole input is the division into lines. -/
theorem lines_full_eq (s : List Char) : (Span.mk s 0 (blen s)).lines = .ok (splitLines s) := by
  rw [lines_of_split ⟨s, 0, blen s⟩ [] s rfl rfl (Nat.zero_le _)]
  by_cases hs : s = []
  · subst hs; rfl
  · rw [if_neg hs, splitLines_eq hs]
    simp only [afterLastLF_nil, List.nil_append, Nat.zero_add]
    rw [linesFromSpec_all]
    rw [flatten_splitLines]
    have := congrArg blen (throughLF_append_afterLF s)
    rw [blen_append] at this
    omega

/-- `all_lines` of the formatter. -/
theorem allLines_eq (s : List Char) : allLines s = .ok (dispLines s) := by
  unfold allLines dispLines
  rw [Span.new_of_valid (Nat.zero_le _) (isBoundary_zero s) (isBoundary_len s)]
  simp only []
  cases s with
  | nil => rfl
  | cons c cs =>
    rw [if_neg (by simp), if_neg (by simp)]
    exact lines_full_eq (c :: cs)

/-! ### the two scanning loops -/

/-- `find_start` on a line table split at the line it stops on. -/
theorem findStart_of_decomp (start : Nat) (before : List (List Char)) (l : List Char)
    (after : List (List Char)) (idx pos : Nat)
    (h1 : pos + blen before.flatten ≤ start) (h2 : start ≤ pos + blen before.flatten + blen l)
    (h3 : before = [] ∨ pos + blen before.flatten < start) :
    findStart start (before ++ l :: after) idx pos =
      .ok (some ⟨idx + before.length, start - (pos + blen before.flatten)⟩, idx + before.length,
        pos + blen before.flatten, l :: after) := by
  induction before generalizing idx pos with
  | nil =>
    simp only [List.flatten_nil, blen_nil, Nat.add_zero, List.nil_append, List.length_nil] at *
    simp only [findStart]
    rw [if_pos (by omega)]
    simp [checkedSub, h1]
  | cons b bs ih =>
    simp only [List.flatten_cons, blen_append] at h1 h2 h3
    simp only [List.cons_append, findStart]
    have hlt : pos + (blen b + blen bs.flatten) < start := by
      rcases h3 with h | h
      · cases h
      · exact h
    rw [if_neg (by omega)]
    rw [ih (idx + 1) (pos + blen b) (by omega) (by omega) (by
      rcases h3 with h | h
      · cases h
      · right; omega)]
    simp only [List.flatten_cons, blen_append, List.length_cons]
    have e1 : idx + 1 + bs.length = idx + (bs.length + 1) := by omega
    have e2 : pos + blen b + blen bs.flatten = pos + (blen b + blen bs.flatten) := by omega
    rw [e1, e2]

theorem findEnd_eq_findStart (stop : Nat) (ls : List (List Char)) (idx pos : Nat) :
    findEnd stop ls idx pos =
      match findStart stop ls idx pos with
      | .ok r => .ok r.1
      | .panic => .panic := by
  induction ls generalizing idx pos with
  | nil => rfl
  | cons l ls ih =>
    simp only [findEnd, findStart]
    split
    · cases checkedSub stop pos <;> rfl
    · exact ih _ _

theorem findEnd_of_decomp (stop : Nat) (before : List (List Char)) (l : List Char)
    (after : List (List Char)) (idx pos : Nat)
    (h1 : pos + blen before.flatten ≤ stop) (h2 : stop ≤ pos + blen before.flatten + blen l)
    (h3 : before = [] ∨ pos + blen before.flatten < stop) :
    findEnd stop (before ++ l :: after) idx pos =
      .ok (some ⟨idx + before.length, stop - (pos + blen before.flatten)⟩) := by
  rw [findEnd_eq_findStart, findStart_of_decomp stop before l after idx pos h1 h2 h3]

/-! ### splitting a line -/

theorem splitAt_append (a b : List Char) : splitAt (a ++ b) (blen a) = .ok (a, b) := by
  unfold splitAt
  rw [takeBytes_append, dropBytes_append]

theorem partition_append (a b : List Char) :
    partition (a ++ b) (blen a) = .ok (visualize a, visualize b) := by
  unfold partition; rw [splitAt_append]

theorem partition2_append (f m r : List Char) :
    partition2 (f ++ m ++ r) (blen f) (blen f + blen m) =
      .ok (visualize f, visualize m, visualize r) := by
  unfold partition2
  rw [← blen_append, splitAt_append]
  simp only []
  rw [splitAt_append]

theorem visualize_append (a b : List Char) : visualize (a ++ b) = visualize a ++ visualize b := by
  simp [visualize]

/-! ### display_span, start and end in the same line -/

/-- The span `[blen (before lines) + blen f, … + blen m)` lies inside the line `f ++ m ++ r`, and
this is the line the start scan stops on (it is the first line, or the start is not its first
byte). -/
theorem spanSnippet_single (width : Char → Nat) (s : List Char) (before after : List (List Char))
    (f m r : List Char) (hsplit : dispLines s = before ++ (f ++ m ++ r) :: after)
    (hf : f ≠ [] ∨ before = []) :
    spanSnippet width ⟨s, blen before.flatten + blen f, blen before.flatten + blen f + blen m⟩ =
      .ok ⟨ceilLog10 (before.length + 1),
        snippetSingleLine width before.length (visualize f) (visualize m) (visualize r)⟩ := by
  have hfpos : before = [] ∨ 0 + blen before.flatten < blen before.flatten + blen f := by
    rcases hf with h | h
    · right; have := blen_pos_of_ne_nil h; omega
    · left; exact h
  unfold spanSnippet
  rw [allLines_eq, hsplit]
  simp only []
  rw [findStart_of_decomp _ before (f ++ m ++ r) after 0 0 (by omega)
    (by simp only [blen_append]; omega) hfpos]
  simp only []
  have hfe := findEnd_of_decomp (blen before.flatten + blen f + blen m) [] (f ++ m ++ r) after
    (0 + before.length) (0 + blen before.flatten)
    (by simp only [List.flatten_nil, blen_nil]; omega)
    (by simp only [blen_append, List.flatten_nil, blen_nil]; omega) (Or.inl rfl)
  rw [List.nil_append] at hfe
  rw [hfe]
  simp only [List.length_nil, Nat.add_zero, Nat.zero_add, List.flatten_nil, blen_nil, checkedSub,
    Nat.le_refl, if_true, Nat.sub_self]
  have hdrop : List.take 1 (List.drop before.length (before ++ (f ++ m ++ r) :: after)) =
      [f ++ m ++ r] := by
    rw [List.drop_left' rfl]; rfl
  rw [hdrop]
  simp only [List.head?_cons, TR.unwrap]
  have e1 : blen before.flatten + blen f - blen before.flatten = blen f := by omega
  have e2 : blen before.flatten + blen f + blen m - blen before.flatten = blen f + blen m := by omega
  rw [e1, e2, partition2_append]

/-! ### display_span, start and end in different lines -/

/-- The inner lines a multi-line snippet shows for the fully covered lines `mid`: the first; the
second when there are exactly three; an ellipsis when there are more than three; the last when
there are at least two. -/
def innerOf (mid : List (List Char)) :
    Option (List Char) × Option (List Char) × Bool × Option (List Char) :=
  (if mid.length ≥ 1 then mid.head?.map visualize else none,
   if mid.length = 3 then mid[1]?.map visualize else none,
   decide (mid.length ≥ 4),
   if mid.length ≥ 2 then mid.getLast?.map visualize else none)

theorem spanSnippet_multi (width : Char → Nat) (s : List Char) (before mid after : List (List Char))
    (f m1 m2 r : List Char)
    (hsplit : dispLines s = before ++ (f ++ m1) :: (mid ++ (m2 ++ r) :: after))
    (hf : f ≠ [] ∨ before = []) (hm2 : m2 ≠ []) :
    spanSnippet width ⟨s, blen before.flatten + blen f,
        blen before.flatten + blen (f ++ m1) + blen mid.flatten + blen m2⟩ =
      .ok ⟨ceilLog10 (before.length + mid.length + 2),
        snippetMultiLine width before.length (visualize f) (visualize m1)
          (before.length + mid.length + 1) (visualize m2) (visualize r) (innerOf mid)⟩ := by
  have hfpos : before = [] ∨ 0 + blen before.flatten < blen before.flatten + blen f := by
    rcases hf with h | h
    · right; have := blen_pos_of_ne_nil h; omega
    · left; exact h
  have hm2pos := blen_pos_of_ne_nil hm2
  unfold spanSnippet
  rw [allLines_eq, hsplit]
  simp only []
  rw [findStart_of_decomp _ before (f ++ m1) (mid ++ (m2 ++ r) :: after) 0 0 (by omega)
    (by simp only [blen_append]; omega) hfpos]
  simp only []
  have hfe := findEnd_of_decomp (blen before.flatten + blen (f ++ m1) + blen mid.flatten + blen m2)
    ((f ++ m1) :: mid) (m2 ++ r) after (0 + before.length) (0 + blen before.flatten)
    (by simp only [List.flatten_cons, blen_append]; omega)
    (by simp only [List.flatten_cons, blen_append]; omega)
    (Or.inr (by simp only [List.flatten_cons, blen_append]; omega))
  rw [List.cons_append] at hfe
  rw [hfe]
  simp only [List.length_cons, Nat.zero_add, List.flatten_cons, checkedSub]
  rw [if_pos (by omega)]
  simp only []
  rw [if_neg (by omega)]
  have hcnt : before.length + (mid.length + 1) - before.length + 1 = mid.length + 2 := by omega
  have hlines : List.take (before.length + (mid.length + 1) - before.length + 1)
      (List.drop before.length (before ++ (f ++ m1) :: (mid ++ (m2 ++ r) :: after))) =
      (f ++ m1) :: (mid ++ [m2 ++ r]) := by
    rw [hcnt, List.drop_left' rfl]
    have : (f ++ m1) :: (mid ++ (m2 ++ r) :: after) = ((f ++ m1) :: (mid ++ [m2 ++ r])) ++ after := by simp
    rw [this, List.take_left' (by simp)]
  rw [hlines]
  have hlast : ((f ++ m1) :: (mid ++ [m2 ++ r])).getLast? = some (m2 ++ r) := by
    rw [← List.cons_append, List.getLast?_append]; rfl
  rw [hlast]
  simp only [List.head?_cons, TR.unwrap]
  have e1 : blen before.flatten + blen f - blen before.flatten = blen f := by omega
  have e2 : blen before.flatten + blen (f ++ m1) + blen mid.flatten + blen m2 -
      (blen before.flatten + blen ((f ++ m1) ++ mid.flatten)) = blen m2 := by
    simp only [blen_append]; omega
  rw [e1, e2, partition_append, partition_append]
  simp only [List.length_cons, List.length_append, List.length_nil, Nat.zero_add]
  have hn1 : nth ((f ++ m1) :: (mid ++ [m2 ++ r])) 1 = TR.unwrap (mid ++ [m2 ++ r])[0]? := rfl
  have hn2 : nth ((f ++ m1) :: (mid ++ [m2 ++ r])) 2 = TR.unwrap (mid ++ [m2 ++ r])[1]? := rfl
  have hn3 : nth ((f ++ m1) :: (mid ++ [m2 ++ r])) (mid.length + 1 + 1 - 2) =
      TR.unwrap ((f ++ m1) :: (mid ++ [m2 ++ r]))[mid.length]? := by
    have : mid.length + 1 + 1 - 2 = mid.length := by omega
    rw [this]; rfl
  rw [hn1, hn2, hn3]
  have hdig : before.length + (mid.length + 1) + 1 = before.length + mid.length + 2 := by omega
  have hend : before.length + (mid.length + 1) = before.length + mid.length + 1 := by omega
  rw [hdig, hend]
  unfold innerOf
  -- case analysis on the number of fully covered lines
  match mid with
  | [] => rfl
  | [a] => rfl
  | [a, b] => rfl
  | [a, b, c] => rfl
  | a :: b :: c :: d :: rest =>
    have hl : (a :: b :: c :: d :: rest).length + 1 + 1 ≥ 6 := by simp only [List.length_cons]; omega
    simp only [List.length_cons] at hl ⊢
    rw [if_pos (by omega), if_pos (by omega), if_pos (by omega), if_pos (by omega),
      if_neg (by omega), if_pos (by omega)]
    have hidx : ((f ++ m1) :: (a :: b :: c :: d :: rest ++ [m2 ++ r]))[rest.length + 1 + 1 + 1 + 1]? =
        (a :: b :: c :: d :: rest).getLast? := by
      rw [List.getLast?_eq_getElem?]
      simp only [List.length_cons, List.getElem?_cons_succ]
      rw [List.getElem?_append_left (by simp)]
      simp
    rw [hidx]
    have hdec : decide (rest.length + 1 + 1 + 1 + 1 ≥ 4) = true := by simp
    rw [hdec]
    cases hg : (a :: b :: c :: d :: rest).getLast? with
    | none => simp at hg
    | some x => rfl

/-! ### display_position -/

/-- The position loop on a line table split at the line that holds the offset: strictly inside it
(`r ≠ []`), or at its end when it is the last line (`after = []`, the end of input). -/
theorem positionLoop_of_decomp (width : Char → Nat) (p last : Nat) (before : List (List Char))
    (f r : List Char) (after : List (List Char)) (idx pos : Nat) (hr : r ≠ [] ∨ after = [])
    (hlast : last = idx + before.length + after.length)
    (hp : p = pos + blen before.flatten + blen f) :
    positionLoop width p last (before ++ (f ++ r) :: after) idx pos =
      .ok (some ⟨ceilLog10 (idx + before.length + 1),
        snippetSinglePos width (idx + before.length) (visualize f) (visualize r)⟩) := by
  induction before generalizing idx pos with
  | nil =>
    simp only [List.flatten_nil, blen_nil, Nat.add_zero, List.nil_append, List.length_nil] at *
    simp only [positionLoop]
    rw [if_pos (by
      rcases hr with h | h
      · left; have := blen_pos_of_ne_nil h; rw [blen_append]; omega
      · right; subst h; simpa using hlast.symm)]
    simp only [checkedSub]
    rw [if_pos (by omega)]
    have : p - pos = blen f := by omega
    simp only [this, partition_append]
  | cons b bs ih =>
    simp only [List.flatten_cons, blen_append, List.length_cons] at hp hlast
    simp only [List.cons_append, positionLoop]
    rw [if_neg (by omega)]
    rw [ih (idx + 1) (pos + blen b) (by omega) (by omega)]
    simp only [List.length_cons]
    have e1 : idx + 1 + bs.length = idx + (bs.length + 1) := by omega
    rw [e1]

/-- `display_position` for the line that holds the offset. -/
theorem positionSnippet_of_decomp (width : Char → Nat) (s : List Char)
    (before after : List (List Char)) (f r : List Char)
    (hsplit : dispLines s = before ++ (f ++ r) :: after) (hr : r ≠ [] ∨ after = []) :
    positionSnippet width s (blen before.flatten + blen f) =
      .ok (some ⟨ceilLog10 (before.length + 1),
        snippetSinglePos width before.length (visualize f) (visualize r)⟩) := by
  unfold positionSnippet
  rw [allLines_eq, hsplit]
  simp only [checkedSub, List.length_append, List.length_cons]
  rw [if_pos (by omega)]
  simp only []
  have := positionLoop_of_decomp width (blen before.flatten + blen f)
    (before.length + (after.length + 1) - 1) before f r after 0 0 hr (by omega) (by omega)
  simpa using this

/-! ### every span and position sits somewhere in the line table -/

theorem exists_line_le (ls : List (List Char)) (o a : Nat) (hne : ls ≠ []) (h1 : o ≤ a)
    (h2 : a ≤ o + blen ls.flatten) :
    ∃ before l after, ls = before ++ l :: after ∧ o + blen before.flatten ≤ a ∧
      a ≤ o + blen before.flatten + blen l ∧ (before = [] ∨ o + blen before.flatten < a) := by
  induction ls generalizing o with
  | nil => exact absurd rfl hne
  | cons l rest ih =>
    simp only [List.flatten_cons, blen_append] at h2
    by_cases hle : a ≤ o + blen l
    · exact ⟨[], l, rest, rfl, by simpa using h1, by simpa using hle, Or.inl rfl⟩
    · have hrest : rest ≠ [] := by
        intro h; subst h; simp at h2; omega
      obtain ⟨before, l', after, heq, g1, g2, g3⟩ := ih (o + blen l) hrest (by omega) (by omega)
      refine ⟨l :: before, l', after, by rw [heq]; rfl, ?_, ?_, Or.inr ?_⟩
      · simp only [List.flatten_cons, blen_append]; omega
      · simp only [List.flatten_cons, blen_append]; omega
      · simp only [List.flatten_cons, blen_append]
        rcases g3 with g | g
        · subst g; simp; omega
        · omega

theorem exists_line_lt (ls : List (List Char)) (o p : Nat) (h1 : o ≤ p)
    (h2 : p < o + blen ls.flatten) :
    ∃ before l after, ls = before ++ l :: after ∧ o + blen before.flatten ≤ p ∧
      p < o + blen before.flatten + blen l := by
  induction ls generalizing o with
  | nil => simp at h2; omega
  | cons l rest ih =>
    simp only [List.flatten_cons, blen_append] at h2
    by_cases hlt : p < o + blen l
    · exact ⟨[], l, rest, rfl, by simpa using h1, by simpa using hlt⟩
    · obtain ⟨before, l', after, heq, g1, g2⟩ := ih (o + blen l) (by omega) (by omega)
      refine ⟨l :: before, l', after, by rw [heq]; rfl, ?_, ?_⟩
      · simp only [List.flatten_cons, blen_append]; omega
      · simp only [List.flatten_cons, blen_append]; omega

/-- A boundary of the input inside (or at the ends of) one of its lines is a boundary of that
line. -/
theorem split_line_at {s : List Char} {before after : List (List Char)} {l : List Char}
    (hs : s = (before ++ l :: after).flatten) {a : Nat} (ha : IsBoundary s a)
    (h1 : blen before.flatten ≤ a) (h2 : a ≤ blen before.flatten + blen l) :
    ∃ f g, l = f ++ g ∧ blen f = a - blen before.flatten := by
  have hs' : s = before.flatten ++ l ++ after.flatten := by rw [hs]; simp
  have := (isBoundary_mid before.flatten l after.flatten (a - blen before.flatten)).mpr
    ⟨by rw [← hs']; have : blen before.flatten + (a - blen before.flatten) = a := by omega
        rw [this]; exact ha, by omega⟩
  obtain ⟨f, g, hl, hf⟩ := this
  exact ⟨f, g, hl, hf⟩

/-- Every valid span of a non-empty input is in one of the two situations computed above. -/
theorem span_decomp (s : List Char) (a b : Nat) (hv : (⟨s, a, b⟩ : Span).Valid) :
    (∃ before after f m r, dispLines s = before ++ (f ++ m ++ r) :: after ∧
      (f ≠ [] ∨ before = []) ∧ a = blen before.flatten + blen f ∧
      b = blen before.flatten + blen f + blen m) ∨
    (∃ before mid after f m1 m2 r,
      dispLines s = before ++ (f ++ m1) :: (mid ++ (m2 ++ r) :: after) ∧
      (f ≠ [] ∨ before = []) ∧ m2 ≠ [] ∧ a = blen before.flatten + blen f ∧
      b = blen before.flatten + blen (f ++ m1) + blen mid.flatten + blen m2) := by
  obtain ⟨hab, ha, hb⟩ := hv
  simp only [] at hab ha hb
  have hfl := flatten_dispLines s
  have hlen : blen (dispLines s).flatten = blen s := by rw [hfl]
  obtain ⟨before, l, after, hsplit, g1, g2, g3⟩ :=
    exists_line_le (dispLines s) 0 a (dispLines_ne_nil s) (Nat.zero_le _)
      (by rw [hlen]; simpa using ha.le)
  simp only [Nat.zero_add] at g1 g2 g3
  obtain ⟨f, g, hl, hf⟩ := split_line_at (by rw [← hsplit, hfl]) ha g1 g2
  have hfne : f ≠ [] ∨ before = [] := by
    rcases g3 with h | h
    · right; exact h
    · left; intro hf0; subst hf0; simp at hf; omega
  by_cases hble : b ≤ blen before.flatten + blen l
  · -- the end is in the same line
    left
    obtain ⟨fm, r, hl2, hfm⟩ := split_line_at (by rw [← hsplit, hfl]) hb (by omega) hble
    -- f is a prefix of fm
    obtain ⟨m, hm⟩ := prefix_of_blen_le (p1 := f) (q1 := g) (p2 := fm) (q2 := r) (by rw [← hl, ← hl2])
      (by omega)
    subst hm
    rw [blen_append] at hfm
    refine ⟨before, after, f, m, r, by rw [hsplit, hl2], hfne, by omega, by omega⟩
  · -- the end is in a later line
    right
    have hafter : after ≠ [] := by
      intro h; subst h
      have := hb.le
      rw [← hlen, hsplit] at this
      simp [blen_append] at this; omega
    have hbs : b ≤ blen before.flatten + blen l + blen after.flatten := by
      have := hb.le
      rw [← hlen, hsplit] at this
      simpa [blen_append, Nat.add_assoc] using this
    obtain ⟨mid, l2, after', hsplit2, k1, k2, k3⟩ :=
      exists_line_le after (blen before.flatten + blen l) b hafter (by omega) hbs
    have k3' : blen before.flatten + blen l + blen mid.flatten < b := by
      rcases k3 with h | h
      · subst h; simp; omega
      · exact h
    have hsplit3 : dispLines s = (before ++ l :: mid) ++ l2 :: after' := by
      rw [hsplit, hsplit2]; simp
    obtain ⟨m2, r, hl2, hm2⟩ := split_line_at (before := before ++ l :: mid) (by rw [← hsplit3, hfl]) hb
      (by simp [blen_append]; omega) (by simp [blen_append]; omega)
    have hm2ne : m2 ≠ [] := by
      intro h; subst h; simp [blen_append] at hm2; omega
    refine ⟨before, mid, after', f, g, m2, r, ?_, hfne, hm2ne, by omega, ?_⟩
    · rw [hsplit, hsplit2, hl, hl2]
    · simp [blen_append] at hm2
      rw [← hl]; omega

/-- `display_span` does not panic on a valid span, whatever the input. -/
theorem spanSnippet_ok (width : Char → Nat) (s : List Char) (a b : Nat)
    (hv : (⟨s, a, b⟩ : Span).Valid) : ∃ sn, spanSnippet width ⟨s, a, b⟩ = .ok sn := by
  rcases span_decomp s a b hv with ⟨before, after, f, m, r, h1, h2, rfl, rfl⟩ |
    ⟨before, mid, after, f, m1, m2, r, h1, h2, h3, rfl, rfl⟩
  · exact ⟨_, spanSnippet_single width s before after f m r h1 h2⟩
  · exact ⟨_, spanSnippet_multi width s before mid after f m1 m2 r h1 h2 h3⟩

/-- Every position sits in a line of the displayed table: strictly inside it, or at the end of
the last one (the end of input). -/
theorem position_decomp (s : List Char) (p : Nat) (hp : IsBoundary s p) :
    ∃ before after f r, dispLines s = before ++ (f ++ r) :: after ∧ (r ≠ [] ∨ after = []) ∧
      p = blen before.flatten + blen f := by
  have hfl := flatten_dispLines s
  by_cases hlt : p < blen s
  · obtain ⟨before, l, after, hsplit, g1, g2⟩ :=
      exists_line_lt (dispLines s) 0 p (Nat.zero_le _) (by rw [hfl]; omega)
    simp only [Nat.zero_add] at g1 g2
    obtain ⟨f, r, hl, hf⟩ := split_line_at (by rw [← hsplit, hfl]) hp g1 (by omega)
    have hr : r ≠ [] := by
      intro h; subst h; simp at hl; subst hl; omega
    exact ⟨before, after, f, r, by rw [hsplit, hl], Or.inl hr, by omega⟩
  · have hpe : p = blen s := by have := hp.le; omega
    -- the last line
    have hne := dispLines_ne_nil s
    have hdl := List.dropLast_concat_getLast hne
    refine ⟨(dispLines s).dropLast, [], (dispLines s).getLast hne, [], ?_, Or.inr rfl, ?_⟩
    · simpa using hdl.symm
    · have := congrArg (fun l => blen l.flatten) hdl
      simp only [List.flatten_append, List.flatten_cons, List.flatten_nil, List.append_nil,
        blen_append, hfl] at this
      omega

/-- `display_position` does not panic and prints something, whatever the input and position. -/
theorem positionSnippet_ok (width : Char → Nat) (s : List Char) (p : Nat) (hp : IsBoundary s p) :
    ∃ sn, positionSnippet width s p = .ok (some sn) := by
  obtain ⟨before, after, f, r, h1, h2, rfl⟩ := position_decomp s p hp
  exact ⟨_, positionSnippet_of_decomp width s before after f r h1 h2⟩

/-! ### the control-picture table -/

/-- The 33-entry table in closed form. -/
theorem visChar_spec (c : Char) :
    visChar c = if c.toNat < 0x20 then Char.ofNat (0x2400 + c.toNat)
      else if c.toNat = 0x7f then Char.ofNat 0x2421 else c := by
  unfold visChar
  split
  case h_34 =>
    simp only [imp_false] at *
    rw [if_neg (by omega), if_neg (by omega)]
  all_goals (rename_i h; rw [h]; first
    | (rw [if_pos (by decide)]; try decide)
    | (rw [if_neg (by decide), if_pos (by decide)]; try decide))

/-! ### every numbered line is a line of the input with its own number -/

/-- A numbered row carries the 1-based number of a line of the input and that line's text with
control pictures (split into the parts before / inside / after the highlight). -/
def RowOK (s : List Char) : Row → Prop
  | .text n pre hl post =>
    1 ≤ n ∧ ∃ line, (dispLines s)[n - 1]? = some line ∧ visualize line = pre ++ hl.getD [] ++ post
  | _ => True

theorem getElem?_mid {α} (before : List α) (x : α) (after : List α) :
    (before ++ x :: after)[before.length]? = some x := by
  rw [List.getElem?_append_right (Nat.le_refl _)]; simp

theorem getElem?_mid_add {α} (before : List α) (rest : List α) (k : Nat) :
    (before ++ rest)[before.length + k]? = rest[k]? := by
  rw [List.getElem?_append_right (by omega)]
  congr 1; omega

theorem rows_ok_single (s : List Char) (before after : List (List Char)) (f m r : List Char)
    (width : Char → Nat) (hsplit : dispLines s = before ++ (f ++ m ++ r) :: after) :
    ∀ row ∈ snippetSingleLine width before.length (visualize f) (visualize m) (visualize r),
      RowOK s row := by
  intro row hrow
  simp only [snippetSingleLine, List.mem_cons, List.mem_nil_iff, or_false] at hrow
  rcases hrow with h | h | h <;> subst h
  · trivial
  · refine ⟨by omega, f ++ m ++ r, ?_, by simp [visualize_append]⟩
    rw [hsplit]; simp
  · trivial

/-- The rows of a multi-line snippet when more than three lines are fully covered. -/
theorem multi_rows_many (w : Char → Nat) (k e : Nat) (vf vm1 vm2 vr a b c d x : List Char)
    (rest : List (List Char)) (hx : (a :: b :: c :: d :: rest).getLast? = some x) :
    snippetMultiLine w k vf vm1 e vm2 vr (innerOf (a :: b :: c :: d :: rest)) =
      [.mark (strWidth w vf) ['v'], .text (k + 1) vf (some vm1) [],
       .text (k + 2) [] (some (visualize a)) [], .dots, .text e [] (some (visualize x)) [],
       .text (e + 1) [] (some vm2) vr, .mark (strWidth w vm2 - 1) ['^']] := by
  unfold innerOf
  rw [hx]
  simp only [List.length_cons]
  rw [if_pos (by omega), if_neg (by omega), if_pos (by omega)]
  have : decide (rest.length + 1 + 1 + 1 + 1 ≥ 4) = true := by simp
  rw [this]
  rfl

theorem rows_ok_multi (s : List Char) (before mid after : List (List Char)) (f m1 m2 r : List Char)
    (width : Char → Nat)
    (hsplit : dispLines s = before ++ (f ++ m1) :: (mid ++ (m2 ++ r) :: after)) :
    ∀ row ∈ snippetMultiLine width before.length (visualize f) (visualize m1)
        (before.length + mid.length + 1) (visualize m2) (visualize r) (innerOf mid),
      RowOK s row := by
  have hfirst : (dispLines s)[before.length + 1 - 1]? = some (f ++ m1) := by
    rw [hsplit]; simp
  have hlast : (dispLines s)[before.length + mid.length + 1 + 1 - 1]? = some (m2 ++ r) := by
    rw [hsplit]
    have : before.length + mid.length + 1 + 1 - 1 = before.length + (mid.length + 1) := by omega
    rw [this, getElem?_mid_add]
    simp only [List.getElem?_cons_succ]
    exact getElem?_mid mid (m2 ++ r) after
  have hmid : ∀ k x, mid[k]? = some x → (dispLines s)[before.length + (k + 1)]? = some x := by
    intro k x hk
    rw [hsplit, getElem?_mid_add]
    simp only [List.getElem?_cons_succ]
    rw [List.getElem?_append_left (by
      have := (List.getElem?_eq_some_iff.mp hk).1; exact this)]
    exact hk
  have htext : ∀ (n : Nat) (x : List Char), 1 ≤ n → (dispLines s)[n - 1]? = some x →
      RowOK s (.text n [] (some (visualize x)) []) := by
    intro n x hn hx
    exact ⟨hn, x, hx, by simp⟩
  have hA : RowOK s (.text (before.length + 1) (visualize f) (some (visualize m1)) []) :=
    ⟨by omega, _, hfirst, by simp [visualize_append]⟩
  have hZ : RowOK s (.text (before.length + mid.length + 1 + 1) [] (some (visualize m2)) (visualize r)) :=
    ⟨by omega, _, hlast, by simp [visualize_append]⟩
  intro row hrow
  match mid, hmid, hZ with
  | [], hmid, hZ =>
    have e : snippetMultiLine width before.length (visualize f) (visualize m1)
        (before.length + ([] : List (List Char)).length + 1) (visualize m2) (visualize r) (innerOf []) =
        [.mark (strWidth width (visualize f)) ['v'],
         .text (before.length + 1) (visualize f) (some (visualize m1)) [],
         .text (before.length + ([] : List (List Char)).length + 1 + 1) [] (some (visualize m2)) (visualize r),
         .mark (strWidth width (visualize m2) - 1) ['^']] := rfl
    rw [e] at hrow
    simp only [List.mem_cons, List.mem_nil_iff, or_false] at hrow
    rcases hrow with h | h | h | h <;> subst h
    · trivial
    · exact hA
    · exact hZ
    · trivial
  | [a], hmid, hZ =>
    have e : snippetMultiLine width before.length (visualize f) (visualize m1)
        (before.length + [a].length + 1) (visualize m2) (visualize r) (innerOf [a]) =
        [.mark (strWidth width (visualize f)) ['v'],
         .text (before.length + 1) (visualize f) (some (visualize m1)) [],
         .text (before.length + 2) [] (some (visualize a)) [],
         .text (before.length + [a].length + 1 + 1) [] (some (visualize m2)) (visualize r),
         .mark (strWidth width (visualize m2) - 1) ['^']] := rfl
    rw [e] at hrow
    simp only [List.mem_cons, List.mem_nil_iff, or_false] at hrow
    rcases hrow with h | h | h | h | h <;> subst h
    · trivial
    · exact hA
    · exact htext _ a (by omega) (hmid 0 a rfl)
    · exact hZ
    · trivial
  | [a, b], hmid, hZ =>
    have e : snippetMultiLine width before.length (visualize f) (visualize m1)
        (before.length + [a, b].length + 1) (visualize m2) (visualize r) (innerOf [a, b]) =
        [.mark (strWidth width (visualize f)) ['v'],
         .text (before.length + 1) (visualize f) (some (visualize m1)) [],
         .text (before.length + 2) [] (some (visualize a)) [],
         .text (before.length + [a, b].length + 1) [] (some (visualize b)) [],
         .text (before.length + [a, b].length + 1 + 1) [] (some (visualize m2)) (visualize r),
         .mark (strWidth width (visualize m2) - 1) ['^']] := rfl
    rw [e] at hrow
    simp only [List.mem_cons, List.mem_nil_iff, or_false] at hrow
    rcases hrow with h | h | h | h | h | h <;> subst h
    · trivial
    · exact hA
    · exact htext _ a (by omega) (hmid 0 a rfl)
    · exact htext _ b (by simp) (hmid 1 b rfl)
    · exact hZ
    · trivial
  | [a, b, c], hmid, hZ =>
    have e : snippetMultiLine width before.length (visualize f) (visualize m1)
        (before.length + [a, b, c].length + 1) (visualize m2) (visualize r) (innerOf [a, b, c]) =
        [.mark (strWidth width (visualize f)) ['v'],
         .text (before.length + 1) (visualize f) (some (visualize m1)) [],
         .text (before.length + 2) [] (some (visualize a)) [],
         .text (before.length + 3) [] (some (visualize b)) [],
         .text (before.length + [a, b, c].length + 1) [] (some (visualize c)) [],
         .text (before.length + [a, b, c].length + 1 + 1) [] (some (visualize m2)) (visualize r),
         .mark (strWidth width (visualize m2) - 1) ['^']] := rfl
    rw [e] at hrow
    simp only [List.mem_cons, List.mem_nil_iff, or_false] at hrow
    rcases hrow with h | h | h | h | h | h | h <;> subst h
    · trivial
    · exact hA
    · exact htext _ a (by omega) (hmid 0 a rfl)
    · exact htext _ b (by omega) (hmid 1 b rfl)
    · exact htext _ c (by simp) (hmid 2 c rfl)
    · exact hZ
    · trivial
  | a :: b :: c :: d :: rest, hmid, hZ =>
    have hg : ∃ x, (a :: b :: c :: d :: rest).getLast? = some x ∧
        (a :: b :: c :: d :: rest)[rest.length + 3]? = some x := by
      cases hx : (a :: b :: c :: d :: rest).getLast? with
      | none => simp at hx
      | some x =>
        refine ⟨x, rfl, ?_⟩
        rw [List.getLast?_eq_getElem?] at hx
        simpa using hx
    obtain ⟨x, hx1, hx2⟩ := hg
    rw [multi_rows_many width _ _ _ _ _ _ a b c d x rest hx1] at hrow
    simp only [List.mem_cons, List.mem_nil_iff, or_false] at hrow
    rcases hrow with h | h | h | h | h | h | h <;> subst h
    · trivial
    · exact hA
    · exact htext _ a (by omega) (hmid 0 a rfl)
    · trivial
    · refine htext _ x (by simp) ?_
      have := hmid (rest.length + 3) x hx2
      simp only [List.length_cons]
      have e : before.length + (rest.length + 1 + 1 + 1 + 1) + 1 - 1 = before.length + (rest.length + 3 + 1) := by
        omega
      rw [e]; exact this
    · exact hZ
    · trivial

theorem spanSnippet_rows_ok (width : Char → Nat) (s : List Char) (a b : Nat)
    (hv : (⟨s, a, b⟩ : Span).Valid) (sn : Snippet) (h : spanSnippet width ⟨s, a, b⟩ = .ok sn) :
    ∀ row ∈ sn.rows, RowOK s row := by
  rcases span_decomp s a b hv with ⟨before, after, f, m, r, h1, h2, rfl, rfl⟩ |
    ⟨before, mid, after, f, m1, m2, r, h1, h2, h3, rfl, rfl⟩
  · rw [spanSnippet_single width s before after f m r h1 h2] at h
    injection h with h; subst h
    exact rows_ok_single s before after f m r width h1
  · rw [spanSnippet_multi width s before mid after f m1 m2 r h1 h2 h3] at h
    injection h with h; subst h
    exact rows_ok_multi s before mid after f m1 m2 r width h1

/-! ### the region excluded by the `_partial` theorems is exactly F-FMT-3 -/

/-- `a` is the first byte of a line of `s` other than the first line. -/
def LaterLineStart (s : List Char) (a : Nat) : Prop :=
  ∃ before l after, dispLines s = before ++ l :: after ∧ before ≠ [] ∧ a = blen before.flatten

theorem span_decomp_canonical (s : List Char) (a b : Nat)
    (hv : (⟨s, a, b⟩ : Span).Valid) (hnot : ¬ LaterLineStart s a) :
    (∃ before after f m r, dispLines s = before ++ (f ++ m ++ r) :: after ∧
      (m ++ r ≠ [] ∨ after = []) ∧ (f ≠ [] ∨ before = []) ∧ a = blen before.flatten + blen f ∧
      b = blen before.flatten + blen f + blen m) ∨
    (∃ before mid after f m1 m2 r,
      dispLines s = before ++ (f ++ m1) :: (mid ++ (m2 ++ r) :: after) ∧
      m1 ≠ [] ∧ m2 ≠ [] ∧ (f ≠ [] ∨ before = []) ∧ a = blen before.flatten + blen f ∧
      b = blen before.flatten + blen (f ++ m1) + blen mid.flatten + blen m2) := by
  rcases span_decomp s a b hv with ⟨before, after, f, m, r, h1, h2, ha, hb⟩ |
    ⟨before, mid, after, f, m1, m2, r, h1, h2, h3, ha, hb⟩
  · left
    refine ⟨before, after, f, m, r, h1, ?_, h2, ha, hb⟩
    by_cases hmr : m ++ r = []
    · right
      cases after with
      | nil => rfl
      | cons l' after' =>
        exfalso
        apply hnot
        obtain ⟨rfl, rfl⟩ := List.append_eq_nil_iff.mp hmr
        refine ⟨before ++ [f], l', after', by rw [h1]; simp, by simp, ?_⟩
        rw [ha]; simp [blen_append]
    · left; exact hmr
  · right
    refine ⟨before, mid, after, f, m1, m2, r, h1, ?_, h3, h2, ha, hb⟩
    intro hm1
    subst hm1
    apply hnot
    cases mid with
    | nil =>
      exact ⟨before ++ [f], m2 ++ r, after, by rw [h1]; simp, by simp, by rw [ha]; simp [blen_append]⟩
    | cons x xs =>
      exact ⟨before ++ [f], x, xs ++ (m2 ++ r) :: after, by rw [h1]; simp, by simp,
        by rw [ha]; simp [blen_append]⟩

end Text
end PestTyped
