/-
Lemmas.CursorRun — S2 for the interpreters: every successful `parse` / `check` moves the cursor
forward over whole characters (`Inp.Adv`).
-/
import PestTyped.Lemmas.Cursor
import PestTyped.Lemmas.CheckParse
namespace PestTyped

/-- A function whose successful results only advance the cursor. -/
def AdvFn {α} (f : Inp → M → R α) : Prop := ∀ i m i' m' a, f i m = .ok i' m' a → i.Adv i'

theorem restoreOnNone_ok {α} {saved : List Sp} {r : R α} {i' m' a}
    (h : restoreOnNone saved r = .ok i' m' a) : r = .ok i' m' a := by
  cases r <;> simp [restoreOnNone] at h ⊢
  exact h

theorem skipLoop_adv {α} (f : Inp → M → R α) (hf : AdvFn f) :
    ∀ k i m acc i' m' a, skipLoop f k i m acc = .ok i' m' a → i.Adv i' := by
  intro k
  induction k with
  | zero => intro i m acc i' m' a h; simp [skipLoop] at h; rw [← h.1]; exact Inp.Adv.refl _
  | succ k ih =>
    intro i m acc i' m' a h
    unfold skipLoop at h
    split at h
    · cases h
    · cases h
    · next i1 m1 a1 h1 => exact (hf _ _ _ _ _ h1).trans (ih _ _ _ _ _ _ h)

theorem seqLoop_adv {α β} (f : Node → Inp → M → R α) (skip : Inp → M → R (List β)) (mk : List β → α → α)
    (hf : ∀ n, AdvFn (f n)) (hs : AdvFn skip) :
    ∀ ns i m acc i' m' a, seqLoop f skip mk ns i m acc = .ok i' m' a → i.Adv i' := by
  intro ns
  induction ns with
  | nil => intro i m acc i' m' a h; simp [seqLoop] at h; rw [← h.1]; exact Inp.Adv.refl _
  | cons n ns ih =>
    intro i m acc i' m' a h
    unfold seqLoop at h
    split at h
    · cases h
    · cases h
    · next i1 m1 sk h1 =>
      split at h
      · cases h
      · cases h
      · next i2 m2 a2 h2 =>
        exact ((hs _ _ _ _ _ h1).trans (hf n _ _ _ _ _ h2)).trans (ih _ _ _ _ _ _ h)

theorem choiceLoop_adv {α} (f : Node → Inp → M → R α) (hf : ∀ n, AdvFn (f n)) :
    ∀ ns k i m i' m' a, choiceLoop f ns k i m = .ok i' m' a → i.Adv i' := by
  intro ns
  induction ns with
  | nil => intro k i m i' m' a h; simp [choiceLoop] at h
  | cons n ns ih =>
    intro k i m i' m' a h
    unfold choiceLoop at h
    split at h
    · cases h
    · next i1 m1 a1 h1 =>
      injection h with h1' h2' h3'; subst h1'
      exact hf n _ _ _ _ _ (restoreOnNone_ok h1)
    · exact ih _ _ _ _ _ _ h

theorem repLoop_adv {α} (unit : Nat → Inp → M → R α) (hu : ∀ idx, AdvFn (unit idx)) (min : Nat) (max : Option Nat) :
    ∀ budget idx i m acc i' m' a, repLoop unit min max budget idx i m acc = .ok i' m' a → i.Adv i' := by
  intro budget
  induction budget with
  | zero => intro idx i m acc i' m' a h; simp [repLoop] at h
  | succ b ih =>
    intro idx i m acc i' m' a h
    unfold repLoop at h
    split at h
    · rw [(repDone_ok h).1]; exact Inp.Adv.refl _
    · split at h
      · cases h
      · split at h
        · cases h
        · rw [(repDone_ok h).1]; exact Inp.Adv.refl _
      · next i1 m1 a1 h1 =>
        exact (hu idx _ _ _ _ _ (restoreOnNone_ok h1)).trans (ih _ _ _ _ _ _ _ h)

theorem arrayLoop_adv {α} (f : Inp → M → R α) (hf : AdvFn f) :
    ∀ k i m acc i' m' a, arrayLoop f k i m acc = .ok i' m' a → i.Adv i' := by
  intro k
  induction k with
  | zero => intro i m acc i' m' a h; simp [arrayLoop] at h; rw [← h.1]; exact Inp.Adv.refl _
  | succ k ih =>
    intro i m acc i' m' a h
    unfold arrayLoop at h
    split at h
    · cases h
    · cases h
    · next i1 m1 a1 h1 => exact (hf _ _ _ _ _ h1).trans (ih _ _ _ _ _ _ h)

theorem repUnitP_adv (skip body : Inp → M → R Val) (hs : AdvFn skip) (hb : AdvFn body) (dflt : Val) (k idx : Nat) :
    AdvFn (repUnitP skip body dflt k idx) := by
  intro i m i' m' a h
  unfold repUnitP at h
  split at h
  · split at h
    · cases h
    · cases h
    · next i1 m1 v h1 => injection h with h0; subst h0; exact hb _ _ _ _ _ h1
  · split at h
    · cases h
    · cases h
    · next i1 m1 sk h1 =>
      split at h
      · cases h
      · cases h
      · next i2 m2 v h2 =>
        injection h with h0; subst h0
        exact (skipLoop_adv skip hs _ _ _ _ _ _ _ h1).trans (hb _ _ _ _ _ h2)

/-- S2 for `parse`. -/
theorem parse_adv (g : NodeGrammar) (uni : Uni) :
    ∀ (n : Nat) (inh : Bool) (node : Node), AdvFn (parse g uni n inh node) := by
  intro n
  induction n with
  | zero => intro inh node i m i' m' a h; simp [parse] at h
  | succ n ih =>
    intro inh node i m i' m' a h
    cases node with
    | str s =>
      simp only [parse] at h; split at h
      · next h1 => injection h with h0; subst h0; exact Inp.matchString_adv h1
      · cases h
    | insens s =>
      simp only [parse] at h; split at h
      · next h1 => injection h with h0; subst h0; exact Inp.matchInsens_adv h1
      · cases h
    | range lo hi =>
      simp only [parse] at h; split at h
      · next h1 => injection h with h0; subst h0; exact Inp.matchRange_adv h1
      · cases h
    | any =>
      simp only [parse] at h; split at h
      · next h1 => injection h with h0; subst h0; exact Inp.matchCharBy_adv h1
      · cases h
    | soi =>
      simp only [parse] at h; split at h
      · injection h with h0; subst h0; exact Inp.Adv.refl _
      · cases h
    | eoi =>
      simp only [parse] at h; split at h
      · injection h with h0; subst h0; exact Inp.Adv.refl _
      · cases h
    | newline =>
      simp only [parse] at h; split at h
      · next h1 => injection h with h0; subst h0; exact newlineMatch_adv h1
      · cases h
    | charBy p =>
      simp only [parse] at h; split at h
      · next h1 => injection h with h0; subst h0; exact Inp.matchCharBy_adv h1
      · cases h
    | skipUntil needles =>
      simp only [parse] at h; injection h with h0; subst h0; exact Inp.skipUntil_adv _ _
    | skipChars k =>
      simp only [parse] at h; split at h
      · next h1 => injection h with h0; subst h0; exact Inp.skipN_adv h1
      · cases h
    | seq sk items =>
      simp only [parse] at h
      cases items with
      | nil => simp only [] at h; injection h with h0; subst h0; exact Inp.Adv.refl _
      | cons n0 ns =>
        simp only [] at h
        split at h
        · cases h
        · cases h
        · next i1 m1 v0 h1 =>
          split at h
          · cases h
          · cases h
          · next i2 m2 vs h2 =>
            injection h with h0; subst h0
            refine (ih inh n0 _ _ _ _ _ h1).trans (seqLoop_adv _ _ _ (ih inh) ?_ _ _ _ _ _ _ _ h2)
            intro i m i' m' a hh
            exact skipLoop_adv _ (ih false g.skipped) _ _ _ _ _ _ _ hh
    | choice alts =>
      simp only [parse] at h
      split at h
      · cases h
      · cases h
      · next i1 m1 k v h1 =>
        injection h with h0; subst h0
        exact choiceLoop_adv _ (ih inh) _ _ _ _ _ _ _ h1
    | opt x =>
      simp only [parse] at h
      split at h
      · cases h
      · injection h with h0; subst h0; exact Inp.Adv.refl _
      · next i1 m1 v h1 => injection h with h0; subst h0; exact ih inh x _ _ _ _ _ (restoreOnNone_ok h1)
    | rep sk min max x =>
      simp only [parse] at h
      split at h
      · cases h
      · cases h
      · next i1 m1 vs h1 =>
        injection h with h0; subst h0
        exact repLoop_adv _ (fun idx => repUnitP_adv _ _ (ih false g.skipped) (ih inh x) _ _ idx) _ _ _ _ _ _ _ _ _ _ h1
    | atomicRepeat x =>
      simp only [parse] at h
      split at h
      · cases h
      · cases h
      · next i1 m1 vs h1 =>
        injection h with h0; subst h0
        exact repLoop_adv _ (fun _ => ih inh x) _ _ _ _ _ _ _ _ _ _ h1
    | pos x =>
      simp only [parse] at h
      split at h
      · cases h
      · cases h
      · injection h with h0; subst h0; exact Inp.Adv.refl _
    | neg x =>
      simp only [parse] at h
      split at h
      · cases h
      · injection h with h0; subst h0; exact Inp.Adv.refl _
      · cases h
    | push x =>
      simp only [parse] at h
      split at h
      · cases h
      · cases h
      · next i1 m1 v h1 => injection h with h0; subst h0; exact ih inh x _ _ _ _ _ h1
    | peek =>
      simp only [parse] at h
      split at h
      · cases h
      · split at h
        · next h1 => injection h with h0; subst h0; exact Inp.matchString_adv h1
        · cases h
    | peekAll =>
      simp only [parse] at h
      split at h
      · next h1 => injection h with h0; subst h0; exact peekSpans_adv _ _ _ h1
      · cases h
    | pop =>
      simp only [parse] at h
      split at h
      · cases h
      · split at h
        · next h1 => injection h with h0; subst h0; exact Inp.matchString_adv h1
        · cases h
    | popAll =>
      simp only [parse] at h
      split at h
      · next h1 => injection h with h0; subst h0; exact peekSpans_adv _ _ _ h1
      · cases h
    | drop =>
      simp only [parse] at h
      split at h
      · cases h
      · injection h with h0; subst h0; exact Inp.Adv.refl _
    | peekSlice a b =>
      simp only [parse] at h
      split at h
      · cases h
      · split at h
        · injection h with h0; subst h0; exact Inp.Adv.refl _
        · split at h
          · next h1 => injection h with h0; subst h0; exact peekSpans_adv _ _ _ h1
          · cases h
    | ref r f =>
      simp only [parse] at h
      split at h
      · cases h
      · next d hd =>
        split at h
        · split at h
          · cases h
          · cases h
          · next i1 m1 v h1 => injection h with h0; subst h0; exact ih _ _ _ _ _ _ _ h1
        · split at h
          · cases h
          · cases h
          · next i1 m1 v h1 =>
            injection h with h0; subst h0
            have := check_eq_parse_forget g uni n (f.eval inh) d.body i { m with trk := m.trk.enter r i.pos }
            rw [h1] at this
            cases hp : parse g uni n (f.eval inh) d.body i { m with trk := m.trk.enter r i.pos } with
            | oof => rw [hp] at this; cases this
            | fail _ => rw [hp] at this; cases this
            | ok i2 m2 v2 =>
              rw [hp] at this; simp [Res.forget] at this
              rw [this.1]; exact ih _ _ _ _ _ _ _ hp
        · split at h
          · cases h
          · cases h
          · next i1 m1 v h1 => injection h with h0; subst h0; exact ih _ _ _ _ _ _ _ h1
    | array k x =>
      simp only [parse, arrayTryInto_arrayLoop] at h
      split at h
      · cases h
      · cases h
      · next i1 m1 vs h1 => injection h with h0; subst h0; exact arrayLoop_adv _ (ih inh x) _ _ _ _ _ _ _ h1
    | pair a b =>
      simp only [parse] at h
      split at h
      · cases h
      · cases h
      · next i1 m1 va h1 =>
        split at h
        · cases h
        · cases h
        · next i2 m2 vb h2 =>
          injection h with h0; subst h0
          exact (ih inh a _ _ _ _ _ h1).trans (ih inh b _ _ _ _ _ h2)
    | empty => simp only [parse] at h; injection h with h0; subst h0; exact Inp.Adv.refl _
    | alwaysFail => simp only [parse] at h; cases h

/-- S2 for `check`. -/
theorem check_adv (g : NodeGrammar) (uni : Uni) (n : Nat) (inh : Bool) (node : Node) :
    AdvFn (check g uni n inh node) := by
  intro i m i' m' a h
  rw [check_eq_parse_forget] at h
  cases hp : parse g uni n inh node i m with
  | oof => rw [hp] at h; cases h
  | fail _ => rw [hp] at h; cases h
  | ok i2 m2 v2 =>
    rw [hp] at h; simp [Res.forget] at h
    rw [← h.1]; exact parse_adv g uni n inh node _ _ _ _ _ hp

end PestTyped
