/-
Lemmas.TextSpanMore — additions to the text layer for `Props/C13More.lean`:

* `touches`: a line `[u, v)` is touched by a span `[start, stop)`; `lines_span` against it;
* `merge_spans` without any hypothesis (what the `if` and `Span::new` check, nothing more);
* `Position::span` (`position.rs:110-119`, `new_unchecked`): `Pos`, `Pos.span`;
* spans built by the parser (`Sp.In`) as valid `Text.Span`s of the whole string;
* the line holding an offset, three ways (C12 `lineOf`, C13 `lines`, C14 `positionSnippet`).
-/
import PestTyped.Lemmas.TextDisplay
import PestTyped.Lemmas.Spans
namespace PestTyped
namespace Text

/-! ### lines touched by a span -/

/-- The line occupying the bytes `[u, v)` is touched by the span `[start, stop)`: the two
half-open intervals intersect, or the span is empty and its offset is a byte of the line
(`u ≤ start < v`; so an empty span at the very end of the input touches no line). -/
def touches (u v start stop : Nat) : Prop :=
  (start < stop ∧ start < v ∧ u < stop) ∨ (start = stop ∧ u ≤ start ∧ start < v)

instance (u v start stop : Nat) : Decidable (touches u v start stop) := by
  unfold touches; exact inferInstance

/-- `touches`, for a non-empty span, is: the two half-open intervals share a byte. -/
theorem touches_iff_common_byte {u v start stop : Nat} (huv : u < v) (h : start < stop) :
    touches u v start stop ↔ ∃ x, u ≤ x ∧ x < v ∧ start ≤ x ∧ x < stop := by
  unfold touches
  constructor
  · rintro (⟨_, h1, h2⟩ | ⟨h1, _, _⟩)
    · rcases Nat.le_total u start with h | h
      · exact ⟨start, by omega, by omega, by omega, by omega⟩
      · exact ⟨u, by omega, by omega, by omega, by omega⟩
    · omega
  · rintro ⟨x, h1, h2, h3, h4⟩
    left; omega

theorem mem_rangesFrom_exists {o : Nat} {ls : List (List Char)} {r : Nat × Nat}
    (h : r ∈ rangesFrom o ls) : ∃ l ∈ ls, r.2 = r.1 + blen l := by
  induction ls generalizing o with
  | nil => simp [rangesFrom] at h
  | cons l ls ih =>
    simp only [rangesFrom, List.mem_cons] at h
    rcases h with h | h
    · subst h; exact ⟨l, by simp, rfl⟩
    · obtain ⟨l', hl', e⟩ := ih h
      exact ⟨l', by simp [hl'], e⟩

/-- Every entry of the line table is a non-empty byte range. -/
theorem lineTable_lt {s : List Char} {r : Nat × Nat} (h : r ∈ lineTable s) : r.1 < r.2 := by
  obtain ⟨l, hl, e⟩ := mem_rangesFrom_exists h
  have := blen_pos_of_ne_nil ((splitLines_props s).1 l hl).1
  omega

theorem rangesFrom_pairwise (o : Nat) (ls : List (List Char)) :
    (rangesFrom o ls).Pairwise (fun a b => a.2 ≤ b.1) := by
  induction ls generalizing o with
  | nil => simp [rangesFrom]
  | cons l ls ih =>
    simp only [rangesFrom, List.pairwise_cons]
    exact ⟨fun r hr => (mem_rangesFrom hr).1, ih _⟩

/-- The line table is sorted: consecutive, non-overlapping ranges. -/
theorem lineTable_pairwise (s : List Char) : (lineTable s).Pairwise (fun a b => a.2 ≤ b.1) :=
  rangesFrom_pairwise 0 _

theorem lineTable_pairwise_lt (s : List Char) : (lineTable s).Pairwise (fun a b => a.1 < b.1) := by
  have h := lineTable_pairwise s
  have hlt : ∀ r ∈ lineTable s, r.1 < r.2 := fun r hr => lineTable_lt hr
  generalize lineTable s = T at h hlt
  induction T with
  | nil => exact List.Pairwise.nil
  | cons a T ih =>
    rw [List.pairwise_cons] at h ⊢
    refine ⟨fun b hb => ?_, ih h.2 (fun r hr => hlt r (by simp [hr]))⟩
    have := h.1 b hb
    have := hlt a (by simp)
    omega

theorem lineTable_nodup (s : List Char) : (lineTable s).Nodup := by
  have := lineTable_pairwise_lt s
  exact this.imp (fun {a b} h e => by rw [e] at h; omega)

/-- A sorted list filtered by `p ∨ q`, where nothing satisfying `p` comes after something
satisfying `q`, is the `p`-part followed by the `q`-part. -/
theorem filter_or_split {α} (p q : α → Bool) (l : List α) (hdis : ∀ x ∈ l, p x = true → q x = false)
    (hord : l.Pairwise (fun a b => q a = true → p b = false)) :
    l.filter (fun x => p x || q x) = l.filter p ++ l.filter q := by
  induction l with
  | nil => rfl
  | cons a l ih =>
    rw [List.pairwise_cons] at hord
    have ih' := ih (fun x hx => hdis x (by simp [hx])) hord.2
    by_cases hp : p a = true
    · have hq := hdis a (by simp) hp
      simp [hp, hq, ih']
    · have hp' : p a = false := by simpa using hp
      by_cases hq : q a = true
      · have hnone : l.filter p = [] := by
          rw [List.filter_eq_nil_iff]
          intro b hb; have := hord.1 b hb hq; simp [this]
        simp [hp', hq, ih', hnone]
      · have hq' : q a = false := by simpa using hq
        simp [hp', hq', ih']

/-- `lines_span` against `touches`: the lines of the table that the span touches and, when the
span is not empty, the line (if any) that starts exactly at its end. -/
theorem linesSpan_touched (sp : Span) (hv : sp.Valid) :
    sp.linesSpan.map (fun l => (l.start, l.stop)) =
      (lineTable sp.input).filter (fun r =>
        decide (touches r.1 r.2 sp.start sp.stop) || decide (sp.start < sp.stop ∧ r.1 = sp.stop)) := by
  rw [(linesSpan_eq_filter sp hv).1]
  apply List.filter_congr
  intro r hr
  have hlt := lineTable_lt hr
  have hle := hv.1
  rw [← Bool.decide_or]
  apply decide_eq_decide.mpr
  unfold touches
  omega

/-- … in two parts: first the touched lines, then the extra one. -/
theorem linesSpan_touched_split (sp : Span) (hv : sp.Valid) :
    sp.linesSpan.map (fun l => (l.start, l.stop)) =
      (lineTable sp.input).filter (fun r => decide (touches r.1 r.2 sp.start sp.stop)) ++
      (lineTable sp.input).filter (fun r => decide (sp.start < sp.stop ∧ r.1 = sp.stop)) := by
  rw [linesSpan_touched sp hv]
  apply filter_or_split
  · intro r _ h
    have h1 : touches r.1 r.2 sp.start sp.stop := by simpa using h
    unfold touches at h1
    simp only [decide_eq_false_iff_not]
    omega
  · refine (lineTable_pairwise_lt sp.input).imp ?_
    intro a b hab ha
    have h1 : sp.start < sp.stop ∧ a.1 = sp.stop := by simpa using ha
    simp only [decide_eq_false_iff_not]
    unfold touches
    omega

/-- At most one line starts at a given offset. -/
theorem lineTable_filter_start_le_one (s : List Char) (k : Nat) (c : Prop) [Decidable c] :
    ((lineTable s).filter (fun r => decide (c ∧ r.1 = k))).length ≤ 1 := by
  have h := lineTable_pairwise_lt s
  generalize lineTable s = T at h
  induction T with
  | nil => simp
  | cons a T ih =>
    rw [List.pairwise_cons] at h
    rw [List.filter_cons]
    split
    · rename_i ha
      have ha' : c ∧ a.1 = k := by simpa using ha
      rw [List.filter_eq_nil_iff.mpr]
      · simp
      · intro b hb
        have := h.1 b hb
        simp only [decide_eq_true_eq, not_and]
        intro _; omega
    · exact ih h.2

/-! ### merge_spans -/

/-- `merge_spans` with no hypothesis at all: what the `if` and `Span::new` test. -/
theorem mergeSpans_eq_some_iff {a b c : Span} :
    mergeSpans a b = some c ↔
      (a.stop ≥ b.start ∧ a.start ≤ b.stop) ∧
      min a.start b.start ≤ max a.stop b.stop ∧
      IsBoundary a.input (min a.start b.start) ∧ IsBoundary a.input (max a.stop b.stop) ∧
      c = ⟨a.input, min a.start b.start, max a.stop b.stop⟩ := by
  unfold mergeSpans
  split
  · rename_i h
    rw [Span.new_eq_some]
    constructor
    · rintro ⟨h1, h2, h3, h4⟩; exact ⟨h, h2, h3, h4, h1⟩
    · rintro ⟨_, h2, h3, h4, h1⟩; exact ⟨h1, h2, h3, h4⟩
  · rename_i h
    constructor
    · intro h'; cases h'
    · rintro ⟨h', _⟩; exact absurd h' h

/-! ### `Position::span` -/

/-- A `Position`: the input and a byte offset. -/
structure Pos where
  input : List Char
  pos : Nat
  deriving DecidableEq, Repr

/-- The invariant of every `Position` (`Position::new` answers only on boundaries, C12_new). -/
def Pos.Valid (p : Pos) : Prop := IsBoundary p.input p.pos

/-- `Position::span(&self, other)`: `ptr::eq(self.input, other.input)` or panic; then
`Span::new_unchecked(self.input, self.pos, other.pos)` — NO test that `self.pos <= other.pos`
(the `get(..).is_some()` test is commented out, `position.rs:112`; TODO at `:117`).
Pointer identity is over-approximated by equality of the texts: wherever the Rust does not
panic, neither does this, with the same span. -/
def Pos.span (p q : Pos) : TR Span :=
  if p.input = q.input then .ok ⟨p.input, p.pos, q.pos⟩ else .panic

theorem Pos.span_valid_iff {p q : Pos} (hp : p.Valid) (hq : q.Valid) {sp : Span}
    (h : p.span q = .ok sp) : sp.Valid ↔ p.pos ≤ q.pos := by
  unfold Pos.span at h
  split at h
  · rename_i he
    injection h with h; subst h
    unfold Span.Valid Pos.Valid at *
    simp only []
    rw [← he] at hq
    exact ⟨fun h => h.1, fun h => ⟨h, hp, hq⟩⟩
  · cases h

/-! ### spans built by the parser -/

/-- A piece of the remaining text of a cursor `b` (`Sp.In`), read as a span of the whole string
`pre ++ b.rest ++ b.after` (`pre`: the `b.pos` bytes before the cursor): a valid `Span` whose
`as_str` is the stored text. -/
theorem _root_.PestTyped.Sp.In.span_valid {b : Inp} {sp : Sp} (h : sp.In b) (pre : List Char) (hpre : blen pre = b.pos) :
    (Span.mk (pre ++ b.rest ++ b.after) sp.s sp.e).Valid ∧
    (Span.mk (pre ++ b.rest ++ b.after) sp.s sp.e).asStr = .ok sp.txt := by
  obtain ⟨p, q, hr, hs, he⟩ := h
  have hw : pre ++ b.rest ++ b.after = (pre ++ p) ++ sp.txt ++ (q ++ b.after) := by
    rw [hr]; simp [List.append_assoc]
  have hbl : blen (pre ++ p) = sp.s := by rw [blen_append]; omega
  constructor
  · refine ⟨by simp only []; omega, ⟨pre ++ p, sp.txt ++ (q ++ b.after), ?_, hbl⟩,
      ⟨pre ++ p ++ sp.txt, q ++ b.after, hw, ?_⟩⟩
    · simp only []; rw [hw]; simp [List.append_assoc]
    · show blen (pre ++ p ++ sp.txt) = sp.e
      rw [blen_append]; omega
  · exact Span.asStr_of_split (pre := pre ++ p) (t := sp.txt) (post := q ++ b.after) hw hbl he.symm

/-! ### the line holding an offset -/

theorem count_LF_afterLastLF (pre : List Char) : (afterLastLF pre).count '\n' = 0 :=
  List.count_eq_zero.mpr (LF_not_mem_afterLastLF pre)

/-- A text that is empty or ends with LF has as many lines as LFs. -/
theorem length_splitLines_of_LF (a : List Char) (ha : a = [] ∨ a.getLast? = some '\n') :
    (splitLines a).length = a.count '\n' := by
  induction a with
  | nil => rfl
  | cons c cs ih =>
    have hcs : cs = [] ∨ cs.getLast? = some '\n' := by
      cases cs with
      | nil => left; rfl
      | cons d ds =>
        right
        rcases ha with h | h
        · cases h
        · rwa [List.getLast?_cons_cons] at h
    simp only [splitLines]
    by_cases hc : c = '\n'
    · subst hc; simp [ih hcs]
    · have hne : cs ≠ [] := by
        intro h; subst h
        rcases ha with h | h
        · cases h
        · simp at h; exact hc h
      simp only [hc, if_false]
      cases hsl : splitLines cs with
      | nil => exact absurd hsl (splitLines_ne_nil hne)
      | cons l ls =>
        have := ih hcs
        rw [hsl] at this
        have hcnt : (c :: cs).count '\n' = cs.count '\n' := by
          rw [List.count_cons]; simp [hc]
        rw [hcnt]; simpa using this

/-- The displayed lines around a boundary strictly inside the input: the lines of the text
before the line holding the offset, that line, the lines after it. -/
theorem dispLines_at_boundary (pre suf : List Char) (hsuf : suf ≠ []) :
    ∃ a, pre = a ++ afterLastLF pre ∧ (splitLines a).length = pre.count '\n' ∧
      (splitLines a).flatten = a ∧
      dispLines (pre ++ suf) =
        splitLines a ++ (afterLastLF pre ++ throughLF suf) :: splitLines (afterLF suf) := by
  obtain ⟨a, ha, hbefore⟩ := afterLastLF_suffix pre
  have hnb := LF_not_mem_afterLastLF pre
  refine ⟨a, ha, ?_, flatten_splitLines a, ?_⟩
  · rw [length_splitLines_of_LF a hbefore]
    conv => rhs; rw [ha, List.count_append, count_LF_afterLastLF]
    simp
  · rw [dispLines_of_ne_nil (by simp [hsuf])]
    have h1 : pre ++ suf = a ++ (afterLastLF pre ++ suf) := by
      conv => lhs; rw [ha]
      simp
    rw [h1, splitLines_append_of_LF a _ hbefore]
    have hne' : afterLastLF pre ++ suf ≠ [] := by simp [hsuf]
    rw [splitLines_eq hne', (throughLF_append_of_not_mem hnb suf).1,
      (throughLF_append_of_not_mem hnb suf).2]

/-- An empty span strictly inside the input yields exactly one line. -/
theorem lines_empty_span (pre suf : List Char) (hsuf : suf ≠ []) :
    (Span.mk (pre ++ suf) (blen pre) (blen pre)).lines = .ok [afterLastLF pre ++ throughLF suf] := by
  rw [lines_of_split ⟨pre ++ suf, blen pre, blen pre⟩ pre suf rfl rfl (Nat.le_refl _)]
  rw [if_neg hsuf]
  have hpos := blen_pos_of_ne_nil (throughLF_ne_nil hsuf)
  cases hs : splitLines (afterLF suf) with
  | nil => simp [linesFromSpec]
  | cons l ls =>
    simp only [linesFromSpec]
    rw [if_pos (by omega)]
    rfl

/-- An empty span at the end of the input yields no line. -/
theorem lines_empty_span_eoi (s : List Char) : (Span.mk s (blen s) (blen s)).lines = .ok [] := by
  rw [lines_of_split ⟨s, blen s, blen s⟩ s [] (by simp) rfl (Nat.le_refl _)]
  rfl

/-- The last displayed line is the text after the last LF exactly when the input does not end
with LF. -/
theorem dispLines_getLast (s : List Char) :
    ∃ last, (dispLines s).getLast? = some last ∧ (last = afterLastLF s ↔ s.getLast? ≠ some '\n') := by
  by_cases hs : s = []
  · subst hs; exact ⟨[], rfl, by simp [afterLastLF]⟩
  · rw [dispLines_of_ne_nil hs]
    obtain ⟨a, ha, hbefore⟩ := afterLastLF_suffix s
    have hnb := LF_not_mem_afterLastLF s
    by_cases hl : s.getLast? = some '\n'
    · -- ends with LF: the last line is not empty, the text after the last LF is
      have hne := splitLines_ne_nil hs
      refine ⟨(splitLines s).getLast hne, List.getLast?_eq_some_getLast hne, ?_⟩
      have h1 : afterLastLF s = [] := afterLastLF_of_getLast hl
      have h2 := ((splitLines_props s).1 _ (List.getLast_mem hne)).1
      constructor
      · intro h; rw [h1] at h; exact absurd h h2
      · intro h; exact absurd hl h
    · have hal : afterLastLF s ≠ [] := by
        intro h
        rw [h, List.append_nil] at ha
        rcases hbefore with h' | h'
        · exact hs (ha.trans h')
        · exact hl (ha ▸ h')
      refine ⟨afterLastLF s, ?_, by simp [hl]⟩
      conv => lhs; rw [ha]
      rw [splitLines_append_of_LF a _ hbefore, splitLines_of_not_mem hnb, if_neg hal]
      simp

end Text
end PestTyped
