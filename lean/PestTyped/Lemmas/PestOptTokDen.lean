/-
Lemmas.PestOptTokDen — the token semantics `specTok` without fuel, as a FUNCTION.

`denT g uni am e i S : STR` is the limit of `specTok g uni n am e i S` over the fuel `n` (`.oof` when every
fuel is insufficient; well defined by `specTok_succ`, noncomputable).  Unlike `Den` of `Lemmas/SpecDen.lean`
(a relation with `↔` unfolding lemmas) the unfolding lemmas here are EQUATIONS
  `denT_leaf`, `denT_ident_some/_none`, `denT_posPred/_negPred/_opt/_push/_restoreOnErr`, `denT_choice`,
  `denT_seq`, `denT_rep/_repOnce/_repExact/_repMin/_repMax/_repMinMax`
in terms of small combinators (`posK`, `negK`, `optK`, `pushK`, `ruleK`, `choiceK`, `STR.andThen`, `STR.pfx`),
the fuel-free skip `denSkip` / `denSkipIf` and the fuel-free repetition loop `denLoop` over the fuel-free
iteration `denUnit` (`denLoop_maxed/_oof/_fail/_ok`, `denLoop_acc`).  Equivalence of two expressions is then
equality of functions:
  `TokEquiv g g' uni am e e' := denT g uni am e = denT g' uni am e'`
(same definite answers INCLUDING the token list, and the same termination behaviour), with
`TokEquiv.refl/.symm/.trans`, congruence under every constructor in a fixed grammar, and the liftings through
the optimizer's traversals (`TokEquiv.mapChildren`, `mapBottomUp_tequiv`, `mapBottomUpOpt_tequiv`,
`mapTopDown_tequiv`).  `TokEquiv.spec_agree` / `.forget`: what it says about `specTok` / `spec`.

Technique: `TEv T X` ("the sequence `T` is eventually constantly `X`"); `ev_denT : TEv (specTok · …) (denT …)`
holds unconditionally, `TEv` is closed under the combinators (`TEv.map`, `TEv.map2`, `TEv.andThen`) and under
the loop (`ev_loop`), and `denT_of_ev` concludes.
-/
import PestTyped.Lemmas.PestOptTokMono
import PestTyped.Lemmas.PestOptLemmas
import PestTyped.Lemmas.SpecTokensLemmas
set_option linter.unusedVariables false
namespace PestTyped

/-! ## 1. Limits of chains -/

/-- Once definite, constant. -/
def TChain (T : Nat → STR) : Prop := ∀ n, T n ≠ .oof → T (n+1) = T n

theorem TChain.le {T : Nat → STR} (hT : TChain T) {n : Nat} (hn : T n ≠ .oof) : ∀ m, n ≤ m → T m = T n := by
  intro m hle
  induction m with
  | zero =>
    have : n = 0 := by omega
    subst this; rfl
  | succ m ih =>
    by_cases hm : n = m + 1
    · subst hm; rfl
    · have h1 := ih (by omega)
      rw [hT m (by rw [h1]; exact hn), h1]

/-- `T` is eventually constantly `X`. -/
def TEv (T : Nat → STR) (X : STR) : Prop := ∃ n0, ∀ n, n0 ≤ n → T n = X

theorem TEv.const (X : STR) : TEv (fun _ => X) X := ⟨0, fun _ _ => rfl⟩

theorem TEv.shift {T : Nat → STR} {X : STR} (h : TEv (fun n => T (n+1)) X) : TEv T X := by
  obtain ⟨n0, h0⟩ := h
  refine ⟨n0 + 1, fun n hn => ?_⟩
  cases n with
  | zero => omega
  | succ n => exact h0 n (by omega)

theorem TEv.det {T : Nat → STR} {X X' : STR} (h : TEv T X) (h' : TEv T X') : X = X' := by
  obtain ⟨n0, h0⟩ := h
  obtain ⟨n1, h1⟩ := h'
  rw [← h0 (Nat.max n0 n1) (Nat.le_max_left _ _), h1 _ (Nat.le_max_right _ _)]

theorem TEv.map {T : Nat → STR} {X : STR} (K : STR → STR) (h : TEv T X) : TEv (fun n => K (T n)) (K X) := by
  obtain ⟨n0, h0⟩ := h
  exact ⟨n0, fun n hn => by simp only [h0 n hn]⟩

theorem TEv.map2 {T T' : Nat → STR} {X X' : STR} (K : STR → STR → STR) (h : TEv T X) (h' : TEv T' X') :
    TEv (fun n => K (T n) (T' n)) (K X X') := by
  obtain ⟨n0, h0⟩ := h
  obtain ⟨n1, h1⟩ := h'
  exact ⟨Nat.max n0 n1, fun n hn => by
    simp only [h0 n (Nat.le_trans (Nat.le_max_left _ _) hn), h1 n (Nat.le_trans (Nat.le_max_right _ _) hn)]⟩

theorem TEv.andThen {T : Nat → STR} {X : STR} {k : Nat → Inp → List Sp → STR} {K : Inp → List Sp → STR}
    (h : TEv T X) (hk : ∀ i S, TEv (fun n => k n i S) (K i S)) :
    TEv (fun n => STR.andThen (T n) (k n)) (STR.andThen X K) := by
  obtain ⟨n0, h0⟩ := h
  cases X with
  | oof => exact ⟨n0, fun n hn => by simp only [h0 n hn, STR.andThen_oof]⟩
  | fail => exact ⟨n0, fun n hn => by simp only [h0 n hn, STR.andThen_fail]⟩
  | ok i S ts =>
    obtain ⟨n1, h1⟩ := hk i S
    exact ⟨Nat.max n0 n1, fun n hn => by
      simp only [h0 n (Nat.le_trans (Nat.le_max_left _ _) hn), STR.andThen_ok,
        h1 n (Nat.le_trans (Nat.le_max_right _ _) hn)]⟩

theorem TEv.congr {T T' : Nat → STR} {X : STR} (h : TEv T X) (hT : ∀ n, T' n = T n) : TEv T' X := by
  obtain ⟨n0, h0⟩ := h
  exact ⟨n0, fun n hn => by rw [hT, h0 n hn]⟩

open Classical in
/-- The limit of a chain: its definite value if it has one, `.oof` otherwise. -/
noncomputable def tlim (T : Nat → STR) : STR :=
  if h : ∃ n, T n ≠ .oof then T (Classical.choose h) else .oof

theorem tlim_eq {T : Nat → STR} (hT : TChain T) {n : Nat} (hn : T n ≠ .oof) : tlim T = T n := by
  have h : ∃ n, T n ≠ .oof := ⟨n, hn⟩
  unfold tlim
  rw [dif_pos h]
  have hc := Classical.choose_spec h
  rcases Nat.le_total (Classical.choose h) n with hle | hle
  · exact (hT.le hc n hle).symm
  · exact hT.le hn _ hle

theorem tlim_oof {T : Nat → STR} (h : ∀ n, T n = .oof) : tlim T = .oof := by
  unfold tlim
  rw [dif_neg]
  rintro ⟨n, hn⟩
  exact hn (h n)

theorem tlim_ev {T : Nat → STR} (hT : TChain T) : TEv T (tlim T) := by
  by_cases h : ∃ n, T n ≠ .oof
  · obtain ⟨n, hn⟩ := h
    exact ⟨n, fun m hm => by rw [tlim_eq hT hn]; exact hT.le hn m hm⟩
  · refine ⟨0, fun n _ => ?_⟩
    have hall : ∀ n, T n = .oof := fun n => Classical.byContradiction fun hn => h ⟨n, hn⟩
    rw [tlim_oof hall]; exact hall n

theorem tlim_of_ev {T : Nat → STR} {X : STR} (hT : TChain T) (h : TEv T X) : tlim T = X :=
  (tlim_ev hT).det h

theorem tlim_attained {T : Nat → STR} (hT : TChain T) (h : tlim T ≠ .oof) : ∃ n, T n = tlim T ∧ T n ≠ .oof := by
  obtain ⟨n0, h0⟩ := tlim_ev hT
  exact ⟨n0, h0 n0 (Nat.le_refl _), by rw [h0 n0 (Nat.le_refl _)]; exact h⟩

/-! ## 2. The denotation -/

/-- The answer of the token semantics with enough fuel (`.oof`: no fuel is enough). -/
noncomputable def denT (g : PGrammar) (uni : Uni) (am : Atom3) (e : PExpr) (i : Inp) (S : List Sp) : STR :=
  tlim fun n => specTok g uni n am e i S

theorem specTok_chain (g : PGrammar) (uni : Uni) (am : Atom3) (e : PExpr) (i : Inp) (S : List Sp) :
    TChain (fun n => specTok g uni n am e i S) := fun n hn => specTok_succ g uni n am e i S hn

section Den
variable {g : PGrammar} {uni : Uni} {am : Atom3} {i : Inp} {S : List Sp}

theorem ev_denT (g : PGrammar) (uni : Uni) (am : Atom3) (e : PExpr) (i : Inp) (S : List Sp) :
    TEv (fun n => specTok g uni n am e i S) (denT g uni am e i S) := tlim_ev (specTok_chain g uni am e i S)

theorem denT_of_ev {e : PExpr} {X : STR} (h : TEv (fun n => specTok g uni n am e i S) X) :
    denT g uni am e i S = X := tlim_of_ev (specTok_chain g uni am e i S) h

theorem denT_of_ev_succ {e : PExpr} {X : STR} (h : TEv (fun n => specTok g uni (n+1) am e i S) X) :
    denT g uni am e i S = X := denT_of_ev (TEv.shift (T := fun n => specTok g uni n am e i S) h)

/-- Any definite answer of `specTok` is the denotation. -/
theorem denT_of_specTok {e : PExpr} {n : Nat} (hn : specTok g uni n am e i S ≠ .oof) :
    denT g uni am e i S = specTok g uni n am e i S := tlim_eq (specTok_chain g uni am e i S) hn

theorem denT_of_specTok_eq {e : PExpr} {n : Nat} {r : STR} (h : specTok g uni n am e i S = r) (hr : r ≠ .oof) :
    denT g uni am e i S = r := by
  rw [← h] at hr ⊢; exact denT_of_specTok hr

/-- A definite denotation is computed at some fuel. -/
theorem denT_attained {e : PExpr} (h : denT g uni am e i S ≠ .oof) :
    ∃ n, specTok g uni n am e i S = denT g uni am e i S ∧ specTok g uni n am e i S ≠ .oof :=
  tlim_attained (specTok_chain g uni am e i S) h

theorem denT_eq_oof_iff {e : PExpr} : denT g uni am e i S = .oof ↔ ∀ n, specTok g uni n am e i S = .oof := by
  constructor
  · intro h n
    exact Classical.byContradiction fun hn => by
      rw [denT_of_specTok hn] at h; exact hn h
  · intro h; exact tlim_oof h

/-! ### leaves, rule calls, unary and binary operators -/

theorem specTok_leaf {e : PExpr} (he : e.isLeaf = true) (g : PGrammar) (uni : Uni) (n : Nat) (am : Atom3)
    (i : Inp) (S : List Sp) : specTok g uni (n+1) am e i S = specTok g uni 1 am e i S := by
  cases e <;> first | rfl | (simp only [PExpr.isLeaf, Bool.false_eq_true] at he)

theorem denT_leaf {e : PExpr} (he : e.isLeaf = true) : denT g uni am e i S = specTok g uni 1 am e i S :=
  denT_of_ev_succ ⟨0, fun n _ => specTok_leaf he g uni n am i S⟩

theorem denT_str {s : List Char} : denT g uni am (.str s) i S =
    (match i.matchString s with | some i' => .ok i' S [] | none => .fail) := by
  rw [denT_leaf rfl]; simp only [specTok]; cases i.matchString s <;> rfl

theorem denT_insens {s : List Char} : denT g uni am (.insens s) i S =
    (match i.matchInsens s with | some i' => .ok i' S [] | none => .fail) := by
  rw [denT_leaf rfl]; simp only [specTok]; cases i.matchInsens s <;> rfl

theorem denT_skip {needles : List (List Char)} :
    denT g uni am (.skip needles) i S = .ok (i.skipUntil needles).1 S [] := by
  rw [denT_leaf rfl]; simp only [specTok]

/-- A constructor whose step applies `K` to ONE sub-evaluation. -/
theorem denT_unary {E e : PExpr} {am' : Atom3} {i' : Inp} {S' : List Sp} (K : STR → STR)
    (hstep : ∀ n, specTok g uni (n+1) am E i S = K (specTok g uni n am' e i' S')) :
    denT g uni am E i S = K (denT g uni am' e i' S') :=
  denT_of_ev_succ (((ev_denT g uni am' e i' S').map K).congr hstep)

def posK (i : Inp) (S : List Sp) : STR → STR
  | .oof => .oof
  | .fail => .fail
  | .ok _ _ _ => .ok i S []

def negK (i : Inp) (S : List Sp) : STR → STR
  | .oof => .oof
  | .fail => .ok i S []
  | .ok _ _ _ => .fail

def optK (i : Inp) (S : List Sp) : STR → STR
  | .oof => .oof
  | .fail => .ok i S []
  | .ok i' S' ts => .ok i' S' ts

def pushK (i : Inp) : STR → STR
  | .oof => .oof
  | .fail => .fail
  | .ok i' S' ts => .ok i' (i.spanTo i' :: S') ts

/-- `ParserState::rule`: wrap the tokens of the body in the rule's token when one is emitted. -/
def ruleK (emit : Bool) (id : RuleId) (i : Inp) : STR → STR
  | .oof => .oof
  | .fail => .fail
  | .ok i' S' ts => .ok i' S' (if emit then [.mk id i.pos i'.pos ts] else ts)

def choiceK (r r' : STR) : STR :=
  match r with
  | .oof => .oof
  | .fail => r'
  | .ok i S ts => .ok i S ts

theorem denT_ident_some {name : String} {rl : PRule} (h : g.find? name = some rl) :
    denT g uni am (.ident name) i S =
      ruleK (emitsToken rl.kind am) (g.ruleId name) i (denT g uni (bodyAt name rl.kind am) rl.expr i S) :=
  denT_unary _ fun n => by
    simp only [specTok, h]
    cases specTok g uni n (bodyAt name rl.kind am) rl.expr i S <;> rfl

theorem denT_ident_none {name : String} (h : g.find? name = none) :
    denT g uni am (.ident name) i S = specTokBuiltin uni am name i S :=
  denT_of_ev_succ ⟨0, fun n _ => by simp only [specTok, h]⟩

theorem denT_posPred {e : PExpr} : denT g uni am (.posPred e) i S = posK i S (denT g uni am e i S) :=
  denT_unary _ fun n => by
    simp only [specTok]
    cases specTok g uni n am e i S <;> rfl

theorem denT_negPred {e : PExpr} : denT g uni am (.negPred e) i S = negK i S (denT g uni am e i S) :=
  denT_unary _ fun n => by
    simp only [specTok]
    cases specTok g uni n am e i S <;> rfl

theorem denT_opt {e : PExpr} : denT g uni am (.opt e) i S = optK i S (denT g uni am e i S) :=
  denT_unary _ fun n => by
    simp only [specTok]
    cases specTok g uni n am e i S <;> rfl

theorem denT_push {e : PExpr} : denT g uni am (.push e) i S = pushK i (denT g uni am e i S) :=
  denT_unary _ fun n => by
    simp only [specTok]
    cases specTok g uni n am e i S <;> rfl

theorem denT_restoreOnErr {e : PExpr} : denT g uni am (.restoreOnErr e) i S = denT g uni am e i S :=
  denT_unary id fun n => by simp only [specTok, id]

theorem denT_choice {a b : PExpr} :
    denT g uni am (.choice a b) i S = choiceK (denT g uni am a i S) (denT g uni am b i S) :=
  denT_of_ev_succ (((ev_denT g uni am a i S).map2 choiceK (ev_denT g uni am b i S)).congr fun n => by
    simp only [specTok]
    cases specTok g uni n am a i S <;> rfl)

end Den

/-! ## 3. Loops without fuel -/

/-- The repetition loop over a fuel-free iteration `U`, with enough budget. -/
noncomputable def denLoop (U : Nat → Inp → List Sp → STR) (min : Nat) (max : Option Nat) (idx : Nat) (i : Inp)
    (S : List Sp) (acc : List Token) : STR :=
  tlim fun b => specTokRepLoop U min max b idx i S acc

section Loop
variable {U : Nat → Inp → List Sp → STR} {min : Nat} {max : Option Nat} {idx : Nat} {i : Inp} {S : List Sp}
  {acc : List Token}

theorem loop_chain (U : Nat → Inp → List Sp → STR) (min : Nat) (max : Option Nat) (idx : Nat) (i : Inp)
    (S : List Sp) (acc : List Token) : TChain (fun b => specTokRepLoop U min max b idx i S acc) :=
  fun b hb => specTokRepLoop_mono (fun _ => TLe.refl _) min max b (b+1) idx (Nat.le_succ b) i S acc hb

theorem ev_denLoop (U : Nat → Inp → List Sp → STR) (min : Nat) (max : Option Nat) (idx : Nat) (i : Inp)
    (S : List Sp) (acc : List Token) :
    TEv (fun b => specTokRepLoop U min max b idx i S acc) (denLoop U min max idx i S acc) :=
  tlim_ev (loop_chain U min max idx i S acc)

theorem denLoop_of_ev_succ {X : STR} (h : TEv (fun b => specTokRepLoop U min max (b+1) idx i S acc) X) :
    denLoop U min max idx i S acc = X :=
  tlim_of_ev (loop_chain U min max idx i S acc) (TEv.shift (T := fun b => specTokRepLoop U min max b idx i S acc) h)

theorem denLoop_maxed (h : max = some idx) : denLoop U min max idx i S acc = tokStop min idx i S acc :=
  denLoop_of_ev_succ ⟨0, fun b _ => specTokRepLoop_maxed b i S acc h⟩

theorem denLoop_oof (h : max ≠ some idx) (hu : U idx i S = .oof) : denLoop U min max idx i S acc = .oof :=
  denLoop_of_ev_succ ⟨0, fun b _ => specTokRepLoop_oof b acc h hu⟩

theorem denLoop_fail (h : max ≠ some idx) (hu : U idx i S = .fail) :
    denLoop U min max idx i S acc = tokStop min idx i S acc :=
  denLoop_of_ev_succ ⟨0, fun b _ => specTokRepLoop_fail b acc h hu⟩

theorem denLoop_ok {i' : Inp} {S' : List Sp} {ts : List Token} (h : max ≠ some idx)
    (hu : U idx i S = .ok i' S' ts) :
    denLoop U min max idx i S acc = denLoop U min max (idx+1) i' S' (acc ++ ts) :=
  denLoop_of_ev_succ ((ev_denLoop U min max (idx+1) i' S' (acc ++ ts)).congr fun b =>
    specTokRepLoop_ok b acc h hu)

/-- The accumulator is a prefix. -/
theorem denLoop_acc (U : Nat → Inp → List Sp → STR) (min : Nat) (max : Option Nat) (idx : Nat) (i : Inp)
    (S : List Sp) (acc : List Token) :
    denLoop U min max idx i S acc = STR.pfx acc (denLoop U min max idx i S []) :=
  tlim_of_ev (loop_chain U min max idx i S acc)
    (((ev_denLoop U min max idx i S []).map (STR.pfx acc)).congr fun b => specTokRepLoop_acc U min max b idx i S acc)

/-- A definite answer of the loop over a unit below `U` is the answer of `denLoop U`. -/
theorem denLoop_of_loop {u : Nat → Inp → List Sp → STR} (hu : ∀ idx, TLe (u idx) (U idx)) {b : Nat}
    (hne : specTokRepLoop u min max b idx i S acc ≠ .oof) :
    denLoop U min max idx i S acc = specTokRepLoop u min max b idx i S acc := by
  have h1 := specTokRepLoop_mono hu min max b b idx (Nat.le_refl b) i S acc hne
  unfold denLoop
  rw [tlim_eq (loop_chain U min max idx i S acc) (n := b) (by rw [h1]; exact hne), h1]

/-- Every definite answer of the loop over the limit unit `U` is reached by the loop over the
fuel-indexed units `u n`, for all large fuels and budgets. -/
theorem loop_reach {u : Nat → Nat → Inp → List Sp → STR} {U : Nat → Inp → List Sp → STR}
    (hu : ∀ idx i S, TEv (fun n => u n idx i S) (U idx i S)) (min : Nat) (max : Option Nat) :
    ∀ b idx i S acc, specTokRepLoop U min max b idx i S acc ≠ .oof →
      ∃ N, ∀ n, N ≤ n → ∀ b', b ≤ b' →
        specTokRepLoop (u n) min max b' idx i S acc = specTokRepLoop U min max b idx i S acc := by
  intro b
  induction b with
  | zero => intro idx i S acc hne; exact absurd rfl hne
  | succ b ih =>
    intro idx i S acc hne
    by_cases hmax : max = some idx
    · refine ⟨0, fun n _ b' hb' => ?_⟩
      cases b' with
      | zero => omega
      | succ b' => rw [specTokRepLoop_maxed _ _ _ _ hmax, specTokRepLoop_maxed _ _ _ _ hmax]
    · cases hr : U idx i S with
      | oof => rw [specTokRepLoop_oof _ _ hmax hr] at hne; exact absurd rfl hne
      | fail =>
        obtain ⟨n0, h0⟩ := hu idx i S
        refine ⟨n0, fun n hn b' hb' => ?_⟩
        cases b' with
        | zero => omega
        | succ b' =>
          rw [specTokRepLoop_fail _ _ hmax hr, specTokRepLoop_fail _ _ hmax ((h0 n hn).trans hr)]
      | ok i' S' ts =>
        rw [specTokRepLoop_ok _ _ hmax hr] at hne ⊢
        obtain ⟨n0, h0⟩ := hu idx i S
        obtain ⟨n1, h1⟩ := ih (idx+1) i' S' (acc ++ ts) hne
        refine ⟨Nat.max n0 n1, fun n hn b' hb' => ?_⟩
        cases b' with
        | zero => omega
        | succ b' =>
          rw [specTokRepLoop_ok _ _ hmax ((h0 n (Nat.le_trans (Nat.le_max_left _ _) hn)).trans hr)]
          exact h1 n (Nat.le_trans (Nat.le_max_right _ _) hn) b' (by omega)

/-- The limit of the loop over fuel-indexed monotone units `u n`, along any budget `β n ≥ n`, is the
fuel-free loop over the limit unit. -/
theorem ev_loop {u : Nat → Nat → Inp → List Sp → STR} {U : Nat → Inp → List Sp → STR}
    (hmono : ∀ n idx, TLe (u n idx) (u (n+1) idx)) (hu : ∀ idx i S, TEv (fun n => u n idx i S) (U idx i S))
    {β : Nat → Nat} (hβ : ∀ n, n ≤ β n) (min : Nat) (max : Option Nat) (idx : Nat) (i : Inp) (S : List Sp)
    (acc : List Token) :
    TEv (fun n => specTokRepLoop (u n) min max (β n) idx i S acc) (denLoop U min max idx i S acc) := by
  have hle : ∀ n idx, TLe (u n idx) (U idx) := by
    intro n idx i S hne
    obtain ⟨n0, h0⟩ := hu idx i S
    have h1 := TLe.of_succ (T := fun n => u n idx) (fun n => hmono n idx) n (Nat.max n n0)
      (Nat.le_max_left _ _) i S hne
    rw [← h1]; exact (h0 _ (Nat.le_max_right _ _)).symm
  by_cases hd : denLoop U min max idx i S acc = .oof
  · rw [hd]
    refine ⟨0, fun n _ => ?_⟩
    exact Classical.byContradiction fun hne => by
      have h2 := denLoop_of_loop (U := U) (fun idx => hle n idx) hne
      rw [hd] at h2
      exact hne h2.symm
  · obtain ⟨b0, hb0, hne0⟩ := tlim_attained (loop_chain U min max idx i S acc) hd
    obtain ⟨N, hN⟩ := loop_reach hu min max b0 idx i S acc hne0
    refine ⟨Nat.max N b0, fun n hn => ?_⟩
    have := hN n (Nat.le_trans (Nat.le_max_left _ _) hn) (β n)
      (Nat.le_trans (Nat.le_trans (Nat.le_max_right _ _) hn) (hβ n))
    exact this.trans hb0

end Loop

/-! ## 4. The implicit skip, sequences, repetitions -/

/-- One step of the implicit skip, fuel-free. -/
noncomputable def denSkipUnit (g : PGrammar) (uni : Uni) (i : Inp) (S : List Sp) : STR :=
  specTokSkipUnit (fun nm i S => denT g uni .nonAtomic (.ident nm) i S)
    (g.defines "WHITESPACE") (g.defines "COMMENT") i S

/-- The implicit skip `(WHITESPACE | COMMENT)*`, fuel-free. -/
noncomputable def denSkip (g : PGrammar) (uni : Uni) (i : Inp) (S : List Sp) : STR :=
  denLoop (fun _ => denSkipUnit g uni) 0 none 0 i S []

/-- The skip between sequence elements / repetition iterations: performed iff skipping is on. -/
noncomputable def denSkipIf (g : PGrammar) (uni : Uni) (am : Atom3) (i : Inp) (S : List Sp) : STR :=
  if am.na then denSkip g uni i S else .ok i S []

/-- One iteration of a repetition: from the second on, preceded by the implicit skip when skipping is on. -/
noncomputable def denUnit (g : PGrammar) (uni : Uni) (am : Atom3) (e : PExpr) (idx : Nat) (i : Inp) (S : List Sp) :
    STR :=
  if idx = 0 ∨ !am.na then denT g uni am e i S
  else STR.andThen (denSkip g uni i S) (denT g uni am e)

section Skip
variable {g : PGrammar} {uni : Uni} {am : Atom3} {i : Inp} {S : List Sp}

theorem specTokSkipUnit_congr {call call' : String → Inp → List Sp → STR} (hasW hasC : Bool) {i : Inp} {S : List Sp}
    (hW : call "WHITESPACE" i S = call' "WHITESPACE" i S) (hC : call "COMMENT" i S = call' "COMMENT" i S) :
    specTokSkipUnit call hasW hasC i S = specTokSkipUnit call' hasW hasC i S := by
  unfold specTokSkipUnit
  rw [hW, hC]

/-- The fuel-indexed iteration of the implicit skip of `g`. -/
def specTokSkipUnitAt (g : PGrammar) (uni : Uni) (n : Nat) (_idx : Nat) (i : Inp) (S : List Sp) : STR :=
  specTokSkipUnit (fun nm i S => specTok g uni n .nonAtomic (.ident nm) i S)
    (g.defines "WHITESPACE") (g.defines "COMMENT") i S

theorem specTokSkipUnitAt_succ (g : PGrammar) (uni : Uni) (n idx : Nat) :
    TLe (specTokSkipUnitAt g uni n idx) (specTokSkipUnitAt g uni (n+1) idx) :=
  specTokSkipUnit_mono (fun nm => specTok_succ g uni n .nonAtomic (.ident nm)) _ _

theorem specTokSkip_eq_loop (g : PGrammar) (uni : Uni) (n b : Nat) (i : Inp) (S : List Sp) :
    specTokSkip (specTok g uni n .nonAtomic) (g.defines "WHITESPACE") (g.defines "COMMENT") b i S
      = specTokRepLoop (specTokSkipUnitAt g uni n) 0 none b 0 i S [] := rfl

theorem ev_skipUnit (g : PGrammar) (uni : Uni) (idx : Nat) (i : Inp) (S : List Sp) :
    TEv (fun n => specTokSkipUnitAt g uni n idx i S) (denSkipUnit g uni i S) := by
  obtain ⟨n0, h0⟩ := ev_denT g uni .nonAtomic (.ident "WHITESPACE") i S
  obtain ⟨n1, h1⟩ := ev_denT g uni .nonAtomic (.ident "COMMENT") i S
  exact ⟨Nat.max n0 n1, fun n hn => specTokSkipUnit_congr _ _
    (h0 n (Nat.le_trans (Nat.le_max_left _ _) hn)) (h1 n (Nat.le_trans (Nat.le_max_right _ _) hn))⟩

theorem ev_denSkip (g : PGrammar) (uni : Uni) (i : Inp) (S : List Sp) :
    TEv (fun n => specTokSkip (specTok g uni n .nonAtomic) (g.defines "WHITESPACE") (g.defines "COMMENT")
      (atomicBudget n) i S) (denSkip g uni i S) := by
  simp only [specTokSkip_eq_loop]
  exact ev_loop (u := specTokSkipUnitAt g uni) (U := fun _ => denSkipUnit g uni) (specTokSkipUnitAt_succ g uni)
    (fun idx i S => ev_skipUnit g uni idx i S) SpecDen.le_atomicBudget 0 none 0 i S []

/-- The fuel-indexed skip between sequence elements. -/
def specTokSkipIfAt (g : PGrammar) (uni : Uni) (n : Nat) (am : Atom3) (i : Inp) (S : List Sp) : STR :=
  if am.na then specTokSkip (specTok g uni n .nonAtomic) (g.defines "WHITESPACE") (g.defines "COMMENT")
    (atomicBudget n) i S
  else .ok i S []

theorem ev_denSkipIf (g : PGrammar) (uni : Uni) (am : Atom3) (i : Inp) (S : List Sp) :
    TEv (fun n => specTokSkipIfAt g uni n am i S) (denSkipIf g uni am i S) := by
  unfold specTokSkipIfAt denSkipIf
  cases am.na with
  | true => simp only [if_true]; exact ev_denSkip g uni i S
  | false => simp only [Bool.false_eq_true, if_false]; exact TEv.const _

theorem specTok_seq_step (g : PGrammar) (uni : Uni) (n : Nat) (am : Atom3) (a b : PExpr) (i : Inp) (S : List Sp) :
    specTok g uni (n+1) am (.seq a b) i S =
      STR.andThen (specTok g uni n am a i S) fun i1 S1 =>
        STR.andThen (specTokSkipIfAt g uni n am i1 S1) (specTok g uni n am b) := by
  simp only [specTok]
  cases specTok g uni n am a i S with
  | oof => rfl
  | fail => rfl
  | ok i1 S1 t1 =>
    simp only [STR.andThen_ok, specTokSkipIfAt]
    cases am.na with
    | true =>
      simp only [if_true]
      cases specTokSkip (specTok g uni n .nonAtomic) (g.defines "WHITESPACE") (g.defines "COMMENT")
          (atomicBudget n) i1 S1 with
      | oof => rfl
      | fail => rfl
      | ok i2 S2 t2 =>
        simp only [STR.andThen_ok]
        cases specTok g uni n am b i2 S2 <;> simp [STR.pfx, List.append_assoc]
    | false =>
      simp only [Bool.false_eq_true, if_false, STR.andThen_ok, STR.pfx_nil]
      cases specTok g uni n am b i1 S1 <;> simp [STR.pfx]

/-- `a ~ b`: `a`, the implicit skip when skipping is on, `b`; the three token lists are concatenated. -/
theorem denT_seq {a b : PExpr} :
    denT g uni am (.seq a b) i S =
      STR.andThen (denT g uni am a i S) fun i1 S1 =>
        STR.andThen (denSkipIf g uni am i1 S1) (denT g uni am b) :=
  denT_of_ev_succ (((ev_denT g uni am a i S).andThen
    (k := fun n i1 S1 => STR.andThen (specTokSkipIfAt g uni n am i1 S1) (specTok g uni n am b))
    (fun i1 S1 => (ev_denSkipIf g uni am i1 S1).andThen (fun i2 S2 => ev_denT g uni am b i2 S2))).congr
      fun n => specTok_seq_step g uni n am a b i S)

theorem ev_unit (g : PGrammar) (uni : Uni) (am : Atom3) (e : PExpr) (idx : Nat) (i : Inp) (S : List Sp) :
    TEv (fun n => specTokRepUnit (specTok g uni n) (atomicBudget n) (g.defines "WHITESPACE") (g.defines "COMMENT")
      am e idx i S) (denUnit g uni am e idx i S) := by
  unfold specTokRepUnit denUnit
  split
  · exact ev_denT g uni am e i S
  · exact (ev_denSkip g uni i S).andThen (k := fun n => specTok g uni n am e) (fun i1 S1 => ev_denT g uni am e i1 S1)

/-- A repetition: the fuel-free loop over the fuel-free iteration. -/
theorem denT_repWith {E e : PExpr} {min : Nat} {max : Option Nat}
    (hstep : ∀ n, specTok g uni (n+1) am E i S = specTokRepWith (specTok g uni n) n (g.defines "WHITESPACE")
      (g.defines "COMMENT") am e min max i S) :
    denT g uni am E i S = denLoop (denUnit g uni am e) min max 0 i S [] := by
  refine denT_of_ev_succ (TEv.congr ?_ fun n => (hstep n).trans (specTokRepWith_eq _ _ _ _ _ _ _ _ _ _))
  exact ev_loop
    (u := fun n => specTokRepUnit (specTok g uni n) (atomicBudget n) (g.defines "WHITESPACE")
      (g.defines "COMMENT") am e)
    (fun n idx => specTokRepUnit_mono (specTok_succ g uni n) (SpecDen.atomicBudget_le (Nat.le_succ n)) _ _ am e idx)
    (fun idx i S => ev_unit g uni am e idx i S) (β := fun n => n) (fun n => Nat.le_refl n) min max 0 i S []

theorem denT_rep {e : PExpr} : denT g uni am (.rep e) i S = denLoop (denUnit g uni am e) 0 none 0 i S [] :=
  denT_repWith fun n => by simp only [specTok]

theorem denT_repOnce {e : PExpr} : denT g uni am (.repOnce e) i S = denLoop (denUnit g uni am e) 1 none 0 i S [] :=
  denT_repWith fun n => by simp only [specTok]

theorem denT_repExact {e : PExpr} {k : Nat} :
    denT g uni am (.repExact e k) i S = denLoop (denUnit g uni am e) k (some k) 0 i S [] :=
  denT_repWith fun n => by simp only [specTok]

theorem denT_repMin {e : PExpr} {k : Nat} :
    denT g uni am (.repMin e k) i S = denLoop (denUnit g uni am e) k none 0 i S [] :=
  denT_repWith fun n => by simp only [specTok]

theorem denT_repMax {e : PExpr} {k : Nat} :
    denT g uni am (.repMax e k) i S = denLoop (denUnit g uni am e) 0 (some k) 0 i S [] :=
  denT_repWith fun n => by simp only [specTok]

theorem denT_repMinMax {e : PExpr} {k l : Nat} :
    denT g uni am (.repMinMax e k l) i S = denLoop (denUnit g uni am e) k (some l) 0 i S [] :=
  denT_repWith fun n => by simp only [specTok]

theorem denSkipIf_atomic (h : am.na = false) : denSkipIf g uni am i S = .ok i S [] := by
  simp only [denSkipIf, h, Bool.false_eq_true, if_false]

theorem denUnit_zero {e : PExpr} : denUnit g uni am e 0 i S = denT g uni am e i S := by
  simp only [denUnit, true_or, if_true]

theorem denUnit_atomic {e : PExpr} {idx : Nat} (h : am.na = false) :
    denUnit g uni am e idx i S = denT g uni am e i S := by
  simp only [denUnit, h, Bool.not_false, or_true, if_true]

/-- `seq` when no skip is performed. -/
theorem denT_seq_atomic {a b : PExpr} (h : am.na = false) :
    denT g uni am (.seq a b) i S = STR.andThen (denT g uni am a i S) (denT g uni am b) := by
  rw [denT_seq]
  congr 1
  funext i1 S1
  rw [denSkipIf_atomic h, STR.andThen_ok, STR.pfx_nil]

end Skip

/-! ## 5. Equivalence and congruence -/

/-- `e` in `g` and `e'` in `g'` have the same definite answers of the TOKEN semantics (verdict, end cursor,
final stack, token list) for every input and stack, and terminate on the same ones. -/
def TokEquiv (g g' : PGrammar) (uni : Uni) (am : Atom3) (e e' : PExpr) : Prop :=
  denT g uni am e = denT g' uni am e'

theorem TokEquiv.refl (g : PGrammar) (uni : Uni) (am : Atom3) (e : PExpr) : TokEquiv g g uni am e e := rfl

theorem TokEquiv.symm {g g' : PGrammar} {uni : Uni} {am : Atom3} {e e' : PExpr}
    (h : TokEquiv g g' uni am e e') : TokEquiv g' g uni am e' e := Eq.symm h

theorem TokEquiv.trans {g g' g'' : PGrammar} {uni : Uni} {am : Atom3} {e e' e'' : PExpr}
    (h : TokEquiv g g' uni am e e') (h' : TokEquiv g' g'' uni am e' e'') : TokEquiv g g'' uni am e e'' :=
  Eq.trans h h'

theorem TokEquiv.of_forall {g g' : PGrammar} {uni : Uni} {am : Atom3} {e e' : PExpr}
    (h : ∀ i S, denT g uni am e i S = denT g' uni am e' i S) : TokEquiv g g' uni am e e' :=
  funext fun i => funext fun S => h i S

theorem TokEquiv.app {g g' : PGrammar} {uni : Uni} {am : Atom3} {e e' : PExpr}
    (h : TokEquiv g g' uni am e e') (i : Inp) (S : List Sp) : denT g uni am e i S = denT g' uni am e' i S :=
  congrFun (congrFun h i) S

/-- Definite answers of `specTok` agree, whatever the two fuels. -/
theorem TokEquiv.spec_agree {g g' : PGrammar} {uni : Uni} {am : Atom3} {e e' : PExpr}
    (h : TokEquiv g g' uni am e e') (n m : Nat) (i : Inp) (S : List Sp)
    (hn : specTok g uni n am e i S ≠ .oof) (hm : specTok g' uni m am e' i S ≠ .oof) :
    specTok g uni n am e i S = specTok g' uni m am e' i S := by
  rw [← denT_of_specTok hn, ← denT_of_specTok hm]; exact h.app i S

/-- Termination transfers, with the answer. -/
theorem TokEquiv.transfer {g g' : PGrammar} {uni : Uni} {am : Atom3} {e e' : PExpr}
    (h : TokEquiv g g' uni am e e') {n : Nat} {i : Inp} {S : List Sp} (hn : specTok g uni n am e i S ≠ .oof) :
    ∃ m, specTok g' uni m am e' i S = specTok g uni n am e i S := by
  have h1 := denT_of_specTok hn
  rw [h.app i S] at h1
  obtain ⟨m, hm, _⟩ := denT_attained (g := g') (e := e') (by rw [h1]; exact hn)
  exact ⟨m, hm.trans h1⟩

section Congr
variable {g : PGrammar} {uni : Uni} {am : Atom3}

theorem TokEquiv.posPred {e e' : PExpr} (h : TokEquiv g g uni am e e') :
    TokEquiv g g uni am (.posPred e) (.posPred e') :=
  .of_forall fun i S => by rw [denT_posPred, denT_posPred, h.app]

theorem TokEquiv.negPred {e e' : PExpr} (h : TokEquiv g g uni am e e') :
    TokEquiv g g uni am (.negPred e) (.negPred e') :=
  .of_forall fun i S => by rw [denT_negPred, denT_negPred, h.app]

theorem TokEquiv.opt {e e' : PExpr} (h : TokEquiv g g uni am e e') :
    TokEquiv g g uni am (.opt e) (.opt e') :=
  .of_forall fun i S => by rw [denT_opt, denT_opt, h.app]

theorem TokEquiv.push {e e' : PExpr} (h : TokEquiv g g uni am e e') :
    TokEquiv g g uni am (.push e) (.push e') :=
  .of_forall fun i S => by rw [denT_push, denT_push, h.app]

theorem TokEquiv.restoreOnErr_elim (g : PGrammar) (uni : Uni) (am : Atom3) (e : PExpr) :
    TokEquiv g g uni am (.restoreOnErr e) e :=
  .of_forall fun i S => denT_restoreOnErr

theorem TokEquiv.restoreOnErr {e e' : PExpr} (h : TokEquiv g g uni am e e') :
    TokEquiv g g uni am (.restoreOnErr e) (.restoreOnErr e') :=
  (TokEquiv.restoreOnErr_elim g uni am e).trans (h.trans (TokEquiv.restoreOnErr_elim g uni am e').symm)

theorem TokEquiv.choice {a a' b b' : PExpr} (ha : TokEquiv g g uni am a a') (hb : TokEquiv g g uni am b b') :
    TokEquiv g g uni am (.choice a b) (.choice a' b') :=
  .of_forall fun i S => by rw [denT_choice, denT_choice, ha.app, hb.app]

theorem TokEquiv.seq {a a' b b' : PExpr} (ha : TokEquiv g g uni am a a') (hb : TokEquiv g g uni am b b') :
    TokEquiv g g uni am (.seq a b) (.seq a' b') :=
  .of_forall fun i S => by
    unfold TokEquiv at hb
    rw [denT_seq, denT_seq, ha.app, hb]

theorem denUnit_congr {e e' : PExpr} (h : TokEquiv g g uni am e e') : denUnit g uni am e = denUnit g uni am e' := by
  funext idx i S
  unfold TokEquiv at h
  unfold denUnit
  rw [h]

theorem TokEquiv.rep {e e' : PExpr} (h : TokEquiv g g uni am e e') : TokEquiv g g uni am (.rep e) (.rep e') :=
  .of_forall fun i S => by rw [denT_rep, denT_rep, denUnit_congr h]

theorem TokEquiv.repOnce {e e' : PExpr} (h : TokEquiv g g uni am e e') :
    TokEquiv g g uni am (.repOnce e) (.repOnce e') :=
  .of_forall fun i S => by rw [denT_repOnce, denT_repOnce, denUnit_congr h]

theorem TokEquiv.repExact {e e' : PExpr} (h : TokEquiv g g uni am e e') (k : Nat) :
    TokEquiv g g uni am (.repExact e k) (.repExact e' k) :=
  .of_forall fun i S => by rw [denT_repExact, denT_repExact, denUnit_congr h]

theorem TokEquiv.repMin {e e' : PExpr} (h : TokEquiv g g uni am e e') (k : Nat) :
    TokEquiv g g uni am (.repMin e k) (.repMin e' k) :=
  .of_forall fun i S => by rw [denT_repMin, denT_repMin, denUnit_congr h]

theorem TokEquiv.repMax {e e' : PExpr} (h : TokEquiv g g uni am e e') (k : Nat) :
    TokEquiv g g uni am (.repMax e k) (.repMax e' k) :=
  .of_forall fun i S => by rw [denT_repMax, denT_repMax, denUnit_congr h]

theorem TokEquiv.repMinMax {e e' : PExpr} (h : TokEquiv g g uni am e e') (k l : Nat) :
    TokEquiv g g uni am (.repMinMax e k l) (.repMinMax e' k l) :=
  .of_forall fun i S => by rw [denT_repMinMax, denT_repMinMax, denUnit_congr h]

/-! ### the traversals of the optimizer -/

/-- Rewriting the children by equivalent expressions gives an equivalent expression. -/
theorem TokEquiv.mapChildren (h : PExpr → PExpr) (e : PExpr)
    (hc : ∀ c, c.size < e.size → TokEquiv g g uni am c (h c)) : TokEquiv g g uni am e (e.mapChildren h) := by
  cases e <;> simp only [PExpr.mapChildren] <;>
    first
    | exact TokEquiv.refl _ _ _ _
    | exact TokEquiv.posPred (hc _ (by simp only [PExpr.size]; omega))
    | exact TokEquiv.negPred (hc _ (by simp only [PExpr.size]; omega))
    | exact TokEquiv.seq (hc _ (by simp only [PExpr.size]; omega)) (hc _ (by simp only [PExpr.size]; omega))
    | exact TokEquiv.choice (hc _ (by simp only [PExpr.size]; omega)) (hc _ (by simp only [PExpr.size]; omega))
    | exact TokEquiv.opt (hc _ (by simp only [PExpr.size]; omega))
    | exact TokEquiv.rep (hc _ (by simp only [PExpr.size]; omega))
    | exact TokEquiv.repOnce (hc _ (by simp only [PExpr.size]; omega))
    | exact TokEquiv.repExact (hc _ (by simp only [PExpr.size]; omega)) _
    | exact TokEquiv.repMin (hc _ (by simp only [PExpr.size]; omega)) _
    | exact TokEquiv.repMax (hc _ (by simp only [PExpr.size]; omega)) _
    | exact TokEquiv.repMinMax (hc _ (by simp only [PExpr.size]; omega)) _ _
    | exact TokEquiv.push (hc _ (by simp only [PExpr.size]; omega))

/-- `Expr::map_bottom_up(f)` with a closure that is sound at every node. -/
theorem mapBottomUp_tequiv (f : PExpr → PExpr) (hf : ∀ e, TokEquiv g g uni am e (f e)) :
    ∀ e, TokEquiv g g uni am e (mapBottomUp f e) := by
  intro e
  induction e with
  | posPred e ih => exact (TokEquiv.posPred ih).trans (hf _)
  | negPred e ih => exact (TokEquiv.negPred ih).trans (hf _)
  | seq a b iha ihb => exact (TokEquiv.seq iha ihb).trans (hf _)
  | choice a b iha ihb => exact (TokEquiv.choice iha ihb).trans (hf _)
  | opt e ih => exact (TokEquiv.opt ih).trans (hf _)
  | rep e ih => exact (TokEquiv.rep ih).trans (hf _)
  | repOnce e ih => exact (TokEquiv.repOnce ih).trans (hf _)
  | repExact e n ih => exact (TokEquiv.repExact ih n).trans (hf _)
  | repMin e n ih => exact (TokEquiv.repMin ih n).trans (hf _)
  | repMax e n ih => exact (TokEquiv.repMax ih n).trans (hf _)
  | repMinMax e n m ih => exact (TokEquiv.repMinMax ih n m).trans (hf _)
  | push e ih => exact (TokEquiv.push ih).trans (hf _)
  | str s => exact hf _
  | insens s => exact hf _
  | range lo hi => exact hf _
  | ident n => exact hf _
  | peekSlice a b => exact hf _
  | skip ns => exact hf _
  | restoreOnErr e _ => exact hf _

/-- `OptimizedExpr::map_bottom_up(f)` (does not enter counted repetitions and `RestoreOnErr`). -/
theorem mapBottomUpOpt_tequiv (f : PExpr → PExpr) (hf : ∀ e, TokEquiv g g uni am e (f e)) :
    ∀ e, TokEquiv g g uni am e (mapBottomUpOpt f e) := by
  intro e
  induction e with
  | posPred e ih => exact (TokEquiv.posPred ih).trans (hf _)
  | negPred e ih => exact (TokEquiv.negPred ih).trans (hf _)
  | seq a b iha ihb => exact (TokEquiv.seq iha ihb).trans (hf _)
  | choice a b iha ihb => exact (TokEquiv.choice iha ihb).trans (hf _)
  | opt e ih => exact (TokEquiv.opt ih).trans (hf _)
  | rep e ih => exact (TokEquiv.rep ih).trans (hf _)
  | push e ih => exact (TokEquiv.push ih).trans (hf _)
  | repOnce e _ => exact hf _
  | repExact e n _ => exact hf _
  | repMin e n _ => exact hf _
  | repMax e n _ => exact hf _
  | repMinMax e n m _ => exact hf _
  | str s => exact hf _
  | insens s => exact hf _
  | range lo hi => exact hf _
  | ident n => exact hf _
  | peekSlice a b => exact hf _
  | skip ns => exact hf _
  | restoreOnErr e _ => exact hf _

/-- `Expr::map_top_down(f)` with a closure that is sound at every node, for every fuel. -/
theorem mapTopDown_tequiv (f : PExpr → PExpr) (hf : ∀ e, TokEquiv g g uni am e (f e)) :
    ∀ n e, TokEquiv g g uni am e (mapTopDown f n e) := by
  intro n
  induction n with
  | zero => intro e; exact TokEquiv.refl _ _ _ _
  | succ n ih =>
    intro e
    simp only [mapTopDown]
    exact (hf e).trans (TokEquiv.mapChildren _ _ (fun c _ => ih c))

end Congr

/-! ## 6. Relation with the token-free semantics -/

/-- The token-free projection of the denotation is a denotation of `spec`. -/
theorem denT_forget_den {g : PGrammar} {uni : Uni} {am : Atom3} {e : PExpr} {i : Inp} {S : List Sp}
    (h : denT g uni am e i S ≠ .oof) : Den g uni am.na e i S (denT g uni am e i S).forget := by
  obtain ⟨n, hn, hne⟩ := denT_attained h
  refine ⟨?_, n, ?_⟩
  · intro h0
    cases hd : denT g uni am e i S with
    | oof => exact h hd
    | fail => rw [hd] at h0; cases h0
    | ok _ _ _ => rw [hd] at h0; cases h0
  · rw [← specTok_forget, hn]

/-- Conversely a denotation of `spec` is the projection of the token denotation. -/
theorem den_denT_forget {g : PGrammar} {uni : Uni} {am : Atom3} {e : PExpr} {i : Inp} {S : List Sp} {o : SR}
    (h : Den g uni am.na e i S o) : (denT g uni am e i S).forget = o := by
  obtain ⟨ho, n, hn⟩ := h
  have hne : specTok g uni n am e i S ≠ .oof := by
    intro h0
    rw [← specTok_forget, h0] at hn
    exact ho hn.symm
  rw [denT_of_specTok hne, specTok_forget, hn]

end PestTyped
