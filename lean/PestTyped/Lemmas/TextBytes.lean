/-
Lemmas.TextBytes — byte offsets and character boundaries of `List Char` strings: `blen`,
`takeBytes`, `dropBytes`, `getRange`, `charIndicesFrom`, and the specification vocabulary used by
the statements of C12–C14 (`IsBoundary`, `afterLastLF`, `throughLF`, `splitLines`).
-/
import PestTyped.Model.Text
namespace PestTyped
namespace Text

/-- `p` is a character boundary of `s` (including `0` and `s.len()`): some prefix has `p` bytes. -/
def IsBoundary (s : List Char) (p : Nat) : Prop := ∃ pre suf, s = pre ++ suf ∧ blen pre = p

/-- The characters after the last LF (everything when there is none). -/
def afterLastLF (pre : List Char) : List Char := (pre.reverse.takeWhile (· != '\n')).reverse

/-- The characters up to and including the first LF (everything when there is none). -/
def throughLF : List Char → List Char
  | [] => []
  | c :: cs => if c = '\n' then [c] else c :: throughLF cs

/-- What follows the first LF. -/
def afterLF : List Char → List Char
  | [] => []
  | c :: cs => if c = '\n' then cs else afterLF cs

/-- The lines of a text: every line ends with its LF, a last line without LF is kept, there is
no empty line after a final LF (so the empty text has no line). -/
def splitLines : List Char → List (List Char)
  | [] => []
  | c :: cs =>
    if c = '\n' then [c] :: splitLines cs
    else match splitLines cs with
      | [] => [[c]]
      | l :: ls => (c :: l) :: ls

/-- Byte ranges of consecutive segments starting at offset `o`. -/
def rangesFrom : Nat → List (List Char) → List (Nat × Nat)
  | _, [] => []
  | o, l :: ls => (o, o + blen l) :: rangesFrom (o + blen l) ls

/-! ### blen -/

@[simp] theorem blen_nil : blen [] = 0 := rfl
@[simp] theorem blen_cons (c : Char) (cs : List Char) : blen (c :: cs) = c.utf8Size + blen cs := rfl

theorem blen_append (a b : List Char) : blen (a ++ b) = blen a + blen b := by
  induction a with
  | nil => simp
  | cons c cs ih => simp [ih]; omega

theorem blen_eq_zero {s : List Char} (h : blen s = 0) : s = [] := by
  cases s with
  | nil => rfl
  | cons c cs => have := Char.utf8Size_pos c; simp at h; omega

theorem length_le_blen (s : List Char) : s.length ≤ blen s := by
  induction s with
  | nil => simp
  | cons c cs ih => have := Char.utf8Size_pos c; simp; omega

theorem utf8Size_LF : ('\n' : Char).utf8Size = 1 := by decide
theorem utf8Size_CR : ('\r' : Char).utf8Size = 1 := by decide

/-- Two splits of the same string at the same byte offset are the same split. -/
theorem append_inj_blen {a b a' b' : List Char} (h : a ++ b = a' ++ b') (hl : blen a = blen a') :
    a = a' ∧ b = b' := by
  induction a generalizing a' with
  | nil =>
    have : a' = [] := blen_eq_zero (by simpa using hl.symm)
    subst this; simpa using h
  | cons c cs ih =>
    cases a' with
    | nil =>
      have := Char.utf8Size_pos c
      simp at hl; omega
    | cons c' cs' =>
      simp only [List.cons_append, List.cons.injEq] at h
      obtain ⟨hc, ht⟩ := h
      subst hc
      simp only [blen_cons] at hl
      obtain ⟨h1, h2⟩ := ih ht (by omega)
      exact ⟨by rw [h1], h2⟩

/-- Of two splits of the same string the one at the smaller byte offset is a prefix of the other. -/
theorem prefix_of_blen_le {p1 q1 p2 q2 : List Char} (h : p1 ++ q1 = p2 ++ q2)
    (hl : blen p1 ≤ blen p2) : ∃ t, p2 = p1 ++ t := by
  induction p1 generalizing p2 with
  | nil => exact ⟨p2, rfl⟩
  | cons c cs ih =>
    cases p2 with
    | nil => have := Char.utf8Size_pos c; simp at hl; omega
    | cons c' cs' =>
      simp only [List.cons_append, List.cons.injEq] at h
      obtain ⟨hc, ht⟩ := h
      subst hc
      simp only [blen_cons] at hl
      obtain ⟨t, ht'⟩ := ih ht (by omega)
      exact ⟨t, by rw [ht']; rfl⟩

/-! ### takeBytes / dropBytes -/

theorem takeBytes_zero (s : List Char) : takeBytes 0 s = some [] := by
  cases s <;> simp [takeBytes]

theorem dropBytes_zero (s : List Char) : dropBytes 0 s = some s := by
  cases s <;> simp [dropBytes]

theorem takeBytes_append (a b : List Char) : takeBytes (blen a) (a ++ b) = some a := by
  induction a with
  | nil => simpa using takeBytes_zero b
  | cons c cs ih =>
    have := Char.utf8Size_pos c
    simp only [List.cons_append, blen_cons, takeBytes]
    rw [if_neg (by omega), if_pos (by omega)]
    have : c.utf8Size + blen cs - c.utf8Size = blen cs := by omega
    rw [this, ih]; rfl

theorem dropBytes_append (a b : List Char) : dropBytes (blen a) (a ++ b) = some b := by
  induction a with
  | nil => simpa using dropBytes_zero b
  | cons c cs ih =>
    have := Char.utf8Size_pos c
    simp only [List.cons_append, blen_cons, dropBytes]
    rw [if_neg (by omega), if_pos (by omega)]
    have : c.utf8Size + blen cs - c.utf8Size = blen cs := by omega
    rw [this, ih]

theorem takeBytes_some {n : Nat} {s p : List Char} (h : takeBytes n s = some p) :
    ∃ q, s = p ++ q ∧ blen p = n := by
  induction s generalizing n p with
  | nil =>
    simp only [takeBytes] at h
    split at h
    · injection h with h; subst h; exact ⟨[], rfl, by simp [*]⟩
    · cases h
  | cons c cs ih =>
    simp only [takeBytes] at h
    split at h
    · injection h with h; subst h; exact ⟨c :: cs, rfl, by simp [*]⟩
    · split at h
      · cases hr : takeBytes (n - c.utf8Size) cs with
        | none => rw [hr] at h; cases h
        | some r =>
          rw [hr] at h
          injection h with h; subst h
          obtain ⟨q, hq, hb⟩ := ih hr
          exact ⟨q, by rw [hq]; rfl, by simp; omega⟩
      · cases h

theorem dropBytes_some {n : Nat} {s q : List Char} (h : dropBytes n s = some q) :
    ∃ p, s = p ++ q ∧ blen p = n := by
  induction s generalizing n q with
  | nil =>
    simp only [dropBytes] at h
    split at h
    · injection h with h; subst h; exact ⟨[], rfl, by simp [*]⟩
    · cases h
  | cons c cs ih =>
    simp only [dropBytes] at h
    split at h
    · injection h with h; subst h; exact ⟨[], rfl, by simp [*]⟩
    · split at h
      · obtain ⟨p, hp, hb⟩ := ih h
        exact ⟨c :: p, by rw [hp]; rfl, by simp; omega⟩
      · cases h

theorem takeBytes_isSome_iff {n : Nat} {s : List Char} : (takeBytes n s).isSome ↔ IsBoundary s n := by
  constructor
  · intro h
    cases hp : takeBytes n s with
    | none => rw [hp] at h; cases h
    | some p => obtain ⟨q, hq, hb⟩ := takeBytes_some hp; exact ⟨p, q, hq, hb⟩
  · rintro ⟨p, q, rfl, rfl⟩; rw [takeBytes_append]; rfl

theorem dropBytes_isSome_iff {n : Nat} {s : List Char} : (dropBytes n s).isSome ↔ IsBoundary s n := by
  constructor
  · intro h
    cases hp : dropBytes n s with
    | none => rw [hp] at h; cases h
    | some q => obtain ⟨p, hq, hb⟩ := dropBytes_some hp; exact ⟨p, q, hq, hb⟩
  · rintro ⟨p, q, rfl, rfl⟩; rw [dropBytes_append]; rfl

theorem takeBytes_none_iff {n : Nat} {s : List Char} : takeBytes n s = none ↔ ¬ IsBoundary s n := by
  rw [← takeBytes_isSome_iff]; cases takeBytes n s <;> simp

theorem dropBytes_none_iff {n : Nat} {s : List Char} : dropBytes n s = none ↔ ¬ IsBoundary s n := by
  rw [← dropBytes_isSome_iff]; cases dropBytes n s <;> simp

theorem IsBoundary.le {s : List Char} {p : Nat} (h : IsBoundary s p) : p ≤ blen s := by
  obtain ⟨a, b, rfl, rfl⟩ := h; rw [blen_append]; omega

theorem isBoundary_zero (s : List Char) : IsBoundary s 0 := ⟨[], s, rfl, rfl⟩
theorem isBoundary_len (s : List Char) : IsBoundary s (blen s) := ⟨s, [], by simp, rfl⟩

/-- `str::get(a..b)` answers exactly for ordered boundaries, with the text between them. -/
theorem getRange_eq_some {s t : List Char} {a b : Nat} :
    getRange s a b = some t ↔ ∃ pre post, s = pre ++ t ++ post ∧ blen pre = a ∧ a + blen t = b := by
  unfold getRange
  constructor
  · intro h
    split at h
    · cases hd : dropBytes a s with
      | none => rw [hd] at h; cases h
      | some q =>
        rw [hd] at h
        simp only [Option.bind_some] at h
        obtain ⟨p, hp, hpa⟩ := dropBytes_some hd
        obtain ⟨r, hr, hrb⟩ := takeBytes_some h
        exact ⟨p, r, by rw [hp, hr]; simp, hpa, by omega⟩
    · cases h
  · rintro ⟨pre, post, rfl, rfl, rfl⟩
    rw [if_pos (by omega), List.append_assoc, dropBytes_append]
    simp only [Option.bind_some]
    have : blen pre + blen t - blen pre = blen t := by omega
    rw [this, takeBytes_append]

theorem getRange_isSome_iff {s : List Char} {a b : Nat} :
    (getRange s a b).isSome ↔ a ≤ b ∧ IsBoundary s a ∧ IsBoundary s b := by
  constructor
  · intro h
    cases ht : getRange s a b with
    | none => rw [ht] at h; cases h
    | some t =>
      obtain ⟨pre, post, rfl, rfl, rfl⟩ := getRange_eq_some.mp ht
      exact ⟨by omega, ⟨pre, t ++ post, by simp, rfl⟩, ⟨pre ++ t, post, rfl, blen_append _ _⟩⟩
  · rintro ⟨hab, ⟨p1, q1, h1, hb1⟩, ⟨p2, q2, h2, hb2⟩⟩
    have hpre : ∃ t, p2 = p1 ++ t := prefix_of_blen_le (h1.symm.trans h2) (by omega)
    obtain ⟨t, rfl⟩ := hpre
    have : getRange s a b = some t := by
      rw [getRange_eq_some]
      exact ⟨p1, q2, by rw [h2], hb1, by rw [blen_append] at hb2; omega⟩
    rw [this]; rfl

theorem getRange_none_iff {s : List Char} {a b : Nat} :
    getRange s a b = none ↔ ¬ (a ≤ b ∧ IsBoundary s a ∧ IsBoundary s b) := by
  rw [← getRange_isSome_iff]; cases getRange s a b <;> simp

/-! ### char_indices -/

theorem charIndicesFrom_append (o : Nat) (a b : List Char) :
    charIndicesFrom o (a ++ b) = charIndicesFrom o a ++ charIndicesFrom (o + blen a) b := by
  induction a generalizing o with
  | nil => simp [charIndicesFrom]
  | cons c cs ih => simp [charIndicesFrom, ih, Nat.add_assoc]

theorem mem_charIndicesFrom {o : Nat} {s : List Char} {ic : Nat × Char}
    (h : ic ∈ charIndicesFrom o s) : ic.2 ∈ s ∧ o ≤ ic.1 ∧ ic.1 < o + blen s := by
  induction s generalizing o with
  | nil => simp [charIndicesFrom] at h
  | cons c cs ih =>
    have := Char.utf8Size_pos c
    simp only [charIndicesFrom, List.mem_cons] at h
    rcases h with h | h
    · subst h; simp; omega
    · obtain ⟨h1, h2, h3⟩ := ih h
      simp only [List.mem_cons, blen_cons]
      exact ⟨Or.inr h1, by omega, by omega⟩

end Text
end PestTyped
