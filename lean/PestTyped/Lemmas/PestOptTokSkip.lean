/-
Lemmas.PestOptTokSkip — pest_meta's `skip` pass (`(!(a | b) ~ ANY)* ↦ Skip([a, b])` in `@` rules; mirror:
`skipClosure`, `skipExpr` of `Model/PestOpt.lean`) preserves the TOKEN semantics (`TokEquiv`).

Both sides of the rewrite emit no token (a negative lookahead emits nothing, whatever it contains; the built-in
`ANY` is not a rule call; `Skip` is a primitive), so the token-level statement follows from the token-free one
(`Lemmas/PestOptSkip.lean`) by the general principle
  `tequiv_of_specEquiv_tokFree`: `SpecEquiv` + both sides `TokFree` ⇒ `TokEquiv`.
Theorems: `TokFree`, `tokFree_skip`, `tokFree_skipLoop`, `populateChoices_isSkip`, `skipClosure_tequiv_of_lookup`,
`skipExpr_tequiv_of_lookup`, `skipExpr_tequiv_body_of_lookup`, and the two instances `skipExpr_tequiv_body`
(distinct rule names: inlining allowed) and `skipExpr_nil_tequiv_body` (empty lookup map).
-/
import PestTyped.Lemmas.PestOptTokDen
import PestTyped.Lemmas.PestOptSkip
set_option linter.unusedVariables false
namespace PestTyped

/-- Every successful run of `e` emits no token. -/
def TokFree (g : PGrammar) (uni : Uni) (am : Atom3) (e : PExpr) : Prop :=
  ∀ i S i' S' ts, denT g uni am e i S = .ok i' S' ts → ts = []

section Principle
variable {g : PGrammar} {uni : Uni} {am : Atom3}

/-- The token-free projections of two `SpecEquiv` expressions agree. -/
theorem forget_eq_of_specEquiv {e e' : PExpr} (hs : SpecEquiv g g uni am.na e e') (i : Inp) (S : List Sp) :
    (denT g uni am e i S).forget = (denT g uni am e' i S).forget := by
  by_cases h : denT g uni am e i S = .oof
  · by_cases h' : denT g uni am e' i S = .oof
    · rw [h, h']
    · exact (den_denT_forget ((hs i S _).mpr (denT_forget_den h'))).symm ▸ rfl
  · exact (den_denT_forget ((hs i S _).mp (denT_forget_den h))).symm

/-- Two expressions with the same token-free meaning that emit no tokens have the same meaning. -/
theorem tequiv_of_specEquiv_tokFree {e e' : PExpr} (hs : SpecEquiv g g uni am.na e e')
    (h1 : TokFree g uni am e) (h2 : TokFree g uni am e') : TokEquiv g g uni am e e' := by
  refine .of_forall fun i S => ?_
  have hf := forget_eq_of_specEquiv hs i S
  cases hr : denT g uni am e i S with
  | oof =>
    rw [hr] at hf
    cases hr' : denT g uni am e' i S with
    | oof => rfl
    | fail => rw [hr'] at hf; cases hf
    | ok _ _ _ => rw [hr'] at hf; cases hf
  | fail =>
    rw [hr] at hf
    cases hr' : denT g uni am e' i S with
    | oof => rw [hr'] at hf; cases hf
    | fail => rfl
    | ok _ _ _ => rw [hr'] at hf; cases hf
  | ok i1 S1 t1 =>
    rw [hr] at hf
    cases hr' : denT g uni am e' i S with
    | oof => rw [hr'] at hf; cases hf
    | fail => rw [hr'] at hf; cases hf
    | ok i2 S2 t2 =>
      rw [hr'] at hf
      simp only [STR.forget, SR.ok.injEq] at hf
      rw [h1 _ _ _ _ _ hr, h2 _ _ _ _ _ hr', hf.1, hf.2]

theorem tokFree_skip (ns : List (List Char)) : TokFree g uni am (.skip ns) := by
  intro i S i' S' ts h
  rw [denT_skip] at h
  injection h with _ _ h3
  exact h3.symm

/-- A loop over token-free iterations returns its accumulator. -/
theorem specTokRepLoop_tokFree {U : Nat → Inp → List Sp → STR}
    (hU : ∀ idx i S i' S' ts, U idx i S = .ok i' S' ts → ts = []) (min : Nat) (max : Option Nat) :
    ∀ b idx i S acc i' S' ts, specTokRepLoop U min max b idx i S acc = .ok i' S' ts → ts = acc := by
  intro b
  induction b with
  | zero => intro idx i S acc i' S' ts h; cases h
  | succ b ih =>
    intro idx i S acc i' S' ts h
    by_cases hmax : max = some idx
    · rw [specTokRepLoop_maxed _ _ _ _ hmax] at h
      unfold tokStop at h
      split at h
      · cases h
      · injection h with _ _ h3; exact h3.symm
    · cases hr : U idx i S with
      | oof => rw [specTokRepLoop_oof _ _ hmax hr] at h; cases h
      | fail =>
        rw [specTokRepLoop_fail _ _ hmax hr] at h
        unfold tokStop at h
        split at h
        · cases h
        · injection h with _ _ h3; exact h3.symm
      | ok i1 S1 t1 =>
        rw [specTokRepLoop_ok _ _ hmax hr] at h
        have := ih _ _ _ _ _ _ _ h
        rw [this, hU _ _ _ _ _ _ hr, List.append_nil]

theorem denLoop_tokFree {U : Nat → Inp → List Sp → STR}
    (hU : ∀ idx i S i' S' ts, U idx i S = .ok i' S' ts → ts = []) {min : Nat} {max : Option Nat} {idx : Nat}
    {i : Inp} {S : List Sp} {acc : List Token} {i' : Inp} {S' : List Sp} {ts : List Token}
    (h : denLoop U min max idx i S acc = .ok i' S' ts) : ts = acc := by
  obtain ⟨b, hb, _⟩ := tlim_attained (loop_chain U min max idx i S acc) (by
    show denLoop U min max idx i S acc ≠ .oof
    rw [h]; nofun)
  exact specTokRepLoop_tokFree hU min max b idx i S acc i' S' ts (hb.trans h)

/-- `(!x ~ ANY)*` emits no token in a context without implicit skipping, whatever `x` is. -/
theorem tokFree_skipLoop (h : am.na = false) (hany : g.find? "ANY" = none) (x : PExpr) :
    TokFree g uni am (.rep (.seq (.negPred x) (.ident "ANY"))) := by
  intro i S i' S' ts hd
  rw [denT_rep] at hd
  refine denLoop_tokFree (fun idx i S i' S' ts hu => ?_) hd
  rw [denUnit_atomic h, denT_seq_atomic h, denT_negPred] at hu
  cases hx : denT g uni am x i S with
  | oof => rw [hx] at hu; cases hu
  | ok _ _ _ => rw [hx] at hu; cases hu
  | fail =>
    rw [hx] at hu
    simp only [negK, STR.andThen_ok, STR.pfx_nil] at hu
    rw [denT_ident_none hany] at hu
    unfold specTokBuiltin at hu
    cases hb : specBuiltin uni "ANY" i S with
    | oof => rw [hb] at hu; cases hu
    | fail => rw [hb] at hu; cases hu
    | ok i2 S2 =>
      rw [hb] at hu
      simp only [(by decide : ¬ ("ANY" = "EOI")), false_and, if_false] at hu
      injection hu with _ _ h3
      exact h3.symm

end Principle

/-- A successful `populate_choices` returns a `Skip`. -/
theorem populateChoices_isSkip (raw : PGrammar) : ∀ (b : Nat) (x : PExpr) (cs : List (List Char)) (r : PExpr),
    populateChoices raw b x cs = some r → ∃ ns, r = .skip ns := by
  intro b
  induction b with
  | zero => intro x cs r h; simp [populateChoices] at h
  | succ b ih =>
    intro x cs r h
    unfold populateChoices at h
    split at h
    · next lhs rhs =>
      split at h
      · exact ih _ _ _ h
      · split at h
        · exact ih _ _ _ h
        · cases h
      · cases h
    · next s => injection h with h; exact ⟨_, h.symm⟩
    · next name =>
      split at h
      · exact ih _ _ _ h
      · cases h
    · cases h

section Pass
variable {raw G : PGrammar} {uni : Uni} {am : Atom3}

/-- The closure of `skip` preserves the token semantics wherever it preserves the token-free one. -/
theorem skipClosure_tequiv_of_spec (h : am.na = false) (hany : G.find? "ANY" = none) (e : PExpr)
    (hs : SpecEquiv G G uni false e (skipClosure raw e)) : TokEquiv G G uni am e (skipClosure raw e) := by
  unfold skipClosure at hs ⊢
  split
  · next x ident =>
    split
    · next hid =>
      subst hid
      split
      · next r hr =>
        simp only [if_true, hr] at hs
        obtain ⟨ns, rfl⟩ := populateChoices_isSkip raw _ _ _ _ hr
        exact tequiv_of_specEquiv_tokFree (by rw [h]; exact hs) (tokFree_skipLoop h hany x) (tokFree_skip ns)
      · exact TokEquiv.refl _ _ _ _
    · exact TokEquiv.refl _ _ _ _
  · exact TokEquiv.refl _ _ _ _

theorem skipClosure_tequiv_of_lookup (hlk : LookupAgrees raw G uni) (h : am.na = false)
    (hany : G.find? "ANY" = none) : ∀ e, TokEquiv G G uni am e (skipClosure raw e) :=
  fun e => skipClosure_tequiv_of_spec h hany e (skipClosure_equiv_of_lookup hlk hany e)

theorem skipExpr_tequiv_of_lookup (hlk : LookupAgrees raw G uni) (h : am.na = false)
    (hany : G.find? "ANY" = none) (kind : RuleKind) (e : PExpr) :
    TokEquiv G G uni am e (skipExpr raw kind e) := by
  unfold skipExpr
  split
  · exact mapTopDown_tequiv _ (skipClosure_tequiv_of_lookup hlk h hany) _ _
  · exact TokEquiv.refl _ _ _ _

/-- Under the atomicity the body of a rule of kind `kind` runs with: the pass is the identity unless the
rule is `@`, and then the body runs `Atomic`. -/
theorem skipExpr_tequiv_body_of_lookup (hlk : LookupAgrees raw G uni) (hany : G.find? "ANY" = none)
    (name : String) (kind : RuleKind) (am : Atom3) (e : PExpr) :
    TokEquiv G G uni (bodyAt name kind am) e (skipExpr raw kind e) := by
  by_cases hk : kind = .atomic
  · subst hk
    exact skipExpr_tequiv_of_lookup hlk rfl hany _ e
  · unfold skipExpr
    rw [if_neg hk]
    exact TokEquiv.refl _ _ _ _

end Pass

/-- `skip` with inlining, in a grammar with pairwise distinct rule names that does not define `ANY`. -/
theorem skipExpr_tequiv_body (g : PGrammar) (uni : Uni) (hnd : (g.map (·.name)).Nodup) (hany : g.find? "ANY" = none)
    (name : String) (kind : RuleKind) (am : Atom3) (e : PExpr) :
    TokEquiv g g uni (bodyAt name kind am) e (skipExpr g kind e) :=
  skipExpr_tequiv_body_of_lookup (LookupAgrees.of_nodup hnd uni) hany name kind am e

/-- With the EMPTY lookup map no identifier is followed: sound in every grammar. -/
theorem skipExpr_nil_tequiv_body (G : PGrammar) (uni : Uni) (hany : G.find? "ANY" = none) (name : String)
    (kind : RuleKind) (am : Atom3) (e : PExpr) : TokEquiv G G uni (bodyAt name kind am) e (skipExpr [] kind e) :=
  skipExpr_tequiv_body_of_lookup (LookupAgrees.nil G uni) hany name kind am e

end PestTyped
