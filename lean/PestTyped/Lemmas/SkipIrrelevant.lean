/-
Lemmas.SkipIrrelevant — when no skip flag that a run can consult evaluates to `true`, the run does
not depend on the grammar's skip type at all.

* `SkipFreeAt S inh node`: every `SKIP` argument of a sequence / repetition written in `node`
  evaluates to `false` under `inh`, and every rule reference `.ref r f` of `node` leads into the
  set `S` (`S r (f.eval inh)`: rule `r` is entered under `f.eval inh`, the `.ref` arm of `parse`).
* `SkipClosed G S`: `S` is an invariant: the body of every rule `r` that can be entered under `b`
  with `S r b` is itself `SkipFreeAt S b`.
* `NoSkipReach G inh node`: such an invariant exists for `node` under `inh` — every skip flag that
  can be consulted while running `node`, following rule references to any depth, evaluates to
  `false`.  (Syntactic over-approximation of "can be consulted": all alternatives of a choice, the
  operands of predicates and of `AtomicRepeat` included.)
* `parse_skip_irrelevant` / `check_skip_irrelevant`: under it, `parse G … node = parse G' … node` for
  ANY grammar `G'` with the same rules — in particular for `G` with any other skip type.
* `Node.Within`: direct sub-expressions (rule bodies not entered), `Node.flagsAll_within`.
* `Node.flagsAll_mono_refs`: monotonicity of `flagsAll`, the reference predicate being needed only
  at the references that occur.
* `Reach G r r'`: rule `r'` is reachable from rule `r` through rule bodies.
* `gen_body_flags`, `gen_rule_inv`, `gen_atomic_noSkipReach`: in a generated module, an `@` / `$`
  rule from which no `!` rule is reachable satisfies `NoSkipReach`.
-/
import PestTyped.Lemmas.SkipSites
namespace PestTyped

/-! ### the invariant -/

def SkipFreeAt (S : RuleId → Bool → Prop) (inh : Bool) (node : Node) : Prop :=
  Node.flagsAll (fun f => f.eval inh = false) (fun r f => S r (f.eval inh)) node

structure SkipClosed (G : NodeGrammar) (S : RuleId → Bool → Prop) : Prop where
  body : ∀ (r : RuleId) (b : Bool) (d : RuleDef), S r b → G.rule? r = some d → SkipFreeAt S b d.body

/-- Every skip flag that can be consulted while running `node` under `inh` in `G` — in `node`
itself and, through rule references (each entered under the value its flag evaluates to), in rule
bodies to any depth — evaluates to `false`. -/
def NoSkipReach (G : NodeGrammar) (inh : Bool) (node : Node) : Prop :=
  ∃ S : RuleId → Bool → Prop, SkipClosed G S ∧ SkipFreeAt S inh node

theorem SkipClosed.of_rules {G G' : NodeGrammar} {S : RuleId → Bool → Prop} (hr : G'.rules = G.rules)
    (h : SkipClosed G S) : SkipClosed G' S :=
  ⟨fun r b d hs hd => h.body r b d hs (by simpa only [NodeGrammar.rule?, hr] using hd)⟩

theorem NoSkipReach.of_rules {G G' : NodeGrammar} {inh : Bool} {node : Node} (hr : G'.rules = G.rules)
    (h : NoSkipReach G inh node) : NoSkipReach G' inh node := by
  obtain ⟨S, hS, hn⟩ := h
  exact ⟨S, hS.of_rules hr, hn⟩

/-! ### the run does not depend on the skip type -/

theorem repUnitP_zero_congr (sf sf' body : Inp → M → R Val) (dflt dflt' : Val) :
    repUnitP sf body dflt 0 = repUnitP sf' body dflt' 0 := by
  funext idx i m
  rw [repUnitP_zero, repUnitP_zero]

theorem parse_skip_irrelevant (G G' : NodeGrammar) (hr : G'.rules = G.rules) (uni : Uni)
    (S : RuleId → Bool → Prop) (hS : SkipClosed G S) :
    ∀ (n : Nat) (inh : Bool) (node : Node), SkipFreeAt S inh node →
      parse G uni n inh node = parse G' uni n inh node := by
  have hrule : ∀ r, G'.rule? r = G.rule? r := fun r => by simp only [NodeGrammar.rule?, hr]
  intro n
  induction n with
  | zero => intro inh node _; funext i m; rfl
  | succ n ih =>
    intro inh node h
    have ihc : ∀ inh node, SkipFreeAt S inh node → check G uni n inh node = check G' uni n inh node := by
      intro inh node h; funext i m
      rw [check_eq_parse_forget, check_eq_parse_forget, ih inh node h]
    funext i m
    cases node with
    | seq sk items =>
      simp only [parse]
      cases items with
      | nil => rfl
      | cons n0 ns =>
        simp only [SkipFreeAt, Node.flagsAll, Node.flagsAllList] at h
        have e0 : skipCount sk inh = 0 := skipCount_eq_zero h.1
        have esk : (fun i m => skipLoop (parse G uni n false G.skipped) 0 i m ([] : List Val)) =
            (fun i m => skipLoop (parse G' uni n false G'.skipped) 0 i m ([] : List Val)) := rfl
        have e2 := seqLoop_congr_on (f := parse G uni n inh) (f' := parse G' uni n inh)
          (fun i m => skipLoop (parse G' uni n false G'.skipped) 0 i m ([] : List Val)) mkSkipped ns
          (fun x hx => ih inh x (Node.flagsAllList_mem h.2.2 x hx))
        simp only [ih inh n0 h.2.1, e0, esk, e2, List.replicate_zero]
    | choice alts =>
      simp only [SkipFreeAt, Node.flagsAll] at h
      simp only [parse, choiceLoop_congr_on alts (fun x hx => ih inh x (Node.flagsAllList_mem h x hx))]
    | opt x =>
      simp only [SkipFreeAt, Node.flagsAll] at h
      simp only [parse, ih inh x h]
    | rep sk mn mx x =>
      simp only [SkipFreeAt, Node.flagsAll] at h
      have e0 : skipCount sk inh = 0 := skipCount_eq_zero h.1
      simp only [parse, ih inh x h.2, e0,
        repUnitP_zero_congr (parse G uni n false G.skipped) (parse G' uni n false G'.skipped)
          (parse G' uni n inh x) (defaultSkipVal G) (defaultSkipVal G')]
    | atomicRepeat x =>
      simp only [SkipFreeAt, Node.flagsAll] at h
      simp only [parse, ih inh x h]
    | pos x =>
      simp only [SkipFreeAt, Node.flagsAll] at h
      simp only [parse, ih inh x h]
    | neg x =>
      simp only [SkipFreeAt, Node.flagsAll] at h
      simp only [parse, ihc inh x h]
    | push x =>
      simp only [SkipFreeAt, Node.flagsAll] at h
      simp only [parse, ih inh x h]
    | ref r f =>
      simp only [SkipFreeAt, Node.flagsAll] at h
      simp only [parse, hrule]
      cases hd : G.rule? r with
      | none => rfl
      | some d =>
        have hb := hS.body r (f.eval inh) d h hd
        simp only [ih (f.eval inh) d.body hb, ihc (f.eval inh) d.body hb]
    | array k x =>
      simp only [SkipFreeAt, Node.flagsAll] at h
      simp only [parse, ih inh x h]
    | pair x y =>
      simp only [SkipFreeAt, Node.flagsAll] at h
      simp only [parse, ih inh x h.1, ih inh y h.2]
    | _ => simp only [parse]

theorem check_skip_irrelevant (G G' : NodeGrammar) (hr : G'.rules = G.rules) (uni : Uni)
    (S : RuleId → Bool → Prop) (hS : SkipClosed G S) (n : Nat) (inh : Bool) (node : Node)
    (h : SkipFreeAt S inh node) : check G uni n inh node = check G' uni n inh node := by
  funext i m
  rw [check_eq_parse_forget, check_eq_parse_forget, parse_skip_irrelevant G G' hr uni S hS n inh node h]

/-! ### direct sub-expressions -/

/-- `Node.Within sub n`: `sub` occurs in the expression `n` itself (rule bodies behind references
are not entered).  Every constructor of `parse` other than `.ref` (and the implicit skip) runs its
operands under the inherited atomicity it was itself run under. -/
inductive Node.Within : Node → Node → Prop
  | refl (n : Node) : Node.Within n n
  | seq {sub x : Node} {sk : Flag} {items : List Node} : x ∈ items → Node.Within sub x → Node.Within sub (.seq sk items)
  | choice {sub x : Node} {alts : List Node} : x ∈ alts → Node.Within sub x → Node.Within sub (.choice alts)
  | opt {sub x : Node} : Node.Within sub x → Node.Within sub (.opt x)
  | rep {sub x : Node} {sk : Flag} {mn : Nat} {mx : Option Nat} : Node.Within sub x → Node.Within sub (.rep sk mn mx x)
  | atomicRepeat {sub x : Node} : Node.Within sub x → Node.Within sub (.atomicRepeat x)
  | pos {sub x : Node} : Node.Within sub x → Node.Within sub (.pos x)
  | neg {sub x : Node} : Node.Within sub x → Node.Within sub (.neg x)
  | push {sub x : Node} : Node.Within sub x → Node.Within sub (.push x)
  | array {sub x : Node} {k : Nat} : Node.Within sub x → Node.Within sub (.array k x)
  | pairL {sub x y : Node} : Node.Within sub x → Node.Within sub (.pair x y)
  | pairR {sub x y : Node} : Node.Within sub y → Node.Within sub (.pair x y)

theorem Node.flagsAll_within {p : Flag → Prop} {q : RuleId → Flag → Prop} {sub n : Node}
    (hw : Node.Within sub n) : Node.flagsAll p q n → Node.flagsAll p q sub := by
  induction hw with
  | refl => exact id
  | seq hx _ ih => intro h; simp only [Node.flagsAll] at h; exact ih (Node.flagsAllList_mem h.2 _ hx)
  | choice hx _ ih => intro h; simp only [Node.flagsAll] at h; exact ih (Node.flagsAllList_mem h _ hx)
  | opt _ ih => intro h; simp only [Node.flagsAll] at h; exact ih h
  | rep _ ih => intro h; simp only [Node.flagsAll] at h; exact ih h.2
  | atomicRepeat _ ih => intro h; simp only [Node.flagsAll] at h; exact ih h
  | pos _ ih => intro h; simp only [Node.flagsAll] at h; exact ih h
  | neg _ ih => intro h; simp only [Node.flagsAll] at h; exact ih h
  | push _ ih => intro h; simp only [Node.flagsAll] at h; exact ih h
  | array _ ih => intro h; simp only [Node.flagsAll] at h; exact ih h
  | pairL _ ih => intro h; simp only [Node.flagsAll] at h; exact ih h.1
  | pairR _ ih => intro h; simp only [Node.flagsAll] at h; exact ih h.2

/-! ### monotonicity of `flagsAll` -/

mutual
theorem Node.flagsAll_mono_refs {p p' : Flag → Prop} {q q' : RuleId → Flag → Prop} (hp : ∀ f, p f → p' f) :
    ∀ (n : Node), Node.flagsAll p q n → (∀ rf ∈ Node.refs n, q rf.1 rf.2 → q' rf.1 rf.2) →
      Node.flagsAll p' q' n
  | .seq sk items, h, hq => by
    simp only [Node.flagsAll] at h ⊢; simp only [Node.refs] at hq
    exact ⟨hp _ h.1, Node.flagsAllList_mono_refs hp items h.2 hq⟩
  | .choice alts, h, hq => by
    simp only [Node.flagsAll] at h ⊢; simp only [Node.refs] at hq
    exact Node.flagsAllList_mono_refs hp alts h hq
  | .opt n, h, hq => by
    simp only [Node.flagsAll] at h ⊢; simp only [Node.refs] at hq
    exact Node.flagsAll_mono_refs hp n h hq
  | .rep sk mn mx n, h, hq => by
    simp only [Node.flagsAll] at h ⊢; simp only [Node.refs] at hq
    exact ⟨hp _ h.1, Node.flagsAll_mono_refs hp n h.2 hq⟩
  | .atomicRepeat n, h, hq => by
    simp only [Node.flagsAll] at h ⊢; simp only [Node.refs] at hq
    exact Node.flagsAll_mono_refs hp n h hq
  | .pos n, h, hq => by
    simp only [Node.flagsAll] at h ⊢; simp only [Node.refs] at hq
    exact Node.flagsAll_mono_refs hp n h hq
  | .neg n, h, hq => by
    simp only [Node.flagsAll] at h ⊢; simp only [Node.refs] at hq
    exact Node.flagsAll_mono_refs hp n h hq
  | .push n, h, hq => by
    simp only [Node.flagsAll] at h ⊢; simp only [Node.refs] at hq
    exact Node.flagsAll_mono_refs hp n h hq
  | .ref r f, h, hq => by
    simp only [Node.flagsAll] at h ⊢
    exact hq (r, f) (by simp [Node.refs]) h
  | .array k n, h, hq => by
    simp only [Node.flagsAll] at h ⊢; simp only [Node.refs] at hq
    exact Node.flagsAll_mono_refs hp n h hq
  | .pair a b, h, hq => by
    simp only [Node.flagsAll] at h ⊢; simp only [Node.refs, List.mem_append] at hq
    exact ⟨Node.flagsAll_mono_refs hp a h.1 (fun rf hrf => hq rf (Or.inl hrf)),
      Node.flagsAll_mono_refs hp b h.2 (fun rf hrf => hq rf (Or.inr hrf))⟩
  | .str _, _, _ => by simp [Node.flagsAll]
  | .insens _, _, _ => by simp [Node.flagsAll]
  | .range _ _, _, _ => by simp [Node.flagsAll]
  | .any, _, _ => by simp [Node.flagsAll]
  | .soi, _, _ => by simp [Node.flagsAll]
  | .eoi, _, _ => by simp [Node.flagsAll]
  | .newline, _, _ => by simp [Node.flagsAll]
  | .charBy _, _, _ => by simp [Node.flagsAll]
  | .skipUntil _, _, _ => by simp [Node.flagsAll]
  | .skipChars _, _, _ => by simp [Node.flagsAll]
  | .peek, _, _ => by simp [Node.flagsAll]
  | .peekAll, _, _ => by simp [Node.flagsAll]
  | .pop, _, _ => by simp [Node.flagsAll]
  | .popAll, _, _ => by simp [Node.flagsAll]
  | .drop, _, _ => by simp [Node.flagsAll]
  | .peekSlice _ _, _, _ => by simp [Node.flagsAll]
  | .empty, _, _ => by simp [Node.flagsAll]
  | .alwaysFail, _, _ => by simp [Node.flagsAll]
theorem Node.flagsAllList_mono_refs {p p' : Flag → Prop} {q q' : RuleId → Flag → Prop} (hp : ∀ f, p f → p' f) :
    ∀ (ns : List Node), Node.flagsAllList p q ns → (∀ rf ∈ Node.refsList ns, q rf.1 rf.2 → q' rf.1 rf.2) →
      Node.flagsAllList p' q' ns
  | [], _, _ => by simp [Node.flagsAllList]
  | n :: ns, h, hq => by
    simp only [Node.flagsAllList] at h ⊢; simp only [Node.refsList, List.mem_append] at hq
    exact ⟨Node.flagsAll_mono_refs hp n h.1 (fun rf hrf => hq rf (Or.inl hrf)),
      Node.flagsAllList_mono_refs hp ns h.2 (fun rf hrf => hq rf (Or.inr hrf))⟩
end

/-! ### reachability through rule bodies -/

/-- `Reach G r r'`: `r'` is `r` or is referenced in the body of a rule reachable from `r`. -/
inductive Reach (G : NodeGrammar) : RuleId → RuleId → Prop
  | refl (r : RuleId) : Reach G r r
  | step {r r' r'' : RuleId} {d : RuleDef} {f : Flag} :
      Reach G r r' → G.rule? r' = some d → (r'', f) ∈ d.body.refs → Reach G r r''

/-! ### generated modules -/

/-- The flags of the body of generated rule `k+1` of kind `K`, evaluated under `b`
(`genExpr_flags` with the rule's own token, `atomFlag_eval`). -/
theorem gen_body_flags (pg : PGrammar) (k : Nat) (d : RuleDef) (pr : PRule)
    (hd : (gen pg).rule? (k+1) = some d) (hr : pg[k]? = some pr) (b : Bool) :
    Node.flagsAll (fun f => f.eval b = kindFlagVal pr.kind b)
      (fun r f => (r = 0 ∧ f = .one) ∨ (r ≠ 0 ∧ f.eval b = kindFlagVal pr.kind b)) d.body := by
  rw [gen_rule_body pg k d pr hd hr]
  show Node.flagsAll _ _ (genExpr pg (atomFlag (kindAtomicity pr.kind)) pr.expr)
  refine genExpr_flags pg _ _ _ (atomFlag_eval _ _) (fun k => ?_) ?_ pr.expr
  · exact Or.inr ⟨Nat.succ_ne_zero k, atomFlag_eval _ _⟩
  · exact Or.inl ⟨rfl, rfl⟩

/-- A rule id of a generated module is `0` (`EOI`) or `j+1` for the `j`-th grammar rule. -/
theorem gen_rule_inv (pg : PGrammar) (r : RuleId) (d : RuleDef) (hd : (gen pg).rule? r = some d) :
    (r = 0 ∧ d = eoiDef) ∨ ∃ j pr, r = j + 1 ∧ pg[j]? = some pr := by
  cases r with
  | zero =>
    left
    simp only [NodeGrammar.rule?, gen, List.getElem?_cons_zero, Option.some.injEq] at hd
    exact ⟨rfl, hd.symm⟩
  | succ j =>
    right
    simp only [NodeGrammar.rule?, gen, List.getElem?_cons_succ, List.getElem?_map] at hd
    cases hj : pg[j]? with
    | none => rw [hj] at hd; cases hd
    | some pr => exact ⟨j, pr, rfl, hj⟩

/-- The invariant set used for `@` / `$` rules: the rules reachable from `root`, entered under `true`
only if they are `EOI` or themselves `@` / `$`. -/
def AtomicReachSet (pg : PGrammar) (root : RuleId) (r : RuleId) (b : Bool) : Prop :=
  Reach (gen pg) root r ∧ (b = true → r = 0 ∨ HasKind pg r .atomic ∨ HasKind pg r .compoundAtomic)

/-- If no `!` rule is reachable from `root`, `AtomicReachSet pg root` is an invariant. -/
theorem atomicReachSet_closed (pg : PGrammar) (root : RuleId)
    (hno : ∀ r', Reach (gen pg) root r' → ¬ HasKind pg r' .nonAtomic) :
    SkipClosed (gen pg) (AtomicReachSet pg root) := by
  refine ⟨fun r b d hs hd => ?_⟩
  obtain ⟨hreach, hb⟩ := hs
  rcases gen_rule_inv pg r d hd with ⟨_, rfl⟩ | ⟨j, pr, rfl, hj⟩
  · simp [SkipFreeAt, eoiDef, Node.flagsAll]
  · have hfl := gen_body_flags pg j d pr hd hj b
    have hK : pr.kind ≠ .nonAtomic := fun e => hno _ hreach ⟨j, pr, rfl, hj, e⟩
    have hval : kindFlagVal pr.kind b = false := by
      cases hk : pr.kind with
      | atomic => rfl
      | compoundAtomic => rfl
      | nonAtomic => exact absurd hk hK
      | normal =>
        cases b with
        | false => rfl
        | true =>
          rcases hb rfl with h0 | ⟨j', pr', e, hj', hk'⟩ | ⟨j', pr', e, hj', hk'⟩
          · exact absurd h0 (Nat.succ_ne_zero j)
          · have : j' = j := (Nat.succ.inj e).symm
            subst this; rw [hj] at hj'; injection hj' with e'; subst e'; rw [hk] at hk'; cases hk'
          · have : j' = j := (Nat.succ.inj e).symm
            subst this; rw [hj] at hj'; injection hj' with e'; subst e'; rw [hk] at hk'; cases hk'
      | silent =>
        cases b with
        | false => rfl
        | true =>
          rcases hb rfl with h0 | ⟨j', pr', e, hj', hk'⟩ | ⟨j', pr', e, hj', hk'⟩
          · exact absurd h0 (Nat.succ_ne_zero j)
          · have : j' = j := (Nat.succ.inj e).symm
            subst this; rw [hj] at hj'; injection hj' with e'; subst e'; rw [hk] at hk'; cases hk'
          · have : j' = j := (Nat.succ.inj e).symm
            subst this; rw [hj] at hj'; injection hj' with e'; subst e'; rw [hk] at hk'; cases hk'
    refine Node.flagsAll_mono_refs (fun f hf => by rw [hf, hval]) d.body hfl ?_
    intro rf hrf hq
    refine ⟨Reach.step hreach hd hrf, fun htrue => ?_⟩
    rcases hq with ⟨h0, _⟩ | ⟨_, hev⟩
    · exact Or.inl h0
    · rw [hev, hval] at htrue; cases htrue

/-- An `@` / `$` rule of a generated module from which no `!` rule is reachable: referenced from any
context, under any flag, it satisfies `NoSkipReach`. -/
theorem gen_atomic_noSkipReach (pg : PGrammar) (k : Nat) (pr : PRule) (hr : pg[k]? = some pr)
    (hk : pr.kind = .atomic ∨ pr.kind = .compoundAtomic)
    (hno : ∀ r', Reach (gen pg) (k+1) r' → ¬ HasKind pg r' .nonAtomic) (inh : Bool) (f : Flag) :
    NoSkipReach (gen pg) inh (.ref (k+1) f) := by
  refine ⟨AtomicReachSet pg (k+1), atomicReachSet_closed pg (k+1) hno, ?_⟩
  simp only [SkipFreeAt, Node.flagsAll]
  refine ⟨Reach.refl _, fun _ => Or.inr ?_⟩
  rcases hk with hk | hk
  · exact Or.inl ⟨k, pr, rfl, hr, hk⟩
  · exact Or.inr ⟨k, pr, rfl, hr, hk⟩

end PestTyped
