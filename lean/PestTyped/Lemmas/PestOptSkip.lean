/-
Lemmas.PestOptSkip — pest_meta's `skip` pass (`optimizer/skipper.rs`; `populateChoices`, `skipClosure`,
`skipExpr` of `Model/PestOpt.lean`) preserves the reference semantics `spec`.

The pass runs in `@` (atomic) rules only, whose bodies are evaluated with `na = false`, and rewrites
`(!x ~ ANY)*` into `Skip(needles)` when `x` is a right-nested choice of string literals, possibly through
rule references that `populate_choices` inlines.  `Skip(needles)` moves the cursor to the first position
where some needle is a prefix of the remaining text, or to the end (`Inp.skipUntil`).

Contents.
* `AnyPrefix ns i`: some needle of `ns` is a prefix of the remaining text of `i`.
* `strChoiceRes ns i S`: the answer of the ordered choice of the literals `ns`; `StrChoiceSem G uni x ns`:
  `x` denotes exactly that answer, under both atomicity flags (`StrChoiceSem.total/.fail_iff/.ok_iff`).
* `populateChoices_noIdent`: when `x` contains no identifier, a successful `populateChoices raw b x cs`
  is `Skip (cs ++ strLiterals x)` and `x` is characterised by `strLiterals x` in EVERY grammar.
* `populateChoices_sound`: with inlining, for a lookup map `raw` that agrees with the evaluation grammar
  `G` (`LookupAgrees raw G uni`: a body found by `vLookup raw` is equivalent to the body `G.find?` runs);
  `LookupAgrees.of_nodup` (pairwise distinct names: `vLookup_eq_find?_of_nodup`), `LookupAgrees.nil`.
* `skip_loop_equiv`: `(!x ~ ANY)*` is `Skip ns` atomically when `x` is characterised by `ns` and `ANY`
  is not a rule of the grammar.
* `skipClosure_equiv_of_lookup`, `skipClosure_equiv`, `skipExpr_equiv`, `skipExpr_equiv_body` (same map
  and grammar, distinct names); `skipClosure_nil_equiv`, `skipExpr_nil_equiv`, `skipExpr_nil_equiv_body`
  (empty lookup map, any grammar); `skipClosure_noInline_equiv` (no identifier followed, any map).
* Witnesses: the rewrite is unsound under `na = true` with a `WHITESPACE` rule; it is unsound with
  duplicate rule names; it is unsound when the grammar defines `ANY`; non-vacuity.
-/
import PestTyped.Lemmas.PestOptTraversal
import PestTyped.Lemmas.Cursor
namespace PestTyped

/-! ## 1. Needles -/

/-- Some needle is a prefix of the remaining text (the test of `skipUntilGo`). -/
def AnyPrefix (needles : List (List Char)) (i : Inp) : Prop :=
  needles.any (fun n => n.isPrefixOf i.rest) = true

instance (needles : List (List Char)) (i : Inp) : Decidable (AnyPrefix needles i) :=
  inferInstanceAs (Decidable (_ = true))

theorem AnyPrefix_iff {needles : List (List Char)} {i : Inp} :
    AnyPrefix needles i ↔ ∃ s ∈ needles, s.isPrefixOf i.rest = true := by
  simp only [AnyPrefix, List.any_eq_true]

theorem AnyPrefix_nil (i : Inp) : ¬ AnyPrefix [] i := by
  simp [AnyPrefix]

theorem AnyPrefix_cons {s : List Char} {ns : List (List Char)} {i : Inp} :
    AnyPrefix (s :: ns) i ↔ s.isPrefixOf i.rest = true ∨ AnyPrefix ns i := by
  simp only [AnyPrefix, List.any_cons, Bool.or_eq_true]

theorem AnyPrefix_append {a b : List (List Char)} {i : Inp} :
    AnyPrefix (a ++ b) i ↔ AnyPrefix a i ∨ AnyPrefix b i := by
  simp only [AnyPrefix, List.any_append, Bool.or_eq_true]

/-- The answer of the ordered choice of the string literals `ns`: the first literal that is a prefix of
the remaining text is consumed. -/
def strChoiceRes : List (List Char) → Inp → List Sp → SR
  | [], _, _ => .fail
  | s :: ns, i, S => if s.isPrefixOf i.rest = true then .ok (i.adv s.length) S else strChoiceRes ns i S

theorem strChoiceRes_ne_oof (ns : List (List Char)) (i : Inp) (S : List Sp) : strChoiceRes ns i S ≠ .oof := by
  induction ns with
  | nil => simp [strChoiceRes]
  | cons s ns ih =>
    simp only [strChoiceRes]
    split
    · nofun
    · exact ih

theorem strChoiceRes_fail_iff (ns : List (List Char)) (i : Inp) (S : List Sp) :
    strChoiceRes ns i S = .fail ↔ ¬ AnyPrefix ns i := by
  induction ns with
  | nil => simp [strChoiceRes, AnyPrefix_nil]
  | cons s ns ih =>
    simp only [strChoiceRes, AnyPrefix_cons]
    by_cases h : s.isPrefixOf i.rest = true
    · simp [h]
    · rw [if_neg h, ih]; simp [h]

theorem strChoiceRes_ok {ns : List (List Char)} {i : Inp} {S : List Sp} {i' : Inp} {S' : List Sp}
    (h : strChoiceRes ns i S = .ok i' S') :
    S' = S ∧ ∃ s ∈ ns, s.isPrefixOf i.rest = true ∧ i' = i.adv s.length := by
  induction ns with
  | nil => simp [strChoiceRes] at h
  | cons s ns ih =>
    simp only [strChoiceRes] at h
    by_cases hp : s.isPrefixOf i.rest = true
    · rw [if_pos hp] at h
      injection h with h1 h2
      exact ⟨h2.symm, s, List.mem_cons_self, hp, h1.symm⟩
    · rw [if_neg hp] at h
      obtain ⟨h1, s', hs', h2⟩ := ih h
      exact ⟨h1, s', List.mem_cons_of_mem _ hs', h2⟩

theorem strChoiceRes_ok_anyPrefix {ns : List (List Char)} {i : Inp} {S : List Sp} {i' : Inp} {S' : List Sp}
    (h : strChoiceRes ns i S = .ok i' S') : AnyPrefix ns i := by
  obtain ⟨_, s, hs, hp, _⟩ := strChoiceRes_ok h
  exact AnyPrefix_iff.mpr ⟨s, hs, hp⟩

theorem strChoiceRes_append_fail {a : List (List Char)} {i : Inp} {S : List Sp}
    (h : strChoiceRes a i S = .fail) (b : List (List Char)) :
    strChoiceRes (a ++ b) i S = strChoiceRes b i S := by
  induction a with
  | nil => rfl
  | cons s a ih =>
    simp only [strChoiceRes] at h
    by_cases hp : s.isPrefixOf i.rest = true
    · rw [if_pos hp] at h; cases h
    · rw [if_neg hp] at h
      simp only [List.cons_append, strChoiceRes]
      rw [if_neg hp]
      exact ih h

theorem strChoiceRes_append_ok {a : List (List Char)} {i : Inp} {S : List Sp} {i' : Inp} {S' : List Sp}
    (h : strChoiceRes a i S = .ok i' S') (b : List (List Char)) :
    strChoiceRes (a ++ b) i S = .ok i' S' := by
  induction a with
  | nil => simp [strChoiceRes] at h
  | cons s a ih =>
    simp only [strChoiceRes] at h
    by_cases hp : s.isPrefixOf i.rest = true
    · rw [if_pos hp] at h
      simp only [List.cons_append, strChoiceRes]
      rw [if_pos hp]; exact h
    · rw [if_neg hp] at h
      simp only [List.cons_append, strChoiceRes]
      rw [if_neg hp]
      exact ih h

/-! ## 2. Expressions that behave as a choice of string literals -/

/-- `x` denotes, in grammar `G` and under BOTH atomicity flags, the ordered choice of the literals `ns`
(in particular it always has a definite answer). -/
def StrChoiceSem (G : PGrammar) (uni : Uni) (x : PExpr) (ns : List (List Char)) : Prop :=
  ∀ na i S r, Den G uni na x i S r ↔ r = strChoiceRes ns i S

section Sem
variable {G : PGrammar} {uni : Uni} {x : PExpr} {ns : List (List Char)}

/-- Exactly one answer (`Den.det` gives uniqueness). -/
theorem StrChoiceSem.total (h : StrChoiceSem G uni x ns) (na : Bool) (i : Inp) (S : List Sp) :
    Den G uni na x i S (strChoiceRes ns i S) := (h na i S _).mpr rfl

theorem StrChoiceSem.fail_iff (h : StrChoiceSem G uni x ns) (na : Bool) (i : Inp) (S : List Sp) :
    Den G uni na x i S .fail ↔ ¬ AnyPrefix ns i := by
  rw [h na i S, eq_comm, strChoiceRes_fail_iff]

theorem StrChoiceSem.ok_iff (h : StrChoiceSem G uni x ns) (na : Bool) (i : Inp) (S : List Sp) :
    (∃ i' S', Den G uni na x i S (.ok i' S')) ↔ AnyPrefix ns i := by
  constructor
  · rintro ⟨i', S', hd⟩
    exact strChoiceRes_ok_anyPrefix ((h na i S _).mp hd).symm
  · intro hp
    cases hr : strChoiceRes ns i S with
    | oof => exact absurd hr (strChoiceRes_ne_oof _ _ _)
    | fail => exact absurd hp ((strChoiceRes_fail_iff _ _ _).mp hr)
    | ok i' S' => exact ⟨i', S', (h na i S _).mpr hr.symm⟩

/-- A successful answer consumes one of the literals and leaves the stack alone. -/
theorem StrChoiceSem.ok_shape (h : StrChoiceSem G uni x ns) {na : Bool} {i : Inp} {S : List Sp} {i' : Inp}
    {S' : List Sp} (hd : Den G uni na x i S (.ok i' S')) :
    S' = S ∧ ∃ s ∈ ns, s.isPrefixOf i.rest = true ∧ i' = i.adv s.length :=
  strChoiceRes_ok ((h na i S _).mp hd).symm

theorem StrChoiceSem.str (G : PGrammar) (uni : Uni) (s : List Char) : StrChoiceSem G uni (.str s) [s] := by
  intro na i S r
  rw [Den_str]
  simp only [strChoiceRes, Inp.matchString]
  by_cases hp : s.isPrefixOf i.rest = true
  · simp [hp]
  · simp [hp]

theorem StrChoiceSem.choice {a b : PExpr} {la lb : List (List Char)} (ha : StrChoiceSem G uni a la)
    (hb : StrChoiceSem G uni b lb) : StrChoiceSem G uni (.choice a b) (la ++ lb) := by
  intro na i S r
  rw [Den_choice]
  simp only [ha na i S, hb na i S]
  cases hr : strChoiceRes la i S with
  | oof => exact absurd hr (strChoiceRes_ne_oof _ _ _)
  | fail =>
    rw [strChoiceRes_append_fail hr]
    constructor
    · rintro (⟨i', S', h, _⟩ | ⟨_, h⟩)
      · cases h
      · exact h
    · intro h; exact .inr ⟨rfl, h⟩
  | ok i1 S1 =>
    rw [strChoiceRes_append_ok hr]
    constructor
    · rintro (⟨i', S', h, h'⟩ | ⟨h, _⟩)
      · rw [h'] ; exact h
      · cases h
    · intro h; exact .inl ⟨i1, S1, rfl, h⟩

theorem StrChoiceSem.ident {name : String} {rl : PRule} (hf : G.find? name = some rl)
    (hb : StrChoiceSem G uni rl.expr ns) : StrChoiceSem G uni (.ident name) ns := by
  intro na i S r
  rw [Den_ident_some hf]
  exact hb _ i S r

theorem StrChoiceSem.congr {y : PExpr} (hxy : ∀ na, SpecEquiv G G uni na x y) (h : StrChoiceSem G uni x ns) :
    StrChoiceSem G uni y ns := by
  intro na i S r
  rw [← hxy na i S r]
  exact h na i S r

end Sem

/-! ### without inlining -/

/-- `x` contains no identifier. -/
def PExpr.noIdent : PExpr → Bool
  | .ident _ => false
  | .posPred e => e.noIdent
  | .negPred e => e.noIdent
  | .seq a b => a.noIdent && b.noIdent
  | .choice a b => a.noIdent && b.noIdent
  | .opt e => e.noIdent
  | .rep e => e.noIdent
  | .repOnce e => e.noIdent
  | .repExact e _ => e.noIdent
  | .repMin e _ => e.noIdent
  | .repMax e _ => e.noIdent
  | .repMinMax e _ _ => e.noIdent
  | .push e => e.noIdent
  | .restoreOnErr e => e.noIdent
  | _ => true

/-- The literals of a choice of strings, left to right. -/
def strLiterals : PExpr → List (List Char)
  | .choice a b => strLiterals a ++ strLiterals b
  | .str s => [s]
  | _ => []

/-- `populate_choices` on an expression without identifiers: the needles are the accumulator followed by
the literals of `x`, whatever the lookup map, and `x` is the choice of these literals in every grammar. -/
theorem populateChoices_noIdent (raw : PGrammar) : ∀ (b : Nat) (x : PExpr) (cs : List (List Char)) (r : PExpr),
    x.noIdent = true → populateChoices raw b x cs = some r →
    r = .skip (cs ++ strLiterals x) ∧ ∀ (G : PGrammar) (uni : Uni), StrChoiceSem G uni x (strLiterals x) := by
  intro b
  induction b with
  | zero => intro x cs r _ h; simp [populateChoices] at h
  | succ b ih =>
    intro x cs r hx h
    unfold populateChoices at h
    split at h
    · next lhs rhs =>
      simp only [PExpr.noIdent, Bool.and_eq_true] at hx
      split at h
      · next s =>
        obtain ⟨hr, hsem⟩ := ih _ _ _ hx.2 h
        refine ⟨?_, fun G uni => ?_⟩
        · rw [hr]; simp only [strLiterals, List.append_assoc]
        · exact StrChoiceSem.choice (StrChoiceSem.str G uni s) (hsem G uni)
      · next name => simp [PExpr.noIdent] at hx
      · cases h
    · next s =>
      injection h with h; subst h
      exact ⟨rfl, fun G uni => StrChoiceSem.str G uni s⟩
    · next name => simp [PExpr.noIdent] at hx
    · cases h

/-! ### with inlining -/

/-- The skipper's rule map `raw` agrees with the evaluation grammar `G`: a body found in the map belongs
to (is equivalent, under both flags, to the body of) the rule the semantics runs for that name. -/
def LookupAgrees (raw G : PGrammar) (uni : Uni) : Prop :=
  ∀ name body, vLookup raw name = some body →
    ∃ rl, G.find? name = some rl ∧ ∀ na, SpecEquiv G G uni na rl.expr body

/-- Soundness of `populate_choices`: a successful call returns `Skip (cs ++ lits)` where `x` denotes the
ordered choice of the literals `lits`. -/
theorem populateChoices_sound {raw G : PGrammar} {uni : Uni} (hlk : LookupAgrees raw G uni) :
    ∀ (b : Nat) (x : PExpr) (cs : List (List Char)) (r : PExpr), populateChoices raw b x cs = some r →
    ∃ lits, r = .skip (cs ++ lits) ∧ StrChoiceSem G uni x lits := by
  intro b
  induction b with
  | zero => intro x cs r h; simp [populateChoices] at h
  | succ b ih =>
    intro x cs r h
    unfold populateChoices at h
    split at h
    · next lhs rhs =>
      split at h
      · next s =>
        obtain ⟨lits, hr, hsem⟩ := ih _ _ _ h
        refine ⟨s :: lits, ?_, StrChoiceSem.choice (StrChoiceSem.str G uni s) hsem⟩
        rw [hr]; simp only [List.append_assoc, List.singleton_append]
      · next name =>
        split at h
        · next inlined hm =>
          cases hv : vLookup raw name with
          | none => rw [hv] at hm; cases hm
          | some body =>
            rw [hv] at hm
            simp only [Option.bind_some] at hm
            obtain ⟨l1, hr1, hsem1⟩ := ih _ _ _ hm
            obtain ⟨l2, hr2, hsem2⟩ := ih _ _ _ h
            obtain ⟨rl, hf, heq⟩ := hlk name body hv
            injection hr1 with hr1
            rw [List.nil_append] at hr1
            subst hr1
            refine ⟨inlined ++ l2, ?_, StrChoiceSem.choice (StrChoiceSem.ident hf ?_) hsem2⟩
            · rw [hr2]; simp only [List.append_assoc]
            · exact StrChoiceSem.congr (fun na => (heq na).symm) hsem1
        · cases h
      · cases h
    · next s =>
      injection h with h; subst h
      exact ⟨[s], rfl, StrChoiceSem.str G uni s⟩
    · next name =>
      split at h
      · next body hv =>
        obtain ⟨lits, hr, hsem⟩ := ih _ _ _ h
        obtain ⟨rl, hf, heq⟩ := hlk name body hv
        exact ⟨lits, hr, StrChoiceSem.ident hf (StrChoiceSem.congr (fun na => (heq na).symm) hsem)⟩
      · cases h
    · cases h

/-! ### the two rule lookups -/

theorem skp_vLookupGo_or (name : String) : ∀ (rs : List PRule) (acc : Option PExpr),
    vLookupGo name rs acc = (vLookupGo name rs none).or acc := by
  intro rs
  induction rs with
  | nil => intro acc; simp [vLookupGo]
  | cons r rs ih =>
    intro acc
    simp only [vLookupGo]
    rw [ih, ih (if r.name = name then some r.expr else none)]
    by_cases h : r.name = name
    · simp [h]
    · simp [h]

theorem skp_vLookup_cons (r : PRule) (rs : List PRule) (name : String) :
    vLookup (r :: rs) name = (vLookup rs name).or (if r.name = name then some r.expr else none) := by
  simp only [vLookup, vLookupGo]
  rw [skp_vLookupGo_or]

theorem skp_go_succ (name : String) : ∀ (rs : List PRule) (k : Nat),
    PGrammar.indexOf.go name rs (k+1) = (PGrammar.indexOf.go name rs k).map (· + 1) := by
  intro rs
  induction rs with
  | nil => intro k; rfl
  | cons r rs ih =>
    intro k
    simp only [PGrammar.indexOf.go]
    by_cases h : r.name = name
    · simp [h]
    · simp only [h, if_false]; exact ih _

theorem skp_find?_cons (r : PRule) (rs : List PRule) (name : String) :
    PGrammar.find? (r :: rs) name = if r.name = name then some r else PGrammar.find? rs name := by
  unfold PGrammar.find? PGrammar.indexOf
  simp only [PGrammar.indexOf.go]
  by_cases h : r.name = name
  · simp [h]
  · simp only [h, if_false]
    rw [skp_go_succ]
    cases PGrammar.indexOf.go name rs 0 with
    | none => rfl
    | some k => simp

theorem skp_find?_none_of_not_mem {g : PGrammar} {name : String} (h : name ∉ g.map (·.name)) :
    g.find? name = none := by
  cases hf : g.find? name with
  | none => rfl
  | some rl =>
    obtain ⟨hn, hm, _⟩ := PGrammar.find?_some hf
    exact absurd (List.mem_map.mpr ⟨rl, hm, hn⟩) h

/-- With pairwise distinct rule names the optimizer's map (`to_hash_map`: last definition) and the
semantics (first definition) find the same rule. -/
theorem vLookup_eq_find?_of_nodup : ∀ (g : PGrammar), (g.map (·.name)).Nodup → ∀ name,
    vLookup g name = (g.find? name).map (·.expr) := by
  intro g
  induction g with
  | nil => intro _ name; rfl
  | cons r rs ih =>
    intro hnd name
    simp only [List.map_cons, List.nodup_cons] at hnd
    rw [skp_vLookup_cons, skp_find?_cons, ih hnd.2]
    by_cases h : r.name = name
    · subst h
      rw [skp_find?_none_of_not_mem hnd.1]
      simp
    · simp [h]

theorem LookupAgrees.of_nodup {g : PGrammar} (hnd : (g.map (·.name)).Nodup) (uni : Uni) : LookupAgrees g g uni := by
  intro name body hv
  rw [vLookup_eq_find?_of_nodup g hnd] at hv
  cases hf : g.find? name with
  | none => rw [hf] at hv; cases hv
  | some rl =>
    rw [hf] at hv
    simp only [Option.map_some, Option.some.injEq] at hv
    subst hv
    exact ⟨rl, rfl, fun na => SpecEquiv.refl _ _ _ _⟩

/-- The empty map follows no identifier: it agrees with every grammar. -/
theorem LookupAgrees.nil (G : PGrammar) (uni : Uni) : LookupAgrees [] G uni := by
  intro name body hv
  cases hv

/-! ## 3. The loop `(!x ~ ANY)*` -/

/-- What the loop needs to know about `x` (under one flag): it succeeds when some needle is a prefix of
the remaining text and fails otherwise. -/
def PrefixSem (G : PGrammar) (uni : Uni) (na : Bool) (x : PExpr) (ns : List (List Char)) : Prop :=
  ∀ i S, (AnyPrefix ns i → ∃ i' S', Den G uni na x i S (.ok i' S')) ∧ (¬ AnyPrefix ns i → Den G uni na x i S .fail)

theorem StrChoiceSem.prefixSem {G : PGrammar} {uni : Uni} {x : PExpr} {ns : List (List Char)}
    (h : StrChoiceSem G uni x ns) (na : Bool) : PrefixSem G uni na x ns :=
  fun i S => ⟨(h.ok_iff na i S).mpr, (h.fail_iff na i S).mpr⟩

theorem skp_builtin_ANY_nil (uni : Uni) {i : Inp} (S : List Sp) (h : i.rest = []) :
    specBuiltin uni "ANY" i S = .fail := by
  simp [specBuiltin, Inp.matchCharBy, h]

theorem skp_builtin_ANY_cons (uni : Uni) {i : Inp} (S : List Sp) {c : Char} {cs : List Char} (h : i.rest = c :: cs) :
    specBuiltin uni "ANY" i S = .ok (i.adv 1) S := by
  simp [specBuiltin, Inp.matchCharBy, h]

section Loop
variable {G : PGrammar} {uni : Uni} {x : PExpr} {ns : List (List Char)}

/-- The iteration stops at a needle. -/
theorem skp_iter_stop (hx : PrefixSem G uni false x ns) {i : Inp} (S : List Sp) (h : AnyPrefix ns i) :
    Den G uni false (.seq (.negPred x) (.ident "ANY")) i S .fail := by
  obtain ⟨i', S', hd⟩ := (hx i S).1 h
  exact Den_seq_atomic.mpr (.inl ⟨Den_negPred.mpr (.inr ⟨i', S', hd, rfl⟩), rfl⟩)

/-- The iteration stops at the end of the input. -/
theorem skp_iter_end (hany : G.find? "ANY" = none) (hx : PrefixSem G uni false x ns) {i : Inp} (S : List Sp)
    (h : i.rest = []) : Den G uni false (.seq (.negPred x) (.ident "ANY")) i S .fail := by
  by_cases hp : AnyPrefix ns i
  · exact skp_iter_stop hx S hp
  · refine Den_seq_atomic.mpr (.inr ⟨i, S, Den_negPred.mpr (.inl ⟨(hx i S).2 hp, rfl⟩), ?_⟩)
    rw [Den_ident_none hany, skp_builtin_ANY_nil uni S h]

/-- Elsewhere the iteration consumes one character. -/
theorem skp_iter_step (hany : G.find? "ANY" = none) (hx : PrefixSem G uni false x ns) {i : Inp} (S : List Sp)
    {c : Char} {cs : List Char} (h : i.rest = c :: cs) (hp : ¬ AnyPrefix ns i) :
    Den G uni false (.seq (.negPred x) (.ident "ANY")) i S (.ok (i.adv 1) S) := by
  refine Den_seq_atomic.mpr (.inr ⟨i, S, Den_negPred.mpr (.inl ⟨(hx i S).2 hp, rfl⟩), ?_⟩)
  rw [Den_ident_none hany, skp_builtin_ANY_cons uni S h]

end Loop

theorem skp_skipUntilGo_succ (ns : List (List Char)) : ∀ (l : List Char) (k : Nat),
    Inp.skipUntilGo ns l (k+1) = (Inp.skipUntilGo ns l k).map (· + 1) := by
  intro l
  induction l with
  | nil => intro k; rfl
  | cons c cs ih =>
    intro k
    simp only [Inp.skipUntilGo]
    split
    · rfl
    · exact ih _

theorem skp_skipUntil_nil (ns : List (List Char)) {i : Inp} (h : i.rest = []) : (i.skipUntil ns).1 = i := by
  simp only [Inp.skipUntil, h, Inp.skipUntilGo, List.length_nil]
  exact Inp.adv_zero i

theorem skp_skipUntil_here {ns : List (List Char)} {i : Inp} {c : Char} {cs : List Char} (h : i.rest = c :: cs)
    (hp : AnyPrefix ns i) : (i.skipUntil ns).1 = i := by
  unfold AnyPrefix at hp
  rw [h] at hp
  simp only [Inp.skipUntil, h, Inp.skipUntilGo]
  rw [if_pos hp]
  exact Inp.adv_zero i

theorem skp_skipUntil_step {ns : List (List Char)} {i : Inp} {c : Char} {cs : List Char} (h : i.rest = c :: cs)
    (hp : ¬ AnyPrefix ns i) : (i.skipUntil ns).1 = ((i.adv 1).skipUntil ns).1 := by
  unfold AnyPrefix at hp
  rw [h] at hp
  have hrest : (i.adv 1).rest = cs := by simp [Inp.adv, h]
  have h1 : 1 ≤ i.rest.length := by rw [h]; simp
  simp only [Inp.skipUntil, h, hrest, Inp.skipUntilGo, Nat.zero_add]
  rw [if_neg hp, skp_skipUntilGo_succ]
  cases Inp.skipUntilGo ns cs 0 with
  | none =>
    simp only [Option.map_none, List.length_cons]
    rw [Inp.adv_adv i 1 _ h1, Nat.add_comm]
  | some k =>
    simp only [Option.map_some]
    rw [Inp.adv_adv i 1 _ h1, Nat.add_comm]

/-- From any iteration index, the atomic loop ends where `skip_until` ends. -/
theorem skp_loop {G : PGrammar} {uni : Uni} {x : PExpr} {ns : List (List Char)}
    (hany : G.find? "ANY" = none) (hx : PrefixSem G uni false x ns) :
    ∀ (l : List Char) (i : Inp) (idx : Nat) (S : List Sp), i.rest = l →
      DenRep G uni false (.seq (.negPred x) (.ident "ANY")) 0 none idx i S (.ok (i.skipUntil ns).1 S) := by
  intro l
  induction l with
  | nil =>
    intro i idx S h
    rw [skp_skipUntil_nil ns h]
    exact DenRep_unfold.mpr (.inr (.inl ⟨nofun, DenUnit_atomic.mpr (skp_iter_end hany hx S h), by simp [repStop]⟩))
  | cons c cs ih =>
    intro i idx S h
    by_cases hp : AnyPrefix ns i
    · rw [skp_skipUntil_here h hp]
      exact DenRep_unfold.mpr (.inr (.inl ⟨nofun, DenUnit_atomic.mpr (skp_iter_stop hx S hp), by simp [repStop]⟩))
    · rw [skp_skipUntil_step h hp]
      have hrest : (i.adv 1).rest = cs := by simp [Inp.adv, h]
      exact DenRep_unfold.mpr (.inr (.inr ⟨nofun, i.adv 1, S,
        DenUnit_atomic.mpr (skp_iter_step hany hx S h hp), ih (i.adv 1) (idx+1) S hrest⟩))

/-- The loop from iteration `idx` has exactly the answer of `Skip ns`. -/
theorem skip_loop_iff {G : PGrammar} {uni : Uni} {x : PExpr} {ns : List (List Char)}
    (hany : G.find? "ANY" = none) (hx : PrefixSem G uni false x ns) (idx : Nat) (i : Inp) (S : List Sp) (r : SR) :
    DenRep G uni false (.seq (.negPred x) (.ident "ANY")) 0 none idx i S r ↔ r = .ok (i.skipUntil ns).1 S := by
  constructor
  · intro h; exact h.det (skp_loop hany hx _ i idx S rfl)
  · rintro rfl; exact skp_loop hany hx _ i idx S rfl

/-- `(!x ~ ANY)*` is `Skip ns` in an atomic context, when `x` succeeds exactly at the positions where a
needle of `ns` is a prefix of the remaining text, and `ANY` is pest's built-in. -/
theorem skip_loop_equiv {G : PGrammar} {uni : Uni} {x : PExpr} {ns : List (List Char)}
    (hany : G.find? "ANY" = none) (hx : PrefixSem G uni false x ns) :
    SpecEquiv G G uni false (.rep (.seq (.negPred x) (.ident "ANY"))) (.skip ns) := by
  intro i S r
  rw [Den_rep, Den_skip]
  exact skip_loop_iff hany hx 0 i S r

/-! ## 4. The pass -/

/-- The closure of `skip` with lookup map `raw`, evaluated in a grammar `G` that agrees with the map. -/
theorem skipClosure_equiv_of_lookup {raw G : PGrammar} {uni : Uni} (hlk : LookupAgrees raw G uni)
    (hany : G.find? "ANY" = none) : ∀ e, SpecEquiv G G uni false e (skipClosure raw e) := by
  intro e
  unfold skipClosure
  split
  · next x ident =>
    split
    · next hid =>
      subst hid
      split
      · next r h =>
        obtain ⟨lits, hr, hsem⟩ := populateChoices_sound hlk _ _ _ _ h
        rw [hr, List.nil_append]
        exact skip_loop_equiv hany (hsem.prefixSem false)
      · exact SpecEquiv.refl _ _ _ _
    · exact SpecEquiv.refl _ _ _ _
  · exact SpecEquiv.refl _ _ _ _

theorem skipExpr_equiv_of_lookup {raw G : PGrammar} {uni : Uni} (hlk : LookupAgrees raw G uni)
    (hany : G.find? "ANY" = none) (kind : RuleKind) (e : PExpr) :
    SpecEquiv G G uni false e (skipExpr raw kind e) := by
  unfold skipExpr
  split
  · exact mapTopDown_equiv _ (skipClosure_equiv_of_lookup hlk hany) _ _
  · exact SpecEquiv.refl _ _ _ _

/-- The flag under which the body of a rule of kind `kind` runs: the pass is the identity unless the rule
is atomic, and then the body runs atomically. -/
theorem skipExpr_equiv_body_of_lookup {raw G : PGrammar} {uni : Uni} (hlk : LookupAgrees raw G uni)
    (hany : G.find? "ANY" = none) (name : String) (kind : RuleKind) (na : Bool) (e : PExpr) :
    SpecEquiv G G uni (bodyNa name kind na) e (skipExpr raw kind e) := by
  by_cases hk : kind = .atomic
  · subst hk
    have : bodyNa name .atomic na = false := by
      unfold bodyNa; split <;> rfl
    rw [this]
    exact skipExpr_equiv_of_lookup hlk hany _ e
  · unfold skipExpr
    rw [if_neg hk]
    exact SpecEquiv.refl _ _ _ _

/-- The closure of `skip` is sound at every node of an atomic body, in a grammar with pairwise distinct
rule names that does not define `ANY`. -/
theorem skipClosure_equiv (g : PGrammar) (uni : Uni) (hnd : (g.map (·.name)).Nodup) (hany : g.find? "ANY" = none) :
    ∀ e, SpecEquiv g g uni false e (skipClosure g e) :=
  skipClosure_equiv_of_lookup (LookupAgrees.of_nodup hnd uni) hany

theorem skipExpr_equiv (g : PGrammar) (uni : Uni) (hnd : (g.map (·.name)).Nodup) (hany : g.find? "ANY" = none)
    (kind : RuleKind) (e : PExpr) : SpecEquiv g g uni false e (skipExpr g kind e) :=
  skipExpr_equiv_of_lookup (LookupAgrees.of_nodup hnd uni) hany kind e

theorem skipExpr_equiv_body (g : PGrammar) (uni : Uni) (hnd : (g.map (·.name)).Nodup) (hany : g.find? "ANY" = none)
    (name : String) (kind : RuleKind) (na : Bool) (e : PExpr) :
    SpecEquiv g g uni (bodyNa name kind na) e (skipExpr g kind e) :=
  skipExpr_equiv_body_of_lookup (LookupAgrees.of_nodup hnd uni) hany name kind na e

/-- With the EMPTY lookup map no identifier is followed: sound in every grammar (no `Nodup` needed). -/
theorem skipClosure_nil_equiv (G : PGrammar) (uni : Uni) (hany : G.find? "ANY" = none) :
    ∀ e, SpecEquiv G G uni false e (skipClosure [] e) :=
  skipClosure_equiv_of_lookup (LookupAgrees.nil G uni) hany

theorem skipExpr_nil_equiv (G : PGrammar) (uni : Uni) (hany : G.find? "ANY" = none) (kind : RuleKind) (e : PExpr) :
    SpecEquiv G G uni false e (skipExpr [] kind e) :=
  skipExpr_equiv_of_lookup (LookupAgrees.nil G uni) hany kind e

theorem skipExpr_nil_equiv_body (G : PGrammar) (uni : Uni) (hany : G.find? "ANY" = none) (name : String)
    (kind : RuleKind) (na : Bool) (e : PExpr) : SpecEquiv G G uni (bodyNa name kind na) e (skipExpr [] kind e) :=
  skipExpr_equiv_body_of_lookup (LookupAgrees.nil G uni) hany name kind na e

/-- The closure follows no identifier at `e` (it does not fire, or the negated expression has none). -/
def skipNoInline : PExpr → Bool
  | .rep (.seq (.negPred x) (.ident _)) => x.noIdent
  | _ => true

/-- Without inlining the closure is sound for ANY lookup map and ANY evaluation grammar (duplicate names
allowed). -/
theorem skipClosure_noInline_equiv (raw G : PGrammar) (uni : Uni) (hany : G.find? "ANY" = none) (e : PExpr)
    (hni : skipNoInline e = true) : SpecEquiv G G uni false e (skipClosure raw e) := by
  unfold skipClosure
  split
  · next x ident =>
    simp only [skipNoInline] at hni
    split
    · next hid =>
      subst hid
      split
      · next r h =>
        obtain ⟨hr, hsem⟩ := populateChoices_noIdent raw _ _ _ _ hni h
        rw [hr, List.nil_append]
        exact skip_loop_equiv hany ((hsem G uni).prefixSem false)
      · exact SpecEquiv.refl _ _ _ _
    · exact SpecEquiv.refl _ _ _ _
  · exact SpecEquiv.refl _ _ _ _

/-! ## 5. Witnesses and non-vacuity -/

namespace PestOptSkip.Ex

def uni0 : Uni := fun _ _ => false
def inp (s : List Char) : Inp := ⟨0, 0, s, []⟩

/-- `(!("ab" | "c") ~ ANY)*`. -/
def raw1 : PExpr := .rep (.seq (.negPred (.choice (.str ['a', 'b']) (.str ['c']))) (.ident "ANY"))

/-- `r = @{ (!("ab" | "c") ~ ANY)* }`. -/
def g1 : PGrammar := [⟨"r", .atomic, raw1⟩]

/-- The pass fires. -/
example : skipExpr g1 .atomic raw1 = .skip [['a', 'b'], ['c']] := by decide

/-- The theorem on this instance (its hypotheses hold). -/
example : SpecEquiv g1 g1 uni0 false raw1 (.skip [['a', 'b'], ['c']]) :=
  skipExpr_equiv g1 uni0 (by decide) (by decide) .atomic raw1

/-- Both forms stop in front of `ab` … -/
example : spec g1 uni0 9 false raw1 (inp ['x', 'a', 'y', 'a', 'b', 'c']) [] = .ok ⟨0, 3, ['a', 'b', 'c'], []⟩ [] ∧
    spec g1 uni0 1 false (.skip [['a', 'b'], ['c']]) (inp ['x', 'a', 'y', 'a', 'b', 'c']) []
      = .ok ⟨0, 3, ['a', 'b', 'c'], []⟩ [] := by decide

/-- … and at the end of the input when there is no needle. -/
example : spec g1 uni0 9 false raw1 (inp ['x', 'a']) [] = .ok ⟨0, 2, [], []⟩ [] ∧
    spec g1 uni0 1 false (.skip [['a', 'b'], ['c']]) (inp ['x', 'a']) [] = .ok ⟨0, 2, [], []⟩ [] := by decide

/-- An empty needle is a prefix of everything, including the empty rest: both forms stay put. -/
example : spec g1 uni0 9 false (.rep (.seq (.negPred (.str [])) (.ident "ANY"))) (inp []) [] = .ok (inp []) [] ∧
    spec g1 uni0 1 false (.skip [[]]) (inp []) [] = .ok (inp []) [] ∧
    spec g1 uni0 9 false (.rep (.seq (.negPred (.str [])) (.ident "ANY"))) (inp ['x']) [] = .ok (inp ['x']) [] ∧
    spec g1 uni0 1 false (.skip [[]]) (inp ['x']) [] = .ok (inp ['x']) [] := by decide

/-- Inlining: `lit = { "ab" | end }`, `end = { "c" }`, `r = @{ (!(lit | "d") ~ ANY)* }`. -/
def raw2 : PExpr := .rep (.seq (.negPred (.choice (.ident "lit") (.str ['d']))) (.ident "ANY"))
def g2 : PGrammar :=
  [⟨"lit", .normal, .choice (.str ['a', 'b']) (.ident "end")⟩, ⟨"end", .normal, .str ['c']⟩, ⟨"r", .atomic, raw2⟩]

example : skipExpr g2 .atomic raw2 = .skip [['a', 'b'], ['c'], ['d']] := by decide

example (name : String) (na : Bool) :
    SpecEquiv g2 g2 uni0 (bodyNa name .atomic na) raw2 (.skip [['a', 'b'], ['c'], ['d']]) :=
  skipExpr_equiv_body g2 uni0 (by decide) (by decide) name .atomic na raw2

/-- NOT sound under `na = true`: with `WHITESPACE = " "` the raw loop skips blanks between `!x` and
`ANY` and between iterations (and gives the last skip back), `Skip` does not: on `"a b"` the raw form
stops after `a` (the blank is skipped, then `!"b"` fails and the skip is undone), `Skip` stops before `b`. -/
def rawW : PExpr := .rep (.seq (.negPred (.str ['b'])) (.ident "ANY"))
def gW : PGrammar := [⟨"WHITESPACE", .normal, .str [' ']⟩, ⟨"r", .atomic, rawW⟩]

example : skipExpr gW .atomic rawW = .skip [['b']] := by decide

theorem skip_unsound_nonatomic : ¬ SpecEquiv gW gW uni0 true rawW (.skip [['b']]) := fun h =>
  absurd (h.agree 9 1 (inp ['a', ' ', 'b']) [] (by decide) (by decide)) (by decide)

example : spec gW uni0 9 true rawW (inp ['a', ' ', 'b']) [] = .ok ⟨0, 1, [' ', 'b'], []⟩ [] ∧
    spec gW uni0 1 true (.skip [['b']]) (inp ['a', ' ', 'b']) [] = .ok ⟨0, 2, ['b'], []⟩ [] := by decide

/-- in the atomic context of the same grammar the two agree. -/
example : SpecEquiv gW gW uni0 false rawW (.skip [['b']]) :=
  skipExpr_equiv gW uni0 (by decide) (by decide) .atomic rawW

/-- NOT sound with duplicate rule names: the optimizer's map keeps the LAST `x`, the semantics runs the
FIRST (pest's front end rejects duplicates in `validate_pairs`, which pest-typed's derive skips). -/
def rawD : PExpr := .rep (.seq (.negPred (.ident "x")) (.ident "ANY"))
def gD : PGrammar := [⟨"x", .normal, .str ['a']⟩, ⟨"x", .normal, .str ['b']⟩, ⟨"r", .atomic, rawD⟩]

example : skipExpr gD .atomic rawD = .skip [['b']] := by decide

theorem skip_unsound_duplicates : ¬ SpecEquiv gD gD uni0 false rawD (skipExpr gD .atomic rawD) := fun h =>
  absurd (h.agree 9 1 (inp ['a', 'b']) [] (by decide) (by decide)) (by decide)

/-- NOT sound when the grammar defines a rule called `ANY` (the skipper tests the NAME only). -/
def rawA : PExpr := .rep (.seq (.negPred (.str ['b'])) (.ident "ANY"))
def gA : PGrammar := [⟨"ANY", .normal, .str ['a']⟩, ⟨"r", .atomic, rawA⟩]

theorem skip_unsound_any_defined : ¬ SpecEquiv gA gA uni0 false rawA (skipExpr gA .atomic rawA) := fun h =>
  absurd (h.agree 9 1 (inp ['a', 'c', 'b']) [] (by decide) (by decide)) (by decide)

end PestOptSkip.Ex

end PestTyped
