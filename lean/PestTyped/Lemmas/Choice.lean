/-
Lemmas.Choice — helper lemmas for Props/C17 and Props/C04: exact characterisations of the loops
(`choiceLoop`, `seqLoop`, `skipLoop`, `repLoop`) by explicit run relations, the helper chain of
`choices_helper!`, what the input primitives consume, and result projections for examples.
-/
import PestTyped.Model.Access
import PestTyped.Lemmas.CursorRun
import PestTyped.Lemmas.ResProj
namespace PestTyped

/-! ### result projections (used by the `decide` examples; `Res` and `Val` have no `DecidableEq`) -/

def Res.val? {σ α} : Res σ α → Option α
  | .ok _ _ a => some a
  | _ => none

def Res.rest? {σ α} : Res σ α → Option (List Char)
  | .ok i _ _ => some i.rest
  | _ => none

-- `Res.isOk`, `Res.isFail`: see `Lemmas/ResProj`.

/-! ### `choiceLoop` -/

/-- `FailChain f i alts m m'`: every alternative of `alts`, tried in order at the same cursor `i`,
each one started with the stack `m.stk` and the tracker its predecessor left, FAILS; `m'` is the
state after the last of them (stack put back by `restore_on_none`). -/
inductive FailChain {α} (f : Node → Inp → M → R α) (i : Inp) : List Node → M → M → Prop
  | nil (m : M) : FailChain f i [] m m
  | cons {n : Node} {ns : List Node} {m mf m' : M} :
      f n i m = .fail mf → FailChain f i ns { mf with stk := m.stk } m' → FailChain f i (n :: ns) m m'

theorem FailChain.stk_eq {α} {f : Node → Inp → M → R α} {i : Inp} {alts : List Node} {m m' : M}
    (h : FailChain f i alts m m') : m'.stk = m.stk := by
  induction h with
  | nil => rfl
  | cons _ _ ih => exact ih

/-- Every member of a fail chain failed at cursor `i` from a state with the original stack. -/
theorem FailChain.each {α} {f : Node → Inp → M → R α} {i : Inp} {alts : List Node} {m m' : M}
    (h : FailChain f i alts m m') :
    ∀ (j : Nat) (n : Node), alts[j]? = some n → ∃ mj mf, mj.stk = m.stk ∧ f n i mj = .fail mf := by
  induction h with
  | nil => intro j n hj; simp at hj
  | @cons a as m0 mf m1 hf _ ih =>
    intro j n hj
    cases j with
    | zero => simp at hj; subst hj; exact ⟨m0, mf, rfl, hf⟩
    | succ j =>
      simp at hj
      obtain ⟨mj, mf', hs, hh⟩ := ih j n hj
      exact ⟨mj, mf', hs, hh⟩

theorem FailChain.append {α} {f : Node → Inp → M → R α} {i : Inp} {as bs : List Node} {m m1 m2 : M}
    (h1 : FailChain f i as m m1) (h2 : FailChain f i bs m1 m2) : FailChain f i (as ++ bs) m m2 := by
  induction h1 with
  | nil => exact h2
  | cons hf _ ih => exact FailChain.cons hf (ih h2)

/-- The states of a fail chain are functions of the start state. -/
theorem FailChain.det {α} {f : Node → Inp → M → R α} {i : Inp} {alts : List Node} {m m1 m2 : M}
    (h1 : FailChain f i alts m m1) (h2 : FailChain f i alts m m2) : m1 = m2 := by
  induction h1 with
  | nil => cases h2; rfl
  | cons hf _ ih =>
    cases h2 with
    | cons hf' h2' =>
      rw [hf] at hf'; injection hf' with hf'; subst hf'
      exact ih h2'

/-- Exact characterisation of a successful `choiceLoop`. -/
theorem choiceLoop_ok_iff {α} (f : Node → Inp → M → R α) :
    ∀ (alts : List Node) (k0 : Nat) (i : Inp) (m : M) (i' : Inp) (m' : M) (k : Nat) (v : α),
      choiceLoop f alts k0 i m = .ok i' m' (k, v) ↔
        ∃ pre n post mk, alts = pre ++ n :: post ∧ k = k0 + pre.length ∧
          FailChain f i pre m mk ∧ f n i mk = .ok i' m' v := by
  intro alts
  induction alts with
  | nil =>
    intro k0 i m i' m' k v
    constructor
    · intro h; simp [choiceLoop] at h
    · rintro ⟨pre, n, post, mk, h, _⟩; simp at h
  | cons a as ih =>
    intro k0 i m i' m' k v
    unfold choiceLoop
    cases hf : f a i m with
    | oof =>
      simp only [restoreOnNone]
      constructor
      · intro h; cases h
      · rintro ⟨pre, n, post, mk, h, _, hc, hok⟩
        cases pre with
        | nil =>
          simp at h; obtain ⟨rfl, rfl⟩ := h
          cases hc; rw [hf] at hok; cases hok
        | cons p ps =>
          simp at h; obtain ⟨rfl, rfl⟩ := h
          cases hc with
          | cons h1 _ => rw [hf] at h1; cases h1
    | ok i1 m1 a1 =>
      simp only [restoreOnNone]
      constructor
      · intro h
        injection h with h1 h2 h3
        injection h3 with h3 h4
        subst h1 h2 h3 h4
        exact ⟨[], a, as, m, rfl, rfl, FailChain.nil m, hf⟩
      · rintro ⟨pre, n, post, mk, h, hk, hc, hok⟩
        cases pre with
        | nil =>
          simp at h; obtain ⟨rfl, rfl⟩ := h
          cases hc; rw [hf] at hok
          injection hok with h1 h2 h3
          subst h1 h2 h3
          simp at hk; subst hk; rfl
        | cons p ps =>
          simp at h; obtain ⟨rfl, rfl⟩ := h
          cases hc with
          | cons h1 _ => rw [hf] at h1; cases h1
    | fail mf =>
      simp only [restoreOnNone]
      rw [ih]
      constructor
      · rintro ⟨pre, n, post, mk, h, hk, hc, hok⟩
        refine ⟨a :: pre, n, post, mk, by rw [h]; rfl, ?_, FailChain.cons hf hc, hok⟩
        simp; omega
      · rintro ⟨pre, n, post, mk, h, hk, hc, hok⟩
        cases pre with
        | nil =>
          simp at h; obtain ⟨rfl, rfl⟩ := h
          cases hc; rw [hf] at hok; cases hok
        | cons p ps =>
          simp at h; obtain ⟨rfl, rfl⟩ := h
          cases hc with
          | cons h1 h2 =>
            rw [hf] at h1; injection h1 with h1; subst h1
            refine ⟨ps, n, post, mk, rfl, ?_, h2, hok⟩
            simp at hk; omega

/-- A `choiceLoop` fails exactly when every alternative fails. -/
theorem choiceLoop_fail_iff {α} (f : Node → Inp → M → R α) :
    ∀ (alts : List Node) (k0 : Nat) (i : Inp) (m m' : M),
      choiceLoop f alts k0 i m = .fail m' ↔ FailChain f i alts m m' := by
  intro alts
  induction alts with
  | nil =>
    intro k0 i m m'
    constructor
    · intro h; simp [choiceLoop] at h; subst h; exact FailChain.nil _
    · intro h; cases h; rfl
  | cons a as ih =>
    intro k0 i m m'
    unfold choiceLoop
    cases hf : f a i m with
    | oof =>
      simp only [restoreOnNone]
      constructor
      · intro h; cases h
      · intro h; cases h with | cons h1 _ => rw [hf] at h1; cases h1
    | ok i1 m1 a1 =>
      simp only [restoreOnNone]
      constructor
      · intro h; cases h
      · intro h; cases h with | cons h1 _ => rw [hf] at h1; cases h1
    | fail mf =>
      simp only [restoreOnNone]
      rw [ih]
      constructor
      · intro h; exact FailChain.cons hf h
      · intro h
        cases h with
        | cons h1 h2 => rw [hf] at h1; injection h1 with h1; subst h1; exact h2

/-! ### the helper chain -/

theorem chainGo_res {ρ : Type} : ∀ (fs : List (Val → ρ)) (level : Nat) (r : ρ),
    fs ≠ [] → chainGo level fs (.res r) = some r := by
  intro fs
  induction fs with
  | nil => intro level r h; exact absurd rfl h
  | cons f fs ih =>
    intro level r _
    cases fs with
    | nil => rfl
    | cons f' fs' =>
      simp only [chainGo, Helper.elseIf]
      exact ih _ _ (by simp)

theorem chainGo_branch {ρ : Type} : ∀ (fs : List (Val → ρ)) (level idx : Nat) (v : Val) (f : Val → ρ),
    level ≤ idx → fs[idx - level]? = some f → chainGo level fs (.branch idx v) = some (f v) := by
  intro fs
  induction fs with
  | nil => intro level idx v f _ h; simp at h
  | cons f0 fs ih =>
    intro level idx v f hle hf
    cases fs with
    | nil =>
      have : idx - level = 0 := by
        cases hd : idx - level with
        | zero => rfl
        | succ d => rw [hd] at hf; simp at hf
      rw [this] at hf; simp at hf; subst hf
      have : idx = level := by omega
      subst this
      simp [chainGo, Helper.elseThen]
    | cons f' fs' =>
      simp only [chainGo, Helper.elseIf]
      by_cases he : idx = level
      · subst he
        simp at hf; subst hf
        simp only [if_true]
        exact chainGo_res _ _ _ (by simp)
      · simp only [he, if_false]
        have h1 : idx - level = (idx - (level + 1)) + 1 := by omega
        rw [h1] at hf
        simp only [List.getElem?_cons_succ] at hf
        exact ih (level + 1) idx v f (by omega) hf

theorem chainGoL_res {ρ : Type} : ∀ (fs : List (Val → ρ)) (level : Nat) (r : ρ) (log : List (Nat × Val)),
    fs ≠ [] → chainGoL level fs (.res r, log) = some (r, log) := by
  intro fs
  induction fs with
  | nil => intro level r log h; exact absurd rfl h
  | cons f fs ih =>
    intro level r log _
    cases fs with
    | nil => rfl
    | cons f' fs' =>
      simp only [chainGoL, Helper.elseIfL]
      exact ih _ _ _ (by simp)

theorem chainGoL_branch {ρ : Type} :
    ∀ (fs : List (Val → ρ)) (level idx : Nat) (v : Val) (f : Val → ρ) (log : List (Nat × Val)),
      level ≤ idx → fs[idx - level]? = some f →
        chainGoL level fs (.branch idx v, log) = some (f v, log ++ [(idx, v)]) := by
  intro fs
  induction fs with
  | nil => intro level idx v f log _ h; simp at h
  | cons f0 fs ih =>
    intro level idx v f log hle hf
    cases fs with
    | nil =>
      have : idx - level = 0 := by
        cases hd : idx - level with
        | zero => rfl
        | succ d => rw [hd] at hf; simp at hf
      rw [this] at hf; simp at hf; subst hf
      have : idx = level := by omega
      subst this
      simp [chainGoL, Helper.elseThenL]
    | cons f' fs' =>
      simp only [chainGoL, Helper.elseIfL]
      by_cases he : idx = level
      · subst he
        simp at hf; subst hf
        simp only [if_true]
        exact chainGoL_res _ _ _ _ (by simp)
      · simp only [he, if_false]
        have h1 : idx - level = (idx - (level + 1)) + 1 := by omega
        rw [h1] at hf
        simp only [List.getElem?_cons_succ] at hf
        exact ih (level + 1) idx v f log (by omega) hf

/-! ### observed elements / iterations -/

/-- One element of a sequence / one iteration of a repetition as it ran: the cursor before the
skip runs, the cursor where the element itself starts, the cursor after it, the skip values and
the matched value. -/
structure Iter where
  start : Inp
  mid : Inp
  stop : Inp
  skips : List Val
  matched : Val

/-- The `Skipped { skipped, matched }` value built for it. -/
def Iter.val (it : Iter) : Val := mkSkipped it.skips it.matched

theorem matched?_mkSkipped (sks : List Val) (v : Val) : (mkSkipped sks v).matched? = some v := by
  simp [mkSkipped, Val.matched?]

theorem skips?_mkSkipped (sks : List Val) (v : Val) : (mkSkipped sks v).skips? = some sks := by
  simp [mkSkipped, Val.skips?]

theorem skippedPair?_mkSkipped (sks : List Val) (v : Val) :
    (mkSkipped sks v).skippedPair? = some (sks, v) := by
  simp [Val.skippedPair?, matched?_mkSkipped, skips?_mkSkipped]

theorem filterMap_matched_iters (l : List Iter) :
    (l.map Iter.val).filterMap Val.matched? = l.map Iter.matched := by
  induction l with
  | nil => rfl
  | cons it l ih => simp [Iter.val, matched?_mkSkipped, ih]

theorem filterMap_pair_iters (l : List Iter) :
    (l.map Iter.val).filterMap Val.skippedPair? = l.map (fun it => (it.skips, it.matched)) := by
  induction l with
  | nil => rfl
  | cons it l ih => simp [Iter.val, skippedPair?_mkSkipped, ih]

/-! ### `skipLoop` -/

theorem skipLoop_length {α} (f : Inp → M → R α) :
    ∀ k i m acc i' m' out, skipLoop f k i m acc = .ok i' m' out → out.length = acc.length + k := by
  intro k
  induction k with
  | zero => intro i m acc i' m' out h; simp [skipLoop] at h; rw [← h.2.2]; simp
  | succ k ih =>
    intro i m acc i' m' out h
    unfold skipLoop at h
    split at h
    · cases h
    · cases h
    · have := ih _ _ _ _ _ _ h; simp at this; omega

/-! ### `seqLoop` -/

/-- `SeqRun f skip ns i m l i' m'`: the elements `ns` run one after the other from `(i, m)` to
`(i', m')`, each preceded by one call of `skip`; `l` records them in order. -/
inductive SeqRun (f : Node → Inp → M → R Val) (skip : Inp → M → R (List Val)) :
    List Node → Inp → M → List Iter → Inp → M → Prop
  | nil (i : Inp) (m : M) : SeqRun f skip [] i m [] i m
  | cons {n : Node} {ns : List Node} {i i1 i2 i' : Inp} {m m1 m2 m' : M} {sks : List Val} {v : Val}
      {l : List Iter} :
      skip i m = .ok i1 m1 sks → f n i1 m1 = .ok i2 m2 v → SeqRun f skip ns i2 m2 l i' m' →
      SeqRun f skip (n :: ns) i m (⟨i, i1, i2, sks, v⟩ :: l) i' m'

theorem seqLoop_ok_iff (f : Node → Inp → M → R Val) (skip : Inp → M → R (List Val)) :
    ∀ (ns : List Node) (i : Inp) (m : M) (acc : List Val) (i' : Inp) (m' : M) (out : List Val),
      seqLoop f skip mkSkipped ns i m acc = .ok i' m' out ↔
        ∃ l, SeqRun f skip ns i m l i' m' ∧ out = acc.reverse ++ l.map Iter.val := by
  intro ns
  induction ns with
  | nil =>
    intro i m acc i' m' out
    simp only [seqLoop]
    constructor
    · intro h
      injection h with h1 h2 h3; subst h1 h2 h3
      exact ⟨[], SeqRun.nil _ _, by simp⟩
    · rintro ⟨l, hr, ho⟩
      cases hr; subst ho; simp
  | cons n ns ih =>
    intro i m acc i' m' out
    unfold seqLoop
    cases hs : skip i m with
    | oof =>
      constructor
      · intro h; cases h
      · rintro ⟨l, hr, _⟩; cases hr with | cons h1 _ _ => rw [hs] at h1; cases h1
    | fail mf =>
      constructor
      · intro h; cases h
      · rintro ⟨l, hr, _⟩; cases hr with | cons h1 _ _ => rw [hs] at h1; cases h1
    | ok i1 m1 sks =>
      simp only []
      cases hf : f n i1 m1 with
      | oof =>
        constructor
        · intro h; cases h
        · rintro ⟨l, hr, _⟩
          cases hr with
          | cons h1 h2 _ =>
            rw [hs] at h1; injection h1 with a b c; subst a b c
            rw [hf] at h2; cases h2
      | fail mf =>
        constructor
        · intro h; cases h
        · rintro ⟨l, hr, _⟩
          cases hr with
          | cons h1 h2 _ =>
            rw [hs] at h1; injection h1 with a b c; subst a b c
            rw [hf] at h2; cases h2
      | ok i2 m2 v =>
        simp only []
        rw [ih]
        constructor
        · rintro ⟨l, hr, ho⟩
          refine ⟨⟨i, i1, i2, sks, v⟩ :: l, SeqRun.cons hs hf hr, ?_⟩
          rw [ho]; simp [Iter.val]
        · rintro ⟨l, hr, ho⟩
          cases hr with
          | cons h1 h2 h3 =>
            rw [hs] at h1; injection h1 with a b c; subst a b c
            rw [hf] at h2; injection h2 with a b c; subst a b c
            refine ⟨_, h3, ?_⟩
            rw [ho]; simp [Iter.val]

theorem SeqRun.length {f : Node → Inp → M → R Val} {skip : Inp → M → R (List Val)}
    {ns : List Node} {i i' : Inp} {m m' : M} {l : List Iter}
    (h : SeqRun f skip ns i m l i' m') : l.length = ns.length := by
  induction h with
  | nil => rfl
  | cons _ _ _ ih => simp [ih]

/-- Element `j` of the trace is the run of element `j` of the node list. -/
theorem SeqRun.getElem {f : Node → Inp → M → R Val} {skip : Inp → M → R (List Val)}
    {ns : List Node} {i i' : Inp} {m m' : M} {l : List Iter}
    (h : SeqRun f skip ns i m l i' m') :
    ∀ (j : Nat) (n : Node) (it : Iter), ns[j]? = some n → l[j]? = some it →
      ∃ mj mj1 mj2, skip it.start mj = .ok it.mid mj1 it.skips ∧
        f n it.mid mj1 = .ok it.stop mj2 it.matched := by
  induction h with
  | nil => intro j n it hn; simp at hn
  | cons h1 h2 _ ih =>
    intro j n it hn hl
    cases j with
    | zero =>
      simp at hn hl; subst hn hl
      exact ⟨_, _, _, h1, h2⟩
    | succ j =>
      simp at hn hl
      exact ih j n it hn hl

/-- Cursor order of a sequence run. -/
theorem SeqRun.order {f : Node → Inp → M → R Val} {skip : Inp → M → R (List Val)}
    (hf : ∀ n, AdvFn (f n)) (hs : AdvFn skip)
    {ns : List Node} {i i' : Inp} {m m' : M} {l : List Iter}
    (h : SeqRun f skip ns i m l i' m') :
    i.Adv i' ∧
    (∀ it, it ∈ l → i.Adv it.start ∧ it.start.Adv it.mid ∧ it.mid.Adv it.stop ∧ it.stop.Adv i') ∧
    l.Pairwise (fun a b => a.stop.Adv b.start) := by
  induction h with
  | nil => exact ⟨Inp.Adv.refl _, (by intro it h; cases h), List.Pairwise.nil⟩
  | @cons n ns i i1 i2 i' m m1 m2 m' sks v l h1 h2 _ ih =>
    obtain ⟨ha, hall, hp⟩ := ih
    have a1 := hs _ _ _ _ _ h1
    have a2 := hf n _ _ _ _ _ h2
    refine ⟨(a1.trans a2).trans ha, ?_, ?_⟩
    · intro it hit
      cases hit with
      | head => exact ⟨Inp.Adv.refl _, a1, a2, ha⟩
      | tail _ hit =>
        obtain ⟨b1, b2, b3, b4⟩ := hall it hit
        exact ⟨(a1.trans a2).trans b1, b2, b3, b4⟩
    · refine List.Pairwise.cons ?_ hp
      intro b hb
      exact (hall b hb).1

/-! ### `repLoop` over `repUnitP` -/

theorem repUnitP_ok {skipf body : Inp → M → R Val} {dflt : Val} {k idx : Nat} {i i1 : Inp} {m m1 : M} {a : Val}
    (h : repUnitP skipf body dflt k idx i m = .ok i1 m1 a) :
    (idx = 0 ∧ ∃ v, body i m = .ok i1 m1 v ∧ a = mkSkipped (List.replicate k dflt) v) ∨
    (idx ≠ 0 ∧ ∃ i0 m0 sks v, skipLoop skipf k i m [] = .ok i0 m0 sks ∧ body i0 m0 = .ok i1 m1 v ∧
      a = mkSkipped sks v) := by
  unfold repUnitP at h
  split at h
  · next h0 =>
    split at h
    · cases h
    · cases h
    · next i2 m2 v hb =>
      injection h with a1 a2 a3; subst a1 a2 a3
      exact Or.inl ⟨h0, v, hb, rfl⟩
  · next h0 =>
    split at h
    · cases h
    · cases h
    · next i0 m0 sks hsk =>
      split at h
      · cases h
      · cases h
      · next i2 m2 v hb =>
        injection h with a1 a2 a3; subst a1 a2 a3
        exact Or.inr ⟨h0, i0, m0, sks, v, hsk, hb, rfl⟩

/-- `RepRun skip body dflt idx i m l i' m'`: successful iterations number `idx, idx+1, …` run one
after the other from `(i, m)` to `(i', m')`; iteration 0 runs no skip and carries the default skip
values, every later one is preceded by one call of `skip`; `l` records them in order. -/
inductive RepRun (skip : Inp → M → R (List Val)) (body : Inp → M → R Val) (dflt : List Val) :
    Nat → Inp → M → List Iter → Inp → M → Prop
  | nil (idx : Nat) (i : Inp) (m : M) : RepRun skip body dflt idx i m [] i m
  | first {i i1 i' : Inp} {m m1 m' : M} {v : Val} {l : List Iter} :
      body i m = .ok i1 m1 v → RepRun skip body dflt 1 i1 m1 l i' m' →
      RepRun skip body dflt 0 i m (⟨i, i, i1, dflt, v⟩ :: l) i' m'
  | next {idx : Nat} {i i0 i1 i' : Inp} {m m0 m1 m' : M} {sks : List Val} {v : Val} {l : List Iter} :
      idx ≠ 0 → skip i m = .ok i0 m0 sks → body i0 m0 = .ok i1 m1 v →
      RepRun skip body dflt (idx+1) i1 m1 l i' m' →
      RepRun skip body dflt idx i m (⟨i, i0, i1, sks, v⟩ :: l) i' m'

/-- What a successful `repLoop` over `try_parse_unit` did. -/
theorem repLoop_unitP_ok (skipf body : Inp → M → R Val) (dflt : Val) (k min : Nat) (max : Option Nat) :
    ∀ (budget idx : Nat) (i : Inp) (m : M) (acc : List Val) (i' : Inp) (m' : M) (out : List Val),
      acc.length = idx →
      repLoop (repUnitP skipf body dflt k) min max budget idx i m acc = .ok i' m' out →
        ∃ l mL, RepRun (fun i m => skipLoop skipf k i m []) body (List.replicate k dflt) idx i m l i' mL ∧
          out = acc.reverse ++ l.map Iter.val ∧ min ≤ idx + l.length ∧
          (∀ mx, max = some mx → idx ≤ mx → idx + l.length ≤ mx) ∧
          ((max = some (idx + l.length) ∧ m' = mL) ∨
           (max ≠ some (idx + l.length) ∧ ∃ mf, repUnitP skipf body dflt k (idx + l.length) i' mL = .fail mf ∧
              m' = { mf with stk := mL.stk })) := by
  intro budget
  induction budget with
  | zero => intro idx i m acc i' m' out _ h; simp [repLoop] at h
  | succ b ih =>
    intro idx i m acc i' m' out hlen h
    unfold repLoop at h
    split at h
    · next hmax =>
      rw [hmax, repDone_some] at h
      split at h
      · cases h
      · next hmin =>
        injection h with a1 a2 a3; subst a1 a2 a3
        refine ⟨[], m, RepRun.nil _ _ _, by simp, by simp; omega, ?_, Or.inl ⟨by simpa using hmax, rfl⟩⟩
        intro mx _ h2; simpa using h2
    · next hmax =>
      cases hu : repUnitP skipf body dflt k idx i m with
      | oof => rw [hu] at h; simp [restoreOnNone] at h
      | fail mf =>
        rw [hu] at h; simp only [restoreOnNone] at h
        split at h
        · cases h
        · next hmin =>
          obtain ⟨a1, a2, a3⟩ := repDone_ok h; subst a1 a2 a3
          refine ⟨[], m, RepRun.nil _ _ _, by simp, by simp; omega, ?_,
            Or.inr ⟨by simpa using hmax, mf, by simpa using hu, rfl⟩⟩
          intro mx _ h2; simpa using h2
      | ok i1 m1 a =>
        rw [hu] at h; simp only [restoreOnNone] at h
        obtain ⟨l, mL, hr, ho, hmin, hmx, hstop⟩ := ih _ _ _ _ _ _ _
          (by simp only [List.length_cons, hlen]) h
        have e : idx + 1 + l.length = idx + (l.length + 1) := by omega
        rw [e] at hmin hstop
        rcases repUnitP_ok hu with ⟨h0, v, hb, ha⟩ | ⟨h0, i0, m0, sks, v, hsk, hb, ha⟩
        · subst h0 ha
          refine ⟨_ :: l, mL, RepRun.first hb hr, ?_, by simpa using hmin, ?_, by simpa using hstop⟩
          · rw [ho]; simp [Iter.val]
          · intro mx h1 h2
            have : 0 ≠ mx := by intro hh; subst hh; exact hmax h1
            have := hmx mx h1 (by omega)
            simp; omega
        · subst ha
          refine ⟨_ :: l, mL, RepRun.next h0 hsk hb hr, ?_, by simpa using hmin, ?_, by simpa using hstop⟩
          · rw [ho]; simp [Iter.val]
          · intro mx h1 h2
            have : idx ≠ mx := by intro hh; subst hh; exact hmax h1
            have := hmx mx h1 (by omega)
            simp; omega

/-- Cursor order of a repetition run. -/
theorem RepRun.order {skip : Inp → M → R (List Val)} {body : Inp → M → R Val} {dflt : List Val}
    (hs : AdvFn skip) (hb : AdvFn body)
    {idx : Nat} {i i' : Inp} {m m' : M} {l : List Iter}
    (h : RepRun skip body dflt idx i m l i' m') :
    i.Adv i' ∧
    (∀ it, it ∈ l → i.Adv it.start ∧ it.start.Adv it.mid ∧ it.mid.Adv it.stop ∧ it.stop.Adv i') ∧
    l.Pairwise (fun a b => a.stop.Adv b.start) := by
  induction h with
  | nil => exact ⟨Inp.Adv.refl _, (by intro it h; cases h), List.Pairwise.nil⟩
  | first h2 _ ih =>
    obtain ⟨ha, hall, hp⟩ := ih
    have a2 := hb _ _ _ _ _ h2
    refine ⟨a2.trans ha, ?_, ?_⟩
    · intro it hit
      cases hit with
      | head => exact ⟨Inp.Adv.refl _, Inp.Adv.refl _, a2, ha⟩
      | tail _ hit =>
        obtain ⟨b1, b2, b3, b4⟩ := hall it hit
        exact ⟨a2.trans b1, b2, b3, b4⟩
    · refine List.Pairwise.cons ?_ hp
      intro b hb'
      exact (hall b hb').1
  | next _ h1 h2 _ ih =>
    obtain ⟨ha, hall, hp⟩ := ih
    have a1 := hs _ _ _ _ _ h1
    have a2 := hb _ _ _ _ _ h2
    refine ⟨(a1.trans a2).trans ha, ?_, ?_⟩
    · intro it hit
      cases hit with
      | head => exact ⟨Inp.Adv.refl _, a1, a2, ha⟩
      | tail _ hit =>
        obtain ⟨b1, b2, b3, b4⟩ := hall it hit
        exact ⟨(a1.trans a2).trans b1, b2, b3, b4⟩
    · refine List.Pairwise.cons ?_ hp
      intro b hb'
      exact (hall b hb').1

/-- The first recorded iteration of a run from index 0 carries the default skips and no skip ran;
every other recorded iteration ran the skip. -/
theorem RepRun.skips {skip : Inp → M → R (List Val)} {body : Inp → M → R Val} {dflt : List Val}
    {idx : Nat} {i i' : Inp} {m m' : M} {l : List Iter}
    (h : RepRun skip body dflt idx i m l i' m') :
    ∀ (j : Nat) (it : Iter), l[j]? = some it →
      ∃ mj mj1 mj2, body it.mid mj1 = .ok it.stop mj2 it.matched ∧
        ((idx + j = 0 ∧ it.skips = dflt ∧ it.mid = it.start ∧ mj1 = mj) ∨
         (idx + j ≠ 0 ∧ skip it.start mj = .ok it.mid mj1 it.skips)) := by
  induction h with
  | nil => intro j it hl; simp at hl
  | first h2 _ ih =>
    intro j it hl
    cases j with
    | zero => simp at hl; subst hl; exact ⟨_, _, _, h2, Or.inl ⟨rfl, rfl, rfl, rfl⟩⟩
    | succ j =>
      simp at hl
      obtain ⟨a, b, c, h3, h4⟩ := ih j it hl
      refine ⟨a, b, c, h3, ?_⟩
      rcases h4 with ⟨h5, _⟩ | h5
      · omega
      · exact Or.inr ⟨by omega, h5.2⟩
  | @next idx _ _ _ _ _ _ _ _ _ _ _ h0 h1 h2 _ ih =>
    intro j it hl
    cases j with
    | zero => simp at hl; subst hl; exact ⟨_, _, _, h2, Or.inr ⟨by simpa using h0, h1⟩⟩
    | succ j =>
      simp at hl
      obtain ⟨a, b, c, h3, h4⟩ := ih j it hl
      refine ⟨a, b, c, h3, ?_⟩
      rcases h4 with ⟨h5, _⟩ | h5
      · omega
      · exact Or.inr ⟨by omega, h5.2⟩

/-! ### what the input primitives consume -/

theorem Inp.Adv.spanTo_spec {i i' : Inp} (h : i.Adv i') :
    (i.spanTo i').txt ++ i'.rest = i.rest ∧ (i.spanTo i').s = i.pos ∧ (i.spanTo i').e = i'.pos ∧
      i'.pos = i.pos + blen (i.spanTo i').txt := by
  obtain ⟨k, hk, rfl⟩ := h
  have e : i.rest.length - (i.rest.length - k) = k := by omega
  simp [Inp.spanTo, Inp.adv, e]

theorem Inp.Adv.of_rest_nil {i i' : Inp} (h : i.Adv i') (h0 : i.rest = []) : i' = i := by
  obtain ⟨k, hk, rfl⟩ := h
  rw [h0] at hk
  have : k = 0 := by simpa using hk
  subst this; exact Inp.adv_zero i

theorem Inp.matchString_spec {s : List Char} {i i' : Inp} (h : i.matchString s = some i') :
    i.rest = s ++ i'.rest ∧ (i.spanTo i').txt = s := by
  unfold Inp.matchString at h
  split at h
  · next hp =>
    injection h with h; subst h
    obtain ⟨t, ht⟩ := List.isPrefixOf_iff_prefix.mp hp
    simp only [Inp.spanTo, Inp.adv]
    rw [← ht]; simp
  · cases h

theorem Inp.matchCharBy_spec {p : Char → Bool} {i i' : Inp} {c : Char}
    (h : i.matchCharBy p = some (i', c)) : i.rest = c :: i'.rest ∧ p c = true := by
  unfold Inp.matchCharBy at h
  split at h
  · cases h
  · next c' cs hr =>
    split at h
    · next hp =>
      injection h with h; injection h with h1 h2; subst h1 h2
      simp [Inp.adv, hr, hp]
    · cases h

theorem takeBytes_blen : ∀ (l : List Char) (n : Nat) (p : List Char), takeBytes n l = some p → blen p = n := by
  intro l
  induction l with
  | nil =>
    intro n p h
    simp [takeBytes] at h
    obtain ⟨h1, rfl⟩ := h
    simp [blen, h1]
  | cons c cs ih =>
    intro n p h
    unfold takeBytes at h
    split at h
    · next h0 => injection h with h; subst h; simp [blen, h0]
    · split at h
      · next hle =>
        cases hr : takeBytes (n - c.utf8Size) cs with
        | none => simp [hr] at h
        | some q =>
          simp [hr] at h; subst h
          have := ih _ _ hr
          simp [blen, this]; omega
      · cases h

theorem Inp.matchInsens_spec {s : List Char} {i i' : Inp} (h : i.matchInsens s = some i') :
    (i.spanTo i').txt ++ i'.rest = i.rest ∧
      (i.spanTo i').txt.map asciiLower = s.map asciiLower ∧ blen (i.spanTo i').txt = blen s := by
  have hadv := Inp.matchInsens_adv h
  unfold Inp.matchInsens at h
  split at h
  · next p hp =>
    split at h
    · next heq =>
      injection h with h; subst h
      have hpre := takeBytes_prefix _ _ _ hp
      obtain ⟨t, ht⟩ := hpre
      have htxt : (i.spanTo (i.adv p.length)).txt = p := by
        simp only [Inp.spanTo, Inp.adv]
        rw [← ht]; simp
      refine ⟨hadv.spanTo_spec.1, ?_, ?_⟩
      · rw [htxt]; exact eq_of_beq heq
      · rw [htxt]; exact takeBytes_blen _ _ _ hp
    · cases h
  · cases h

theorem newlineMatch_spec {i i' : Inp} {k : Nat} (h : newlineMatch i = some (i', k)) :
    (k = 0 ∨ k = 1 ∨ k = 2) ∧ i.rest = newlineText k ++ i'.rest ∧
      (k = 2 → i.matchString ['\r', '\n'] = none) := by
  unfold newlineMatch at h
  split at h
  · next h1 =>
    injection h with h; injection h with h2 h3; subst h2 h3
    exact ⟨Or.inl rfl, (Inp.matchString_spec h1).1, by intro h; cases h⟩
  · next hn0 =>
    split at h
    · next h1 =>
      injection h with h; injection h with h2 h3; subst h2 h3
      exact ⟨Or.inr (Or.inl rfl), (Inp.matchString_spec h1).1, by intro h; cases h⟩
    · split at h
      · next h1 =>
        injection h with h; injection h with h2 h3; subst h2 h3
        exact ⟨Or.inr (Or.inr rfl), (Inp.matchString_spec h1).1, fun _ => hn0⟩
      · cases h

theorem peekSpans_spec : ∀ (sps : List Sp) (i i' : Inp), peekSpans sps i = some i' →
    i.rest = (sps.map Sp.txt).flatten ++ i'.rest := by
  intro sps
  induction sps with
  | nil => intro i i' h; simp [peekSpans] at h; subst h; simp
  | cons sp rest ih =>
    intro i i' h
    unfold peekSpans at h
    split at h
    · next i1 h1 =>
      have a := (Inp.matchString_spec h1).1
      have b := ih _ _ h
      rw [a, b]; simp
    · cases h

/-! ### fail chains with explicit states -/

/-- A fail chain is the same thing as a sequence of states `ms 0, ms 1, …` in which every
alternative fails from `ms j` and `ms (j+1)` is what it left with the stack put back. -/
theorem FailChain_iff_states {α} (f : Node → Inp → M → R α) (i : Inp) :
    ∀ (pre : List Node) (m mk : M),
      FailChain f i pre m mk ↔
        ∃ ms : Nat → M, ms 0 = m ∧ ms pre.length = mk ∧
          ∀ (j : Nat) (n : Node), pre[j]? = some n →
            ∃ mf, f n i (ms j) = .fail mf ∧ ms (j+1) = { mf with stk := (ms j).stk } := by
  intro pre
  induction pre with
  | nil =>
    intro m mk
    constructor
    · intro h; cases h
      exact ⟨fun _ => m, rfl, rfl, by intro j n hj; simp at hj⟩
    · rintro ⟨ms, h0, h1, _⟩
      simp at h1; rw [← h0, h1]; exact FailChain.nil _
  | cons a as ih =>
    intro m mk
    constructor
    · intro h
      cases h with
      | @cons _ _ _ mf _ hf ht =>
        obtain ⟨ms, h0, h1, hall⟩ := (ih _ _).mp ht
        refine ⟨fun j => match j with | 0 => m | j+1 => ms j, rfl, by simpa using h1, ?_⟩
        intro j n hj
        cases j with
        | zero =>
          simp at hj; subst hj
          exact ⟨mf, hf, by simp [h0]⟩
        | succ j =>
          simp at hj
          obtain ⟨mf', h2, h3⟩ := hall j n hj
          exact ⟨mf', h2, h3⟩
    · rintro ⟨ms, h0, h1, hall⟩
      obtain ⟨mf, hf, hn⟩ := hall 0 a (by simp)
      rw [h0] at hf hn
      refine FailChain.cons hf ((ih _ _).mpr ⟨fun j => ms (j+1), by simpa using hn, by simpa using h1, ?_⟩)
      intro j n hj
      exact hall (j+1) n (by simpa using hj)

/-! ### a whole `SeqN` -/

/-- A whole sequence: the first element runs without skips and carries the default skip values,
the others run as in `SeqRun`. -/
inductive SeqRunAll (f : Node → Inp → M → R Val) (skip : Inp → M → R (List Val)) (dflt : List Val) :
    List Node → Inp → M → List Iter → Inp → M → Prop
  | nil (i : Inp) (m : M) : SeqRunAll f skip dflt [] i m [] i m
  | cons {n0 : Node} {ns : List Node} {i i1 i' : Inp} {m m1 m' : M} {v0 : Val} {l : List Iter} :
      f n0 i m = .ok i1 m1 v0 → SeqRun f skip ns i1 m1 l i' m' →
      SeqRunAll f skip dflt (n0 :: ns) i m (⟨i, i, i1, dflt, v0⟩ :: l) i' m'

theorem SeqRunAll.length {f : Node → Inp → M → R Val} {skip : Inp → M → R (List Val)} {dflt : List Val}
    {ns : List Node} {i i' : Inp} {m m' : M} {l : List Iter}
    (h : SeqRunAll f skip dflt ns i m l i' m') : l.length = ns.length := by
  cases h with
  | nil => rfl
  | cons _ h2 => simp [h2.length]

theorem SeqRunAll.getElem {f : Node → Inp → M → R Val} {skip : Inp → M → R (List Val)} {dflt : List Val}
    {ns : List Node} {i i' : Inp} {m m' : M} {l : List Iter}
    (h : SeqRunAll f skip dflt ns i m l i' m') :
    ∀ (j : Nat) (n : Node) (it : Iter), ns[j]? = some n → l[j]? = some it →
      ∃ mj mj1 mj2, f n it.mid mj1 = .ok it.stop mj2 it.matched ∧
        ((j = 0 ∧ it.skips = dflt ∧ it.start = i ∧ it.mid = i ∧ mj1 = m) ∨
         (j ≠ 0 ∧ skip it.start mj = .ok it.mid mj1 it.skips)) := by
  cases h with
  | nil => intro j n it hn; simp at hn
  | cons h1 h2 =>
    intro j n it hn hl
    cases j with
    | zero =>
      simp at hn hl; subst hn hl
      exact ⟨m, _, _, h1, Or.inl ⟨rfl, rfl, rfl, rfl, rfl⟩⟩
    | succ j =>
      simp at hn hl
      obtain ⟨a, b, c, h3, h4⟩ := h2.getElem j n it hn hl
      exact ⟨a, b, c, h4, Or.inr ⟨by omega, h3⟩⟩

theorem SeqRunAll.order {f : Node → Inp → M → R Val} {skip : Inp → M → R (List Val)} {dflt : List Val}
    (hf : ∀ n, AdvFn (f n)) (hs : AdvFn skip)
    {ns : List Node} {i i' : Inp} {m m' : M} {l : List Iter}
    (h : SeqRunAll f skip dflt ns i m l i' m') :
    i.Adv i' ∧
    (∀ it, it ∈ l → i.Adv it.start ∧ it.start.Adv it.mid ∧ it.mid.Adv it.stop ∧ it.stop.Adv i') ∧
    l.Pairwise (fun a b => a.stop.Adv b.start) := by
  cases h with
  | nil => exact ⟨Inp.Adv.refl _, (by intro it h; cases h), List.Pairwise.nil⟩
  | cons h1 h2 =>
    obtain ⟨ha, hall, hp⟩ := h2.order hf hs
    have a2 := hf _ _ _ _ _ _ h1
    refine ⟨a2.trans ha, ?_, ?_⟩
    · intro it hit
      cases hit with
      | head => exact ⟨Inp.Adv.refl _, Inp.Adv.refl _, a2, ha⟩
      | tail _ hit =>
        obtain ⟨b1, b2, b3, b4⟩ := hall it hit
        exact ⟨a2.trans b1, b2, b3, b4⟩
    · refine List.Pairwise.cons ?_ hp
      intro b hb'
      exact (hall b hb').1

/-- Skip-value counts of a sequence run whose skip function is a `skipLoop` of `k` runs. -/
theorem SeqRun.skips_length {f : Node → Inp → M → R Val} {sf : Inp → M → R Val} {k : Nat}
    {ns : List Node} {i i' : Inp} {m m' : M} {l : List Iter}
    (h : SeqRun f (fun i m => skipLoop sf k i m []) ns i m l i' m') :
    ∀ it, it ∈ l → it.skips.length = k := by
  induction h with
  | nil => intro it h; cases h
  | cons h1 _ _ ih =>
    intro it hit
    cases hit with
    | head => simpa using skipLoop_length _ _ _ _ _ _ _ _ h1
    | tail _ hit => exact ih it hit

theorem RepRun.skips_length {sf : Inp → M → R Val} {body : Inp → M → R Val} {k : Nat} {d : Val}
    {idx : Nat} {i i' : Inp} {m m' : M} {l : List Iter}
    (h : RepRun (fun i m => skipLoop sf k i m []) body (List.replicate k d) idx i m l i' m') :
    ∀ it, it ∈ l → it.skips.length = k := by
  induction h with
  | nil => intro it h; cases h
  | first _ _ ih =>
    intro it hit
    cases hit with
    | head => simp
    | tail _ hit => exact ih it hit
  | next _ h1 _ _ ih =>
    intro it hit
    cases hit with
    | head => simpa using skipLoop_length _ _ _ _ _ _ _ _ h1
    | tail _ hit => exact ih it hit

/-! ### exactly one accessor -/

theorem filterMap_range_ite {β} (idx : Nat) (v : β) :
    ∀ n, (List.range n).filterMap (fun k => if idx = k then some v else none) =
      if idx < n then [v] else [] := by
  intro n
  induction n with
  | zero => simp
  | succ n ih =>
    rw [List.range_succ, List.filterMap_append, ih]
    by_cases h1 : idx < n
    · have : idx ≠ n := by omega
      simp [h1, this]; omega
    · by_cases h2 : idx = n
      · subst h2; simp
      · have : ¬ idx < n + 1 := by omega
        simp [h1, h2, this]

/-! ### skip types never fail; nothing moves at the end of input -/

/-- The shapes `generics::Skipped` can take (`genSkipped`): `AtomicRepeat<…>` or `Empty`
(`NeverFailedTypedNode`). -/
def IsSkipType (n : Node) : Prop := n = .empty ∨ ∃ x, n = .atomicRepeat x

theorem repLoop_min0_not_fail {α} (unit : Nat → Inp → M → R α) (max : Option Nat) :
    ∀ (budget idx : Nat) (i : Inp) (m : M) (acc : List α) (mf : M),
      repLoop unit 0 max budget idx i m acc ≠ .fail mf := by
  intro budget
  induction budget with
  | zero => intro idx i m acc mf h; simp [repLoop] at h
  | succ b ih =>
    intro idx i m acc mf h
    unfold repLoop at h
    split at h
    · rw [repDone_min0] at h; cases h
    · split at h
      · cases h
      · simp [repDone_min0] at h
      · exact ih _ _ _ _ _ h

theorem parse_skipType_not_fail (g : NodeGrammar) (uni : Uni) (fuel : Nat) (inh : Bool) (n : Node)
    (hn : IsSkipType n) (i : Inp) (m mf : M) : parse g uni fuel inh n i m ≠ .fail mf := by
  intro h
  cases fuel with
  | zero => cases h
  | succ fuel =>
    rcases hn with rfl | ⟨x, rfl⟩
    · simp [parse] at h
    · simp only [parse] at h
      split at h
      · cases h
      · next m1 h1 => exact repLoop_min0_not_fail _ _ _ _ _ _ _ _ h1
      · cases h

/-- At the end of the input a successful run leaves the cursor where it is. -/
theorem parse_at_end (g : NodeGrammar) (uni : Uni) (fuel : Nat) (inh : Bool) (n : Node)
    (i : Inp) (m : M) (i' : Inp) (m' : M) (v : Val) (h0 : i.rest = [])
    (h : parse g uni fuel inh n i m = .ok i' m' v) : i' = i :=
  (parse_adv g uni fuel inh n _ _ _ _ _ h).of_rest_nil h0

/-! ### the verdict does not depend on the tracker

The tracker is write-only as far as verdict, cursor, stack and value are concerned: running any
node from two states with the same stack gives the same result up to the tracker.  This is what
makes "alternative `j` matches at this position" a property of the cursor and the stack alone. -/

/-- A result with the tracker dropped: verdict, cursor, stack, value. -/
def Res.noTrk {α} : R α → Res (List Sp) α
  | .oof => .oof
  | .fail m => .fail m.stk
  | .ok i m a => .ok i m.stk a

@[simp] theorem Res.noTrk_oof {α} : (Res.oof : R α).noTrk = .oof := rfl
@[simp] theorem Res.noTrk_fail {α} (m : M) : (Res.fail m : R α).noTrk = .fail m.stk := rfl
@[simp] theorem Res.noTrk_ok {α} (i : Inp) (m : M) (a : α) : (Res.ok i m a : R α).noTrk = .ok i m.stk a := rfl

theorem noTrk_eq_cases {α} {r1 r2 : R α} (h : r1.noTrk = r2.noTrk) :
    (r1 = .oof ∧ r2 = .oof) ∨ (∃ m1 m2, r1 = .fail m1 ∧ r2 = .fail m2 ∧ m1.stk = m2.stk) ∨
    (∃ i m1 m2 a, r1 = .ok i m1 a ∧ r2 = .ok i m2 a ∧ m1.stk = m2.stk) := by
  cases r1 <;> cases r2 <;> simp [Res.noTrk] at h
  · exact Or.inl ⟨rfl, rfl⟩
  · exact Or.inr (Or.inl ⟨_, _, rfl, rfl, h⟩)
  · obtain ⟨rfl, hs, rfl⟩ := h; exact Or.inr (Or.inr ⟨_, _, _, _, rfl, rfl, hs⟩)

theorem noTrk_forget {α} (r : R α) : r.forget.noTrk = r.noTrk.forget := by
  cases r <;> rfl

/-- `f` gives the same result up to the tracker from states with the same stack. -/
def TrkIndep {α} (f : Inp → M → R α) : Prop :=
  ∀ i m1 m2, m1.stk = m2.stk → (f i m1).noTrk = (f i m2).noTrk

theorem skipLoop_noTrk {α} (f : Inp → M → R α) (hf : TrkIndep f) :
    ∀ k i m1 m2 acc, m1.stk = m2.stk → (skipLoop f k i m1 acc).noTrk = (skipLoop f k i m2 acc).noTrk := by
  intro k
  induction k with
  | zero => intro i m1 m2 acc h; simp [skipLoop, h]
  | succ k ih =>
    intro i m1 m2 acc h
    unfold skipLoop
    rcases noTrk_eq_cases (hf i m1 m2 h) with ⟨hc, hp⟩ | ⟨m1', m2', hc, hp, hs⟩ | ⟨i', m1', m2', a, hc, hp, hs⟩
    · rw [hc, hp]
    · rw [hc, hp]; simp [hs]
    · rw [hc, hp]; exact ih _ _ _ _ hs

theorem seqLoop_noTrk {α β} (f : Node → Inp → M → R α) (skip : Inp → M → R (List β)) (mk : List β → α → α)
    (hf : ∀ n, TrkIndep (f n)) (hs : TrkIndep skip) :
    ∀ ns i m1 m2 acc, m1.stk = m2.stk →
      (seqLoop f skip mk ns i m1 acc).noTrk = (seqLoop f skip mk ns i m2 acc).noTrk := by
  intro ns
  induction ns with
  | nil => intro i m1 m2 acc h; simp [seqLoop, h]
  | cons n ns ih =>
    intro i m1 m2 acc h
    unfold seqLoop
    rcases noTrk_eq_cases (hs i m1 m2 h) with ⟨hc, hp⟩ | ⟨m1', m2', hc, hp, he⟩ | ⟨i', m1', m2', a, hc, hp, he⟩
    · rw [hc, hp]
    · rw [hc, hp]; simp [he]
    · rw [hc, hp]
      simp only []
      rcases noTrk_eq_cases (hf n i' m1' m2' he) with ⟨hc, hp⟩ | ⟨m1'', m2'', hc, hp, he'⟩ | ⟨i'', m1'', m2'', b, hc, hp, he'⟩
      · rw [hc, hp]
      · rw [hc, hp]; simp [he']
      · rw [hc, hp]; exact ih _ _ _ _ he'

theorem choiceLoop_noTrk {α} (f : Node → Inp → M → R α) (hf : ∀ n, TrkIndep (f n)) :
    ∀ ns k i m1 m2, m1.stk = m2.stk → (choiceLoop f ns k i m1).noTrk = (choiceLoop f ns k i m2).noTrk := by
  intro ns
  induction ns with
  | nil => intro k i m1 m2 h; simp [choiceLoop, h]
  | cons n ns ih =>
    intro k i m1 m2 h
    unfold choiceLoop
    rcases noTrk_eq_cases (hf n i m1 m2 h) with ⟨hc, hp⟩ | ⟨m1', m2', hc, hp, he⟩ | ⟨i', m1', m2', a, hc, hp, he⟩
    · rw [hc, hp]; rfl
    · rw [hc, hp]; simp only [restoreOnNone]; exact ih _ _ _ _ h
    · rw [hc, hp]; simp [restoreOnNone, he]

theorem repLoop_noTrk {α} (unit : Nat → Inp → M → R α) (hu : ∀ idx, TrkIndep (unit idx)) (min : Nat) (max : Option Nat) :
    ∀ budget idx i m1 m2 acc, m1.stk = m2.stk →
      (repLoop unit min max budget idx i m1 acc).noTrk = (repLoop unit min max budget idx i m2 acc).noTrk := by
  intro budget
  induction budget with
  | zero => intros; rfl
  | succ b ih =>
    intro idx i m1 m2 acc h
    unfold repLoop
    by_cases hmax : max = some idx
    · simp only [hmax, if_true, repDone_eq_of_length]; split <;> simp [h]
    · simp only [hmax, if_false, repDone_eq_of_length]
      rcases noTrk_eq_cases (hu idx i m1 m2 h) with ⟨hc, hp⟩ | ⟨m1', m2', hc, hp, he⟩ | ⟨i', m1', m2', a, hc, hp, he⟩
      · rw [hc, hp]; rfl
      · rw [hc, hp]; simp only [restoreOnNone]
        split
        · simp [h]
        · split <;> simp [h]
      · rw [hc, hp]; simp only [restoreOnNone]; exact ih _ _ _ _ _ he

theorem arrayLoop_noTrk {α} (f : Inp → M → R α) (hf : TrkIndep f) :
    ∀ k i m1 m2 acc, m1.stk = m2.stk → (arrayLoop f k i m1 acc).noTrk = (arrayLoop f k i m2 acc).noTrk := by
  intro k
  induction k with
  | zero => intro i m1 m2 acc h; simp [arrayLoop, h]
  | succ k ih =>
    intro i m1 m2 acc h
    unfold arrayLoop
    rcases noTrk_eq_cases (hf i m1 m2 h) with ⟨hc, hp⟩ | ⟨m1', m2', hc, hp, hs⟩ | ⟨i', m1', m2', a, hc, hp, hs⟩
    · rw [hc, hp]
    · rw [hc, hp]; simp [hs]
    · rw [hc, hp]; exact ih _ _ _ _ hs

theorem repUnitP_noTrk (skip body : Inp → M → R Val) (hs : TrkIndep skip) (hb : TrkIndep body) (dflt : Val)
    (k idx : Nat) : TrkIndep (repUnitP skip body dflt k idx) := by
  intro i m1 m2 h
  unfold repUnitP
  by_cases h0 : idx = 0
  · simp only [h0, if_true]
    rcases noTrk_eq_cases (hb i m1 m2 h) with ⟨hc, hp⟩ | ⟨m1', m2', hc, hp, he⟩ | ⟨i', m1', m2', a, hc, hp, he⟩
    · rw [hc, hp]
    · rw [hc, hp]; simp [he]
    · rw [hc, hp]; simp [he]
  · simp only [h0, if_false]
    rcases noTrk_eq_cases (skipLoop_noTrk skip hs k i m1 m2 [] h) with ⟨hc, hp⟩ | ⟨m1', m2', hc, hp, he⟩ | ⟨i', m1', m2', a, hc, hp, he⟩
    · rw [hc, hp]
    · rw [hc, hp]; simp [he]
    · rw [hc, hp]
      simp only []
      rcases noTrk_eq_cases (hb i' m1' m2' he) with ⟨hc, hp⟩ | ⟨m1'', m2'', hc, hp, he'⟩ | ⟨i'', m1'', m2'', b, hc, hp, he'⟩
      · rw [hc, hp]
      · rw [hc, hp]; simp [he']
      · rw [hc, hp]; simp [he']

/-- Verdict, cursor, stack and value of `parse` do not depend on the tracker. -/
theorem parse_noTrk (g : NodeGrammar) (uni : Uni) :
    ∀ (n : Nat) (inh : Bool) (node : Node), TrkIndep (parse g uni n inh node) := by
  intro n
  induction n with
  | zero => intro inh node i m1 m2 h; rfl
  | succ n ih =>
    intro inh node i m1 m2 h
    have ihc : ∀ inh node, TrkIndep (check g uni n inh node) := by
      intro inh node i m1 m2 h
      rw [check_eq_parse_forget, check_eq_parse_forget, noTrk_forget, noTrk_forget, ih inh node i m1 m2 h]
    obtain ⟨s, t1⟩ := m1
    obtain ⟨s2, t2⟩ := m2
    simp only at h
    subst h
    cases node with
    | str x => simp only [parse]; split <;> rfl
    | insens x => simp only [parse]; split <;> rfl
    | range lo hi => simp only [parse]; split <;> rfl
    | any => simp only [parse]; split <;> rfl
    | soi => simp only [parse]; split <;> rfl
    | eoi => simp only [parse]; split <;> rfl
    | newline => simp only [parse]; split <;> rfl
    | charBy p => simp only [parse]; split <;> rfl
    | skipUntil needles => simp only [parse]; rfl
    | skipChars k => simp only [parse]; split <;> rfl
    | seq sk items =>
      simp only [parse]
      cases items with
      | nil => rfl
      | cons n0 ns =>
        simp only []
        rcases noTrk_eq_cases (ih inh n0 i ⟨s, t1⟩ ⟨s, t2⟩ rfl) with ⟨hc, hp⟩ | ⟨m1', m2', hc, hp, he⟩ | ⟨i', m1', m2', a, hc, hp, he⟩
        · rw [hc, hp]
        · rw [hc, hp]; simp [he]
        · rw [hc, hp]
          simp only []
          have := seqLoop_noTrk (parse g uni n inh)
            (fun i m => skipLoop (parse g uni n false g.skipped) (skipCount sk inh) i m [])
            mkSkipped (ih inh) (fun i m1 m2 h => skipLoop_noTrk _ (ih false g.skipped) _ _ _ _ _ h) ns i' m1' m2' [] he
          rcases noTrk_eq_cases this with ⟨hc, hp⟩ | ⟨m1'', m2'', hc, hp, he'⟩ | ⟨i'', m1'', m2'', b, hc, hp, he'⟩
          · rw [hc, hp]
          · rw [hc, hp]; simp [he']
          · rw [hc, hp]; simp [he']
    | choice alts =>
      simp only [parse]
      rcases noTrk_eq_cases (choiceLoop_noTrk (parse g uni n inh) (ih inh) alts 0 i ⟨s, t1⟩ ⟨s, t2⟩ rfl)
        with ⟨hc, hp⟩ | ⟨m1', m2', hc, hp, he⟩ | ⟨i', m1', m2', a, hc, hp, he⟩
      · rw [hc, hp]
      · rw [hc, hp]; simp [he]
      · rw [hc, hp]; simp [he]
    | opt x =>
      simp only [parse]
      rcases noTrk_eq_cases (ih inh x i ⟨s, t1⟩ ⟨s, t2⟩ rfl) with ⟨hc, hp⟩ | ⟨m1', m2', hc, hp, he⟩ | ⟨i', m1', m2', a, hc, hp, he⟩
      · rw [hc, hp]
      · rw [hc, hp]; rfl
      · rw [hc, hp]; simp [restoreOnNone, he]
    | rep sk min max x =>
      simp only [parse]
      rcases noTrk_eq_cases (repLoop_noTrk _
          (fun idx => repUnitP_noTrk (parse g uni n false g.skipped) (parse g uni n inh x)
            (ih false g.skipped) (ih inh x) (defaultSkipVal g) (skipCount sk inh) idx)
          min max n 0 i ⟨s, t1⟩ ⟨s, t2⟩ [] rfl)
        with ⟨hc, hp⟩ | ⟨m1', m2', hc, hp, he⟩ | ⟨i', m1', m2', a, hc, hp, he⟩
      · rw [hc, hp]
      · rw [hc, hp]; simp [he]
      · rw [hc, hp]; simp [he]
    | atomicRepeat x =>
      simp only [parse]
      cases repLoop (fun _ i m => parse g uni n inh x i m) 0 none (atomicBudget n) 0 i
          { stk := s, trk := Tracker.new i } [] <;> rfl
    | pos x =>
      simp only [parse]
      rcases noTrk_eq_cases (ih inh x i ⟨s, { t1 with positive := true }⟩ ⟨s, { t2 with positive := true }⟩ rfl)
        with ⟨hc, hp⟩ | ⟨m1', m2', hc, hp, he⟩ | ⟨i', m1', m2', a, hc, hp, he⟩
      · rw [hc, hp]
      · rw [hc, hp]; rfl
      · rw [hc, hp]; rfl
    | neg x =>
      simp only [parse]
      rcases noTrk_eq_cases (ihc inh x i ⟨s, { t1 with positive := false }⟩ ⟨s, { t2 with positive := false }⟩ rfl)
        with ⟨hc, hp⟩ | ⟨m1', m2', hc, hp, he⟩ | ⟨i', m1', m2', a, hc, hp, he⟩
      · rw [hc, hp]
      · rw [hc, hp]; rfl
      · rw [hc, hp]; rfl
    | push x =>
      simp only [parse]
      rcases noTrk_eq_cases (ih inh x i ⟨s, t1⟩ ⟨s, t2⟩ rfl) with ⟨hc, hp⟩ | ⟨m1', m2', hc, hp, he⟩ | ⟨i', m1', m2', a, hc, hp, he⟩
      · rw [hc, hp]
      · rw [hc, hp]; simp [he]
      · rw [hc, hp]; simp [he]
    | peek =>
      simp only [parse]
      cases s with
      | nil => rfl
      | cons sp rest => simp only []; split <;> rfl
    | peekAll => simp only [parse]; split <;> rfl
    | pop =>
      simp only [parse]
      cases s with
      | nil => rfl
      | cons sp rest => simp only []; split <;> rfl
    | popAll => simp only [parse]; split <;> rfl
    | drop =>
      simp only [parse]
      cases s with
      | nil => rfl
      | cons sp rest => rfl
    | peekSlice a b =>
      simp only [parse]
      split
      · rfl
      · split
        · rfl
        · split <;> rfl
    | ref r f =>
      simp only [parse]
      cases g.rule? r with
      | none => rfl
      | some d =>
        simp only []
        cases d.emit with
        | expression =>
          simp only []
          rcases noTrk_eq_cases (ih (f.eval inh) d.body i ⟨s, t1⟩ ⟨s, t2⟩ rfl) with ⟨hc, hp⟩ | ⟨m1', m2', hc, hp, he⟩ | ⟨i', m1', m2', a, hc, hp, he⟩
          · rw [hc, hp]
          · rw [hc, hp]; simp [he]
          · rw [hc, hp]; simp [he]
        | span =>
          simp only []
          rcases noTrk_eq_cases (ihc (f.eval inh) d.body i ⟨s, t1.enter r i.pos⟩ ⟨s, t2.enter r i.pos⟩ rfl)
            with ⟨hc, hp⟩ | ⟨m1', m2', hc, hp, he⟩ | ⟨i', m1', m2', a, hc, hp, he⟩
          · rw [hc, hp]
          · rw [hc, hp]; simp [he]
          · rw [hc, hp]; simp [he]
        | both =>
          simp only []
          rcases noTrk_eq_cases (ih (f.eval inh) d.body i ⟨s, t1.enter r i.pos⟩ ⟨s, t2.enter r i.pos⟩ rfl)
            with ⟨hc, hp⟩ | ⟨m1', m2', hc, hp, he⟩ | ⟨i', m1', m2', a, hc, hp, he⟩
          · rw [hc, hp]
          · rw [hc, hp]; simp [he]
          · rw [hc, hp]; simp [he]
    | array k x =>
      simp only [parse, arrayTryInto_arrayLoop]
      rcases noTrk_eq_cases (arrayLoop_noTrk _ (ih inh x) k i ⟨s, t1⟩ ⟨s, t2⟩ [] rfl)
        with ⟨hc, hp⟩ | ⟨m1', m2', hc, hp, he⟩ | ⟨i', m1', m2', a, hc, hp, he⟩
      · rw [hc, hp]
      · rw [hc, hp]; simp [he]
      · rw [hc, hp]; simp [he]
    | pair a b =>
      simp only [parse]
      rcases noTrk_eq_cases (ih inh a i ⟨s, t1⟩ ⟨s, t2⟩ rfl) with ⟨hc, hp⟩ | ⟨m1', m2', hc, hp, he⟩ | ⟨i', m1', m2', va, hc, hp, he⟩
      · rw [hc, hp]
      · rw [hc, hp]; simp [he]
      · rw [hc, hp]
        simp only []
        rcases noTrk_eq_cases (ih inh b i' m1' m2' he) with ⟨hc, hp⟩ | ⟨m1'', m2'', hc, hp, he'⟩ | ⟨i'', m1'', m2'', vb, hc, hp, he'⟩
        · rw [hc, hp]
        · rw [hc, hp]; simp [he']
        · rw [hc, hp]; simp [he']
    | empty => simp only [parse]; rfl
    | alwaysFail => simp only [parse]; rfl

/-- A fail chain exists from one state iff it exists from any state with the same stack. -/
theorem FailChain.of_stk_eq {α} {f : Node → Inp → M → R α} (hf : ∀ n, TrkIndep (f n)) {i : Inp}
    {alts : List Node} {m1 m1' : M} (h : FailChain f i alts m1 m1') :
    ∀ m2, m1.stk = m2.stk → ∃ m2', FailChain f i alts m2 m2' ∧ m1'.stk = m2'.stk := by
  induction h with
  | nil m => intro m2 hs; exact ⟨m2, FailChain.nil _, hs⟩
  | @cons n ns m mf m' hfail _ ih =>
    intro m2 hs
    have := hf n i m m2 hs
    rw [hfail] at this
    cases h2 : f n i m2 with
    | oof => rw [h2] at this; cases this
    | ok _ _ _ => rw [h2] at this; cases this
    | fail mf2 =>
      obtain ⟨m2', hc, he⟩ := ih { mf2 with stk := m2.stk } hs
      exact ⟨m2', FailChain.cons h2 hc, he⟩

theorem TrkIndep.fail_of_fail {α} {f : Inp → M → R α} (hf : TrkIndep f) {i : Inp} {m1 m2 mf : M}
    (hs : m1.stk = m2.stk) (h : f i m1 = .fail mf) : ∃ mf2, f i m2 = .fail mf2 ∧ mf.stk = mf2.stk := by
  have := hf i m1 m2 hs
  rw [h] at this
  cases h2 : f i m2 with
  | oof => rw [h2] at this; cases this
  | ok _ _ _ => rw [h2] at this; cases this
  | fail mf2 => rw [h2] at this; simp at this; exact ⟨mf2, rfl, this⟩

theorem TrkIndep.ok_of_ok {α} {f : Inp → M → R α} (hf : TrkIndep f) {i i' : Inp} {m1 m2 m1' : M} {v : α}
    (hs : m1.stk = m2.stk) (h : f i m1 = .ok i' m1' v) :
    ∃ m2', f i m2 = .ok i' m2' v ∧ m1'.stk = m2'.stk := by
  have := hf i m1 m2 hs
  rw [h] at this
  cases h2 : f i m2 with
  | oof => rw [h2] at this; cases this
  | fail _ => rw [h2] at this; cases this
  | ok i2 m2' v2 =>
    rw [h2] at this; simp at this
    obtain ⟨rfl, he, rfl⟩ := this
    exact ⟨m2', rfl, he⟩

/-- If every alternative of `pre` fails from `m`, they form a fail chain from `m`. -/
theorem FailChain.build {α} {f : Node → Inp → M → R α} (hf : ∀ n, TrkIndep (f n)) {i : Inp} :
    ∀ (pre : List Node) (m : M),
      (∀ (j : Nat) (n : Node), pre[j]? = some n → ∃ mf, f n i m = .fail mf) →
      ∃ mk, FailChain f i pre m mk := by
  intro pre
  induction pre with
  | nil => intro m _; exact ⟨m, FailChain.nil _⟩
  | cons a as ih =>
    intro m hall
    obtain ⟨mf, hfail⟩ := hall 0 a (by simp)
    obtain ⟨mk, hc⟩ := ih { mf with stk := m.stk } (by
      intro j n hj
      obtain ⟨mf', h'⟩ := hall (j+1) n (by simpa using hj)
      obtain ⟨mf2, h2, _⟩ := (hf n).fail_of_fail (m1 := m) (m2 := { mf with stk := m.stk }) rfl h'
      exact ⟨mf2, h2⟩)
    exact ⟨mk, FailChain.cons hfail hc⟩

/-- First match wins, stated at ONE state: for an element function whose verdict does not depend
on the tracker, `choiceLoop` returns `(k, v)` at cursor `i'` iff alternative `k` — run from the
very state `m` the choice started in — returns `v` at `i'` and every earlier alternative, run from
`m`, fails. -/
theorem choiceLoop_position {α} (f : Node → Inp → M → R α) (hf : ∀ n, TrkIndep (f n))
    (alts : List Node) (i : Inp) (m : M) (i' : Inp) (k : Nat) (v : α) :
    (∃ m', choiceLoop f alts 0 i m = .ok i' m' (k, v)) ↔
      (∃ n m'', alts[k]? = some n ∧ f n i m = .ok i' m'' v) ∧
      (∀ (j : Nat) (nj : Node), j < k → alts[j]? = some nj → ∃ mf, f nj i m = .fail mf) := by
  constructor
  · rintro ⟨m', h⟩
    obtain ⟨pre, n, post, mk, a, b, c, d⟩ := (choiceLoop_ok_iff f alts 0 i m i' m' k v).mp h
    have hk : pre.length = k := by omega
    subst a hk
    refine ⟨?_, ?_⟩
    · obtain ⟨m'', h2, _⟩ := (hf n).ok_of_ok (m2 := m) c.stk_eq d
      exact ⟨n, m'', by simp, h2⟩
    · intro j nj hj hn
      rw [List.getElem?_append_left hj] at hn
      obtain ⟨mj, mf, hs, hfail⟩ := c.each j nj hn
      obtain ⟨mf2, h2, _⟩ := (hf nj).fail_of_fail (m2 := m) hs hfail
      exact ⟨mf2, h2⟩
  · rintro ⟨⟨n, m'', hn, hok⟩, hall⟩
    obtain ⟨hlt, hget⟩ := List.getElem?_eq_some_iff.mp hn
    obtain ⟨mk, hc⟩ := FailChain.build hf (alts.take k) m (by
      intro j nj hj
      rw [List.getElem?_take] at hj
      split at hj
      · next hjk => exact hall j nj hjk hj
      · cases hj)
    obtain ⟨mk', h2, _⟩ := (hf n).ok_of_ok (m2 := mk) hc.stk_eq.symm hok
    refine ⟨mk', (choiceLoop_ok_iff f alts 0 i m i' mk' k v).mpr
      ⟨alts.take k, n, alts.drop (k+1), mk, ?_, by simp; omega, hc, h2⟩⟩
    rw [← hget, ← List.drop_eq_getElem_cons hlt, List.take_append_drop]

end PestTyped
