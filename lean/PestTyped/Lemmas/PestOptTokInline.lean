/-
Lemmas.PestOptTokInline — the INLINING form of pest_meta's `skip` pass at GRAMMAR level.

`(!rule ~ ANY)*` with `rule = { "a" | "b" }` is rewritten to `Skip(["a", "b"])`: the skipper follows the
identifier through its rule map (`to_hash_map` of the rules AS PARSED).  `skipExpr_equiv` /
`skipExpr_tequiv_body` prove the rewrite sound in the grammar the map was built from; at grammar level the
rewritten bodies must also be equivalent to the old ones in the NEW grammar (`spec_grammar_congr`,
`tok_grammar_congr`), where the inlined rule has itself been rotated and skipped.  `LookupAgrees raw G` (every
body of the map is equivalent in `G`, under BOTH flags, to the rule `G` runs) is too strong for that: an `@`
rule in which `skip` fires is not equivalent to its raw body under `na = true`.  Here:
* `LookupAgreesAcc raw G`: the same, but only for bodies that `populate_choices` accepts (`PopAccepts`);
  `populateChoices_sound_acc`, `skipClosure_equiv_of_lookupAcc`, `skipExpr_(t)equiv_body_of_lookupAcc`;
* accepted bodies are trees of `|` over literals and identifiers (`StrIdChoice`, `populateChoices_shape`), a
  shape that `rotate` preserves (`rotate_shape`) and on which `skip` is the identity (`skip_shape`);
* hence, for pairwise distinct rule names, `LookupAgreesAcc g (passRotate g)` and
  `LookupAgreesAcc g (passSkip g (passRotate g))`, and the stage theorem
  `skipStage_tequiv_nodup : TokEquiv (passRotate g) (passSkip g (passRotate g)) uni am e e`.
-/
import PestTyped.Lemmas.PestOptTokSkip
import PestTyped.Lemmas.PestOptTokRotate
import PestTyped.Lemmas.PestOptTokGrammar
set_option linter.unusedVariables false
namespace PestTyped

/-- `populate_choices` succeeds on `body` (for some budget and accumulator). -/
def PopAccepts (raw : PGrammar) (body : PExpr) : Prop := ∃ b cs r, populateChoices raw b body cs = some r

/-- The skipper's map agrees with the evaluation grammar on the bodies it can inline. -/
def LookupAgreesAcc (raw G : PGrammar) (uni : Uni) : Prop :=
  ∀ name body, vLookup raw name = some body → PopAccepts raw body →
    ∃ rl, G.find? name = some rl ∧ ∀ na, SpecEquiv G G uni na rl.expr body

theorem LookupAgrees.acc {raw G : PGrammar} {uni : Uni} (h : LookupAgrees raw G uni) : LookupAgreesAcc raw G uni :=
  fun name body hv _ => h name body hv

/-- `populateChoices_sound` under the weaker hypothesis. -/
theorem populateChoices_sound_acc {raw G : PGrammar} {uni : Uni} (hlk : LookupAgreesAcc raw G uni) :
    ∀ (b : Nat) (x : PExpr) (cs : List (List Char)) (r : PExpr), populateChoices raw b x cs = some r →
    ∃ lits, r = .skip (cs ++ lits) ∧ StrChoiceSem G uni x lits := by
  intro b
  induction b with
  | zero => intro x cs r h; simp [populateChoices] at h
  | succ b ih =>
    intro x cs r h
    unfold populateChoices at h
    split at h
    · next lhs rhs =>
      split at h
      · next s =>
        obtain ⟨lits, hr, hsem⟩ := ih _ _ _ h
        refine ⟨s :: lits, ?_, StrChoiceSem.choice (StrChoiceSem.str G uni s) hsem⟩
        rw [hr]; simp only [List.append_assoc, List.singleton_append]
      · next name =>
        split at h
        · next inlined hm =>
          cases hv : vLookup raw name with
          | none => rw [hv] at hm; cases hm
          | some body =>
            rw [hv] at hm
            simp only [Option.bind_some] at hm
            obtain ⟨l1, hr1, hsem1⟩ := ih _ _ _ hm
            obtain ⟨l2, hr2, hsem2⟩ := ih _ _ _ h
            obtain ⟨rl, hf, heq⟩ := hlk name body hv ⟨b, [], _, hm⟩
            injection hr1 with hr1
            rw [List.nil_append] at hr1
            subst hr1
            refine ⟨inlined ++ l2, ?_, StrChoiceSem.choice (StrChoiceSem.ident hf ?_) hsem2⟩
            · rw [hr2]; simp only [List.append_assoc]
            · exact StrChoiceSem.congr (fun na => (heq na).symm) hsem1
        · cases h
      · cases h
    · next s =>
      injection h with h; subst h
      exact ⟨[s], rfl, StrChoiceSem.str G uni s⟩
    · next name =>
      split at h
      · next body hv =>
        obtain ⟨lits, hr, hsem⟩ := ih _ _ _ h
        obtain ⟨rl, hf, heq⟩ := hlk name body hv ⟨b, cs, r, h⟩
        exact ⟨lits, hr, StrChoiceSem.ident hf (StrChoiceSem.congr (fun na => (heq na).symm) hsem)⟩
      · cases h
    · cases h

theorem skipClosure_equiv_of_lookupAcc {raw G : PGrammar} {uni : Uni} (hlk : LookupAgreesAcc raw G uni)
    (hany : G.find? "ANY" = none) : ∀ e, SpecEquiv G G uni false e (skipClosure raw e) := by
  intro e
  unfold skipClosure
  split
  · next x ident =>
    split
    · next hid =>
      subst hid
      split
      · next r h =>
        obtain ⟨lits, hr, hsem⟩ := populateChoices_sound_acc hlk _ _ _ _ h
        rw [hr, List.nil_append]
        exact skip_loop_equiv hany (hsem.prefixSem false)
      · exact SpecEquiv.refl _ _ _ _
    · exact SpecEquiv.refl _ _ _ _
  · exact SpecEquiv.refl _ _ _ _

theorem skipExpr_equiv_body_of_lookupAcc {raw G : PGrammar} {uni : Uni} (hlk : LookupAgreesAcc raw G uni)
    (hany : G.find? "ANY" = none) (name : String) (kind : RuleKind) (na : Bool) (e : PExpr) :
    SpecEquiv G G uni (bodyNa name kind na) e (skipExpr raw kind e) := by
  by_cases hk : kind = .atomic
  · subst hk
    have : bodyNa name .atomic na = false := by
      unfold bodyNa; split <;> rfl
    rw [this]
    unfold skipExpr
    rw [if_pos rfl]
    exact mapTopDown_equiv _ (skipClosure_equiv_of_lookupAcc hlk hany) _ _
  · unfold skipExpr
    rw [if_neg hk]
    exact SpecEquiv.refl _ _ _ _

theorem skipExpr_tequiv_body_of_lookupAcc {raw G : PGrammar} {uni : Uni} (hlk : LookupAgreesAcc raw G uni)
    (hany : G.find? "ANY" = none) (name : String) (kind : RuleKind) (am : Atom3) (e : PExpr) :
    TokEquiv G G uni (bodyAt name kind am) e (skipExpr raw kind e) := by
  by_cases hk : kind = .atomic
  · subst hk
    unfold skipExpr
    rw [if_pos rfl]
    exact mapTopDown_tequiv _
      (fun e => skipClosure_tequiv_of_spec rfl hany e (skipClosure_equiv_of_lookupAcc hlk hany e)) _ _
  · unfold skipExpr
    rw [if_neg hk]
    exact TokEquiv.refl _ _ _ _

/-! ### the shape of the bodies the skipper inlines -/

/-- A tree of `|` whose leaves are string literals and identifiers. -/
def StrIdChoice : PExpr → Bool
  | .choice a b => StrIdChoice a && StrIdChoice b
  | .str _ => true
  | .ident _ => true
  | _ => false

theorem populateChoices_shape (raw : PGrammar) : ∀ (b : Nat) (x : PExpr) (cs : List (List Char)) (r : PExpr),
    populateChoices raw b x cs = some r → StrIdChoice x = true := by
  intro b
  induction b with
  | zero => intro x cs r h; simp [populateChoices] at h
  | succ b ih =>
    intro x cs r h
    unfold populateChoices at h
    split at h
    · next lhs rhs =>
      split at h
      · simp only [StrIdChoice, Bool.true_and]; exact ih _ _ _ h
      · split at h
        · simp only [StrIdChoice, Bool.true_and]; exact ih _ _ _ h
        · cases h
      · cases h
    · rfl
    · rfl
    · cases h

theorem rotChoice_shape : ∀ l r, StrIdChoice l = true → StrIdChoice r = true → StrIdChoice (rotChoice l r) = true := by
  intro l
  induction l with
  | choice ll lr ih1 _ =>
    intro r hl hr
    simp only [StrIdChoice, Bool.and_eq_true] at hl
    rw [rotChoice]
    exact ih1 _ hl.1 (by simp only [StrIdChoice, hl.2, hr, Bool.and_self])
  | str s => intro r _ hr; simp only [rotChoice, StrIdChoice, hr, Bool.and_self]
  | ident n => intro r _ hr; simp only [rotChoice, StrIdChoice, hr, Bool.and_self]
  | _ => intro r hl _; simp [StrIdChoice] at hl

theorem rotateInternal_shape (e : PExpr) (h : StrIdChoice e = true) : StrIdChoice (rotateInternal e) = true := by
  cases e with
  | choice l r =>
    simp only [StrIdChoice, Bool.and_eq_true] at h
    exact rotChoice_shape l r h.1 h.2
  | str s => rfl
  | ident n => rfl
  | _ => simp [StrIdChoice] at h

theorem mapChildren_shape (f : PExpr → PExpr) (e : PExpr) (h : StrIdChoice e = true)
    (hf : ∀ c, StrIdChoice c = true → StrIdChoice (f c) = true) : StrIdChoice (e.mapChildren f) = true := by
  cases e with
  | choice l r =>
    simp only [StrIdChoice, Bool.and_eq_true] at h
    simp only [PExpr.mapChildren, StrIdChoice, hf l h.1, hf r h.2, Bool.and_self]
  | str s => rfl
  | ident n => rfl
  | _ => simp [StrIdChoice] at h

/-- `rotate` keeps the shape. -/
theorem rotate_shape : ∀ n e, StrIdChoice e = true → StrIdChoice (mapTopDown rotateInternal n e) = true := by
  intro n
  induction n with
  | zero => intro e h; exact h
  | succ n ih =>
    intro e h
    simp only [mapTopDown]
    exact mapChildren_shape _ _ (rotateInternal_shape e h) ih

theorem skipClosure_shape (raw : PGrammar) (e : PExpr) (h : StrIdChoice e = true) : skipClosure raw e = e := by
  cases e with
  | choice l r => rfl
  | str s => rfl
  | ident n => rfl
  | _ => simp [StrIdChoice] at h

/-- `skip` is the identity on the shape. -/
theorem skip_shape (raw : PGrammar) : ∀ n e, StrIdChoice e = true → mapTopDown (skipClosure raw) n e = e := by
  intro n
  induction n with
  | zero => intro e _; rfl
  | succ n ih =>
    intro e h
    simp only [mapTopDown, skipClosure_shape raw e h]
    cases e with
    | choice l r =>
      simp only [StrIdChoice, Bool.and_eq_true] at h
      simp only [PExpr.mapChildren, ih l h.1, ih r h.2]
    | str s => rfl
    | ident n => rfl
    | _ => simp [StrIdChoice] at h

theorem skipExpr_rotate_shape (raw : PGrammar) (kind : RuleKind) (body : PExpr) (h : StrIdChoice body = true) :
    skipExpr raw kind (rotateExpr body) = rotateExpr body := by
  unfold skipExpr
  split
  · exact skip_shape raw _ _ (rotate_shape _ _ h)
  · rfl

/-! ### the two stages the skipper's map must agree with -/

theorem lookupAgreesAcc_rotate (g : PGrammar) (hnd : (g.map (·.name)).Nodup) (uni : Uni) :
    LookupAgreesAcc g (passRotate g) uni := by
  intro name body hv _
  rw [vLookup_eq_find?_of_nodup g hnd] at hv
  cases hf : g.find? name with
  | none => rw [hf] at hv; cases hv
  | some rl =>
    rw [hf] at hv
    simp only [Option.map_some, Option.some.injEq] at hv
    subst hv
    refine ⟨{ rl with expr := rotateExpr rl.expr }, ?_, fun na => (rotateExpr_equiv _ uni na rl.expr).symm⟩
    rw [passRotate_eq, PGrammar.find?_mapBodies, hf]; rfl

theorem lookupAgreesAcc_skip (g : PGrammar) (hnd : (g.map (·.name)).Nodup) (uni : Uni) :
    LookupAgreesAcc g (passSkip g (passRotate g)) uni := by
  intro name body hv hacc
  rw [vLookup_eq_find?_of_nodup g hnd] at hv
  cases hf : g.find? name with
  | none => rw [hf] at hv; cases hv
  | some rl =>
    rw [hf] at hv
    simp only [Option.map_some, Option.some.injEq] at hv
    subst hv
    obtain ⟨b, cs, r, hp⟩ := hacc
    have hshape := populateChoices_shape g b _ cs r hp
    refine ⟨{ rl with expr := skipExpr g rl.kind (rotateExpr rl.expr) }, ?_, fun na => ?_⟩
    · rw [passSkip_eq, PGrammar.find?_mapBodies, passRotate_eq, PGrammar.find?_mapBodies, hf]; rfl
    · show SpecEquiv _ _ uni na (skipExpr g rl.kind (rotateExpr rl.expr)) rl.expr
      rw [skipExpr_rotate_shape g rl.kind rl.expr hshape]
      exact (rotateExpr_equiv _ uni na rl.expr).symm

/-- **The `skip` stage with inlining**, for pairwise distinct rule names and no rule called `ANY`: every
expression means the same (tokens included) in the rotated grammar and in the rotated-and-skipped one. -/
theorem skipStage_tequiv_nodup (g : PGrammar) (uni : Uni) (hnd : (g.map (·.name)).Nodup)
    (hany : g.find? "ANY" = none) :
    ∀ am e, TokEquiv (passRotate g) (passSkip g (passRotate g)) uni am e e := by
  have hany1 : (passRotate g).find? "ANY" = none := find?_none_mapBodies _ g "ANY" hany
  have hany2 : (passSkip g (passRotate g)).find? "ANY" = none := find?_none_mapBodies _ _ "ANY" hany1
  have h2 := lookupAgreesAcc_skip g hnd uni
  rw [passSkip_eq] at h2 hany2 ⊢
  exact tok_grammar_congr (passRotate g) uni _ fun r hr am =>
    ⟨skipExpr_tequiv_body_of_lookupAcc (lookupAgreesAcc_rotate g hnd uni) hany1 r.name r.kind am r.expr,
     skipExpr_tequiv_body_of_lookupAcc h2 hany2 r.name r.kind am r.expr⟩

end PestTyped
