/-
Lemmas.SkipSites — helper lemmas for Props/C07: where the implicit skip runs and which flag is in
force there.

* skip counts and the two shapes of the skip function of a `SeqN` / `RepeatMin*`
  (`noSkip` for `SKIP = 0`, `oneSkip` for `SKIP = 1`);
* back-to-back runs (`SeqB2B`, `B2B`): what a sequence / repetition does when `SKIP = 0`;
* `Linked`: consecutive recorded iterations start exactly where the previous one stopped;
* a rule reference runs its body from the entry cursor to the exit cursor (`ref_run_eq`);
* the flags of a type expression (`Node.flagsAll`, `Node.refs`), the only way the inherited
  atomicity enters the interpreter (`parse_inh_congr`), and the flags the generator writes
  (`genExpr_flags`, `genSkipped_flags`);
* the vocabulary of the inheritance theorems: `kindFlagVal`, reference paths `InhPath`, `KindsOf`,
  `flagAlong`, `pathFlag`.
-/
import PestTyped.Lemmas.Choice
import PestTyped.Model.Gen
namespace PestTyped

/-! ### skip counts -/

theorem skipCount_eq_zero {sk : Flag} {inh : Bool} (h : sk.eval inh = false) : skipCount sk inh = 0 := by
  simp [skipCount, h]

theorem skipCount_eq_one {sk : Flag} {inh : Bool} (h : sk.eval inh = true) : skipCount sk inh = 1 := by
  simp [skipCount, h]

theorem skipCount_le_one (sk : Flag) (inh : Bool) : skipCount sk inh ≤ 1 := by
  unfold skipCount; split <;> omega

/-- The skip function of a sequence / repetition: `k` runs of the skip parser `sf`. -/
abbrev skipRuns (sf : Inp → M → R Val) (k : Nat) : Inp → M → R (List Val) :=
  fun i m => skipLoop sf k i m []

/-- `SKIP = 0`: nothing runs, the cursor and the state are handed on unchanged. -/
def noSkip : Inp → M → R (List Val) := fun i m => .ok i m []

/-- `SKIP = 1`: exactly one run of the skip parser. -/
def oneSkip (sf : Inp → M → R Val) : Inp → M → R (List Val) := fun i m =>
  match sf i m with
  | .oof => .oof
  | .fail m' => .fail m'
  | .ok i' m' a => .ok i' m' [a]

theorem skipLoop_zero {α} (sf : Inp → M → R α) (i : Inp) (m : M) : skipLoop sf 0 i m [] = .ok i m [] := rfl

theorem skipRuns_zero (sf : Inp → M → R Val) : skipRuns sf 0 = noSkip := rfl

theorem skipRuns_one (sf : Inp → M → R Val) : skipRuns sf 1 = oneSkip sf := by
  funext i m
  simp only [skipRuns, oneSkip, skipLoop]
  cases sf i m <;> rfl

theorem oneSkip_ok {sf : Inp → M → R Val} {i i' : Inp} {m m' : M} {sks : List Val}
    (h : oneSkip sf i m = .ok i' m' sks) : ∃ a, sf i m = .ok i' m' a ∧ sks = [a] := by
  unfold oneSkip at h
  split at h
  · cases h
  · cases h
  · next i1 m1 a hs =>
    injection h with a1 a2 a3; subst a1 a2 a3
    exact ⟨a, hs, rfl⟩

/-! ### back-to-back runs -/

/-- The elements `ns` succeed one after the other, each started exactly at the cursor and in the
state the previous one returned; `vs` are their values. -/
inductive SeqB2B (f : Node → Inp → M → R Val) : List Node → Inp → M → List Val → Inp → M → Prop
  | nil (i : Inp) (m : M) : SeqB2B f [] i m [] i m
  | cons {n : Node} {ns : List Node} {i i1 i' : Inp} {m m1 m' : M} {v : Val} {vs : List Val} :
      f n i m = .ok i1 m1 v → SeqB2B f ns i1 m1 vs i' m' → SeqB2B f (n :: ns) i m (v :: vs) i' m'

theorem SeqB2B.length {f : Node → Inp → M → R Val} {ns : List Node} {i i' : Inp} {m m' : M} {vs : List Val}
    (h : SeqB2B f ns i m vs i' m') : vs.length = ns.length := by
  induction h with
  | nil => rfl
  | cons _ _ ih => simp [ih]

/-- Consecutive successful runs of one parser, each started where the previous one ended. -/
inductive B2B (f : Inp → M → R Val) : Inp → M → List Val → Inp → M → Prop
  | nil (i : Inp) (m : M) : B2B f i m [] i m
  | cons {i i1 i' : Inp} {m m1 m' : M} {v : Val} {vs : List Val} :
      f i m = .ok i1 m1 v → B2B f i1 m1 vs i' m' → B2B f i m (v :: vs) i' m'

/-- With `SKIP = 0` the loop over the tail of a sequence succeeds iff the elements succeed back to
back; the skip slots of the values are empty. -/
theorem seqLoop_noSkip_ok_iff (f : Node → Inp → M → R Val) :
    ∀ (ns : List Node) (i : Inp) (m : M) (acc : List Val) (i' : Inp) (m' : M) (out : List Val),
      seqLoop f noSkip mkSkipped ns i m acc = .ok i' m' out ↔
        ∃ vs, SeqB2B f ns i m vs i' m' ∧ out = acc.reverse ++ vs.map (mkSkipped []) := by
  intro ns
  induction ns with
  | nil =>
    intro i m acc i' m' out
    simp only [seqLoop]
    constructor
    · intro h
      injection h with h1 h2 h3; subst h1 h2 h3
      exact ⟨[], SeqB2B.nil _ _, by simp⟩
    · rintro ⟨vs, hr, ho⟩
      cases hr; subst ho; simp
  | cons n ns ih =>
    intro i m acc i' m' out
    simp only [seqLoop]
    rw [show noSkip i m = .ok i m [] from rfl]
    simp only []
    cases hf : f n i m with
    | oof =>
      constructor
      · intro h; cases h
      · rintro ⟨vs, hr, _⟩; cases hr with | cons h1 _ => rw [hf] at h1; cases h1
    | fail mf =>
      constructor
      · intro h; cases h
      · rintro ⟨vs, hr, _⟩; cases hr with | cons h1 _ => rw [hf] at h1; cases h1
    | ok i2 m2 v =>
      simp only []
      rw [ih i2 m2 (mkSkipped [] v :: acc) i' m' out]
      constructor
      · rintro ⟨vs, hr, ho⟩
        exact ⟨v :: vs, SeqB2B.cons hf hr, by rw [ho]; simp⟩
      · rintro ⟨vs, hr, ho⟩
        cases hr with
        | cons h1 h2 =>
          rw [hf] at h1; injection h1 with a b c; subst a b c
          exact ⟨_, h2, by rw [ho]; simp⟩

/-- With `SKIP = 0` the loop fails iff some element fails right where its predecessors, run back
to back, ended; the state is the one that element left. -/
theorem seqLoop_noSkip_fail_iff (f : Node → Inp → M → R Val) :
    ∀ (ns : List Node) (i : Inp) (m : M) (acc : List Val) (mf : M),
      seqLoop f noSkip mkSkipped ns i m acc = .fail mf ↔
        ∃ pre n post vs i1 m1, ns = pre ++ n :: post ∧ SeqB2B f pre i m vs i1 m1 ∧ f n i1 m1 = .fail mf := by
  intro ns
  induction ns with
  | nil =>
    intro i m acc mf
    simp only [seqLoop]
    constructor
    · intro h; cases h
    · rintro ⟨pre, n, post, vs, i1, m1, h, _⟩; simp at h
  | cons n ns ih =>
    intro i m acc mf
    simp only [seqLoop]
    rw [show noSkip i m = .ok i m [] from rfl]
    simp only []
    cases hf : f n i m with
    | oof =>
      constructor
      · intro h; cases h
      · rintro ⟨pre, n', post, vs, i1, m1, h, hr, hx⟩
        cases pre with
        | nil => simp at h; obtain ⟨rfl, rfl⟩ := h; cases hr; rw [hf] at hx; cases hx
        | cons p ps =>
          simp at h; obtain ⟨rfl, rfl⟩ := h
          cases hr with | cons h1 _ => rw [hf] at h1; cases h1
    | fail mf' =>
      constructor
      · intro h; injection h with h; subst h
        exact ⟨[], n, ns, [], i, m, rfl, SeqB2B.nil _ _, hf⟩
      · rintro ⟨pre, n', post, vs, i1, m1, h, hr, hx⟩
        cases pre with
        | nil => simp at h; obtain ⟨rfl, rfl⟩ := h; cases hr; rw [hf] at hx; rw [hx]
        | cons p ps =>
          simp at h; obtain ⟨rfl, rfl⟩ := h
          cases hr with | cons h1 _ => rw [hf] at h1; cases h1
    | ok i2 m2 v =>
      simp only []
      rw [ih i2 m2 (mkSkipped [] v :: acc) mf]
      constructor
      · rintro ⟨pre, n', post, vs, i1, m1, h, hr, hx⟩
        exact ⟨n :: pre, n', post, v :: vs, i1, m1, by rw [h]; rfl, SeqB2B.cons hf hr, hx⟩
      · rintro ⟨pre, n', post, vs, i1, m1, h, hr, hx⟩
        cases pre with
        | nil => simp at h; obtain ⟨rfl, rfl⟩ := h; cases hr; rw [hf] at hx; cases hx
        | cons p ps =>
          simp at h; obtain ⟨rfl, rfl⟩ := h
          cases hr with
          | cons h1 h2 =>
            rw [hf] at h1; injection h1 with a b c; subst a b c
            exact ⟨ps, n', post, _, i1, m1, rfl, h2, hx⟩

/-- With `SKIP = 0` the repetition unit is the element itself, whatever the iteration number, the
skip parser and the default skip value. -/
theorem repUnitP_zero (sf body : Inp → M → R Val) (dflt : Val) (idx : Nat) (i : Inp) (m : M) :
    repUnitP sf body dflt 0 idx i m =
      match body i m with
      | .oof => .oof
      | .fail m' => .fail m'
      | .ok i' m' v => .ok i' m' (mkSkipped [] v) := by
  unfold repUnitP
  split
  · cases body i m <;> rfl
  · simp only [skipLoop]
    cases body i m <;> rfl

/-- Iteration 0 of a repetition is the element run at the entry cursor and state: no skip parser is
involved whatever `SKIP` is. -/
theorem repUnitP_first (sf body : Inp → M → R Val) (dflt : Val) (k : Nat) (i : Inp) (m : M) :
    repUnitP sf body dflt k 0 i m =
      match body i m with
      | .oof => .oof
      | .fail m' => .fail m'
      | .ok i' m' v => .ok i' m' (mkSkipped (List.replicate k dflt) v) := by
  unfold repUnitP
  simp only [if_true]
  cases body i m <;> rfl

theorem repUnitP_fail_cases {sf body : Inp → M → R Val} {dflt : Val} {k idx : Nat} {i : Inp} {m mf : M}
    (h : repUnitP sf body dflt k idx i m = .fail mf) :
    (idx = 0 ∧ body i m = .fail mf) ∨
    (idx ≠ 0 ∧ (skipLoop sf k i m [] = .fail mf ∨
      ∃ i1 m1 sks, skipLoop sf k i m [] = .ok i1 m1 sks ∧ body i1 m1 = .fail mf)) := by
  unfold repUnitP at h
  split at h
  · next h0 =>
    left; refine ⟨h0, ?_⟩
    cases hb : body i m <;> rw [hb] at h <;> first | exact h | cases h
  · next h0 =>
    right; refine ⟨h0, ?_⟩
    cases hs : skipLoop sf k i m [] with
    | oof => simp only [hs] at h; cases h
    | fail mf' => simp only [hs] at h; left; injection h with h; rw [h]
    | ok i1 m1 sks =>
      simp only [hs] at h; right
      refine ⟨i1, m1, sks, rfl, ?_⟩
      cases hb : body i1 m1 <;> simp only [hb] at h <;> first | exact h | cases h

/-! ### consecutive iterations -/

/-- The recorded iterations tile the run: the first starts at `i`, each next one starts exactly
where its predecessor stopped, the last stops at `i'`. -/
def Linked : Inp → List Iter → Inp → Prop
  | i, [], i' => i' = i
  | i, it :: l, i' => it.start = i ∧ Linked it.stop l i'

theorem Linked.next : ∀ {l : List Iter} {i i' : Inp}, Linked i l i' →
    ∀ (j : Nat) (a b : Iter), l[j]? = some a → l[j+1]? = some b → b.start = a.stop
  | [], _, _, _, j, a, b, ha, _ => by simp at ha
  | [_], _, _, _, j, a, b, ha, hb => by
    cases j <;> simp at hb
  | x :: y :: l, i, i', h, j, a, b, ha, hb => by
    simp only [Linked] at h
    cases j with
    | zero => simp at ha hb; subst ha hb; exact h.2.1
    | succ j =>
      simp only [List.getElem?_cons_succ] at ha hb
      exact Linked.next (l := y :: l) (by simp only [Linked]; exact h.2) j a b ha hb

theorem Linked.head : ∀ {l : List Iter} {i i' : Inp}, Linked i l i' → ∀ it, l.head? = some it → it.start = i
  | [], _, _, _, it, h => by simp at h
  | x :: l, i, i', h, it, hh => by
    simp at hh; subst hh; exact h.1

theorem Linked.last : ∀ {l : List Iter} {i i' : Inp}, Linked i l i' → ∀ it, l.getLast? = some it → it.stop = i'
  | [], _, _, _, it, h => by simp at h
  | [x], i, i', h, it, hh => by
    simp at hh; subst hh
    simp only [Linked] at h; exact h.2.symm
  | x :: y :: l, i, i', h, it, hh => by
    rw [List.getLast?_cons_cons] at hh
    simp only [Linked] at h
    exact Linked.last (l := y :: l) (by simp only [Linked]; exact h.2) it hh

theorem Linked.nil_eq {i i' : Inp} (h : Linked i [] i') : i' = i := h

theorem SeqRun.linked {f : Node → Inp → M → R Val} {skip : Inp → M → R (List Val)}
    {ns : List Node} {i i' : Inp} {m m' : M} {l : List Iter}
    (h : SeqRun f skip ns i m l i' m') : Linked i l i' := by
  induction h with
  | nil => rfl
  | cons _ _ _ ih => exact ⟨rfl, ih⟩

theorem SeqRunAll.linked {f : Node → Inp → M → R Val} {skip : Inp → M → R (List Val)} {dflt : List Val}
    {ns : List Node} {i i' : Inp} {m m' : M} {l : List Iter}
    (h : SeqRunAll f skip dflt ns i m l i' m') : Linked i l i' := by
  cases h with
  | nil => rfl
  | cons _ h2 => exact ⟨rfl, h2.linked⟩

theorem RepRun.linked {skip : Inp → M → R (List Val)} {body : Inp → M → R Val} {dflt : List Val}
    {idx : Nat} {i i' : Inp} {m m' : M} {l : List Iter}
    (h : RepRun skip body dflt idx i m l i' m') : Linked i l i' := by
  induction h with
  | nil => rfl
  | first _ _ ih => exact ⟨rfl, ih⟩
  | next _ _ _ _ ih => exact ⟨rfl, ih⟩

/-- With the empty skip function and no default skip values, a recorded repetition run is a
back-to-back run of the element. -/
theorem RepRun.b2b {body : Inp → M → R Val} {idx : Nat} {i i' : Inp} {m m' : M} {l : List Iter}
    (h : RepRun noSkip body [] idx i m l i' m') :
    ∃ vs, B2B body i m vs i' m' ∧ l.map Iter.val = vs.map (mkSkipped []) ∧ vs.length = l.length := by
  induction h with
  | nil => exact ⟨[], B2B.nil _ _, rfl, rfl⟩
  | first hb _ ih =>
    obtain ⟨vs, hc, hv, hl⟩ := ih
    exact ⟨_ :: vs, B2B.cons hb hc, by simp [Iter.val, hv], by simp [hl]⟩
  | next _ hs hb _ ih =>
    obtain ⟨vs, hc, hv, hl⟩ := ih
    simp only [noSkip] at hs
    injection hs with a1 a2 a3; subst a1 a2 a3
    exact ⟨_ :: vs, B2B.cons hb hc, by simp [Iter.val, hv], by simp [hl]⟩

/-- The first recorded iteration of a run from index 0: started at the entry cursor, in the entry
state, no skip in front, default skip values in its skip slot. -/
theorem RepRun.head_zero {skip : Inp → M → R (List Val)} {body : Inp → M → R Val} {dflt : List Val}
    {i i' : Inp} {m m' : M} {it : Iter} {l : List Iter}
    (h : RepRun skip body dflt 0 i m (it :: l) i' m') :
    it.start = i ∧ it.mid = i ∧ it.skips = dflt ∧ ∃ m1, body i m = .ok it.stop m1 it.matched := by
  cases h with
  | first hb _ => exact ⟨rfl, rfl, rfl, _, hb⟩
  | next h0 _ _ _ => exact absurd rfl h0

/-! ### whole sequences and repetitions (self-contained copies of the shapes used by C17) -/

/-- A `SeqN` parse succeeds exactly when its elements run one after the other: the first without
any skip, the others each after `skipCount sk inh` runs of the skip type. -/
theorem parse_seq_run_iff (g : NodeGrammar) (uni : Uni) (fuel : Nat) (inh : Bool) (sk : Flag) (items : List Node)
    (i : Inp) (m : M) (i' : Inp) (m' : M) (w : Val) :
    parse g uni (fuel+1) inh (.seq sk items) i m = .ok i' m' w ↔
      ∃ l, SeqRunAll (parse g uni fuel inh) (skipRuns (parse g uni fuel false g.skipped) (skipCount sk inh))
          (List.replicate (skipCount sk inh) (defaultSkipVal g)) items i m l i' m' ∧
        w = .mk .seq (l.map Iter.val) := by
  simp only [parse]
  cases items with
  | nil =>
    simp only []
    constructor
    · intro h; injection h with a b c; subst a b c
      exact ⟨[], SeqRunAll.nil _ _, rfl⟩
    · rintro ⟨l, hr, rfl⟩; cases hr; rfl
  | cons n0 ns =>
    simp only []
    cases h0 : parse g uni fuel inh n0 i m with
    | oof =>
      constructor
      · intro h; cases h
      · rintro ⟨l, hr, _⟩; cases hr with | cons h1 _ => rw [h0] at h1; cases h1
    | fail mf =>
      constructor
      · intro h; cases h
      · rintro ⟨l, hr, _⟩; cases hr with | cons h1 _ => rw [h0] at h1; cases h1
    | ok i1 m1 v0 =>
      simp only []
      constructor
      · intro h
        split at h
        · cases h
        · cases h
        · next i2 m2 vs hl =>
          injection h with a b c; subst a b c
          obtain ⟨l, hr, ho⟩ := (seqLoop_ok_iff _ _ _ _ _ _ _ _ _).mp hl
          refine ⟨_ :: l, SeqRunAll.cons h0 hr, ?_⟩
          rw [ho]; simp [Iter.val]
      · rintro ⟨l, hr, rfl⟩
        cases hr with
        | cons h1 h2 =>
          rw [h0] at h1; injection h1 with a b c; subst a b c
          have := (seqLoop_ok_iff (parse g uni fuel inh)
            (skipRuns (parse g uni fuel false g.skipped) (skipCount sk inh))
            ns i1 m1 [] i' m' _).mpr ⟨_, h2, rfl⟩
          rw [this]; simp [Iter.val]

/-- What a successful repetition did: a run of successful iterations `0, 1, …` (`RepRun`), then
either `MAX` was reached or the next unit failed — and then only its tracker records are kept:
the cursor and the stack are those the last successful iteration left. -/
theorem parse_rep_run (g : NodeGrammar) (uni : Uni) (fuel : Nat) (inh : Bool) (sk : Flag) (min : Nat)
    (max : Option Nat) (x : Node) (i : Inp) (m : M) (i' : Inp) (m' : M) (w : Val)
    (h : parse g uni (fuel+1) inh (.rep sk min max x) i m = .ok i' m' w) :
    ∃ l mL, RepRun (skipRuns (parse g uni fuel false g.skipped) (skipCount sk inh)) (parse g uni fuel inh x)
          (List.replicate (skipCount sk inh) (defaultSkipVal g)) 0 i m l i' mL ∧
      m'.stk = mL.stk ∧ w = .mk (.rep min max) (l.map Iter.val) ∧
      min ≤ l.length ∧ (∀ mx, max = some mx → l.length ≤ mx) ∧
      ((max = some l.length ∧ m' = mL) ∨
       (max ≠ some l.length ∧ ∃ mf,
          repUnitP (parse g uni fuel false g.skipped) (parse g uni fuel inh x) (defaultSkipVal g)
            (skipCount sk inh) l.length i' mL = .fail mf ∧ m' = { mf with stk := mL.stk })) := by
  simp only [parse] at h
  split at h
  · cases h
  · cases h
  · next i1 m1 vs hl =>
    injection h with a b c; subst a b c
    obtain ⟨l, mL, hr, ho, hmin, hmx, hstop⟩ := repLoop_unitP_ok _ _ _ _ _ _ _ 0 _ _ [] _ _ _ rfl hl
    simp only [List.reverse_nil, List.nil_append] at ho
    subst ho
    simp only [Nat.zero_add] at hstop hmin
    refine ⟨l, mL, hr, ?_, rfl, hmin, ?_, hstop⟩
    · rcases hstop with ⟨_, rfl⟩ | ⟨_, mf, _, rfl⟩ <;> rfl
    · intro mx hmax; simpa using hmx mx hmax (Nat.zero_le _)

/-! ### a rule reference runs its body from edge to edge -/

/-- Verdict, end cursor and stack of a rule reference are those of its body run from the SAME
cursor and state under the atomicity `f.eval inh`: nothing is consumed before the body starts or
after it ends (the tracker frame of a non-silent rule is the only difference). -/
theorem ref_run_eq (g : NodeGrammar) (uni : Uni) (fuel : Nat) (inh : Bool) (r : RuleId) (f : Flag)
    (d : RuleDef) (hd : g.rule? r = some d) (i : Inp) (m : M) :
    (parse g uni (fuel+1) inh (.ref r f) i m).noTrk.forget =
      (parse g uni fuel (f.eval inh) d.body i m).noTrk.forget := by
  simp only [parse, hd]
  cases hemit : d.emit with
  | expression =>
    simp only []
    cases parse g uni fuel (f.eval inh) d.body i m <;> rfl
  | span =>
    simp only []
    have hc := check_eq_parse_forget g uni fuel (f.eval inh) d.body i { m with trk := m.trk.enter r i.pos }
    have hn := parse_noTrk g uni fuel (f.eval inh) d.body i { m with trk := m.trk.enter r i.pos } m rfl
    rw [hc]
    cases hp : parse g uni fuel (f.eval inh) d.body i { m with trk := m.trk.enter r i.pos } with
    | oof => rw [hp] at hn; rw [← hn]; try rfl
    | fail mf => rw [hp] at hn; rw [← hn]; try rfl
    | ok i1 m1 v => rw [hp] at hn; rw [← hn]; try rfl
  | both =>
    simp only []
    have hn := parse_noTrk g uni fuel (f.eval inh) d.body i { m with trk := m.trk.enter r i.pos } m rfl
    cases hp : parse g uni fuel (f.eval inh) d.body i { m with trk := m.trk.enter r i.pos } with
    | oof => rw [hp] at hn; rw [← hn]; try rfl
    | fail mf => rw [hp] at hn; rw [← hn]; try rfl
    | ok i1 m1 v => rw [hp] at hn; rw [← hn]; try rfl

/-- The value of a successful rule reference: a `.rule` node whose span is `[i.pos, i'.pos]`. -/
theorem ref_value (g : NodeGrammar) (uni : Uni) (fuel : Nat) (inh : Bool) (r : RuleId) (f : Flag)
    (i : Inp) (m : M) (i' : Inp) (m' : M) (v : Val)
    (h : parse g uni fuel inh (.ref r f) i m = .ok i' m' v) :
    ∃ d kids, g.rule? r = some d ∧ v = .mk (.rule r d.emit d.boxed i.pos i'.pos) kids := by
  cases fuel with
  | zero => cases h
  | succ fuel =>
    simp only [parse] at h
    split at h
    · cases h
    · next d hd =>
      refine ⟨d, ?_⟩
      split at h
      · next he =>
        split at h
        · cases h
        · cases h
        · injection h with a b c; subst a b c; exact ⟨_, hd, by rw [he]⟩
      · next he =>
        split at h
        · cases h
        · cases h
        · injection h with a b c; subst a b c; exact ⟨_, hd, by rw [he]⟩
      · next he =>
        split at h
        · cases h
        · cases h
        · injection h with a b c; subst a b c; exact ⟨_, hd, by rw [he]⟩

/-! ### the flags of a type expression -/

mutual
/-- Every `SKIP` argument of a sequence / repetition in the expression satisfies `p`, every
`INHERITED` argument `f` of a reference to rule `r` satisfies `q r f`.  Rule bodies behind the
references are NOT entered. -/
def Node.flagsAll (p : Flag → Prop) (q : RuleId → Flag → Prop) : Node → Prop
  | .seq sk items => p sk ∧ Node.flagsAllList p q items
  | .choice alts => Node.flagsAllList p q alts
  | .opt n => Node.flagsAll p q n
  | .rep sk _ _ n => p sk ∧ Node.flagsAll p q n
  | .atomicRepeat n => Node.flagsAll p q n
  | .pos n => Node.flagsAll p q n
  | .neg n => Node.flagsAll p q n
  | .push n => Node.flagsAll p q n
  | .ref r f => q r f
  | .array _ n => Node.flagsAll p q n
  | .pair a b => Node.flagsAll p q a ∧ Node.flagsAll p q b
  | _ => True
def Node.flagsAllList (p : Flag → Prop) (q : RuleId → Flag → Prop) : List Node → Prop
  | [] => True
  | n :: ns => Node.flagsAll p q n ∧ Node.flagsAllList p q ns
end

mutual
/-- The rule references occurring in the expression itself (bodies are not entered), with their
`INHERITED` argument. -/
def Node.refs : Node → List (RuleId × Flag)
  | .seq _ items => Node.refsList items
  | .choice alts => Node.refsList alts
  | .opt n => Node.refs n
  | .rep _ _ _ n => Node.refs n
  | .atomicRepeat n => Node.refs n
  | .pos n => Node.refs n
  | .neg n => Node.refs n
  | .push n => Node.refs n
  | .ref r f => [(r, f)]
  | .array _ n => Node.refs n
  | .pair a b => Node.refs a ++ Node.refs b
  | _ => []
def Node.refsList : List Node → List (RuleId × Flag)
  | [] => []
  | n :: ns => Node.refs n ++ Node.refsList ns
end

theorem Node.flagsAllList_mem {p : Flag → Prop} {q : RuleId → Flag → Prop} :
    ∀ {ns : List Node}, Node.flagsAllList p q ns → ∀ n ∈ ns, Node.flagsAll p q n
  | [], _, n, hn => by cases hn
  | a :: as, h, n, hn => by
    simp only [Node.flagsAllList] at h
    rcases List.mem_cons.mp hn with rfl | hn
    · exact h.1
    · exact Node.flagsAllList_mem h.2 n hn

theorem Node.flagsAllList_of_mem {p : Flag → Prop} {q : RuleId → Flag → Prop} :
    ∀ {ns : List Node}, (∀ n ∈ ns, Node.flagsAll p q n) → Node.flagsAllList p q ns
  | [], _ => by simp [Node.flagsAllList]
  | a :: as, h => by
    simp only [Node.flagsAllList]
    exact ⟨h a (by simp), Node.flagsAllList_of_mem (fun n hn => h n (by simp [hn]))⟩

mutual
/-- The reference flags of an expression whose flags are all good are good. -/
theorem Node.flagsAll_refs {p : Flag → Prop} {q : RuleId → Flag → Prop} :
    ∀ (n : Node), Node.flagsAll p q n → ∀ rf ∈ Node.refs n, q rf.1 rf.2
  | .seq sk items, h, rf, hrf => by
    simp only [Node.flagsAll] at h; simp only [Node.refs] at hrf
    exact Node.flagsAllList_refs items h.2 rf hrf
  | .choice alts, h, rf, hrf => by
    simp only [Node.flagsAll] at h; simp only [Node.refs] at hrf
    exact Node.flagsAllList_refs alts h rf hrf
  | .opt n, h, rf, hrf => by
    simp only [Node.flagsAll] at h; simp only [Node.refs] at hrf
    exact Node.flagsAll_refs n h rf hrf
  | .rep sk mn mx n, h, rf, hrf => by
    simp only [Node.flagsAll] at h; simp only [Node.refs] at hrf
    exact Node.flagsAll_refs n h.2 rf hrf
  | .atomicRepeat n, h, rf, hrf => by
    simp only [Node.flagsAll] at h; simp only [Node.refs] at hrf
    exact Node.flagsAll_refs n h rf hrf
  | .pos n, h, rf, hrf => by
    simp only [Node.flagsAll] at h; simp only [Node.refs] at hrf
    exact Node.flagsAll_refs n h rf hrf
  | .neg n, h, rf, hrf => by
    simp only [Node.flagsAll] at h; simp only [Node.refs] at hrf
    exact Node.flagsAll_refs n h rf hrf
  | .push n, h, rf, hrf => by
    simp only [Node.flagsAll] at h; simp only [Node.refs] at hrf
    exact Node.flagsAll_refs n h rf hrf
  | .ref r f, h, rf, hrf => by
    simp only [Node.flagsAll] at h; simp only [Node.refs, List.mem_singleton] at hrf
    subst hrf; exact h
  | .array k n, h, rf, hrf => by
    simp only [Node.flagsAll] at h; simp only [Node.refs] at hrf
    exact Node.flagsAll_refs n h rf hrf
  | .pair a b, h, rf, hrf => by
    simp only [Node.flagsAll] at h; simp only [Node.refs, List.mem_append] at hrf
    rcases hrf with hrf | hrf
    · exact Node.flagsAll_refs a h.1 rf hrf
    · exact Node.flagsAll_refs b h.2 rf hrf
  | .str _, _, rf, hrf => by simp [Node.refs] at hrf
  | .insens _, _, rf, hrf => by simp [Node.refs] at hrf
  | .range _ _, _, rf, hrf => by simp [Node.refs] at hrf
  | .any, _, rf, hrf => by simp [Node.refs] at hrf
  | .soi, _, rf, hrf => by simp [Node.refs] at hrf
  | .eoi, _, rf, hrf => by simp [Node.refs] at hrf
  | .newline, _, rf, hrf => by simp [Node.refs] at hrf
  | .charBy _, _, rf, hrf => by simp [Node.refs] at hrf
  | .skipUntil _, _, rf, hrf => by simp [Node.refs] at hrf
  | .skipChars _, _, rf, hrf => by simp [Node.refs] at hrf
  | .peek, _, rf, hrf => by simp [Node.refs] at hrf
  | .peekAll, _, rf, hrf => by simp [Node.refs] at hrf
  | .pop, _, rf, hrf => by simp [Node.refs] at hrf
  | .popAll, _, rf, hrf => by simp [Node.refs] at hrf
  | .drop, _, rf, hrf => by simp [Node.refs] at hrf
  | .peekSlice _ _, _, rf, hrf => by simp [Node.refs] at hrf
  | .empty, _, rf, hrf => by simp [Node.refs] at hrf
  | .alwaysFail, _, rf, hrf => by simp [Node.refs] at hrf
theorem Node.flagsAllList_refs {p : Flag → Prop} {q : RuleId → Flag → Prop} :
    ∀ (ns : List Node), Node.flagsAllList p q ns → ∀ rf ∈ Node.refsList ns, q rf.1 rf.2
  | [], _, rf, hrf => by simp [Node.refsList] at hrf
  | n :: ns, h, rf, hrf => by
    simp only [Node.flagsAllList] at h; simp only [Node.refsList, List.mem_append] at hrf
    rcases hrf with hrf | hrf
    · exact Node.flagsAll_refs n h.1 rf hrf
    · exact Node.flagsAllList_refs ns h.2 rf hrf
end

/-! ### the inherited atomicity enters the interpreter only through the flags -/

theorem seqLoop_congr_on {α β} {f f' : Node → Inp → M → R α} (skip : Inp → M → R (List β))
    (mk : List β → α → α) :
    ∀ (ns : List Node), (∀ n ∈ ns, f n = f' n) → ∀ i m acc,
      seqLoop f skip mk ns i m acc = seqLoop f' skip mk ns i m acc := by
  intro ns
  induction ns with
  | nil => intros; rfl
  | cons n ns ih =>
    intro h i m acc
    simp only [seqLoop, h n (by simp)]
    cases skip i m with
    | oof => rfl
    | fail _ => rfl
    | ok i1 m1 sk =>
      simp only []
      cases f' n i1 m1 with
      | oof => rfl
      | fail _ => rfl
      | ok i2 m2 v => exact ih (fun x hx => h x (by simp [hx])) _ _ _

theorem choiceLoop_congr_on {α} {f f' : Node → Inp → M → R α} :
    ∀ (ns : List Node), (∀ n ∈ ns, f n = f' n) → ∀ k i m,
      choiceLoop f ns k i m = choiceLoop f' ns k i m := by
  intro ns
  induction ns with
  | nil => intros; rfl
  | cons n ns ih =>
    intro h k i m
    simp only [choiceLoop, h n (by simp)]
    cases restoreOnNone m.stk (f' n i m) with
    | oof => rfl
    | ok _ _ _ => rfl
    | fail m' => exact ih (fun x hx => h x (by simp [hx])) _ _ _

/-- `parse` depends on the inherited-atomicity argument only through the values of the flags
written in the expression: two contexts under which every `SKIP` / `INHERITED` argument of the
expression evaluates alike give the same run. -/
theorem parse_inh_congr (g : NodeGrammar) (uni : Uni) (a b : Bool) :
    ∀ (n : Nat) (node : Node),
      Node.flagsAll (fun f => f.eval a = f.eval b) (fun _ f => f.eval a = f.eval b) node →
      parse g uni n a node = parse g uni n b node := by
  intro n
  induction n with
  | zero => intro node _; funext i m; rfl
  | succ n ih =>
    intro node h
    have ihc : ∀ node, Node.flagsAll (fun f => f.eval a = f.eval b) (fun _ f => f.eval a = f.eval b) node →
        check g uni n a node = check g uni n b node := by
      intro node h; funext i m
      rw [check_eq_parse_forget, check_eq_parse_forget, ih node h]
    funext i m
    cases node with
    | seq sk items =>
      simp only [parse]
      cases items with
      | nil => rfl
      | cons n0 ns =>
        simp only [Node.flagsAll, Node.flagsAllList] at h
        have e1 : skipCount sk a = skipCount sk b := by simp only [skipCount, h.1]
        have e2 := seqLoop_congr_on (f := parse g uni n a) (f' := parse g uni n b)
          (fun i m => skipLoop (parse g uni n false g.skipped) (skipCount sk b) i m []) mkSkipped ns
          (fun x hx => ih x (Node.flagsAllList_mem h.2.2 x hx))
        simp only [ih n0 h.2.1, e1, e2]
    | choice alts =>
      simp only [Node.flagsAll] at h
      simp only [parse, choiceLoop_congr_on alts (fun x hx => ih x (Node.flagsAllList_mem h x hx))]
    | opt x =>
      simp only [Node.flagsAll] at h
      simp only [parse, ih x h]
    | rep sk mn mx x =>
      simp only [Node.flagsAll] at h
      have e1 : skipCount sk a = skipCount sk b := by simp only [skipCount, h.1]
      simp only [parse, ih x h.2, e1]
    | atomicRepeat x =>
      simp only [Node.flagsAll] at h
      simp only [parse, ih x h]
    | pos x =>
      simp only [Node.flagsAll] at h
      simp only [parse, ih x h]
    | neg x =>
      simp only [Node.flagsAll] at h
      simp only [parse, ihc x h]
    | push x =>
      simp only [Node.flagsAll] at h
      simp only [parse, ih x h]
    | ref r f =>
      simp only [Node.flagsAll] at h
      simp only [parse, h]
    | array k x =>
      simp only [Node.flagsAll] at h
      simp only [parse, arrayTryInto_arrayLoop, ih x h]
    | pair x y =>
      simp only [Node.flagsAll] at h
      simp only [parse, ih x h.1, ih y h.2]
    | _ => simp only [parse]

/-! ### the flags the generator writes -/

/-- The spine of a sequence inherits the flags of the translated expression. -/
theorem genSeqSpine_flags_of (pg : PGrammar) (sk : Flag) (p : Flag → Prop) (q : RuleId → Flag → Prop)
    (e : PExpr) (h : Node.flagsAll p q (genExpr pg sk e)) : Node.flagsAllList p q (genSeqSpine pg sk e) := by
  cases e <;> simp only [genSeqSpine, Node.flagsAllList, and_true] <;> try exact h
  simp only [genExpr, Node.flagsAll, Node.flagsAllList] at h
  exact h.2

theorem genChoiceSpine_flags_of (pg : PGrammar) (sk : Flag) (p : Flag → Prop) (q : RuleId → Flag → Prop)
    (e : PExpr) (h : Node.flagsAll p q (genExpr pg sk e)) : Node.flagsAllList p q (genChoiceSpine pg sk e) := by
  cases e <;> simp only [genChoiceSpine, Node.flagsAllList, and_true] <;> try exact h
  simp only [genExpr, Node.flagsAll, Node.flagsAllList] at h
  exact h

theorem builtinNode_flags (p : Flag → Prop) (q : RuleId → Flag → Prop) (hq0 : q 0 .one) (name : String) :
    Node.flagsAll p q (builtinNode name) := by
  unfold builtinNode
  simp [apply_ite (Node.flagsAll p q), Node.flagsAll, Node.flagsAllList, asciiDigit, asciiAlpha,
    asciiAlphaLower, asciiAlphaUpper, hq0]

/-- `generate_graph_node` writes the rule's `#skip` token `sk` at every sequence, every repetition
and every reference to a rule of the grammar; the only other reference it writes is `EOI<'i, 1>`. -/
theorem genExpr_flags (pg : PGrammar) (sk : Flag) (p : Flag → Prop) (q : RuleId → Flag → Prop)
    (hp : p sk) (hq : ∀ k, q (k+1) sk) (hq0 : q 0 .one) :
    ∀ e : PExpr, Node.flagsAll p q (genExpr pg sk e) := by
  intro e
  induction e with
  | ident name =>
    simp only [genExpr]
    split
    · simp only [Node.flagsAll]; exact hq _
    · exact builtinNode_flags p q hq0 name
  | seq x y ihx ihy =>
    simp only [genExpr, Node.flagsAll, Node.flagsAllList]
    exact ⟨hp, ihx, genSeqSpine_flags_of pg sk p q y ihy⟩
  | choice x y ihx ihy =>
    simp only [genExpr, Node.flagsAll, Node.flagsAllList]
    exact ⟨ihx, genChoiceSpine_flags_of pg sk p q y ihy⟩
  | posPred x ih => simpa only [genExpr, Node.flagsAll] using ih
  | negPred x ih => simpa only [genExpr, Node.flagsAll] using ih
  | opt x ih => simpa only [genExpr, Node.flagsAll] using ih
  | push x ih => simpa only [genExpr, Node.flagsAll] using ih
  | restoreOnErr x ih => simpa only [genExpr] using ih
  | rep x ih => simp only [genExpr, Node.flagsAll]; exact ⟨hp, ih⟩
  | repOnce x ih => simp only [genExpr, Node.flagsAll]; exact ⟨hp, ih⟩
  | repExact x k ih => simp only [genExpr, Node.flagsAll]; exact ⟨hp, ih⟩
  | repMin x k ih => simp only [genExpr, Node.flagsAll]; exact ⟨hp, ih⟩
  | repMax x k ih => simp only [genExpr, Node.flagsAll]; exact ⟨hp, ih⟩
  | repMinMax x k l ih => simp only [genExpr, Node.flagsAll]; exact ⟨hp, ih⟩
  | _ => simp [genExpr, Node.flagsAll]

/-- Inside `generics::Skipped` every rule reference carries the literal `0`. -/
theorem genSkipped_flags (pg : PGrammar) :
    Node.flagsAll (fun _ => False) (fun _ f => f = .zero) (genSkipped pg) := by
  unfold genSkipped
  split <;> simp [Node.flagsAll, Node.flagsAllList]

/-- The body of a generated rule: the translation of its expression under the rule's own token. -/
theorem gen_rule_body (pg : PGrammar) (k : Nat) (d : RuleDef) (pr : PRule)
    (hd : (gen pg).rule? (k+1) = some d) (hr : pg[k]? = some pr) : d = genRule pg pr := by
  simp only [NodeGrammar.rule?, gen, List.getElem?_cons_succ, List.getElem?_map, hr, Option.map_some] at hd
  injection hd with hd; exact hd.symm

/-! ### vocabulary of the inheritance theorems of Props/C07 -/

/-- The value every `SKIP` / `INHERITED` argument written in the body of a rule of kind `K`
evaluates to when the body is entered under `inh`. -/
def kindFlagVal : RuleKind → Bool → Bool
  | .atomic, _ => false
  | .compoundAtomic, _ => false
  | .nonAtomic, _ => true
  | .normal, inh => inh
  | .silent, inh => inh

theorem atomFlag_eval (K : RuleKind) (inh : Bool) :
    (atomFlag (kindAtomicity K)).eval inh = kindFlagVal K inh := by
  cases K <;> rfl

/-- `InhPath G inh rs v`: `rs = r0 :: r1 :: …` is a reference path of `G` — the body of each rule
contains a reference to the next — and, the body of `r0` running under the inherited atomicity
`inh`, the body of the last rule runs under `v` (each reference hands `f.eval _` on: the `.ref`
clause of `parse`, `C07_rule_edges`). -/
inductive InhPath (G : NodeGrammar) : Bool → List RuleId → Bool → Prop
  | last (inh : Bool) (r : RuleId) : InhPath G inh [r] inh
  | step {inh v : Bool} {r r' : RuleId} {rest : List RuleId} {d : RuleDef} {f : Flag} :
      G.rule? r = some d → (r', f) ∈ d.body.refs → InhPath G (f.eval inh) (r' :: rest) v →
      InhPath G inh (r :: r' :: rest) v

/-- Rule id `r` is rule `k+1` of the generated module, of kind `K` in the grammar. -/
def HasKind (pg : PGrammar) (r : RuleId) (K : RuleKind) : Prop :=
  ∃ k pr, r = k + 1 ∧ pg[k]? = some pr ∧ pr.kind = K

/-- The rules of a path and their kinds, position by position. -/
inductive KindsOf (pg : PGrammar) : List RuleId → List RuleKind → Prop
  | nil : KindsOf pg [] []
  | cons {r : RuleId} {K : RuleKind} {rs : List RuleId} {ks : List RuleKind} :
      HasKind pg r K → KindsOf pg rs ks → KindsOf pg (r :: rs) (K :: ks)

/-- The flag in force at the skip sites of the last rule of a path, computed step by step. -/
def flagAlong (inh : Bool) (ks : List RuleKind) : Bool := ks.foldl (fun b K => kindFlagVal K b) inh

/-- The flag determined by the LAST kind on the path that is not normal / silent: `false` for `@`
and `$`, `true` for `!`; `true` if there is none (entry points start with `INHERITED = 1`). -/
def pathFlag (ks : List RuleKind) : Bool :=
  match ks.reverse.find? (fun K => K != .normal && K != .silent) with
  | some .nonAtomic => true
  | some _ => false
  | none => true

end PestTyped
