/-
Lemmas.AcyclicRank — finite acyclic graphs have a rank function (generic, core only).

A graph is a successor function `succ : α → List α`.
* `ReachAvoid succ avoid x z`   `x` reaches `z` by a non-empty path whose INTERMEDIATE nodes are not
                                in `avoid` (`Reach succ = ReachAvoid succ []` is the transitive closure).
* `ReachAvoid.avoid_self`       a path from `x` can be cut at the last visit of `x`: the search that never
                                re-enters a node of its current trace loses no target.
* `exists_rank_of_acyclic`      if no node reaches itself, `rank x` = number of nodes of `nodes`
                                reachable from `x` strictly decreases along every edge into `nodes`.
-/
namespace PestTyped.Acyclic

section
variable {α : Type}

/-- `x` reaches `z` along `succ` by a non-empty path; the nodes strictly between are not in `avoid`. -/
inductive ReachAvoid (succ : α → List α) (avoid : List α) : α → α → Prop
  | step {x z : α} : z ∈ succ x → ReachAvoid succ avoid x z
  | trans {x y z : α} : y ∈ succ x → y ∉ avoid → ReachAvoid succ avoid y z → ReachAvoid succ avoid x z

/-- Transitive closure of the edge relation. -/
abbrev Reach (succ : α → List α) : α → α → Prop := ReachAvoid succ []

theorem ReachAvoid.mono {succ : α → List α} {a b : List α} (hab : ∀ y, y ∈ b → y ∈ a) {x z : α}
    (h : ReachAvoid succ a x z) : ReachAvoid succ b x z := by
  induction h with
  | step h => exact .step h
  | trans hy hn _ ih => exact .trans hy (fun hb => hn (hab _ hb)) ih

theorem ReachAvoid.toReach {succ : α → List α} {a : List α} {x z : α}
    (h : ReachAvoid succ a x z) : Reach succ x z :=
  h.mono (fun _ hy => by cases hy)

/-- The source of a path has a successor. -/
theorem ReachAvoid.succ_ne_nil {succ : α → List α} {a : List α} {x z : α}
    (h : ReachAvoid succ a x z) : succ x ≠ [] := by
  cases h with
  | step h => intro h0; rw [h0] at h; cases h
  | trans h _ _ => intro h0; rw [h0] at h; cases h

theorem Reach.trans' {succ : α → List α} {x y z : α} (hxy : y ∈ succ x) (h : Reach succ y z) :
    Reach succ x z :=
  .trans hxy (fun h => by cases h) h

/-- Either the path also avoids `w`, or its part after the last visit of `w` is a path from `w`. -/
theorem ReachAvoid.avoid_or {succ : α → List α} {a : List α} (w : α) {x z : α}
    (h : ReachAvoid succ a x z) :
    ReachAvoid succ (w :: a) x z ∨ ReachAvoid succ (w :: a) w z := by
  induction h with
  | step h => exact .inl (.step h)
  | @trans x y z hy hn _ ih =>
    rcases ih with ih | ih
    · by_cases hyw : y = w
      · subst hyw; exact .inr ih
      · refine .inl (.trans hy ?_ ih)
        intro hm
        rcases List.mem_cons.mp hm with h1 | h1
        · exact hyw h1
        · exact hn h1
    · exact .inr ih

/-- A path from `x` can be taken not to come back to `x` before its end. -/
theorem ReachAvoid.avoid_self {succ : α → List α} {a : List α} {x z : α}
    (h : ReachAvoid succ a x z) : ReachAvoid succ (x :: a) x z := by
  rcases h.avoid_or x with h | h <;> exact h

/-! ### rank -/

theorem length_filter_lt_of_imp (p q : α → Bool) (hpq : ∀ x, p x = true → q x = true) :
    ∀ (l : List α) (w : α), w ∈ l → q w = true → p w = false →
      (l.filter p).length < (l.filter q).length := by
  intro l
  induction l with
  | nil => intro w hw; cases hw
  | cons a l ih =>
    intro w hw hq hp
    have hle : (l.filter p).length ≤ (l.filter q).length := by
      clear ih hw
      induction l with
      | nil => simp
      | cons b l ih2 =>
        simp only [List.filter_cons]
        cases hb : p b
        · simp only [Bool.false_eq_true, if_false]
          split <;> (try simp only [List.length_cons]) <;> omega
        · simp only [hpq b hb, if_true, List.length_cons]; omega
    simp only [List.filter_cons]
    rcases List.mem_cons.mp hw with rfl | hw'
    · simp only [hp, hq, Bool.false_eq_true, if_false, if_true, List.length_cons]; omega
    · have := ih w hw' hq hp
      cases ha : p a
      · simp only [Bool.false_eq_true, if_false]
        split <;> (try simp only [List.length_cons]) <;> omega
      · simp only [hpq a ha, if_true, List.length_cons]; omega

/-- A graph without cycles has a rank that strictly decreases along every edge whose target is one
of the finitely many `nodes`. -/
theorem exists_rank_of_acyclic (succ : α → List α) (nodes : List α)
    (hacyc : ∀ x, ¬ Reach succ x x) :
    ∃ rank : α → Nat, ∀ x y, y ∈ succ x → y ∈ nodes → rank y < rank x := by
  classical
  refine ⟨fun x => (nodes.filter fun z => decide (Reach succ x z)).length, ?_⟩
  intro x y hxy hy
  refine length_filter_lt_of_imp _ _ ?_ nodes y hy ?_ ?_
  · intro z hz
    simp only [decide_eq_true_eq] at hz ⊢
    exact Reach.trans' hxy hz
  · simp only [decide_eq_true_eq]; exact .step hxy
  · simp only [decide_eq_false_iff_not]; exact hacyc y

end

end PestTyped.Acyclic
