/-
Lemmas.PestOptTokUnroll — pest_meta's `unroll` pass (`optimizer/unroller.rs`; mirror: `unrollClosure`,
`unrollExpr`, `seqOf` of `Model/PestOpt.lean`) against the TOKEN semantics (`Model/SpecTokens.lean`, in its
fuel-free form `denT` of `Lemmas/PestOptTokDen.lean`).  Token-level analogue of sections 1–4 of
`Lemmas/PestOptUnroll.lean`: under the same conditions
  (C1) `NoSkipCtx g am.na`: skipping is off, or the grammar defines neither WHITESPACE nor COMMENT;
  (C2) `unrollSafe e`: `n ≤ m` on every `x{n,m}` (and the non-panicking bounds),
the rewritten expression has the same denotation INCLUDING the emitted token list (`TokEquiv`).

Contents
1. `denSkip_noRules`, `denSkipIf_noskip`, `denT_seq_noskip`, `denUnit_noskip`.
2. `denTList` (the items one after the other, tokens concatenated), `denTList_append`, `denT_seqOf`.
3. `denCount` (plain counting loop over `denT x`), its one-step equations, the list forms
   `denCount_bounded_list`, `denCount_unbounded_list`, and `denT_repOnce_list`, `denT_repExact_list`,
   `denT_repMin_list`, `denT_repMax_list`, `denT_repMinMax_list`.
4. `tunroll_repOnce_tequiv`, `tunroll_repExact_tequiv`, `tunroll_repMin_tequiv`, `tunroll_repMax_tequiv`,
   `tunroll_repMinMax_tequiv`; `unrollClosure_tequiv`, `unrollExpr_tequiv`, `unrollExpr_tequiv_body`.
5. non-vacuity.
-/
import PestTyped.Lemmas.PestOptTokDen
import PestTyped.Lemmas.PestOptUnroll
set_option linter.unusedVariables false
namespace PestTyped

/-! ## 0. Algebra of `STR.andThen` / `STR.pfx` -/

theorem tunroll_andThen_pfx (t : List Token) (r : STR) (k : Inp → List Sp → STR) :
    STR.andThen (STR.pfx t r) k = STR.pfx t (STR.andThen r k) := by
  cases r with
  | oof => rfl
  | fail => rfl
  | ok i S ts => simp only [STR.pfx_ok, STR.andThen_ok, STR.pfx_pfx]

theorem tunroll_andThen_assoc (r : STR) (k k' : Inp → List Sp → STR) :
    STR.andThen (STR.andThen r k) k' = STR.andThen r (fun i S => STR.andThen (k i S) k') := by
  cases r with
  | oof => rfl
  | fail => rfl
  | ok i S ts => simp only [STR.andThen_ok, tunroll_andThen_pfx]

theorem tunroll_andThen_ret (r : STR) : STR.andThen r (fun i S => .ok i S []) = r := by
  cases r with
  | oof => rfl
  | fail => rfl
  | ok i S ts => simp only [STR.andThen_ok, STR.pfx_ok, List.append_nil]

/-! ## 1. Contexts without implicit skipping -/

section NoSkip
variable {g : PGrammar} {uni : Uni} {am : Atom3} {i : Inp} {S : List Sp}

theorem denSkipUnit_noRules (hW : g.defines "WHITESPACE" = false) (hC : g.defines "COMMENT" = false) :
    denSkipUnit g uni i S = .fail := by
  unfold denSkipUnit specTokSkipUnit
  rw [hW, hC]
  simp only [Bool.false_eq_true, if_false]

/-- Without skip rules the implicit skip does nothing (and emits nothing). -/
theorem denSkip_noRules (hW : g.defines "WHITESPACE" = false) (hC : g.defines "COMMENT" = false) :
    denSkip g uni i S = .ok i S [] := by
  unfold denSkip
  rw [denLoop_fail (U := fun _ => denSkipUnit g uni) (by nofun) (denSkipUnit_noRules hW hC)]
  simp only [tokStop, Nat.lt_irrefl, if_false]

/-- Under `NoSkipCtx` the skip between sequence elements is the identity. -/
theorem denSkipIf_noskip (hctx : NoSkipCtx g am.na) : denSkipIf g uni am i S = .ok i S [] := by
  rcases hctx with h | ⟨hW, hC⟩
  · exact denSkipIf_atomic h
  · unfold denSkipIf
    split
    · exact denSkip_noRules hW hC
    · rfl

/-- `a ~ b` without implicit skipping: the tokens of `a` then those of `b`. -/
theorem denT_seq_noskip (hctx : NoSkipCtx g am.na) {a b : PExpr} :
    denT g uni am (.seq a b) i S = (denT g uni am a i S).andThen (denT g uni am b) := by
  rw [denT_seq]
  congr 1
  funext i1 S1
  rw [denSkipIf_noskip hctx, STR.andThen_ok, STR.pfx_nil]

/-- An iteration of a repetition without implicit skipping is the body. -/
theorem denUnit_noskip (hctx : NoSkipCtx g am.na) {e : PExpr} {idx : Nat} :
    denUnit g uni am e idx i S = denT g uni am e i S := by
  rcases hctx with h | ⟨hW, hC⟩
  · exact denUnit_atomic h
  · unfold denUnit
    split
    · rfl
    · rw [denSkip_noRules hW hC, STR.andThen_ok, STR.pfx_nil]

end NoSkip

/-! ## 2. Lists of items run one after the other; `seqOf` -/

/-- The items one after the other (no implicit skip in between), tokens concatenated; the first failure
fails the list. -/
noncomputable def denTList (g : PGrammar) (uni : Uni) (am : Atom3) : List PExpr → Inp → List Sp → STR
  | [], i, S => .ok i S []
  | e :: es, i, S => STR.andThen (denT g uni am e i S) (fun i1 S1 => denTList g uni am es i1 S1)

section TList
variable {g : PGrammar} {uni : Uni} {am : Atom3} {i : Inp} {S : List Sp}

theorem denTList_nil : denTList g uni am [] i S = .ok i S [] := by
  simp only [denTList]

theorem denTList_cons {e : PExpr} {es : List PExpr} :
    denTList g uni am (e :: es) i S = STR.andThen (denT g uni am e i S) (denTList g uni am es) := by
  simp only [denTList]

theorem denTList_singleton {e : PExpr} : denTList g uni am [e] i S = denT g uni am e i S := by
  rw [denTList_cons]
  have : denTList g uni am [] = fun i S => .ok i S [] := by
    funext i S; exact denTList_nil
  rw [this, tunroll_andThen_ret]

/-- Concatenation of item lists = sequential composition. -/
theorem denTList_append : ∀ (xs ys : List PExpr) (i : Inp) (S : List Sp),
    denTList g uni am (xs ++ ys) i S = STR.andThen (denTList g uni am xs i S) (denTList g uni am ys)
  | [], ys, i, S => by
    rw [List.nil_append, denTList_nil, STR.andThen_ok, STR.pfx_nil]
  | x :: xs, ys, i, S => by
    have ih : denTList g uni am (xs ++ ys)
        = fun i S => STR.andThen (denTList g uni am xs i S) (denTList g uni am ys) := by
      funext i S; exact denTList_append xs ys i S
    rw [List.cons_append, denTList_cons, denTList_cons, ih, tunroll_andThen_assoc]

/-- `seqOf`: the right-nested sequence of a non-empty list of items runs them one after the other. -/
theorem denT_seqOf (hctx : NoSkipCtx g am.na) :
    ∀ (items : List PExpr) (e : PExpr), seqOf items = some e →
      ∀ i S, denT g uni am e i S = denTList g uni am items i S
  | [], e, h => by cases h
  | [a], e, h => by
    have : a = e := by injection h
    subst this
    intro i S; exact denTList_singleton.symm
  | a :: b :: es, e, h => by
    obtain ⟨t, ht⟩ := seqOf_cons_isSome es b
    rw [seqOf_cons_cons ht] at h
    have : PExpr.seq a t = e := by injection h
    subst this
    intro i S
    have ih : denT g uni am t = denTList g uni am (b :: es) := by
      funext i S; exact denT_seqOf hctx (b :: es) t ht i S
    rw [denT_seq_noskip hctx, denTList_cons, ih]

end TList

/-! ## 3. The repetition loop without implicit skipping -/

/-- The plain counting loop over `denT x` (empty accumulator). -/
noncomputable def denCount (g : PGrammar) (uni : Uni) (am : Atom3) (x : PExpr) (min : Nat) (max : Option Nat)
    (idx : Nat) (i : Inp) (S : List Sp) : STR :=
  denLoop (fun _ => denT g uni am x) min max idx i S []

section Count
variable {g : PGrammar} {uni : Uni} {am : Atom3} {x : PExpr} {min : Nat} {max : Option Nat} {idx : Nat}
  {i : Inp} {S : List Sp}

/-- Under `NoSkipCtx` the repetition loop is the plain counting loop. -/
theorem denLoop_noskip (hctx : NoSkipCtx g am.na) :
    denLoop (denUnit g uni am x) min max idx i S [] = denCount g uni am x min max idx i S := by
  have : denUnit g uni am x = fun _ => denT g uni am x := by
    funext idx i S; exact denUnit_noskip hctx
  rw [this]; rfl

theorem denCount_maxed (h : max = some idx) :
    denCount g uni am x min max idx i S = tokStop min idx i S [] :=
  denLoop_maxed (U := fun _ => denT g uni am x) h

theorem denCount_oof (hmax : max ≠ some idx) (h : denT g uni am x i S = .oof) :
    denCount g uni am x min max idx i S = .oof :=
  denLoop_oof (U := fun _ => denT g uni am x) hmax h

theorem denCount_fail (hmax : max ≠ some idx) (h : denT g uni am x i S = .fail) :
    denCount g uni am x min max idx i S = tokStop min idx i S [] :=
  denLoop_fail (U := fun _ => denT g uni am x) hmax h

theorem denCount_ok {i' : Inp} {S' : List Sp} {ts : List Token} (hmax : max ≠ some idx)
    (h : denT g uni am x i S = .ok i' S' ts) :
    denCount g uni am x min max idx i S = STR.pfx ts (denCount g uni am x min max (idx+1) i' S') := by
  unfold denCount
  rw [denLoop_ok (U := fun _ => denT g uni am x) hmax h, List.nil_append, denLoop_acc]

/-- A mandatory iteration: behaves like the head of a sequence. -/
theorem denCount_mandatory (hlt : idx < min) (hmax : max ≠ some idx) :
    denCount g uni am x min max idx i S =
      STR.andThen (denT g uni am x i S) (denCount g uni am x min max (idx+1)) := by
  cases h : denT g uni am x i S with
  | oof => rw [denCount_oof hmax h]; rfl
  | fail => rw [denCount_fail hmax h]; simp only [tokStop, if_pos hlt, STR.andThen_fail]
  | ok i' S' ts => rw [denCount_ok hmax h]; rfl

/-- `k` mandatory iterations up to `top ≤ min`, then whatever the loop does from `top`. -/
theorem denCount_mandatory_list {top : Nat} {tail : List PExpr} (hmin : top ≤ min)
    (hmax : ∀ j, j < top → max ≠ some j)
    (htail : ∀ i S, denCount g uni am x min max top i S = denTList g uni am tail i S) :
    ∀ (k idx : Nat), idx + k = top → ∀ i S,
      denCount g uni am x min max idx i S = denTList g uni am (List.replicate k x ++ tail) i S := by
  intro k
  induction k with
  | zero =>
    intro idx h i S
    have : idx = top := by omega
    subst this
    rw [List.replicate_zero, List.nil_append]
    exact htail i S
  | succ k ih =>
    intro idx h i S
    have ih' : denCount g uni am x min max (idx+1) = denTList g uni am (List.replicate k x ++ tail) := by
      funext i S; exact ih (idx+1) (by omega) i S
    rw [List.replicate_succ, List.cons_append, denTList_cons,
      denCount_mandatory (by omega) (hmax idx (by omega)), ih']

/-- Once `x` fails at a state, every further optional copy matches empty there. -/
theorem denTList_opts_of_fail (hf : denT g uni am x i S = .fail) :
    ∀ (k : Nat), denTList g uni am (List.replicate k (.opt x)) i S = .ok i S [] := by
  intro k
  induction k with
  | zero => exact denTList_nil
  | succ k ih =>
    rw [List.replicate_succ, denTList_cons, denT_opt, hf]
    simp only [optK, STR.andThen_ok, STR.pfx_nil]
    exact ih

/-- Past the minimum, `k` iterations below `max = some M`: `k` optional copies. -/
theorem denCount_optional_list {M : Nat} :
    ∀ (k idx : Nat), idx + k = M → min ≤ idx → ∀ i S,
      denCount g uni am x min (some M) idx i S = denTList g uni am (List.replicate k (.opt x)) i S := by
  intro k
  induction k with
  | zero =>
    intro idx h hle i S
    have : idx = M := by omega
    subst this
    rw [denCount_maxed rfl, List.replicate_zero, denTList_nil]
    simp only [tokStop, if_neg (Nat.not_lt.mpr hle)]
  | succ k ih =>
    intro idx h hle i S
    have hne : some M ≠ some idx := by intro h0; injection h0 with h0; omega
    have hs : tokStop min idx i S [] = .ok i S [] := by simp only [tokStop, if_neg (Nat.not_lt.mpr hle)]
    rw [List.replicate_succ, denTList_cons, denT_opt]
    cases hx : denT g uni am x i S with
    | oof => rw [denCount_oof hne hx]; rfl
    | fail =>
      rw [denCount_fail hne hx, hs]
      simp only [optK, STR.andThen_ok, STR.pfx_nil]
      exact (denTList_opts_of_fail hx k).symm
    | ok i' S' ts =>
      rw [denCount_ok hne hx]
      simp only [optK, STR.andThen_ok]
      rw [ih (idx+1) (by omega) (by omega) i' S']

/-- `x{n,m}` with `n ≤ m`, as a list: `n` copies of `x`, then `m - n` copies of `x?`. -/
theorem denCount_bounded_list {n m : Nat} (h : n ≤ m) :
    denCount g uni am x n (some m) 0 i S =
      denTList g uni am (List.replicate n x ++ List.replicate (m - n) (.opt x)) i S :=
  denCount_mandatory_list (top := n) (Nat.le_refl n)
    (fun j hj h0 => by injection h0 with h0; omega)
    (fun i S => denCount_optional_list (m - n) n (by omega) (Nat.le_refl n) i S)
    n 0 (by omega) i S

/-- Past the minimum an unbounded loop over an index-independent unit does not depend on the minimum
and on the iteration index (budget by budget). -/
theorem tunroll_loop_star_shift (V : Inp → List Sp → STR) :
    ∀ (b min idx min' idx' : Nat) (i : Inp) (S : List Sp) (acc : List Token), min ≤ idx → min' ≤ idx' →
      specTokRepLoop (fun _ => V) min none b idx i S acc = specTokRepLoop (fun _ => V) min' none b idx' i S acc := by
  intro b
  induction b with
  | zero => intros; rfl
  | succ b ih =>
    intro min idx min' idx' i S acc hle hle'
    have hs : tokStop min idx i S acc = tokStop min' idx' i S acc := by
      simp only [tokStop, if_neg (Nat.not_lt.mpr hle), if_neg (Nat.not_lt.mpr hle')]
    cases hv : V i S with
    | oof =>
      rw [specTokRepLoop_oof (u := fun _ => V) b acc (by nofun) hv,
        specTokRepLoop_oof (u := fun _ => V) b acc (by nofun) hv]
    | fail =>
      rw [specTokRepLoop_fail (u := fun _ => V) b acc (by nofun) hv,
        specTokRepLoop_fail (u := fun _ => V) b acc (by nofun) hv, hs]
    | ok i' S' ts =>
      rw [specTokRepLoop_ok (u := fun _ => V) b acc (by nofun) hv,
        specTokRepLoop_ok (u := fun _ => V) b acc (by nofun) hv]
      exact ih min (idx+1) min' (idx'+1) i' S' (acc ++ ts) (by omega) (by omega)

theorem denCount_star_shift (hle : min ≤ idx) :
    denCount g uni am x min none idx i S = denCount g uni am x 0 none 0 i S := by
  unfold denCount denLoop
  congr 1
  funext b
  exact tunroll_loop_star_shift _ b min idx 0 0 i S [] hle (Nat.le_refl 0)

/-- `x{n,}` as a list: `n` copies of `x`, then `x*`. -/
theorem denCount_unbounded_list (hctx : NoSkipCtx g am.na) {n : Nat} :
    denCount g uni am x n none 0 i S = denTList g uni am (List.replicate n x ++ [.rep x]) i S :=
  denCount_mandatory_list (max := none) (top := n) (Nat.le_refl n) (fun _ _ h0 => nomatch h0)
    (fun i S => by
      rw [denTList_singleton, denT_rep, denLoop_noskip hctx]
      exact denCount_star_shift (Nat.le_refl n))
    n 0 (by omega) i S

/-! ### the five counted forms as lists -/

theorem denT_repOnce_list (hctx : NoSkipCtx g am.na) :
    denT g uni am (.repOnce x) i S = denTList g uni am [x, .rep x] i S := by
  rw [denT_repOnce, denLoop_noskip hctx]
  exact denCount_unbounded_list hctx (n := 1)

theorem denT_repMin_list (hctx : NoSkipCtx g am.na) {n : Nat} :
    denT g uni am (.repMin x n) i S = denTList g uni am (List.replicate n x ++ [.rep x]) i S := by
  rw [denT_repMin, denLoop_noskip hctx]
  exact denCount_unbounded_list hctx

theorem denT_repMinMax_list (hctx : NoSkipCtx g am.na) {n m : Nat} (hnm : n ≤ m) :
    denT g uni am (.repMinMax x n m) i S =
      denTList g uni am (List.replicate n x ++ List.replicate (m - n) (.opt x)) i S := by
  rw [denT_repMinMax, denLoop_noskip hctx]
  exact denCount_bounded_list hnm

theorem denT_repExact_list (hctx : NoSkipCtx g am.na) {n : Nat} :
    denT g uni am (.repExact x n) i S = denTList g uni am (List.replicate n x) i S := by
  rw [denT_repExact, denLoop_noskip hctx, denCount_bounded_list (Nat.le_refl n), Nat.sub_self,
    List.replicate_zero, List.append_nil]

theorem denT_repMax_list (hctx : NoSkipCtx g am.na) {m : Nat} :
    denT g uni am (.repMax x m) i S = denTList g uni am (List.replicate m (.opt x)) i S := by
  rw [denT_repMax, denLoop_noskip hctx, denCount_bounded_list (Nat.zero_le m), Nat.sub_zero,
    List.replicate_zero, List.nil_append]

end Count

/-! ## 4. The closure and the pass -/

section Closure
variable {g : PGrammar} {uni : Uni} {am : Atom3}

/-- `(seqOf items).getD e` is token-equivalent to `e` as soon as `e` runs like the item list. -/
theorem tunroll_getD_tequiv (hctx : NoSkipCtx g am.na) {e : PExpr} {items : List PExpr}
    (h : ∀ i S, denT g uni am e i S = denTList g uni am items i S) :
    TokEquiv g g uni am e ((seqOf items).getD e) := by
  cases items with
  | nil => exact TokEquiv.refl _ _ _ _
  | cons a es =>
    obtain ⟨t, ht⟩ := seqOf_cons_isSome es a
    rw [ht, Option.getD_some]
    refine .of_forall fun i S => ?_
    rw [denT_seqOf hctx _ _ ht]
    exact h i S

/-- `x+ ≡ x ~ x*` (tokens included) when nothing is skipped implicitly. -/
theorem tunroll_repOnce_tequiv (hctx : NoSkipCtx g am.na) (x : PExpr) :
    TokEquiv g g uni am (.repOnce x) (unrollClosure (.repOnce x)) :=
  .of_forall fun i S => by
    show denT g uni am (.repOnce x) i S = denT g uni am (.seq x (.rep x)) i S
    rw [denT_repOnce_list hctx, denT_seqOf hctx [x, .rep x] _ rfl]

/-- `x{n} ≡ x ~ … ~ x` (unchanged for `n = 0`). -/
theorem tunroll_repExact_tequiv (hctx : NoSkipCtx g am.na) (x : PExpr) (n : Nat) :
    TokEquiv g g uni am (.repExact x n) (unrollClosure (.repExact x n)) :=
  tunroll_getD_tequiv hctx (fun _ _ => denT_repExact_list hctx)

/-- `x{n,} ≡ x ~ … ~ x ~ x*`. -/
theorem tunroll_repMin_tequiv (hctx : NoSkipCtx g am.na) (x : PExpr) (n : Nat) :
    TokEquiv g g uni am (.repMin x n) (unrollClosure (.repMin x n)) :=
  tunroll_getD_tequiv hctx (fun _ _ => denT_repMin_list hctx)

/-- `x{,m} ≡ x? ~ … ~ x?` (unchanged for `m = 0`). -/
theorem tunroll_repMax_tequiv (hctx : NoSkipCtx g am.na) (x : PExpr) (m : Nat) :
    TokEquiv g g uni am (.repMax x m) (unrollClosure (.repMax x m)) :=
  tunroll_getD_tequiv hctx (fun _ _ => denT_repMax_list hctx)

/-- `x{n,m} ≡` `n` copies of `x` then `m - n` copies of `x?`, PROVIDED `n ≤ m`. -/
theorem tunroll_repMinMax_tequiv (hctx : NoSkipCtx g am.na) (x : PExpr) {n m : Nat} (h : n ≤ m) :
    TokEquiv g g uni am (.repMinMax x n m) (unrollClosure (.repMinMax x n m)) := by
  have key : TokEquiv g g uni am (.repMinMax x n m)
      ((seqOf (List.replicate (min n m) x ++ List.replicate (m - n) (.opt x))).getD (.repMinMax x n m)) := by
    rw [Nat.min_eq_left h]
    exact tunroll_getD_tequiv hctx (fun _ _ => denT_repMinMax_list hctx h)
  simpa only [unrollClosure, unroll_minmax_items] using key

/-- The closure of `unroll` preserves the token semantics at every safe node. -/
theorem unrollClosure_tequiv (hctx : NoSkipCtx g am.na) :
    ∀ e, unrollSafeNode e = true → TokEquiv g g uni am e (unrollClosure e) := by
  intro e h
  cases e with
  | repOnce x => exact tunroll_repOnce_tequiv hctx x
  | repExact x n => exact tunroll_repExact_tequiv hctx x n
  | repMin x n => exact tunroll_repMin_tequiv hctx x n
  | repMax x m => exact tunroll_repMax_tequiv hctx x m
  | repMinMax x n m =>
    simp only [unrollSafeNode, Bool.and_eq_true, decide_eq_true_eq] at h
    exact tunroll_repMinMax_tequiv hctx x h.1
  | _ => exact TokEquiv.refl _ _ _ _

/-- `mapBottomUp unrollClosure` preserves the token semantics of safe expressions. -/
theorem tunroll_mapBottomUp_tequiv (hctx : NoSkipCtx g am.na) :
    ∀ e, unrollSafe e = true → TokEquiv g g uni am e (mapBottomUp unrollClosure e) := by
  intro e
  induction e with
  | posPred e ih =>
    intro h; simp only [unrollSafe] at h
    exact (TokEquiv.posPred (ih h)).trans (unrollClosure_tequiv hctx _ rfl)
  | negPred e ih =>
    intro h; simp only [unrollSafe] at h
    exact (TokEquiv.negPred (ih h)).trans (unrollClosure_tequiv hctx _ rfl)
  | seq a b iha ihb =>
    intro h; simp only [unrollSafe, Bool.and_eq_true] at h
    exact (TokEquiv.seq (iha h.1) (ihb h.2)).trans (unrollClosure_tequiv hctx _ rfl)
  | choice a b iha ihb =>
    intro h; simp only [unrollSafe, Bool.and_eq_true] at h
    exact (TokEquiv.choice (iha h.1) (ihb h.2)).trans (unrollClosure_tequiv hctx _ rfl)
  | opt e ih =>
    intro h; simp only [unrollSafe] at h
    exact (TokEquiv.opt (ih h)).trans (unrollClosure_tequiv hctx _ rfl)
  | rep e ih =>
    intro h; simp only [unrollSafe] at h
    exact (TokEquiv.rep (ih h)).trans (unrollClosure_tequiv hctx _ rfl)
  | repOnce e ih =>
    intro h; simp only [unrollSafe] at h
    exact (TokEquiv.repOnce (ih h)).trans (unrollClosure_tequiv hctx _ rfl)
  | repExact e n ih =>
    intro h; rw [unrollSafe, Bool.and_eq_true] at h
    exact (TokEquiv.repExact (ih h.2) n).trans (unrollClosure_tequiv hctx (.repExact _ n) h.1)
  | repMin e n ih =>
    intro h; simp only [unrollSafe] at h
    exact (TokEquiv.repMin (ih h) n).trans (unrollClosure_tequiv hctx _ rfl)
  | repMax e n ih =>
    intro h; rw [unrollSafe, Bool.and_eq_true] at h
    exact (TokEquiv.repMax (ih h.2) n).trans (unrollClosure_tequiv hctx (.repMax _ n) h.1)
  | repMinMax e n m ih =>
    intro h; rw [unrollSafe, Bool.and_eq_true] at h
    exact (TokEquiv.repMinMax (ih h.2) n m).trans (unrollClosure_tequiv hctx (.repMinMax _ n m) h.1)
  | push e ih =>
    intro h; simp only [unrollSafe] at h
    exact (TokEquiv.push (ih h)).trans (unrollClosure_tequiv hctx _ rfl)
  | str s => intro _; exact unrollClosure_tequiv hctx _ rfl
  | insens s => intro _; exact unrollClosure_tequiv hctx _ rfl
  | range lo hi => intro _; exact unrollClosure_tequiv hctx _ rfl
  | ident n => intro _; exact unrollClosure_tequiv hctx _ rfl
  | peekSlice a b => intro _; exact unrollClosure_tequiv hctx _ rfl
  | skip ns => intro _; exact unrollClosure_tequiv hctx _ rfl
  | restoreOnErr e _ => intro _; exact unrollClosure_tequiv hctx _ rfl

/-- The `unroll` pass preserves the TOKEN semantics (verdict, end cursor, stack, token list, termination)
of every safe expression, in a context without implicit skipping. -/
theorem unrollExpr_tequiv (hctx : NoSkipCtx g am.na) :
    ∀ e, unrollSafe e = true → TokEquiv g g uni am e (unrollExpr e) :=
  tunroll_mapBottomUp_tequiv hctx

end Closure

/-- `unroll` on the body of a rule preserves the token semantics in `@` / `$` rules, and in every rule of
a grammar without WHITESPACE and COMMENT. -/
theorem unrollExpr_tequiv_body (g : PGrammar) (uni : Uni) (name : String) (kind : RuleKind) (am : Atom3)
    (h : kind = .atomic ∨ kind = .compoundAtomic ∨
      (g.defines "WHITESPACE" = false ∧ g.defines "COMMENT" = false)) {e : PExpr} :
    unrollSafe e = true → TokEquiv g g uni (bodyAt name kind am) e (unrollExpr e) := by
  have hctx : NoSkipCtx g (bodyAt name kind am).na := by
    rw [bodyAt_na]; exact NoSkipCtx.of_body g name kind am.na h
  exact unrollExpr_tequiv hctx e

/-! ## 5. Non-vacuity -/

example : unrollExpr (.repMinMax (.str ['a']) 1 2) = .seq (.str ['a']) (.opt (.str ['a'])) := by decide

example (uni : Uni) : TokEquiv [] [] uni .atomic (.repMinMax (.str ['a']) 1 2)
    (.seq (.str ['a']) (.opt (.str ['a']))) :=
  unrollExpr_tequiv (g := []) (am := .atomic) (NoSkipCtx.of_atomic []) (.repMinMax (.str ['a']) 1 2) (by decide)

example (uni : Uni) : TokEquiv [] [] uni .nonAtomic (.repMin (.ident "r") 2)
    (.seq (.ident "r") (.seq (.ident "r") (.rep (.ident "r")))) :=
  unrollExpr_tequiv_body [] uni "r" .normal .nonAtomic (.inr (.inr ⟨rfl, rfl⟩)) (e := .repMin (.ident "r") 2) rfl

example : specTok [] (fun _ _ => false) 5 .atomic (unrollExpr (.repOnce (.str ['a']))) ⟨0, 0, ['a', 'a'], []⟩ []
    = specTok [] (fun _ _ => false) 5 .atomic (.repOnce (.str ['a'])) ⟨0, 0, ['a', 'a'], []⟩ [] := by rfl

/-- A token-emitting instance: `r+` in a `$` context over `r = { "a" }` emits one token per iteration, raw and
unrolled alike. -/
example : specTok [⟨"r", .normal, .str ['a']⟩] (fun _ _ => false) 6 .compound (unrollExpr (.repOnce (.ident "r")))
      ⟨0, 0, ['a', 'a'], []⟩ [] = .ok ⟨0, 2, [], []⟩ [] [.mk 1 0 1 [], .mk 1 1 2 []]
    ∧ specTok [⟨"r", .normal, .str ['a']⟩] (fun _ _ => false) 6 .compound (.repOnce (.ident "r"))
      ⟨0, 0, ['a', 'a'], []⟩ [] = .ok ⟨0, 2, [], []⟩ [] [.mk 1 0 1 [], .mk 1 1 2 []] := ⟨by rfl, by rfl⟩

example (uni : Uni) : TokEquiv [⟨"r", .normal, .str ['a']⟩] [⟨"r", .normal, .str ['a']⟩] uni .compound
    (.repOnce (.ident "r")) (.seq (.ident "r") (.rep (.ident "r"))) :=
  unrollExpr_tequiv (am := .compound) (NoSkipCtx.of_atomic _) (.repOnce (.ident "r")) rfl

end PestTyped
