/-
Lemmas.ValidatorLeftRec — pest's left-recursion check (mirror `Model/Validator.lean`:
`validateLeftRecursion`, `leftRecCheck`, `leftRecAux`) versus the `NoLeftRec` hypothesis of the
termination theorem (`Lemmas/Termination.lean`, `Props/C11.lean: C11_terminates`), for the module
`gen g` generated from the RAW grammar `g`.

pest's check is a depth-first search from every rule along "validator head edges" (`vedges`); it is
NOT complete for the true head relation `heads nul sid (genExpr g sk body)` of the generated module
(blind spots, all accepted by pest and left-recursive):
  (1) `a = { !"x" ~ a }`, `&"x" ~ a`, `SOI ~ a`, `PEEK ~ a`: a first element that is nullable but not
      "non-failing": only the first element is looked at;
  (2) `a = { a? ~ "x" }`, `a* ~ "x"`: a non-failing first element is skipped entirely;
  (3) `a = { a{2} }`, `a{1,}`, `a{,2}`: counted repetitions are not looked into;
  (4) the implicit skip: rule → skip type → `WHITESPACE`/`COMMENT` edges are ignored.

Main results
* `vsuccN_acyclic_of_validate`   (B) for EVERY grammar (duplicate / undefined names allowed):
      `validateLeftRecursion g = []  →  ∀ x, ¬ Acyclic.Reach (vsuccN g) x x`
  — the search is complete for its own edge relation (`leftRecCheck_complete`: the fuel `valFuel g`
  suffices because the trace is a duplicate-free list of defined names).
* `heads_genExpr_cov`            (C) on the per-expression fragment `fragExpr`, every true head of
  `genExpr g sk e` is `0` (`EOI`), the skip pseudo id, or `k+1` with `g[k].name ∈ vedges g cur e`.
* `heads_genExpr_idents`          unconditionally, every true head is `0`, the skip pseudo id, or `k+1`
  for an identifier the expression spells out.
* `noLeftRec_of_acyclic_covered` semantic form: acyclic validator graph + covered true heads + a set
  `S` of rules closed under true heads that contains the skip rules and never starts with a skip
  + a set `U` of rules that no head edge enters (unconstrained)
  ⟹ `NoLeftRec (gen g) nul` (rank: `EOI` < rules of `S` < skip type < other rules < rules of `U`;
  inside a tier the rank of `Lemmas/AcyclicRank.lean` on the validator graph).
* `validator_leftrec_sound`      `LRFragment g nul = true → validateLeftRecursion g = [] →
  NoLeftRec (gen g) nul`, for an arbitrary nullability assignment `nul`.
`LRFragment` is a computable `Bool` (evaluated by `decide` in the examples at the end: it is written
with `genExprS`, a structurally recursive twin of `genExpr`, `genExprS_eq`).  The examples show a
recursive grammar with an implicit skip inside the fragment and accepted, one inside and rejected,
and one grammar for each blind spot that pest accepts and that is outside the fragment.
Helper lemmas carry the prefix `lr_`.
-/
import PestTyped.Lemmas.AcyclicRank
import PestTyped.Lemmas.Termination
import PestTyped.Model.Validator
import PestTyped.Model.Gen
namespace PestTyped

/-! ### (B) the validator's head graph and completeness of its depth-first search -/

/-- The names `left_recursion::check_expr` follows from an expression inside the body of rule `cur`
(`cur` = `trace.last()`): the static successor relation of the search. -/
def vedges (g : PGrammar) (cur : String) : PExpr → List String
  | .ident x => [x]
  | .seq l r => if isNonFailing g (valFuel g) [cur] l then vedges g cur r else vedges g cur l
  | .choice l r => vedges g cur l ++ vedges g cur r
  | .rep e => vedges g cur e
  | .repOnce e => vedges g cur e
  | .opt e => vedges g cur e
  | .posPred e => vedges g cur e
  | .negPred e => vedges g cur e
  | .push e => vedges g cur e
  | _ => []

/-- Validator head edges of a rule. -/
def vsucc (g : PGrammar) (r : PRule) : List String := vedges g r.name r.expr

/-- The validator's head graph on rule NAMES (bodies resolved like the validator does: `vLookup`). -/
def vsuccN (g : PGrammar) (name : String) : List String :=
  match vLookup g name with
  | some body => vedges g name body
  | none => []

/-- One level of the search: an edge to `root`, or to a fresh defined name whose body succeeds. -/
theorem leftRecAux_of_edge (g : PGrammar) (jump : List String → PExpr → Bool) (root : String)
    (trace : List String) (x : String)
    (h : x = root ∨ (x ∉ trace ∧ ∃ body, vLookup g x = some body ∧
      jump (trace ++ [x]) body = true)) :
    ∀ e : PExpr, x ∈ vedges g (trace.getLast?.getD root) e → leftRecAux g jump root trace e = true := by
  intro e
  induction e with
  | ident y =>
    intro hx
    simp only [vedges, List.mem_singleton] at hx
    subst hx
    simp only [leftRecAux]
    rcases h with h | ⟨hc, body, hb, hj⟩
    · simp [h]
    · by_cases hr : root = x
      · simp [hr]
      · simp [hr, hc, hb, hj]
  | seq l r ihl ihr =>
    intro hx
    simp only [vedges] at hx
    simp only [leftRecAux]
    split
    · next hnf => rw [if_pos hnf] at hx; exact ihr hx
    · next hnf => rw [if_neg hnf] at hx; exact ihl hx
  | choice l r ihl ihr =>
    intro hx
    simp only [vedges, List.mem_append] at hx
    simp only [leftRecAux, Bool.or_eq_true]
    rcases hx with hx | hx
    · exact .inl (ihl hx)
    · exact .inr (ihr hx)
  | rep e ih => intro hx; simp only [vedges] at hx; simp only [leftRecAux]; exact ih hx
  | repOnce e ih => intro hx; simp only [vedges] at hx; simp only [leftRecAux]; exact ih hx
  | opt e ih => intro hx; simp only [vedges] at hx; simp only [leftRecAux]; exact ih hx
  | posPred e ih => intro hx; simp only [vedges] at hx; simp only [leftRecAux]; exact ih hx
  | negPred e ih => intro hx; simp only [vedges] at hx; simp only [leftRecAux]; exact ih hx
  | push e ih => intro hx; simp only [vedges] at hx; simp only [leftRecAux]; exact ih hx
  | _ => intro hx; simp [vedges] at hx

/-! #### `vLookup` -/

theorem lr_vLookupGo_cases (name : String) : ∀ (rs : List PRule) (acc : Option PExpr) (body : PExpr),
    vLookupGo name rs acc = some body →
    (∃ r ∈ hashMapEntries rs, r.name = name ∧ r.expr = body) ∨
    (acc = some body ∧ ∀ r ∈ rs, r.name ≠ name) := by
  intro rs
  induction rs with
  | nil => intro acc body h; exact .inr ⟨h, fun _ hr => nomatch hr⟩
  | cons r0 rs ih =>
    intro acc body h
    simp only [vLookupGo] at h
    rcases ih _ _ h with ⟨r, hr, hn, he⟩ | ⟨hacc, hall⟩
    · refine .inl ⟨r, ?_, hn, he⟩
      simp only [hashMapEntries]
      split
      · exact List.mem_cons_of_mem _ hr
      · exact hr
    · by_cases h0 : r0.name = name
      · rw [if_pos h0] at hacc
        refine .inl ⟨r0, ?_, h0, Option.some.inj hacc⟩
        have hlast : isLastDef rs r0 = true := by
          simp only [isLastDef, Bool.not_eq_true', List.any_eq_false, decide_eq_true_eq]
          intro r' hr'; rw [h0]; exact hall r' hr'
        simp only [hashMapEntries, hlast, if_true]
        exact List.mem_cons_self
      · rw [if_neg h0] at hacc
        refine .inr ⟨hacc, ?_⟩
        intro r hr
        rcases List.mem_cons.mp hr with rfl | hr
        · exact h0
        · exact hall r hr

theorem lr_hashMapEntries_subset : ∀ (rs : List PRule) (r : PRule), r ∈ hashMapEntries rs → r ∈ rs := by
  intro rs
  induction rs with
  | nil => intro r h; exact h
  | cons r0 rs ih =>
    intro r h
    simp only [hashMapEntries] at h
    split at h
    · rcases List.mem_cons.mp h with rfl | h
      · exact List.mem_cons_self
      · exact List.mem_cons_of_mem _ (ih r h)
    · exact List.mem_cons_of_mem _ (ih r h)

/-- A name the validator resolves is the name of an entry of its hash map. -/
theorem lr_vLookup_some (g : PGrammar) (name : String) (body : PExpr) (h : vLookup g name = some body) :
    ∃ r ∈ hashMapEntries g, r.name = name ∧ r.expr = body := by
  rcases lr_vLookupGo_cases name g none body h with h | ⟨h, _⟩
  · exact h
  · cases h

theorem lr_vLookup_some_mem (g : PGrammar) (name : String) (body : PExpr) (h : vLookup g name = some body) :
    name ∈ g.map (·.name) := by
  obtain ⟨r, hr, hn, _⟩ := lr_vLookup_some g name body h
  exact List.mem_map.mpr ⟨r, lr_hashMapEntries_subset g r hr, hn⟩

theorem lr_vLookupGo_of_not_mem (name : String) : ∀ (rs : List PRule) (acc : Option PExpr),
    (∀ r ∈ rs, r.name ≠ name) → vLookupGo name rs acc = acc := by
  intro rs
  induction rs with
  | nil => intro acc _; rfl
  | cons r0 rs ih =>
    intro acc h
    simp only [vLookupGo]
    rw [if_neg (h r0 List.mem_cons_self)]
    exact ih acc (fun r hr => h r (List.mem_cons_of_mem _ hr))

theorem lr_vLookupGo_of_nodup : ∀ (rs : List PRule) (acc : Option PExpr) (r : PRule),
    (rs.map (·.name)).Nodup → r ∈ rs → vLookupGo r.name rs acc = some r.expr := by
  intro rs
  induction rs with
  | nil => intro acc r _ h; cases h
  | cons r0 rs ih =>
    intro acc r hd hr
    simp only [List.map_cons, List.nodup_cons] at hd
    simp only [vLookupGo]
    rcases List.mem_cons.mp hr with rfl | hr
    · rw [if_pos rfl]
      apply lr_vLookupGo_of_not_mem
      intro r' hr' he
      exact hd.1 (List.mem_map.mpr ⟨r', hr', he⟩)
    · exact ih _ r hd.2 hr

/-- With pairwise distinct names the validator's lookup finds every rule. -/
theorem lr_vLookup_of_nodup (g : PGrammar) (hd : (g.map (·.name)).Nodup) (r : PRule) (hr : r ∈ g) :
    vLookup g r.name = some r.expr :=
  lr_vLookupGo_of_nodup g none r hd hr

theorem vsuccN_of_nodup (g : PGrammar) (hd : (g.map (·.name)).Nodup) (r : PRule) (hr : r ∈ g) :
    vsuccN g r.name = vsucc g r := by
  simp only [vsuccN, lr_vLookup_of_nodup g hd r hr, vsucc]

/-! #### completeness of the search -/

/-- `check_expr` finds `root` whenever the body it is in reaches `root` by validator head edges
without passing through a name already on the trace.  The fuel invariant is the one of the mirror:
every name on the trace is a distinct defined name, one unit of fuel per name still off the trace. -/
theorem leftRecCheck_complete (g : PGrammar) (root : String) :
    ∀ (fuel : Nat) (trace : List String) (cur : String) (body : PExpr),
      trace.Nodup → (∀ x ∈ trace, x ∈ g.map (·.name)) → g.length + 1 ≤ fuel + trace.length →
      trace.getLast? = some cur → vLookup g cur = some body →
      Acyclic.ReachAvoid (vsuccN g) trace cur root →
      leftRecCheck g root fuel trace body = true := by
  intro fuel
  induction fuel with
  | zero =>
    intro trace cur body hnd hdef hlen _ _ _
    have := List.Nodup.length_le_of_subset hnd (fun x hx => hdef x hx)
    simp only [List.length_map] at this
    omega
  | succ f ih =>
    intro trace cur body hnd hdef hlen hlast hbody hreach
    simp only [leftRecCheck]
    have hcur : trace.getLast?.getD root = cur := by rw [hlast]; rfl
    cases hreach with
    | step hstep =>
      simp only [vsuccN, hbody] at hstep
      refine leftRecAux_of_edge g _ root trace root (.inl rfl) body ?_
      rw [hcur]; exact hstep
    | @trans _ y _ hstep hy hrest =>
      simp only [vsuccN, hbody] at hstep
      have hne := hrest.succ_ne_nil
      cases hby : vLookup g y with
      | none => simp [vsuccN, hby] at hne
      | some bodyy =>
        have hrest' : Acyclic.ReachAvoid (vsuccN g) (trace ++ [y]) y root :=
          hrest.avoid_self.mono (by
            intro z hz
            rcases List.mem_append.mp hz with hz | hz
            · exact List.mem_cons_of_mem _ hz
            · rw [List.mem_singleton.mp hz]; exact List.mem_cons_self)
        have hrec := ih (trace ++ [y]) y bodyy
          (by
            rw [List.nodup_append]
            refine ⟨hnd, by simp, ?_⟩
            intro a ha b hb
            rw [List.mem_singleton.mp hb]
            intro hab; exact hy (hab ▸ ha))
          (by
            intro z hz
            rcases List.mem_append.mp hz with hz | hz
            · exact hdef z hz
            · rw [List.mem_singleton.mp hz]; exact lr_vLookup_some_mem g y bodyy hby)
          (by simp only [List.length_append, List.length_singleton]; omega)
          List.getLast?_concat hby hrest'
        refine leftRecAux_of_edge g _ root trace y (.inr ⟨hy, bodyy, hby, hrec⟩) body ?_
        rw [hcur]; exact hstep

/-- (B) A grammar that passes pest's left-recursion check has an acyclic validator head graph
(no assumption on the grammar: duplicate and undefined names allowed). -/
theorem vsuccN_acyclic_of_validate (g : PGrammar) (hv : validateLeftRecursion g = []) :
    ∀ x, ¬ Acyclic.Reach (vsuccN g) x x := by
  intro x hx
  have hne := hx.succ_ne_nil
  cases hb : vLookup g x with
  | none => simp [vsuccN, hb] at hne
  | some body =>
    obtain ⟨r, hr, hn, he⟩ := lr_vLookup_some g x body hb
    have hfalse : leftRecursive g r = false := by
      cases hl : leftRecursive g r
      · rfl
      · exfalso
        have : (ValidatorError.leftRecursion) ∈ validateLeftRecursion g := by
          simp only [validateLeftRecursion, List.mem_filterMap]
          exact ⟨r, hr, by simp [hl]⟩
        rw [hv] at this; cases this
    have htrue := leftRecCheck_complete g x (valFuel g) [x] x body (by simp)
      (by intro z hz; rw [List.mem_singleton.mp hz]; exact lr_vLookup_some_mem g x body hb)
      (by simp [valFuel]) rfl hb hx.avoid_self
    simp only [leftRecursive, hn, he] at hfalse
    rw [hfalse] at htrue; cases htrue

/-! ### (C) the true head relation of the generated module is covered by the validator's edges -/

def lowIds (sid : Nat) (l : List Nat) : Bool := l.all fun id => id == 0 || id == sid

theorem lowIds_mem {sid : Nat} {l : List Nat} (h : lowIds sid l = true) {id : Nat} (hid : id ∈ l) :
    id = 0 ∨ id = sid := by
  simp only [lowIds, List.all_eq_true, Bool.or_eq_true, beq_iff_eq] at h
  exact h id hid

def Cov (g : PGrammar) (sid : Nat) (names : List String) (id : Nat) : Prop :=
  id = 0 ∨ id = sid ∨ ∃ k name, id = k + 1 ∧ name ∈ names ∧ g.indexOf name = some k

theorem Cov.mono {g : PGrammar} {sid : Nat} {a b : List String} (hab : ∀ x ∈ a, x ∈ b) {id : Nat}
    (h : Cov g sid a id) : Cov g sid b id := by
  rcases h with h | h | ⟨k, name, h1, h2, h3⟩
  · exact .inl h
  · exact .inr (.inl h)
  · exact .inr (.inr ⟨k, name, h1, hab _ h2, h3⟩)

theorem Cov.of_low {g : PGrammar} {sid : Nat} {a : List String} {id : Nat} (h : id = 0 ∨ id = sid) :
    Cov g sid a id := by
  rcases h with h | h
  · exact .inl h
  · exact .inr (.inl h)

theorem lr_skipHead_mem {sid : RuleId} {sk : Flag} {id : RuleId} (h : id ∈ skipHead sid sk) : id = sid := by
  cases sk <;> simp [skipHead] at h <;> exact h

theorem lr_ite_prop {α : Type} (P : α → Prop) (c : Prop) [Decidable c] (a b : α) (ha : P a) (hb : P b) :
    P (if c then a else b) := by
  by_cases h : c
  · rw [if_pos h]; exact ha
  · rw [if_neg h]; exact hb

theorem lr_heads_builtinNode' (nul : RuleId → Bool) (sid : RuleId) (name : String) :
    heads nul sid (builtinNode name) = [0] ∨ heads nul sid (builtinNode name) = [] := by
  unfold builtinNode
  repeat' refine lr_ite_prop (fun n => heads nul sid n = [0] ∨ heads nul sid n = []) _ _ _ ?_ ?_
  all_goals first | exact .inl rfl | exact .inr rfl

/-- A name the grammar does not define has no head except `EOI` (rule 0). -/
theorem lr_heads_builtinNode (nul : RuleId → Bool) (sid : RuleId) (name : String) :
    ∀ id ∈ heads nul sid (builtinNode name), id = 0 := by
  intro id h
  rcases lr_heads_builtinNode' nul sid name with h' | h' <;> rw [h'] at h
  · exact List.mem_singleton.mp h
  · cases h

theorem lr_headsSeq_genSeqSpine (g : PGrammar) (nul : RuleId → Bool) (sid : RuleId) (sk : Flag) (b : PExpr) :
    ∀ id ∈ headsSeq nul sid sk (genSeqSpine g sk b), id = sid ∨ id ∈ heads nul sid (genExpr g sk b) := by
  intro id h
  cases b
  case seq b1 b2 =>
    simp only [genSeqSpine] at h
    simp only [genExpr, heads]
    exact .inr h
  all_goals
    simp only [genSeqSpine, headsSeq, List.append_nil, List.mem_append] at h
    rcases h with h | h
    · exact .inr h
    · split at h
      · exact .inl (lr_skipHead_mem h)
      · cases h

theorem lr_headsAll_genChoiceSpine (g : PGrammar) (nul : RuleId → Bool) (sid : RuleId) (sk : Flag) (b : PExpr) :
    ∀ id ∈ headsAll nul sid (genChoiceSpine g sk b), id ∈ heads nul sid (genExpr g sk b) := by
  intro id h
  cases b
  case choice b1 b2 =>
    simp only [genChoiceSpine] at h
    simp only [genExpr, heads]
    exact h
  all_goals
    simp only [genChoiceSpine, headsAll, List.append_nil] at h
    exact h

/-! #### a kernel-reducible twin of `genExpr` -/

def seqItems : PExpr → Node → List Node
  | .seq _ _, .seq _ items => items
  | _, n => [n]

def choiceItems : PExpr → Node → List Node
  | .choice _ _, .choice items => items
  | _, n => [n]

/-- A structurally recursive twin of `genExpr` (which is compiled by well-founded recursion and
does not reduce in the kernel), so that `LRFragment` can be evaluated by `decide`. -/
def genExprS (g : PGrammar) (sk : Flag) : PExpr → Node
  | .str s => .str s
  | .insens s => .insens s
  | .range lo hi => .range lo hi
  | .ident name =>
    match g.indexOf name with
    | some k => .ref (k+1) sk
    | none => builtinNode name
  | .peekSlice a b => .peekSlice a b
  | .posPred e => .pos (genExprS g sk e)
  | .negPred e => .neg (genExprS g sk e)
  | .seq a b => .seq sk (genExprS g sk a :: seqItems b (genExprS g sk b))
  | .choice a b => .choice (genExprS g sk a :: choiceItems b (genExprS g sk b))
  | .opt e => .opt (genExprS g sk e)
  | .rep e => .rep sk 0 none (genExprS g sk e)
  | .repOnce e => .rep sk 1 none (genExprS g sk e)
  | .repExact e n => .rep sk n (some n) (genExprS g sk e)
  | .repMin e n => .rep sk n none (genExprS g sk e)
  | .repMax e n => .rep sk 0 (some n) (genExprS g sk e)
  | .repMinMax e n m => .rep sk n (some m) (genExprS g sk e)
  | .skip needles => .skipUntil needles
  | .push e => .push (genExprS g sk e)
  | .restoreOnErr e => genExprS g sk e

theorem lr_genSeqSpine_eq_seqItems (g : PGrammar) (sk : Flag) (b : PExpr) :
    genSeqSpine g sk b = seqItems b (genExpr g sk b) := by
  cases b <;> simp [genSeqSpine, genExpr, seqItems]

theorem lr_genChoiceSpine_eq_choiceItems (g : PGrammar) (sk : Flag) (b : PExpr) :
    genChoiceSpine g sk b = choiceItems b (genExpr g sk b) := by
  cases b <;> simp [genChoiceSpine, genExpr, choiceItems]

theorem genExprS_eq (g : PGrammar) (sk : Flag) : ∀ e : PExpr, genExprS g sk e = genExpr g sk e := by
  intro e
  induction e with
  | seq a b iha ihb => simp only [genExprS, genExpr, iha, ihb, lr_genSeqSpine_eq_seqItems]
  | choice a b iha ihb => simp only [genExprS, genExpr, iha, ihb, lr_genChoiceSpine_eq_choiceItems]
  | ident name => simp only [genExprS, genExpr]; cases g.indexOf name <;> rfl
  | posPred e ih => simp only [genExprS, genExpr, ih]
  | negPred e ih => simp only [genExprS, genExpr, ih]
  | opt e ih => simp only [genExprS, genExpr, ih]
  | rep e ih => simp only [genExprS, genExpr, ih]
  | repOnce e ih => simp only [genExprS, genExpr, ih]
  | repExact e n ih => simp only [genExprS, genExpr, ih]
  | repMin e n ih => simp only [genExprS, genExpr, ih]
  | repMax e n ih => simp only [genExprS, genExpr, ih]
  | repMinMax e n m ih => simp only [genExprS, genExpr, ih]
  | push e ih => simp only [genExprS, genExpr, ih]
  | restoreOnErr e ih => simp only [genExprS, genExpr, ih]
  | _ => simp only [genExprS, genExpr]

/-! #### the syntactic fragment, per expression -/

/-- The per-expression part of the fragment, for a rule body walked with skip flag `sk` inside
rule `cur` (`low` = only `EOI` and the skip pseudo id):
* `l ~ r`, `l` non-failing for the validator: the validator drops `l` and follows `r` only, so `l`
  must have no rule head (blind spot 2); `r` matters only if `l` is nullable.
* `l ~ r`, `l` not non-failing: the validator follows `l` only, so either `l` is not nullable or `r`
  has no rule head (blind spot 1: predicates, `SOI`, `PEEK`, … are nullable and may fail).
* counted repetitions `e{n}`, `e{n,}`, `e{,m}`, `e{n,m}`: the validator stops, so `e` must have no rule
  head (blind spot 3).  `restoreOnErr e` (never in a raw AST) is transparent for the generator and a
  leaf for the validator: same condition.
* the other operators are followed by both sides; leaves (`peekSlice`, `skip` included) have no
  heads except references, which both sides follow. -/
def fragExpr (g : PGrammar) (nul : RuleId → Bool) (sid : RuleId) (sk : Flag) (cur : String) : PExpr → Bool
  | .seq l r =>
    if isNonFailing g (valFuel g) [cur] l then
      lowIds sid (heads nul sid (genExprS g sk l)) &&
        (!nullable nul (genExprS g sk l) || fragExpr g nul sid sk cur r)
    else
      fragExpr g nul sid sk cur l &&
        (!nullable nul (genExprS g sk l) || lowIds sid (heads nul sid (genExprS g sk r)))
  | .choice l r => fragExpr g nul sid sk cur l && fragExpr g nul sid sk cur r
  | .rep e => fragExpr g nul sid sk cur e
  | .repOnce e => fragExpr g nul sid sk cur e
  | .opt e => fragExpr g nul sid sk cur e
  | .posPred e => fragExpr g nul sid sk cur e
  | .negPred e => fragExpr g nul sid sk cur e
  | .push e => fragExpr g nul sid sk cur e
  | .repExact e _ => lowIds sid (heads nul sid (genExprS g sk e))
  | .repMin e _ => lowIds sid (heads nul sid (genExprS g sk e))
  | .repMax e _ => lowIds sid (heads nul sid (genExprS g sk e))
  | .repMinMax e _ _ => lowIds sid (heads nul sid (genExprS g sk e))
  | .restoreOnErr e => lowIds sid (heads nul sid (genExprS g sk e))
  | _ => true

theorem lr_mem_heads_rep {nul : RuleId → Bool} {sid : RuleId} {sk : Flag} {mn : Nat} {mx : Option Nat} {n : Node}
    {id : RuleId} (h : id ∈ heads nul sid (.rep sk mn mx n)) : id = sid ∨ id ∈ heads nul sid n := by
  simp only [heads, List.mem_append] at h
  rcases h with h | h
  · exact .inr h
  · split at h
    · exact .inl (lr_skipHead_mem h)
    · cases h

theorem heads_genExpr_cov (g : PGrammar) (nul : RuleId → Bool) (sid : RuleId) (sk : Flag) (cur : String) :
    ∀ e : PExpr, fragExpr g nul sid sk cur e = true →
      ∀ id ∈ heads nul sid (genExpr g sk e), Cov g sid (vedges g cur e) id := by
  intro e
  induction e with
  | str s => intro _ id h; simp [genExpr, heads] at h
  | insens s => intro _ id h; simp [genExpr, heads] at h
  | range lo hi => intro _ id h; simp [genExpr, heads] at h
  | peekSlice a b => intro _ id h; simp [genExpr, heads] at h
  | skip n => intro _ id h; simp [genExpr, heads] at h
  | ident name =>
    intro _ id h
    simp only [genExpr] at h
    split at h
    · next k hk =>
      simp only [heads, List.mem_singleton] at h
      exact .inr (.inr ⟨k, name, h, by simp [vedges], hk⟩)
    · exact .inl (lr_heads_builtinNode nul sid name id h)
  | posPred e ih =>
    intro hf id h
    simp only [fragExpr] at hf
    simp only [genExpr, heads] at h
    simp only [vedges]; exact ih hf id h
  | negPred e ih =>
    intro hf id h
    simp only [fragExpr] at hf
    simp only [genExpr, heads] at h
    simp only [vedges]; exact ih hf id h
  | opt e ih =>
    intro hf id h
    simp only [fragExpr] at hf
    simp only [genExpr, heads] at h
    simp only [vedges]; exact ih hf id h
  | push e ih =>
    intro hf id h
    simp only [fragExpr] at hf
    simp only [genExpr, heads] at h
    simp only [vedges]; exact ih hf id h
  | rep e ih =>
    intro hf id h
    simp only [fragExpr] at hf
    simp only [genExpr] at h
    simp only [vedges]
    rcases lr_mem_heads_rep h with h | h
    · exact .inr (.inl h)
    · exact ih hf id h
  | repOnce e ih =>
    intro hf id h
    simp only [fragExpr] at hf
    simp only [genExpr] at h
    simp only [vedges]
    rcases lr_mem_heads_rep h with h | h
    · exact .inr (.inl h)
    · exact ih hf id h
  | repExact e n ih =>
    intro hf id h
    simp only [fragExpr, genExprS_eq] at hf
    simp only [genExpr] at h
    rcases lr_mem_heads_rep h with h | h
    · exact .inr (.inl h)
    · exact Cov.of_low (lowIds_mem hf h)
  | repMin e n ih =>
    intro hf id h
    simp only [fragExpr, genExprS_eq] at hf
    simp only [genExpr] at h
    rcases lr_mem_heads_rep h with h | h
    · exact .inr (.inl h)
    · exact Cov.of_low (lowIds_mem hf h)
  | repMax e n ih =>
    intro hf id h
    simp only [fragExpr, genExprS_eq] at hf
    simp only [genExpr] at h
    rcases lr_mem_heads_rep h with h | h
    · exact .inr (.inl h)
    · exact Cov.of_low (lowIds_mem hf h)
  | repMinMax e n m ih =>
    intro hf id h
    simp only [fragExpr, genExprS_eq] at hf
    simp only [genExpr] at h
    rcases lr_mem_heads_rep h with h | h
    · exact .inr (.inl h)
    · exact Cov.of_low (lowIds_mem hf h)
  | restoreOnErr e ih =>
    intro hf id h
    simp only [fragExpr, genExprS_eq] at hf
    simp only [genExpr] at h
    exact Cov.of_low (lowIds_mem hf h)
  | choice a b iha ihb =>
    intro hf id h
    simp only [fragExpr, Bool.and_eq_true] at hf
    simp only [genExpr, heads, headsAll, List.mem_append] at h
    simp only [vedges]
    rcases h with h | h
    · exact (iha hf.1 id h).mono (fun x hx => List.mem_append_left _ hx)
    · exact (ihb hf.2 id (lr_headsAll_genChoiceSpine g nul sid sk b id h)).mono
        (fun x hx => List.mem_append_right _ hx)
  | seq a b iha ihb =>
    intro hf id h
    simp only [fragExpr, genExprS_eq] at hf
    simp only [genExpr, heads, headsSeq, List.mem_append] at h
    simp only [vedges]
    split at hf
    · next hnf =>
      rw [if_pos hnf]
      simp only [Bool.and_eq_true, Bool.or_eq_true, Bool.not_eq_true'] at hf
      rcases h with h | h
      · exact Cov.of_low (lowIds_mem hf.1 h)
      · split at h
        · next hnul =>
          rcases hf.2 with hf2 | hf2
          · rw [hf2] at hnul; cases hnul
          · rcases List.mem_append.mp h with h | h
            · exact .inr (.inl (lr_skipHead_mem h))
            · rcases lr_headsSeq_genSeqSpine g nul sid sk b id h with h | h
              · exact .inr (.inl h)
              · exact ihb hf2 id h
        · cases h
    · next hnf =>
      rw [if_neg hnf]
      simp only [Bool.and_eq_true, Bool.or_eq_true, Bool.not_eq_true'] at hf
      rcases h with h | h
      · exact iha hf.1 id h
      · split at h
        · next hnul =>
          rcases hf.2 with hf2 | hf2
          · rw [hf2] at hnul; cases hnul
          · rcases List.mem_append.mp h with h | h
            · exact .inr (.inl (lr_skipHead_mem h))
            · rcases lr_headsSeq_genSeqSpine g nul sid sk b id h with h | h
              · exact .inr (.inl h)
              · exact Cov.of_low (lowIds_mem hf2 h)
        · cases h

/-! #### unconditional: heads are spelled-out references -/

/-- All identifiers occurring in an expression. -/
def idents : PExpr → List String
  | .ident x => [x]
  | .seq l r => idents l ++ idents r
  | .choice l r => idents l ++ idents r
  | .posPred e => idents e
  | .negPred e => idents e
  | .opt e => idents e
  | .rep e => idents e
  | .repOnce e => idents e
  | .repExact e _ => idents e
  | .repMin e _ => idents e
  | .repMax e _ => idents e
  | .repMinMax e _ _ => idents e
  | .push e => idents e
  | .restoreOnErr e => idents e
  | _ => []

/-- Unconditionally, a rule head of a generated expression is a reference the expression spells out. -/
theorem heads_genExpr_idents (g : PGrammar) (nul : RuleId → Bool) (sid : RuleId) (sk : Flag) :
    ∀ e : PExpr, ∀ id ∈ heads nul sid (genExpr g sk e), Cov g sid (idents e) id := by
  intro e
  induction e with
  | str s => intro id h; simp [genExpr, heads] at h
  | insens s => intro id h; simp [genExpr, heads] at h
  | range lo hi => intro id h; simp [genExpr, heads] at h
  | peekSlice a b => intro id h; simp [genExpr, heads] at h
  | skip n => intro id h; simp [genExpr, heads] at h
  | ident name =>
    intro id h
    simp only [genExpr] at h
    split at h
    · next k hk =>
      simp only [heads, List.mem_singleton] at h
      exact .inr (.inr ⟨k, name, h, by simp [idents], hk⟩)
    · exact .inl (lr_heads_builtinNode nul sid name id h)
  | posPred e ih => intro id h; simp only [genExpr, heads] at h; simp only [idents]; exact ih id h
  | negPred e ih => intro id h; simp only [genExpr, heads] at h; simp only [idents]; exact ih id h
  | opt e ih => intro id h; simp only [genExpr, heads] at h; simp only [idents]; exact ih id h
  | push e ih => intro id h; simp only [genExpr, heads] at h; simp only [idents]; exact ih id h
  | restoreOnErr e ih => intro id h; simp only [genExpr] at h; simp only [idents]; exact ih id h
  | rep e ih =>
    intro id h; simp only [genExpr] at h; simp only [idents]
    rcases lr_mem_heads_rep h with h | h
    · exact .inr (.inl h)
    · exact ih id h
  | repOnce e ih =>
    intro id h; simp only [genExpr] at h; simp only [idents]
    rcases lr_mem_heads_rep h with h | h
    · exact .inr (.inl h)
    · exact ih id h
  | repExact e n ih =>
    intro id h; simp only [genExpr] at h; simp only [idents]
    rcases lr_mem_heads_rep h with h | h
    · exact .inr (.inl h)
    · exact ih id h
  | repMin e n ih =>
    intro id h; simp only [genExpr] at h; simp only [idents]
    rcases lr_mem_heads_rep h with h | h
    · exact .inr (.inl h)
    · exact ih id h
  | repMax e n ih =>
    intro id h; simp only [genExpr] at h; simp only [idents]
    rcases lr_mem_heads_rep h with h | h
    · exact .inr (.inl h)
    · exact ih id h
  | repMinMax e n m ih =>
    intro id h; simp only [genExpr] at h; simp only [idents]
    rcases lr_mem_heads_rep h with h | h
    · exact .inr (.inl h)
    · exact ih id h
  | choice a b iha ihb =>
    intro id h
    simp only [genExpr, heads, headsAll, List.mem_append] at h
    simp only [idents]
    rcases h with h | h
    · exact (iha id h).mono (fun x hx => List.mem_append_left _ hx)
    · exact (ihb id (lr_headsAll_genChoiceSpine g nul sid sk b id h)).mono
        (fun x hx => List.mem_append_right _ hx)
  | seq a b iha ihb =>
    intro id h
    simp only [genExpr, heads, headsSeq, List.mem_append] at h
    simp only [idents]
    rcases h with h | h
    · exact (iha id h).mono (fun x hx => List.mem_append_left _ hx)
    · split at h
      · rcases List.mem_append.mp h with h | h
        · exact .inr (.inl (lr_skipHead_mem h))
        · rcases lr_headsSeq_genSeqSpine g nul sid sk b id h with h | h
          · exact .inr (.inl h)
          · exact (ihb id h).mono (fun x hx => List.mem_append_right _ hx)
      · cases h

/-! ### the generated module -/

theorem lr_indexOf_go_some (name : String) : ∀ (rs : List PRule) (k0 k : Nat),
    PGrammar.indexOf.go name rs k0 = some k → ∃ j r, k = k0 + j ∧ rs[j]? = some r ∧ r.name = name := by
  intro rs
  induction rs with
  | nil => intro k0 k h; simp [PGrammar.indexOf.go] at h
  | cons r0 rs ih =>
    intro k0 k h
    simp only [PGrammar.indexOf.go] at h
    split at h
    · next hn =>
      injection h with h
      exact ⟨0, r0, by omega, rfl, hn⟩
    · obtain ⟨j, r, hk, hj, hn⟩ := ih _ _ h
      exact ⟨j + 1, r, by omega, by simpa using hj, hn⟩

theorem lr_indexOf_some (g : PGrammar) (name : String) (k : Nat) (h : g.indexOf name = some k) :
    ∃ r, g[k]? = some r ∧ r.name = name := by
  obtain ⟨j, r, hk, hj, hn⟩ := lr_indexOf_go_some name g 0 k h
  have : k = j := by omega
  subst this
  exact ⟨r, hj, hn⟩

theorem lr_gen_sid (g : PGrammar) : (gen g).sid = g.length + 1 := by
  simp [NodeGrammar.sid, gen]

theorem lr_gen_rule_zero (g : PGrammar) : (gen g).rule? 0 = some eoiDef := rfl

theorem lr_gen_rule_succ (g : PGrammar) (k : Nat) (d : RuleDef) (h : (gen g).rule? (k + 1) = some d) :
    ∃ r, g[k]? = some r ∧ d = genRule g r := by
  simp only [NodeGrammar.rule?, gen, List.getElem?_cons_succ, List.getElem?_map] at h
  cases hk : g[k]? with
  | none => rw [hk] at h; cases h
  | some r => rw [hk] at h; exact ⟨r, rfl, (Option.some.inj h).symm⟩

theorem lr_le_sum_map_of_mem {α : Type} (f : α → Nat) : ∀ (l : List α) (a : α), a ∈ l → f a ≤ (l.map f).sum := by
  intro l
  induction l with
  | nil => intro a h; cases h
  | cons b l ih =>
    intro a h
    simp only [List.map_cons, List.sum_cons]
    rcases List.mem_cons.mp h with rfl | h
    · omega
    · have := ih a h; omega

/-! ### combination: rank of the generated module -/

/-- The `#skip` flag of a rule. -/
def lrFlag (r : PRule) : Flag := atomFlag (kindAtomicity r.kind)

/-- The true heads (`Lemmas/Termination.lean`) of the generated body of a rule of `g`. -/
def trueHeads (g : PGrammar) (nul : RuleId → Bool) (r : PRule) : List RuleId :=
  heads nul (g.length + 1) (genExprS g (lrFlag r) r.expr)

def lrNameAt (g : PGrammar) (k : Nat) : String :=
  match g[k]? with
  | some r => r.name
  | none => ""

/-- The rank: `EOI` 0; rules of the skip closure `S`; the skip type; ordinary rules; rules of `U`
(which no head edge enters) on top. -/
def lrRank (g : PGrammar) (S U : Nat → Bool) (rs : String → Nat) (M : Nat) : Nat → Nat
  | 0 => 0
  | k + 1 =>
    if k = g.length then M + 1
    else if S k then 1 + rs (lrNameAt g k)
    else if U k then 2 * M + 4
    else M + 2 + rs (lrNameAt g k)

theorem lrRank_sid (g : PGrammar) (S U : Nat → Bool) (rs : String → Nat) (M : Nat) :
    lrRank g S U rs M (g.length + 1) = M + 1 := by
  simp [lrRank]

theorem lrRank_S (g : PGrammar) (S U : Nat → Bool) (rs : String → Nat) (M k : Nat) (hk : k < g.length)
    (hs : S k = true) : lrRank g S U rs M (k + 1) = 1 + rs (lrNameAt g k) := by
  have : k ≠ g.length := by omega
  simp [lrRank, this, hs]

theorem lrRank_U (g : PGrammar) (S U : Nat → Bool) (rs : String → Nat) (M k : Nat) (hk : k < g.length)
    (hs : S k = false) (hu : U k = true) : lrRank g S U rs M (k + 1) = 2 * M + 4 := by
  have : k ≠ g.length := by omega
  simp [lrRank, this, hs, hu]

theorem lrRank_notS (g : PGrammar) (S U : Nat → Bool) (rs : String → Nat) (M k : Nat) (hk : k < g.length)
    (hs : S k = false) (hu : U k = false) : lrRank g S U rs M (k + 1) = M + 2 + rs (lrNameAt g k) := by
  have : k ≠ g.length := by omega
  simp [lrRank, this, hs, hu]

theorem lr_getElem?_lt {α : Type} {l : List α} {k : Nat} {a : α} (h : l[k]? = some a) : k < l.length := by
  rcases Nat.lt_or_ge k l.length with h' | h'
  · exact h'
  · rw [List.getElem?_eq_none h'] at h; cases h

/-- Semantic form.  `S`: a set of rules (indices into `g`) closed under true head edges that contains
the rules the skip type refers to and in which no rule can start with an implicit skip.  `U`: rules
that no true head edge enters (their own heads are unconstrained).  For the rules outside `U`, every
true head must be `EOI`, the skip type, or covered by a validator head edge. -/
theorem noLeftRec_of_acyclic_covered (g : PGrammar) (nul : RuleId → Bool) (S U : Nat → Bool)
    (hd : (g.map (·.name)).Nodup)
    (hacyc : ∀ x, ¬ Acyclic.Reach (vsuccN g) x x)
    (hcov : ∀ (k : Nat) (r : PRule), g[k]? = some r → U k = false →
      ∀ id ∈ trueHeads g nul r, Cov g (g.length + 1) (vsucc g r) id)
    (hU : ∀ (k : Nat) (r : PRule), g[k]? = some r → ∀ id ∈ trueHeads g nul r,
      ∀ k', id = k' + 1 → U k' = false)
    (hUS : ∀ k, U k = true → S k = false)
    (hS : ∀ (k : Nat) (r : PRule), g[k]? = some r → S k = true → ∀ id ∈ trueHeads g nul r,
      id ≠ g.length + 1 ∧ ∀ k', id = k' + 1 → S k' = true)
    (hskip : ∀ id ∈ heads nul (g.length + 1) (genSkipped g), ∃ k', id = k' + 1 ∧ k' < g.length ∧ S k' = true) :
    NoLeftRec (gen g) nul := by
  obtain ⟨rs, hrs⟩ := Acyclic.exists_rank_of_acyclic (vsuccN g) (g.map (·.name)) hacyc
  obtain ⟨M, hM⟩ : ∃ M, ∀ r ∈ g, 1 + rs r.name ≤ M :=
    ⟨_, fun r hr => lr_le_sum_map_of_mem (fun r => 1 + rs r.name) g r hr⟩
  -- the rank of a non-`U` rule is at most `2 * M + 1`
  have hsmall : ∀ k', k' < g.length → U k' = false → lrRank g S U rs M (k' + 1) ≤ 2 * M + 1 := by
    intro k' hlt hu
    have hk' : g[k']? = some g[k'] := List.getElem?_eq_getElem hlt
    have hnk' : lrNameAt g k' = g[k'].name := by simp [lrNameAt, hk']
    have := hM g[k'] (List.getElem_mem hlt)
    cases hs : S k'
    · rw [lrRank_notS g S U rs M k' hlt hs hu, hnk']; omega
    · rw [lrRank_S g S U rs M k' hlt hs, hnk']; omega
  refine ⟨lrRank g S U rs M, ?_, ?_⟩
  · intro r d hr r' hr'
    rw [lr_gen_sid] at hr'
    cases r with
    | zero =>
      rw [lr_gen_rule_zero] at hr
      injection hr with hr; subst hr
      simp [eoiDef, heads] at hr'
    | succ k =>
      obtain ⟨pr, hk, hdef⟩ := lr_gen_rule_succ g k d hr
      subst hdef
      have hklt : k < g.length := lr_getElem?_lt hk
      have hprmem : pr ∈ g := List.mem_of_getElem? hk
      have hnk : lrNameAt g k = pr.name := by simp [lrNameAt, hk]
      have hr'' : r' ∈ trueHeads g nul pr := by
        simp only [trueHeads, genExprS_eq]; exact hr'
      cases hu : U k with
      | true =>
        have hs := hUS k hu
        rw [lrRank_U g S U rs M k hklt hs hu]
        rcases heads_genExpr_idents g nul (g.length + 1) (lrFlag pr) pr.expr r' hr' with
          h0 | hsid | ⟨k', name, hid, _, hidx⟩
        · subst h0; show 0 < _; omega
        · subst hsid; rw [lrRank_sid]; omega
        · subst hid
          obtain ⟨pr', hk', _⟩ := lr_indexOf_some g name k' hidx
          have := hsmall k' (lr_getElem?_lt hk') (hU k pr hk _ hr'' k' rfl)
          omega
      | false =>
        have hpos : 0 < lrRank g S U rs M (k + 1) := by
          cases hs : S k
          · rw [lrRank_notS g S U rs M k hklt hs hu]; omega
          · rw [lrRank_S g S U rs M k hklt hs]; omega
        rcases hcov k pr hk hu r' hr'' with h0 | hsid | ⟨k', name, hid, hname, hidx⟩
        · subst h0; exact hpos
        · subst hsid
          have hSk : S k = false := by
            cases hs : S k
            · rfl
            · exact absurd rfl (hS k pr hk hs _ hr'').1
          rw [lrRank_sid, lrRank_notS g S U rs M k hklt hSk hu]; omega
        · subst hid
          obtain ⟨pr', hk', hn'⟩ := lr_indexOf_some g name k' hidx
          have hk'lt : k' < g.length := lr_getElem?_lt hk'
          have hpr'mem : pr' ∈ g := List.mem_of_getElem? hk'
          have hnk' : lrNameAt g k' = name := by simp [lrNameAt, hk', hn']
          have hu' : U k' = false := hU k pr hk _ hr'' k' rfl
          have hlt : rs name < rs pr.name := by
            apply hrs pr.name name
            · rw [vsuccN_of_nodup g hd pr hprmem]; exact hname
            · exact List.mem_map.mpr ⟨pr', hpr'mem, hn'⟩
          have hM' : 1 + rs name ≤ M := hn' ▸ hM pr' hpr'mem
          cases hs : S k
          · rw [lrRank_notS g S U rs M k hklt hs hu, hnk]
            cases hs' : S k'
            · rw [lrRank_notS g S U rs M k' hk'lt hs' hu', hnk']; omega
            · rw [lrRank_S g S U rs M k' hk'lt hs', hnk']; omega
          · have hs' := (hS k pr hk hs _ hr'').2 k' rfl
            rw [lrRank_S g S U rs M k hklt hs, hnk, lrRank_S g S U rs M k' hk'lt hs', hnk']; omega
  · intro r' hr'
    rw [lr_gen_sid] at hr' ⊢
    have hr'' : r' ∈ heads nul (g.length + 1) (genSkipped g) := hr'
    obtain ⟨k', hid, hlt, hs'⟩ := hskip r' hr''
    subst hid
    have hk' : g[k']? = some g[k'] := List.getElem?_eq_getElem hlt
    have hnk' : lrNameAt g k' = g[k'].name := by simp [lrNameAt, hk']
    have := hM g[k'] (List.getElem_mem hlt)
    rw [lrRank_sid, lrRank_S g S U rs M k' hlt hs', hnk']; omega

/-! ### the fragment and the theorem -/

/-- The rules the skip type refers to (indices into `g`). -/
def skipSeeds (g : PGrammar) : List Nat :=
  (g.indexOf "WHITESPACE").toList ++ (g.indexOf "COMMENT").toList

/-- Indices of the defined rules among the true heads of rule `k`. -/
def ruleHeadIdx (g : PGrammar) (nul : RuleId → Bool) (k : Nat) : List Nat :=
  match g[k]? with
  | some r => (trueHeads g nul r).filterMap fun id => if id = 0 ∨ id = g.length + 1 then none else some (id - 1)
  | none => []

def skipStep (g : PGrammar) (nul : RuleId → Bool) (S : List Nat) : List Nat :=
  (S ++ S.flatMap (ruleHeadIdx g nul)).eraseDups

/-- Candidate for the set of rules reachable from the skip type by true head edges (nothing is
proved about this computation: `LRFragment` CHECKS that the result is closed). -/
def skipSet (g : PGrammar) (nul : RuleId → Bool) : List Nat :=
  Nat.repeat (skipStep g nul) g.length (skipSeeds g)

/-- Rule `k` has no head edge to the skip type and none leaving `S`. -/
def skipClosedAt (g : PGrammar) (nul : RuleId → Bool) (S : List Nat) (k : Nat) : Bool :=
  match g[k]? with
  | some r => (trueHeads g nul r).all fun id => id != g.length + 1 && (id == 0 || S.contains (id - 1))
  | none => true

/-- Rule `k` is referenced by no identifier in any rule body (itself included). -/
def unrefd (g : PGrammar) (k : Nat) : Bool :=
  match g[k]? with
  | some r => !(g.any fun r' => (idents r'.expr).contains r.name)
  | none => false

/-- An unreferenced rule outside the skip closure: no head edge enters it, so it is on no cycle
whatever its own heads are (`file = { SOI ~ value ~ EOI }`). -/
def topRule (g : PGrammar) (nul : RuleId → Bool) (k : Nat) : Bool :=
  unrefd g k && !(skipSet g nul).contains k

/-- The per-rule clause: a top rule, or a body in the per-expression fragment. -/
def fragRuleAt (g : PGrammar) (nul : RuleId → Bool) (k : Nat) : Bool :=
  match g[k]? with
  | some r => topRule g nul k || fragExpr g nul (g.length + 1) (lrFlag r) r.name r.expr
  | none => true

/-- The fragment on which pest's left-recursion check is complete for the generated module:
1. rule names are pairwise distinct (`gen` resolves a name to its FIRST definition, `indexOf`; the
   validator to the LAST, `vLookup`);
2. every rule body satisfies `fragExpr` (blind spots 1–3) with the rule's own skip flag — except
   the rules that no identifier refers to and that are not in the skip closure (`topRule`): nothing
   can come back to them (typically the entry rule `SOI ~ … ~ EOI`, which hits blind spot 1);
3. + 4. blind spot 4, the implicit skip: the computed set `skipSet g nul` contains `WHITESPACE` and
   `COMMENT` (when defined) and is closed under true head edges, and no rule in it may start with an
   implicit skip (then rule → skip type → … → rule cannot close a cycle).  Rules outside the set may
   start with a skip.  With neither `WHITESPACE` nor `COMMENT` defined 3 and 4 hold trivially. -/
def LRFragment (g : PGrammar) (nul : RuleId → Bool) : Bool :=
  decide ((g.map (·.name)).Nodup) &&
  (List.range g.length).all (fragRuleAt g nul) &&
  (skipSeeds g).all (skipSet g nul).contains &&
  (skipSet g nul).all (skipClosedAt g nul (skipSet g nul))

theorem lr_heads_genSkipped (g : PGrammar) (nul : RuleId → Bool) (sid : RuleId) :
    ∀ id ∈ heads nul sid (genSkipped g), ∃ k ∈ skipSeeds g, id = k + 1 ∧ k < g.length := by
  intro id h
  unfold genSkipped at h
  unfold skipSeeds
  cases hw : g.indexOf "WHITESPACE" with
  | none =>
    cases hc : g.indexOf "COMMENT" with
    | none => simp [hw, hc, heads] at h
    | some c =>
      simp only [hw, hc, heads, List.mem_singleton] at h
      obtain ⟨r, hr, _⟩ := lr_indexOf_some g _ c hc
      exact ⟨c, by simp, h, lr_getElem?_lt hr⟩
  | some w =>
    obtain ⟨r, hr, _⟩ := lr_indexOf_some g _ w hw
    cases hc : g.indexOf "COMMENT" with
    | none =>
      simp only [hw, hc, heads, List.mem_singleton] at h
      exact ⟨w, by simp, h, lr_getElem?_lt hr⟩
    | some c =>
      obtain ⟨r', hr', _⟩ := lr_indexOf_some g _ c hc
      simp only [hw, hc, heads, headsAll, List.append_nil, List.singleton_append, List.mem_cons,
        List.not_mem_nil, or_false] at h
      rcases h with h | h
      · exact ⟨w, by simp, h, lr_getElem?_lt hr⟩
      · exact ⟨c, by simp, h, lr_getElem?_lt hr'⟩

theorem validator_leftrec_sound (g : PGrammar) (nul : RuleId → Bool)
    (hf : LRFragment g nul = true) (hv : validateLeftRecursion g = []) : NoLeftRec (gen g) nul := by
  simp only [LRFragment, Bool.and_eq_true, decide_eq_true_eq, List.all_eq_true] at hf
  obtain ⟨⟨⟨hd, hfrag⟩, hseeds⟩, hclosed⟩ := hf
  refine noLeftRec_of_acyclic_covered g nul (fun k => (skipSet g nul).contains k) (topRule g nul) hd
    (vsuccN_acyclic_of_validate g hv) ?_ ?_ ?_ ?_ ?_
  · intro k r hk hu id hid
    have := hfrag k (List.mem_range.mpr (lr_getElem?_lt hk))
    simp only [fragRuleAt, hk, hu, Bool.false_or] at this
    simp only [trueHeads, genExprS_eq] at hid
    exact heads_genExpr_cov g nul (g.length + 1) (lrFlag r) r.name r.expr this id hid
  · intro k r hk id hid k' hk'
    subst hk'
    simp only [trueHeads, genExprS_eq] at hid
    have hun : unrefd g k' = false := by
      rcases heads_genExpr_idents g nul (g.length + 1) (lrFlag r) r.expr _ hid with
        h0 | hsid | ⟨k'', name, hid', hname, hidx⟩
      · cases h0
      · have : k' = g.length := Nat.add_right_cancel hsid
        subst this
        simp [unrefd]
      · have : k' = k'' := Nat.add_right_cancel hid'
        subst this
        obtain ⟨pr', hk', hn'⟩ := lr_indexOf_some g name k' hidx
        simp only [unrefd, hk', Bool.not_eq_false', List.any_eq_true]
        exact ⟨r, List.mem_of_getElem? hk, by rw [hn']; exact List.contains_iff_mem.mpr hname⟩
    simp [topRule, hun]
  · intro k hu
    simp only [topRule, Bool.and_eq_true, Bool.not_eq_true'] at hu
    exact hu.2
  · intro k r hk hs id hid
    have hkS : k ∈ skipSet g nul := List.contains_iff_mem.mp hs
    have hc := hclosed k hkS
    simp only [skipClosedAt, hk, List.all_eq_true, Bool.and_eq_true, Bool.or_eq_true, bne_iff_ne, ne_eq,
      beq_iff_eq] at hc
    obtain ⟨h1, h2⟩ := hc id hid
    refine ⟨h1, ?_⟩
    intro k' hk'
    subst hk'
    rcases h2 with h2 | h2
    · cases h2
    · simpa using h2
  · intro id hid
    obtain ⟨k, hk, hidk, hlt⟩ := lr_heads_genSkipped g nul _ id hid
    exact ⟨k, hidk, hlt, hseeds k hk⟩

/-- The same from acceptance by the whole mirrored `validate_ast`. -/
theorem validator_leftrec_sound_of_pestValidate (g : PGrammar) (nul : RuleId → Bool)
    (hf : LRFragment g nul = true) (hv : pestValidate g = []) : NoLeftRec (gen g) nul := by
  simp only [pestValidate, List.append_eq_nil_iff] at hv
  exact validator_leftrec_sound g nul hf hv.2

/-! ### non-vacuity, and the blind spots are outside the fragment -/

def lrNul : RuleId → Bool := fun r => r == 0

/-- `expr = { "(" ~ expr ~ ")" | "x" }  list = { expr ~ ("," ~ expr)* }  WHITESPACE = _{ " " | NEWLINE }` -/
def lrG1 : PGrammar :=
  [⟨"expr", .normal, .choice (.seq (.seq (.str ['(']) (.ident "expr")) (.str [')'])) (.str ['x'])⟩,
   ⟨"list", .normal, .seq (.ident "expr") (.rep (.seq (.str [',']) (.ident "expr")))⟩,
   ⟨"WHITESPACE", .silent, .choice (.str [' ']) (.ident "NEWLINE")⟩]

example : LRFragment lrG1 lrNul = true := by decide
example : validateLeftRecursion lrG1 = [] := by decide
example : NoLeftRec (gen lrG1) lrNul := validator_leftrec_sound lrG1 lrNul (by decide) (by decide)

/-- `a = { "x"? ~ a }` -/
def lrG2 : PGrammar := [⟨"a", .normal, .seq (.opt (.str ['x'])) (.ident "a")⟩]
example : LRFragment lrG2 lrNul = true := by decide
example : validateLeftRecursion lrG2 = [.leftRecursion] := by decide

/-- blind spot 1: `a = { !"x" ~ a }` -/
def lrB1 : PGrammar := [⟨"a", .normal, .seq (.negPred (.str ['x'])) (.ident "a")⟩]
example : validateLeftRecursion lrB1 = [] ∧ LRFragment lrB1 lrNul = false := by decide
/-- blind spot 2: `a = { a? ~ "x" }` -/
def lrB2 : PGrammar := [⟨"a", .normal, .seq (.opt (.ident "a")) (.str ['x'])⟩]
example : validateLeftRecursion lrB2 = [] ∧ LRFragment lrB2 lrNul = false := by decide
/-- blind spot 3: `a = { a{2} }` -/
def lrB3 : PGrammar := [⟨"a", .normal, .repExact (.ident "a") 2⟩]
example : validateLeftRecursion lrB3 = [] ∧ LRFragment lrB3 lrNul = false := by decide
/-- blind spot 4: `a = { "x"? ~ "y" }  WHITESPACE = { a }` -/
def lrB4 : PGrammar := [⟨"a", .normal, .seq (.opt (.str ['x'])) (.str ['y'])⟩, ⟨"WHITESPACE", .normal, .ident "a"⟩]
example : validateLeftRecursion lrB4 = [] ∧ LRFragment lrB4 lrNul = false := by decide
/-- … while a skip rule that refers to other rules is fine when no skip can run at their start. -/
def lrG3 : PGrammar :=
  [⟨"a", .normal, .seq (.opt (.str ['x'])) (.str ['y'])⟩, ⟨"sp", .atomic, .seq (.str [' ']) (.opt (.ident "sp"))⟩,
   ⟨"COMMENT", .normal, .ident "sp"⟩]
example : validateLeftRecursion lrG3 = [] ∧ LRFragment lrG3 lrNul = true := by decide
example : skipSet lrG3 lrNul = [2, 1] := by decide

/-- `string = ${ "\"" ~ (!"\"" ~ ANY)* ~ "\"" }  value = { string | "[" ~ (value ~ ("," ~ value)*)? ~ "]" }
`file = { SOI ~ value ~ EOI }  WHITESPACE = _{ " " }` (left-nested sequences, as parsed). -/
def lrG4 : PGrammar :=
  [⟨"string", .compoundAtomic,
      .seq (.seq (.str ['"']) (.rep (.seq (.negPred (.str ['"'])) (.ident "ANY")))) (.str ['"'])⟩,
   ⟨"value", .normal,
      .choice (.ident "string")
        (.seq (.seq (.str ['['])
          (.opt (.seq (.ident "value") (.rep (.seq (.str [',']) (.ident "value")))))) (.str [']']))⟩,
   ⟨"file", .normal, .seq (.seq (.ident "SOI") (.ident "value")) (.ident "EOI")⟩,
   ⟨"WHITESPACE", .silent, .str [' ']⟩]
example : LRFragment lrG4 lrNul = true := by decide
example : pestValidate lrG4 = [] := by decide
example : NoLeftRec (gen lrG4) lrNul :=
  validator_leftrec_sound_of_pestValidate lrG4 lrNul (by decide) (by decide)
/-- The entry rule `file` is outside `fragExpr` (`SOI ~ value`: blind spot 1) and is covered as a
top rule; the same body in a rule that something refers to is not. -/
example : fragRuleAt lrG4 lrNul 2 = true ∧ topRule lrG4 lrNul 2 = true ∧
    fragExpr lrG4 lrNul 5 .inh "file" (.seq (.seq (.ident "SOI") (.ident "value")) (.ident "EOI")) = false := by
  decide
/-- `a = { SOI ~ a }`: accepted by pest, referenced by itself, outside the fragment. -/
def lrB5 : PGrammar := [⟨"a", .normal, .seq (.ident "SOI") (.ident "a")⟩]
example : validateLeftRecursion lrB5 = [] ∧ LRFragment lrB5 lrNul = false := by decide

end PestTyped
