/-
Lemmas.TextPosition — `Position::line_col`, `find_line_start`, `find_line_end`, `line_of` of the
model against their declarative descriptions (for C12, reused by C13 `lines` and by C14).
-/
import PestTyped.Lemmas.TextBytes
namespace PestTyped
namespace Text

/-! ### the line/column scan -/

/-- The scan without CR handling: LF starts a new line, any other character is a column. -/
def lcSpec : List Char → Nat × Nat → Nat × Nat
  | [], lc => lc
  | c :: cs, lc => if c = '\n' then lcSpec cs (lc.1 + 1, 1) else lcSpec cs (lc.1, lc.2 + 1)

/-- On a slice of exactly `pos` bytes the CR/LF state machine never reaches `unreachable!()` or a
negative `pos`, and computes what the plain scan computes (the `pos == 1` branch is dead). -/
theorem lineColLoop_spec (cs : List Char) (pos : Nat) (lc : Nat × Nat) (h : pos = blen cs) :
    lineColLoop cs pos lc = .ok (lcSpec cs lc) := by
  have hCR := utf8Size_CR
  have hLF := utf8Size_LF
  fun_induction lineColLoop cs pos lc
  case case1 => rw [blen_eq_zero h.symm]; rfl
  case case2 => simp at h; omega
  case case3 => simp only [blen_cons] at h; omega
  case case4 ih =>
    simp only [blen_cons] at h
    rw [ih (by omega)]; simp [lcSpec]
  case case5 d rest' hd ih =>
    simp only [blen_cons] at h ih
    rw [ih (by omega)]; simp [lcSpec]
  case case6 ih =>
    simp only [blen_cons, blen_nil] at h ih
    rw [ih (by omega)]; simp [lcSpec]
  case case7 ih =>
    simp only [blen_cons] at h
    rw [ih (by omega)]; simp [lcSpec]
  case case8 c rest hc1 hc2 hle ih =>
    simp only [blen_cons] at h
    rw [ih (by omega)]; simp [lcSpec, hc2]
  case case9 => simp only [blen_cons] at h; omega

theorem afterLastLF_append_singleton (pre : List Char) (c : Char) :
    afterLastLF (pre ++ [c]) = if c = '\n' then [] else afterLastLF pre ++ [c] := by
  unfold afterLastLF
  simp only [List.reverse_append, List.reverse_cons, List.reverse_nil, List.nil_append,
    List.singleton_append, List.takeWhile_cons]
  by_cases h : c = '\n'
  · simp [h]
  · simp [h]

theorem afterLastLF_nil : afterLastLF [] = [] := rfl

/-- `lcSpec` in closed form, scanning from the right end. -/
theorem lcSpec_append_singleton (pre : List Char) (c : Char) (lc : Nat × Nat) :
    lcSpec (pre ++ [c]) lc =
      if c = '\n' then ((lcSpec pre lc).1 + 1, 1) else ((lcSpec pre lc).1, (lcSpec pre lc).2 + 1) := by
  induction pre generalizing lc with
  | nil => simp [lcSpec]
  | cons d ds ih =>
    simp only [List.cons_append, lcSpec]
    split <;> rw [ih]

theorem lcSpec_closed (pre : List Char) :
    lcSpec pre (1, 1) = (1 + pre.count '\n', 1 + (afterLastLF pre).length) := by
  -- induction from the right
  suffices h : ∀ r : List Char, lcSpec r.reverse (1, 1) =
      (1 + r.reverse.count '\n', 1 + (afterLastLF r.reverse).length) by
    simpa using h pre.reverse
  intro r
  induction r with
  | nil => simp [lcSpec, afterLastLF]
  | cons c r ih =>
    simp only [List.reverse_cons]
    rw [lcSpec_append_singleton, ih, afterLastLF_append_singleton, List.count_append]
    by_cases h : c = '\n'
    · subst h; simp; omega
    · have : ([c] : List Char).count '\n' = 0 := by
        simp [h]
      simp [h, this]; omega

/-- `Position::line_col` on a boundary. -/
theorem lineCol_of_split (pre suf : List Char) :
    lineCol (pre ++ suf) (blen pre) = .ok (1 + pre.count '\n', 1 + (afterLastLF pre).length) := by
  unfold lineCol
  rw [if_neg (by rw [blen_append]; omega), takeBytes_append]
  simp only []
  rw [lineColLoop_spec pre (blen pre) (1, 1) rfl, lcSpec_closed]

theorem lineCol_panic_iff (s : List Char) (p : Nat) : lineCol s p = .panic ↔ ¬ IsBoundary s p := by
  constructor
  · rintro h ⟨pre, suf, rfl, rfl⟩
    rw [lineCol_of_split] at h; cases h
  · intro h
    unfold lineCol
    split
    · rfl
    · rw [takeBytes_none_iff.mpr h]

/-! ### splitting a prefix at its last LF -/

theorem mem_reverse_takeWhile_ne {l : List Char} {c : Char}
    (h : c ∈ (l.takeWhile (· != '\n'))) : c ≠ '\n' := by
  induction l with
  | nil => simp at h
  | cons x xs ih =>
    rw [List.takeWhile_cons] at h
    split at h
    · rename_i hx
      simp only [List.mem_cons] at h
      rcases h with h | h
      · subst h; simpa using hx
      · exact ih h
    · simp at h

theorem LF_not_mem_afterLastLF (pre : List Char) : '\n' ∉ afterLastLF pre := by
  intro h
  unfold afterLastLF at h
  rw [List.mem_reverse] at h
  exact mem_reverse_takeWhile_ne h rfl

/-- Either there is no LF, or the text splits uniquely at its last LF. -/
theorem split_last_LF (pre : List Char) :
    ('\n' ∉ pre ∧ afterLastLF pre = pre) ∨
    ∃ a, pre = a ++ '\n' :: afterLastLF pre := by
  suffices h : ∀ r : List Char, ('\n' ∉ r.reverse ∧ afterLastLF r.reverse = r.reverse) ∨
      ∃ a, r.reverse = a ++ '\n' :: afterLastLF r.reverse by
    simpa using h pre.reverse
  intro r
  induction r with
  | nil => left; simp [afterLastLF]
  | cons c r ih =>
    simp only [List.reverse_cons]
    rw [afterLastLF_append_singleton]
    by_cases hc : c = '\n'
    · right; subst hc; exact ⟨r.reverse, by simp⟩
    · rw [if_neg hc]
      rcases ih with ⟨h1, h2⟩ | ⟨a, ha⟩
      · left
        refine ⟨?_, by rw [h2]⟩
        simp only [List.mem_append, List.mem_singleton, not_or]
        exact ⟨h1, fun h => hc h.symm⟩
      · right
        refine ⟨a, ?_⟩
        conv => lhs; rw [ha]
        simp

theorem afterLastLF_suffix (pre : List Char) : ∃ a, pre = a ++ afterLastLF pre ∧
    (a = [] ∨ a.getLast? = some '\n') := by
  rcases split_last_LF pre with ⟨_, h⟩ | ⟨a, ha⟩
  · exact ⟨[], by simp [h], Or.inl rfl⟩
  · exact ⟨a ++ ['\n'], by simpa using ha, Or.inr (by simp)⟩

/-! ### find_line_start -/

theorem find?_LF_none {o : Nat} {b : List Char} (h : '\n' ∉ b) :
    ((charIndicesFrom o b).reverse).find? (fun ic => ic.2 == '\n') = none := by
  rw [List.find?_eq_none]
  intro ic hic
  rw [List.mem_reverse] at hic
  have := (mem_charIndicesFrom hic).1
  simp only [beq_iff_eq]
  intro h'; rw [h'] at this; exact h this

theorem find?_LF_none' {o : Nat} {b : List Char} (h : '\n' ∉ b) :
    (charIndicesFrom o b).find? (fun ic => ic.2 == '\n') = none := by
  rw [List.find?_eq_none]
  intro ic hic
  have := (mem_charIndicesFrom hic).1
  simp only [beq_iff_eq]
  intro h'; rw [h'] at this; exact h this

theorem dropWhile_all {α} (p : α → Bool) (l : List α) (h : ∀ x ∈ l, p x = true) :
    l.dropWhile p = [] := by
  induction l with
  | nil => rfl
  | cons x xs ih =>
    rw [List.dropWhile_cons, if_pos (h x (by simp))]
    exact ih (fun y hy => h y (by simp [hy]))

theorem dropWhile_none {α} (p : α → Bool) (l : List α) (h : ∀ x ∈ l, p x = false) :
    l.dropWhile p = l := by
  cases l with
  | nil => rfl
  | cons x xs => rw [List.dropWhile_cons, if_neg (by simp [h x (by simp)])]

/-- The reverse scan of `find_line_start` at the boundary `blen pre`. -/
theorem findLineStart_of_split (pre suf : List Char) :
    findLineStart (pre ++ suf) (blen pre) = blen pre - blen (afterLastLF pre) := by
  unfold findLineStart
  split
  · -- empty input
    rename_i h
    have : pre = [] := by
      cases pre with
      | nil => rfl
      | cons c cs => simp at h
    subst this; simp
  · unfold charIndices
    rw [charIndicesFrom_append, List.reverse_append, List.dropWhile_append]
    rw [dropWhile_all _ (charIndicesFrom (0 + blen pre) suf).reverse (by
      intro ic hic
      rw [List.mem_reverse] at hic
      have := (mem_charIndicesFrom hic).2.1
      simp; omega)]
    simp only [List.isEmpty_nil, if_true]
    rw [dropWhile_none _ _ (by
      intro ic hic
      rw [List.mem_reverse] at hic
      have := (mem_charIndicesFrom hic).2.2
      simp; omega)]
    rcases split_last_LF pre with ⟨hno, hal⟩ | ⟨a, ha⟩
    · rw [find?_LF_none hno, hal]; simp
    · have hnb := LF_not_mem_afterLastLF pre
      generalize afterLastLF pre = b at ha hnb
      subst ha
      rw [charIndicesFrom_append, List.reverse_append]
      simp only [charIndicesFrom, List.reverse_cons, List.append_assoc, List.singleton_append]
      rw [List.find?_append, find?_LF_none hnb]
      simp [blen_append, utf8Size_LF]
      omega

/-! ### find_line_end -/

theorem throughLF_append_afterLF (s : List Char) : throughLF s ++ afterLF s = s := by
  induction s with
  | nil => rfl
  | cons c cs ih =>
    simp only [throughLF, afterLF]
    split
    · simp
    · simp [ih]

theorem blen_throughLF_le (s : List Char) : blen (throughLF s) ≤ blen s := by
  conv => rhs; rw [← throughLF_append_afterLF s, blen_append]
  omega

theorem find?_LF_forward (o : Nat) (suf : List Char) :
    (match (charIndicesFrom o suf).find? (fun ic => ic.2 == '\n') with
      | some ic => ic.1 + 1
      | none => o + blen suf) = o + blen (throughLF suf) := by
  induction suf generalizing o with
  | nil => simp [charIndicesFrom, throughLF]
  | cons c cs ih =>
    simp only [charIndicesFrom, List.find?_cons, throughLF]
    by_cases hc : c = '\n'
    · subst hc; simp [utf8Size_LF]
    · have hb : (c == '\n') = false := by simp [hc]
      rw [hb, if_neg hc]
      have := ih (o + c.utf8Size)
      simp only [blen_cons]
      rw [Nat.add_assoc] at this
      rw [this]; omega

theorem throughLF_single {c : Char} : throughLF [c] = [c] := by
  simp only [throughLF]; split <;> rfl

/-- The forward scan of `find_line_end` at the boundary `blen pre`, including the `len - 1`
shortcut. -/
theorem findLineEnd_of_split (pre suf : List Char) :
    findLineEnd (pre ++ suf) (blen pre) = blen pre + blen (throughLF suf) := by
  unfold findLineEnd
  split
  · rename_i h
    have h' : pre ++ suf = [] := by simpa using h
    obtain ⟨rfl, rfl⟩ := List.append_eq_nil_iff.mp h'
    simp [throughLF]
  · split
    · -- pos = len - 1: the rest is a single one-byte character
      rename_i hne h
      rw [blen_append] at h ⊢
      have hs : blen suf = 1 := by
        rcases suf with _ | ⟨c, cs⟩
        · exfalso
          simp only [blen_nil, Nat.add_zero] at h
          have : pre ≠ [] := by intro hp; subst hp; simp at hne
          cases pre with
          | nil => exact this rfl
          | cons c cs => have := Char.utf8Size_pos c; simp at h; omega
        · have := Char.utf8Size_pos c; simp only [blen_cons] at h ⊢; omega
      rcases suf with _ | ⟨c, cs⟩
      · simp at hs
      · have hp := Char.utf8Size_pos c
        simp only [blen_cons] at hs
        have : cs = [] := blen_eq_zero (by omega)
        subst this
        rw [throughLF_single]
    · unfold charIndices
      rw [charIndicesFrom_append, List.dropWhile_append]
      rw [dropWhile_all _ (charIndicesFrom 0 pre) (by
        intro ic hic
        have := (mem_charIndicesFrom hic).2.2
        simp; omega)]
      simp only [List.isEmpty_nil, if_true]
      rw [dropWhile_none _ _ (by
        intro ic hic
        have := (mem_charIndicesFrom hic).2.1
        simp; omega)]
      have := find?_LF_forward (0 + blen pre) suf
      simp only [Nat.zero_add] at this ⊢
      rw [blen_append]
      exact this

/-! ### line_of -/

theorem lineOf_of_split (pre suf : List Char) :
    lineOf (pre ++ suf) (blen pre) = .ok (afterLastLF pre ++ throughLF suf) := by
  unfold lineOf
  rw [if_neg (by rw [blen_append]; omega), findLineStart_of_split, findLineEnd_of_split]
  obtain ⟨a, ha, _⟩ := afterLastLF_suffix pre
  unfold slice
  have : getRange (pre ++ suf) (blen pre - blen (afterLastLF pre)) (blen pre + blen (throughLF suf)) =
      some (afterLastLF pre ++ throughLF suf) := by
    rw [getRange_eq_some]
    refine ⟨a, afterLF suf, ?_, ?_, ?_⟩
    · conv => lhs; rw [ha, ← throughLF_append_afterLF suf]
      simp
    · have := congrArg blen ha
      rw [blen_append] at this
      omega
    · have := congrArg blen ha
      rw [blen_append] at this
      rw [blen_append]; omega
  rw [this]; rfl

theorem lineOf_panic_iff (s : List Char) (p : Nat) (hb : p ≤ blen s → IsBoundary s p) :
    lineOf s p = .panic ↔ p > blen s := by
  constructor
  · intro h
    by_cases hp : p > blen s
    · exact hp
    · obtain ⟨pre, suf, rfl, rfl⟩ := hb (by omega)
      rw [lineOf_of_split] at h; cases h
  · intro h; unfold lineOf; rw [if_pos h]

/-! ### the line as a maximal segment -/

theorem throughLF_ne_nil {s : List Char} (h : s ≠ []) : throughLF s ≠ [] := by
  cases s with
  | nil => exact absurd rfl h
  | cons c cs => simp only [throughLF]; split <;> simp

theorem LF_not_mem_dropLast_throughLF (s : List Char) : '\n' ∉ (throughLF s).dropLast := by
  induction s with
  | nil => simp [throughLF]
  | cons c cs ih =>
    simp only [throughLF]
    split
    · simp
    · rename_i hc
      cases ht : throughLF cs with
      | nil => simp
      | cons d ds =>
        rw [ht] at ih
        simp only [List.dropLast_cons_cons, List.mem_cons, not_or]
        exact ⟨fun h => hc h.symm, ih⟩

theorem throughLF_last_or_end (s : List Char) :
    (throughLF s).getLast? = some '\n' ∨ afterLF s = [] := by
  induction s with
  | nil => right; rfl
  | cons c cs ih =>
    simp only [throughLF, afterLF]
    split
    · left; rename_i hc; subst hc; rfl
    · rcases ih with h | h
      · left
        cases ht : throughLF cs with
        | nil => rw [ht] at h; simp at h
        | cons d ds => rw [ht] at h; rw [List.getLast?_cons_cons]; exact h
      · right; exact h

theorem LF_not_mem_throughLF_of_last_ne {s : List Char} (h : (throughLF s).getLast? ≠ some '\n') :
    '\n' ∉ throughLF s := by
  induction s with
  | nil => simp [throughLF]
  | cons c cs ih =>
    simp only [throughLF] at h ⊢
    split at h
    · rename_i hc; subst hc; simp at h
    · rename_i hc
      rw [if_neg hc]
      simp only [List.mem_cons, not_or]
      refine ⟨fun h' => hc h'.symm, ih ?_⟩
      cases ht : throughLF cs with
      | nil => simp
      | cons d ds => rw [ht, List.getLast?_cons_cons] at h; exact h

/-- The text returned by `line_of` is a maximal line of the input around the offset. -/
theorem lineSegment_props (pre suf : List Char) :
    ∃ before after, pre ++ suf = before ++ (afterLastLF pre ++ throughLF suf) ++ after ∧
      (before = [] ∨ before.getLast? = some '\n') ∧
      '\n' ∉ (afterLastLF pre ++ throughLF suf).dropLast ∧
      ((afterLastLF pre ++ throughLF suf).getLast? = some '\n' ∨ after = []) ∧
      blen before ≤ blen pre ∧
      (blen pre < blen before + blen (afterLastLF pre ++ throughLF suf) ∨
        (suf = [] ∧ after = [] ∧ (afterLastLF pre ++ throughLF suf).getLast? ≠ some '\n')) := by
  obtain ⟨a, ha, hbefore⟩ := afterLastLF_suffix pre
  have hlen := congrArg blen ha
  rw [blen_append] at hlen
  have hnb := LF_not_mem_afterLastLF pre
  refine ⟨a, afterLF suf, ?_, hbefore, ?_, ?_, by omega, ?_⟩
  · conv => lhs; rw [ha, ← throughLF_append_afterLF suf]
    simp
  · cases ht : throughLF suf with
    | nil =>
      simp only [List.append_nil]
      intro h; exact hnb (List.dropLast_subset _ h)
    | cons d ds =>
      rw [List.dropLast_append_of_ne_nil (by simp)]
      have := LF_not_mem_dropLast_throughLF suf
      rw [ht] at this
      simp only [List.mem_append, not_or]
      exact ⟨hnb, this⟩
  · rcases throughLF_last_or_end suf with h | h
    · left
      rw [List.getLast?_append, h]; rfl
    · right; exact h
  · cases suf with
    | nil =>
      right
      refine ⟨rfl, rfl, ?_⟩
      simp only [throughLF, List.append_nil]
      intro h
      exact hnb (List.mem_of_getLast? h)
    | cons c cs =>
      left
      have hne : throughLF (c :: cs) ≠ [] := throughLF_ne_nil (by simp)
      have : 0 < blen (throughLF (c :: cs)) := by
        cases ht : throughLF (c :: cs) with
        | nil => exact absurd ht hne
        | cons d ds => have := Char.utf8Size_pos d; simp; omega
      rw [blen_append]; omega

end Text
end PestTyped
