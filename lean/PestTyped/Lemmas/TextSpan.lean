/-
Lemmas.TextSpan — `Span::new`, `as_str`, `get`, `merge_spans` and the line iterator of the model
against their declarative descriptions (for C13, reused by C14).
-/
import PestTyped.Lemmas.TextPosition
namespace PestTyped
namespace Text

/-- The invariant of every `Span`: ordered offsets on character boundaries of the input. -/
def Span.Valid (sp : Span) : Prop :=
  sp.start ≤ sp.stop ∧ IsBoundary sp.input sp.start ∧ IsBoundary sp.input sp.stop

theorem Span.new_eq_some {s : List Char} {a b : Nat} {sp : Span} :
    Span.new s a b = some sp ↔ sp = ⟨s, a, b⟩ ∧ a ≤ b ∧ IsBoundary s a ∧ IsBoundary s b := by
  unfold Span.new
  rw [← getRange_isSome_iff]
  cases getRange s a b <;> simp [eq_comm]

theorem Span.new_eq_none {s : List Char} {a b : Nat} :
    Span.new s a b = none ↔ ¬ (a ≤ b ∧ IsBoundary s a ∧ IsBoundary s b) := by
  unfold Span.new
  rw [← getRange_isSome_iff]
  cases getRange s a b <;> simp

theorem Span.new_of_valid {s : List Char} {a b : Nat} (h : a ≤ b) (ha : IsBoundary s a)
    (hb : IsBoundary s b) : Span.new s a b = some ⟨s, a, b⟩ :=
  Span.new_eq_some.mpr ⟨rfl, h, ha, hb⟩

/-- A valid span splits its input into the text before, the text of the span and the rest. -/
theorem Span.Valid.split {sp : Span} (h : sp.Valid) :
    ∃ pre t post, sp.input = pre ++ t ++ post ∧ blen pre = sp.start ∧ sp.start + blen t = sp.stop := by
  obtain ⟨hle, ha, hb⟩ := h
  have := getRange_isSome_iff.mpr ⟨hle, ha, hb⟩
  cases ht : getRange sp.input sp.start sp.stop with
  | none => rw [ht] at this; cases this
  | some t => obtain ⟨pre, post, h1, h2, h3⟩ := getRange_eq_some.mp ht; exact ⟨pre, t, post, h1, h2, h3⟩

theorem Span.asStr_of_split {sp : Span} {pre t post : List Char} (h1 : sp.input = pre ++ t ++ post)
    (h2 : blen pre = sp.start) (h3 : sp.start + blen t = sp.stop) : sp.asStr = .ok t := by
  unfold Span.asStr slice
  rw [getRange_eq_some.mpr ⟨pre, post, h1, h2, h3⟩]; rfl

theorem Span.asStr_panic_iff (sp : Span) : sp.asStr = .panic ↔ ¬ sp.Valid := by
  unfold Span.asStr slice Span.Valid
  rw [← getRange_none_iff]
  cases getRange sp.input sp.start sp.stop <;> simp [TR.unwrap]

/-- Boundaries of the text of a span are the boundaries of the input inside the span. -/
theorem isBoundary_mid (pre t post : List Char) (x : Nat) :
    IsBoundary t x ↔ IsBoundary (pre ++ t ++ post) (blen pre + x) ∧ x ≤ blen t := by
  constructor
  · rintro ⟨a, b, rfl, rfl⟩
    exact ⟨⟨pre ++ a, b ++ post, by simp, blen_append _ _⟩, by rw [blen_append]; omega⟩
  · rintro ⟨⟨u, v, huv, hu⟩, hx⟩
    obtain ⟨a, rfl⟩ := prefix_of_blen_le (p1 := pre) (q1 := t ++ post) (by simpa using huv) (by omega)
    rw [blen_append] at hu
    have h2 : t ++ post = a ++ v := by
      have : pre ++ (t ++ post) = pre ++ (a ++ v) := by simpa using huv
      exact List.append_cancel_left this
    obtain ⟨b, rfl⟩ := prefix_of_blen_le (p1 := a) (q1 := v) (p2 := t) (q2 := post) h2.symm (by omega)
    exact ⟨a, b, rfl, by omega⟩

/-- `Span::get` for every form of range. -/
theorem Span.get_of_valid {sp : Span} (h : sp.Valid) (lo hi : Bound) :
    let st := lo.startOff
    let en := hi.endOff (sp.stop - sp.start)
    (st ≤ en ∧ sp.start + en ≤ sp.stop ∧ IsBoundary sp.input (sp.start + st) ∧
        IsBoundary sp.input (sp.start + en) →
      sp.get lo hi = .ok (some ⟨sp.input, sp.start + st, sp.start + en⟩)) ∧
    (¬ (st ≤ en ∧ sp.start + en ≤ sp.stop ∧ IsBoundary sp.input (sp.start + st) ∧
        IsBoundary sp.input (sp.start + en)) →
      sp.get lo hi = .ok none) := by
  obtain ⟨pre, t, post, h1, h2, h3⟩ := h.split
  have hlen : sp.stop - sp.start = blen t := by omega
  intro st en
  have key : (getRange t st en).isSome ↔ (st ≤ en ∧ sp.start + en ≤ sp.stop ∧
      IsBoundary sp.input (sp.start + st) ∧ IsBoundary sp.input (sp.start + en)) := by
    rw [getRange_isSome_iff, isBoundary_mid pre t post st, isBoundary_mid pre t post en, h1, h2]
    constructor
    · rintro ⟨a, ⟨b, _⟩, c, d⟩; exact ⟨a, by omega, b, c⟩
    · rintro ⟨a, b, c, d⟩; exact ⟨a, ⟨c, by omega⟩, d, by omega⟩
  unfold Span.get
  rw [Span.asStr_of_split h1 h2 h3]
  simp only []
  rw [← hlen]
  constructor
  · intro hc
    have := key.mpr hc
    cases hg : getRange t st en with
    | none => rw [hg] at this; cases this
    | some r => rfl
  · intro hc
    have : ¬ (getRange t st en).isSome := fun h' => hc (key.mp h')
    cases hg : getRange t st en with
    | none => rfl
    | some r => rw [hg] at this; exact absurd rfl this

theorem isBoundary_min {s : List Char} {a b : Nat} (ha : IsBoundary s a) (hb : IsBoundary s b) :
    IsBoundary s (min a b) := by
  rcases Nat.le_total a b with h | h
  · rw [Nat.min_eq_left h]; exact ha
  · rw [Nat.min_eq_right h]; exact hb

theorem isBoundary_max {s : List Char} {a b : Nat} (ha : IsBoundary s a) (hb : IsBoundary s b) :
    IsBoundary s (max a b) := by
  rcases Nat.le_total a b with h | h
  · rw [Nat.max_eq_right h]; exact hb
  · rw [Nat.max_eq_left h]; exact ha

theorem mergeSpans_of_valid {a b : Span} (ha : a.Valid) (hb : b.Valid) (hi : a.input = b.input) :
    mergeSpans a b =
      if a.stop ≥ b.start ∧ a.start ≤ b.stop then
        some ⟨a.input, min a.start b.start, max a.stop b.stop⟩
      else none := by
  unfold mergeSpans
  split
  · apply Span.new_of_valid
    · have := ha.1; have := hb.1; omega
    · exact isBoundary_min ha.2.1 (hi ▸ hb.2.1)
    · exact isBoundary_max ha.2.2 (hi ▸ hb.2.2)
  · rfl

/-! ### the line iterator -/

/-- The lines an iterator standing at a line start (offset `o`, remaining lines `ls`) still
yields: all of them up to the first one that starts beyond `stop`. -/
def linesFromSpec (stop : Nat) : Nat → List (List Char) → List (Nat × List Char)
  | _, [] => []
  | o, l :: ls => if o > stop then [] else (o, l) :: linesFromSpec stop (o + blen l) ls

theorem splitLines_eq {suf : List Char} (h : suf ≠ []) :
    splitLines suf = throughLF suf :: splitLines (afterLF suf) := by
  induction suf with
  | nil => exact absurd rfl h
  | cons c cs ih =>
    simp only [splitLines, throughLF, afterLF]
    by_cases hc : c = '\n'
    · simp [hc]
    · simp only [hc, if_false]
      cases cs with
      | nil => simp [splitLines, throughLF, afterLF]
      | cons d ds => rw [ih (by simp)]

theorem length_splitLines_le (s : List Char) : (splitLines s).length ≤ s.length := by
  induction s with
  | nil => simp [splitLines]
  | cons c cs ih =>
    simp only [splitLines]
    split
    · simp; omega
    · split <;> simp_all <;> omega

theorem flatten_splitLines (s : List Char) : (splitLines s).flatten = s := by
  induction s with
  | nil => simp [splitLines]
  | cons c cs ih =>
    simp only [splitLines]
    split
    · simp [ih]
    · split
      · rename_i h; rw [h] at ih; simp at ih; simp [← ih]
      · rename_i l ls h; rw [h] at ih; simp at ih; simp [← ih]

theorem afterLastLF_of_getLast {l : List Char} (h : l.getLast? = some '\n') : afterLastLF l = [] := by
  unfold afterLastLF
  have : l.reverse.head? = some '\n' := by rw [List.head?_reverse]; exact h
  cases hr : l.reverse with
  | nil => rw [hr] at this; simp at this
  | cons x xs => rw [hr] at this; simp at this; subst this; simp

theorem afterLastLF_append_of_getLast (pre : List Char) {t : List Char} (h : t.getLast? = some '\n') :
    afterLastLF (pre ++ t) = [] := by
  apply afterLastLF_of_getLast
  rw [List.getLast?_append, h]; rfl

theorem blen_pos_of_ne_nil {s : List Char} (h : s ≠ []) : 0 < blen s := by
  cases s with
  | nil => exact absurd rfl h
  | cons c cs => have := Char.utf8Size_pos c; simp; omega

/-- One step of the iterator at a boundary inside the input. -/
theorem linesSpanNext_of_split {sp : Span} {pre suf : List Char} (hin : sp.input = pre ++ suf)
    (hle : blen pre ≤ sp.stop) (hne : suf ≠ []) :
    linesSpanNext sp (blen pre) =
      (some ⟨sp.input, blen pre - blen (afterLastLF pre), blen pre + blen (throughLF suf)⟩,
        blen pre + blen (throughLF suf)) := by
  have hpos := blen_pos_of_ne_nil hne
  unfold linesSpanNext
  rw [if_neg (by omega)]
  have hb : posNew sp.input (blen pre) = some (blen pre) := by
    unfold posNew; rw [hin, dropBytes_append]; rfl
  rw [hb]
  simp only []
  rw [if_neg (by rw [hin, blen_append]; omega)]
  rw [hin, findLineStart_of_split, findLineEnd_of_split]
  obtain ⟨a, ha, _⟩ := afterLastLF_suffix pre
  have hla := congrArg blen ha
  rw [blen_append] at hla
  rw [Span.new_of_valid (by omega)]
  · refine ⟨a, afterLastLF pre ++ suf, ?_, by omega⟩
    conv => lhs; rw [ha]
    simp
  · refine ⟨pre ++ throughLF suf, afterLF suf, ?_, blen_append _ _⟩
    conv => lhs; rw [← throughLF_append_afterLF suf]
    simp

theorem linesSpanNext_at_end {sp : Span} (hin : sp.input = pre) :
    (linesSpanNext sp (blen pre)).1 = none := by
  unfold linesSpanNext
  split
  · rfl
  · have hb : posNew sp.input (blen pre) = some (blen pre) := by
      unfold posNew; rw [hin]; have := dropBytes_append pre []; simp at this; rw [this]; rfl
    rw [hb]; simp only []
    rw [if_pos (by rw [hin])]

theorem linesSpanNext_beyond {sp : Span} {pos : Nat} (h : pos > sp.stop) :
    (linesSpanNext sp pos).1 = none := by
  unfold linesSpanNext; rw [if_pos h]

def mkLine (input : List Char) (ol : Nat × List Char) : Span := ⟨input, ol.1, ol.1 + blen ol.2⟩

/-- The iterator from a line start yields the remaining lines up to the first one starting beyond
the end of the span, whatever the (sufficient) fuel. -/
theorem linesSpanGo_from_lineStart (sp : Span) (fuel : Nat) (pre suf : List Char)
    (hin : sp.input = pre ++ suf) (hls : afterLastLF pre = [] ∨ suf = [])
    (hfuel : (splitLines suf).length < fuel) :
    linesSpanGo fuel sp (blen pre) =
      some ((linesFromSpec sp.stop (blen pre) (splitLines suf)).map (mkLine sp.input)) := by
  induction fuel generalizing pre suf with
  | zero => omega
  | succ fuel ih =>
    unfold linesSpanGo
    by_cases hne : suf = []
    · subst hne
      have := linesSpanNext_at_end (sp := sp) (pre := pre) (by simpa using hin)
      cases hn : linesSpanNext sp (blen pre) with
      | mk item pos' =>
        rw [hn] at this; simp only [] at this; subst this
        simp [splitLines, linesFromSpec]
    · rw [splitLines_eq hne] at hfuel ⊢
      simp only [linesFromSpec]
      by_cases hgt : blen pre > sp.stop
      · have := linesSpanNext_beyond (sp := sp) hgt
        cases hn : linesSpanNext sp (blen pre) with
        | mk item pos' =>
          rw [hn] at this; simp only [] at this; subst this
          simp [hgt]
      · rw [if_neg hgt, linesSpanNext_of_split hin (by omega) hne]
        simp only []
        have hpre : afterLastLF pre = [] := by
          rcases hls with h | h
          · exact h
          · exact absurd h hne
        have hin' : sp.input = (pre ++ throughLF suf) ++ afterLF suf := by
          rw [hin]; conv => lhs; rw [← throughLF_append_afterLF suf]
          simp
        have hls' : afterLastLF (pre ++ throughLF suf) = [] ∨ afterLF suf = [] := by
          rcases throughLF_last_or_end suf with h | h
          · left; exact afterLastLF_append_of_getLast pre h
          · right; exact h
        have := ih (pre ++ throughLF suf) (afterLF suf) hin' hls' (by simp at hfuel; omega)
        rw [blen_append] at this
        rw [this, hpre]
        simp [mkLine]

/-- `lines_span` of a valid span whose start splits the input into `pre ++ suf`. -/
theorem linesSpanGo_of_split (sp : Span) (fuel : Nat) (pre suf : List Char)
    (hin : sp.input = pre ++ suf) (hs : blen pre = sp.start) (hv : sp.start ≤ sp.stop)
    (hfuel : blen sp.input + 2 ≤ fuel) :
    linesSpanGo fuel sp sp.start = some (
      if suf = [] then []
      else ⟨sp.input, sp.start - blen (afterLastLF pre), sp.start + blen (throughLF suf)⟩ ::
        (linesFromSpec sp.stop (sp.start + blen (throughLF suf)) (splitLines (afterLF suf))).map
          (mkLine sp.input)) := by
  obtain ⟨fuel, rfl⟩ : ∃ f, fuel = f + 1 := ⟨fuel - 1, by omega⟩
  unfold linesSpanGo
  rw [← hs]
  by_cases hne : suf = []
  · subst hne
    have := linesSpanNext_at_end (sp := sp) (pre := pre) (by simpa using hin)
    cases hn : linesSpanNext sp (blen pre) with
    | mk item pos' =>
      rw [hn] at this; simp only [] at this; subst this
      simp
  · rw [if_neg hne, linesSpanNext_of_split hin (by omega) hne]
    simp only []
    have hin' : sp.input = (pre ++ throughLF suf) ++ afterLF suf := by
      rw [hin]; conv => lhs; rw [← throughLF_append_afterLF suf]
      simp
    have hls' : afterLastLF (pre ++ throughLF suf) = [] ∨ afterLF suf = [] := by
      rcases throughLF_last_or_end suf with h | h
      · left; exact afterLastLF_append_of_getLast pre h
      · right; exact h
    have hlen : (splitLines (afterLF suf)).length < fuel := by
      have h1 := length_splitLines_le (afterLF suf)
      have h2 := length_le_blen (afterLF suf)
      have h3 : blen (afterLF suf) ≤ blen sp.input := by
        rw [hin']; rw [blen_append]; omega
      omega
    have := linesSpanGo_from_lineStart sp fuel (pre ++ throughLF suf) (afterLF suf) hin' hls' hlen
    rw [blen_append] at this
    rw [this]; rfl

theorem linesSpan_of_split (sp : Span) (pre suf : List Char)
    (hin : sp.input = pre ++ suf) (hs : blen pre = sp.start) (hv : sp.start ≤ sp.stop) :
    sp.linesSpan =
      if suf = [] then []
      else ⟨sp.input, sp.start - blen (afterLastLF pre), sp.start + blen (throughLF suf)⟩ ::
        (linesFromSpec sp.stop (sp.start + blen (throughLF suf)) (splitLines (afterLF suf))).map
          (mkLine sp.input) := by
  unfold Span.linesSpan
  rw [linesSpanGo_of_split sp _ pre suf hin hs hv (Nat.le_refl _)]; rfl

/-- The texts of the lines from a line start. -/
theorem mapTR_asStr_linesFromSpec (input : List Char) (stop : Nat) (ls : List (List Char)) :
    ∀ pre post, input = pre ++ ls.flatten ++ post →
    mapTR Span.asStr ((linesFromSpec stop (blen pre) ls).map (mkLine input)) =
      .ok ((linesFromSpec stop (blen pre) ls).map (·.2)) := by
  induction ls with
  | nil => intro pre post _; rfl
  | cons l ls ih =>
    intro pre post hin
    simp only [linesFromSpec]
    split
    · rfl
    · simp only [List.map_cons, mapTR]
      have h1 : (mkLine input (blen pre, l)).asStr = .ok l := by
        apply Span.asStr_of_split (pre := pre) (post := ls.flatten ++ post)
        · simp [mkLine, hin]
        · rfl
        · rfl
      rw [h1]
      simp only []
      have := ih (pre ++ l) post (by simp [hin])
      rw [blen_append] at this
      rw [this]

theorem lines_of_split (sp : Span) (pre suf : List Char)
    (hin : sp.input = pre ++ suf) (hs : blen pre = sp.start) (hv : sp.start ≤ sp.stop) :
    sp.lines = .ok (
      if suf = [] then []
      else (afterLastLF pre ++ throughLF suf) ::
        (linesFromSpec sp.stop (sp.start + blen (throughLF suf)) (splitLines (afterLF suf))).map (·.2)) := by
  unfold Span.lines
  rw [linesSpan_of_split sp pre suf hin hs hv]
  by_cases hne : suf = []
  · simp [hne, mapTR]
  · rw [if_neg hne, if_neg hne]
    simp only [mapTR]
    obtain ⟨a, ha, _⟩ := afterLastLF_suffix pre
    have hla := congrArg blen ha
    rw [blen_append] at hla
    have h1 : (Span.mk sp.input (sp.start - blen (afterLastLF pre)) (sp.start + blen (throughLF suf))).asStr =
        .ok (afterLastLF pre ++ throughLF suf) := by
      apply Span.asStr_of_split (pre := a) (post := afterLF suf)
      · simp only []
        rw [hin]; conv => lhs; rw [ha, ← throughLF_append_afterLF suf]
        simp
      · simp only []; omega
      · simp only [blen_append]; omega
    rw [h1]
    simp only []
    have := mapTR_asStr_linesFromSpec sp.input sp.stop (splitLines (afterLF suf))
      (pre ++ throughLF suf) [] (by
        rw [flatten_splitLines, hin]; conv => lhs; rw [← throughLF_append_afterLF suf]
        simp)
    rw [blen_append, hs] at this
    rw [this]

/-! ### `splitLines` is the division into lines -/

theorem splitLines_props (s : List Char) :
    (∀ l ∈ splitLines s, l ≠ [] ∧ '\n' ∉ l.dropLast) ∧
    (∀ l ∈ (splitLines s).dropLast, l.getLast? = some '\n') := by
  induction s with
  | nil => simp [splitLines]
  | cons c cs ih =>
    obtain ⟨ihP, ihQ⟩ := ih
    simp only [splitLines]
    by_cases hc : c = '\n'
    · subst hc
      simp only [if_true]
      constructor
      · intro l hl
        simp only [List.mem_cons] at hl
        rcases hl with hl | hl
        · subst hl; simp
        · exact ihP l hl
      · intro l hl
        cases hs : splitLines cs with
        | nil => rw [hs] at hl; simp at hl
        | cons x xs =>
          rw [hs, List.dropLast_cons_cons] at hl
          simp only [List.mem_cons] at hl
          rcases hl with hl | hl
          · subst hl; rfl
          · exact ihQ l (by rw [hs]; exact hl)
    · simp only [hc, if_false]
      cases hs : splitLines cs with
      | nil => simp
      | cons x xs =>
        rw [hs] at ihP ihQ
        have hx := ihP x (by simp)
        simp only []
        constructor
        · intro l hl
          simp only [List.mem_cons] at hl
          rcases hl with hl | hl
          · subst hl
            refine ⟨by simp, ?_⟩
            cases x with
            | nil => exact absurd rfl hx.1
            | cons d ds =>
              rw [List.dropLast_cons_cons]
              simp only [List.mem_cons, not_or]
              exact ⟨fun h => hc h.symm, hx.2⟩
          · exact ihP l (by simp [hl])
        · intro l hl
          cases xs with
          | nil => simp at hl
          | cons y ys =>
            rw [List.dropLast_cons_cons] at hl ihQ
            simp only [List.mem_cons] at hl
            rcases hl with hl | hl
            · subst hl
              have := ihQ x (by simp)
              cases x with
              | nil => exact absurd rfl hx.1
              | cons d ds => rw [List.getLast?_cons_cons]; exact this
            · exact ihQ l (by simp [hl])

/-! ### the same lines, read off the line table of the input -/

/-- The line table of a text: byte ranges of its lines. -/
def lineTable (s : List Char) : List (Nat × Nat) := rangesFrom 0 (splitLines s)

theorem rangesFrom_append (o : Nat) (l1 l2 : List (List Char)) :
    rangesFrom o (l1 ++ l2) = rangesFrom o l1 ++ rangesFrom (o + blen l1.flatten) l2 := by
  induction l1 generalizing o with
  | nil => simp [rangesFrom]
  | cons l ls ih => simp [rangesFrom, ih, blen_append, Nat.add_assoc]

theorem mem_rangesFrom {o : Nat} {ls : List (List Char)} {r : Nat × Nat} (h : r ∈ rangesFrom o ls) :
    o ≤ r.1 ∧ r.1 ≤ r.2 ∧ r.2 ≤ o + blen ls.flatten := by
  induction ls generalizing o with
  | nil => simp [rangesFrom] at h
  | cons l ls ih =>
    simp only [rangesFrom, List.mem_cons] at h
    rcases h with h | h
    · subst h; simp only [List.flatten_cons, blen_append]; omega
    · have := ih h
      simp only [List.flatten_cons, blen_append]; omega

theorem splitLines_ne_nil {s : List Char} (h : s ≠ []) : splitLines s ≠ [] := by
  rw [splitLines_eq h]; simp

theorem splitLines_append_of_LF (a x : List Char) (ha : a = [] ∨ a.getLast? = some '\n') :
    splitLines (a ++ x) = splitLines a ++ splitLines x := by
  induction a with
  | nil => simp [splitLines]
  | cons c cs ih =>
    have hcs : cs = [] ∨ cs.getLast? = some '\n' := by
      cases cs with
      | nil => left; rfl
      | cons d ds =>
        right
        rcases ha with h | h
        · cases h
        · rwa [List.getLast?_cons_cons] at h
    simp only [List.cons_append, splitLines]
    by_cases hc : c = '\n'
    · simp [hc, ih hcs]
    · simp only [hc, if_false]
      have hne : cs ≠ [] := by
        intro h; subst h
        rcases ha with h | h
        · cases h
        · simp at h; exact hc h
      rw [ih hcs]
      cases hsl : splitLines cs with
      | nil => exact absurd hsl (splitLines_ne_nil hne)
      | cons l ls => rfl

theorem throughLF_append_of_not_mem {al : List Char} (h : '\n' ∉ al) (suf : List Char) :
    throughLF (al ++ suf) = al ++ throughLF suf ∧ afterLF (al ++ suf) = afterLF suf := by
  induction al with
  | nil => simp
  | cons c cs ih =>
    simp only [List.mem_cons, not_or] at h
    have hc : c ≠ '\n' := fun h' => h.1 h'.symm
    simp [throughLF, afterLF, hc, ih h.2]

theorem splitLines_of_not_mem {al : List Char} (h : '\n' ∉ al) :
    splitLines al = if al = [] then [] else [al] := by
  induction al with
  | nil => rfl
  | cons c cs ih =>
    simp only [List.mem_cons, not_or] at h
    have hc : c ≠ '\n' := fun h' => h.1 h'.symm
    simp only [splitLines, hc, if_false, ih h.2]
    cases cs with
    | nil => simp
    | cons d ds => simp

theorem filter_rangesFrom_tail (start stop o : Nat) (ls : List (List Char)) (ho : start < o) :
    (rangesFrom o ls).filter (fun r => decide (start < r.2 ∧ r.1 ≤ stop)) =
      (linesFromSpec stop o ls).map (fun ol => (ol.1, ol.1 + blen ol.2)) := by
  induction ls generalizing o with
  | nil => rfl
  | cons l ls ih =>
    simp only [rangesFrom, linesFromSpec]
    by_cases hgt : o > stop
    · rw [if_pos hgt]
      rw [List.filter_eq_nil_iff.mpr]
      · rfl
      · intro r hr
        simp only [List.mem_cons] at hr
        rcases hr with hr | hr
        · subst hr; simp; omega
        · have := mem_rangesFrom hr; simp; omega
    · rw [if_neg hgt, List.filter_cons, if_pos (by simp; omega)]
      rw [ih (o + blen l) (by omega)]; rfl

/-- `lines_span` yields exactly the lines of the input's line table that meet `[start, end]`
(closed at `end`: a line starting exactly at `end` is yielded too — pest's behaviour), in order,
each once. -/
theorem linesSpan_eq_filter (sp : Span) (hv : sp.Valid) :
    sp.linesSpan.map (fun l => (l.start, l.stop)) =
      (lineTable sp.input).filter (fun r => decide (sp.start < r.2 ∧ r.1 ≤ sp.stop)) ∧
    ∀ l ∈ sp.linesSpan, l.input = sp.input := by
  obtain ⟨hle, ⟨pre, suf, hin, hs⟩, _⟩ := hv
  rw [linesSpan_of_split sp pre suf hin hs hle]
  obtain ⟨a, ha, hbefore⟩ := afterLastLF_suffix pre
  have hla := congrArg blen ha
  rw [blen_append] at hla
  have hnb := LF_not_mem_afterLastLF pre
  constructor
  · unfold lineTable
    have hsplit : splitLines sp.input = splitLines a ++ splitLines (afterLastLF pre ++ suf) := by
      rw [hin, ← splitLines_append_of_LF a _ hbefore]
      conv => lhs; rw [ha]
      simp
    rw [hsplit, rangesFrom_append, List.filter_append, flatten_splitLines, Nat.zero_add]
    rw [List.filter_eq_nil_iff.mpr (by
      intro r hr
      have := mem_rangesFrom hr
      rw [flatten_splitLines] at this
      simp; omega)]
    rw [List.nil_append]
    by_cases hne : suf = []
    · subst hne
      simp only [List.append_nil, if_true, List.map_nil]
      rw [splitLines_of_not_mem hnb]
      split
      · rfl
      · simp [rangesFrom]; omega
    · rw [if_neg hne]
      have hne' : afterLastLF pre ++ suf ≠ [] := by simp [hne]
      rw [splitLines_eq hne', (throughLF_append_of_not_mem hnb suf).1,
        (throughLF_append_of_not_mem hnb suf).2]
      have hpos := blen_pos_of_ne_nil (throughLF_ne_nil hne)
      simp only [rangesFrom, List.map_cons, blen_append]
      rw [List.filter_cons, if_pos (by simp; omega)]
      rw [filter_rangesFrom_tail _ _ _ _ (by omega)]
      have e1 : blen a = sp.start - blen (afterLastLF pre) := by omega
      have e2 : sp.start - blen (afterLastLF pre) + (blen (afterLastLF pre) + blen (throughLF suf)) =
          sp.start + blen (throughLF suf) := by omega
      rw [e1, e2]
      simp [mkLine, Function.comp_def]
  · intro l hl
    split at hl
    · cases hl
    · simp only [List.mem_cons, List.mem_map] at hl
      rcases hl with hl | ⟨ol, _, hl⟩
      · subst hl; rfl
      · subst hl; rfl

end Text
end PestTyped
