/-
Lemmas.SkipLike — the hypothesis on the skip rules WHITESPACE / COMMENT shared by C01 (recognition,
`Lemmas/Sim*.lean`) and C02 (token trees, `Lemmas/SimTok.lean`), finding F-WS.

pest forces `Atomic` inside rules named WHITESPACE / COMMENT; pest-typed gives them their declared
kind.  The two differ at skip sites (sequences / repetitions) and in the tokens of rules called from
there.  `SkipRulesAtomicLike g`: the rule such a name resolves to is `@` / `$`, or its body is
"simple" (`SimpleSkipBody`: no sequence, no repetition, no reference to a rule of the grammar and no
`EOI`), in which case nothing in the body ever consults the atomicity, whatever the declared kind
(`WHITESPACE = _{ " " }`, `WHITESPACE = { " " | "\t" | NEWLINE }`, `COMMENT = !{ "#" }` are all fine).
-/
import PestTyped.Model.Spec
namespace PestTyped

/-- Bodies for which pest's forced `Atomic` mode and pest-typed's declared kind cannot differ: no
skip site (sequence, repetition), no rule call (a rule of the grammar, or `EOI`, which is a rule call
emitting a token).  Lookahead, choice, optional, `PUSH`, literals, ranges, stack slices and every
other built-in are allowed. -/
def SimpleSkipBody (g : PGrammar) : PExpr → Prop
  | .str _ => True
  | .insens _ => True
  | .range _ _ => True
  | .ident name => g.defines name = false ∧ name ≠ "EOI"
  | .peekSlice _ _ => True
  | .posPred e => SimpleSkipBody g e
  | .negPred e => SimpleSkipBody g e
  | .seq _ _ => False
  | .choice a b => SimpleSkipBody g a ∧ SimpleSkipBody g b
  | .opt e => SimpleSkipBody g e
  | .rep _ => False
  | .repOnce _ => False
  | .repExact _ _ => False
  | .repMin _ _ => False
  | .repMax _ _ => False
  | .repMinMax _ _ _ => False
  | .skip _ => True
  | .push e => SimpleSkipBody g e
  | .restoreOnErr e => SimpleSkipBody g e

/-- The rule that the name WHITESPACE (resp. COMMENT) resolves to — if any — is atomic (`@`) or
compound-atomic (`$`), or has a simple body.  Weaker than `SkipRulesAtomic` (every rule so named is
`@` / `$`): `SkipRulesAtomicLike.of_atomic`, `SkipRulesAtomic.like`. -/
def SkipRulesAtomicLike (g : PGrammar) : Prop :=
  ∀ nm r, (nm = "WHITESPACE" ∨ nm = "COMMENT") → g.find? nm = some r →
    (r.kind = .atomic ∨ r.kind = .compoundAtomic) ∨ SimpleSkipBody g r.expr

end PestTyped
