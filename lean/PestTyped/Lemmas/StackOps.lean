/-
Lemmas.StackOps — closed forms for the primitives behind the stack nodes: `Inp.matchString`,
`peekSpans`, `normalizeIndex` / `constrainIdxs`, `stackSlice`, the span pushed by `PUSH`, and the
special errors recorded by the tracker.  Also the literal 32-bit reading of `normalize_index`
(`normalizeIndexI32`) and its agreement with the `Int` reading.
-/
import PestTyped.Lemmas.RepLoop
namespace PestTyped

/-! ### `matchString` -/

theorem Inp.matchString_eq_some_iff (s : List Char) (i i' : Inp) :
    i.matchString s = some i' ↔ s <+: i.rest ∧ i' = i.adv s.length := by
  unfold Inp.matchString
  by_cases hp : s.isPrefixOf i.rest = true
  · simp only [hp, if_true, Option.some.injEq]
    have := List.isPrefixOf_iff_prefix.mp hp
    constructor
    · rintro rfl; exact ⟨this, rfl⟩
    · rintro ⟨_, rfl⟩; rfl
  · simp only [hp]
    have : ¬ s <+: i.rest := fun h => hp (List.isPrefixOf_iff_prefix.mpr h)
    simp [this]

theorem Inp.matchString_of_prefix {s : List Char} {i : Inp} (h : s <+: i.rest) :
    i.matchString s = some (i.adv s.length) :=
  (Inp.matchString_eq_some_iff s i _).mpr ⟨h, rfl⟩

theorem Inp.matchString_eq_none_iff (s : List Char) (i : Inp) :
    i.matchString s = none ↔ ¬ s <+: i.rest := by
  unfold Inp.matchString
  by_cases hp : s.isPrefixOf i.rest = true
  · have := List.isPrefixOf_iff_prefix.mp hp
    simp [hp, this]
  · have : ¬ s <+: i.rest := fun h => hp (List.isPrefixOf_iff_prefix.mpr h)
    simp [hp, this]

/-! ### spans -/

/-- After an advance, the span between the two cursors holds exactly the text in between. -/
theorem Inp.spanTo_of_adv {i i' : Inp} (h : i.Adv i') :
    (i.spanTo i').s = i.pos ∧ (i.spanTo i').e = i'.pos ∧ (i.spanTo i').txt ++ i'.rest = i.rest ∧
      i'.pos = i.pos + blen (i.spanTo i').txt := by
  obtain ⟨k, hk, rfl⟩ := h
  have e : i.rest.length - (i.adv k).rest.length = k := by
    simp only [Inp.adv, List.length_drop]; omega
  refine ⟨rfl, rfl, ?_, ?_⟩
  · simp only [Inp.spanTo, e]; exact List.take_append_drop k i.rest
  · simp only [Inp.spanTo, e]; rfl

/-! ### `peekSpans` -/

/-- The concatenation of the texts of a list of spans, in list order. -/
def stackText (sps : List Sp) : List Char := (sps.map (·.txt)).flatten

@[simp] theorem stackText_nil : stackText [] = [] := rfl
@[simp] theorem stackText_cons (sp : Sp) (rest : List Sp) : stackText (sp :: rest) = sp.txt ++ stackText rest := by
  simp [stackText]
theorem stackText_append (a b : List Sp) : stackText (a ++ b) = stackText a ++ stackText b := by
  simp [stackText]

/-- `peek_spans` matches exactly the concatenation of the span texts, in order. -/
theorem peekSpans_eq_some_iff : ∀ (sps : List Sp) (i i' : Inp),
    peekSpans sps i = some i' ↔ stackText sps <+: i.rest ∧ i' = i.adv (stackText sps).length := by
  intro sps
  induction sps with
  | nil =>
    intro i i'
    simp only [peekSpans, stackText_nil, List.nil_prefix, List.length_nil, Inp.adv_zero, true_and,
      Option.some.injEq]
    exact eq_comm
  | cons sp rest ih =>
    intro i i'
    unfold peekSpans
    by_cases hp : sp.txt <+: i.rest
    · rw [Inp.matchString_of_prefix hp]
      simp only [ih, stackText_cons, List.length_append]
      obtain ⟨t, ht⟩ := hp
      have hdrop : (i.adv sp.txt.length).rest = t := by
        simp only [Inp.adv, ← ht]; exact List.drop_left
      have hlen : sp.txt.length ≤ i.rest.length := by rw [← ht]; simp
      rw [hdrop, Inp.adv_adv i _ _ hlen, ← ht, List.prefix_append_right_inj]
    · have hn := (Inp.matchString_eq_none_iff sp.txt i).mpr hp
      rw [hn]
      simp only [reduceCtorEq, stackText_cons, false_iff, not_and]
      intro h
      exact absurd ((List.prefix_append _ _).trans h) hp

theorem peekSpans_eq_none_iff (sps : List Sp) (i : Inp) :
    peekSpans sps i = none ↔ ¬ stackText sps <+: i.rest := by
  cases h : peekSpans sps i with
  | none =>
    simp only [true_iff]
    intro hp
    have := (peekSpans_eq_some_iff sps i _).mpr ⟨hp, rfl⟩
    rw [h] at this; cases this
  | some i' =>
    simp only [reduceCtorEq, false_iff]
    exact fun hn => hn ((peekSpans_eq_some_iff sps i i').mp h).1

theorem peekSpans_of_prefix {sps : List Sp} {i : Inp} (h : stackText sps <+: i.rest) :
    peekSpans sps i = some (i.adv (stackText sps).length) :=
  (peekSpans_eq_some_iff sps i _).mpr ⟨h, rfl⟩

/-- What `peek_spans` consumed is the concatenated text. -/
theorem peekSpans_consumed {sps : List Sp} {i i' : Inp} (h : peekSpans sps i = some i') :
    i.rest = stackText sps ++ i'.rest ∧ i'.pos = i.pos + blen (stackText sps) := by
  obtain ⟨⟨t, ht⟩, rfl⟩ := (peekSpans_eq_some_iff sps i i').mp h
  constructor
  · simp only [Inp.adv, ← ht, List.drop_left]
  · simp only [Inp.adv, ← ht, List.take_left]

/-! ### `normalizeIndex`, `constrainIdxs` -/

/-- pest's reading of a slice bound: negative bounds count from the top of the stack. -/
def normIdx (i : Int) (len : Nat) : Int := if i < 0 then (len : Int) + i else i

theorem normalizeIndex_eq_some_iff (i : Int) (len k : Nat) :
    normalizeIndex i len = some k ↔
      0 ≤ normIdx i len ∧ normIdx i len ≤ (len : Int) ∧ (k : Int) = normIdx i len := by
  unfold normalizeIndex normIdx
  by_cases h3 : i < 0
  · have h2 : ¬ i ≥ 0 := by omega
    have h1 : ¬ i > (len : Int) := by omega
    simp only [h3, if_true, h1, if_false, h2]
    by_cases h4 : (len : Int) + i ≥ 0
    · simp only [h4, if_true, Option.some.injEq, true_and]; omega
    · simp only [h4, if_false, reduceCtorEq, false_iff]; omega
  · have h2 : i ≥ 0 := by omega
    simp only [h3, if_false]
    by_cases h1 : i > (len : Int)
    · simp only [h1, if_true, reduceCtorEq, false_iff]; omega
    · simp only [h1, if_false, h2, if_true, Option.some.injEq, true_and]; omega

/-- Out of range: `i > len`, or `i` negative with `len + i < 0`. -/
theorem normalizeIndex_eq_none_iff (i : Int) (len : Nat) :
    normalizeIndex i len = none ↔ i > (len : Int) ∨ (len : Int) + i < 0 := by
  unfold normalizeIndex
  by_cases h1 : i > (len : Int)
  · simp [h1]
  · simp only [h1, if_false, false_or]
    by_cases h2 : i ≥ 0
    · simp only [h2, if_true, reduceCtorEq, false_iff]; omega
    · simp only [h2, if_false]
      by_cases h4 : (len : Int) + i ≥ 0
      · simp only [h4, if_true, reduceCtorEq, false_iff]; omega
      · simp only [h4, if_false, true_iff]; omega

theorem normalizeIndex_eq_none_iff' (i : Int) (len : Nat) :
    normalizeIndex i len = none ↔ ¬ (0 ≤ normIdx i len ∧ normIdx i len ≤ (len : Int)) := by
  rw [normalizeIndex_eq_none_iff]; unfold normIdx; split <;> omega

/-- A non-negative bound `k ≤ len` is itself (`len` included: the one-past-the-top bound). -/
theorem normalizeIndex_nonneg (k len : Nat) (h : k ≤ len) : normalizeIndex (k : Int) len = some k := by
  rw [normalizeIndex_eq_some_iff]; unfold normIdx; split <;> omega

/-- A negative bound `-k` (`1 ≤ k ≤ len`) counts from the top: it is `len - k`. -/
theorem normalizeIndex_neg (k len : Nat) (h1 : 1 ≤ k) (h2 : k ≤ len) :
    normalizeIndex (-(k : Int)) len = some (len - k) := by
  rw [normalizeIndex_eq_some_iff]; unfold normIdx; split <;> omega

theorem constrainIdxs_none_eq_some_iff (a : Int) (len lo hi : Nat) :
    constrainIdxs a none len = some (lo, hi) ↔ normalizeIndex a len = some lo ∧ hi = len := by
  unfold constrainIdxs
  cases normalizeIndex a len with
  | none => simp
  | some lo' => simp only [Option.some.injEq, Prod.mk.injEq]; exact ⟨fun ⟨h1, h2⟩ => ⟨h1, h2.symm⟩, fun ⟨h1, h2⟩ => ⟨h1, h2.symm⟩⟩

theorem constrainIdxs_some_eq_some_iff (a b : Int) (len lo hi : Nat) :
    constrainIdxs a (some b) len = some (lo, hi) ↔
      normalizeIndex a len = some lo ∧ normalizeIndex b len = some hi := by
  simp only [constrainIdxs]
  cases normalizeIndex a len with
  | none => simp
  | some lo' =>
    simp only []
    cases normalizeIndex b len with
    | none => simp
    | some hi' => simp

theorem constrainIdxs_eq_none_iff (a : Int) (b : Option Int) (len : Nat) :
    constrainIdxs a b len = none ↔
      normalizeIndex a len = none ∨ ∃ b', b = some b' ∧ normalizeIndex b' len = none := by
  unfold constrainIdxs
  cases normalizeIndex a len with
  | none => simp
  | some lo' =>
    cases b with
    | none => simp
    | some b' =>
      simp only [Option.some.injEq, exists_eq_left', reduceCtorEq, false_or]
      cases normalizeIndex b' len with
      | none => simp
      | some hi' => simp

/-- The bounds `constrain_idxs` returns lie within the stack. -/
theorem constrainIdxs_le {a : Int} {b : Option Int} {len lo hi : Nat}
    (h : constrainIdxs a b len = some (lo, hi)) : lo ≤ len ∧ hi ≤ len := by
  cases b with
  | none =>
    obtain ⟨h1, h2⟩ := (constrainIdxs_none_eq_some_iff a len lo hi).mp h
    have := (normalizeIndex_eq_some_iff a len lo).mp h1
    omega
  | some b =>
    obtain ⟨h1, h2⟩ := (constrainIdxs_some_eq_some_iff a b len lo hi).mp h
    have := (normalizeIndex_eq_some_iff a len lo).mp h1
    have := (normalizeIndex_eq_some_iff b len hi).mp h2
    omega

/-! ### the 32-bit reading -/

/-- Two's-complement wrap to `i32` (`as i32`, and `+` on `i32` in release mode). -/
def wrapI32 (x : Int) : Int := Int.bmod x (2^32)

/-- `normalize_index` read literally on machine integers: `len as i32` truncates, `len as i32 + i`
wraps (a debug build would panic on overflow instead), `i as usize` / `real_i as usize` are taken
on non-negative values only.  `i` is the `i32` argument, given as its `Int` value. -/
def normalizeIndexI32 (i : Int) (len : Nat) : Option Nat :=
  let l := wrapI32 (len : Int)
  if i > l then none
  else if i ≥ 0 then some i.toNat
  else
    let real := wrapI32 (l + i)
    if real ≥ 0 then some real.toNat else none

theorem wrapI32_of_range (x : Int) (h1 : -2^31 ≤ x) (h2 : x < 2^31) : wrapI32 x = x := by
  unfold wrapI32
  simp only [Int.bmod_def]
  omega

/-- Whenever the stack has fewer than `2^31` entries (and `i` is an `i32`), the machine reading is
the mathematical one: no truncation, no overflow. -/
theorem normalizeIndexI32_eq (i : Int) (len : Nat) (hlen : len < 2^31) (h1 : -2^31 ≤ i) (h2 : i < 2^31) :
    normalizeIndexI32 i len = normalizeIndex i len := by
  unfold normalizeIndexI32 normalizeIndex
  have hl : wrapI32 (len : Int) = (len : Int) := wrapI32_of_range _ (by omega) (by omega)
  simp only [hl]
  by_cases h3 : i > (len : Int)
  · simp [h3]
  · simp only [h3, if_false]
    by_cases h4 : i ≥ 0
    · simp [h4]
    · simp only [h4, if_false]
      rw [wrapI32_of_range _ (by omega) (by omega)]

/-! ### `stackSlice` -/

theorem stackSlice_eq (stk : List Sp) (lo hi : Nat) :
    stackSlice stk lo hi = (stk.reverse.drop lo).take (hi - lo) := rfl

theorem stackSlice_eq_extract (stk : List Sp) (lo hi : Nat) :
    stackSlice stk lo hi = stk.reverse.extract lo hi := by
  simp [stackSlice, List.extract_eq_take_drop]

/-- `PEEK[0..]`: the whole stack, bottom first. -/
theorem stackSlice_full (stk : List Sp) : stackSlice stk 0 stk.length = stk.reverse := by
  simp only [stackSlice, List.drop_zero, Nat.sub_zero]
  exact List.take_of_length_le (by simp)

theorem stackSlice_empty (stk : List Sp) (lo hi : Nat) (h : hi ≤ lo) : stackSlice stk lo hi = [] := by
  simp [stackSlice, Nat.sub_eq_zero_of_le h]

theorem stackSlice_length (stk : List Sp) (lo hi : Nat) (h : hi ≤ stk.length) :
    (stackSlice stk lo hi).length = hi - lo := by
  simp only [stackSlice, List.length_take, List.length_drop, List.length_reverse]; omega

/-- Entry `k` of the slice is entry `lo + k` counted from the bottom of the stack. -/
theorem stackSlice_getElem? (stk : List Sp) (lo hi k : Nat) :
    (stackSlice stk lo hi)[k]? = if k < hi - lo then stk.reverse[lo + k]? else none := by
  simp [stackSlice, List.getElem?_take, List.getElem?_drop]

/-- … which is entry `len - 1 - (lo + k)` counted from the top (the head of the list). -/
theorem stackSlice_getElem?_top (stk : List Sp) (lo hi k : Nat) (hk : k < hi - lo) (hhi : hi ≤ stk.length) :
    (stackSlice stk lo hi)[k]? = stk[stk.length - 1 - (lo + k)]? := by
  rw [stackSlice_getElem?, if_pos hk, List.getElem?_reverse (by omega)]

/-- `PEEK[-1..]`: the top entry alone. -/
theorem stackSlice_top (sp : Sp) (rest : List Sp) :
    stackSlice (sp :: rest) rest.length (rest.length + 1) = [sp] := by
  simp [stackSlice]

/-- Splitting a slice: `lo..hi` is `lo..mid` followed by `mid..hi`. -/
theorem stackSlice_split (stk : List Sp) (lo mid hi : Nat) (h1 : lo ≤ mid) (h2 : mid ≤ hi) :
    stackSlice stk lo hi = stackSlice stk lo mid ++ stackSlice stk mid hi := by
  simp only [stackSlice]
  have e1 : hi - lo = (mid - lo) + (hi - mid) := by omega
  have e2 : mid = lo + (mid - lo) := by omega
  rw [e1, List.take_add]
  congr 2
  rw [List.drop_drop]
  congr 1; omega

/-! ### special errors in the tracker -/

theorem modifyEntry_mem (f : Tracked → Tracked) (k : Option RuleId) :
    ∀ l : List (Option RuleId × Tracked), ∃ e, (k, f e) ∈ Tracker.modifyEntry f k l := by
  intro l
  induction l with
  | nil => exact ⟨{}, by simp [Tracker.modifyEntry]⟩
  | cons kv rest ih =>
    obtain ⟨k', v⟩ := kv
    unfold Tracker.modifyEntry
    by_cases hk : k' = k
    · subst hk; exact ⟨v, by simp⟩
    · obtain ⟨e, he⟩ := ih
      exact ⟨e, by simp [hk, he]⟩

/-- A special error at or beyond the furthest position reached so far is recorded. -/
theorem Tracker.special_recorded (t : Tracker) (pos : Nat) (s : Special) (h : t.position ≤ pos) :
    ∃ k e, (k, e) ∈ (t.special pos s).attempts ∧ s ∈ e.specials ∧ (t.special pos s).position = pos := by
  unfold Tracker.special Tracker.prepare
  have h1 : ¬ pos < t.position := by omega
  simp only [h1, if_false]
  by_cases h2 : pos = t.position
  · simp only [h2, if_true]
    obtain ⟨e, he⟩ := modifyEntry_mem (fun e => { e with specials := e.specials ++ [s] })
      (t.upper t.position) t.attempts
    exact ⟨_, _, he, by simp, trivial⟩
  · simp only [h2, if_false, if_true]
    obtain ⟨e, he⟩ := modifyEntry_mem (fun e => { e with specials := e.specials ++ [s] })
      (Tracker.upper { t with attempts := [], position := pos } pos) []
    exact ⟨_, _, he, by simp, trivial⟩

/-- Before the furthest position the tracker ignores it (it is not where the error will be reported). -/
theorem Tracker.special_ignored (t : Tracker) (pos : Nat) (s : Special) (h : pos < t.position) :
    t.special pos s = t := by
  unfold Tracker.special Tracker.prepare
  simp [h]

end PestTyped
