/-
Lemmas.Shift — offset equivariance: every input primitive, tracker operation, loop and finally the
two interpreters commute with "add `a` to every byte offset and replace the text beyond the end
of the input".  Used by Props/C08.lean (Span / Position inputs behave as a fresh copy of the slice).

The single transformation `Inp.tr a f` (shift `start`/`pos` by `a`, apply `f` to `after`) covers
both statements of C08: `Inp.shift a = Inp.tr a id` and `Inp.setAfter y = Inp.tr 0 (fun _ => y)`.
-/
import PestTyped.Lemmas.CheckParse
import PestTyped.Model.Tokens
namespace PestTyped

/-! ### definitions -/

/-- Shift `start` and `pos` by `a`, transform the text beyond the end by `f`. -/
def Inp.tr (a : Nat) (f : List Char → List Char) (i : Inp) : Inp :=
  { start := i.start + a, pos := i.pos + a, rest := i.rest, after := f i.after }

def Inp.shift (a : Nat) (i : Inp) : Inp := { i with start := i.start + a, pos := i.pos + a }
def Inp.setAfter (y : List Char) (i : Inp) : Inp := { i with after := y }
def Inp.dropAfter (i : Inp) : Inp := { i with after := [] }

def Sp.shift (a : Nat) (sp : Sp) : Sp := { s := sp.s + a, e := sp.e + a, txt := sp.txt }

def Tracker.shiftFrame (a : Nat) (e : RuleId × Nat × Bool) : RuleId × Nat × Bool := (e.1, e.2.1 + a, e.2.2)

def Tracker.shift (a : Nat) (t : Tracker) : Tracker :=
  { position := t.position + a, positive := t.positive, attempts := t.attempts,
    stack := t.stack.map (Tracker.shiftFrame a) }

def M.shift (a : Nat) (m : M) : M := { stk := m.stk.map (Sp.shift a), trk := m.trk.shift a }

def Tag.shift (a : Nat) : Tag → Tag
  | .skipUntil sp => .skipUntil (sp.shift a)
  | .skipChars sp => .skipChars (sp.shift a)
  | .peek sp => .peek (sp.shift a)
  | .peekAll sp => .peekAll (sp.shift a)
  | .pop sp => .pop (sp.shift a)
  | .popAll sp => .popAll (sp.shift a)
  | .rule r emit boxed s e => .rule r emit boxed (s + a) (e + a)
  | t => t

mutual
def Val.shift (a : Nat) : Val → Val
  | .mk t kids => .mk (t.shift a) (Val.shiftList a kids)
def Val.shiftList (a : Nat) : List Val → List Val
  | [] => []
  | v :: vs => v.shift a :: Val.shiftList a vs
end

/-- Map the three components of a result. -/
def Res.map {σ α β} (fi : Inp → Inp) (fm : σ → σ) (fv : α → β) : Res σ α → Res σ β
  | .oof => .oof
  | .fail m => .fail (fm m)
  | .ok i m v => .ok (fi i) (fm m) (fv v)

@[simp] theorem Res.map_oof {σ α β} (fi : Inp → Inp) (fm : σ → σ) (fv : α → β) :
    (Res.oof : Res σ α).map fi fm fv = .oof := rfl
@[simp] theorem Res.map_fail {σ α β} (fi : Inp → Inp) (fm : σ → σ) (fv : α → β) (m : σ) :
    (Res.fail m : Res σ α).map fi fm fv = .fail (fm m) := rfl
@[simp] theorem Res.map_ok {σ α β} (fi : Inp → Inp) (fm : σ → σ) (fv : α → β) (i : Inp) (m : σ) (v : α) :
    (Res.ok i m v : Res σ α).map fi fm fv = .ok (fi i) (fm m) (fv v) := rfl

/-- The general transformation of a result: cursor by `Inp.tr a f`, state by `M.shift a`, value by `fv`. -/
abbrev Res.tr {α} (a : Nat) (f : List Char → List Char) (fv : α → α) (r : R α) : R α :=
  r.map (Inp.tr a f) (M.shift a) fv

/-- Shift of a parse result / of a check result. -/
def Res.shift (a : Nat) (r : R Val) : R Val := r.map (Inp.shift a) (M.shift a) (Val.shift a)
def Res.shiftU (a : Nat) (r : R Unit) : R Unit := r.map (Inp.shift a) (M.shift a) id
/-- Apply a function to the returned cursor only. -/
def Res.mapInp {σ α} (fi : Inp → Inp) (r : Res σ α) : Res σ α := r.map fi id id

theorem Inp.shift_eq_tr (a : Nat) (i : Inp) : i.shift a = i.tr a id := rfl
theorem Inp.setAfter_eq_tr (y : List Char) (i : Inp) : i.setAfter y = i.tr 0 (fun _ => y) := rfl

/-! ### values -/

theorem Val.shiftList_eq_map (a : Nat) : ∀ vs : List Val, Val.shiftList a vs = vs.map (Val.shift a)
  | [] => by simp [Val.shiftList]
  | v :: vs => by simp [Val.shiftList, Val.shiftList_eq_map a vs]

theorem Val.shift_mk (a : Nat) (t : Tag) (kids : List Val) :
    (Val.mk t kids).shift a = .mk (t.shift a) (kids.map (Val.shift a)) := by
  rw [Val.shift, Val.shiftList_eq_map]

theorem Val.shift_leaf (a : Nat) (t : Tag) : (Val.leaf t).shift a = .leaf (t.shift a) := by
  simp [Val.leaf, Val.shift_mk]

theorem Sp.shift_zero (sp : Sp) : sp.shift 0 = sp := by cases sp; rfl

theorem Tag.shift_zero (t : Tag) : t.shift 0 = t := by
  cases t <;> simp [Tag.shift, Sp.shift_zero]

mutual
theorem Val.shift_zero : ∀ v : Val, v.shift 0 = v
  | .mk t kids => by rw [Val.shift, Tag.shift_zero, Val.shiftList_zero kids]
theorem Val.shiftList_zero : ∀ vs : List Val, Val.shiftList 0 vs = vs
  | [] => by simp [Val.shiftList]
  | v :: vs => by rw [Val.shiftList, Val.shift_zero v, Val.shiftList_zero vs]
end

theorem Tracker.shiftFrame_zero (e : RuleId × Nat × Bool) : Tracker.shiftFrame 0 e = e := rfl

theorem Tracker.shift_zero (t : Tracker) : t.shift 0 = t := by
  cases t with
  | mk p pos att st =>
    simp only [Tracker.shift, Nat.add_zero, Tracker.mk.injEq, true_and]
    induction st with
    | nil => rfl
    | cons e es ih => simp [List.map, Tracker.shiftFrame_zero, ih]

theorem M.shift_zero (m : M) : m.shift 0 = m := by
  cases m with
  | mk stk trk =>
    simp only [M.shift, Tracker.shift_zero, M.mk.injEq, and_true]
    induction stk with
    | nil => rfl
    | cons e es ih => simp [List.map, Sp.shift_zero, ih]

@[simp] theorem M.shift_stk (a : Nat) (m : M) : (m.shift a).stk = m.stk.map (Sp.shift a) := rfl
@[simp] theorem M.shift_trk (a : Nat) (m : M) : (m.shift a).trk = m.trk.shift a := rfl

/-! ### input primitives -/

theorem Nat.beq_add_right (x y a : Nat) : (x + a == y + a) = (x == y) := by
  rw [Bool.eq_iff_iff]; simp

theorem Nat.bne_add_right (x y a : Nat) : (x + a != y + a) = (x != y) := by
  simp only [bne, Nat.beq_add_right]

section prim
variable (a : Nat) (f : List Char → List Char)

@[simp] theorem Inp.tr_rest (i : Inp) : (i.tr a f).rest = i.rest := rfl
@[simp] theorem Inp.tr_pos (i : Inp) : (i.tr a f).pos = i.pos + a := rfl
@[simp] theorem Inp.tr_start (i : Inp) : (i.tr a f).start = i.start + a := rfl

theorem Inp.tr_adv (i : Inp) (n : Nat) : (i.tr a f).adv n = (i.adv n).tr a f := by
  simp only [Inp.adv, Inp.tr, Inp.mk.injEq, true_and, and_true]; omega

theorem Inp.tr_atStart (i : Inp) : (i.tr a f).atStart = i.atStart := by
  simp only [Inp.atStart, Inp.tr]; exact Nat.beq_add_right _ _ _

theorem Inp.tr_atEnd (i : Inp) : (i.tr a f).atEnd = i.atEnd := rfl

theorem Inp.tr_spanTo (i i' : Inp) : (i.tr a f).spanTo (i'.tr a f) = (i.spanTo i').shift a := rfl

theorem Inp.tr_matchString (s : List Char) (i : Inp) :
    (i.tr a f).matchString s = (i.matchString s).map (Inp.tr a f) := by
  unfold Inp.matchString
  simp only [Inp.tr_rest]
  by_cases h : s.isPrefixOf i.rest = true <;> simp only [h, Bool.false_eq_true, ↓reduceIte, Option.map, Inp.tr_adv]

theorem Inp.tr_matchInsens (s : List Char) (i : Inp) :
    (i.tr a f).matchInsens s = (i.matchInsens s).map (Inp.tr a f) := by
  unfold Inp.matchInsens
  simp only [Inp.tr_rest]
  split
  · split <;> simp [Inp.tr_adv]
  · rfl

theorem Inp.tr_skipUntil (nd : List (List Char)) (i : Inp) :
    (i.tr a f).skipUntil nd = (((i.skipUntil nd).1).tr a f, (i.skipUntil nd).2) := by
  unfold Inp.skipUntil
  simp only [Inp.tr_rest]
  split <;> simp [Inp.tr_adv]

theorem Inp.tr_skipN (n : Nat) (i : Inp) :
    (i.tr a f).skipN n = (i.skipN n).map (Inp.tr a f) := by
  unfold Inp.skipN
  simp only [Inp.tr_rest]
  by_cases h : n ≤ i.rest.length <;> simp only [h, ↓reduceIte, Option.map, Inp.tr_adv]

theorem Inp.tr_matchCharBy (p : Char → Bool) (i : Inp) :
    (i.tr a f).matchCharBy p = (i.matchCharBy p).map (fun r => (r.1.tr a f, r.2)) := by
  unfold Inp.matchCharBy
  simp only [Inp.tr_rest]
  split
  · rfl
  · split <;> simp [Inp.tr_adv]

theorem Inp.tr_matchRange (lo hi : Char) (i : Inp) :
    (i.tr a f).matchRange lo hi = (i.matchRange lo hi).map (fun r => (r.1.tr a f, r.2)) :=
  Inp.tr_matchCharBy a f _ i

theorem tr_newlineMatch (i : Inp) :
    newlineMatch (i.tr a f) = (newlineMatch i).map (fun r => (r.1.tr a f, r.2)) := by
  unfold newlineMatch
  simp only [Inp.tr_matchString]
  cases i.matchString ['\r', '\n'] with
  | some i' => rfl
  | none =>
    cases i.matchString ['\n'] with
    | some i' => rfl
    | none =>
      cases i.matchString ['\r'] with
      | some i' => rfl
      | none => rfl

theorem tr_peekSpans : ∀ (sps : List Sp) (i : Inp),
    peekSpans (sps.map (Sp.shift a)) (i.tr a f) = (peekSpans sps i).map (Inp.tr a f) := by
  intro sps
  induction sps with
  | nil => intro i; rfl
  | cons sp rest ih =>
    intro i
    simp only [List.map, peekSpans]
    have : (Sp.shift a sp).txt = sp.txt := rfl
    rw [this, Inp.tr_matchString]
    cases i.matchString sp.txt with
    | none => rfl
    | some i' => simp only [Option.map]; exact ih i'

theorem stackSlice_shift (stk : List Sp) (lo hi : Nat) :
    stackSlice (stk.map (Sp.shift a)) lo hi = (stackSlice stk lo hi).map (Sp.shift a) := by
  simp [stackSlice, List.map_reverse, List.map_drop, List.map_take]

end prim

/-! ### tracker operations -/

section trk
variable (a : Nat)

theorem Tracker.new_tr (f : List Char → List Char) (i : Inp) :
    Tracker.new (i.tr a f) = (Tracker.new i).shift a := rfl

theorem Tracker.prepare_shift (t : Tracker) (pos : Nat) :
    (t.shift a).prepare (pos + a) = (((t.prepare pos).1).shift a, (t.prepare pos).2) := by
  unfold Tracker.prepare
  have hp : (t.shift a).position = t.position + a := rfl
  rw [hp]
  by_cases h1 : pos < t.position
  · have h1' : pos + a < t.position + a := by omega
    simp [h1, h1']
  · have h1' : ¬ pos + a < t.position + a := by omega
    by_cases h2 : pos = t.position
    · simp [h2]
    · simp [h1, h1', h2, Tracker.shift]

theorem Tracker.find_shift (pos : Nat) : ∀ l : List (RuleId × Nat × Bool),
    (l.map (Tracker.shiftFrame a)).find? (fun e => e.2.1 != pos + a) =
      (l.find? (fun e => e.2.1 != pos)).map (Tracker.shiftFrame a) := by
  intro l
  induction l with
  | nil => rfl
  | cons e es ih =>
    simp only [List.map, List.find?]
    have : ((Tracker.shiftFrame a e).2.1 != pos + a) = (e.2.1 != pos) :=
      Nat.bne_add_right _ _ _
    rw [this]
    cases (e.2.1 != pos) with
    | true => rfl
    | false => exact ih

theorem Tracker.upper_shift (t : Tracker) (pos : Nat) :
    (t.shift a).upper (pos + a) = t.upper pos := by
  unfold Tracker.upper
  have hs : (t.shift a).stack = t.stack.map (Tracker.shiftFrame a) := rfl
  rw [hs, Tracker.find_shift]
  cases t.stack.find? (fun e => e.2.1 != pos) <;> rfl

theorem Tracker.special_shift (t : Tracker) (pos : Nat) (s : Special) :
    (t.shift a).special (pos + a) s = (t.special pos s).shift a := by
  unfold Tracker.special
  rw [Tracker.prepare_shift]
  cases h : t.prepare pos with
  | mk t1 ok =>
    cases ok with
    | false => rfl
    | true =>
      simp only [if_true]
      rw [Tracker.upper_shift]
      rfl

theorem Tracker.emptyStack_tr (f : List Char → List Char) (t : Tracker) (i : Inp) :
    (t.shift a).emptyStack (i.tr a f) = (t.emptyStack i).shift a :=
  Tracker.special_shift a t i.pos _

theorem Tracker.outOfBound_tr (f : List Char → List Char) (t : Tracker) (i : Inp) (x : Int) (y : Option Int) :
    (t.shift a).outOfBound (i.tr a f) x y = (t.outOfBound i x y).shift a :=
  Tracker.special_shift a t i.pos _

theorem Tracker.record_shift (t : Tracker) (rule : RuleId) (pos : Nat) (b : Bool) :
    (t.shift a).record rule (pos + a) b = (t.record rule pos b).shift a := by
  unfold Tracker.record
  rw [Tracker.prepare_shift]
  cases h : t.prepare pos with
  | mk t1 ok =>
    simp only []
    have hp : (t1.shift a).positive = t1.positive := rfl
    rw [hp, Tracker.upper_shift]
    split
    · split <;> rfl
    · rfl

theorem Tracker.enter_shift (t : Tracker) (rule : RuleId) (pos : Nat) :
    (t.shift a).enter rule (pos + a) = (t.enter rule pos).shift a := by
  cases t with
  | mk p pv att st =>
    cases st with
    | nil => rfl
    | cons e es => rfl

theorem Tracker.leave_shift (t : Tracker) (rule : RuleId) (pos : Nat) (b : Bool) :
    (t.shift a).leave rule (pos + a) b = (t.leave rule pos b).shift a := by
  cases t with
  | mk p pv att st =>
    cases st with
    | nil => rfl
    | cons e es =>
      obtain ⟨r, q, hc⟩ := e
      simp only [Tracker.leave, Tracker.shift, List.map, Tracker.shiftFrame]
      cases hc with
      | true => rfl
      | false =>
        exact Tracker.record_shift a ⟨p, pv, att, es⟩ rule pos b

end trk

/-! ### state updates used by the interpreters, pulled out of the shift -/

section upd
variable (a : Nat) (φ : List Char → List Char)

theorem M.shift_withEnter (m : M) (r : RuleId) (i : Inp) :
    ({ M.shift a m with trk := (M.shift a m).trk.enter r (i.tr a φ).pos } : M) =
      M.shift a { m with trk := m.trk.enter r i.pos } := by
  show M.mk _ ((m.trk.shift a).enter r (i.pos + a)) = M.mk _ ((m.trk.enter r i.pos).shift a)
  rw [Tracker.enter_shift]; rfl

theorem M.shift_withLeave (m : M) (r : RuleId) (i : Inp) (b : Bool) :
    ({ M.shift a m with trk := (M.shift a m).trk.leave r (i.tr a φ).pos b } : M) =
      M.shift a { m with trk := m.trk.leave r i.pos b } := by
  show M.mk _ ((m.trk.shift a).leave r (i.pos + a) b) = M.mk _ ((m.trk.leave r i.pos b).shift a)
  rw [Tracker.leave_shift]; rfl

theorem M.shift_withEmptyStack (m : M) (i : Inp) :
    ({ M.shift a m with trk := (M.shift a m).trk.emptyStack (i.tr a φ) } : M) =
      M.shift a { m with trk := m.trk.emptyStack i } := by
  show M.mk _ ((m.trk.shift a).emptyStack (i.tr a φ)) = M.mk _ ((m.trk.emptyStack i).shift a)
  rw [Tracker.emptyStack_tr]; rfl

theorem M.shift_withOutOfBound (m : M) (i : Inp) (x : Int) (y : Option Int) :
    ({ M.shift a m with trk := (M.shift a m).trk.outOfBound (i.tr a φ) x y } : M) =
      M.shift a { m with trk := m.trk.outOfBound i x y } := by
  show M.mk _ ((m.trk.shift a).outOfBound (i.tr a φ) x y) = M.mk _ ((m.trk.outOfBound i x y).shift a)
  rw [Tracker.outOfBound_tr]; rfl

theorem M.init_tr (i : Inp) : M.init (i.tr a φ) = (M.init i).shift a := rfl

theorem mkSkipped_shift (sk : List Val) (v : Val) :
    (mkSkipped sk v).shift a = mkSkipped (sk.map (Val.shift a)) (v.shift a) := by
  simp [mkSkipped, Val.shift_mk, Tag.shift]

theorem defaultSkipVal_shift (g : NodeGrammar) : (defaultSkipVal g).shift a = defaultSkipVal g := by
  unfold defaultSkipVal
  split <;> simp [Val.leaf, Val.shift_mk, Tag.shift]

theorem Res.forget_map {σ α} (fi : Inp → Inp) (fm : σ → σ) (fv : α → α) (r : Res σ α) :
    (r.map fi fm fv).forget = r.forget.map fi fm id := by
  cases r <;> rfl

end upd

/-! ### loops -/

section loops
variable (a : Nat) (φ : List Char → List Char)

theorem skipLoop_tr {α} (fv : α → α) (skip : Inp → M → R α)
    (h : ∀ i m, skip (i.tr a φ) (m.shift a) = (skip i m).tr a φ fv) :
    ∀ k i m acc, skipLoop skip k (i.tr a φ) (m.shift a) (acc.map fv) =
      (skipLoop skip k i m acc).tr a φ (List.map fv) := by
  intro k
  induction k with
  | zero => intro i m acc; simp only [skipLoop, Res.map_ok, List.map_reverse]
  | succ k ih =>
    intro i m acc
    unfold skipLoop
    rw [h]
    cases skip i m with
    | oof => rfl
    | fail m' => rfl
    | ok i' m' v => simp only [Res.map_ok]; exact ih i' m' (v :: acc)

theorem arrayLoop_tr {α} (fv : α → α) (fn : Inp → M → R α)
    (h : ∀ i m, fn (i.tr a φ) (m.shift a) = (fn i m).tr a φ fv) :
    ∀ k i m acc, arrayLoop fn k (i.tr a φ) (m.shift a) (acc.map fv) =
      (arrayLoop fn k i m acc).tr a φ (List.map fv) := by
  intro k
  induction k with
  | zero => intro i m acc; simp only [arrayLoop, Res.map_ok, List.map_reverse]
  | succ k ih =>
    intro i m acc
    unfold arrayLoop
    rw [h]
    cases fn i m with
    | oof => rfl
    | fail m' => rfl
    | ok i' m' v => simp only [Res.map_ok]; exact ih i' m' (v :: acc)

theorem seqLoop_tr {α β} (fv : α → α) (fb : β → β) (fn : Node → Inp → M → R α)
    (skip : Inp → M → R (List β)) (mk : List β → α → α)
    (hf : ∀ n i m, fn n (i.tr a φ) (m.shift a) = (fn n i m).tr a φ fv)
    (hs : ∀ i m, skip (i.tr a φ) (m.shift a) = (skip i m).tr a φ (List.map fb))
    (hmk : ∀ sk v, mk (sk.map fb) (fv v) = fv (mk sk v)) :
    ∀ ns i m acc, seqLoop fn skip mk ns (i.tr a φ) (m.shift a) (acc.map fv) =
      (seqLoop fn skip mk ns i m acc).tr a φ (List.map fv) := by
  intro ns
  induction ns with
  | nil => intro i m acc; simp only [seqLoop, Res.map_ok, List.map_reverse]
  | cons n ns ih =>
    intro i m acc
    unfold seqLoop
    rw [hs]
    cases skip i m with
    | oof => rfl
    | fail m' => rfl
    | ok i' m' sk =>
      simp only [Res.map_ok]
      rw [hf]
      cases fn n i' m' with
      | oof => rfl
      | fail m'' => rfl
      | ok i'' m'' v =>
        simp only [Res.map_ok]
        rw [hmk]
        exact ih i'' m'' (mk sk v :: acc)

theorem choiceLoop_tr {α} (fv : α → α) (fn : Node → Inp → M → R α)
    (hf : ∀ n i m, fn n (i.tr a φ) (m.shift a) = (fn n i m).tr a φ fv) :
    ∀ ns k i m, choiceLoop fn ns k (i.tr a φ) (m.shift a) =
      (choiceLoop fn ns k i m).tr a φ (fun p => (p.1, fv p.2)) := by
  intro ns
  induction ns with
  | nil => intro k i m; rfl
  | cons n ns ih =>
    intro k i m
    unfold choiceLoop
    rw [hf]
    cases fn n i m with
    | oof => rfl
    | ok i' m' v => rfl
    | fail m' =>
      simp only [Res.map_fail, restoreOnNone]
      exact ih (k+1) i { m' with stk := m.stk }

theorem repDone_tr {α} (fv : α → α) (min : Nat) (max : Option Nat) (i : Inp) (m : M) (acc : List α) :
    repDone min max (i.tr a φ) (m.shift a) (acc.map fv) =
      (repDone min max i m acc).tr a φ (List.map fv) := by
  unfold repDone
  cases max with
  | none => simp only [Res.map_ok, List.map_reverse]
  | some mx =>
    simp only [List.length_map]
    split <;> simp only [Res.map_ok, Res.map_fail, List.map_reverse]

theorem repLoop_tr {α} (fv : α → α) (unit : Nat → Inp → M → R α)
    (hu : ∀ idx i m, unit idx (i.tr a φ) (m.shift a) = (unit idx i m).tr a φ fv)
    (min : Nat) (max : Option Nat) :
    ∀ budget idx i m acc, repLoop unit min max budget idx (i.tr a φ) (m.shift a) (acc.map fv) =
      (repLoop unit min max budget idx i m acc).tr a φ (List.map fv) := by
  intro budget
  induction budget with
  | zero => intros; rfl
  | succ b ih =>
    intro idx i m acc
    unfold repLoop
    by_cases hmax : max = some idx
    · simp only [hmax, if_true]
      exact repDone_tr a φ fv min (some idx) i m acc
    · simp only [hmax, if_false]
      rw [hu]
      cases unit idx i m with
      | oof => rfl
      | fail m' =>
        simp only [Res.map_fail, restoreOnNone]
        split
        · rfl
        · exact repDone_tr a φ fv min max i { m' with stk := m.stk } acc
      | ok i' m' v =>
        simp only [Res.map_ok, restoreOnNone]
        exact ih (idx+1) i' m' (v :: acc)

theorem repSkipC_tr (skip : Inp → M → R Unit)
    (hs : ∀ i m, skip (i.tr a φ) (m.shift a) = (skip i m).tr a φ id) (idx : Nat) :
    ∀ k i m, repSkipC skip idx k (i.tr a φ) (m.shift a) = (repSkipC skip idx k i m).tr a φ id := by
  intro k
  induction k with
  | zero => intro i m; rfl
  | succ k ih =>
    intro i m
    unfold repSkipC
    by_cases h0 : idx > 0
    · simp only [h0, if_true]
      rw [hs]
      cases skip i m with
      | oof => rfl
      | fail m' => rfl
      | ok i' m' v => simp only [Res.map_ok]; exact ih i' m'
    · simp only [h0, if_false]; exact ih i m

theorem repUnitC_tr (skip body : Inp → M → R Unit)
    (hs : ∀ i m, skip (i.tr a φ) (m.shift a) = (skip i m).tr a φ id)
    (hb : ∀ i m, body (i.tr a φ) (m.shift a) = (body i m).tr a φ id) (k : Nat) :
    ∀ idx i m, repUnitC skip body k idx (i.tr a φ) (m.shift a) =
      (repUnitC skip body k idx i m).tr a φ id := by
  intro idx i m
  unfold repUnitC
  rw [repSkipC_tr a φ skip hs idx k i m]
  cases repSkipC skip idx k i m with
  | oof => rfl
  | fail m' => rfl
  | ok i' m' sk => simp only [Res.map_ok]; exact hb i' m'

theorem repUnitP_tr (skip body : Inp → M → R Val) (dflt : Val)
    (hs : ∀ i m, skip (i.tr a φ) (m.shift a) = (skip i m).tr a φ (Val.shift a))
    (hb : ∀ i m, body (i.tr a φ) (m.shift a) = (body i m).tr a φ (Val.shift a))
    (hd : dflt.shift a = dflt) (k : Nat) :
    ∀ idx i m, repUnitP skip body dflt k idx (i.tr a φ) (m.shift a) =
      (repUnitP skip body dflt k idx i m).tr a φ (Val.shift a) := by
  intro idx i m
  unfold repUnitP
  by_cases h0 : idx = 0
  · simp only [h0, if_true]
    rw [hb]
    cases body i m with
    | oof => rfl
    | fail m' => rfl
    | ok i' m' v =>
      simp only [Res.map_ok, mkSkipped_shift, List.map_replicate, hd]
  · simp only [h0, if_false]
    have h : skipLoop skip k (i.tr a φ) (m.shift a) [] = _ :=
      skipLoop_tr a φ (Val.shift a) skip hs k i m []
    rw [h]
    cases skipLoop skip k i m [] with
    | oof => rfl
    | fail m' => rfl
    | ok i' m' sk =>
      simp only [Res.map_ok]
      rw [hb]
      cases body i' m' with
      | oof => rfl
      | fail m'' => rfl
      | ok i'' m'' v => simp only [Res.map_ok, mkSkipped_shift]

end loops

/-! ### the interpreters -/

section run
variable (g : NodeGrammar) (uni : Uni) (a : Nat) (φ : List Char → List Char)

theorem check_tr_of_parse_tr (n : Nat)
    (ih : ∀ inh node i m, parse g uni n inh node (i.tr a φ) (m.shift a) =
      (parse g uni n inh node i m).tr a φ (Val.shift a)) :
    ∀ inh node i m, check g uni n inh node (i.tr a φ) (m.shift a) =
      (check g uni n inh node i m).tr a φ id := by
  intro inh node i m
  rw [check_eq_parse_forget, check_eq_parse_forget, ih, Res.forget_map]

theorem parse_tr : ∀ (n : Nat) (inh : Bool) (node : Node) (i : Inp) (m : M),
    parse g uni n inh node (i.tr a φ) (m.shift a) =
      (parse g uni n inh node i m).tr a φ (Val.shift a) := by
  intro n
  induction n with
  | zero => intros; rfl
  | succ n ih =>
    intro inh node i m
    have ihc := check_tr_of_parse_tr g uni a φ n ih
    cases node with
    | str s =>
      simp only [parse, Inp.tr_matchString]
      cases i.matchString s <;> rfl
    | insens s =>
      simp only [parse, Inp.tr_matchInsens]
      cases i.matchInsens s <;> rfl
    | range lo hi =>
      simp only [parse, Inp.tr_matchRange]
      cases i.matchRange lo hi with
      | none => rfl
      | some p => obtain ⟨i', c⟩ := p; rfl
    | any =>
      simp only [parse, Inp.tr_matchCharBy]
      cases i.matchCharBy (fun _ => true) with
      | none => rfl
      | some p => obtain ⟨i', c⟩ := p; rfl
    | soi =>
      simp only [parse, Inp.tr_atStart]
      cases i.atStart <;> rfl
    | eoi =>
      simp only [parse, Inp.tr_atEnd]
      by_cases h : i.atEnd = true
      · simp only [h, if_true]; rfl
      · simp only [h]; rfl
    | newline =>
      simp only [parse, tr_newlineMatch]
      cases newlineMatch i with
      | none => rfl
      | some p => obtain ⟨i', c⟩ := p; rfl
    | charBy p =>
      simp only [parse, Inp.tr_matchCharBy]
      cases i.matchCharBy (uni p) with
      | none => rfl
      | some p => obtain ⟨i', c⟩ := p; rfl
    | skipUntil needles =>
      simp only [parse, Inp.tr_skipUntil]
      rfl
    | skipChars k =>
      simp only [parse, Inp.tr_skipN]
      cases i.skipN k <;> rfl
    | seq sk items =>
      cases items with
      | nil => simp only [parse]; rfl
      | cons n0 ns =>
        simp only [parse]
        rw [ih]
        cases parse g uni n inh n0 i m with
        | oof => rfl
        | fail m' => rfl
        | ok i' m' v0 =>
          simp only [Res.map_ok]
          have hs : ∀ i m, skipLoop (parse g uni n false g.skipped) (skipCount sk inh) (i.tr a φ) (m.shift a) [] =
              (skipLoop (parse g uni n false g.skipped) (skipCount sk inh) i m []).tr a φ (List.map (Val.shift a)) :=
            fun i m => skipLoop_tr a φ (Val.shift a) _ (ih false g.skipped) _ i m []
          have h : seqLoop (parse g uni n inh)
              (fun i m => skipLoop (parse g uni n false g.skipped) (skipCount sk inh) i m [])
              mkSkipped ns (i'.tr a φ) (m'.shift a) [] = _ :=
            seqLoop_tr a φ (Val.shift a) (Val.shift a) (parse g uni n inh)
              (fun i m => skipLoop (parse g uni n false g.skipped) (skipCount sk inh) i m [])
              mkSkipped (ih inh) hs (fun sk v => (mkSkipped_shift a sk v).symm) ns i' m' []
          rw [h]
          cases seqLoop (parse g uni n inh)
              (fun i m => skipLoop (parse g uni n false g.skipped) (skipCount sk inh) i m [])
              mkSkipped ns i' m' [] with
          | oof => rfl
          | fail m'' => rfl
          | ok i'' m'' vs =>
            simp only [Res.map_ok, Val.shift_mk, Tag.shift, List.map_cons, mkSkipped_shift,
              List.map_replicate, defaultSkipVal_shift]
    | choice alts =>
      simp only [parse]
      rw [choiceLoop_tr a φ (Val.shift a) (parse g uni n inh) (ih inh)]
      cases choiceLoop (parse g uni n inh) alts 0 i m with
      | oof => rfl
      | fail m' => rfl
      | ok i' m' p =>
        obtain ⟨k, v⟩ := p
        simp only [Res.map_ok, Val.shift_mk, Tag.shift, List.map_cons, List.map_nil]
    | opt x =>
      simp only [parse]
      rw [ih]
      cases parse g uni n inh x i m with
      | oof => rfl
      | fail m' => rfl
      | ok i' m' v =>
        simp only [Res.map_ok, restoreOnNone, Val.shift_mk, Tag.shift, List.map_cons, List.map_nil]
    | rep sk min max x =>
      simp only [parse]
      have hu := repUnitP_tr a φ (parse g uni n false g.skipped) (parse g uni n inh x) (defaultSkipVal g)
        (ih false g.skipped) (ih inh x) (defaultSkipVal_shift a g) (skipCount sk inh)
      have h : repLoop (repUnitP (parse g uni n false g.skipped) (parse g uni n inh x) (defaultSkipVal g)
          (skipCount sk inh)) min max n 0 (i.tr a φ) (m.shift a) [] = _ :=
        repLoop_tr a φ (Val.shift a) _ hu min max n 0 i m []
      rw [h]
      cases repLoop (repUnitP (parse g uni n false g.skipped) (parse g uni n inh x) (defaultSkipVal g)
          (skipCount sk inh)) min max n 0 i m [] with
      | oof => rfl
      | fail m' => rfl
      | ok i' m' vs => simp only [Res.map_ok, Val.shift_mk, Tag.shift]
    | atomicRepeat x =>
      simp only [parse]
      have h : repLoop (fun _ i m => parse g uni n inh x i m) 0 none (atomicBudget n) 0 (i.tr a φ)
          { M.shift a m with trk := Tracker.new (i.tr a φ) } [] = _ :=
        repLoop_tr a φ (Val.shift a) (fun _ i m => parse g uni n inh x i m) (fun _ i m => ih inh x i m)
          0 none (atomicBudget n) 0 i { m with trk := Tracker.new i } []
      rw [h]
      cases repLoop (fun _ i m => parse g uni n inh x i m) 0 none (atomicBudget n) 0 i
          { m with trk := Tracker.new i } [] with
      | oof => rfl
      | fail m' => rfl
      | ok i' m' vs => simp only [Res.map_ok, Val.shift_mk, Tag.shift]; rfl
    | pos x =>
      simp only [parse]
      have h : parse g uni n inh x (i.tr a φ)
          { M.shift a m with trk := { (M.shift a m).trk with positive := true } } = _ :=
        ih inh x i { m with trk := { m.trk with positive := true } }
      rw [h]
      cases parse g uni n inh x i { m with trk := { m.trk with positive := true } } with
      | oof => rfl
      | fail m' => rfl
      | ok i' m' v => simp only [Res.map_ok, Val.shift_mk, Tag.shift, List.map_cons, List.map_nil]; rfl
    | neg x =>
      simp only [parse]
      have h : check g uni n inh x (i.tr a φ)
          { M.shift a m with trk := { (M.shift a m).trk with positive := false } } = _ :=
        ihc inh x i { m with trk := { m.trk with positive := false } }
      rw [h]
      cases check g uni n inh x i { m with trk := { m.trk with positive := false } } with
      | oof => rfl
      | fail m' => rfl
      | ok i' m' v => rfl
    | push x =>
      simp only [parse]
      rw [ih]
      cases parse g uni n inh x i m with
      | oof => rfl
      | fail m' => rfl
      | ok i' m' v => simp only [Res.map_ok, Val.shift_mk, Tag.shift, List.map_cons, List.map_nil]; rfl
    | peek =>
      obtain ⟨stk, trk⟩ := m
      cases stk with
      | nil =>
        show parse g uni (n+1) inh .peek (i.tr a φ) ⟨[], trk.shift a⟩ = _
        simp only [parse, Tracker.emptyStack_tr]; rfl
      | cons sp rest =>
        show parse g uni (n+1) inh .peek (i.tr a φ) ⟨sp.shift a :: rest.map (Sp.shift a), trk.shift a⟩ = _
        simp only [parse]
        rw [show (sp.shift a).txt = sp.txt from rfl, Inp.tr_matchString]
        cases i.matchString sp.txt <;> rfl
    | peekAll =>
      simp only [parse, M.shift_stk, tr_peekSpans]
      cases peekSpans m.stk i <;> rfl
    | pop =>
      obtain ⟨stk, trk⟩ := m
      cases stk with
      | nil =>
        show parse g uni (n+1) inh .pop (i.tr a φ) ⟨[], trk.shift a⟩ = _
        simp only [parse, Tracker.emptyStack_tr]; rfl
      | cons sp rest =>
        show parse g uni (n+1) inh .pop (i.tr a φ) ⟨sp.shift a :: rest.map (Sp.shift a), trk.shift a⟩ = _
        simp only [parse]
        rw [show (sp.shift a).txt = sp.txt from rfl, Inp.tr_matchString]
        cases i.matchString sp.txt <;> rfl
    | popAll =>
      simp only [parse, M.shift_stk, tr_peekSpans]
      cases peekSpans m.stk i <;> rfl
    | drop =>
      obtain ⟨stk, trk⟩ := m
      cases stk with
      | nil =>
        show parse g uni (n+1) inh .drop (i.tr a φ) ⟨[], trk.shift a⟩ = _
        simp only [parse, Tracker.emptyStack_tr]; rfl
      | cons sp rest => rfl
    | peekSlice x y =>
      simp only [parse, M.shift_stk, List.length_map]
      cases constrainIdxs x y m.stk.length with
      | none =>
        show Res.fail (M.mk _ ((m.trk.shift a).outOfBound (i.tr a φ) x y)) = _
        rw [Tracker.outOfBound_tr]; rfl
      | some p =>
        obtain ⟨lo, hi⟩ := p
        simp only []
        by_cases hh : hi ≤ lo
        · simp only [hh, if_true]; rfl
        · simp only [hh, if_false, stackSlice_shift, tr_peekSpans]
          cases peekSpans (stackSlice m.stk lo hi) i <;> rfl
    | ref r fl =>
      simp only [parse]
      cases g.rule? r with
      | none => rfl
      | some d =>
        simp only []
        cases d.emit with
        | expression =>
          simp only []
          rw [ih]
          cases parse g uni n (fl.eval inh) d.body i m with
          | oof => rfl
          | fail m' => rfl
          | ok i' m' v =>
            simp only [Res.map_ok, Val.shift_mk, Tag.shift, List.map_cons, List.map_nil, Inp.tr_pos]
        | span =>
          simp only []
          rw [M.shift_withEnter, ihc]
          cases check g uni n (fl.eval inh) d.body i { m with trk := m.trk.enter r i.pos } with
          | oof => rfl
          | fail m' => simp only [Res.map_fail, M.shift_withLeave]
          | ok i' m' v =>
            simp only [Res.map_ok]
            simp only [M.shift_withLeave]
            simp only [Val.shift_mk, Tag.shift, List.map_nil, Inp.tr_pos]
        | both =>
          simp only []
          rw [M.shift_withEnter, ih]
          cases parse g uni n (fl.eval inh) d.body i { m with trk := m.trk.enter r i.pos } with
          | oof => rfl
          | fail m' => simp only [Res.map_fail, M.shift_withLeave]
          | ok i' m' v =>
            simp only [Res.map_ok]
            simp only [M.shift_withLeave]
            simp only [Val.shift_mk, Tag.shift, List.map_cons, List.map_nil, Inp.tr_pos]
    | array k x =>
      simp only [parse, arrayTryInto_arrayLoop]
      have h : arrayLoop (parse g uni n inh x) k (i.tr a φ) (m.shift a) [] = _ :=
        arrayLoop_tr a φ (Val.shift a) _ (ih inh x) k i m []
      rw [h]
      cases arrayLoop (parse g uni n inh x) k i m [] with
      | oof => rfl
      | fail m' => rfl
      | ok i' m' vs => simp only [Res.map_ok, Val.shift_mk, Tag.shift]
    | pair x y =>
      simp only [parse]
      rw [ih]
      cases parse g uni n inh x i m with
      | oof => rfl
      | fail m' => rfl
      | ok i' m' va =>
        simp only [Res.map_ok]
        rw [ih]
        cases parse g uni n inh y i' m' with
        | oof => rfl
        | fail m'' => rfl
        | ok i'' m'' vb =>
          simp only [Res.map_ok, Val.shift_mk, Tag.shift, List.map_cons, List.map_nil]
    | empty => simp only [parse]; rfl
    | alwaysFail => simp only [parse]; rfl

theorem check_tr (n : Nat) (inh : Bool) (node : Node) (i : Inp) (m : M) :
    check g uni n inh node (i.tr a φ) (m.shift a) = (check g uni n inh node i m).tr a φ id :=
  check_tr_of_parse_tr g uni a φ n (parse_tr g uni a φ n) inh node i m

theorem eoiStep_tr (i : Inp) (m : M) :
    eoiStep (i.tr a φ) (m.shift a) = ((eoiStep i m).1.shift a, (eoiStep i m).2) := by
  unfold eoiStep
  simp only [M.shift_trk, Inp.tr_pos, Tracker.enter_shift, Tracker.leave_shift, Inp.tr_atEnd]
  rfl

theorem tryParsePartial_tr (n : Nat) (r : RuleId) (i : Inp) :
    tryParsePartial g uni n r (i.tr a φ) = (tryParsePartial g uni n r i).tr a φ (Val.shift a) := by
  unfold tryParsePartial
  rw [M.init_tr, parse_tr]

theorem tryCheckPartial_tr (n : Nat) (r : RuleId) (i : Inp) :
    tryCheckPartial g uni n r (i.tr a φ) = (tryCheckPartial g uni n r i).tr a φ id := by
  unfold tryCheckPartial
  rw [M.init_tr, check_tr]

theorem tryParse_tr (n : Nat) (r : RuleId) (i : Inp) :
    tryParse g uni n r (i.tr a φ) = (tryParse g uni n r i).tr a φ (Val.shift a) := by
  unfold tryParse
  cases g.rule? r with
  | none => rfl
  | some d =>
    simp only []
    rw [M.init_tr, parse_tr]
    cases parse g uni n true (.ref r .one) i (M.init i) with
    | oof => rfl
    | fail m => rfl
    | ok i' m v =>
      simp only [Res.map_ok]
      cases noTrailingSkip r d with
      | true =>
        simp only [if_true, eoiStep_tr]
        cases eoiStep i' m with
        | mk m' ok => cases ok <;> rfl
      | false =>
        simp only [Bool.false_eq_true, if_false]
        rw [parse_tr]
        cases parse g uni n false g.skipped i' m with
        | oof => rfl
        | fail m' => rfl
        | ok i'' m' sv =>
          simp only [Res.map_ok, eoiStep_tr]
          cases eoiStep i'' m' with
          | mk m'' ok => cases ok <;> rfl

theorem tryCheck_tr (n : Nat) (r : RuleId) (i : Inp) :
    tryCheck g uni n r (i.tr a φ) = (tryCheck g uni n r i).tr a φ id := by
  unfold tryCheck
  cases g.rule? r with
  | none => rfl
  | some d =>
    simp only []
    rw [M.init_tr, check_tr]
    cases check g uni n true (.ref r .one) i (M.init i) with
    | oof => rfl
    | fail m => rfl
    | ok i' m v =>
      simp only [Res.map_ok]
      cases noTrailingSkip r d with
      | true =>
        simp only [if_true, eoiStep_tr]
        cases eoiStep i' m with
        | mk m' ok => cases ok <;> rfl
      | false =>
        simp only [Bool.false_eq_true, if_false]
        rw [check_tr]
        cases check g uni n false g.skipped i' m with
        | oof => rfl
        | fail m' => rfl
        | ok i'' m' sv =>
          simp only [Res.map_ok, eoiStep_tr]
          cases eoiStep i'' m' with
          | mk m'' ok => cases ok <;> rfl

end run

/-! ### specialisations: pure shift, and replacement of the text beyond the end -/

theorem Res.tr_zero {α} (φ : List Char → List Char) (fv : α → α) (hfv : ∀ v, fv v = v) (r : R α) :
    r.tr 0 φ fv = r.mapInp (Inp.tr 0 φ) := by
  cases r with
  | oof => rfl
  | fail m => simp only [Res.mapInp, Res.map_fail, M.shift_zero, id]
  | ok i m v => simp only [Res.mapInp, Res.map_ok, M.shift_zero, hfv, id]

theorem Res.tr_const (a : Nat) (post : List Char) (r : R Val) :
    r.tr a (fun _ => post) (Val.shift a) = (r.shift a).mapInp (Inp.setAfter post) := by
  cases r <;> rfl

theorem Res.tr_constU (a : Nat) (post : List Char) (r : R Unit) :
    r.tr a (fun _ => post) id = (r.shiftU a).mapInp (Inp.setAfter post) := by
  cases r <;> rfl

theorem Res.mapInp_drop_set {σ α} (x : List Char) (r : Res σ α) :
    (r.mapInp (Inp.setAfter x)).mapInp Inp.dropAfter = r.mapInp Inp.dropAfter := by
  cases r <;> rfl

/-- A function of the input that commutes with `setAfter` does not depend on `after`. -/
theorem after_irrelevant_of_set {σ α} (X : Inp → Res σ α)
    (h : ∀ i y, X (i.setAfter y) = (X i).mapInp (Inp.setAfter y)) (i : Inp) (x y : List Char) :
    (X { i with after := x }).mapInp Inp.dropAfter = (X { i with after := y }).mapInp Inp.dropAfter := by
  have hx := h i.dropAfter x
  have hy := h i.dropAfter y
  have ex : ({ i with after := x } : Inp) = (i.dropAfter).setAfter x := rfl
  have ey : ({ i with after := y } : Inp) = (i.dropAfter).setAfter y := rfl
  rw [ex, ey, hx, hy, Res.mapInp_drop_set, Res.mapInp_drop_set]

theorem blen_eq_zero_iff (l : List Char) : blen l = 0 ↔ l = [] := by
  cases l with
  | nil => simp [blen]
  | cons c cs =>
    have := Char.utf8Size_pos c
    simp [blen]; omega

theorem Inp.atEnd_iff (i : Inp) : i.atEnd = true ↔ i.pos = i.endPos := by
  unfold Inp.atEnd Inp.endPos
  rw [List.isEmpty_iff, ← blen_eq_zero_iff]
  omega

theorem Inp.atStart_iff (i : Inp) : i.atStart = true ↔ i.pos = i.start := by
  unfold Inp.atStart; simp

/-! ### tokens (the `Pairs` API) of a shifted value -/

mutual
def Token.shift (a : Nat) : Token → Token
  | .mk r s e kids => .mk r (s + a) (e + a) (Token.shiftList a kids)
def Token.shiftList (a : Nat) : List Token → List Token
  | [] => []
  | t :: ts => t.shift a :: Token.shiftList a ts
end

theorem Token.shiftList_append (a : Nat) : ∀ xs ys : List Token,
    Token.shiftList a (xs ++ ys) = Token.shiftList a xs ++ Token.shiftList a ys
  | [], ys => by simp [Token.shiftList]
  | x :: xs, ys => by simp [Token.shiftList, Token.shiftList_append a xs ys]

mutual
theorem tokens_shift (g : NodeGrammar) (a : Nat) : ∀ v : Val,
    tokens g (v.shift a) = Token.shiftList a (tokens g v)
  | .mk t kids => by
    have ihk := tokensList_shift g a kids
    rw [Val.shift]
    cases t with
    | rule r emit boxed s e =>
      cases emit <;> simp only [Tag.shift, tokens, ihk, Token.shiftList, Token.shift] <;>
        split <;> simp only [Token.shiftList]
    | pos => simp only [Tag.shift, tokens, Token.shiftList]
    | neg => simp only [Tag.shift, tokens, Token.shiftList]
    | _ => simp only [Tag.shift, tokens, ihk]
theorem tokensList_shift (g : NodeGrammar) (a : Nat) : ∀ vs : List Val,
    tokensList g (Val.shiftList a vs) = Token.shiftList a (tokensList g vs)
  | [] => by simp only [Val.shiftList, tokensList, Token.shiftList]
  | v :: vs => by
    simp only [Val.shiftList, tokensList, Token.shiftList_append, tokens_shift g a v,
      tokensList_shift g a vs]
end

end PestTyped
