/-
Lemmas.TrackerLemmas — what a run does to the error tracker.

* `RunRel` / `parse_rel` / `check_rel` / `tryParse_rel` …: a generic induction principle.  Any relation
  between the tracker before and the tracker after that is reflexive, transitive along advancing
  cursors and closed under the five ways a run touches the tracker (`special`, polarity switch and
  restore, `enter` … `leave` around a rule body with the verdict of that body, the end-of-input
  attempt of the full-parse wrappers) holds between the entry tracker and the tracker of every
  result (failure or success).
* Instances: polarity is restored (`PosRel`), the position only grows and is always a position
  some cursor of the run stood at (`TrkStep`), the attempt lists are truthful (`Truthful`).
-/
import PestTyped.Lemmas.CursorRun
namespace PestTyped

/-! ### generic principle -/

/-- A property of the tracker of a result (nothing is claimed of `.oof`). -/
def RlOk {α} (Q : Tracker → Prop) : R α → Prop
  | .oof => True
  | .fail m' => Q m'.trk
  | .ok _ m' _ => Q m'.trk

theorem RlOk.mono {α} {Q Q' : Tracker → Prop} {r : R α} (h : ∀ t, Q t → Q' t) (hr : RlOk Q r) :
    RlOk Q' r := by
  cases r with
  | oof => trivial
  | fail m => exact h _ hr
  | ok i m a => exact h _ hr

theorem RlOk.forget {α} {Q : Tracker → Prop} {r : R α} (h : RlOk Q r) : RlOk Q r.forget := by
  cases r <;> exact h

theorem RlOk.restore {α} {Q : Tracker → Prop} {r : R α} {saved : List Sp} (h : RlOk Q r) :
    RlOk Q (restoreOnNone saved r) := by
  cases r <;> exact h

theorem RlOk.ite {α} {Q : Tracker → Prop} {c : Prop} [Decidable c] {x y : R α} (hx : RlOk Q x)
    (hy : RlOk Q y) : RlOk Q (if c then x else y) := by
  split <;> assumption

/-- Closure conditions on a relation `Rl i t t'` ("a run entered at cursor `i` with tracker `t` may
leave tracker `t'`"); `b` is the base cursor all cursors of the run are reachable from. -/
structure RunRel (g : NodeGrammar) (uni : Uni) (b : Inp) (Rl : Inp → Tracker → Tracker → Prop) : Prop where
  refl : ∀ (i : Inp) (t : Tracker), Rl i t t
  trans : ∀ {i i1 : Inp} {t t1 t2 : Tracker}, b.Adv i → i.Adv i1 → Rl i t t1 → Rl i1 t1 t2 → Rl i t t2
  special : ∀ {i : Inp} (t : Tracker) (s : Special), b.Adv i → Rl i t (t.special i.pos s)
  polar : ∀ {i : Inp} {t t' : Tracker} (p : Bool), b.Adv i →
    Rl i { t with positive := p } t' → Rl i t { t' with positive := t.positive }
  ruleFail : ∀ {n : Nat} {inh : Bool} {r : RuleId} {d : RuleDef} {i : Inp} {m m' : M}, b.Adv i →
    g.rule? r = some d → d.emit ≠ .expression →
    check g uni n inh d.body i { m with trk := m.trk.enter r i.pos } = .fail m' →
    Rl i (m.trk.enter r i.pos) m'.trk → Rl i m.trk (m'.trk.leave r i.pos false)
  ruleOk : ∀ {n : Nat} {inh : Bool} {r : RuleId} {d : RuleDef} {i i' : Inp} {m m' : M}, b.Adv i →
    g.rule? r = some d → d.emit ≠ .expression →
    check g uni n inh d.body i { m with trk := m.trk.enter r i.pos } = .ok i' m' () →
    Rl i (m.trk.enter r i.pos) m'.trk → Rl i m.trk (m'.trk.leave r i.pos true)

def RelFn {α} (b : Inp) (Rl : Inp → Tracker → Tracker → Prop) (f : Inp → M → R α) : Prop :=
  ∀ i m, b.Adv i → RlOk (Rl i m.trk) (f i m)

section generic
variable {g : NodeGrammar} {uni : Uni} {b : Inp} {Rl : Inp → Tracker → Tracker → Prop}

theorem RunRel.step (h : RunRel g uni b Rl) {α} {i i1 : Inp} {t t1 : Tracker} {r : R α}
    (hb : b.Adv i) (hi : i.Adv i1) (h1 : Rl i t t1) (h2 : RlOk (Rl i1 t1) r) : RlOk (Rl i t) r :=
  h2.mono (fun _ h' => h.trans hb hi h1 h')

theorem skipLoop_rel (h : RunRel g uni b Rl) {α} {f : Inp → M → R α} (hf : RelFn b Rl f) (ha : AdvFn f) :
    ∀ k acc, RelFn b Rl (fun i m => skipLoop f k i m acc) := by
  intro k
  induction k with
  | zero => intro acc i m _; exact h.refl _ _
  | succ k ih =>
    intro acc i m hb
    simp only [skipLoop]
    have h1 := hf i m hb
    cases hr : f i m with
    | oof => trivial
    | fail m' => rw [hr] at h1; exact h1
    | ok i' m' a =>
      rw [hr] at h1
      have hi := ha _ _ _ _ _ hr
      exact h.step hb hi h1 (ih _ i' m' (hb.trans hi))

theorem seqLoop_rel (h : RunRel g uni b Rl) {α β} {f : Node → Inp → M → R α} {sk : Inp → M → R (List β)}
    (mk : List β → α → α) (hf : ∀ n, RelFn b Rl (f n)) (haf : ∀ n, AdvFn (f n))
    (hs : RelFn b Rl sk) (has : AdvFn sk) :
    ∀ ns acc, RelFn b Rl (fun i m => seqLoop f sk mk ns i m acc) := by
  intro ns
  induction ns with
  | nil => intro acc i m _; exact h.refl _ _
  | cons n ns ih =>
    intro acc i m hb
    simp only [seqLoop]
    have h1 := hs i m hb
    cases hr : sk i m with
    | oof => trivial
    | fail m' => rw [hr] at h1; exact h1
    | ok i' m' l =>
      rw [hr] at h1
      have hi := has _ _ _ _ _ hr
      have hb1 := hb.trans hi
      simp only []
      have h2 := hf n i' m' hb1
      cases hr2 : f n i' m' with
      | oof => trivial
      | fail m'' => rw [hr2] at h2; exact h.step hb hi h1 h2
      | ok i'' m'' a =>
        rw [hr2] at h2
        have hi2 := haf n _ _ _ _ _ hr2
        refine h.step hb hi h1 (h.step (r := seqLoop f sk mk ns i'' m'' (mk l a :: acc)) hb1 hi2 h2 ?_)
        exact ih _ i'' m'' (hb1.trans hi2)

theorem choiceLoop_rel (h : RunRel g uni b Rl) {α} {f : Node → Inp → M → R α} (hf : ∀ n, RelFn b Rl (f n)) :
    ∀ ns k, RelFn b Rl (fun i m => choiceLoop f ns k i m) := by
  intro ns
  induction ns with
  | nil => intro k i m _; exact h.refl _ _
  | cons n ns ih =>
    intro k i m hb
    simp only [choiceLoop]
    have h1 := (hf n i m hb).restore (saved := m.stk)
    cases hr : restoreOnNone m.stk (f n i m) with
    | oof => trivial
    | fail m' =>
      rw [hr] at h1
      exact h.step hb (Inp.Adv.refl i) h1 (ih _ i m' hb)
    | ok i' m' a => rw [hr] at h1; exact h1

theorem repLoop_rel (h : RunRel g uni b Rl) {α} {u : Nat → Inp → M → R α} (hu : ∀ idx, RelFn b Rl (u idx))
    (hau : ∀ idx, AdvFn (u idx)) (min : Nat) (max : Option Nat) :
    ∀ budget idx acc, RelFn b Rl (fun i m => repLoop u min max budget idx i m acc) := by
  intro budget
  induction budget with
  | zero => intro idx acc i m _; trivial
  | succ bd ih =>
    intro idx acc i m hb
    simp only [repLoop]
    by_cases hmax : max = some idx
    · simp only [hmax, if_true]
      rcases repDone_cases min (some idx) i m acc with hd | hd <;> rw [hd] <;> exact h.refl _ _
    · simp only [hmax, if_false]
      have h1 := (hu idx i m hb).restore (saved := m.stk)
      cases hr : restoreOnNone m.stk (u idx i m) with
      | oof => trivial
      | fail m' =>
        rw [hr] at h1
        simp only []
        split
        · exact h1
        · rcases repDone_cases min max i m' acc with hd | hd <;> rw [hd] <;> exact h1
      | ok i' m' a =>
        rw [hr] at h1
        have hi := hau idx _ _ _ _ _ (restoreOnNone_ok hr)
        exact h.step hb hi h1 (ih _ _ i' m' (hb.trans hi))

theorem arrayLoop_rel (h : RunRel g uni b Rl) {α} {f : Inp → M → R α} (hf : RelFn b Rl f) (ha : AdvFn f) :
    ∀ k acc, RelFn b Rl (fun i m => arrayLoop f k i m acc) := by
  intro k
  induction k with
  | zero => intro acc i m _; exact h.refl _ _
  | succ k ih =>
    intro acc i m hb
    simp only [arrayLoop]
    have h1 := hf i m hb
    cases hr : f i m with
    | oof => trivial
    | fail m' => rw [hr] at h1; exact h1
    | ok i' m' a =>
      rw [hr] at h1
      have hi := ha _ _ _ _ _ hr
      exact h.step hb hi h1 (ih _ i' m' (hb.trans hi))

theorem repUnitP_rel (h : RunRel g uni b Rl) {sk body : Inp → M → R Val} (hs : RelFn b Rl sk) (has : AdvFn sk)
    (hbd : RelFn b Rl body) (dflt : Val) (k idx : Nat) : RelFn b Rl (repUnitP sk body dflt k idx) := by
  intro i m hb
  unfold repUnitP
  by_cases h0 : idx = 0
  · simp only [h0, if_true]
    have h1 := hbd i m hb
    cases hr : body i m with
    | oof => trivial
    | fail m' => rw [hr] at h1; exact h1
    | ok i' m' v => rw [hr] at h1; exact h1
  · simp only [h0, if_false]
    have h1 := skipLoop_rel h hs has k [] i m hb
    cases hr : skipLoop sk k i m [] with
    | oof => trivial
    | fail m' => simp only [hr] at h1; exact h1
    | ok i' m' l =>
      simp only [hr] at h1
      have hi := skipLoop_adv sk has _ _ _ _ _ _ _ hr
      simp only []
      have h2 := hbd i' m' (hb.trans hi)
      cases hr2 : body i' m' with
      | oof => trivial
      | fail m'' => rw [hr2] at h2; exact h.step hb hi h1 h2
      | ok i'' m'' v => rw [hr2] at h2; exact h.step (r := Res.ok i'' m'' v) hb hi h1 h2

/-- The generic principle for `parse`. -/
theorem parse_rel (h : RunRel g uni b Rl) :
    ∀ (n : Nat) (inh : Bool) (node : Node), RelFn b Rl (parse g uni n inh node) := by
  intro n
  induction n with
  | zero => intro inh node i m _; trivial
  | succ n ih =>
    intro inh node i m hb
    have iha := parse_adv g uni n
    have ihc : ∀ inh node, RelFn b Rl (check g uni n inh node) := by
      intro inh node i m hb
      rw [check_eq_parse_forget]
      exact (ih inh node i m hb).forget
    have hrefl := h.refl i m.trk
    cases node with
    | str s => simp only [parse]; split <;> exact hrefl
    | insens s => simp only [parse]; split <;> exact hrefl
    | range lo hi => simp only [parse]; split <;> exact hrefl
    | any => simp only [parse]; split <;> exact hrefl
    | soi => simp only [parse]; split <;> exact hrefl
    | eoi => simp only [parse]; split <;> exact hrefl
    | newline => simp only [parse]; split <;> exact hrefl
    | charBy p => simp only [parse]; split <;> exact hrefl
    | skipUntil needles => simp only [parse]; exact hrefl
    | skipChars k => simp only [parse]; split <;> exact hrefl
    | seq sk items =>
      simp only [parse]
      cases items with
      | nil => exact hrefl
      | cons n0 ns =>
        simp only []
        have h1 := ih inh n0 i m hb
        cases hr : parse g uni n inh n0 i m with
        | oof => trivial
        | fail m' => rw [hr] at h1; exact h1
        | ok i' m' v0 =>
          rw [hr] at h1
          simp only []
          have hi := iha inh n0 _ _ _ _ _ hr
          have hskA : AdvFn (fun i m => skipLoop (parse g uni n false g.skipped) (skipCount sk inh) i m []) :=
            fun i m i' m' a hh => skipLoop_adv _ (iha false g.skipped) _ _ _ _ _ _ _ hh
          have h2 := seqLoop_rel h mkSkipped (ih inh) (iha inh)
            (skipLoop_rel h (ih false g.skipped) (iha false g.skipped) (skipCount sk inh) []) hskA
            ns [] i' m' (hb.trans hi)
          cases hr2 : seqLoop (parse g uni n inh)
              (fun i m => skipLoop (parse g uni n false g.skipped) (skipCount sk inh) i m [])
              mkSkipped ns i' m' [] with
          | oof => trivial
          | fail m'' => simp only [hr2] at h2; exact h.step hb hi h1 h2
          | ok i'' m'' vs =>
            simp only [hr2] at h2
            exact h.step (r := Res.ok i'' m'' vs) hb hi h1 h2
    | choice alts =>
      simp only [parse]
      have h1 := choiceLoop_rel h (ih inh) alts 0 i m hb
      cases hr : choiceLoop (parse g uni n inh) alts 0 i m with
      | oof => trivial
      | fail m' => simp only [hr] at h1; exact h1
      | ok i' m' kv => simp only [hr] at h1; exact h1
    | opt x =>
      simp only [parse]
      have h1 := (ih inh x i m hb).restore (saved := m.stk)
      cases hr : restoreOnNone m.stk (parse g uni n inh x i m) with
      | oof => trivial
      | fail m' => rw [hr] at h1; exact h1
      | ok i' m' v => rw [hr] at h1; exact h1
    | rep sk min max x =>
      simp only [parse]
      have h1 := repLoop_rel h
        (fun idx => repUnitP_rel h (ih false g.skipped) (iha false g.skipped) (ih inh x)
          (defaultSkipVal g) (skipCount sk inh) idx)
        (fun idx => repUnitP_adv _ _ (iha false g.skipped) (iha inh x) _ _ idx)
        min max n 0 [] i m hb
      cases hr : repLoop (repUnitP (parse g uni n false g.skipped) (parse g uni n inh x)
          (defaultSkipVal g) (skipCount sk inh)) min max n 0 i m [] with
      | oof => trivial
      | fail m' => simp only [hr] at h1; exact h1
      | ok i' m' vs => simp only [hr] at h1; exact h1
    | atomicRepeat x =>
      simp only [parse]
      cases repLoop (fun _ i m => parse g uni n inh x i m) 0 none (atomicBudget n) 0 i
          { m with trk := Tracker.new i } [] with
      | oof => trivial
      | fail m' => exact hrefl
      | ok i' m' vs => exact hrefl
    | pos x =>
      simp only [parse]
      have h1 := ih inh x i { m with trk := { m.trk with positive := true } } hb
      cases hr : parse g uni n inh x i { m with trk := { m.trk with positive := true } } with
      | oof => trivial
      | fail m' => rw [hr] at h1; exact h.polar true hb h1
      | ok i' m' v => rw [hr] at h1; exact h.polar true hb h1
    | neg x =>
      simp only [parse]
      have h1 := ihc inh x i { m with trk := { m.trk with positive := false } } hb
      cases hr : check g uni n inh x i { m with trk := { m.trk with positive := false } } with
      | oof => trivial
      | fail m' => rw [hr] at h1; exact h.polar false hb h1
      | ok i' m' v => rw [hr] at h1; exact h.polar false hb h1
    | push x =>
      simp only [parse]
      have h1 := ih inh x i m hb
      cases hr : parse g uni n inh x i m with
      | oof => trivial
      | fail m' => rw [hr] at h1; exact h1
      | ok i' m' v => rw [hr] at h1; exact h1
    | peek =>
      simp only [parse]
      split
      · exact h.special _ _ hb
      · split <;> exact hrefl
    | peekAll => simp only [parse]; split <;> exact hrefl
    | pop =>
      simp only [parse]
      split
      · exact h.special _ _ hb
      · split <;> exact hrefl
    | popAll => simp only [parse]; split <;> exact hrefl
    | drop =>
      simp only [parse]
      split
      · exact h.special _ _ hb
      · exact hrefl
    | peekSlice a c =>
      simp only [parse]
      split
      · exact h.special _ _ hb
      · split
        · exact hrefl
        · split <;> exact hrefl
    | ref r f =>
      simp only [parse]
      cases hd : g.rule? r with
      | none => exact hrefl
      | some d =>
        simp only []
        cases he : d.emit with
        | expression =>
          simp only []
          have h1 := ih (f.eval inh) d.body i m hb
          cases hr : parse g uni n (f.eval inh) d.body i m with
          | oof => trivial
          | fail m' => rw [hr] at h1; exact h1
          | ok i' m' v => rw [hr] at h1; exact h1
        | span =>
          simp only []
          have hne : d.emit ≠ .expression := by rw [he]; nofun
          have h1 := ihc (f.eval inh) d.body i { m with trk := m.trk.enter r i.pos } hb
          cases hr : check g uni n (f.eval inh) d.body i { m with trk := m.trk.enter r i.pos } with
          | oof => trivial
          | fail m' => rw [hr] at h1; exact h.ruleFail hb hd hne hr h1
          | ok i' m' v => rw [hr] at h1; exact h.ruleOk hb hd hne hr h1
        | both =>
          simp only []
          have hne : d.emit ≠ .expression := by rw [he]; nofun
          have h1 := ih (f.eval inh) d.body i { m with trk := m.trk.enter r i.pos } hb
          have hc := check_eq_parse_forget g uni n (f.eval inh) d.body i { m with trk := m.trk.enter r i.pos }
          cases hr : parse g uni n (f.eval inh) d.body i { m with trk := m.trk.enter r i.pos } with
          | oof => trivial
          | fail m' => rw [hr] at h1 hc; exact h.ruleFail hb hd hne hc h1
          | ok i' m' v => rw [hr] at h1 hc; exact h.ruleOk hb hd hne hc h1
    | array k x =>
      simp only [parse, arrayTryInto_arrayLoop]
      have h1 := arrayLoop_rel h (ih inh x) (iha inh x) k [] i m hb
      cases hr : arrayLoop (parse g uni n inh x) k i m [] with
      | oof => trivial
      | fail m' => simp only [hr] at h1; exact h1
      | ok i' m' vs => simp only [hr] at h1; exact h1
    | pair a c =>
      simp only [parse]
      have h1 := ih inh a i m hb
      cases hr : parse g uni n inh a i m with
      | oof => trivial
      | fail m' => rw [hr] at h1; exact h1
      | ok i' m' va =>
        rw [hr] at h1
        simp only []
        have hi := iha inh a _ _ _ _ _ hr
        have h2 := ih inh c i' m' (hb.trans hi)
        cases hr2 : parse g uni n inh c i' m' with
        | oof => trivial
        | fail m'' => rw [hr2] at h2; exact h.step hb hi h1 h2
        | ok i'' m'' vb => rw [hr2] at h2; exact h.step (r := Res.ok i'' m'' vb) hb hi h1 h2
    | empty => simp only [parse]; exact hrefl
    | alwaysFail => simp only [parse]; exact hrefl

/-- The generic principle for `check`. -/
theorem check_rel (h : RunRel g uni b Rl) (n : Nat) (inh : Bool) (node : Node) :
    RelFn b Rl (check g uni n inh node) := by
  intro i m hb
  rw [check_eq_parse_forget]
  exact (parse_rel h n inh node i m hb).forget

/-- The generic principle for the full-parse wrapper; `heoi` is the closure condition for the
end-of-input attempt. -/
theorem tryParse_rel {i : Inp} (h : RunRel g uni i Rl)
    (heoi : ∀ (j : Inp) (t : Tracker), i.Adv j → Rl j t ((t.enter 0 j.pos).leave 0 j.pos j.atEnd))
    (n : Nat) (r : RuleId) : RlOk (Rl i (Tracker.new i)) (tryParse g uni n r i) := by
  unfold tryParse
  cases g.rule? r with
  | none => exact h.refl _ _
  | some d =>
    simp only []
    have hb := Inp.Adv.refl i
    have h1 := parse_rel h n true (.ref r .one) i (M.init i) hb
    cases hr : parse g uni n true (.ref r .one) i (M.init i) with
    | oof => trivial
    | fail m' => rw [hr] at h1; exact h1
    | ok i' m' v =>
      rw [hr] at h1
      have hi := parse_adv g uni n _ _ _ _ _ _ _ hr
      simp only [eoiStep]
      split
      · have h2 : Rl i (Tracker.new i) ((m'.trk.enter 0 i'.pos).leave 0 i'.pos i'.atEnd) :=
          h.trans hb hi h1 (heoi i' m'.trk hi)
        exact RlOk.ite h2 h2
      · have h2 := parse_rel h n false g.skipped i' m' hi
        cases hr2 : parse g uni n false g.skipped i' m' with
        | oof => trivial
        | fail m'' => rw [hr2] at h2; exact h.step hb hi h1 h2
        | ok i'' m'' sv =>
          rw [hr2] at h2
          have hi2 := parse_adv g uni n _ _ _ _ _ _ _ hr2
          have h3 : Rl i (Tracker.new i) ((m''.trk.enter 0 i''.pos).leave 0 i''.pos i''.atEnd) :=
            h.trans hb hi h1 (h.trans hi hi2 h2 (heoi i'' m''.trk (hi.trans hi2)))
          exact RlOk.ite h3 h3

end generic

/-! ### the tracker operations -/

namespace Tracker

theorem prepare_position (t : Tracker) (pos : Nat) : (t.prepare pos).1.position = max t.position pos := by
  unfold prepare
  split
  · dsimp only; omega
  · split <;> dsimp only <;> omega

theorem prepare_positive (t : Tracker) (pos : Nat) : (t.prepare pos).1.positive = t.positive := by
  unfold prepare; split
  · rfl
  · split <;> rfl

theorem prepare_stack (t : Tracker) (pos : Nat) : (t.prepare pos).1.stack = t.stack := by
  unfold prepare; split
  · rfl
  · split <;> rfl

/-- `prepare` answers `true` exactly when the position is not before the furthest one. -/
theorem prepare_ok (t : Tracker) (pos : Nat) : (t.prepare pos).2 = true ↔ t.position ≤ pos := by
  unfold prepare
  split
  · simp; omega
  · split <;> simp <;> omega

/-- `prepare` with a position beyond the furthest one empties the attempts; otherwise it keeps them. -/
theorem prepare_attempts (t : Tracker) (pos : Nat) :
    (t.prepare pos).1.attempts = if t.position < pos then [] else t.attempts := by
  unfold prepare
  split
  · next h => rw [if_neg (by omega)]
  · split
    · next h1 h2 => rw [if_neg (by omega)]
    · next h1 h2 => rw [if_pos (by omega)]

theorem special_eq (t : Tracker) (pos : Nat) (s : Special) :
    t.special pos s =
      if (t.prepare pos).2 then
        { (t.prepare pos).1 with attempts := (modifyEntry (fun e => { e with specials := e.specials ++ [s] })
            ((t.prepare pos).1.upper pos) (t.prepare pos).1.attempts) }
      else (t.prepare pos).1 := rfl

theorem record_eq (t : Tracker) (rule : RuleId) (pos : Nat) (succeeded : Bool) :
    t.record rule pos succeeded =
      if ((t.prepare pos).2 && (succeeded != (t.prepare pos).1.positive)) then
        (if (t.prepare pos).1.positive then
          { (t.prepare pos).1 with attempts := (modifyEntry
              (fun e => { e with positives := pushNoDup e.positives rule })
              ((t.prepare pos).1.upper pos) (t.prepare pos).1.attempts) }
        else
          { (t.prepare pos).1 with attempts := (modifyEntry
              (fun e => { e with negatives := pushNoDup e.negatives rule })
              ((t.prepare pos).1.upper pos) (t.prepare pos).1.attempts) })
      else (t.prepare pos).1 := rfl

theorem special_position (t : Tracker) (pos : Nat) (s : Special) :
    (t.special pos s).position = max t.position pos := by
  rw [← prepare_position, special_eq]; split <;> rfl

theorem special_positive (t : Tracker) (pos : Nat) (s : Special) :
    (t.special pos s).positive = t.positive := by
  rw [← prepare_positive t pos, special_eq]; split <;> rfl

theorem record_position (t : Tracker) (rule : RuleId) (pos : Nat) (succeeded : Bool) :
    (t.record rule pos succeeded).position = max t.position pos := by
  rw [← prepare_position, record_eq]
  split
  · split <;> rfl
  · rfl

theorem record_positive (t : Tracker) (rule : RuleId) (pos : Nat) (succeeded : Bool) :
    (t.record rule pos succeeded).positive = t.positive := by
  rw [← prepare_positive t pos, record_eq]
  split
  · split <;> rfl
  · rfl

theorem enter_position (t : Tracker) (rule : RuleId) (pos : Nat) : (t.enter rule pos).position = t.position := rfl
theorem enter_positive (t : Tracker) (rule : RuleId) (pos : Nat) : (t.enter rule pos).positive = t.positive := rfl
theorem enter_attempts (t : Tracker) (rule : RuleId) (pos : Nat) : (t.enter rule pos).attempts = t.attempts := rfl

/-- `leave` either only pops the frame or pops it and records. -/
theorem leave_cases (t : Tracker) (rule : RuleId) (pos : Nat) (succeeded : Bool) :
    (t.leave rule pos succeeded = t) ∨
    (∃ st, t.leave rule pos succeeded = { t with stack := st }) ∨
    (∃ st, t.leave rule pos succeeded = ({ t with stack := st } : Tracker).record rule pos succeeded) := by
  unfold leave
  split
  · exact Or.inl rfl
  · next r p hc rest hs =>
    dsimp only
    split
    · exact Or.inr (Or.inl ⟨rest, rfl⟩)
    · exact Or.inr (Or.inr ⟨rest, rfl⟩)

theorem leave_positive (t : Tracker) (rule : RuleId) (pos : Nat) (succeeded : Bool) :
    (t.leave rule pos succeeded).positive = t.positive := by
  rcases leave_cases t rule pos succeeded with h | ⟨st, h⟩ | ⟨st, h⟩
  · rw [h]
  · rw [h]
  · rw [h, record_positive]

theorem leave_position (t : Tracker) (rule : RuleId) (pos : Nat) (succeeded : Bool) :
    (t.leave rule pos succeeded).position = t.position ∨
    (t.leave rule pos succeeded).position = max t.position pos := by
  rcases leave_cases t rule pos succeeded with h | ⟨st, h⟩ | ⟨st, h⟩
  · rw [h]; exact Or.inl rfl
  · rw [h]; exact Or.inl rfl
  · rw [h, record_position]; exact Or.inr rfl

theorem mem_pushNoDup {l : List RuleId} {r x : RuleId} (h : x ∈ pushNoDup l r) : x ∈ l ∨ x = r := by
  unfold pushNoDup at h
  split at h
  · split at h
    · exact Or.inl h
    · rcases List.mem_append.mp h with h | h
      · exact Or.inl h
      · exact Or.inr (List.mem_singleton.mp h)
  · rcases List.mem_append.mp h with h | h
    · exact Or.inl h
    · exact Or.inr (List.mem_singleton.mp h)

/-- An entry of the map after `modifyEntry f key` is an old entry, or `f` of the old entry under
`key`, or `f` of the default entry. -/
theorem mem_modifyEntry {f : Tracked → Tracked} {key : Option RuleId} :
    ∀ {l : List (Option RuleId × Tracked)} {k : Option RuleId} {e : Tracked},
      (k, e) ∈ modifyEntry f key l →
      (k, e) ∈ l ∨ (k = key ∧ ∃ e0, ((key, e0) ∈ l ∨ e0 = {}) ∧ e = f e0) := by
  intro l
  induction l with
  | nil =>
    intro k e h
    simp only [modifyEntry, List.mem_singleton, Prod.mk.injEq] at h
    exact Or.inr ⟨h.1, {}, Or.inr rfl, h.2⟩
  | cons hd tl ih =>
    intro k e h
    obtain ⟨k', v⟩ := hd
    simp only [modifyEntry] at h
    split at h
    · next hk =>
      rcases List.mem_cons.mp h with h | h
      · simp only [Prod.mk.injEq] at h
        subst hk
        exact Or.inr ⟨h.1, v, Or.inl List.mem_cons_self, h.2⟩
      · exact Or.inl (List.mem_cons_of_mem _ h)
    · rcases List.mem_cons.mp h with h | h
      · exact Or.inl (h ▸ List.mem_cons_self)
      · rcases ih h with h | ⟨hk, e0, h0, he⟩
        · exact Or.inl (List.mem_cons_of_mem _ h)
        · refine Or.inr ⟨hk, e0, ?_, he⟩
          rcases h0 with h0 | h0
          · exact Or.inl (List.mem_cons_of_mem _ h0)
          · exact Or.inr h0

/-- The report is truthful with respect to a justification `J rule pos succeeded positive`: every
rule listed as expected (in some `positives`) has `J rule position false true`, every rule listed as
unexpected has `J rule position true false`, at the tracker's (furthest) position. -/
def Truthful (J : RuleId → Nat → Bool → Bool → Prop) (t : Tracker) : Prop :=
  ∀ k e, (k, e) ∈ t.attempts →
    (∀ r ∈ e.positives, J r t.position false true) ∧ (∀ r ∈ e.negatives, J r t.position true false)

variable {J : RuleId → Nat → Bool → Bool → Prop}

theorem Truthful.new (i : Inp) : Truthful J (Tracker.new i) := by
  intro k e h; cases h

theorem Truthful.prepare {t : Tracker} (h : Truthful J t) (pos : Nat) : Truthful J (t.prepare pos).1 := by
  unfold Tracker.prepare
  split
  · exact h
  · split
    · exact h
    · intro k e hm; cases hm

/-- What `Truthful` says of one entry at position `p`. -/
def EntryOk (J : RuleId → Nat → Bool → Bool → Prop) (p : Nat) (e : Tracked) : Prop :=
  (∀ r ∈ e.positives, J r p false true) ∧ (∀ r ∈ e.negatives, J r p true false)

theorem EntryOk.default (p : Nat) : EntryOk J p {} :=
  ⟨fun _ hr => absurd hr List.not_mem_nil, fun _ hr => absurd hr List.not_mem_nil⟩

theorem Truthful.modify {t : Tracker} (hp : Truthful J t) (f : Tracked → Tracked) (key : Option RuleId)
    (hf : ∀ e0, EntryOk J t.position e0 → EntryOk J t.position (f e0)) :
    Truthful J { t with attempts := modifyEntry f key t.attempts } := by
  intro k e hm
  rcases mem_modifyEntry hm with hm | ⟨_, e0, h0, he⟩
  · exact hp k e hm
  · rw [he]
    refine hf e0 ?_
    rcases h0 with h0 | h0
    · exact hp _ _ h0
    · rw [h0]; exact EntryOk.default _

theorem Truthful.special {t : Tracker} (h : Truthful J t) (pos : Nat) (s : Special) :
    Truthful J (t.special pos s) := by
  have hp := h.prepare pos
  rw [special_eq]
  split
  · exact hp.modify _ _ (fun e0 h0 => h0)
  · exact hp

/-- `record` keeps the report truthful provided the recorded outcome is justified. -/
theorem Truthful.record {t : Tracker} (h : Truthful J t) (rule : RuleId) (pos : Nat) (succeeded : Bool)
    (hJ : t.position ≤ pos → J rule pos succeeded t.positive) :
    Truthful J (t.record rule pos succeeded) := by
  have hp := h.prepare pos
  rw [record_eq]
  split
  · next hc =>
    simp only [Bool.and_eq_true, bne_iff_ne, ne_eq] at hc
    obtain ⟨hok, hsp⟩ := hc
    have hle := (prepare_ok t pos).mp hok
    have hpos : (t.prepare pos).1.position = pos := by rw [prepare_position]; omega
    have hj := hJ hle
    rw [prepare_positive] at hsp
    split
    · next hpv =>
      rw [prepare_positive] at hpv
      have hs : succeeded = false := by
        cases succeeded
        · rfl
        · exact absurd hpv.symm hsp
      rw [hpv, hs] at hj
      refine hp.modify _ _ (fun e0 h0 => ⟨?_, h0.2⟩)
      intro r hr
      rcases mem_pushNoDup hr with hr | hr
      · exact h0.1 r hr
      · rw [hr, hpos]; exact hj
    · next hpv =>
      rw [prepare_positive] at hpv
      have hpf : t.positive = false := by
        cases hq : t.positive
        · rfl
        · exact absurd hq hpv
      have hs : succeeded = true := by
        cases succeeded
        · exact absurd hpf.symm hsp
        · rfl
      rw [hpf, hs] at hj
      refine hp.modify _ _ (fun e0 h0 => ⟨h0.1, ?_⟩)
      intro r hr
      rcases mem_pushNoDup hr with hr | hr
      · exact h0.2 r hr
      · rw [hr, hpos]; exact hj
  · exact hp

theorem Truthful.leave {t : Tracker} (h : Truthful J t) (rule : RuleId) (pos : Nat) (succeeded : Bool)
    (hJ : t.position ≤ pos → J rule pos succeeded t.positive) :
    Truthful J (t.leave rule pos succeeded) := by
  rcases leave_cases t rule pos succeeded with h' | ⟨st, h'⟩ | ⟨st, h'⟩
  · rw [h']; exact h
  · rw [h']; exact h
  · rw [h']
    exact Truthful.record (t := { t with stack := st }) h rule pos succeeded hJ

end Tracker

/-! ### instance 1: the polarity is restored -/

def PosRel (_ : Inp) (t t' : Tracker) : Prop := t'.positive = t.positive

theorem posRel_runRel (g : NodeGrammar) (uni : Uni) (b : Inp) : RunRel g uni b PosRel where
  refl _ _ := rfl
  trans _ _ h1 h2 := Eq.trans h2 h1
  special t s _ := Tracker.special_positive t _ s
  polar _ _ _ := rfl
  ruleFail _ _ _ _ h := by
    unfold PosRel at h ⊢
    rw [Tracker.leave_positive, h]; rfl
  ruleOk _ _ _ _ h := by
    unfold PosRel at h ⊢
    rw [Tracker.leave_positive, h]; rfl

/-- A run leaves the tracker's polarity as it found it (failure or success). -/
theorem parse_positive (g : NodeGrammar) (uni : Uni) (n : Nat) (inh : Bool) (node : Node) (i : Inp) (m : M) :
    RlOk (fun t => t.positive = m.trk.positive) (parse g uni n inh node i m) :=
  parse_rel (posRel_runRel g uni i) n inh node i m (Inp.Adv.refl i)

theorem check_positive (g : NodeGrammar) (uni : Uni) (n : Nat) (inh : Bool) (node : Node) (i : Inp) (m : M) :
    RlOk (fun t => t.positive = m.trk.positive) (check g uni n inh node i m) :=
  check_rel (posRel_runRel g uni i) n inh node i m (Inp.Adv.refl i)

/-! ### instance 2: the furthest position only grows, through cursor positions of the run -/

/-- From entry cursor `i`: the position did not decrease, and if it changed it is the offset of a
cursor reachable from `i`. -/
def TrkStep (i : Inp) (t t' : Tracker) : Prop :=
  t.position ≤ t'.position ∧ (t'.position = t.position ∨ ∃ j, i.Adv j ∧ t'.position = j.pos)

theorem TrkStep.of_max {i : Inp} {t t' t'' : Tracker} (h : TrkStep i t t')
    (hm : t''.position = t'.position ∨ t''.position = max t'.position i.pos) : TrkStep i t t'' := by
  have key : t''.position = t'.position ∨ (t''.position = i.pos ∧ t'.position ≤ i.pos) := by omega
  obtain ⟨h1, h2⟩ := h
  rcases key with hc | ⟨hp, hle⟩
  · rw [TrkStep, hc]; exact ⟨h1, h2⟩
  · exact ⟨hp ▸ Nat.le_trans h1 hle, Or.inr ⟨i, Inp.Adv.refl i, hp⟩⟩

theorem TrkStep.refl (i : Inp) (t : Tracker) : TrkStep i t t := ⟨Nat.le_refl _, Or.inl rfl⟩

theorem trkStep_runRel (g : NodeGrammar) (uni : Uni) (b : Inp) : RunRel g uni b TrkStep where
  refl := TrkStep.refl
  trans := by
    intro i i1 t t1 t2 _ hi h1 h2
    refine ⟨Nat.le_trans h1.1 h2.1, ?_⟩
    rcases h2.2 with h | ⟨j, hj, h⟩
    · rw [h]; exact h1.2
    · exact Or.inr ⟨j, hi.trans hj, h⟩
  special := by
    intro i t s _
    exact (TrkStep.refl i t).of_max (Or.inr (Tracker.special_position t i.pos s))
  polar := by
    intro i t t' p _ h
    exact h
  ruleFail := by
    intro n inh r d i m m' _ _ _ _ h
    exact TrkStep.of_max (t' := m'.trk) h (Tracker.leave_position _ _ _ _)
  ruleOk := by
    intro n inh r d i i' m m' _ _ _ _ h
    exact TrkStep.of_max (t' := m'.trk) h (Tracker.leave_position _ _ _ _)

theorem trkStep_eoi (j : Inp) (t : Tracker) : TrkStep j t ((t.enter 0 j.pos).leave 0 j.pos j.atEnd) :=
  TrkStep.of_max (t' := t.enter 0 j.pos) (TrkStep.refl j t) (Tracker.leave_position _ _ _ _)

/-- `TrkStep` read as bounds: the position stays between the old one / the entry cursor and the end
of the input, on a boundary of the text. -/
theorem TrkStep.bounds {i : Inp} {t t' : Tracker} (h : TrkStep i t t') :
    t'.position = t.position ∨
      (i.pos ≤ t'.position ∧ t'.position ≤ i.endPos ∧ ∃ p, p <+: i.rest ∧ t'.position = i.pos + blen p) := by
  rcases h.2 with h | ⟨j, hj, h⟩
  · exact Or.inl h
  · refine Or.inr ⟨h ▸ hj.pos_le, h ▸ hj.pos_le_end, ?_⟩
    obtain ⟨p, s, hr, _, hp⟩ := hj.boundary
    exact ⟨p, ⟨s, hr.symm⟩, h ▸ hp⟩

/-! ### instance 3: the attempt lists are truthful -/

/-- The verdict of a result (`.oof` has none). -/
def Verdict {σ α} : Res σ α → Bool → Prop
  | .oof, _ => False
  | .fail _, s => s = false
  | .ok _ _ _, s => s = true

/-- Rule `r` (a rule with its own frame: emission `Span` or `Both`) was run as `.ref r f` from a state
whose cursor is reachable from `b` and stands at `pos`, under polarity `pol`, with verdict `succ`. -/
def RuleRun (g : NodeGrammar) (uni : Uni) (b : Inp) (r : RuleId) (pos : Nat) (succ pol : Bool) : Prop :=
  ∃ (n : Nat) (inh : Bool) (f : Flag) (i : Inp) (m : M),
    b.Adv i ∧ i.pos = pos ∧ m.trk.positive = pol ∧ (∃ d, g.rule? r = some d ∧ d.emit ≠ .expression) ∧
    Verdict (parse g uni n inh (.ref r f) i m) succ

/-- The end-of-input test of a full-parse wrapper, made at a cursor reachable from `b` standing at
`pos`, with outcome `succ` (recorded as rule `0 = EOI`). -/
def EoiRun (b : Inp) (r : RuleId) (pos : Nat) (succ : Bool) : Prop :=
  r = 0 ∧ ∃ i, b.Adv i ∧ i.pos = pos ∧ i.atEnd = succ

def Just (g : NodeGrammar) (uni : Uni) (b : Inp) (r : RuleId) (pos : Nat) (succ pol : Bool) : Prop :=
  RuleRun g uni b r pos succ pol ∨ EoiRun b r pos succ

theorem ruleRun_of_check {g : NodeGrammar} {uni : Uni} {b : Inp} {n : Nat} {inh : Bool} {r : RuleId}
    {d : RuleDef} {i : Inp} {m : M} {res : R Unit} {succ : Bool} (hb : b.Adv i)
    (hd : g.rule? r = some d) (he : d.emit ≠ .expression)
    (hc : check g uni n inh d.body i { m with trk := m.trk.enter r i.pos } = res) (hv : Verdict res succ) :
    RuleRun g uni b r i.pos succ m.trk.positive := by
  refine ⟨n+1, inh, .inh, i, m, hb, rfl, rfl, ⟨d, hd, he⟩, ?_⟩
  simp only [parse, hd, Flag.eval]
  cases hem : d.emit with
  | expression => exact absurd hem he
  | span =>
    simp only []
    rw [hc]
    cases res <;> exact hv
  | both =>
    simp only []
    rw [check_eq_parse_forget] at hc
    cases hp : parse g uni n inh d.body i { m with trk := m.trk.enter r i.pos } with
    | oof => rw [hp] at hc; subst hc; exact hv
    | fail m' => rw [hp] at hc; subst hc; exact hv
    | ok i' m' v => rw [hp] at hc; subst hc; exact hv

def TruthRel (g : NodeGrammar) (uni : Uni) (b : Inp) (_ : Inp) (t t' : Tracker) : Prop :=
  t.Truthful (Just g uni b) → t'.Truthful (Just g uni b)

theorem truthRel_runRel (g : NodeGrammar) (uni : Uni) (b : Inp) : RunRel g uni b (TruthRel g uni b) where
  refl _ _ h := h
  trans _ _ h1 h2 h := h2 (h1 h)
  special t s _ h := h.special _ s
  polar _ _ h1 h := h1 h
  ruleFail := by
    intro n inh r d i m m' hb hd he hc h ht
    have hpos : m'.trk.positive = m.trk.positive := by
      have := check_positive g uni n inh d.body i { m with trk := m.trk.enter r i.pos }
      rw [hc] at this; exact this
    refine Tracker.Truthful.leave (h ht) r i.pos false (fun _ => Or.inl ?_)
    rw [hpos]
    exact ruleRun_of_check hb hd he hc rfl
  ruleOk := by
    intro n inh r d i i' m m' hb hd he hc h ht
    have hpos : m'.trk.positive = m.trk.positive := by
      have := check_positive g uni n inh d.body i { m with trk := m.trk.enter r i.pos }
      rw [hc] at this; exact this
    refine Tracker.Truthful.leave (h ht) r i.pos true (fun _ => Or.inl ?_)
    rw [hpos]
    exact ruleRun_of_check hb hd he hc rfl

theorem truthRel_eoi (g : NodeGrammar) (uni : Uni) (b j : Inp) (t : Tracker) (hj : b.Adv j) :
    TruthRel g uni b j t ((t.enter 0 j.pos).leave 0 j.pos j.atEnd) := by
  intro ht
  exact Tracker.Truthful.leave (t := t.enter 0 j.pos) ht 0 j.pos j.atEnd
    (fun _ => Or.inr ⟨rfl, j, hj, rfl, rfl⟩)

/-! ### further facts used by C10 -/

/-- A frame that was just pushed has no children: `leave` records. -/
theorem Tracker.enter_leave (t : Tracker) (rule : RuleId) (pos : Nat) (succeeded : Bool) :
    ∃ st, (t.enter rule pos).leave rule pos succeeded =
      ({ t with stack := st } : Tracker).record rule pos succeeded := by
  unfold Tracker.enter Tracker.leave
  exact ⟨_, rfl⟩

theorem Tracker.enter_leave_position (t : Tracker) (rule : RuleId) (pos : Nat) (succeeded : Bool) :
    ((t.enter rule pos).leave rule pos succeeded).position = max t.position pos := by
  obtain ⟨st, h⟩ := Tracker.enter_leave t rule pos succeeded
  rw [h, Tracker.record_position]

/-- A repetition with `min = 0` never fails. -/
theorem repLoop_min0_no_fail {α} (u : Nat → Inp → M → R α) (max : Option Nat) :
    ∀ budget idx i m acc m', repLoop u 0 max budget idx i m acc ≠ .fail m' := by
  intro budget
  induction budget with
  | zero => intro idx i m acc m' h; cases h
  | succ bd ih =>
    intro idx i m acc m' h
    simp only [repLoop, Nat.not_lt_zero, if_false, repDone_min0] at h
    split at h
    · cases h
    · split at h
      · cases h
      · cases h
      · exact ih _ _ _ _ _ h

/-- The skip type the generator emits: `Empty` or an `AtomicRepeat`. -/
def SkipShape (g : NodeGrammar) : Prop := g.skipped = .empty ∨ ∃ x, g.skipped = .atomicRepeat x

/-- A generated skip type never fails. -/
theorem skipped_no_fail {g : NodeGrammar} (hs : SkipShape g) (uni : Uni) (n : Nat) (inh : Bool) (i : Inp)
    (m m' : M) : parse g uni n inh g.skipped i m ≠ .fail m' := by
  intro h
  cases n with
  | zero => cases h
  | succ n =>
    rcases hs with hs | ⟨x, hs⟩
    · rw [hs] at h; simp only [parse] at h; cases h
    · rw [hs] at h
      simp only [parse] at h
      split at h
      · cases h
      · next m1 h1 => exact repLoop_min0_no_fail _ _ _ _ _ _ _ _ h1
      · cases h

end PestTyped
