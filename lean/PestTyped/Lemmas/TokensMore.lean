/-
Lemmas.TokensMore — additions for `Props/C15More.lean`:

* the tokens of a value whose spans are pieces of the input (`Val.SpansIn`) are, hereditarily,
  pieces of the input (`Token.PiecesOf`), and so is every token visited by `dfs`;
* `sliceOf`, `dbgTextOf`: the text `format_as_tree` prints on leaves;
* `Val.SubVal`, `Val.VisibleIn`, `Tag.isLeaf`, `hidesKids`: sub-values, sub-values not hidden from
  `for_self_or_each_child`; the token tree is complete and sound w.r.t. the visible rule values;
  values of `parse` have no children below the tags whose Rust type has an empty
  `for_self_or_each_child`.
-/
import PestTyped.Lemmas.TokensLemmas
import PestTyped.Lemmas.ValEqLemmas
import PestTyped.Lemmas.TextSpanMore
import PestTyped.Lemmas.RustDebug
namespace PestTyped

/-! ### tokens are pieces of the input -/

mutual
/-- The token and all tokens below it carry offsets of a piece of the remaining text of `b`. -/
def Token.PiecesOf (b : Inp) : Token → Prop
  | .mk _ s e kids => (∃ txt, Sp.In b ⟨s, e, txt⟩) ∧ Token.PiecesOfList b kids
def Token.PiecesOfList (b : Inp) : List Token → Prop
  | [] => True
  | t :: ts => Token.PiecesOf b t ∧ Token.PiecesOfList b ts
end

theorem Token.PiecesOfList.append {b : Inp} : ∀ {l1 l2 : List Token},
    Token.PiecesOfList b l1 → Token.PiecesOfList b l2 → Token.PiecesOfList b (l1 ++ l2)
  | [], _, _, h2 => h2
  | _ :: ts, _, h1, h2 => by
    simp only [List.cons_append, Token.PiecesOfList] at h1 ⊢
    exact ⟨h1.1, Token.PiecesOfList.append h1.2 h2⟩

mutual
theorem tokens_pieces (g : NodeGrammar) (b : Inp) :
    ∀ v : Val, Val.SpansIn b v → Token.PiecesOfList b (tokens g v)
  | .mk t kids, h => by
    have hk := tokensList_pieces g b kids h.kids
    have ht := h.tag
    cases t <;> simp only [tokens] <;> try first | exact hk | trivial
    next r emit bx s e =>
      simp only [Val.tag, Tag.SpansIn] at ht
      cases emit <;> simp only []
      · refine ⟨⟨ht, ?_⟩, trivial⟩
        split
        · exact hk
        · trivial
      · exact hk
      · refine ⟨⟨ht, ?_⟩, trivial⟩
        split
        · exact hk
        · trivial
theorem tokensList_pieces (g : NodeGrammar) (b : Inp) :
    ∀ vs : List Val, (∀ v ∈ vs, Val.SpansIn b v) → Token.PiecesOfList b (tokensList g vs)
  | [], _ => trivial
  | v :: vs, h => by
    simp only [tokensList]
    exact (tokens_pieces g b v (h v (by simp))).append
      (tokensList_pieces g b vs (fun x hx => h x (by simp [hx])))
end

mutual
theorem dfsAt_pieces (b : Inp) : ∀ (d : Nat) (t : Token), Token.PiecesOf b t →
    ∀ p ∈ dfsAt d t, ∃ txt, Sp.In b ⟨p.1.s, p.1.e, txt⟩
  | d, .mk r s e kids, h, p, hp => by
    simp only [Token.PiecesOf] at h
    simp only [dfsAt, List.mem_cons] at hp
    rcases hp with rfl | hp
    · exact h.1
    · exact dfsListAt_pieces b (d+1) kids h.2 p hp
theorem dfsListAt_pieces (b : Inp) : ∀ (d : Nat) (L : List Token), Token.PiecesOfList b L →
    ∀ p ∈ dfsListAt d L, ∃ txt, Sp.In b ⟨p.1.s, p.1.e, txt⟩
  | _, [], _, p, hp => by simp [dfsListAt] at hp
  | d, t :: ts, h, p, hp => by
    simp only [Token.PiecesOfList] at h
    simp only [dfsListAt, List.mem_append] at hp
    rcases hp with hp | hp
    · exact dfsAt_pieces b d t h.1 p hp
    · exact dfsListAt_pieces b d ts h.2 p hp
end

theorem mem_of_mem_PiecesOfList {b : Inp} : ∀ {L : List Token}, Token.PiecesOfList b L →
    ∀ t ∈ L, Token.PiecesOf b t
  | [], _, t, ht => by cases ht
  | x :: xs, h, t, ht => by
    simp only [Token.PiecesOfList] at h
    rcases List.mem_cons.mp ht with rfl | ht
    · exact h.1
    · exact mem_of_mem_PiecesOfList h.2 t ht

/-! ### the text printed on leaves -/

/-- `&input[s..e]` with the panic of an out-of-range / off-boundary slice totalised to the empty
text; `C15_format_text` proves that on the tokens of a parse result the slice exists
(`Text.slice … = .ok _`), so the default is never what is printed. -/
def sliceOf (input : List Char) (s e : Nat) : List Char := (Text.getRange input s e).getD []

/-- `format!("{:?}", p.span.as_str())` for a token of a tree over `input`. -/
def dbgTextOf (uprint : Char → Bool) (input : List Char) (tk : Token) : List Char :=
  RustDebug.strDebug uprint (sliceOf input tk.s tk.e)

theorem sliceOf_of_slice {input : List Char} {s e : Nat} {t : List Char}
    (h : Text.slice input s e = .ok t) : sliceOf input s e = t := by
  unfold Text.slice at h
  unfold sliceOf
  cases hg : Text.getRange input s e with
  | none => rw [hg] at h; cases h
  | some x => rw [hg] at h; injection h

/-! ### sub-values; what `for_self_or_each_child` can see -/

/-- `u` occurs in `v` (at any depth, `v` itself included). -/
inductive Val.SubVal : Val → Val → Prop
  | refl (v : Val) : Val.SubVal v v
  | kid {u k : Val} {t : Tag} {kids : List Val} : k ∈ kids → Val.SubVal u k → Val.SubVal u (.mk t kids)

/-- The tags whose Rust type has an EMPTY `for_self_or_each_child` (`impl_empty!`,
`impl_without_lifetime!`, `impl_with_lifetime!` in `iterators.rs`, `None` of `Option`) — apart from
the lookaheads, which `tokens` treats in arms of their own. -/
def Tag.isLeaf : Tag → Bool
  | .str | .insens _ | .charRange _ | .any _ | .uni _ _ | .soi | .eoi | .newline _
  | .skipUntil _ | .skipChars _ | .optNone | .peek _ | .peekAll _ | .pop _ | .popAll _
  | .drop | .peekSlice | .empty => true
  | _ => false

/-- The tags below which `for_self_or_each_child` does not descend: the lookaheads, and a
non-silent rule whose `Pair` impl is `impl_pair_with_empty` (atomic `@` / `$` rules, `EOI`). -/
def hidesKids (g : NodeGrammar) : Tag → Bool
  | .pos => true
  | .neg => true
  | .rule r emit _ _ _ => emit != .expression && !hasContentPairs g r
  | _ => false

/-- `u` occurs in `v` and no tag on the way down to it hides its children. -/
inductive Val.VisibleIn (g : NodeGrammar) : Val → Val → Prop
  | refl (v : Val) : Val.VisibleIn g v v
  | kid {u k : Val} {t : Tag} {kids : List Val} : hidesKids g t = false → k ∈ kids →
      Val.VisibleIn g u k → Val.VisibleIn g u (.mk t kids)

theorem Val.VisibleIn.subVal {g : NodeGrammar} {u v : Val} (h : Val.VisibleIn g u v) : Val.SubVal u v := by
  induction h with
  | refl => exact .refl _
  | kid _ hk _ ih => exact .kid hk ih

/-- The token of a non-silent rule value. -/
def ruleToken (g : NodeGrammar) (r : RuleId) (s e : Nat) (ks : List Val) : Token :=
  .mk r s e (if hasContentPairs g r then tokensList g ks else [])

theorem tokens_rule (g : NodeGrammar) (r : RuleId) (emit : Emission) (bx : Bool) (s e : Nat)
    (ks : List Val) (hemit : emit ≠ .expression) :
    tokens g (.mk (.rule r emit bx s e) ks) = [ruleToken g r s e ks] := by
  cases emit <;> simp [tokens, ruleToken] at hemit ⊢

theorem mem_dfsListAt_tokensList (g : NodeGrammar) (d : Nat) (p : Token × Nat) :
    ∀ (kids : List Val) (k : Val), k ∈ kids → p ∈ dfsListAt d (tokens g k) →
      p ∈ dfsListAt d (tokensList g kids)
  | [], _, hk, _ => by cases hk
  | v :: vs, k, hk, hp => by
    simp only [tokensList, dfsListAt_append, List.mem_append]
    rcases List.mem_cons.mp hk with rfl | hk
    · exact Or.inl hp
    · exact Or.inr (mem_dfsListAt_tokensList g d p vs k hk hp)

/-- Completeness: a non-silent rule value that is visible in `v` has its token in the forest
`tokens g v` (at some depth). -/
theorem visible_rule_token (g : NodeGrammar) {u v : Val} (h : Val.VisibleIn g u v) :
    ∀ (r : RuleId) (emit : Emission) (bx : Bool) (s e : Nat) (ks : List Val),
      u = .mk (.rule r emit bx s e) ks → emit ≠ .expression →
      ∀ d, ∃ p ∈ dfsListAt d (tokens g v), p.1 = ruleToken g r s e ks := by
  induction h with
  | refl =>
    intro r emit bx s e ks hu hemit d
    subst hu
    rw [tokens_rule g r emit bx s e ks hemit]
    refine ⟨(ruleToken g r s e ks, d), ?_, rfl⟩
    simp [dfsListAt, ruleToken, dfsAt]
  | @kid k t kids hh hk _ ih =>
    intro r emit bx s e ks hu hemit d
    cases t with
    | rule r' emit' bx' s' e' =>
      by_cases he : emit' = .expression
      · subst he
        obtain ⟨p, hp, hpe⟩ := ih r emit bx s e ks hu hemit d
        refine ⟨p, ?_, hpe⟩
        simp only [tokens]
        exact mem_dfsListAt_tokensList g d p kids k hk hp
      · have hc : hasContentPairs g r' = true := by
          simp only [hidesKids, Bool.and_eq_false_imp, bne_iff_ne, ne_eq, Bool.not_eq_false'] at hh
          simpa using hh he
        obtain ⟨p, hp, hpe⟩ := ih r emit bx s e ks hu hemit (d+1)
        refine ⟨p, ?_, hpe⟩
        rw [tokens_rule g r' emit' bx' s' e' kids he]
        simp only [dfsListAt, ruleToken, hc, if_true, dfsAt, List.append_nil, List.mem_cons]
        exact Or.inr (mem_dfsListAt_tokensList g (d+1) p kids k hk hp)
    | pos => simp [hidesKids] at hh
    | neg => simp [hidesKids] at hh
    | _ =>
      obtain ⟨p, hp, hpe⟩ := ih r emit bx s e ks hu hemit d
      refine ⟨p, ?_, hpe⟩
      simp only [tokens]
      exact mem_dfsListAt_tokensList g d p kids k hk hp

mutual
/-- Soundness: every token of the forest `tokens g v`, at any depth, is the token of a non-silent
rule value visible in `v` — nothing is invented. -/
theorem tokens_sound (g : NodeGrammar) : ∀ (v : Val) (d : Nat) (p : Token × Nat),
    p ∈ dfsListAt d (tokens g v) →
    ∃ r emit bx s e ks, Val.VisibleIn g (.mk (.rule r emit bx s e) ks) v ∧ emit ≠ .expression ∧
      p.1 = ruleToken g r s e ks
  | .mk t kids, d, p, hp => by
    have key : ∀ d', hidesKids g t = false → p ∈ dfsListAt d' (tokensList g kids) →
        ∃ r emit bx s e ks, Val.VisibleIn g (.mk (.rule r emit bx s e) ks) (.mk t kids) ∧
          emit ≠ .expression ∧ p.1 = ruleToken g r s e ks := by
      intro d' hh hp'
      obtain ⟨k, hk, r, emit, bx, s, e, ks, hv, he, hpe⟩ := tokensList_sound g kids d' p hp'
      exact ⟨r, emit, bx, s, e, ks, .kid hh hk hv, he, hpe⟩
    cases t with
    | rule r' emit' bx' s' e' =>
      by_cases he : emit' = .expression
      · subst he
        simp only [tokens] at hp
        exact key d (by simp [hidesKids]) hp
      · rw [tokens_rule g r' emit' bx' s' e' kids he] at hp
        simp only [dfsListAt, ruleToken, dfsAt, List.append_nil, List.mem_cons] at hp
        rcases hp with rfl | hp
        · exact ⟨r', emit', bx', s', e', kids, .refl _, he, rfl⟩
        · by_cases hc : hasContentPairs g r' = true
          · rw [if_pos hc] at hp
            exact key (d+1) (by simp [hidesKids, hc]) hp
          · rw [if_neg hc] at hp
            simp [dfsListAt] at hp
    | pos => simp [tokens, dfsListAt] at hp
    | neg => simp [tokens, dfsListAt] at hp
    | _ =>
      simp only [tokens] at hp
      exact key d (by simp [hidesKids]) hp
theorem tokensList_sound (g : NodeGrammar) : ∀ (vs : List Val) (d : Nat) (p : Token × Nat),
    p ∈ dfsListAt d (tokensList g vs) →
    ∃ k ∈ vs, ∃ r emit bx s e ks, Val.VisibleIn g (.mk (.rule r emit bx s e) ks) k ∧
      emit ≠ .expression ∧ p.1 = ruleToken g r s e ks
  | [], _, p, hp => by simp [tokensList, dfsListAt] at hp
  | v :: vs, d, p, hp => by
    simp only [tokensList, dfsListAt_append, List.mem_append] at hp
    rcases hp with hp | hp
    · exact ⟨v, by simp, tokens_sound g v d p hp⟩
    · obtain ⟨k, hk, h⟩ := tokensList_sound g vs d p hp
      exact ⟨k, by simp [hk], h⟩
end

/-! ### shape of typed values -/

theorem Val.TypedL.mem {g : NodeGrammar} : ∀ {vs : List Val} {tys : List Ty}, Val.TypedL g vs tys →
    ∀ v ∈ vs, ∃ ty, Val.TypedT g v ty
  | [], _, _, v, hv => by cases hv
  | x :: xs, ty :: tys, h, v, hv => by
    simp only [Val.TypedL] at h
    rcases List.mem_cons.mp hv with rfl | hv
    · exact ⟨ty, h.1⟩
    · exact Val.TypedL.mem h.2 v hv
  | _ :: _, [], h, _, _ => by simp [Val.TypedL] at h

/-- A typed value: its children are typed; below a leaf tag and below a rule of emission `Span`
there are none. -/
theorem Val.TypedT.shape {g : NodeGrammar} {t : Tag} {kids : List Val} {ty : Ty}
    (h : Val.TypedT g (.mk t kids) ty) :
    (∃ tys, Val.TypedL g kids tys) ∧
    ((t.isLeaf = true ∨ ∃ r bx s e, t = .rule r .span bx s e) → kids = []) := by
  have nil : Val.TypedL g [] [] := by simp [Val.TypedL]
  cases ty with
  | sk inh k n =>
    simp only [Val.TypedT] at h
    obtain ⟨rfl, h⟩ := h
    exact ⟨⟨_, h⟩, by simp [Tag.isLeaf]⟩
  | skd inh k n =>
    simp only [Val.TypedT] at h
    obtain ⟨rfl, h⟩ := h
    exact ⟨⟨_, h⟩, by simp [Tag.isLeaf]⟩
  | dflt =>
    simp only [Val.TypedT] at h
    unfold defaultSkipVal at h
    split at h
    · injection h with h1 h2; subst h1 h2; exact ⟨⟨[], nil⟩, fun _ => rfl⟩
    · simp only [Val.leaf] at h
      injection h with h1 h2; subst h1 h2; exact ⟨⟨[], nil⟩, fun _ => rfl⟩
  | plain inh node =>
    cases node <;> simp only [Val.TypedT] at h
    case plain.seq f items => obtain ⟨rfl, h⟩ := h; exact ⟨⟨_, h⟩, by simp [Tag.isLeaf]⟩
    case plain.choice alts => obtain ⟨k, n, rfl, _, h⟩ := h; exact ⟨⟨_, h⟩, by simp [Tag.isLeaf]⟩
    case plain.opt x =>
      rcases h with ⟨rfl, rfl⟩ | ⟨rfl, h⟩
      · exact ⟨⟨[], nil⟩, fun _ => rfl⟩
      · exact ⟨⟨_, h⟩, by simp [Tag.isLeaf]⟩
    case plain.rep f mn mx x => obtain ⟨rfl, h⟩ := h; exact ⟨⟨_, h⟩, by simp [Tag.isLeaf]⟩
    case plain.atomicRepeat x => obtain ⟨rfl, h⟩ := h; exact ⟨⟨_, h⟩, by simp [Tag.isLeaf]⟩
    case plain.pos x => obtain ⟨rfl, h⟩ := h; exact ⟨⟨_, h⟩, by simp [Tag.isLeaf]⟩
    case plain.push x => obtain ⟨rfl, h⟩ := h; exact ⟨⟨_, h⟩, by simp [Tag.isLeaf]⟩
    case plain.array k x => obtain ⟨rfl, h⟩ := h; exact ⟨⟨_, h⟩, by simp [Tag.isLeaf]⟩
    case plain.pair x y => obtain ⟨rfl, h⟩ := h; exact ⟨⟨_, h⟩, by simp [Tag.isLeaf]⟩
    case plain.ref r f =>
      obtain ⟨d, _, ⟨s, e, rfl⟩, h⟩ := h
      rcases h with ⟨hs, rfl⟩ | ⟨hs, h⟩
      · exact ⟨⟨[], nil⟩, fun _ => rfl⟩
      · refine ⟨⟨_, h⟩, ?_⟩
        rintro (hl | ⟨r', bx, s', e', he⟩)
        · simp [Tag.isLeaf] at hl
        · injection he with _ he _ _ _; exact absurd he hs
    all_goals (
      obtain ⟨_, rfl⟩ := h
      exact ⟨⟨[], nil⟩, fun _ => rfl⟩)

theorem Val.SubVal.typed {g : NodeGrammar} {u v : Val} (h : Val.SubVal u v) :
    ∀ ty, Val.TypedT g v ty → ∃ ty', Val.TypedT g u ty' := by
  induction h with
  | refl => intro ty h; exact ⟨ty, h⟩
  | kid hk _ ih =>
    intro ty h
    obtain ⟨⟨tys, hl⟩, _⟩ := h.shape
    obtain ⟨ty', hk'⟩ := hl.mem _ hk
    exact ih ty' hk'

/-- The catch-all arm of `tokens`: for every tag other than a rule or a lookahead, the tokens of
the children. -/
theorem tokens_catch_all (g : NodeGrammar) (t : Tag) (kids : List Val)
    (h1 : ∀ r em bx s e, t ≠ .rule r em bx s e) (h2 : t ≠ .pos) (h3 : t ≠ .neg) :
    tokens g (.mk t kids) = tokensList g kids := by
  cases t <;> simp only [tokens]
  · exact absurd rfl h2
  · exact absurd rfl h3
  · exact absurd rfl (h1 _ _ _ _ _)

end PestTyped
