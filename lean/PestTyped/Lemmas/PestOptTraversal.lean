/-
Lemmas.PestOptTraversal — how a semantics-preserving local rewrite lifts through the traversals of
pest_meta's optimizer (`mapChildren`, `mapBottomUp`, `mapBottomUpOpt`, `mapTopDown` of
`Model/PestOpt.lean`), in a FIXED grammar and under a fixed atomicity flag `na` (no constructor changes
the flag of its sub-expressions; only a rule call does, and identifiers are leaves of the traversals).
`SpecEquiv` (`Lemmas/SpecDen.lean`): same definite answers of the reference semantics `spec`, up to fuel.
-/
import PestTyped.Lemmas.SpecDen
import PestTyped.Lemmas.PestOptLemmas
namespace PestTyped

section
variable {g : PGrammar} {uni : Uni} {na : Bool}

/-- Rewriting the children by equivalent expressions gives an equivalent expression. -/
theorem SpecEquiv.mapChildren (h : PExpr → PExpr) (e : PExpr)
    (hc : ∀ c, c.size < e.size → SpecEquiv g g uni na c (h c)) : SpecEquiv g g uni na e (e.mapChildren h) := by
  have sk := SkipEquiv.refl g uni
  cases e <;> simp only [PExpr.mapChildren] <;>
    first
    | exact SpecEquiv.refl _ _ _ _
    | exact SpecEquiv.posPred (hc _ (by simp only [PExpr.size]; omega))
    | exact SpecEquiv.negPred (hc _ (by simp only [PExpr.size]; omega))
    | exact SpecEquiv.seq sk (hc _ (by simp only [PExpr.size]; omega)) (hc _ (by simp only [PExpr.size]; omega))
    | exact SpecEquiv.choice (hc _ (by simp only [PExpr.size]; omega)) (hc _ (by simp only [PExpr.size]; omega))
    | exact SpecEquiv.opt (hc _ (by simp only [PExpr.size]; omega))
    | exact SpecEquiv.rep sk (hc _ (by simp only [PExpr.size]; omega))
    | exact SpecEquiv.repOnce sk (hc _ (by simp only [PExpr.size]; omega))
    | exact SpecEquiv.repExact sk (hc _ (by simp only [PExpr.size]; omega)) _
    | exact SpecEquiv.repMin sk (hc _ (by simp only [PExpr.size]; omega)) _
    | exact SpecEquiv.repMax sk (hc _ (by simp only [PExpr.size]; omega)) _
    | exact SpecEquiv.repMinMax sk (hc _ (by simp only [PExpr.size]; omega)) _ _
    | exact SpecEquiv.push (hc _ (by simp only [PExpr.size]; omega))

/-- `Expr::map_bottom_up(f)` with a closure that is sound at every node. -/
theorem mapBottomUp_equiv (f : PExpr → PExpr) (hf : ∀ e, SpecEquiv g g uni na e (f e)) :
    ∀ e, SpecEquiv g g uni na e (mapBottomUp f e) := by
  have sk := SkipEquiv.refl g uni
  intro e
  induction e with
  | posPred e ih => exact (SpecEquiv.posPred ih).trans (hf _)
  | negPred e ih => exact (SpecEquiv.negPred ih).trans (hf _)
  | seq a b iha ihb => exact (SpecEquiv.seq sk iha ihb).trans (hf _)
  | choice a b iha ihb => exact (SpecEquiv.choice iha ihb).trans (hf _)
  | opt e ih => exact (SpecEquiv.opt ih).trans (hf _)
  | rep e ih => exact (SpecEquiv.rep sk ih).trans (hf _)
  | repOnce e ih => exact (SpecEquiv.repOnce sk ih).trans (hf _)
  | repExact e n ih => exact (SpecEquiv.repExact sk ih n).trans (hf _)
  | repMin e n ih => exact (SpecEquiv.repMin sk ih n).trans (hf _)
  | repMax e n ih => exact (SpecEquiv.repMax sk ih n).trans (hf _)
  | repMinMax e n m ih => exact (SpecEquiv.repMinMax sk ih n m).trans (hf _)
  | push e ih => exact (SpecEquiv.push ih).trans (hf _)
  | str s => exact hf _
  | insens s => exact hf _
  | range lo hi => exact hf _
  | ident n => exact hf _
  | peekSlice a b => exact hf _
  | skip ns => exact hf _
  | restoreOnErr e _ => exact hf _

/-- `OptimizedExpr::map_bottom_up(f)` (does not enter counted repetitions and `RestoreOnErr`). -/
theorem mapBottomUpOpt_equiv (f : PExpr → PExpr) (hf : ∀ e, SpecEquiv g g uni na e (f e)) :
    ∀ e, SpecEquiv g g uni na e (mapBottomUpOpt f e) := by
  have sk := SkipEquiv.refl g uni
  intro e
  induction e with
  | posPred e ih => exact (SpecEquiv.posPred ih).trans (hf _)
  | negPred e ih => exact (SpecEquiv.negPred ih).trans (hf _)
  | seq a b iha ihb => exact (SpecEquiv.seq sk iha ihb).trans (hf _)
  | choice a b iha ihb => exact (SpecEquiv.choice iha ihb).trans (hf _)
  | opt e ih => exact (SpecEquiv.opt ih).trans (hf _)
  | rep e ih => exact (SpecEquiv.rep sk ih).trans (hf _)
  | push e ih => exact (SpecEquiv.push ih).trans (hf _)
  | repOnce e _ => exact hf _
  | repExact e n _ => exact hf _
  | repMin e n _ => exact hf _
  | repMax e n _ => exact hf _
  | repMinMax e n m _ => exact hf _
  | str s => exact hf _
  | insens s => exact hf _
  | range lo hi => exact hf _
  | ident n => exact hf _
  | peekSlice a b => exact hf _
  | skip ns => exact hf _
  | restoreOnErr e _ => exact hf _

/-- `Expr::map_top_down(f)` with a closure that is sound at every node, for every fuel. -/
theorem mapTopDown_equiv (f : PExpr → PExpr) (hf : ∀ e, SpecEquiv g g uni na e (f e)) :
    ∀ n e, SpecEquiv g g uni na e (mapTopDown f n e) := by
  intro n
  induction n with
  | zero => intro e; exact SpecEquiv.refl _ _ _ _
  | succ n ih =>
    intro e
    simp only [mapTopDown]
    exact (hf e).trans (SpecEquiv.mapChildren _ _ (fun c _ => ih c))

end
end PestTyped
