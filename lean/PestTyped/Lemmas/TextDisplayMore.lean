/-
Lemmas.TextDisplayMore — additions to the display layer for `Props/C14More.lean`:

* numbers: `natStr` is the decimal representation, `ceilLog10` its length (the loop budgets of
  the model are never exhausted), `padNum` is right alignment;
* the rows `display_span` prints for EVERY valid span starting on the first byte of a line other
  than the first (the F-FMT-3 region), empty spans included;
* the shape of the rows of every snippet: where the markers are relative to the numbered rows,
  which numbers occur, what the width of the number column is;
* an error-propagating variant of `render` / `display*` (callbacks that can return
  `Err(fmt::Error)`), refining the existing one.
-/
import PestTyped.Lemmas.TextDisplay
namespace PestTyped
namespace Text

/-! ### numbers -/

theorem ofNat_digit_eq_digitChar {k : Nat} (h : k < 10) : Char.ofNat (48 + k) = Nat.digitChar k := by
  match k, h with
  | 0, _ | 1, _ | 2, _ | 3, _ | 4, _ | 5, _ | 6, _ | 7, _ | 8, _ | 9, _ => decide

/-- The digit loop with enough fuel: the decimal digits, most significant first. -/
theorem digitsGo_eq (fuel n : Nat) (acc : List Char) (h : n < fuel) :
    digitsGo fuel n acc = Nat.toDigits 10 n ++ acc := by
  induction fuel generalizing n acc with
  | zero => omega
  | succ fuel ih =>
    simp only [digitsGo]
    rw [Nat.toDigits_eq_if (by decide), ofNat_digit_eq_digitChar (Nat.mod_lt n (by decide))]
    by_cases hn : n < 10
    · rw [if_pos hn, if_pos hn, Nat.mod_eq_of_lt hn]; rfl
    · rw [if_neg hn, if_neg hn, ih (n / 10) _ (by omega)]
      simp

/-- `format!("{}", n)`: the model's `natStr` is the decimal representation (its fuel suffices). -/
theorem natStr_eq (n : Nat) : natStr n = Nat.toDigits 10 n := by
  unfold natStr
  rw [digitsGo_eq (n + 1) n [] (by omega)]; simp

/-- The `while i >= 10` loop of `ceil_log10` with enough fuel. -/
theorem ceilLog10Go_eq (fuel digit i : Nat) (h : i ≤ fuel) :
    ceilLog10Go fuel digit i = digit + (Nat.toDigits 10 i).length - 1 := by
  induction fuel generalizing digit i with
  | zero =>
    have : i = 0 := by omega
    subst this; simp [ceilLog10Go]
  | succ fuel ih =>
    simp only [ceilLog10Go]
    rw [Nat.toDigits_eq_if (b := 10) (n := i) (by decide)]
    by_cases hi : i ≥ 10
    · rw [if_pos hi, if_neg (by omega), ih (digit + 1) (i / 10) (by omega)]
      have := Nat.length_toDigits_pos (b := 10) (n := i / 10)
      simp only [List.length_append, List.length_cons, List.length_nil]
      omega
    · rw [if_neg hi, if_pos (by omega)]; simp

/-- `ceil_log10(n)` is the number of decimal digits of `n`. -/
theorem ceilLog10_eq (n : Nat) : ceilLog10 n = (Nat.toDigits 10 n).length := by
  unfold ceilLog10
  rw [ceilLog10Go_eq n 1 n (Nat.le_refl _)]
  have := Nat.length_toDigits_pos (b := 10) (n := n)
  omega

theorem length_toDigits_mono {n N : Nat} (h : n ≤ N) :
    (Nat.toDigits 10 n).length ≤ (Nat.toDigits 10 N).length := by
  have hpos := Nat.length_toDigits_pos (b := 10) (n := N)
  rw [Nat.length_toDigits_le_iff (by decide) hpos]
  have := (Nat.length_toDigits_le_iff (b := 10) (n := N) (k := (Nat.toDigits 10 N).length)
    (by decide) hpos).mp (Nat.le_refl _)
  omega

/-- `format!("{:w$}", n)`: spaces, then the decimal digits; exactly `w` characters when `n` has at
most `w` digits. -/
theorem padNum_eq (w n : Nat) :
    padNum w n = List.replicate (w - (Nat.toDigits 10 n).length) ' ' ++ Nat.toDigits 10 n := by
  unfold padNum; rw [natStr_eq]

theorem length_padNum (w n : Nat) (h : (Nat.toDigits 10 n).length ≤ w) : (padNum w n).length = w := by
  rw [padNum_eq]; simp; omega

/-! ### the F-FMT-3 region, exactly -/

/-- Only the empty input has an empty displayed line, and then it is the only line. -/
theorem dispLines_line_ne_nil {s : List Char} {before after : List (List Char)} {l : List Char}
    (h : dispLines s = before ++ l :: after) (h2 : before ≠ [] ∨ after ≠ []) : l ≠ [] := by
  by_cases hs : s = []
  · subst hs
    have : (dispLines ([] : List Char)).length = 1 := rfl
    rw [h] at this
    simp only [List.length_append, List.length_cons] at this
    rcases h2 with h2 | h2
    · have := List.length_pos_iff.mpr h2; omega
    · have := List.length_pos_iff.mpr h2; omega
  · rw [dispLines_of_ne_nil hs] at h
    exact ((splitLines_props s).1 l (by rw [h]; simp)).1

/-- An EMPTY span on the first byte of the line after `prev`: the single-line snippet of `prev`
(its number, nothing highlighted) with an EMPTY marker after its last cell. -/
theorem spanSnippet_later_empty (width : Char → Nat) (s : List Char) (bb after : List (List Char))
    (prev l : List Char) (hsplit : dispLines s = bb ++ prev :: l :: after) :
    spanSnippet width ⟨s, blen bb.flatten + blen prev, blen bb.flatten + blen prev⟩ =
      .ok ⟨ceilLog10 (bb.length + 1),
        [.gutter, .text (bb.length + 1) (visualize prev) (some []) [],
         .mark (strWidth width (visualize prev)) []]⟩ := by
  have hprev : prev ≠ [] := dispLines_line_ne_nil hsplit (Or.inr (by simp))
  have h := spanSnippet_single width s bb (l :: after) prev [] [] (by simpa using hsplit) (Or.inl hprev)
  simp only [blen_nil, Nat.add_zero] at h
  rw [h]
  simp [snippetSingleLine, visualize, strWidth]

/-- A NON-EMPTY span starting on the first byte of the line after `prev`, over the lines `mid`,
ending after `m2` in the line `m2 ++ r`: the multi-line snippet that starts on `prev`. -/
theorem spanSnippet_later_nonempty (width : Char → Nat) (s : List Char)
    (bb mid after : List (List Char)) (prev m2 r : List Char)
    (hsplit : dispLines s = bb ++ prev :: (mid ++ (m2 ++ r) :: after)) (hm2 : m2 ≠ []) :
    spanSnippet width ⟨s, blen bb.flatten + blen prev,
        blen bb.flatten + blen prev + blen mid.flatten + blen m2⟩ =
      .ok ⟨ceilLog10 (bb.length + mid.length + 2),
        snippetMultiLine width bb.length (visualize prev) [] (bb.length + mid.length + 1)
          (visualize m2) (visualize r) (innerOf mid)⟩ := by
  have hprev : prev ≠ [] := dispLines_line_ne_nil hsplit (Or.inr (by simp))
  have h := spanSnippet_multi width s bb mid after prev [] m2 r (by simpa using hsplit)
    (Or.inl hprev) hm2
  simp only [List.append_nil] at h
  rw [h]; rfl

/-- Every valid span whose start is the first byte of a later line is in one of the two
situations above. -/
theorem later_decomp (s : List Char) (a b : Nat) (hv : (⟨s, a, b⟩ : Span).Valid)
    (hl : LaterLineStart s a) :
    (∃ bb after prev l, dispLines s = bb ++ prev :: l :: after ∧ a = blen bb.flatten + blen prev ∧ b = a) ∨
    (∃ bb mid after prev m2 r, dispLines s = bb ++ prev :: (mid ++ (m2 ++ r) :: after) ∧ m2 ≠ [] ∧
      a = blen bb.flatten + blen prev ∧ b = blen bb.flatten + blen prev + blen mid.flatten + blen m2) := by
  obtain ⟨hab, ha, hb⟩ := hv
  simp only [] at hab ha hb
  obtain ⟨before, l, after, hsplit, hne, hstart⟩ := hl
  have hdl := List.dropLast_concat_getLast hne
  generalize before.dropLast = bb at hdl
  generalize before.getLast hne = prev at hdl
  subst hdl
  have hfl := flatten_dispLines s
  have hbl : blen (bb ++ [prev]).flatten = blen bb.flatten + blen prev := by simp [blen_append]
  have hsplit' : dispLines s = bb ++ prev :: l :: after := by rw [hsplit]; simp
  by_cases hba : b = a
  · left; exact ⟨bb, after, prev, l, hsplit', by rw [hstart, hbl], hba⟩
  · right
    have hbs : b ≤ a + blen (l :: after).flatten := by
      have := hb.le
      rw [← hfl, hsplit] at this
      simp only [List.flatten_append, List.flatten_cons, blen_append] at this hstart ⊢
      omega
    obtain ⟨mid, l2, after', hsplit2, k1, k2, k3⟩ :=
      exists_line_le (l :: after) a b (by simp) hab hbs
    have k3' : a + blen mid.flatten < b := by
      rcases k3 with h | h
      · subst h; simp; omega
      · exact h
    have hsplit3 : dispLines s = (bb ++ prev :: mid) ++ l2 :: after' := by
      rw [hsplit', hsplit2]; simp
    have hpre : blen (bb ++ prev :: mid).flatten = a + blen mid.flatten := by
      rw [hstart, hbl]; simp [blen_append]; omega
    obtain ⟨m2, r, hl2, hm2⟩ := split_line_at (before := bb ++ prev :: mid) (by rw [← hsplit3, hfl]) hb
      (by rw [hpre]; omega) (by rw [hpre]; omega)
    have hm2ne : m2 ≠ [] := by
      intro h; subst h; simp only [blen_nil] at hm2; omega
    refine ⟨bb, mid, after', prev, m2, r, ?_, hm2ne, by rw [hstart, hbl], ?_⟩
    · rw [hsplit', hsplit2, hl2]
    · rw [hpre] at hm2; rw [hstart, hbl] at hm2 k3'; omega

/-! ### the shape of the rows -/

/-- The rows between the first and the last numbered row of a multi-line snippet: numbered,
fully highlighted lines, or the ellipsis. -/
def InnerRow (lo hi : Nat) : Row → Prop
  | .text k pre (some _) post => pre = [] ∧ post = [] ∧ lo < k ∧ k < hi
  | .dots => True
  | _ => False

/-- The two shapes of the rows of `display_span`:
* gutter / numbered line with the highlight / carets under the highlight, starting at the
  display width of what precedes it;
* `v` at the display width of what precedes the highlight of the first numbered line / that
  line / inner rows / the last numbered line / `^` at the display width of its highlight minus
  one (`saturating_sub`). `N` is the largest number shown. -/
def RowsShape (width : Char → Nat) (rows : List Row) (N : Nat) : Prop :=
  (∃ pre hl post, rows = [.gutter, .text N pre (some hl) post,
      .mark (strWidth width pre) (List.replicate (strWidth width hl) '^')] ∧ 1 ≤ N) ∨
  (∃ n1 pre1 hl1 inner hlN postN,
    rows = .mark (strWidth width pre1) ['v'] :: .text n1 pre1 (some hl1) [] :: inner ++
      [.text N [] (some hlN) postN, .mark (strWidth width hlN - 1) ['^']] ∧
    1 ≤ n1 ∧ n1 < N ∧ ∀ r ∈ inner, InnerRow n1 N r)

theorem snippetMultiLine_shape (width : Char → Nat) (k : Nat) (vf vm1 vm2 vr : List Char)
    (mid : List (List Char)) :
    RowsShape width (snippetMultiLine width k vf vm1 (k + mid.length + 1) vm2 vr (innerOf mid))
      (k + mid.length + 2) := by
  right
  refine ⟨k + 1, vf, vm1, ?_, vm2, vr, ?_, by omega, by omega, ?_⟩
  · exact (match (innerOf mid).1 with
        | some l => [Row.text (k + 2) [] (some l) []]
        | none => [])
      ++ (match (innerOf mid).2.1 with
        | some l => [Row.text (k + 3) [] (some l) []]
        | none => if (innerOf mid).2.2.1 then [Row.dots] else [])
      ++ (match (innerOf mid).2.2.2 with
        | some l => [Row.text (k + mid.length + 1) [] (some l) []]
        | none => [])
  · simp only [snippetMultiLine, List.cons_append, List.nil_append, List.append_assoc]
    rfl
  · intro r hr
    simp only [List.mem_append] at hr
    rcases hr with (hr | hr) | hr
    · cases h1 : (innerOf mid).1 with
      | none => rw [h1] at hr; cases hr
      | some l =>
        rw [h1] at hr
        simp only [List.mem_singleton] at hr; subst hr
        have : mid.length ≥ 1 := by
          unfold innerOf at h1
          simp only [] at h1
          split at h1
          · assumption
          · cases h1
        exact ⟨rfl, rfl, by omega, by omega⟩
    · cases h2 : (innerOf mid).2.1 with
      | some l =>
        rw [h2] at hr
        simp only [List.mem_singleton] at hr; subst hr
        have : mid.length = 3 := by
          unfold innerOf at h2
          simp only [] at h2
          split at h2
          · assumption
          · cases h2
        exact ⟨rfl, rfl, by omega, by omega⟩
      | none =>
        rw [h2] at hr
        simp only [] at hr
        split at hr
        · simp only [List.mem_singleton] at hr; subst hr; trivial
        · cases hr
    · cases h3 : (innerOf mid).2.2.2 with
      | none => rw [h3] at hr; cases hr
      | some l =>
        rw [h3] at hr
        simp only [List.mem_singleton] at hr; subst hr
        have : mid.length ≥ 2 := by
          unfold innerOf at h3
          simp only [] at h3
          split at h3
          · assumption
          · cases h3
        exact ⟨rfl, rfl, by omega, by omega⟩

/-- Every snippet of a valid span has one of the two shapes, and the width of its number column
is the number of digits of the largest number shown. -/
theorem spanSnippet_shape (width : Char → Nat) (s : List Char) (a b : Nat)
    (hv : (⟨s, a, b⟩ : Span).Valid) (sn : Snippet) (h : spanSnippet width ⟨s, a, b⟩ = .ok sn) :
    ∃ N, sn.digits = ceilLog10 N ∧ RowsShape width sn.rows N := by
  rcases span_decomp s a b hv with ⟨before, after, f, m, r, h1, h2, rfl, rfl⟩ |
    ⟨before, mid, after, f, m1, m2, r, h1, h2, h3, rfl, rfl⟩
  · rw [spanSnippet_single width s before after f m r h1 h2] at h
    injection h with h; subst h
    exact ⟨before.length + 1, rfl, Or.inl ⟨_, _, _, rfl, by omega⟩⟩
  · rw [spanSnippet_multi width s before mid after f m1 m2 r h1 h2 h3] at h
    injection h with h; subst h
    exact ⟨before.length + mid.length + 2, rfl, snippetMultiLine_shape width _ _ _ _ _ mid⟩

/-- In a shaped list of rows every number shown is between 1 and `N`. -/
theorem RowsShape.numbers_le {width : Char → Nat} {rows : List Row} {N : Nat}
    (h : RowsShape width rows N) :
    ∀ n pre hl post, Row.text n pre hl post ∈ rows → 1 ≤ n ∧ n ≤ N := by
  intro n pre hl post hm
  rcases h with ⟨pre', hl', post', rfl, hN⟩ | ⟨n1, pre1, hl1, inner, hlN, postN, rfl, h1, h2, hin⟩
  · simp only [List.mem_cons, List.mem_nil_iff, or_false, reduceCtorEq, false_or] at hm
    injection hm with e; omega
  · simp only [List.mem_cons, List.mem_append, List.mem_nil_iff, or_false, reduceCtorEq,
      false_or] at hm
    rcases hm with (hm | hm) | hm
    · injection hm with e; omega
    · have := hin _ hm
      cases hl with
      | none => exact this.elim
      | some x => simp only [InnerRow] at this; omega
    · injection hm with e; omega

/-! ### callbacks that can fail -/

/-- What a callback does: the text it writes, and whether it returns `Ok(())` (`true`) or
`Err(fmt::Error)` (`false`; `fmt::Error` is a unit struct). -/
abbrev Wr := List Char × Bool

/-- `FormatOption` with callbacks `FnMut(&str, &mut W) -> fmt::Result` that may fail. -/
structure FormatOptionE where
  span : List Char → Wr
  marker : List Char → Wr
  number : List Char → Wr

/-- A total option seen as one that never fails. -/
def FormatOption.toE (opt : FormatOption) : FormatOptionE :=
  ⟨fun s => (opt.span s, true), fun s => (opt.marker s, true), fun s => (opt.number s, true)⟩

/-- `opt` is what `optE` does when nothing fails. -/
def FormatOptionE.NeverFails (optE : FormatOptionE) : Prop :=
  (∀ s, (optE.span s).2 = true) ∧ (∀ s, (optE.marker s).2 = true) ∧ (∀ s, (optE.number s).2 = true)

def FormatOptionE.texts (optE : FormatOptionE) : FormatOption :=
  ⟨fun s => (optE.span s).1, fun s => (optE.marker s).1, fun s => (optE.number s).1⟩

/-- One write of a snippet printer, in program order: literal text (`write!` of a format string
without callback) or a call of one of the three callbacks. -/
inductive Act where
  | lit (s : List Char)
  | num (s : List Char)
  | span (s : List Char)
  | mark (s : List Char)
  deriving DecidableEq, Repr

/-- The writes of one row, in the order of `formatter.rs`. -/
def rowActs (digits : Nat) : Row → List Act
  | .gutter => [.lit (List.replicate digits ' ' ++ [' ']), .num ['|'], .lit ['\n']]
  | .text n pre hl post =>
    [.num (padNum digits n), .lit [' '], .num ['|'], .lit (' ' :: pre)] ++
      (match hl with | some h => [Act.span h] | none => []) ++ [.lit post, .lit ['\n']]
  | .mark col m =>
    [.lit (List.replicate digits ' ' ++ [' ']), .num ['|'], .lit (' ' :: List.replicate col ' '),
     .mark m, .lit ['\n']]
  | .dots => [.lit (List.replicate digits ' ' ++ [' ']), .num ['|'], .lit [' ', '.', '.', '.', '\n']]

def runAct (opt : FormatOption) : Act → List Char
  | .lit s => s
  | .num s => opt.number s
  | .span s => opt.span s
  | .mark s => opt.marker s

def runActE (optE : FormatOptionE) : Act → Wr
  | .lit s => (s, true)
  | .num s => optE.number s
  | .span s => optE.span s
  | .mark s => optE.marker s

/-- Sequencing with `?`: stop at the first `Err`, keeping what was written so far. -/
def runActsE (optE : FormatOptionE) : List Act → Wr
  | [] => ([], true)
  | a :: as =>
    match runActE optE a with
    | (out, false) => (out, false)
    | (out, true) => let r := runActsE optE as; (out ++ r.1, r.2)

theorem renderRow_eq_acts (opt : FormatOption) (digits : Nat) (row : Row) :
    renderRow opt digits row = (rowActs digits row).flatMap (runAct opt) := by
  cases row with
  | gutter => simp [renderRow, rowActs, runAct]
  | text n pre hl post => cases hl <;> simp [renderRow, rowActs, runAct]
  | mark col m => simp [renderRow, rowActs, runAct]
  | dots => simp [renderRow, rowActs, runAct]

/-- All writes of a snippet. -/
def snippetActs (sn : Snippet) : List Act := sn.rows.flatMap (rowActs sn.digits)

theorem render_eq_acts (opt : FormatOption) (sn : Snippet) :
    render opt sn = (snippetActs sn).flatMap (runAct opt) := by
  unfold render snippetActs
  induction sn.rows with
  | nil => rfl
  | cons r rs ih => simp [renderRow_eq_acts, ih]

/-- `render` with fallible callbacks. -/
def renderE (optE : FormatOptionE) (sn : Snippet) : Wr := runActsE optE (snippetActs sn)

/-- `Span::display(f, opt)` with fallible callbacks: the panics of `display_span` come before
any write; then the text written and the `fmt::Result`. -/
def displaySpanE (optE : FormatOptionE) (width : Char → Nat) (sp : Span) : TR Wr :=
  match spanSnippet width sp with
  | .panic => .panic
  | .ok sn => .ok (renderE optE sn)

def displayPositionE (optE : FormatOptionE) (width : Char → Nat) (s : List Char) (p : Nat) : TR Wr :=
  match positionSnippet width s p with
  | .panic => .panic
  | .ok none => .ok ([], true)
  | .ok (some sn) => .ok (renderE optE sn)

/-- Nothing fails: everything is written, `Ok(())`. -/
theorem runActsE_ok (optE : FormatOptionE) (acts : List Act)
    (h : ∀ a ∈ acts, (runActE optE a).2 = true) :
    runActsE optE acts = (acts.flatMap (fun a => (runActE optE a).1), true) := by
  induction acts with
  | nil => rfl
  | cons a as ih =>
    have ha := h a (by simp)
    simp only [runActsE]
    cases hr : runActE optE a with
    | mk out ok =>
      rw [hr] at ha; simp only [] at ha; subst ha
      simp only []
      rw [ih (fun x hx => h x (by simp [hx]))]
      simp [hr]

/-- First failure: what the earlier writes wrote, then what the failing callback wrote, `Err`. -/
theorem runActsE_fail (optE : FormatOptionE) (pre : List Act) (a : Act) (post : List Act)
    (hpre : ∀ x ∈ pre, (runActE optE x).2 = true) (ha : (runActE optE a).2 = false) :
    runActsE optE (pre ++ a :: post) =
      (pre.flatMap (fun x => (runActE optE x).1) ++ (runActE optE a).1, false) := by
  induction pre with
  | nil =>
    simp only [List.nil_append, runActsE, List.flatMap_nil]
    cases hr : runActE optE a with
    | mk out ok => rw [hr] at ha; simp only [] at ha; subst ha; rfl
  | cons x xs ih =>
    have hx := hpre x (by simp)
    simp only [List.cons_append, runActsE]
    cases hr : runActE optE x with
    | mk out ok =>
      rw [hr] at hx; simp only [] at hx; subst hx
      simp only []
      rw [ih (fun y hy => hpre y (by simp [hy]))]
      simp [hr]

/-- Every run either succeeds everywhere or has a first failing write. -/
theorem acts_split (optE : FormatOptionE) (acts : List Act) :
    (∀ a ∈ acts, (runActE optE a).2 = true) ∨
    ∃ pre a post, acts = pre ++ a :: post ∧ (∀ x ∈ pre, (runActE optE x).2 = true) ∧
      (runActE optE a).2 = false := by
  induction acts with
  | nil => left; intro a h; cases h
  | cons a as ih =>
    by_cases ha : (runActE optE a).2 = true
    · rcases ih with h | ⟨pre, x, post, rfl, hp, hx⟩
      · left; intro y hy
        rcases List.mem_cons.mp hy with rfl | hy
        · exact ha
        · exact h y hy
      · right
        refine ⟨a :: pre, x, post, rfl, ?_, hx⟩
        intro y hy
        rcases List.mem_cons.mp hy with rfl | hy
        · exact ha
        · exact hp y hy
    · right
      exact ⟨[], a, as, rfl, (fun _ h => by cases h), by simpa using ha⟩

theorem runActE_texts (optE : FormatOptionE) (a : Act) :
    (runActE optE a).1 = runAct optE.texts a := by
  cases a <;> rfl

theorem runActE_toE (opt : FormatOption) (a : Act) : runActE opt.toE a = (runAct opt a, true) := by
  cases a <;> rfl

/-- When no callback fails the error-propagating renderer writes what `render` writes. -/
theorem renderE_of_neverFails (optE : FormatOptionE) (h : optE.NeverFails) (sn : Snippet) :
    renderE optE sn = (render optE.texts sn, true) := by
  unfold renderE
  rw [runActsE_ok optE _ (by
    intro a _
    cases a with
    | lit s => rfl
    | num s => exact h.2.2 s
    | span s => exact h.1 s
    | mark s => exact h.2.1 s)]
  rw [render_eq_acts]
  have : (fun a => (runActE optE a).1) = runAct optE.texts := funext (runActE_texts optE)
  rw [this]

theorem renderE_toE (opt : FormatOption) (sn : Snippet) : renderE opt.toE sn = (render opt sn, true) := by
  have := renderE_of_neverFails opt.toE ⟨fun _ => rfl, fun _ => rfl, fun _ => rfl⟩ sn
  exact this

end Text
end PestTyped
