/-
Lemmas.PestOptGrammar — from per-rule rewrites to whole grammars: facts about `PGrammar.mapBodies`
(`Lemmas/SpecDen.lean`) used to chain the seven passes of the mirrored optimizer (`Props/C20Opt.lean`), and
the invariance of `indexOf` under a change of bodies.
-/
import PestTyped.Lemmas.SpecDen
import PestTyped.Lemmas.PestOptLemmas
namespace PestTyped

theorem defines_mapBodies (F : PRule → PExpr) (g : PGrammar) (name : String) :
    (g.mapBodies F).defines name = g.defines name := by
  rw [PGrammar.defines_eq_find?, PGrammar.defines_eq_find?, PGrammar.find?_mapBodies]
  cases g.find? name <;> rfl

theorem find?_none_mapBodies (F : PRule → PExpr) (g : PGrammar) (name : String) (h : g.find? name = none) :
    (g.mapBodies F).find? name = none := by
  rw [PGrammar.find?_mapBodies, h]; rfl

theorem mapBodies_congr {F F' : PRule → PExpr} {g : PGrammar} (h : ∀ r ∈ g, F r = F' r) :
    g.mapBodies F = g.mapBodies F' := by
  unfold PGrammar.mapBodies
  apply List.map_congr_left
  intro r hr
  rw [h r hr]

/-- One stage: a rewrite of every body that is sound in every grammar with the same defined names. -/
theorem stage_equiv (g : PGrammar) (uni : Uni) (F : PRule → PExpr)
    (h : ∀ r ∈ g, ∀ G : PGrammar, (∀ nm, G.defines nm = g.defines nm) → (g.find? "ANY" = none → G.find? "ANY" = none) →
      ∀ na, SpecEquiv G G uni (bodyNa r.name r.kind na) r.expr (F r)) :
    ∀ na e, SpecEquiv g (g.mapBodies F) uni na e e :=
  spec_grammar_congr g uni F fun r hr na =>
    ⟨h r hr g (fun _ => rfl) id na, h r hr _ (defines_mapBodies F g) (find?_none_mapBodies F g "ANY") na⟩

theorem passRotate_eq (g : PGrammar) : passRotate g = g.mapBodies fun r => rotateExpr r.expr := rfl
theorem passSkip_eq (raw g : PGrammar) : passSkip raw g = g.mapBodies fun r => skipExpr raw r.kind r.expr := rfl
theorem passUnroll_eq (g : PGrammar) : passUnroll g = g.mapBodies fun r => unrollExpr r.expr := rfl
theorem passConcatenate_eq (g : PGrammar) : passConcatenate g = g.mapBodies fun r => concatenateExpr r.kind r.expr := rfl
theorem passFactor_eq (g : PGrammar) : passFactor g = g.mapBodies fun r => factorExpr r.kind r.expr := rfl
theorem passList_eq (g : PGrammar) : passList g = g.mapBodies fun r => listExpr r.expr := rfl
theorem passRestore_eq (g : PGrammar) : passRestore g = g.mapBodies fun r => restoreExpr g r.expr := rfl

theorem indexOf_go_names (name : String) : ∀ (l l' : List PRule) (k : Nat), l'.map (·.name) = l.map (·.name) →
    PGrammar.indexOf.go name l' k = PGrammar.indexOf.go name l k := by
  intro l
  induction l with
  | nil =>
    intro l' k h
    cases l' with
    | nil => rfl
    | cons _ _ => simp at h
  | cons r rs ih =>
    intro l' k h
    cases l' with
    | nil => simp at h
    | cons r' rs' =>
      simp only [List.map_cons, List.cons.injEq] at h
      simp only [PGrammar.indexOf.go, h.1]
      rw [ih rs' (k+1) h.2]

theorem indexOf_names {g g' : PGrammar} (h : g'.map (·.name) = g.map (·.name)) (name : String) :
    g'.indexOf name = g.indexOf name := indexOf_go_names name g g' 0 h

end PestTyped
