/-
Lemmas.SkipImplicitSim — the forward and backward simulations of C01 (Lemmas/SimMain.lean,
Lemmas/SimBack.lean) for the declared-kind semantics `U.spec` of Lemmas/SkipImplicitSpec.lean, with NO
hypothesis on the grammar: for every grammar the typed parser of `gen g` computes `U.spec g`
(`U.sim_all`, `U.back_all`).  Together with `specU_eq` (`U.spec = spec` under `ImplicitOk`) this gives C01
under the weak hypothesis (Props/C01Implicit.lean).

The text below is that of SimMain.lean / SimBack.lean, placed in the namespace `PestTyped.U`, where the
name `spec` resolves to `U.spec` (so do the derived `specSkipN`, `specThen`, `Sim`, `Back`, …, which are
re-declared here for `U.spec`); the only change is the rule-reference case of `sim_step` / `back_step`,
where the flag invariant now holds by definition.  Generated from those files; keep in step with them.
-/
import PestTyped.Lemmas.SkipImplicitSpec
import PestTyped.Lemmas.SimBack
set_option linter.unusedSimpArgs false
set_option linter.unusedVariables false
namespace PestTyped.U

/-! ## forward (SimMain) -/

/-- Forward simulation at Spec fuel `n`. -/
def Sim (g : PGrammar) (uni : Uni) (n : Nat) : Prop :=
  ∀ na e i S, spec g uni n na e i S ≠ .oof → ∀ inh sk trk, Flag.eval sk inh = na →
    EvRel (fun n' => parse (gen g) uni n' inh (genExpr g sk e) i ⟨S, trk⟩) (spec g uni n na e i S)

theorem Sim.fail {g : PGrammar} {uni : Uni} {n : Nat} (h : Sim g uni n) {na : Bool} {e : PExpr} {i : Inp}
    {S : List Sp} (hs : spec g uni n na e i S = .fail) (inh : Bool) (sk : Flag) (trk : Tracker)
    (hsk : Flag.eval sk inh = na) :
    ∃ n0 m, ∀ n', n0 ≤ n' → parse (gen g) uni n' inh (genExpr g sk e) i ⟨S, trk⟩ = .fail m :=
  (h na e i S (by rw [hs]; nofun) inh sk trk hsk).fail hs

theorem Sim.ok {g : PGrammar} {uni : Uni} {n : Nat} (h : Sim g uni n) {na : Bool} {e : PExpr} {i i1 : Inp}
    {S S1 : List Sp} (hs : spec g uni n na e i S = .ok i1 S1) (inh : Bool) (sk : Flag) (trk : Tracker)
    (hsk : Flag.eval sk inh = na) :
    ∃ n0 t v, ∀ n', n0 ≤ n' → parse (gen g) uni n' inh (genExpr g sk e) i ⟨S, trk⟩ = .ok i1 ⟨S1, t⟩ v :=
  (h na e i S (by rw [hs]; nofun) inh sk trk hsk).ok hs

/-! ### the implicit skip -/

/-- `AtomicRepeat<X>` against a Spec loop `x*`: a fresh tracker inside, the caller's restored. -/
theorem atomicRepeat_sim (G : NodeGrammar) (uni : Uni) (inh : Bool) (X : Node) (u : Nat → Inp → List Sp → SR)
    (hX : ∀ idx i S trk, u idx i S ≠ .oof → EvRel (fun n' => parse G uni n' inh X i ⟨S, trk⟩) (u idx i S))
    (b : Nat) (i : Inp) (S : List Sp) (trk : Tracker) (hne : specRepLoop u 0 none b 0 i S ≠ .oof) :
    EvRel (fun n' => parse G uni n' inh (.atomicRepeat X) i ⟨S, trk⟩) (specRepLoop u 0 none b 0 i S) := by
  have hloop := repLoop_sim (fun n' _ i m => parse G uni n' inh X i m) u 0 none hX b atomicBudget
    atomicBudget_unbounded 0 i S (Tracker.new i) ([] : List Val) rfl hne
  cases hs : specRepLoop u 0 none b 0 i S with
  | oof => exact absurd hs hne
  | fail =>
    obtain ⟨n1, m1, h1⟩ := hloop.fail hs
    refine EvRel.mk_fail (n1 + 1) { m1 with trk := trk } (fun n' hn => ?_)
    obtain ⟨k, rfl⟩ : ∃ k, n' = k + 1 := ⟨n' - 1, by omega⟩
    simp only [parse]
    rw [h1 k (by omega)]
  | ok i1 S1 =>
    obtain ⟨n1, t1, v1, h1⟩ := hloop.ok hs
    refine EvRel.mk_ok' (n1 + 1) i1 ⟨S1, trk⟩ (.mk .atomicRepeat v1) rfl (fun n' hn => ?_)
    obtain ⟨k, rfl⟩ : ∃ k, n' = k + 1 := ⟨n' - 1, by omega⟩
    simp only [parse]
    rw [h1 k (by omega)]

theorem specSkipUnit_W (call : String → Inp → List Sp → SR) (i : Inp) (S : List Sp) :
    specSkipUnit call true false i S = call "WHITESPACE" i S := by
  simp only [specSkipUnit, if_true]
  cases call "WHITESPACE" i S <;> simp

theorem specSkipUnit_C (call : String → Inp → List Sp → SR) (i : Inp) (S : List Sp) :
    specSkipUnit call false true i S = call "COMMENT" i S := by
  simp [specSkipUnit]

theorem atomicBudget_succ (n : Nat) : ∃ b, atomicBudget n = b + 1 :=
  ⟨atomicBudget n - 1, by have := atomicBudget_ge n; omega⟩

/-- The Spec's implicit skip at fuel `n`. -/
def specSkipN (g : PGrammar) (uni : Uni) (n : Nat) (i : Inp) (S : List Sp) : SR :=
  specSkip (spec g uni n false) (g.defines "WHITESPACE") (g.defines "COMMENT") (atomicBudget n) i S

/-- `Skipped` (the four shapes of `genSkipped`) against the Spec's `(WHITESPACE | COMMENT)*`. -/
theorem skip_sim {g : PGrammar} {uni : Uni} {n : Nat} (hS : Sim g uni n) (i : Inp) (S : List Sp)
    (trk : Tracker) (hne : specSkipN g uni n i S ≠ .oof) :
    EvRel (fun n' => parse (gen g) uni n' false (gen g).skipped i ⟨S, trk⟩) (specSkipN g uni n i S) := by
  show EvRel (fun n' => parse (gen g) uni n' false (genSkipped g) i ⟨S, trk⟩) _
  unfold specSkipN specSkip at hne ⊢
  cases hw : g.indexOf "WHITESPACE" with
  | none =>
    cases hc : g.indexOf "COMMENT" with
    | none =>
      obtain ⟨b, hb⟩ := atomicBudget_succ n
      simp only [genSkipped, PGrammar.defines, hw, hc, Option.isSome, hb, specRepLoop, specSkipUnit]
      refine EvRel.leaf1 (fun k => by simp only [parse]) ?_
      simp only [parse]
      exact ⟨_, _, rfl, rfl⟩
    | some c =>
      simp only [genSkipped, PGrammar.defines, hw, hc, Option.isSome, specSkipUnit_C] at hne ⊢
      refine atomicRepeat_sim (gen g) uni false _ _ ?_ _ i S trk hne
      intro idx i S trk hne
      have := hS false (.ident "COMMENT") i S hne false .zero trk rfl
      simp only [genExpr, hc] at this
      exact this
  | some w =>
    cases hc : g.indexOf "COMMENT" with
    | none =>
      simp only [genSkipped, PGrammar.defines, hw, hc, Option.isSome, specSkipUnit_W] at hne ⊢
      refine atomicRepeat_sim (gen g) uni false _ _ ?_ _ i S trk hne
      intro idx i S trk hne
      have := hS false (.ident "WHITESPACE") i S hne false .zero trk rfl
      simp only [genExpr, hw] at this
      exact this
    | some c =>
      simp only [genSkipped, PGrammar.defines, hw, hc, Option.isSome] at hne ⊢
      refine atomicRepeat_sim (gen g) uni false _ _ ?_ _ i S trk hne
      intro idx i S trk hne
      simp only [specSkipUnit, if_true] at hne ⊢
      cases hsW : spec g uni n false (.ident "WHITESPACE") i S with
      | oof => rw [hsW] at hne; exact absurd rfl hne
      | ok i1 S1 =>
        obtain ⟨n1, t1, v1, h1⟩ := hS.ok hsW false .zero trk rfl
        simp only [genExpr, hw] at h1
        refine EvRel.mk_ok' (n1 + 1) i1 ⟨S1, t1⟩ (.mk (.choice 2 0) [v1]) rfl (fun n' hn => ?_)
        obtain ⟨k, rfl⟩ : ∃ k, n' = k + 1 := ⟨n' - 1, by omega⟩
        simp only [parse, choiceLoop]
        rw [h1 k (by omega)]
        simp only [restoreOnNone, List.length]
      | fail =>
        obtain ⟨n1, m1, h1⟩ := hS.fail hsW false .zero trk rfl
        simp only [genExpr, hw] at h1
        rw [hsW] at hne
        simp only [] at hne ⊢
        cases hsC : spec g uni n false (.ident "COMMENT") i S with
        | oof => rw [hsC] at hne; exact absurd rfl hne
        | ok i2 S2 =>
          obtain ⟨n2, t2, v2, h2⟩ := hS.ok hsC false .zero m1.trk rfl
          simp only [genExpr, hc] at h2
          refine EvRel.mk_ok' (n1 + n2 + 1) i2 ⟨S2, t2⟩ (.mk (.choice 2 1) [v2]) rfl (fun n' hn => ?_)
          obtain ⟨k, rfl⟩ : ∃ k, n' = k + 1 := ⟨n' - 1, by omega⟩
          simp only [parse, choiceLoop]
          rw [h1 k (by omega)]
          simp only [restoreOnNone]
          rw [h2 k (by omega)]
          simp only [List.length]
        | fail =>
          obtain ⟨n2, m2, h2⟩ := hS.fail hsC false .zero m1.trk rfl
          simp only [genExpr, hc] at h2
          refine EvRel.mk_fail (n1 + n2 + 1) { m2 with stk := S } (fun n' hn => ?_)
          obtain ⟨k, rfl⟩ : ∃ k, n' = k + 1 := ⟨n' - 1, by omega⟩
          simp only [parse, choiceLoop]
          rw [h1 k (by omega)]
          simp only [restoreOnNone]
          rw [h2 k (by omega)]

/-- The Spec's skip between two elements: runs when non-atomic, nothing otherwise. -/
def specSkipIf (g : PGrammar) (uni : Uni) (n : Nat) (na : Bool) (i : Inp) (S : List Sp) : SR :=
  if na then specSkipN g uni n i S else .ok i S

/-- The `SKIP` runs of the skip type (`SKIP` = 0 or 1) against the Spec's conditional skip. -/
theorem skipLoop_sim {g : PGrammar} {uni : Uni} {n : Nat} (hS : Sim g uni n) {inh : Bool} {sk : Flag}
    {na : Bool} (hsk : Flag.eval sk inh = na) (i : Inp) (S : List Sp) (trk : Tracker)
    (hne : specSkipIf g uni n na i S ≠ .oof) :
    EvRel (fun n' => skipLoop (parse (gen g) uni n' false (gen g).skipped) (skipCount sk inh) i ⟨S, trk⟩ [])
      (specSkipIf g uni n na i S) := by
  cases na with
  | false =>
    simp only [specSkipIf, skipCount, hsk]
    exact EvRel.mk_ok' 0 i ⟨S, trk⟩ [] rfl (fun n' _ => by simp [skipLoop])
  | true =>
    simp only [specSkipIf, skipCount, hsk, if_true] at hne ⊢
    cases hs : specSkipN g uni n i S with
    | oof => exact absurd hs hne
    | fail =>
      obtain ⟨n1, m1, h1⟩ := (skip_sim hS i S trk hne).fail hs
      refine EvRel.mk_fail n1 m1 (fun n' hn => ?_)
      simp only [skipLoop]
      rw [h1 n' hn]
    | ok i1 S1 =>
      obtain ⟨n1, t1, v1, h1⟩ := (skip_sim hS i S trk hne).ok hs
      refine EvRel.mk_ok' n1 i1 ⟨S1, t1⟩ [v1] rfl (fun n' hn => ?_)
      simp only [skipLoop]
      rw [h1 n' hn]
      simp

/-- The Spec's "skip (when non-atomic), then `b`". -/
def specThen (g : PGrammar) (uni : Uni) (m : Nat) (na : Bool) (b : PExpr) (i : Inp) (S : List Sp) : SR :=
  match specSkipIf g uni m na i S with
  | .oof => .oof
  | .fail => .fail
  | .ok i2 S2 => spec g uni m na b i2 S2

/-- Typed "`SKIP` skips, then the element" against `specThen`: the three definite outcomes as
rewriting facts valid from some fuel on. -/
theorem skipThen_sim {g : PGrammar} {uni : Uni} {m : Nat} (hS : Sim g uni m) {inh : Bool} {sk : Flag}
    {na : Bool} (hsk : Flag.eval sk inh = na) (b : PExpr) (i : Inp) (S : List Sp) (trk : Tracker)
    (hne : specThen g uni m na b i S ≠ .oof) :
    ∃ n0,
      (specThen g uni m na b i S = .fail ∧ ∃ mf, ∀ n', n0 ≤ n' →
        skipLoop (parse (gen g) uni n' false (gen g).skipped) (skipCount sk inh) i ⟨S, trk⟩ [] = .fail mf) ∨
      (specThen g uni m na b i S = .fail ∧ ∃ i2 m2 sks mf, ∀ n', n0 ≤ n' →
        skipLoop (parse (gen g) uni n' false (gen g).skipped) (skipCount sk inh) i ⟨S, trk⟩ [] = .ok i2 m2 sks ∧
        parse (gen g) uni n' inh (genExpr g sk b) i2 m2 = .fail mf) ∨
      (∃ i3 S3 t3 i2 m2 sks v, specThen g uni m na b i S = .ok i3 S3 ∧ ∀ n', n0 ≤ n' →
        skipLoop (parse (gen g) uni n' false (gen g).skipped) (skipCount sk inh) i ⟨S, trk⟩ [] = .ok i2 m2 sks ∧
        parse (gen g) uni n' inh (genExpr g sk b) i2 m2 = .ok i3 ⟨S3, t3⟩ v) := by
  unfold specThen at hne ⊢
  cases hs : specSkipIf g uni m na i S with
  | oof => rw [hs] at hne; exact absurd rfl hne
  | fail =>
    obtain ⟨n1, m1, h1⟩ := (skipLoop_sim hS hsk i S trk (by rw [hs]; nofun)).fail hs
    exact ⟨n1, Or.inl ⟨rfl, m1, h1⟩⟩
  | ok i2 S2 =>
    obtain ⟨n1, t2, sks, h1⟩ := (skipLoop_sim hS hsk i S trk (by rw [hs]; nofun)).ok hs
    rw [hs] at hne
    simp only [] at hne ⊢
    cases hb : spec g uni m na b i2 S2 with
    | oof => exact absurd hb hne
    | fail =>
      obtain ⟨n2, mf, h2⟩ := hS.fail hb inh sk t2 hsk
      exact ⟨n1 + n2, Or.inr (Or.inl ⟨rfl, i2, ⟨S2, t2⟩, sks, mf, fun n' hn =>
        ⟨h1 n' (by omega), h2 n' (by omega)⟩⟩)⟩
    | ok i3 S3 =>
      obtain ⟨n2, t3, v, h2⟩ := hS.ok hb inh sk t2 hsk
      exact ⟨n1 + n2, Or.inr (Or.inr ⟨i3, S3, t3, i2, ⟨S2, t2⟩, sks, v, rfl, fun n' hn =>
        ⟨h1 n' (by omega), h2 n' (by omega)⟩⟩)⟩

/-! ### sequences -/

theorem spec_seq_eq (g : PGrammar) (uni : Uni) (n : Nat) (na : Bool) (a b : PExpr) (i : Inp) (S : List Sp) :
    spec g uni (n+1) na (.seq a b) i S =
      match spec g uni n na a i S with
      | .oof => .oof
      | .fail => .fail
      | .ok i1 S1 => specThen g uni n na b i1 S1 := by
  simp only [spec]
  cases spec g uni n na a i S with
  | oof => rfl
  | fail => rfl
  | ok i1 S1 =>
    cases na with
    | false => simp [specThen, specSkipIf]
    | true => simp only [specThen, specSkipIf, specSkipN, if_true]; rfl

theorem genSeqSpine_cases (g : PGrammar) (sk : Flag) (b : PExpr) :
    (∃ b1 b2, b = .seq b1 b2 ∧ genSeqSpine g sk b = genExpr g sk b1 :: genSeqSpine g sk b2) ∨
    genSeqSpine g sk b = [genExpr g sk b] := by
  cases b <;> first
    | exact Or.inl ⟨_, _, rfl, by simp only [genSeqSpine]⟩
    | exact Or.inr (by simp only [genSeqSpine])

theorem genChoiceSpine_cases (g : PGrammar) (sk : Flag) (b : PExpr) :
    (∃ b1 b2, b = .choice b1 b2 ∧ genChoiceSpine g sk b = genExpr g sk b1 :: genChoiceSpine g sk b2) ∨
    genChoiceSpine g sk b = [genExpr g sk b] := by
  cases b <;> first
    | exact Or.inl ⟨_, _, rfl, by simp only [genChoiceSpine]⟩
    | exact Or.inr (by simp only [genChoiceSpine])

/-- The flattened right spine of a sequence, run by `seqLoop`, against the Spec's right-nested
binary evaluation (skip, element, rest). -/
theorem seqSpine_sim {g : PGrammar} {uni : Uni} {n : Nat} (hS : ∀ m, m ≤ n → Sim g uni m) {inh : Bool}
    {sk : Flag} {na : Bool} (hsk : Flag.eval sk inh = na) :
    ∀ m, m ≤ n → ∀ b i S trk acc, specThen g uni m na b i S ≠ .oof →
      EvRel (fun n' => seqLoop (parse (gen g) uni n' inh)
            (fun i m => skipLoop (parse (gen g) uni n' false (gen g).skipped) (skipCount sk inh) i m [])
            mkSkipped (genSeqSpine g sk b) i ⟨S, trk⟩ acc)
        (specThen g uni m na b i S) := by
  intro m
  induction m with
  | zero =>
    intro hm b i S trk acc hne
    unfold specThen at hne ⊢
    cases hs : specSkipIf g uni 0 na i S with
    | oof => rw [hs] at hne; exact absurd rfl hne
    | ok i2 S2 => rw [hs] at hne; exact absurd rfl hne
    | fail =>
      obtain ⟨n1, m1, h1⟩ := (skipLoop_sim (hS _ hm) hsk i S trk (by rw [hs]; nofun)).fail hs
      refine EvRel.mk_fail n1 m1 (fun n' hn => ?_)
      obtain ⟨x, xs, hx⟩ : ∃ x xs, genSeqSpine g sk b = x :: xs := by
        rcases genSeqSpine_cases g sk b with ⟨b1, b2, _, h⟩ | h <;> exact ⟨_, _, h⟩
      rw [hx]
      simp only [seqLoop]
      rw [h1 n' hn]
  | succ m ih =>
    intro hm b i S trk acc hne
    rcases genSeqSpine_cases g sk b with ⟨b1, b2, rfl, hsp⟩ | hsp
    · -- `b1 ~ b2`: skip, `b1`, then the rest of the spine
      rw [hsp]
      unfold specThen at hne ⊢
      cases hs : specSkipIf g uni (m+1) na i S with
      | oof => rw [hs] at hne; exact absurd rfl hne
      | fail =>
        obtain ⟨n1, m1, h1⟩ := (skipLoop_sim (hS _ hm) hsk i S trk (by rw [hs]; nofun)).fail hs
        refine EvRel.mk_fail n1 m1 (fun n' hn => ?_)
        simp only [seqLoop]
        rw [h1 n' hn]
      | ok i2 S2 =>
        obtain ⟨n1, t2, sks, h1⟩ := (skipLoop_sim (hS _ hm) hsk i S trk (by rw [hs]; nofun)).ok hs
        rw [hs] at hne
        simp only [] at hne ⊢
        rw [spec_seq_eq] at hne ⊢
        cases hb1 : spec g uni m na b1 i2 S2 with
        | oof => rw [hb1] at hne; exact absurd rfl hne
        | fail =>
          obtain ⟨n2, mf, h2⟩ := (hS m (by omega)).fail hb1 inh sk t2 hsk
          refine EvRel.mk_fail (n1 + n2) mf (fun n' hn => ?_)
          simp only [seqLoop]
          rw [h1 n' (by omega)]
          simp only []
          rw [h2 n' (by omega)]
        | ok i3 S3 =>
          obtain ⟨n2, t3, v, h2⟩ := (hS m (by omega)).ok hb1 inh sk t2 hsk
          rw [hb1] at hne
          simp only [] at hne ⊢
          obtain ⟨n3, r3, hr3, h3⟩ := ih (by omega) b2 i3 S3 t3 (mkSkipped sks v :: acc) hne
          dsimp only at h3
          refine ⟨n1 + n2 + n3, r3, hr3, fun n' hn => ?_⟩
          simp only [seqLoop]
          rw [h1 n' (by omega)]
          simp only []
          rw [h2 n' (by omega)]
          exact h3 n' (by omega)
    · -- last element of the spine
      rw [hsp]
      obtain ⟨n0, h⟩ := skipThen_sim (hS _ hm) hsk b i S trk hne
      rcases h with ⟨hs, mf, h⟩ | ⟨hs, i2, m2, sks, mf, h⟩ | ⟨i3, S3, t3, i2, m2, sks, v, hs, h⟩
      · rw [hs]
        refine EvRel.mk_fail n0 mf (fun n' hn => ?_)
        simp only [seqLoop]
        rw [h n' hn]
      · rw [hs]
        refine EvRel.mk_fail n0 mf (fun n' hn => ?_)
        simp only [seqLoop]
        rw [(h n' hn).1]
        simp only []
        rw [(h n' hn).2]
      · rw [hs]
        refine EvRel.mk_ok' n0 i3 ⟨S3, t3⟩ (mkSkipped sks v :: acc).reverse rfl (fun n' hn => ?_)
        simp only [seqLoop]
        rw [(h n' hn).1]
        simp only []
        rw [(h n' hn).2]

/-! ### choices -/

/-- The flattened right spine of a choice, run by `choiceLoop` (each alternative under
`restore_on_none`), against the Spec's right-nested ordered choice on an immutable stack. -/
theorem choiceSpine_sim {g : PGrammar} {uni : Uni} {n : Nat} (hS : ∀ m, m ≤ n → Sim g uni m) {inh : Bool}
    {sk : Flag} {na : Bool} (hsk : Flag.eval sk inh = na) :
    ∀ m, m ≤ n → ∀ b k i S trk, spec g uni m na b i S ≠ .oof →
      EvRel (fun n' => choiceLoop (parse (gen g) uni n' inh) (genChoiceSpine g sk b) k i ⟨S, trk⟩)
        (spec g uni m na b i S) := by
  intro m
  induction m with
  | zero => intro hm b k i S trk hne; exact absurd rfl hne
  | succ m ih =>
    intro hm b k i S trk hne
    rcases genChoiceSpine_cases g sk b with ⟨b1, b2, rfl, hsp⟩ | hsp
    · rw [hsp]
      simp only [spec] at hne ⊢
      cases hb1 : spec g uni m na b1 i S with
      | oof => rw [hb1] at hne; exact absurd rfl hne
      | ok i1 S1 =>
        obtain ⟨n1, t1, v, h1⟩ := (hS m (by omega)).ok hb1 inh sk trk hsk
        refine EvRel.mk_ok' n1 i1 ⟨S1, t1⟩ (k, v) rfl (fun n' hn => ?_)
        simp only [choiceLoop]
        rw [h1 n' hn]
        simp only [restoreOnNone]
      | fail =>
        obtain ⟨n1, mf, h1⟩ := (hS m (by omega)).fail hb1 inh sk trk hsk
        rw [hb1] at hne
        simp only [] at hne ⊢
        obtain ⟨n2, r2, hr2, h2⟩ := ih (by omega) b2 (k+1) i S mf.trk hne
        dsimp only at h2
        refine ⟨n1 + n2, r2, hr2, fun n' hn => ?_⟩
        simp only [choiceLoop]
        rw [h1 n' (by omega)]
        simp only [restoreOnNone]
        exact h2 n' (by omega)
    · rw [hsp]
      cases hb : spec g uni (m+1) na b i S with
      | oof => exact absurd hb hne
      | ok i1 S1 =>
        obtain ⟨n1, t1, v, h1⟩ := (hS _ hm).ok hb inh sk trk hsk
        refine EvRel.mk_ok' n1 i1 ⟨S1, t1⟩ (k, v) rfl (fun n' hn => ?_)
        simp only [choiceLoop]
        rw [h1 n' hn]
        simp only [restoreOnNone]
      | fail =>
        obtain ⟨n1, mf, h1⟩ := (hS _ hm).fail hb inh sk trk hsk
        refine EvRel.mk_fail n1 { mf with stk := S } (fun n' hn => ?_)
        simp only [choiceLoop]
        rw [h1 n' hn]
        simp only [restoreOnNone]

/-! ### repetitions -/

theorem specRepUnit_eq (g : PGrammar) (uni : Uni) (n : Nat) (na : Bool) (e : PExpr) (idx : Nat) (i : Inp)
    (S : List Sp) :
    (if idx = 0 ∨ (!na) = true then spec g uni n na e i S
     else
      match specSkip (spec g uni n false) (g.defines "WHITESPACE") (g.defines "COMMENT") (atomicBudget n) i S with
      | .oof => .oof
      | .fail => .fail
      | .ok i1 S1 => spec g uni n na e i1 S1) =
    if idx = 0 then spec g uni n na e i S else specThen g uni n na e i S := by
  by_cases h0 : idx = 0
  · simp [h0]
  · cases na with
    | false => simp [h0, specThen, specSkipIf]
    | true => simp [h0, specThen, specSkipIf, specSkipN]

/-- `RepeatMin` / `RepeatMinMax` against the Spec's `e (skip e)*` with bounds. -/
theorem rep_sim {g : PGrammar} {uni : Uni} {n : Nat} (hS : Sim g uni n) {inh : Bool} {sk : Flag} {na : Bool}
    (hsk : Flag.eval sk inh = na) (e : PExpr) (min : Nat) (mx : Option Nat) (i : Inp) (S : List Sp)
    (trk : Tracker)
    (hne : specRepWith (spec g uni n) n (g.defines "WHITESPACE") (g.defines "COMMENT") na e min mx i S ≠ .oof) :
    EvRel (fun n' => parse (gen g) uni n' inh (.rep sk min mx (genExpr g sk e)) i ⟨S, trk⟩)
      (specRepWith (spec g uni n) n (g.defines "WHITESPACE") (g.defines "COMMENT") na e min mx i S) := by
  have heq : specRepWith (spec g uni n) n (g.defines "WHITESPACE") (g.defines "COMMENT") na e min mx i S =
      specRepLoop (fun idx i S => if idx = 0 then spec g uni n na e i S else specThen g uni n na e i S)
        min mx n 0 i S := by
    unfold specRepWith
    congr 1
    funext idx i S
    exact specRepUnit_eq g uni n na e idx i S
  rw [heq] at hne ⊢
  have hU : ∀ idx i S trk,
      (if idx = 0 then spec g uni n na e i S else specThen g uni n na e i S) ≠ .oof →
      EvRel (fun n' => repUnitP (parse (gen g) uni n' false (gen g).skipped) (parse (gen g) uni n' inh (genExpr g sk e))
            (defaultSkipVal (gen g)) (skipCount sk inh) idx i ⟨S, trk⟩)
        (if idx = 0 then spec g uni n na e i S else specThen g uni n na e i S) := by
    intro idx i S trk hne
    by_cases h0 : idx = 0
    · simp only [h0, if_true] at hne ⊢
      cases hb : spec g uni n na e i S with
      | oof => exact absurd hb hne
      | fail =>
        obtain ⟨n1, mf, h1⟩ := hS.fail hb inh sk trk hsk
        refine EvRel.mk_fail n1 mf (fun n' hn => ?_)
        simp only [repUnitP, if_true]
        rw [h1 n' hn]
      | ok i1 S1 =>
        obtain ⟨n1, t1, v, h1⟩ := hS.ok hb inh sk trk hsk
        refine EvRel.mk_ok' n1 i1 ⟨S1, t1⟩
          (mkSkipped (List.replicate (skipCount sk inh) (defaultSkipVal (gen g))) v) rfl (fun n' hn => ?_)
        simp only [repUnitP, if_true]
        rw [h1 n' hn]
    · simp only [h0, if_false] at hne ⊢
      obtain ⟨n0, h⟩ := skipThen_sim hS hsk e i S trk hne
      rcases h with ⟨hs, mf, h⟩ | ⟨hs, i2, m2, sks, mf, h⟩ | ⟨i3, S3, t3, i2, m2, sks, v, hs, h⟩
      · rw [hs]
        refine EvRel.mk_fail n0 mf (fun n' hn => ?_)
        simp only [repUnitP, h0, if_false]
        rw [h n' hn]
      · rw [hs]
        refine EvRel.mk_fail n0 mf (fun n' hn => ?_)
        simp only [repUnitP, h0, if_false]
        rw [(h n' hn).1]
        simp only []
        rw [(h n' hn).2]
      · rw [hs]
        refine EvRel.mk_ok' n0 i3 ⟨S3, t3⟩ (mkSkipped sks v) rfl (fun n' hn => ?_)
        simp only [repUnitP, h0, if_false]
        rw [(h n' hn).1]
        simp only []
        rw [(h n' hn).2]
  have hloop := repLoop_sim
    (fun n' => repUnitP (parse (gen g) uni n' false (gen g).skipped) (parse (gen g) uni n' inh (genExpr g sk e))
      (defaultSkipVal (gen g)) (skipCount sk inh))
    (fun idx i S => if idx = 0 then spec g uni n na e i S else specThen g uni n na e i S)
    min mx hU n (fun n => n) id_unbounded 0 i S trk ([] : List Val) rfl hne
  cases hs : specRepLoop (fun idx i S => if idx = 0 then spec g uni n na e i S else specThen g uni n na e i S)
      min mx n 0 i S with
  | oof => exact absurd hs hne
  | fail =>
    obtain ⟨n1, m1, h1⟩ := hloop.fail hs
    refine EvRel.mk_fail (n1 + 1) m1 (fun n' hn => ?_)
    obtain ⟨k, rfl⟩ : ∃ k, n' = k + 1 := ⟨n' - 1, by omega⟩
    simp only [parse]
    rw [h1 k (by omega)]
  | ok i1 S1 =>
    obtain ⟨n1, t1, vs, h1⟩ := hloop.ok hs
    refine EvRel.mk_ok' (n1 + 1) i1 ⟨S1, t1⟩ (.mk (.rep min mx) vs) rfl (fun n' hn => ?_)
    obtain ⟨k, rfl⟩ : ∃ k, n' = k + 1 := ⟨n' - 1, by omega⟩
    simp only [parse]
    rw [h1 k (by omega)]

/-! ### rule references -/

/-- A reference to a defined rule: the wrapper (`rule!`: tracker frame, emission) only touches the
tracker; atomic rules (`emit = span`) run their body through the check path. -/
theorem ref_sim (G : NodeGrammar) (uni : Uni) (r : RuleId) (f : Flag) (d : RuleDef) (hd : G.rule? r = some d)
    (inh : Bool) (i : Inp) (S : List Sp) (trk : Tracker) (rs : SR) (hrs : rs ≠ .oof)
    (hbody : ∀ trk', EvRel (fun n' => parse G uni n' (f.eval inh) d.body i ⟨S, trk'⟩) rs) :
    EvRel (fun n' => parse G uni n' inh (.ref r f) i ⟨S, trk⟩) rs := by
  cases rs with
  | oof => exact absurd rfl hrs
  | fail =>
    cases hemit : d.emit with
    | expression =>
      obtain ⟨n1, m1, h1⟩ := (hbody trk).fail rfl
      refine EvRel.mk_fail (n1 + 1) m1 (fun n' hn => ?_)
      obtain ⟨k, rfl⟩ : ∃ k, n' = k + 1 := ⟨n' - 1, by omega⟩
      simp only [parse, hd, hemit]
      rw [h1 k (by omega)]
    | span =>
      obtain ⟨n1, m1, h1⟩ := (hbody (trk.enter r i.pos)).fail rfl
      refine EvRel.mk_fail (n1 + 1) { m1 with trk := m1.trk.leave r i.pos false } (fun n' hn => ?_)
      obtain ⟨k, rfl⟩ : ∃ k, n' = k + 1 := ⟨n' - 1, by omega⟩
      simp only [parse, hd, hemit]
      rw [check_eq_parse_forget, h1 k (by omega)]
      rfl
    | both =>
      obtain ⟨n1, m1, h1⟩ := (hbody (trk.enter r i.pos)).fail rfl
      refine EvRel.mk_fail (n1 + 1) { m1 with trk := m1.trk.leave r i.pos false } (fun n' hn => ?_)
      obtain ⟨k, rfl⟩ : ∃ k, n' = k + 1 := ⟨n' - 1, by omega⟩
      simp only [parse, hd, hemit]
      rw [h1 k (by omega)]
  | ok i1 S1 =>
    cases hemit : d.emit with
    | expression =>
      obtain ⟨n1, t1, v1, h1⟩ := (hbody trk).ok rfl
      refine EvRel.mk_ok' (n1 + 1) i1 ⟨S1, t1⟩ (.mk (.rule r .expression d.boxed i.pos i1.pos) [v1]) rfl
        (fun n' hn => ?_)
      obtain ⟨k, rfl⟩ : ∃ k, n' = k + 1 := ⟨n' - 1, by omega⟩
      simp only [parse, hd, hemit]
      rw [h1 k (by omega)]
    | span =>
      obtain ⟨n1, t1, v1, h1⟩ := (hbody (trk.enter r i.pos)).ok rfl
      refine EvRel.mk_ok' (n1 + 1) i1 ⟨S1, t1.leave r i.pos true⟩ (.mk (.rule r .span d.boxed i.pos i1.pos) []) rfl
        (fun n' hn => ?_)
      obtain ⟨k, rfl⟩ : ∃ k, n' = k + 1 := ⟨n' - 1, by omega⟩
      simp only [parse, hd, hemit]
      rw [check_eq_parse_forget, h1 k (by omega)]
      rfl
    | both =>
      obtain ⟨n1, t1, v1, h1⟩ := (hbody (trk.enter r i.pos)).ok rfl
      refine EvRel.mk_ok' (n1 + 1) i1 ⟨S1, t1.leave r i.pos true⟩ (.mk (.rule r .both d.boxed i.pos i1.pos) [v1]) rfl
        (fun n' hn => ?_)
      obtain ⟨k, rfl⟩ : ∃ k, n' = k + 1 := ⟨n' - 1, by omega⟩
      simp only [parse, hd, hemit]
      rw [h1 k (by omega)]

/-! ### the main induction -/

theorem sim_step {g : PGrammar} {uni : Uni} (n : Nat)
    (hS : ∀ m, m ≤ n → Sim g uni m) : Sim g uni (n+1) := by
  intro na e i S hne inh sk trk hsk
  have hSn := hS n (Nat.le_refl _)
  cases e with
  | str s =>
    simp only [spec, genExpr]
    refine EvRel.leaf1 (fun k => by simp only [parse]) ?_
    simp only [parse]
    cases i.matchString s with
    | none => exact ⟨_, rfl⟩
    | some i' => exact ⟨_, _, rfl, rfl⟩
  | insens s =>
    simp only [spec, genExpr]
    refine EvRel.leaf1 (fun k => by simp only [parse]) ?_
    simp only [parse]
    cases i.matchInsens s with
    | none => exact ⟨_, rfl⟩
    | some i' => exact ⟨_, _, rfl, rfl⟩
  | range lo hi =>
    simp only [spec, genExpr]
    refine EvRel.leaf1 (fun k => by simp only [parse]) ?_
    simp only [parse]
    cases i.matchRange lo hi with
    | none => exact ⟨_, rfl⟩
    | some p => exact ⟨_, _, rfl, rfl⟩
  | ident name =>
    simp only [spec] at hne ⊢
    cases hidx : g.indexOf name with
    | none =>
      simp only [find?_of_indexOf_none hidx, genExpr, hidx]
      exact builtin_sim g uni name inh i S trk
    | some k =>
      obtain ⟨r, hr, hrn⟩ := indexOf_spec hidx
      simp only [find?_of_indexOf hidx, hr] at hne ⊢
      simp only [genExpr, hidx]
      have hrule : (gen g).rule? (k+1) = some (genRule g r) := by rw [gen_rule_succ, hr]; rfl
      refine ref_sim (gen g) uni (k+1) sk (genRule g r) hrule inh i S trk _ hne (fun trk' => ?_)
      rw [hsk]
      exact hSn _ _ _ _ hne na (atomFlag (kindAtomicity r.kind)) trk' rfl
  | peekSlice a b =>
    simp only [spec, genExpr]
    refine EvRel.leaf1 (fun k => by simp only [parse]) ?_
    simp only [parse]
    cases constrainIdxs a b S.length with
    | none => exact ⟨_, rfl⟩
    | some p =>
      obtain ⟨lo, hi⟩ := p
      simp only []
      by_cases hle : hi ≤ lo
      · simp only [hle, if_true]; exact ⟨_, _, rfl, rfl⟩
      · simp only [hle, if_false]
        cases peekSpans (stackSlice S lo hi) i with
        | none => exact ⟨_, rfl⟩
        | some i' => exact ⟨_, _, rfl, rfl⟩
  | posPred e =>
    simp only [spec] at hne ⊢
    simp only [genExpr]
    cases hs : spec g uni n na e i S with
    | oof => rw [hs] at hne; exact absurd rfl hne
    | fail =>
      obtain ⟨n1, m1, h1⟩ := hSn.fail hs inh sk { trk with positive := true } hsk
      refine EvRel.mk_fail (n1 + 1) ⟨S, { m1.trk with positive := trk.positive }⟩ (fun n' hn => ?_)
      obtain ⟨k, rfl⟩ : ∃ k, n' = k + 1 := ⟨n' - 1, by omega⟩
      simp only [parse]
      rw [h1 k (by omega)]
    | ok i1 S1 =>
      obtain ⟨n1, t1, v1, h1⟩ := hSn.ok hs inh sk { trk with positive := true } hsk
      refine EvRel.mk_ok' (n1 + 1) i ⟨S, { t1 with positive := trk.positive }⟩ (.mk .pos [v1]) rfl (fun n' hn => ?_)
      obtain ⟨k, rfl⟩ : ∃ k, n' = k + 1 := ⟨n' - 1, by omega⟩
      simp only [parse]
      rw [h1 k (by omega)]
  | negPred e =>
    simp only [spec] at hne ⊢
    simp only [genExpr]
    cases hs : spec g uni n na e i S with
    | oof => rw [hs] at hne; exact absurd rfl hne
    | fail =>
      obtain ⟨n1, m1, h1⟩ := hSn.fail hs inh sk { trk with positive := false } hsk
      refine EvRel.mk_ok' (n1 + 1) i ⟨S, { m1.trk with positive := trk.positive }⟩ (.leaf .neg) rfl (fun n' hn => ?_)
      obtain ⟨k, rfl⟩ : ∃ k, n' = k + 1 := ⟨n' - 1, by omega⟩
      simp only [parse]
      rw [check_eq_parse_forget, h1 k (by omega)]
      rfl
    | ok i1 S1 =>
      obtain ⟨n1, t1, v1, h1⟩ := hSn.ok hs inh sk { trk with positive := false } hsk
      refine EvRel.mk_fail (n1 + 1) ⟨S, { t1 with positive := trk.positive }⟩ (fun n' hn => ?_)
      obtain ⟨k, rfl⟩ : ∃ k, n' = k + 1 := ⟨n' - 1, by omega⟩
      simp only [parse]
      rw [check_eq_parse_forget, h1 k (by omega)]
      rfl
  | seq a b =>
    rw [spec_seq_eq] at hne ⊢
    simp only [genExpr]
    cases hs : spec g uni n na a i S with
    | oof => rw [hs] at hne; exact absurd rfl hne
    | fail =>
      obtain ⟨n1, m1, h1⟩ := hSn.fail hs inh sk trk hsk
      refine EvRel.mk_fail (n1 + 1) m1 (fun n' hn => ?_)
      obtain ⟨k, rfl⟩ : ∃ k, n' = k + 1 := ⟨n' - 1, by omega⟩
      simp only [parse]
      rw [h1 k (by omega)]
    | ok i1 S1 =>
      obtain ⟨n1, t1, v1, h1⟩ := hSn.ok hs inh sk trk hsk
      rw [hs] at hne
      simp only [] at hne ⊢
      have hloop := seqSpine_sim hS hsk n (Nat.le_refl _) b i1 S1 t1 [] hne
      cases hs2 : specThen g uni n na b i1 S1 with
      | oof => exact absurd hs2 hne
      | fail =>
        obtain ⟨n2, m2, h2⟩ := hloop.fail hs2
        refine EvRel.mk_fail (n1 + n2 + 1) m2 (fun n' hn => ?_)
        obtain ⟨k, rfl⟩ : ∃ k, n' = k + 1 := ⟨n' - 1, by omega⟩
        simp only [parse]
        rw [h1 k (by omega)]
        simp only []
        rw [h2 k (by omega)]
      | ok i2 S2 =>
        obtain ⟨n2, t2, vs, h2⟩ := hloop.ok hs2
        refine EvRel.mk_ok' (n1 + n2 + 1) i2 ⟨S2, t2⟩
          (.mk .seq (mkSkipped (List.replicate (skipCount sk inh) (defaultSkipVal (gen g))) v1 :: vs)) rfl
          (fun n' hn => ?_)
        obtain ⟨k, rfl⟩ : ∃ k, n' = k + 1 := ⟨n' - 1, by omega⟩
        simp only [parse]
        rw [h1 k (by omega)]
        simp only []
        rw [h2 k (by omega)]
  | choice a b =>
    simp only [spec] at hne ⊢
    simp only [genExpr]
    cases hs : spec g uni n na a i S with
    | oof => rw [hs] at hne; exact absurd rfl hne
    | ok i1 S1 =>
      obtain ⟨n1, t1, v1, h1⟩ := hSn.ok hs inh sk trk hsk
      refine EvRel.mk_ok' (n1 + 1) i1 ⟨S1, t1⟩ (.mk (.choice (genChoiceSpine g sk b).length.succ 0) [v1]) rfl
        (fun n' hn => ?_)
      obtain ⟨k, rfl⟩ : ∃ k, n' = k + 1 := ⟨n' - 1, by omega⟩
      simp only [parse, choiceLoop]
      rw [h1 k (by omega)]
      simp only [restoreOnNone, List.length]
    | fail =>
      obtain ⟨n1, m1, h1⟩ := hSn.fail hs inh sk trk hsk
      rw [hs] at hne
      simp only [] at hne ⊢
      have hloop := choiceSpine_sim hS hsk n (Nat.le_refl _) b 1 i S m1.trk hne
      cases hs2 : spec g uni n na b i S with
      | oof => exact absurd hs2 hne
      | fail =>
        obtain ⟨n2, m2, h2⟩ := hloop.fail hs2
        refine EvRel.mk_fail (n1 + n2 + 1) m2 (fun n' hn => ?_)
        obtain ⟨k, rfl⟩ : ∃ k, n' = k + 1 := ⟨n' - 1, by omega⟩
        simp only [parse, choiceLoop]
        rw [h1 k (by omega)]
        simp only [restoreOnNone]
        rw [h2 k (by omega)]
      | ok i2 S2 =>
        obtain ⟨n2, t2, kv, h2⟩ := hloop.ok hs2
        obtain ⟨k2, v2⟩ := kv
        refine EvRel.mk_ok' (n1 + n2 + 1) i2 ⟨S2, t2⟩ (.mk (.choice (genChoiceSpine g sk b).length.succ k2) [v2]) rfl
          (fun n' hn => ?_)
        obtain ⟨k, rfl⟩ : ∃ k, n' = k + 1 := ⟨n' - 1, by omega⟩
        simp only [parse, choiceLoop]
        rw [h1 k (by omega)]
        simp only [restoreOnNone]
        rw [h2 k (by omega)]
        simp only [List.length]
  | opt e =>
    simp only [spec] at hne ⊢
    simp only [genExpr]
    cases hs : spec g uni n na e i S with
    | oof => rw [hs] at hne; exact absurd rfl hne
    | fail =>
      obtain ⟨n1, m1, h1⟩ := hSn.fail hs inh sk trk hsk
      refine EvRel.mk_ok' (n1 + 1) i { m1 with stk := S } (.leaf .optNone) rfl (fun n' hn => ?_)
      obtain ⟨k, rfl⟩ : ∃ k, n' = k + 1 := ⟨n' - 1, by omega⟩
      simp only [parse]
      rw [h1 k (by omega)]
      simp only [restoreOnNone]
    | ok i1 S1 =>
      obtain ⟨n1, t1, v1, h1⟩ := hSn.ok hs inh sk trk hsk
      refine EvRel.mk_ok' (n1 + 1) i1 ⟨S1, t1⟩ (.mk .optSome [v1]) rfl (fun n' hn => ?_)
      obtain ⟨k, rfl⟩ : ∃ k, n' = k + 1 := ⟨n' - 1, by omega⟩
      simp only [parse]
      rw [h1 k (by omega)]
      simp only [restoreOnNone]
  | rep e =>
    simp only [spec] at hne ⊢
    simp only [genExpr]
    exact rep_sim hSn hsk e 0 none i S trk hne
  | repOnce e =>
    simp only [spec] at hne ⊢
    simp only [genExpr]
    exact rep_sim hSn hsk e 1 none i S trk hne
  | repExact e k =>
    simp only [spec] at hne ⊢
    simp only [genExpr]
    exact rep_sim hSn hsk e k (some k) i S trk hne
  | repMin e k =>
    simp only [spec] at hne ⊢
    simp only [genExpr]
    exact rep_sim hSn hsk e k none i S trk hne
  | repMax e k =>
    simp only [spec] at hne ⊢
    simp only [genExpr]
    exact rep_sim hSn hsk e 0 (some k) i S trk hne
  | repMinMax e k l =>
    simp only [spec] at hne ⊢
    simp only [genExpr]
    exact rep_sim hSn hsk e k (some l) i S trk hne
  | skip needles =>
    simp only [spec, genExpr]
    refine EvRel.leaf1 (fun k => by simp only [parse]) ?_
    simp only [parse]
    exact ⟨_, _, rfl, rfl⟩
  | push e =>
    simp only [spec] at hne ⊢
    simp only [genExpr]
    cases hs : spec g uni n na e i S with
    | oof => rw [hs] at hne; exact absurd rfl hne
    | fail =>
      obtain ⟨n1, m1, h1⟩ := hSn.fail hs inh sk trk hsk
      refine EvRel.mk_fail (n1 + 1) m1 (fun n' hn => ?_)
      obtain ⟨k, rfl⟩ : ∃ k, n' = k + 1 := ⟨n' - 1, by omega⟩
      simp only [parse]
      rw [h1 k (by omega)]
    | ok i1 S1 =>
      obtain ⟨n1, t1, v1, h1⟩ := hSn.ok hs inh sk trk hsk
      refine EvRel.mk_ok' (n1 + 1) i1 ⟨i.spanTo i1 :: S1, t1⟩ (.mk .push [v1]) rfl (fun n' hn => ?_)
      obtain ⟨k, rfl⟩ : ∃ k, n' = k + 1 := ⟨n' - 1, by omega⟩
      simp only [parse]
      rw [h1 k (by omega)]
  | restoreOnErr e =>
    simp only [spec] at hne ⊢
    simp only [genExpr]
    exact hSn _ _ _ _ hne inh sk trk hsk

/-- Forward simulation for every Spec fuel. -/
theorem sim_all {g : PGrammar} {uni : Uni} : ∀ n, Sim g uni n := by
  intro n
  induction n using Nat.strongRecOn with
  | _ n ih =>
    cases n with
    | zero => intro na e i S hne; exact absurd rfl hne
    | succ n => exact sim_step n (fun m hm => ih m (by omega))


/-! ## backward (SimBack) -/

/-- From some fuel on, the Spec computation `T` returns `rs`. -/
def EvS (T : Nat → SR) (rs : SR) : Prop := ∃ n0, ∀ n, n0 ≤ n → T n = rs

theorem EvS.leaf {T : Nat → SR} {rs : SR} (h : ∀ j, T (j+1) = rs) : EvS T rs :=
  ⟨1, fun n hn => by
    obtain ⟨j, rfl⟩ : ∃ j, n = j + 1 := ⟨n - 1, by omega⟩
    exact h j⟩

theorem EvS.shift {T T' : Nat → SR} {rs : SR} (h : EvS T rs) (hT : ∀ n, T' (n+1) = T n) : EvS T' rs := by
  obtain ⟨n0, h0⟩ := h
  refine ⟨n0 + 1, fun n hn => ?_⟩
  obtain ⟨j, rfl⟩ : ∃ j, n = j + 1 := ⟨n - 1, by omega⟩
  rw [hT]
  exact h0 j (by omega)

theorem EvS.const {T : Nat → SR} {rs : SR} (h : ∀ n, T n = rs) : EvS T rs := ⟨0, fun n _ => h n⟩

/-- Backward simulation at typed fuel `k`. -/
def Back (g : PGrammar) (uni : Uni) (k : Nat) : Prop :=
  ∀ inh sk na e i S trk, Flag.eval sk inh = na →
    parse (gen g) uni k inh (genExpr g sk e) i ⟨S, trk⟩ ≠ .oof →
    EvS (fun n => spec g uni n na e i S) (parse (gen g) uni k inh (genExpr g sk e) i ⟨S, trk⟩).outcome

theorem Back.fail {g : PGrammar} {uni : Uni} {k : Nat} (h : Back g uni k) {inh : Bool} {sk : Flag} {na : Bool}
    {e : PExpr} {i : Inp} {S : List Sp} {trk : Tracker} {m : M} (hsk : Flag.eval sk inh = na)
    (hr : parse (gen g) uni k inh (genExpr g sk e) i ⟨S, trk⟩ = .fail m) :
    ∃ n0, ∀ n, n0 ≤ n → spec g uni n na e i S = .fail := by
  have := h inh sk na e i S trk hsk (by rw [hr]; nofun)
  rw [hr] at this
  exact this

theorem Back.ok {g : PGrammar} {uni : Uni} {k : Nat} (h : Back g uni k) {inh : Bool} {sk : Flag} {na : Bool}
    {e : PExpr} {i i1 : Inp} {S : List Sp} {trk : Tracker} {m1 : M} {v : Val} (hsk : Flag.eval sk inh = na)
    (hr : parse (gen g) uni k inh (genExpr g sk e) i ⟨S, trk⟩ = .ok i1 m1 v) :
    ∃ n0, ∀ n, n0 ≤ n → spec g uni n na e i S = .ok i1 m1.stk := by
  have := h inh sk na e i S trk hsk (by rw [hr]; nofun)
  rw [hr] at this
  exact this

/-! ### repetition loops -/

theorem repLoop_back {α} (U : Nat → Inp → M → R α) (u : Nat → Nat → Inp → List Sp → SR) (min : Nat)
    (mx : Option Nat)
    (hU : ∀ idx i S trk, U idx i ⟨S, trk⟩ ≠ .oof → EvS (fun n => u n idx i S) (U idx i ⟨S, trk⟩).outcome) :
    ∀ (b idx : Nat) (i : Inp) (S : List Sp) (trk : Tracker) (acc : List α),
      acc.length = idx →
      repLoop U min mx b idx i ⟨S, trk⟩ acc ≠ .oof →
      ∀ B : Nat → Nat, (∀ k, ∃ n0, ∀ n, n0 ≤ n → k ≤ B n) →
        EvS (fun n => specRepLoop (u n) min mx (B n) idx i S) (repLoop U min mx b idx i ⟨S, trk⟩ acc).outcome := by
  intro b
  induction b with
  | zero => intro idx i S trk acc _ hne; exact absurd rfl hne
  | succ b ih =>
    intro idx i S trk acc hlen hne B hB
    obtain ⟨nB, hnB⟩ := hB 1
    have hsucc : ∀ n, nB ≤ n → ∃ k, B n = k + 1 := fun n hn => ⟨B n - 1, by have := hnB n hn; omega⟩
    simp only [repLoop] at hne ⊢
    by_cases hmax : mx = some idx
    · simp only [hmax, if_true]
      refine ⟨nB, fun n hn => ?_⟩
      obtain ⟨k, hk⟩ := hsucc n hn
      show specRepLoop (u n) min (some idx) (B n) idx i S = _
      rw [hk]
      simp only [specRepLoop, if_true]
      by_cases hlt : idx < min
      · simp only [hlt, if_true, repDone_some, hlen]; rfl
      · simp only [hlt, if_false, repDone_some, hlen]; rfl
    · simp only [hmax, if_false] at hne ⊢
      cases hr : U idx i ⟨S, trk⟩ with
      | oof => rw [hr] at hne; exact absurd rfl hne
      | fail m1 =>
        have h1 := hU idx i S trk (by rw [hr]; nofun)
        rw [hr] at h1
        obtain ⟨n1, h1⟩ := h1
        dsimp only at h1
        refine ⟨n1 + nB, fun n hn => ?_⟩
        obtain ⟨k, hk⟩ := hsucc n (by omega)
        show specRepLoop (u n) min mx (B n) idx i S = _
        rw [hk]
        simp only [specRepLoop, hmax, if_false]
        rw [h1 n (by omega)]
        simp only [restoreOnNone, Res.outcome]
        by_cases hlt : idx < min
        · simp only [hlt, if_true, Res.outcome]
        · simp only [hlt, if_false, repDone_of_le min mx i _ acc (by omega), Res.outcome]
      | ok i1 m1 a =>
        have h1 := hU idx i S trk (by rw [hr]; nofun)
        rw [hr] at h1
        obtain ⟨n1, h1⟩ := h1
        dsimp only at h1
        rw [hr] at hne
        simp only [restoreOnNone] at hne ⊢
        obtain ⟨S1, t1⟩ := m1
        have hB' : ∀ k, ∃ n0, ∀ n, n0 ≤ n → k ≤ (fun n => B n - 1) n := by
          intro k
          obtain ⟨n0, h0⟩ := hB (k + 1)
          exact ⟨n0, fun n hn => by have := h0 n hn; simp only []; omega⟩
        obtain ⟨n2, h2⟩ := ih (idx + 1) i1 S1 t1 (a :: acc)
          (by simp only [List.length_cons, hlen]) hne (fun n => B n - 1) hB'
        dsimp only at h2
        refine ⟨n1 + n2 + nB, fun n hn => ?_⟩
        obtain ⟨k, hk⟩ := hsucc n (by omega)
        show specRepLoop (u n) min mx (B n) idx i S = _
        rw [hk]
        simp only [specRepLoop, hmax, if_false]
        rw [h1 n (by omega)]
        simp only [Res.outcome]
        have := h2 n (by omega)
        simp only [hk, Nat.add_sub_cancel] at this
        exact this

/-! ### the implicit skip -/

theorem atomicRepeat_back (G : NodeGrammar) (uni : Uni) (inh : Bool) (X : Node) (k : Nat)
    (u : Nat → Nat → Inp → List Sp → SR)
    (hX : ∀ idx i S trk, parse G uni k inh X i ⟨S, trk⟩ ≠ .oof →
      EvS (fun n => u n idx i S) (parse G uni k inh X i ⟨S, trk⟩).outcome)
    (i : Inp) (S : List Sp) (trk : Tracker) (hne : parse G uni (k+1) inh (.atomicRepeat X) i ⟨S, trk⟩ ≠ .oof)
    (B : Nat → Nat) (hB : ∀ k, ∃ n0, ∀ n, n0 ≤ n → k ≤ B n) :
    EvS (fun n => specRepLoop (u n) 0 none (B n) 0 i S)
      (parse G uni (k+1) inh (.atomicRepeat X) i ⟨S, trk⟩).outcome := by
  simp only [parse] at hne ⊢
  have hloop := repLoop_back (fun _ i m => parse G uni k inh X i m) u 0 none hX (atomicBudget k) 0 i S
    (Tracker.new i) ([] : List Val) rfl
  cases hr : repLoop (fun _ i m => parse G uni k inh X i m) 0 none (atomicBudget k) 0 i
      ⟨S, Tracker.new i⟩ ([] : List Val) with
  | oof => rw [hr] at hne; exact absurd rfl hne
  | fail m1 =>
    have := hloop (by rw [hr]; nofun) B hB
    rw [hr] at this
    exact this
  | ok i1 m1 vs =>
    have := hloop (by rw [hr]; nofun) B hB
    rw [hr] at this
    exact this

/-- `Skipped` at typed fuel `k` against the Spec's implicit skip. -/
theorem skip_back {g : PGrammar} {uni : Uni} {n' : Nat} (hB : ∀ m, m ≤ n' → Back g uni m) (k : Nat)
    (hk : k ≤ n' + 1) (i : Inp) (S : List Sp) (trk : Tracker)
    (hne : parse (gen g) uni k false (gen g).skipped i ⟨S, trk⟩ ≠ .oof) :
    EvS (fun n => specSkipN g uni n i S) (parse (gen g) uni k false (gen g).skipped i ⟨S, trk⟩).outcome := by
  cases k with
  | zero => exact absurd rfl hne
  | succ k =>
    have hBk : Back g uni k := hB k (by omega)
    revert hne
    show parse (gen g) uni (k+1) false (genSkipped g) i ⟨S, trk⟩ ≠ .oof →
      EvS (fun n => specSkipN g uni n i S) (parse (gen g) uni (k+1) false (genSkipped g) i ⟨S, trk⟩).outcome
    intro hne
    unfold specSkipN specSkip
    cases hw : g.indexOf "WHITESPACE" with
    | none =>
      cases hc : g.indexOf "COMMENT" with
      | none =>
        simp only [genSkipped, PGrammar.defines, hw, hc, Option.isSome]
        refine EvS.const (fun n => ?_)
        obtain ⟨b, hb⟩ := atomicBudget_succ n
        simp only [hb, specRepLoop, specSkipUnit, parse, Res.outcome]
        rfl
      | some c =>
        simp only [genSkipped, PGrammar.defines, hw, hc, Option.isSome, specSkipUnit_C] at hne ⊢
        refine atomicRepeat_back (gen g) uni false _ k
          (fun n _ i S => spec g uni n false (.ident "COMMENT") i S) ?_ i S trk hne atomicBudget
          atomicBudget_unbounded
        intro idx i S trk hne
        have := hBk false .zero false (.ident "COMMENT") i S trk rfl
        simp only [genExpr, hc] at this
        exact this hne
    | some w =>
      cases hc : g.indexOf "COMMENT" with
      | none =>
        simp only [genSkipped, PGrammar.defines, hw, hc, Option.isSome, specSkipUnit_W] at hne ⊢
        refine atomicRepeat_back (gen g) uni false _ k
          (fun n _ i S => spec g uni n false (.ident "WHITESPACE") i S) ?_ i S trk hne atomicBudget
          atomicBudget_unbounded
        intro idx i S trk hne
        have := hBk false .zero false (.ident "WHITESPACE") i S trk rfl
        simp only [genExpr, hw] at this
        exact this hne
      | some c =>
        simp only [genSkipped, PGrammar.defines, hw, hc, Option.isSome] at hne ⊢
        refine atomicRepeat_back (gen g) uni false _ k
          (fun n _ i S => specSkipUnit (fun nm i S => spec g uni n false (.ident nm) i S) true true i S)
          ?_ i S trk hne atomicBudget atomicBudget_unbounded
        intro idx i S trk hne
        cases k with
        | zero => exact absurd rfl hne
        | succ j =>
          have hBj : Back g uni j := hB j (by omega)
          have hW := @hBj false .zero false (.ident "WHITESPACE") i S
          have hC := @hBj false .zero false (.ident "COMMENT") i S
          simp only [genExpr, hw] at hW
          simp only [genExpr, hc] at hC
          simp only [parse, choiceLoop] at hne ⊢
          cases hr : parse (gen g) uni j false (.ref (w+1) .zero) i ⟨S, trk⟩ with
          | oof => rw [hr] at hne; exact absurd rfl hne
          | ok i1 m1 v1 =>
            have h1 := hW trk rfl (by rw [hr]; nofun)
            rw [hr] at h1
            obtain ⟨n1, h1⟩ := h1
            dsimp only at h1
            refine ⟨n1, fun n hn => ?_⟩
            simp only [specSkipUnit, if_true]
            rw [h1 n hn]
            rfl
          | fail m1 =>
            have h1 := hW trk rfl (by rw [hr]; nofun)
            rw [hr] at h1 hne
            obtain ⟨n1, h1⟩ := h1
            dsimp only at h1
            simp only [restoreOnNone] at hne ⊢
            cases hr2 : parse (gen g) uni j false (.ref (c+1) .zero) i ⟨S, m1.trk⟩ with
            | oof => rw [hr2] at hne; exact absurd rfl hne
            | ok i2 m2 v2 =>
              have h2 := hC m1.trk rfl (by rw [hr2]; nofun)
              rw [hr2] at h2
              obtain ⟨n2, h2⟩ := h2
              dsimp only at h2
              refine ⟨n1 + n2, fun n hn => ?_⟩
              simp only [specSkipUnit, if_true]
              rw [h1 n (by omega)]
              try simp only []
              rw [h2 n (by omega)]
              rfl
            | fail m2 =>
              have h2 := hC m1.trk rfl (by rw [hr2]; nofun)
              rw [hr2] at h2
              obtain ⟨n2, h2⟩ := h2
              dsimp only at h2
              refine ⟨n1 + n2, fun n hn => ?_⟩
              simp only [specSkipUnit, if_true]
              rw [h1 n (by omega)]
              try simp only []
              rw [h2 n (by omega)]
              rfl

theorem skipLoop_back {g : PGrammar} {uni : Uni} {n' : Nat} (hB : ∀ m, m ≤ n' → Back g uni m) (k : Nat)
    (hk : k ≤ n' + 1) {inh : Bool} {sk : Flag} {na : Bool} (hsk : Flag.eval sk inh = na) (i : Inp) (S : List Sp)
    (trk : Tracker)
    (hne : skipLoop (parse (gen g) uni k false (gen g).skipped) (skipCount sk inh) i ⟨S, trk⟩ [] ≠ .oof) :
    EvS (fun n => specSkipIf g uni n na i S)
      (skipLoop (parse (gen g) uni k false (gen g).skipped) (skipCount sk inh) i ⟨S, trk⟩ []).outcome := by
  cases na with
  | false =>
    simp only [specSkipIf, skipCount, hsk]
    exact EvS.const (fun n => by simp [skipLoop, Res.outcome])
  | true =>
    simp only [specSkipIf, skipCount, hsk, if_true, skipLoop] at hne ⊢
    cases hr : parse (gen g) uni k false (gen g).skipped i ⟨S, trk⟩ with
    | oof => rw [hr] at hne; exact absurd rfl hne
    | fail m1 =>
      have := skip_back hB k hk i S trk (by rw [hr]; nofun)
      rw [hr] at this
      exact this
    | ok i1 m1 v1 =>
      have := skip_back hB k hk i S trk (by rw [hr]; nofun)
      rw [hr] at this
      exact this

theorem skipThen_back_fail {g : PGrammar} {uni : Uni} {n' : Nat} (hB : ∀ m, m ≤ n' → Back g uni m) (k : Nat)
    (hk : k ≤ n' + 1) {inh : Bool} {sk : Flag} {na : Bool} (hsk : Flag.eval sk inh = na) (b : PExpr) (i : Inp)
    (S : List Sp) (trk : Tracker) (mf : M)
    (h1 : skipLoop (parse (gen g) uni k false (gen g).skipped) (skipCount sk inh) i ⟨S, trk⟩ [] = .fail mf) :
    EvS (fun n => specThen g uni n na b i S) .fail := by
  have := skipLoop_back hB k hk hsk i S trk (by rw [h1]; nofun)
  rw [h1] at this
  obtain ⟨n0, h0⟩ := this
  dsimp only at h0
  refine ⟨n0, fun n hn => ?_⟩
  simp only [specThen]
  rw [h0 n hn]
  rfl

theorem skipThen_back_ok {g : PGrammar} {uni : Uni} {n' : Nat} (hB : ∀ m, m ≤ n' → Back g uni m) (k : Nat)
    (hk : k ≤ n') {inh : Bool} {sk : Flag} {na : Bool} (hsk : Flag.eval sk inh = na) (b : PExpr) (i : Inp)
    (S : List Sp) (trk : Tracker) (i2 : Inp) (m2 : M) (sks : List Val)
    (h1 : skipLoop (parse (gen g) uni k false (gen g).skipped) (skipCount sk inh) i ⟨S, trk⟩ [] = .ok i2 m2 sks)
    (hne : parse (gen g) uni k inh (genExpr g sk b) i2 m2 ≠ .oof) :
    EvS (fun n => specThen g uni n na b i S) (parse (gen g) uni k inh (genExpr g sk b) i2 m2).outcome := by
  have := skipLoop_back hB k (by omega) hsk i S trk (by rw [h1]; nofun)
  rw [h1] at this
  obtain ⟨n0, h0⟩ := this
  dsimp only [Res.outcome] at h0
  obtain ⟨S2, t2⟩ := m2
  obtain ⟨n1, h1'⟩ := hB k hk inh sk na b i2 S2 t2 hsk hne
  dsimp only at h1'
  refine ⟨n0 + n1, fun n hn => ?_⟩
  simp only [specThen]
  rw [h0 n (by omega)]
  exact h1' n (by omega)

/-! ### sequences and choices -/

theorem specThen_seq_succ (g : PGrammar) (uni : Uni) (n : Nat) (na : Bool) (b1 b2 : PExpr) (i : Inp)
    (S : List Sp) :
    specThen g uni (n+1) na (.seq b1 b2) i S =
      match specSkipIf g uni (n+1) na i S with
      | .oof => .oof
      | .fail => .fail
      | .ok i2 S2 =>
        match spec g uni n na b1 i2 S2 with
        | .oof => .oof
        | .fail => .fail
        | .ok i3 S3 => specThen g uni n na b2 i3 S3 := by
  rw [specThen]
  cases specSkipIf g uni (n+1) na i S with
  | oof => rfl
  | fail => rfl
  | ok i2 S2 => simp only [spec_seq_eq]

theorem seqSpine_back {g : PGrammar} {uni : Uni} {n' : Nat} (hB : ∀ m, m ≤ n' → Back g uni m) (k : Nat)
    (hk : k ≤ n') {inh : Bool} {sk : Flag} {na : Bool} (hsk : Flag.eval sk inh = na) :
    ∀ (len : Nat) (b : PExpr), (genSeqSpine g sk b).length = len → ∀ i S trk acc,
      seqLoop (parse (gen g) uni k inh)
        (fun i m => skipLoop (parse (gen g) uni k false (gen g).skipped) (skipCount sk inh) i m [])
        mkSkipped (genSeqSpine g sk b) i ⟨S, trk⟩ acc ≠ .oof →
      EvS (fun n => specThen g uni n na b i S)
        (seqLoop (parse (gen g) uni k inh)
          (fun i m => skipLoop (parse (gen g) uni k false (gen g).skipped) (skipCount sk inh) i m [])
          mkSkipped (genSeqSpine g sk b) i ⟨S, trk⟩ acc).outcome := by
  intro len
  induction len with
  | zero =>
    intro b hlen
    rcases genSeqSpine_cases g sk b with ⟨b1, b2, _, h⟩ | h <;> rw [h] at hlen <;> simp at hlen
  | succ len ih =>
    intro b hlen i S trk acc hne
    rcases genSeqSpine_cases g sk b with ⟨b1, b2, rfl, hsp⟩ | hsp
    · rw [hsp] at hne hlen ⊢
      simp only [seqLoop] at hne ⊢
      cases hr1 : skipLoop (parse (gen g) uni k false (gen g).skipped) (skipCount sk inh) i ⟨S, trk⟩ [] with
      | oof => rw [hr1] at hne; exact absurd rfl hne
      | fail mf => exact skipThen_back_fail hB k (by omega) hsk _ i S trk mf hr1
      | ok i2 m2 sks =>
        rw [hr1] at hne
        simp only [] at hne ⊢
        have hs := skipLoop_back hB k (by omega) hsk i S trk (by rw [hr1]; nofun)
        rw [hr1] at hs
        obtain ⟨n0, h0⟩ := hs
        dsimp only [Res.outcome] at h0
        obtain ⟨S2, t2⟩ := m2
        cases hr2 : parse (gen g) uni k inh (genExpr g sk b1) i2 ⟨S2, t2⟩ with
        | oof => rw [hr2] at hne; exact absurd rfl hne
        | fail mf =>
          obtain ⟨n1, h1⟩ := (hB k hk).fail hsk hr2
          refine ⟨n0 + n1 + 1, fun n hn => ?_⟩
          obtain ⟨j, rfl⟩ : ∃ j, n = j + 1 := ⟨n - 1, by omega⟩
          show specThen g uni (j+1) na (.seq b1 b2) i S = _
          rw [specThen_seq_succ, h0 (j+1) (by omega)]
          try simp only []
          rw [h1 j (by omega)]
          rfl
        | ok i3 m3 v =>
          obtain ⟨n1, h1⟩ := (hB k hk).ok hsk hr2
          rw [hr2] at hne
          simp only [] at hne ⊢
          obtain ⟨S3, t3⟩ := m3
          obtain ⟨n2, h2⟩ := ih b2 (by simpa using hlen) i3 S3 t3 (mkSkipped sks v :: acc) hne
          dsimp only at h2
          refine ⟨n0 + n1 + n2 + 1, fun n hn => ?_⟩
          obtain ⟨j, rfl⟩ : ∃ j, n = j + 1 := ⟨n - 1, by omega⟩
          show specThen g uni (j+1) na (.seq b1 b2) i S = _
          rw [specThen_seq_succ, h0 (j+1) (by omega)]
          try simp only []
          rw [h1 j (by omega)]
          try simp only []
          exact h2 j (by omega)
    · rw [hsp] at hne ⊢
      simp only [seqLoop] at hne ⊢
      cases hr1 : skipLoop (parse (gen g) uni k false (gen g).skipped) (skipCount sk inh) i ⟨S, trk⟩ [] with
      | oof => rw [hr1] at hne; exact absurd rfl hne
      | fail mf => exact skipThen_back_fail hB k (by omega) hsk _ i S trk mf hr1
      | ok i2 m2 sks =>
        rw [hr1] at hne
        simp only [] at hne ⊢
        cases hr2 : parse (gen g) uni k inh (genExpr g sk b) i2 m2 with
        | oof => rw [hr2] at hne; exact absurd rfl hne
        | fail mf =>
          have := skipThen_back_ok hB k hk hsk b i S trk i2 m2 sks hr1 (by rw [hr2]; nofun)
          rw [hr2] at this
          exact this
        | ok i3 m3 v =>
          have := skipThen_back_ok hB k hk hsk b i S trk i2 m2 sks hr1 (by rw [hr2]; nofun)
          rw [hr2] at this
          exact this

theorem choiceSpine_back {g : PGrammar} {uni : Uni} {n' : Nat} (hB : ∀ m, m ≤ n' → Back g uni m) (k : Nat)
    (hk : k ≤ n') {inh : Bool} {sk : Flag} {na : Bool} (hsk : Flag.eval sk inh = na) :
    ∀ (len : Nat) (b : PExpr), (genChoiceSpine g sk b).length = len → ∀ c i S trk,
      choiceLoop (parse (gen g) uni k inh) (genChoiceSpine g sk b) c i ⟨S, trk⟩ ≠ .oof →
      EvS (fun n => spec g uni n na b i S)
        (choiceLoop (parse (gen g) uni k inh) (genChoiceSpine g sk b) c i ⟨S, trk⟩).outcome := by
  intro len
  induction len with
  | zero =>
    intro b hlen
    rcases genChoiceSpine_cases g sk b with ⟨b1, b2, _, h⟩ | h <;> rw [h] at hlen <;> simp at hlen
  | succ len ih =>
    intro b hlen c i S trk hne
    rcases genChoiceSpine_cases g sk b with ⟨b1, b2, rfl, hsp⟩ | hsp
    · rw [hsp] at hne hlen ⊢
      simp only [choiceLoop] at hne ⊢
      cases hr1 : parse (gen g) uni k inh (genExpr g sk b1) i ⟨S, trk⟩ with
      | oof => rw [hr1] at hne; exact absurd rfl hne
      | ok i1 m1 v =>
        obtain ⟨n1, h1⟩ := (hB k hk).ok hsk hr1
        refine ⟨n1 + 1, fun n hn => ?_⟩
        obtain ⟨j, rfl⟩ : ∃ j, n = j + 1 := ⟨n - 1, by omega⟩
        simp only [spec]
        rw [h1 j (by omega)]
        rfl
      | fail mf =>
        obtain ⟨n1, h1⟩ := (hB k hk).fail hsk hr1
        rw [hr1] at hne
        simp only [restoreOnNone] at hne ⊢
        obtain ⟨n2, h2⟩ := ih b2 (by simpa using hlen) (c+1) i S mf.trk hne
        dsimp only at h2
        refine ⟨n1 + n2 + 1, fun n hn => ?_⟩
        obtain ⟨j, rfl⟩ : ∃ j, n = j + 1 := ⟨n - 1, by omega⟩
        simp only [spec]
        rw [h1 j (by omega)]
        try simp only []
        exact h2 j (by omega)
    · rw [hsp] at hne ⊢
      simp only [choiceLoop] at hne ⊢
      cases hr1 : parse (gen g) uni k inh (genExpr g sk b) i ⟨S, trk⟩ with
      | oof => rw [hr1] at hne; exact absurd rfl hne
      | ok i1 m1 v =>
        obtain ⟨n1, h1⟩ := (hB k hk).ok hsk hr1
        exact ⟨n1, fun n hn => by dsimp only; rw [h1 n hn]; rfl⟩
      | fail mf =>
        obtain ⟨n1, h1⟩ := (hB k hk).fail hsk hr1
        exact ⟨n1, fun n hn => by dsimp only; rw [h1 n hn]; rfl⟩

/-! ### repetitions -/

theorem rep_back {g : PGrammar} {uni : Uni} {n' : Nat} (hB : ∀ m, m ≤ n' → Back g uni m) (k : Nat)
    (hk : k ≤ n') {inh : Bool} {sk : Flag} {na : Bool} (hsk : Flag.eval sk inh = na) (e : PExpr) (min : Nat)
    (mx : Option Nat) (i : Inp) (S : List Sp) (trk : Tracker)
    (hne : parse (gen g) uni (k+1) inh (.rep sk min mx (genExpr g sk e)) i ⟨S, trk⟩ ≠ .oof) :
    EvS (fun n => specRepWith (spec g uni n) n (g.defines "WHITESPACE") (g.defines "COMMENT") na e min mx i S)
      (parse (gen g) uni (k+1) inh (.rep sk min mx (genExpr g sk e)) i ⟨S, trk⟩).outcome := by
  have heq : ∀ n, specRepWith (spec g uni n) n (g.defines "WHITESPACE") (g.defines "COMMENT") na e min mx i S =
      specRepLoop (fun idx i S => if idx = 0 then spec g uni n na e i S else specThen g uni n na e i S)
        min mx n 0 i S := by
    intro n
    unfold specRepWith
    congr 1
    funext idx i S
    exact specRepUnit_eq g uni n na e idx i S
  have hU : ∀ idx i S trk,
      repUnitP (parse (gen g) uni k false (gen g).skipped) (parse (gen g) uni k inh (genExpr g sk e))
        (defaultSkipVal (gen g)) (skipCount sk inh) idx i ⟨S, trk⟩ ≠ .oof →
      EvS (fun n => if idx = 0 then spec g uni n na e i S else specThen g uni n na e i S)
        (repUnitP (parse (gen g) uni k false (gen g).skipped) (parse (gen g) uni k inh (genExpr g sk e))
          (defaultSkipVal (gen g)) (skipCount sk inh) idx i ⟨S, trk⟩).outcome := by
    intro idx i S trk hne
    by_cases h0 : idx = 0
    · simp only [repUnitP, h0, if_true] at hne ⊢
      cases hr : parse (gen g) uni k inh (genExpr g sk e) i ⟨S, trk⟩ with
      | oof => rw [hr] at hne; exact absurd rfl hne
      | fail mf =>
        obtain ⟨n1, h1⟩ := (hB k hk).fail hsk hr
        exact ⟨n1, fun n hn => by dsimp only; rw [h1 n hn]; rfl⟩
      | ok i1 m1 v =>
        obtain ⟨n1, h1⟩ := (hB k hk).ok hsk hr
        exact ⟨n1, fun n hn => by dsimp only; rw [h1 n hn]; rfl⟩
    · simp only [repUnitP, h0, if_false] at hne ⊢
      cases hr1 : skipLoop (parse (gen g) uni k false (gen g).skipped) (skipCount sk inh) i ⟨S, trk⟩ [] with
      | oof => rw [hr1] at hne; exact absurd rfl hne
      | fail mf => exact skipThen_back_fail hB k (by omega) hsk _ i S trk mf hr1
      | ok i2 m2 sks =>
        rw [hr1] at hne
        simp only [] at hne ⊢
        cases hr2 : parse (gen g) uni k inh (genExpr g sk e) i2 m2 with
        | oof => rw [hr2] at hne; exact absurd rfl hne
        | fail mf =>
          have := skipThen_back_ok hB k hk hsk e i S trk i2 m2 sks hr1 (by rw [hr2]; nofun)
          rw [hr2] at this
          exact this
        | ok i3 m3 v =>
          have := skipThen_back_ok hB k hk hsk e i S trk i2 m2 sks hr1 (by rw [hr2]; nofun)
          rw [hr2] at this
          exact this
  have hloop := repLoop_back
    (repUnitP (parse (gen g) uni k false (gen g).skipped) (parse (gen g) uni k inh (genExpr g sk e))
      (defaultSkipVal (gen g)) (skipCount sk inh))
    (fun n idx i S => if idx = 0 then spec g uni n na e i S else specThen g uni n na e i S)
    min mx hU k 0 i S trk ([] : List Val) rfl
  simp only [parse] at hne ⊢
  cases hr : repLoop (repUnitP (parse (gen g) uni k false (gen g).skipped)
      (parse (gen g) uni k inh (genExpr g sk e)) (defaultSkipVal (gen g)) (skipCount sk inh))
      min mx k 0 i ⟨S, trk⟩ ([] : List Val) with
  | oof => rw [hr] at hne; exact absurd rfl hne
  | fail m1 =>
    have := hloop (by rw [hr]; nofun) (fun n => n) id_unbounded
    rw [hr] at this
    obtain ⟨n0, h0⟩ := this
    dsimp only at h0
    exact ⟨n0, fun n hn => by show specRepWith _ _ _ _ _ _ _ _ _ _ = _; rw [heq n, h0 n hn]; rfl⟩
  | ok i1 m1 vs =>
    have := hloop (by rw [hr]; nofun) (fun n => n) id_unbounded
    rw [hr] at this
    obtain ⟨n0, h0⟩ := this
    dsimp only at h0
    exact ⟨n0, fun n hn => by show specRepWith _ _ _ _ _ _ _ _ _ _ = _; rw [heq n, h0 n hn]; rfl⟩

/-! ### rule references and built-ins -/

theorem ref_back (G : NodeGrammar) (uni : Uni) (r : RuleId) (f : Flag) (d : RuleDef) (hd : G.rule? r = some d)
    (inh : Bool) (i : Inp) (S : List Sp) (trk : Tracker) (k : Nat) (T : Nat → SR)
    (hbody : ∀ trk', parse G uni k (f.eval inh) d.body i ⟨S, trk'⟩ ≠ .oof →
      EvS T (parse G uni k (f.eval inh) d.body i ⟨S, trk'⟩).outcome)
    (hne : parse G uni (k+1) inh (.ref r f) i ⟨S, trk⟩ ≠ .oof) :
    EvS T (parse G uni (k+1) inh (.ref r f) i ⟨S, trk⟩).outcome := by
  simp only [parse, hd] at hne ⊢
  cases hemit : d.emit with
  | expression =>
    simp only [hemit] at hne ⊢
    cases hr : parse G uni k (f.eval inh) d.body i ⟨S, trk⟩ with
    | oof => rw [hr] at hne; exact absurd rfl hne
    | fail m1 => have := hbody trk (by rw [hr]; nofun); rw [hr] at this; exact this
    | ok i1 m1 v => have := hbody trk (by rw [hr]; nofun); rw [hr] at this; exact this
  | span =>
    simp only [hemit, check_eq_parse_forget] at hne ⊢
    cases hr : parse G uni k (f.eval inh) d.body i ⟨S, trk.enter r i.pos⟩ with
    | oof => rw [hr] at hne; exact absurd rfl hne
    | fail m1 => have := hbody _ (by rw [hr]; nofun); rw [hr] at this; exact this
    | ok i1 m1 v => have := hbody _ (by rw [hr]; nofun); rw [hr] at this; exact this
  | both =>
    simp only [hemit] at hne ⊢
    cases hr : parse G uni k (f.eval inh) d.body i ⟨S, trk.enter r i.pos⟩ with
    | oof => rw [hr] at hne; exact absurd rfl hne
    | fail m1 => have := hbody _ (by rw [hr]; nofun); rw [hr] at this; exact this
    | ok i1 m1 v => have := hbody _ (by rw [hr]; nofun); rw [hr] at this; exact this

theorem specBuiltin_ne_oof (uni : Uni) (name : String) (i : Inp) (S : List Sp) :
    specBuiltin uni name i S ≠ .oof := by
  unfold specBuiltin
  repeat' split
  all_goals nofun

theorem builtin_back (g : PGrammar) (uni : Uni) (name : String) (inh : Bool) (i : Inp) (S : List Sp)
    (trk : Tracker) (k : Nat) (hne : parse (gen g) uni k inh (builtinNode name) i ⟨S, trk⟩ ≠ .oof) :
    (parse (gen g) uni k inh (builtinNode name) i ⟨S, trk⟩).outcome = specBuiltin uni name i S := by
  obtain ⟨n0, r0, hr0, hc⟩ := builtin_sim g uni name inh i S trk
  dsimp only at hc
  have h1 := parse_mono (g := gen g) (uni := uni) (n := k) (inh := inh) (node := builtinNode name) (i := i)
    (m := ⟨S, trk⟩) rfl hne n0
  rw [hc (k + n0) (by omega)] at h1
  rw [← h1]
  exact hr0.outcome_eq (specBuiltin_ne_oof uni name i S)

/-! ### the main induction -/

theorem back_step {g : PGrammar} {uni : Uni} (k : Nat)
    (hB : ∀ m, m ≤ k → Back g uni m) : Back g uni (k+1) := by
  intro inh sk na e i S trk hsk hne
  have hBk := hB k (Nat.le_refl _)
  induction e with
  | str s =>
    simp only [genExpr] at hne ⊢
    refine EvS.leaf (fun j => ?_)
    simp only [spec, parse]
    cases i.matchString s <;> rfl
  | insens s =>
    simp only [genExpr] at hne ⊢
    refine EvS.leaf (fun j => ?_)
    simp only [spec, parse]
    cases i.matchInsens s <;> rfl
  | range lo hi =>
    simp only [genExpr] at hne ⊢
    refine EvS.leaf (fun j => ?_)
    simp only [spec, parse]
    cases i.matchRange lo hi <;> rfl
  | ident name =>
    cases hidx : g.indexOf name with
    | none =>
      simp only [genExpr, hidx] at hne ⊢
      refine EvS.leaf (fun j => ?_)
      simp only [spec, find?_of_indexOf_none hidx]
      exact (builtin_back g uni name inh i S trk (k+1) hne).symm
    | some r0 =>
      obtain ⟨r, hr, hrn⟩ := indexOf_spec hidx
      simp only [genExpr, hidx] at hne ⊢
      have hrule : (gen g).rule? (r0+1) = some (genRule g r) := by rw [gen_rule_succ, hr]; rfl
      refine ref_back (gen g) uni (r0+1) sk (genRule g r) hrule inh i S trk k _ (fun trk' hne' => ?_) hne
      rw [hsk] at hne' ⊢
      have := hBk na (atomFlag (kindAtomicity r.kind)) _ r.expr i S trk' rfl hne'
      exact this.shift (fun n => by simp only [spec, find?_of_indexOf hidx, hr])
  | peekSlice a b =>
    simp only [genExpr] at hne ⊢
    refine EvS.leaf (fun j => ?_)
    simp only [spec, parse]
    cases constrainIdxs a b S.length with
    | none => rfl
    | some p =>
      obtain ⟨lo, hi⟩ := p
      try simp only []
      by_cases hle : hi ≤ lo
      · simp only [hle, if_true]; rfl
      · simp only [hle, if_false]
        cases peekSpans (stackSlice S lo hi) i <;> rfl
  | posPred e =>
    simp only [genExpr] at hne ⊢
    simp only [parse] at hne ⊢
    cases hr : parse (gen g) uni k inh (genExpr g sk e) i ⟨S, { trk with positive := true }⟩ with
    | oof => rw [hr] at hne; exact absurd rfl hne
    | fail m1 =>
      obtain ⟨n1, h1⟩ := hBk.fail hsk hr
      refine ⟨n1 + 1, fun n hn => ?_⟩
      obtain ⟨j, rfl⟩ : ∃ j, n = j + 1 := ⟨n - 1, by omega⟩
      simp only [spec]
      rw [h1 j (by omega)]
      rfl
    | ok i1 m1 v =>
      obtain ⟨n1, h1⟩ := hBk.ok hsk hr
      refine ⟨n1 + 1, fun n hn => ?_⟩
      obtain ⟨j, rfl⟩ : ∃ j, n = j + 1 := ⟨n - 1, by omega⟩
      simp only [spec]
      rw [h1 j (by omega)]
      rfl
  | negPred e =>
    simp only [genExpr] at hne ⊢
    simp only [parse, check_eq_parse_forget] at hne ⊢
    cases hr : parse (gen g) uni k inh (genExpr g sk e) i ⟨S, { trk with positive := false }⟩ with
    | oof => rw [hr] at hne; exact absurd rfl hne
    | fail m1 =>
      obtain ⟨n1, h1⟩ := hBk.fail hsk hr
      refine ⟨n1 + 1, fun n hn => ?_⟩
      obtain ⟨j, rfl⟩ : ∃ j, n = j + 1 := ⟨n - 1, by omega⟩
      simp only [spec]
      rw [h1 j (by omega)]
      rfl
    | ok i1 m1 v =>
      obtain ⟨n1, h1⟩ := hBk.ok hsk hr
      refine ⟨n1 + 1, fun n hn => ?_⟩
      obtain ⟨j, rfl⟩ : ∃ j, n = j + 1 := ⟨n - 1, by omega⟩
      simp only [spec]
      rw [h1 j (by omega)]
      rfl
  | seq a b =>
    simp only [genExpr] at hne ⊢
    simp only [parse] at hne ⊢
    cases hr : parse (gen g) uni k inh (genExpr g sk a) i ⟨S, trk⟩ with
    | oof => rw [hr] at hne; exact absurd rfl hne
    | fail m1 =>
      obtain ⟨n1, h1⟩ := hBk.fail hsk hr
      refine ⟨n1 + 1, fun n hn => ?_⟩
      obtain ⟨j, rfl⟩ : ∃ j, n = j + 1 := ⟨n - 1, by omega⟩
      show spec g uni (j+1) na (.seq a b) i S = _
      rw [spec_seq_eq, h1 j (by omega)]
      rfl
    | ok i1 m1 v =>
      obtain ⟨n1, h1⟩ := hBk.ok hsk hr
      rw [hr] at hne
      simp only [] at hne ⊢
      obtain ⟨S1, t1⟩ := m1
      have hloop := seqSpine_back hB k (Nat.le_refl _) hsk _ b rfl i1 S1 t1 []
      cases hr2 : seqLoop (parse (gen g) uni k inh)
          (fun i m => skipLoop (parse (gen g) uni k false (gen g).skipped) (skipCount sk inh) i m [])
          mkSkipped (genSeqSpine g sk b) i1 ⟨S1, t1⟩ [] with
      | oof => rw [hr2] at hne; exact absurd rfl hne
      | fail m2 =>
        have := hloop (by rw [hr2]; nofun)
        rw [hr2] at this
        obtain ⟨n2, h2⟩ := this
        dsimp only at h2
        refine ⟨n1 + n2 + 1, fun n hn => ?_⟩
        obtain ⟨j, rfl⟩ : ∃ j, n = j + 1 := ⟨n - 1, by omega⟩
        show spec g uni (j+1) na (.seq a b) i S = _
        rw [spec_seq_eq, h1 j (by omega)]
        try simp only []
        rw [h2 j (by omega)]
        rfl
      | ok i2 m2 vs =>
        have := hloop (by rw [hr2]; nofun)
        rw [hr2] at this
        obtain ⟨n2, h2⟩ := this
        dsimp only at h2
        refine ⟨n1 + n2 + 1, fun n hn => ?_⟩
        obtain ⟨j, rfl⟩ : ∃ j, n = j + 1 := ⟨n - 1, by omega⟩
        show spec g uni (j+1) na (.seq a b) i S = _
        rw [spec_seq_eq, h1 j (by omega)]
        try simp only []
        rw [h2 j (by omega)]
        rfl
  | choice a b =>
    simp only [genExpr] at hne ⊢
    simp only [parse, choiceLoop] at hne ⊢
    cases hr : parse (gen g) uni k inh (genExpr g sk a) i ⟨S, trk⟩ with
    | oof => rw [hr] at hne; exact absurd rfl hne
    | ok i1 m1 v =>
      obtain ⟨n1, h1⟩ := hBk.ok hsk hr
      refine ⟨n1 + 1, fun n hn => ?_⟩
      obtain ⟨j, rfl⟩ : ∃ j, n = j + 1 := ⟨n - 1, by omega⟩
      simp only [spec]
      rw [h1 j (by omega)]
      rfl
    | fail m1 =>
      obtain ⟨n1, h1⟩ := hBk.fail hsk hr
      rw [hr] at hne
      simp only [restoreOnNone] at hne ⊢
      have hloop := choiceSpine_back hB k (Nat.le_refl _) hsk _ b rfl 1 i S m1.trk
      cases hr2 : choiceLoop (parse (gen g) uni k inh) (genChoiceSpine g sk b) 1 i ⟨S, m1.trk⟩ with
      | oof => rw [hr2] at hne; exact absurd rfl hne
      | fail m2 =>
        have := hloop (by rw [hr2]; nofun)
        rw [hr2] at this
        obtain ⟨n2, h2⟩ := this
        dsimp only at h2
        refine ⟨n1 + n2 + 1, fun n hn => ?_⟩
        obtain ⟨j, rfl⟩ : ∃ j, n = j + 1 := ⟨n - 1, by omega⟩
        simp only [spec]
        rw [h1 j (by omega)]
        try simp only []
        rw [h2 j (by omega)]
        rfl
      | ok i2 m2 kv =>
        have := hloop (by rw [hr2]; nofun)
        rw [hr2] at this
        obtain ⟨n2, h2⟩ := this
        dsimp only at h2
        refine ⟨n1 + n2 + 1, fun n hn => ?_⟩
        obtain ⟨j, rfl⟩ : ∃ j, n = j + 1 := ⟨n - 1, by omega⟩
        simp only [spec]
        rw [h1 j (by omega)]
        try simp only []
        rw [h2 j (by omega)]
        rfl
  | opt e =>
    simp only [genExpr] at hne ⊢
    simp only [parse] at hne ⊢
    cases hr : parse (gen g) uni k inh (genExpr g sk e) i ⟨S, trk⟩ with
    | oof => rw [hr] at hne; exact absurd rfl hne
    | fail m1 =>
      obtain ⟨n1, h1⟩ := hBk.fail hsk hr
      refine ⟨n1 + 1, fun n hn => ?_⟩
      obtain ⟨j, rfl⟩ : ∃ j, n = j + 1 := ⟨n - 1, by omega⟩
      simp only [spec]
      rw [h1 j (by omega)]
      rfl
    | ok i1 m1 v =>
      obtain ⟨n1, h1⟩ := hBk.ok hsk hr
      refine ⟨n1 + 1, fun n hn => ?_⟩
      obtain ⟨j, rfl⟩ : ∃ j, n = j + 1 := ⟨n - 1, by omega⟩
      simp only [spec]
      rw [h1 j (by omega)]
      rfl
  | rep e =>
    simp only [genExpr] at hne ⊢
    exact (rep_back hB k (Nat.le_refl _) hsk e 0 none i S trk hne).shift (fun n => by simp only [spec])
  | repOnce e =>
    simp only [genExpr] at hne ⊢
    exact (rep_back hB k (Nat.le_refl _) hsk e 1 none i S trk hne).shift (fun n => by simp only [spec])
  | repExact e c =>
    simp only [genExpr] at hne ⊢
    exact (rep_back hB k (Nat.le_refl _) hsk e c (some c) i S trk hne).shift (fun n => by simp only [spec])
  | repMin e c =>
    simp only [genExpr] at hne ⊢
    exact (rep_back hB k (Nat.le_refl _) hsk e c none i S trk hne).shift (fun n => by simp only [spec])
  | repMax e c =>
    simp only [genExpr] at hne ⊢
    exact (rep_back hB k (Nat.le_refl _) hsk e 0 (some c) i S trk hne).shift (fun n => by simp only [spec])
  | repMinMax e c l =>
    simp only [genExpr] at hne ⊢
    exact (rep_back hB k (Nat.le_refl _) hsk e c (some l) i S trk hne).shift (fun n => by simp only [spec])
  | skip needles =>
    simp only [genExpr] at hne ⊢
    refine EvS.leaf (fun j => ?_)
    simp only [spec, parse]
    rfl
  | push e =>
    simp only [genExpr] at hne ⊢
    simp only [parse] at hne ⊢
    cases hr : parse (gen g) uni k inh (genExpr g sk e) i ⟨S, trk⟩ with
    | oof => rw [hr] at hne; exact absurd rfl hne
    | fail m1 =>
      obtain ⟨n1, h1⟩ := hBk.fail hsk hr
      refine ⟨n1 + 1, fun n hn => ?_⟩
      obtain ⟨j, rfl⟩ : ∃ j, n = j + 1 := ⟨n - 1, by omega⟩
      simp only [spec]
      rw [h1 j (by omega)]
      rfl
    | ok i1 m1 v =>
      obtain ⟨n1, h1⟩ := hBk.ok hsk hr
      refine ⟨n1 + 1, fun n hn => ?_⟩
      obtain ⟨j, rfl⟩ : ∃ j, n = j + 1 := ⟨n - 1, by omega⟩
      simp only [spec]
      rw [h1 j (by omega)]
      rfl
  | restoreOnErr e ih =>
    simp only [genExpr] at hne ⊢
    exact (ih hne).shift (fun n => by simp only [spec])

/-- Backward simulation for every typed fuel. -/
theorem back_all {g : PGrammar} {uni : Uni} : ∀ k, Back g uni k := by
  intro k
  induction k using Nat.strongRecOn with
  | _ k ih =>
    cases k with
    | zero => intro inh sk na e i S trk hsk hne; exact absurd rfl hne
    | succ k => exact back_step k (fun m hm => ih m (by omega))


end PestTyped.U
