/-
Lemmas.Mono — spine lemma S1 (fuel monotonicity): once a run has an answer (`.fail` or `.ok`)
at some fuel, every larger fuel gives exactly the same answer (same cursor, state and value).
Fuel is also the iteration budget of `repLoop` (`fuel`, resp. `atomicBudget fuel`): budgets are
monotone too.
-/
import PestTyped.Lemmas.CheckParse
namespace PestTyped

/-- `f'` agrees with `f` wherever `f` does not run out of fuel. -/
def FLe {α} (f f' : Inp → M → R α) : Prop := ∀ i m, f i m ≠ .oof → f' i m = f i m

theorem FLe.eq_of {α} {f f' : Inp → M → R α} (h : FLe f f') {i : Inp} {m : M} {r : R α}
    (hr : f i m = r) (hne : r ≠ .oof) : f' i m = r := by
  rw [← hr] at hne ⊢; exact h i m hne

theorem FLe.refl {α} (f : Inp → M → R α) : FLe f f := fun _ _ _ => rfl

theorem skipLoop_mono {α} {f f' : Inp → M → R α} (h : FLe f f') :
    ∀ k acc, FLe (fun i m => skipLoop f k i m acc) (fun i m => skipLoop f' k i m acc) := by
  intro k
  induction k with
  | zero => intro acc i m _; rfl
  | succ k ih =>
    intro acc i m hne
    simp only [skipLoop] at hne ⊢
    cases hr : f i m with
    | oof => rw [hr] at hne; exact absurd rfl hne
    | fail m' => rw [h.eq_of hr nofun]
    | ok i' m' a =>
      rw [hr] at hne
      rw [h.eq_of hr nofun]
      exact ih _ _ _ hne

theorem seqLoop_mono {α β} {f f' : Node → Inp → M → R α} {sk sk' : Inp → M → R (List β)}
    (mk : List β → α → α) (hf : ∀ n, FLe (f n) (f' n)) (hs : FLe sk sk') :
    ∀ ns acc, FLe (fun i m => seqLoop f sk mk ns i m acc) (fun i m => seqLoop f' sk' mk ns i m acc) := by
  intro ns
  induction ns with
  | nil => intro acc i m _; rfl
  | cons n ns ih =>
    intro acc i m hne
    simp only [seqLoop] at hne ⊢
    cases hr : sk i m with
    | oof => rw [hr] at hne; exact absurd rfl hne
    | fail m' => rw [hs.eq_of hr nofun]
    | ok i' m' a =>
      rw [hr] at hne
      rw [hs.eq_of hr nofun]
      simp only [] at hne ⊢
      cases hr2 : f n i' m' with
      | oof => rw [hr2] at hne; exact absurd rfl hne
      | fail m'' => rw [(hf n).eq_of hr2 nofun]
      | ok i'' m'' b =>
        rw [hr2] at hne
        rw [(hf n).eq_of hr2 nofun]
        exact ih _ _ _ hne

theorem choiceLoop_mono {α} {f f' : Node → Inp → M → R α} (hf : ∀ n, FLe (f n) (f' n)) :
    ∀ ns k, FLe (fun i m => choiceLoop f ns k i m) (fun i m => choiceLoop f' ns k i m) := by
  intro ns
  induction ns with
  | nil => intro k i m _; rfl
  | cons n ns ih =>
    intro k i m hne
    simp only [choiceLoop] at hne ⊢
    cases hr : f n i m with
    | oof => rw [hr] at hne; exact absurd rfl hne
    | fail m' =>
      rw [hr] at hne
      rw [(hf n).eq_of hr nofun]
      simp only [restoreOnNone] at hne ⊢
      exact ih _ _ _ hne
    | ok i' m' a => rw [(hf n).eq_of hr nofun]; rfl

theorem repLoop_mono {α} {u u' : Nat → Inp → M → R α} (hu : ∀ idx, FLe (u idx) (u' idx))
    (min : Nat) (max : Option Nat) :
    ∀ b b' idx acc, b ≤ b' →
      FLe (fun i m => repLoop u min max b idx i m acc) (fun i m => repLoop u' min max b' idx i m acc) := by
  intro b
  induction b with
  | zero => intro b' idx acc _ i m hne; exact absurd rfl hne
  | succ b ih =>
    intro b' idx acc hb i m hne
    cases b' with
    | zero => omega
    | succ b' =>
      simp only [repLoop] at hne ⊢
      by_cases hmax : max = some idx
      · simp only [hmax, if_true]
      · simp only [hmax, if_false] at hne ⊢
        cases hr : u idx i m with
        | oof => rw [hr] at hne; exact absurd rfl hne
        | fail m' => rw [(hu idx).eq_of hr nofun]; rfl
        | ok i' m' a =>
          rw [hr] at hne
          rw [(hu idx).eq_of hr nofun]
          simp only [restoreOnNone] at hne ⊢
          exact ih b' _ _ (by omega) _ _ hne

theorem arrayLoop_mono {α} {f f' : Inp → M → R α} (h : FLe f f') :
    ∀ k acc, FLe (fun i m => arrayLoop f k i m acc) (fun i m => arrayLoop f' k i m acc) := by
  intro k
  induction k with
  | zero => intro acc i m _; rfl
  | succ k ih =>
    intro acc i m hne
    simp only [arrayLoop] at hne ⊢
    cases hr : f i m with
    | oof => rw [hr] at hne; exact absurd rfl hne
    | fail m' => rw [h.eq_of hr nofun]
    | ok i' m' a =>
      rw [hr] at hne
      rw [h.eq_of hr nofun]
      exact ih _ _ _ hne

theorem repUnitP_mono {sk sk' body body' : Inp → M → R Val} (hs : FLe sk sk') (hb : FLe body body')
    (dflt : Val) (k idx : Nat) : FLe (repUnitP sk body dflt k idx) (repUnitP sk' body' dflt k idx) := by
  intro i m hne
  unfold repUnitP at hne ⊢
  by_cases h0 : idx = 0
  · simp only [h0, if_true] at hne ⊢
    cases hr : body i m with
    | oof => rw [hr] at hne; exact absurd rfl hne
    | fail m' => rw [hb.eq_of hr nofun]
    | ok i' m' a => rw [hb.eq_of hr nofun]
  · simp only [h0, if_false] at hne ⊢
    cases hr : skipLoop sk k i m [] with
    | oof => rw [hr] at hne; exact absurd rfl hne
    | fail m' => rw [(skipLoop_mono hs k []).eq_of hr nofun]
    | ok i' m' a =>
      rw [hr] at hne
      rw [(skipLoop_mono hs k []).eq_of hr nofun]
      simp only [] at hne ⊢
      cases hr2 : body i' m' with
      | oof => rw [hr2] at hne; exact absurd rfl hne
      | fail m'' => rw [hb.eq_of hr2 nofun]
      | ok i'' m'' b => rw [hb.eq_of hr2 nofun]

theorem atomicBudget_mono (n : Nat) : atomicBudget n ≤ atomicBudget (n+1) := by
  unfold atomicBudget
  exact Nat.mul_le_mul (by omega) (by omega)

theorem check_succ_of_parse {g : NodeGrammar} {uni : Uni} {n : Nat}
    (ih : ∀ inh node, FLe (parse g uni n inh node) (parse g uni (n+1) inh node)) :
    ∀ inh node, FLe (check g uni n inh node) (check g uni (n+1) inh node) := by
  intro inh node i m hne
  rw [check_eq_parse_forget] at hne
  rw [check_eq_parse_forget, check_eq_parse_forget]
  have : parse g uni n inh node i m ≠ .oof := by
    intro h; rw [h] at hne; exact hne rfl
  rw [ih inh node i m this]

/-- S1, one step, for `parse`. -/
theorem parse_succ (g : NodeGrammar) (uni : Uni) :
    ∀ (n : Nat) (inh : Bool) (node : Node), FLe (parse g uni n inh node) (parse g uni (n+1) inh node) := by
  intro n
  induction n with
  | zero => intro inh node i m hne; exact absurd rfl hne
  | succ n ih =>
    intro inh node i m hne
    have ihc := check_succ_of_parse ih
    cases node with
    | str s => simp only [parse]
    | insens s => simp only [parse]
    | range lo hi => simp only [parse]
    | any => simp only [parse]
    | soi => simp only [parse]
    | eoi => simp only [parse]
    | newline => simp only [parse]
    | charBy p => simp only [parse]
    | skipUntil needles => simp only [parse]
    | skipChars k => simp only [parse]
    | seq sk items =>
      simp only [parse] at hne ⊢
      cases items with
      | nil => rfl
      | cons n0 ns =>
        simp only [] at hne ⊢
        cases hr : parse g uni n inh n0 i m with
        | oof => rw [hr] at hne; exact absurd rfl hne
        | fail m' => rw [(ih inh n0).eq_of hr nofun]
        | ok i' m' v0 =>
          rw [hr] at hne
          rw [(ih inh n0).eq_of hr nofun]
          simp only [] at hne ⊢
          have hl := seqLoop_mono mkSkipped (ih inh)
            (skipLoop_mono (ih false g.skipped) (skipCount sk inh) []) ns []
          cases hr2 : seqLoop (parse g uni n inh)
              (fun i m => skipLoop (parse g uni n false g.skipped) (skipCount sk inh) i m [])
              mkSkipped ns i' m' [] with
          | oof => rw [hr2] at hne; exact absurd rfl hne
          | fail m'' => rw [hl.eq_of hr2 nofun]
          | ok i'' m'' vs => rw [hl.eq_of hr2 nofun]
    | choice alts =>
      simp only [parse] at hne ⊢
      have hl := choiceLoop_mono (ih inh) alts 0
      cases hr : choiceLoop (parse g uni n inh) alts 0 i m with
      | oof => rw [hr] at hne; exact absurd rfl hne
      | fail m' => rw [hl.eq_of hr nofun]
      | ok i' m' v => rw [hl.eq_of hr nofun]
    | opt x =>
      simp only [parse] at hne ⊢
      cases hr : parse g uni n inh x i m with
      | oof => rw [hr] at hne; exact absurd rfl hne
      | fail m' => rw [(ih inh x).eq_of hr nofun]
      | ok i' m' v => rw [(ih inh x).eq_of hr nofun]
    | rep sk min max x =>
      simp only [parse] at hne ⊢
      have hl := repLoop_mono
        (fun idx => repUnitP_mono (ih false g.skipped) (ih inh x) (defaultSkipVal g) (skipCount sk inh) idx)
        min max n (n+1) 0 [] (Nat.le_succ n)
      cases hr : repLoop (repUnitP (parse g uni n false g.skipped) (parse g uni n inh x)
          (defaultSkipVal g) (skipCount sk inh)) min max n 0 i m [] with
      | oof => rw [hr] at hne; exact absurd rfl hne
      | fail m' => rw [hl.eq_of hr nofun]
      | ok i' m' v => rw [hl.eq_of hr nofun]
    | atomicRepeat x =>
      simp only [parse] at hne ⊢
      have hl := repLoop_mono (u := fun _ i m => parse g uni n inh x i m)
        (u' := fun _ i m => parse g uni (n+1) inh x i m) (fun _ => ih inh x)
        0 none (atomicBudget n) (atomicBudget (n+1)) 0 [] (atomicBudget_mono n)
      cases hr : repLoop (fun _ i m => parse g uni n inh x i m) 0 none (atomicBudget n) 0 i
          { m with trk := Tracker.new i } [] with
      | oof => rw [hr] at hne; exact absurd rfl hne
      | fail m' => rw [hl.eq_of hr nofun]
      | ok i' m' v => rw [hl.eq_of hr nofun]
    | pos x =>
      simp only [parse] at hne ⊢
      cases hr : parse g uni n inh x i { m with trk := { m.trk with positive := true } } with
      | oof => rw [hr] at hne; exact absurd rfl hne
      | fail m' => rw [(ih inh x).eq_of hr nofun]
      | ok i' m' v => rw [(ih inh x).eq_of hr nofun]
    | neg x =>
      simp only [parse] at hne ⊢
      cases hr : check g uni n inh x i { m with trk := { m.trk with positive := false } } with
      | oof => rw [hr] at hne; exact absurd rfl hne
      | fail m' => rw [(ihc inh x).eq_of hr nofun]
      | ok i' m' v => rw [(ihc inh x).eq_of hr nofun]
    | push x =>
      simp only [parse] at hne ⊢
      cases hr : parse g uni n inh x i m with
      | oof => rw [hr] at hne; exact absurd rfl hne
      | fail m' => rw [(ih inh x).eq_of hr nofun]
      | ok i' m' v => rw [(ih inh x).eq_of hr nofun]
    | peek => simp only [parse]
    | peekAll => simp only [parse]
    | pop => simp only [parse]
    | popAll => simp only [parse]
    | drop => simp only [parse]
    | peekSlice a b => simp only [parse]
    | ref r f =>
      simp only [parse] at hne ⊢
      cases hd : g.rule? r with
      | none => rfl
      | some d =>
        rw [hd] at hne
        simp only [] at hne ⊢
        cases he : d.emit with
        | expression =>
          rw [he] at hne
          simp only [] at hne ⊢
          cases hr : parse g uni n (f.eval inh) d.body i m with
          | oof => rw [hr] at hne; exact absurd rfl hne
          | fail m' => rw [(ih _ _).eq_of hr nofun]
          | ok i' m' v => rw [(ih _ _).eq_of hr nofun]
        | span =>
          rw [he] at hne
          simp only [] at hne ⊢
          cases hr : check g uni n (f.eval inh) d.body i { m with trk := m.trk.enter r i.pos } with
          | oof => rw [hr] at hne; exact absurd rfl hne
          | fail m' => rw [(ihc _ _).eq_of hr nofun]
          | ok i' m' v => rw [(ihc _ _).eq_of hr nofun]
        | both =>
          rw [he] at hne
          simp only [] at hne ⊢
          cases hr : parse g uni n (f.eval inh) d.body i { m with trk := m.trk.enter r i.pos } with
          | oof => rw [hr] at hne; exact absurd rfl hne
          | fail m' => rw [(ih _ _).eq_of hr nofun]
          | ok i' m' v => rw [(ih _ _).eq_of hr nofun]
    | array k x =>
      simp only [parse, arrayTryInto_arrayLoop] at hne ⊢
      have hl := arrayLoop_mono (ih inh x) k []
      cases hr : arrayLoop (parse g uni n inh x) k i m [] with
      | oof => rw [hr] at hne; exact absurd rfl hne
      | fail m' => rw [hl.eq_of hr nofun]
      | ok i' m' v => rw [hl.eq_of hr nofun]
    | pair a b =>
      simp only [parse] at hne ⊢
      cases hr : parse g uni n inh a i m with
      | oof => rw [hr] at hne; exact absurd rfl hne
      | fail m' => rw [(ih inh a).eq_of hr nofun]
      | ok i' m' va =>
        rw [hr] at hne
        rw [(ih inh a).eq_of hr nofun]
        simp only [] at hne ⊢
        cases hr2 : parse g uni n inh b i' m' with
        | oof => rw [hr2] at hne; exact absurd rfl hne
        | fail m'' => rw [(ih inh b).eq_of hr2 nofun]
        | ok i'' m'' vb => rw [(ih inh b).eq_of hr2 nofun]
    | empty => simp only [parse]
    | alwaysFail => simp only [parse]

/-- S1, one step, for `check`. -/
theorem check_succ (g : NodeGrammar) (uni : Uni) (n : Nat) (inh : Bool) (node : Node) :
    FLe (check g uni n inh node) (check g uni (n+1) inh node) :=
  check_succ_of_parse (parse_succ g uni n) inh node

/-- S1 (fuel monotonicity) for `parse`: an answer obtained with fuel `n` is the answer for every
larger fuel. -/
theorem parse_mono {g : NodeGrammar} {uni : Uni} {n : Nat} {inh : Bool} {node : Node} {i : Inp} {m : M}
    {r : R Val} (h : parse g uni n inh node i m = r) (hne : r ≠ .oof) :
    ∀ k, parse g uni (n+k) inh node i m = r := by
  intro k
  induction k with
  | zero => exact h
  | succ k ih => exact (parse_succ g uni (n+k) inh node).eq_of ih hne

/-- S1 for `check`. -/
theorem check_mono {g : NodeGrammar} {uni : Uni} {n : Nat} {inh : Bool} {node : Node} {i : Inp} {m : M}
    {r : R Unit} (h : check g uni n inh node i m = r) (hne : r ≠ .oof) :
    ∀ k, check g uni (n+k) inh node i m = r := by
  intro k
  induction k with
  | zero => exact h
  | succ k ih => exact (check_succ g uni (n+k) inh node).eq_of ih hne

theorem tryParsePartial_mono {g : NodeGrammar} {uni : Uni} {n : Nat} {r : RuleId} {i : Inp} {res : R Val}
    (h : tryParsePartial g uni n r i = res) (hne : res ≠ .oof) :
    ∀ k, tryParsePartial g uni (n+k) r i = res := parse_mono h hne

theorem tryCheckPartial_mono {g : NodeGrammar} {uni : Uni} {n : Nat} {r : RuleId} {i : Inp} {res : R Unit}
    (h : tryCheckPartial g uni n r i = res) (hne : res ≠ .oof) :
    ∀ k, tryCheckPartial g uni (n+k) r i = res := check_mono h hne

theorem tryParse_mono {g : NodeGrammar} {uni : Uni} {n : Nat} {r : RuleId} {i : Inp} {res : R Val}
    (h : tryParse g uni n r i = res) (hne : res ≠ .oof) :
    ∀ k, tryParse g uni (n+k) r i = res := by
  intro k
  subst h
  unfold tryParse at hne ⊢
  cases hd : g.rule? r with
  | none => rfl
  | some d =>
    rw [hd] at hne
    simp only [] at hne ⊢
    cases hr : parse g uni n true (.ref r .one) i (M.init i) with
    | oof => rw [hr] at hne; exact absurd rfl hne
    | fail m' => rw [parse_mono hr nofun k]
    | ok i' m' v =>
      rw [hr] at hne
      rw [parse_mono hr nofun k]
      simp only [] at hne ⊢
      by_cases hs : noTrailingSkip r d = true
      · simp only [hs, if_true]
      · simp only [hs] at hne ⊢
        cases hr2 : parse g uni n false g.skipped i' m' with
        | oof => rw [hr2] at hne; exact absurd rfl hne
        | fail m'' => rw [parse_mono hr2 nofun k]
        | ok i'' m'' sv => rw [parse_mono hr2 nofun k]

theorem tryCheck_mono {g : NodeGrammar} {uni : Uni} {n : Nat} {r : RuleId} {i : Inp} {res : R Unit}
    (h : tryCheck g uni n r i = res) (hne : res ≠ .oof) :
    ∀ k, tryCheck g uni (n+k) r i = res := by
  intro k
  subst h
  unfold tryCheck at hne ⊢
  cases hd : g.rule? r with
  | none => rfl
  | some d =>
    rw [hd] at hne
    simp only [] at hne ⊢
    cases hr : check g uni n true (.ref r .one) i (M.init i) with
    | oof => rw [hr] at hne; exact absurd rfl hne
    | fail m' => rw [check_mono hr nofun k]
    | ok i' m' v =>
      rw [hr] at hne
      rw [check_mono hr nofun k]
      simp only [] at hne ⊢
      by_cases hs : noTrailingSkip r d = true
      · simp only [hs, if_true]
      · simp only [hs] at hne ⊢
        cases hr2 : check g uni n false g.skipped i' m' with
        | oof => rw [hr2] at hne; exact absurd rfl hne
        | fail m'' => rw [check_mono hr2 nofun k]
        | ok i'' m'' sv => rw [check_mono hr2 nofun k]

end PestTyped
